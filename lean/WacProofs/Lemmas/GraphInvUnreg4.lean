import WacProofs.Lemmas.GraphInvUnreg3
/-
  (B) vacating the package slot, and `unregister_package` as a whole.
-/
namespace Wac.Graph
open Wac Wac.HashSites

theorem inv_vacate {ctx : Ctx} {g2 g' : Graph} {id : PkgId} {slot : PkgSlot} {d : PkgDef}
    (h : Inv ctx g2) (hused : ∀ m x, g2.node? m = some x → x.pkg ≠ some id)
    (hslot : g2.pkgs[id.index]? = some slot) (hgen : slot.gen = id.gen) (hd : slot.pkg = some d)
    (hn : g'.nodes = g2.nodes) (hfn : g'.freeNodes = g2.freeNodes) (he : g'.edges = g2.edges)
    (him : g'.imports = g2.imports) (hde : g'.defined = g2.defined) (hex : g'.exports = g2.exports)
    (hm : g'.pkgMap = alErase g2.pkgMap d.key)
    (hp : g'.pkgs = g2.pkgs.set id.index ⟨none, slot.gen + 1⟩)
    (hfp : g'.freePkgs = id.index :: g2.freePkgs) : Inv ctx g' := by
  have hlt : id.index < g2.pkgs.length := by
    rcases Nat.lt_or_ge id.index g2.pkgs.length with hl | hl
    · exact hl
    · rw [List.getElem?_eq_none hl] at hslot; cases hslot
  have hnode : ∀ m, g'.node? m = g2.node? m := node?_congr hn
  -- lookups of the other slots are unchanged
  have hother : ∀ pid : PkgId, pid.index ≠ id.index → g'.pkgOf pid = g2.pkgOf pid := by
    intro pid hne
    unfold Graph.pkgOf
    rw [hp, List.getElem?_set_ne (Ne.symm hne)]
  -- a live id of this slot is `id` itself, with package `d`
  have hthis : ∀ (pid : PkgId) d', g2.pkgOf pid = .ok d' → pid.index = id.index → pid = id ∧ d' = d := by
    intro pid d' hok hix
    unfold Graph.pkgOf at hok
    rw [hix, hslot] at hok
    simp only at hok
    split at hok
    · cases hok
    · rename_i hg
      rw [hd] at hok
      simp only [Except.ok.injEq] at hok
      refine ⟨?_, hok.symm⟩
      cases pid; cases id
      simp only at hix hg hgen ⊢
      simp only [ne_eq, Decidable.not_not] at hg
      subst hix
      rw [← hg, hgen]
  have husedOk : ∀ (pid : PkgId) d', g2.pkgOf pid = .ok d' → pid ≠ id → g'.pkgOf pid = .ok d' := by
    intro pid d' hok hne
    by_cases hix : pid.index = id.index
    · exact absurd (hthis pid d' hok hix).1 hne
    · rw [hother pid hix]; exact hok
  have hslotOk := h.slot hslot
  unfold SlotOk at hslotOk
  rw [hd] at hslotOk
  simp only at hslotOk
  apply Inv.build
  · -- edges
    intro e hem
    rw [he] at hem
    obtain ⟨s, hs, dn, hdn, hk⟩ := h.edges e hem
    refine ⟨s, by rw [Option.mem_def, hnode]; exact hs, dn, by rw [Option.mem_def, hnode]; exact hdn, ?_⟩
    cases hek : e.kind with
    | alias i => rw [hek] at hk; exact hk
    | arg i =>
      rw [hek] at hk
      simp only at hk ⊢
      obtain ⟨h1, h2, pid, hpid, pd, hpd, hlt'⟩ := hk
      have hne : pid ≠ id := fun e' => hused _ _ hdn (by rw [← e']; exact hpid)
      exact ⟨h1, h2, pid, hpid, pd, toOption_mem.mpr (husedOk _ _ (toOption_mem.mp hpd) hne), hlt'⟩
    | dep => rw [hek] at hk; exact hk
  · rw [he]; exact h.argUnique
  · -- nodes
    intro m x hx
    rw [hnode] at hx
    obtain ⟨h1, h2, h3⟩ := h.node hx
    have hne : ∀ pid, pid ∈ x.pkg → pid ≠ id := fun pid hpid e' => hused _ _ hx (by rw [← e']; exact hpid)
    refine ⟨?_, ?_, by rw [hex]; exact h3⟩
    · intro pid hpid
      have := h1 pid hpid
      unfold Graph.pkgLive at this ⊢
      cases hq : g2.pkgOf pid with
      | error s => rw [hq] at this; cases this
      | ok d' => rw [husedOk pid d' hq (hne pid hpid)]
    · cases hk : x.kind with
      | instantiation sat =>
        rw [hk] at h2
        simp only at h2 ⊢
        rw [he]
        obtain ⟨a, b, pid, hpid, pd, hpd, hit⟩ := h2
        exact ⟨a, b, pid, hpid, pd, toOption_mem.mpr (husedOk _ _ (toOption_mem.mp hpd) (hne pid hpid)), hit⟩
      | alias =>
        rw [hk] at h2
        simp only at h2 ⊢
        unfold Graph.inEdges at h2 ⊢
        rw [he]; exact h2
      | «import» name =>
        rw [hk] at h2
        simp only at h2 ⊢
        rw [him]; exact h2
      | definition ty =>
        rw [hk] at h2
        simp only at h2 ⊢
        rw [hde]; exact h2
  · rw [hex]; exact h.exportsKeys
  · intro e hem; rw [hex] at hem
    obtain ⟨nd, a, b⟩ := h.exportsLive' e hem
    exact ⟨nd, by rw [hnode]; exact a, b⟩
  · rw [him]; exact h.importsKeys
  · intro e hem; rw [him] at hem
    obtain ⟨nd, a, b⟩ := h.importsLive' e hem
    exact ⟨nd, by rw [hnode]; exact a, b⟩
  · rw [hde]; exact h.definedKeys
  · intro e hem; rw [hde] at hem
    obtain ⟨nd, a, b⟩ := h.definedLive' e hem
    exact ⟨nd, by rw [hnode]; exact a, b⟩
  · rw [hm]; exact ((alErase_sublist g2.pkgMap d.key).map _).nodup h.pkgMapKeys
  · -- pkgMapLive
    intro e hem
    rw [hm] at hem
    obtain ⟨hem', hkey⟩ := (alErase_mem h.pkgMapKeys e).mp hem
    obtain ⟨pd, hpd, hk⟩ := h.pkgMapLive e hem'
    have hok := toOption_mem.mp hpd
    have hne : e.2 ≠ id := by
      intro e'
      have := (hthis e.2 pd hok (by rw [e'])).2
      rw [this] at hk
      exact hkey hk.symm
    exact ⟨pd, toOption_mem.mpr (husedOk _ _ hok hne), hk⟩
  · -- pkgSlots
    intro j hj slot' hs'
    rw [hp] at hs'
    by_cases hji : j = id.index
    · subst hji
      rw [List.getElem?_set_self hlt] at hs'
      simp only [Option.mem_def, Option.some.injEq] at hs'
      subst hs'
      unfold SlotOk
      simp only
      rw [hfp]; exact List.mem_cons_self ..
    · rw [List.getElem?_set_ne (Ne.symm hji)] at hs'
      have so := h.slot hs'
      unfold SlotOk at so ⊢
      rw [hm, hfp]
      cases hq : slot'.pkg with
      | none =>
        rw [hq] at so
        simp only at so ⊢
        exact List.mem_cons_of_mem _ so
      | some pd =>
        rw [hq] at so
        simp only at so ⊢
        have hkne : d.key ≠ pd.key := by
          intro e'
          rw [← e', hslotOk.1] at so
          have := congrArg PkgId.index (Option.some.inj so.1)
          exact hji this.symm
        refine ⟨by rw [alGet_alErase_other hkne]; exact so.1, ?_⟩
        intro hmem
        rcases List.mem_cons.mp hmem with e' | e'
        · exact hji e'
        · exact so.2 e'
  · rw [hfp, List.nodup_cons]; exact ⟨hslotOk.2, h.freePkgsNodup⟩
  · intro j hj
    rw [hfp] at hj
    rw [hp, List.length_set]
    rcases List.mem_cons.mp hj with rfl | hj
    · exact hlt
    · exact h.freePkgsRange j hj
  · have f := h.free
    refine ⟨by rw [hfn]; exact f.nodup, ?_, ?_⟩
    · intro j hj
      rw [hfn] at hj
      rw [hn, hnode]; exact f.vacant j hj
    · intro j hj hv
      rw [hn] at hj
      rw [hnode] at hv
      rw [hfn]; exact f.all j hj hv

theorem inv_unregisterPackage {ctx : Ctx} {g g' : Graph} {id : PkgId} {out : Outcome}
    (h : Inv ctx g) (hs : unregisterPackage .fixed g id = (g', out)) (hp : out.isPanic = false) : Inv ctx g' := by
  -- the only non-panicking outcome is `Ok(())`
  have hout : out = .ok .unit := by
    unfold unregisterPackage at hs
    split at hs
    · simp only [Prod.mk.injEq] at hs; rw [← hs.2] at hp; cases hp
    · split at hs
      · simp only [Prod.mk.injEq] at hs; rw [← hs.2] at hp; cases hp
      · split at hs
        · dsimp only at hs
          split at hs
          · simp only [Prod.mk.injEq] at hs; rw [← hs.2] at hp; cases hp
          · split at hs
            · simp only [Prod.mk.injEq] at hs; rw [← hs.2] at hp; cases hp
            · split at hs
              · simp only [Prod.mk.injEq] at hs; rw [← hs.2] at hp; cases hp
              · simp only [Prod.mk.injEq] at hs; exact hs.2.symm
        · simp only [Prod.mk.injEq] at hs; rw [← hs.2] at hp; cases hp
  rw [hout] at hs
  obtain ⟨slot, d, g1, hslot, hgen, hd, hc, _, rfl⟩ := unregister_full hs
  obtain ⟨hmid, hused, p1, p2, p3⟩ := inv_unregMid h hc
  refine inv_vacate (g2 := unregMid g g1 id) hmid hused (by rw [p1]; exact hslot) hgen hd rfl rfl rfl rfl rfl rfl ?_ ?_ ?_
  · show alErase g.pkgMap d.key = _; rw [p2]
  · show g.pkgs.set id.index ⟨none, slot.gen + 1⟩ = _; rw [p1]
  · show id.index :: g.freePkgs = _; rw [p3]

end Wac.Graph
