import WacModel.Lexer
import WacModel.Parser
import WacModel.PrintChars
/-
  C13: the characters of a lexer item (token text and the doc comments in front of it) satisfy
  `q` — the interface between `tokenize_chars` (they are characters of the source text,
  WacProofs/Lemmas/PrinterCharsLex.lean), `parseTokens_chars` (the parser puts only such
  characters into the leaves of the tree, WacProofs/Lemmas/PrinterCharsParse.lean) and
  `document_chars` (the printer writes only literal characters and characters of leaves,
  WacProofs/Lemmas/PrinterCharsPrint.lean).
-/
namespace Wac.Lemmas.PrinterChars
open Wac Wac.Ast Wac.Lex Wac.Parse

/-- all characters of the token text and of the doc comments attached to the token satisfy `q` -/
def TokChars (q : Char → Bool) (t : LTok) : Prop :=
  (∀ c ∈ t.text, q c = true) ∧ ∀ dc ∈ t.docs, ∀ c ∈ dc.comment, q c = true

/-- all tokens a parser state still has to read -/
def ToksChars (q : Char → Bool) (st : PState) : Prop := ∀ t ∈ st.toks, TokChars q t

end Wac.Lemmas.PrinterChars
