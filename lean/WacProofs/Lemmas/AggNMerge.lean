import WacProofs.Lemmas.AggNRemap
/-
  C09 general theorems, part 18: `merge_interface` on NESTED interfaces (repaired configuration:
  `cfg.nestedMerge`).  Nested instance exports are merged recursively on a fresh copy; the merged
  target unfolds to `R` with `meet (.instance F) (.instance G) = some (.instance R)` — the
  specification's greatest common subtype, at every nesting depth.
-/
namespace Wac.AggP
open Wac Wac.Spec

/-- the target of a nested merge -/
structure NState (W : Colls) (types : Types) (S : Nat → Prop) (e : Nat) (s : AggState) (F : Forest) : Prop where
  ni : NI W types S s
  nested : s.cfg.nestedMerge = true
  mutE : S e
  itf : ∃ ti, s.agg.types.interfaces[e]? = some ti ∧ ∃ n, unfoldItems (s.agg.types.unfoldKind n) ti.exports = some F
  nd : F.namesDistinct = true

/-- what a nested merge into interface `e` may change -/
structure NStep (u e : Nat) (s s' : AggState) : Prop where
  ext : Ext s.agg.types s'.agg.types
  len : s.agg.types.interfaces.length ≤ s'.agg.types.interfaces.length
  others : ∀ i, i < s.agg.types.interfaces.length → i ≠ e → s'.agg.types.interfaces[i]? = s.agg.types.interfaces[i]?
  worlds : s'.agg.types.worlds = s.agg.types.worlds
  modules : s'.agg.types.modules = s.agg.types.modules
  cfg : s'.cfg = s.cfg
  imports : s'.agg.imports = s.agg.imports
  imap : s'.agg.interfaces = s.agg.interfaces
  redirects : s'.agg.redirects = s.agg.redirects
  keys : ∀ g, g.ty.hasId = true → (alGet s'.agg.remapped g).isSome = true →
    (alGet s.agg.remapped g).isSome = true ∨ g.uid = u

theorem NStep.refl (u e : Nat) (s : AggState) : NStep u e s s :=
  ⟨Ext.refl _, Nat.le_refl _, fun _ _ _ => rfl, rfl, rfl, rfl, rfl, rfl, rfl, fun _ _ h => .inl h⟩

theorem NStep.trans {u e : Nat} {s s' s'' : AggState} (h1 : NStep u e s s') (h2 : NStep u e s' s'') : NStep u e s s'' :=
  ⟨h1.ext.trans h2.ext, Nat.le_trans h1.len h2.len,
    fun i hi he => (h2.others i (Nat.lt_of_lt_of_le hi h1.len) he).trans (h1.others i hi he),
    h2.worlds.trans h1.worlds, h2.modules.trans h1.modules, h2.cfg.trans h1.cfg, h2.imports.trans h1.imports,
    h2.imap.trans h1.imap, h2.redirects.trans h1.redirects, fun g hid h => by
      rcases h2.keys g hid h with h | h
      · exact h1.keys g hid h
      · exact .inr h⟩

theorem NStep.frame {u e : Nat} {s s' : AggState} {S : Nat → Prop} (h : NStep u e s s') (he : S e) :
    Frame S s.agg.types s'.agg.types :=
  ⟨h.ext, h.len, fun j hj hs => h.others j hj (fun hc => hs (hc ▸ he))⟩

theorem NRStep.toNStep {u : Nat} (e : Nat) {s s' : AggState} (h : NRStep u s s') : NStep u e s s' :=
  ⟨h.ext, h.len, fun i hi _ => h.same i hi, h.worlds, h.modules, h.cfg, h.imports, h.imap, h.redirects, h.keys⟩

theorem MStep.toNStep {u e : Nat} {s s' : AggState} (h : MStep u e s s') : NStep u e s s' :=
  ⟨h.ext, by rw [h.len], fun i _ hi => h.others i hi, h.worlds, h.modules, h.cfg, h.imports, h.imap, h.redirects, h.keys⟩

/-! ### forests -/

theorem meetShared_nil : ∀ F : Forest, meetShared F .nil = some F
  | .nil => rfl
  | .cons n t r => by simp [meetShared, Forest.get, meetShared_nil r]

theorem nd_setF : ∀ (F : Forest) (n : Str) (t : Tree), F.namesDistinct = true → t.namesDistinct = true →
    (setF F n t).namesDistinct = true
  | .nil, _, _, _, _ => rfl
  | .cons m u r, n, t, hF, ht => by
    simp only [Forest.namesDistinct, Bool.and_eq_true, Bool.not_eq_true'] at hF
    simp only [setF]
    split
    · simp only [Forest.namesDistinct, Bool.and_eq_true, Bool.not_eq_true']
      exact ⟨⟨hF.1.1, ht⟩, hF.2⟩
    · simp only [Forest.namesDistinct, Bool.and_eq_true, Bool.not_eq_true', hasName_setF]
      exact ⟨⟨hF.1.1, hF.1.2⟩, nd_setF r n t hF.2 ht⟩

/-- overwriting the kind of an existing export -/
theorem unfoldItems_amInsert_present {u : ItemKind → Option Tree} : ∀ (E : List (Str × ItemKind)) (F : Forest) (n : Str)
    (k : ItemKind) (t : Tree), unfoldItems u E = some F → (amGet E n).isSome = true → u k = some t →
    unfoldItems u (amInsert E n k) = some (setF F n t)
  | [], _, _, _, _, _, h, _ => by simp [amGet] at h
  | (m, km) :: E, F, n, k, t, hE, hget, hk => by
    obtain ⟨t0, fr, h1, h2, rfl⟩ := unfoldItems_cons m km E F hE
    simp only [amInsert, setF]
    by_cases hm : (m == n) = true
    · have e : m = n := by simpa using hm
      subst e
      simp only [BEq.rfl, ↓reduceIte, unfoldItems, hk, h2]
    · have hm' : (m == n) = false := by simpa using hm
      simp only [amGet, hm', Bool.false_eq_true, ↓reduceIte] at hget
      simp only [hm', Bool.false_eq_true, ↓reduceIte, unfoldItems, h1,
        unfoldItems_amInsert_present E fr n k t h2 hget hk]

theorem amInsert_mem {β : Type} : ∀ (E : List (Str × β)) (n : Str) (k : β) (x : Str × β),
    x ∈ amInsert E n k → x ∈ E ∨ x = (n, k)
  | [], n, k, x, h => by simp [amInsert] at h; exact .inr h
  | (m, v) :: E, n, k, x, h => by
    simp only [amInsert] at h
    split at h
    · rcases List.mem_cons.1 h with rfl | h
      · exact .inr rfl
      · exact .inl (List.mem_cons_of_mem _ h)
    · rcases List.mem_cons.1 h with rfl | h
      · exact .inl List.mem_cons_self
      · rcases amInsert_mem E n k x h with h | h
        · exact .inl (List.mem_cons_of_mem _ h)
        · exact .inr h

/-! ### kinds that cannot be related -/

/-- a leaf kind against an instance kind: the checker answers with a mismatch and changes nothing -/
theorem chk_mismatch {W : Colls} {T : Types} (s : AggState) (hc : CInv W T s.chk.cache)
    (at_ bt : Types) (a b : ItemKind)
    (hab : (LeafK a ∧ ∃ t, b = .instance t) ∨ ((∃ t, a = .instance t) ∧ LeafK b)) :
    (∃ m, chkSubtype at_ a bt b s = .ok (.err m, s)) ∧ ∃ m, chkSubtypeQ at_ a bt b s = .error (.err m) := by
  have hfuel : ∃ n, checkFuel at_ bt = n + 1 := ⟨checkFuel at_ bt - 1, by simp only [checkFuel, Types.fuel]; omega⟩
  obtain ⟨n, hn⟩ := hfuel
  have hmiss : s.chk.cache.contains (GKind.mk' at_ a, GKind.mk' bt b) = false := by
    rw [Bool.eq_false_iff]
    intro hcon
    have hmem : (GKind.mk' at_ a, GKind.mk' bt b) ∈ s.chk.cache := by simpa using hcon
    obtain ⟨⟨l1, _⟩, ⟨l2, _⟩⟩ := hc.keys _ hmem
    rcases hab with ⟨_, t, rfl⟩ | ⟨⟨t, rfl⟩, _⟩
    · exact l2
    · exact l1
  have hmis : ∀ (v : Variance) (x y : String), ∃ m, mismatch v x y = R.err m := by
    intro v x y; cases v <;> exact ⟨_, rfl⟩
  have hinner : ∃ m, isSubtypeInner (fun c x y => isSubtype n c at_ x bt y) (fun c y x => isSubtype n c bt y at_ x)
      n s.chk at_ a bt b = (.err m, s.chk) := by
    rcases hab with ⟨la, t, rfl⟩ | ⟨⟨t, rfl⟩, lb⟩
    · cases a with
      | func f =>
        obtain ⟨m, hm⟩ := hmis s.chk.kind (at_.descKind (.func f)) (bt.descKind (.instance t))
        exact ⟨m, by simp only [isSubtypeInner, hm]⟩
      | value v =>
        obtain ⟨m, hm⟩ := hmis s.chk.kind (at_.descKind (.value v)) (bt.descKind (.instance t))
        exact ⟨m, by simp only [isSubtypeInner, hm]⟩
      | _ => cases la
    · cases b with
      | func f =>
        obtain ⟨m, hm⟩ := hmis s.chk.kind (at_.descKind (.instance t)) (bt.descKind (.func f))
        exact ⟨m, by simp only [isSubtypeInner, hm]⟩
      | value v =>
        obtain ⟨m, hm⟩ := hmis s.chk.kind (at_.descKind (.instance t)) (bt.descKind (.value v))
        exact ⟨m, by simp only [isSubtypeInner, hm]⟩
      | _ => cases lb
  obtain ⟨m, hm⟩ := hinner
  have hsub : isSubtype (checkFuel at_ bt) s.chk at_ a bt b = (.err m, s.chk) := by
    rw [hn]
    simp only [isSubtype, hmiss, Bool.false_eq_true, ↓reduceIte, hm]
  constructor
  · exact ⟨m, by rw [run_chkSubtype, hsub]⟩
  · exact ⟨m, by simp only [chkSubtypeQ, run_bind, run_chkSubtype, hsub]; rfl⟩

/-! ### the loop -/

theorem nest_loop {W : Colls} {types : Types} {S : Nat → Prop} {e u d : Nat} {f : Str × ItemKind → AggM Unit}
    (hstep : ∀ (n : Str) (sk : ItemKind) (s s' : AggState) (F : Forest) (ts : Tree),
      NState W types S e s F → SrcK types d sk → types.unfoldKind types.fuel sk = some ts → ts.namesDistinct = true →
      f (n, sk) s = .ok ((), s') →
      NStep u e s s' ∧ ((∃ tf r, F.get n = some tf ∧ meet tf ts = some r ∧ NState W types S e s' (setF F n r)) ∨
        (F.hasName n = false ∧ NState W types S e s' (snoc F n ts)))) :
    ∀ (Q : List (Str × ItemKind)) (G : Forest) (s s' : AggState) (F : Forest), NState W types S e s F →
      (∀ x, x ∈ Q → SrcK types d x.2) → unfoldItems (types.unfoldKind types.fuel) Q = some G → G.namesDistinct = true →
      forMList f Q s = .ok ((), s') →
      NStep u e s s' ∧ ∃ M, meetShared F G = some M ∧ NState W types S e s' (appendMissing M G)
  | [], G, s, s', F, hT, _, hG, _, h => by
    simp only [forMList, run_pure, Except.ok.injEq, Prod.mk.injEq, true_and] at h
    subst h
    simp only [unfoldItems, Option.some.injEq] at hG
    subst hG
    exact ⟨NStep.refl _ _ _, F, meetShared_nil F, by rw [appendMissing_nil]; exact hT⟩
  | (n, sk) :: Q, G, s, s', F, hT, hl, hG, hnd, h => by
    simp only [forMList, bind_ok] at h
    obtain ⟨_, s1, h1, h2⟩ := h
    obtain ⟨ts, G', hts, hG', rfl⟩ := unfoldItems_cons n sk Q G hG
    simp only [Forest.namesDistinct, Bool.and_eq_true, Bool.not_eq_true'] at hnd
    obtain ⟨⟨hn', htsnd⟩, hG'nd⟩ := hnd
    obtain ⟨hm1, hcase⟩ := hstep n sk s s1 F ts hT (hl (n, sk) List.mem_cons_self) hts htsnd h1
    have hlQ : ∀ x, x ∈ Q → SrcK types d x.2 := fun x hx => hl x (List.mem_cons_of_mem _ hx)
    rcases hcase with ⟨tf, r, hf, hmeet, hT1⟩ | ⟨hhas, hT1⟩
    · obtain ⟨hm2, M, hM, hT2⟩ := nest_loop hstep Q G' s1 s' (setF F n r) hT1 hlQ hG' hG'nd h2
      refine ⟨hm1.trans hm2, M, ?_, ?_⟩
      · rw [meetShared_cons_present F G' n ts tf r (keysNd_of_nd F hT.nd) hf hmeet hn']; exact hM
      · have hMn : M.hasName n = true := by
          rw [meetShared_hasName _ _ _ hM, hasName_setF]; exact Forest.get_hasName hf
        rw [appendMissing_cons_present M G' n ts hMn]; exact hT2
    · obtain ⟨hm2, M1, hM1, hT2⟩ := nest_loop hstep Q G' s1 s' (snoc F n ts) hT1 hlQ hG' hG'nd h2
      rw [meetShared_snoc F G' n ts hn'] at hM1
      obtain ⟨M0, hM0, rfl⟩ := Option.map_eq_some_iff.1 hM1
      refine ⟨hm1.trans hm2, M0, ?_, ?_⟩
      · rw [meetShared_cons_absent F G' n ts hhas]; exact hM0
      · have hM0n : M0.hasName n = false := by rw [meetShared_hasName _ _ _ hM0]; exact hhas
        rw [appendMissing_cons_absent M0 G' n ts hM0n hn']; exact hT2

theorem setF_self : ∀ (F : Forest) (n : Str) (t : Tree), F.get n = some t → setF F n t = F
  | .nil, _, _, h => by simp [Forest.get] at h
  | .cons m u r, n, t, h => by
    simp only [setF]
    by_cases hm : (m == n) = true
    · simp only [Forest.get, hm, ↓reduceIte, Option.some.injEq] at h
      subst h; simp [hm]
    · have hm' : (m == n) = false := by simpa using hm
      simp only [Forest.get, hm', Bool.false_eq_true, ↓reduceIte] at h
      simp [hm', setF_self r n t h]

end Wac.AggP
