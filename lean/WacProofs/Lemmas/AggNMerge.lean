import WacProofs.Lemmas.AggNRemap
/-
  C09 general theorems, part 18: `merge_interface` on NESTED interfaces (repaired configuration:
  `cfg.nestedMerge`).  Nested instance exports are merged recursively on a fresh copy; the merged
  target unfolds to `R` with `meet (.instance F) (.instance G) = some (.instance R)` — the
  specification's greatest common subtype, at every nesting depth.
-/
namespace Wac.AggP
open Wac Wac.Spec

/-- the target of a nested merge -/
structure NState (W : Colls) (types : Types) (S : Nat → Prop) (e : Nat) (s : AggState) (F : Forest) : Prop where
  ni : NI W types S s
  nested : s.cfg.nestedMerge = true ∧ s.cfg.typeMerge = true
  mutE : S e
  itf : ∃ ti, s.agg.types.interfaces[e]? = some ti ∧ ∃ n, unfoldItems (s.agg.types.unfoldKind n) ti.exports = some F
  nd : F.namesDistinct = true

/-- what a nested merge into interface `e` may change -/
structure NStep (u e : Nat) (s s' : AggState) : Prop where
  ext : Ext s.agg.types s'.agg.types
  len : s.agg.types.interfaces.length ≤ s'.agg.types.interfaces.length
  others : ∀ i, i < s.agg.types.interfaces.length → i ≠ e → s'.agg.types.interfaces[i]? = s.agg.types.interfaces[i]?
  worlds : s'.agg.types.worlds = s.agg.types.worlds
  modules : s'.agg.types.modules = s.agg.types.modules
  cfg : s'.cfg = s.cfg
  imports : s'.agg.imports = s.agg.imports
  imap : s'.agg.interfaces = s.agg.interfaces
  redirects : s'.agg.redirects = s.agg.redirects
  keys : ∀ g, g.ty.hasId = true → (alGet s'.agg.remapped g).isSome = true →
    (alGet s.agg.remapped g).isSome = true ∨ g.uid = u

theorem NStep.refl (u e : Nat) (s : AggState) : NStep u e s s :=
  ⟨Ext.refl _, Nat.le_refl _, fun _ _ _ => rfl, rfl, rfl, rfl, rfl, rfl, rfl, fun _ _ h => .inl h⟩

theorem NStep.trans {u e : Nat} {s s' s'' : AggState} (h1 : NStep u e s s') (h2 : NStep u e s' s'') : NStep u e s s'' :=
  ⟨h1.ext.trans h2.ext, Nat.le_trans h1.len h2.len,
    fun i hi he => (h2.others i (Nat.lt_of_lt_of_le hi h1.len) he).trans (h1.others i hi he),
    h2.worlds.trans h1.worlds, h2.modules.trans h1.modules, h2.cfg.trans h1.cfg, h2.imports.trans h1.imports,
    h2.imap.trans h1.imap, h2.redirects.trans h1.redirects, fun g hid h => by
      rcases h2.keys g hid h with h | h
      · exact h1.keys g hid h
      · exact .inr h⟩

theorem NStep.frame {u e : Nat} {s s' : AggState} {S : Nat → Prop} (h : NStep u e s s') (he : S e) :
    Frame S s.agg.types s'.agg.types :=
  ⟨h.ext, h.len, fun j hj hs => h.others j hj (fun hc => hs (hc ▸ he))⟩

theorem NRStep.toNStep {u : Nat} (e : Nat) {s s' : AggState} (h : NRStep u s s') : NStep u e s s' :=
  ⟨h.ext, h.len, fun i hi _ => h.same i hi, h.worlds, h.modules, h.cfg, h.imports, h.imap, h.redirects, h.keys⟩

theorem MStep.toNStep {u e : Nat} {s s' : AggState} (h : MStep u e s s') : NStep u e s s' :=
  ⟨h.ext, by rw [h.len], fun i _ hi => h.others i hi, h.worlds, h.modules, h.cfg, h.imports, h.imap, h.redirects, h.keys⟩

/-! ### forests -/

theorem meetShared_nil : ∀ F : Forest, meetShared F .nil = some F
  | .nil => rfl
  | .cons n t r => by simp [meetShared, Forest.get, meetShared_nil r]

theorem nd_setF : ∀ (F : Forest) (n : Str) (t : Tree), F.namesDistinct = true → t.namesDistinct = true →
    (setF F n t).namesDistinct = true
  | .nil, _, _, _, _ => rfl
  | .cons m u r, n, t, hF, ht => by
    simp only [Forest.namesDistinct, Bool.and_eq_true, Bool.not_eq_true'] at hF
    simp only [setF]
    split
    · simp only [Forest.namesDistinct, Bool.and_eq_true, Bool.not_eq_true']
      exact ⟨⟨hF.1.1, ht⟩, hF.2⟩
    · simp only [Forest.namesDistinct, Bool.and_eq_true, Bool.not_eq_true', hasName_setF]
      exact ⟨⟨hF.1.1, hF.1.2⟩, nd_setF r n t hF.2 ht⟩

/-- overwriting the kind of an existing export -/
theorem unfoldItems_amInsert_present {u : ItemKind → Option Tree} : ∀ (E : List (Str × ItemKind)) (F : Forest) (n : Str)
    (k : ItemKind) (t : Tree), unfoldItems u E = some F → (amGet E n).isSome = true → u k = some t →
    unfoldItems u (amInsert E n k) = some (setF F n t)
  | [], _, _, _, _, _, h, _ => by simp [amGet] at h
  | (m, km) :: E, F, n, k, t, hE, hget, hk => by
    obtain ⟨t0, fr, h1, h2, rfl⟩ := unfoldItems_cons m km E F hE
    simp only [amInsert, setF]
    by_cases hm : (m == n) = true
    · have e : m = n := by simpa using hm
      subst e
      simp only [BEq.rfl, ↓reduceIte, unfoldItems, hk, h2]
    · have hm' : (m == n) = false := by simpa using hm
      simp only [amGet, hm', Bool.false_eq_true, ↓reduceIte] at hget
      simp only [hm', Bool.false_eq_true, ↓reduceIte, unfoldItems, h1,
        unfoldItems_amInsert_present E fr n k t h2 hget hk]

theorem amInsert_mem {β : Type} : ∀ (E : List (Str × β)) (n : Str) (k : β) (x : Str × β),
    x ∈ amInsert E n k → x ∈ E ∨ x = (n, k)
  | [], n, k, x, h => by simp [amInsert] at h; exact .inr h
  | (m, v) :: E, n, k, x, h => by
    simp only [amInsert] at h
    split at h
    · rcases List.mem_cons.1 h with rfl | h
      · exact .inr rfl
      · exact .inl (List.mem_cons_of_mem _ h)
    · rcases List.mem_cons.1 h with rfl | h
      · exact .inl List.mem_cons_self
      · rcases amInsert_mem E n k x h with h | h
        · exact .inl (List.mem_cons_of_mem _ h)
        · exact .inr h

/-! ### kinds that cannot be related -/

/-- the pairs of kinds on which `is_subtype_` falls through to its `mismatch` arm -/
def innerFalls : ItemKind → ItemKind → Bool
  | .type ta, .type tb =>
    match ta, tb with
    | .resource _, .resource _ => false
    | .func _, .func _ => false
    | .value _, .value _ => false
    | .interface _, .interface _ => false
    | .world _, .world _ => false
    | .module _, .module _ => false
    | _, _ => true
  | .func _, .func _ => false
  | .instance _, .instance _ => false
  | .component _, .component _ => false
  | .module _, .module _ => false
  | .value _, .value _ => false
  | _, _ => true

theorem inner_mismatch (fwd bwd : Checker → ItemKind → ItemKind → R × Checker) (n : Nat) (c : Checker)
    (at_ : Types) (a : ItemKind) (bt : Types) (b : ItemKind) (h : innerFalls a b = true) :
    ∃ m, isSubtypeInner fwd bwd n c at_ a bt b = (.err m, c) := by
  have hmis : ∀ (v : Variance) (x y : String), ∃ m, (mismatch v x y, c) = (R.err m, c) := by
    intro v x y; cases v <;> exact ⟨_, rfl⟩
  cases a with
  | type ta =>
    cases b with
    | type tb =>
      cases ta <;> cases tb <;> first
        | (simp [innerFalls] at h; done)
        | (simp only [isSubtypeInner]; exact hmis _ _ _)
    | _ =>
      cases ta <;> (simp only [isSubtypeInner]; exact hmis _ _ _)
  | _ =>
    cases b <;> first
      | (simp [innerFalls] at h; done)
      | (simp only [isSubtypeInner]; exact hmis _ _ _)

theorem innerFalls_leaf_wrap {a : ItemKind} (la : LeafK a) (w : Bool) (t : Nat) : innerFalls a (wrapK w t) = true := by
  cases a with
  | type ty => cases ty <;> first | (cases w <;> rfl) | cases la
  | _ => first | (cases w <;> rfl) | cases la

theorem innerFalls_wrap_leaf {b : ItemKind} (lb : LeafK b) (w : Bool) (t : Nat) : innerFalls (wrapK w t) b = true := by
  cases b with
  | type ty => cases ty <;> first | (cases w <;> rfl) | cases lb
  | _ => first | (cases w <;> rfl) | cases lb

theorem innerFalls_wrap_ne (w : Bool) (t t' : Nat) : innerFalls (wrapK w t) (wrapK (!w) t') = true := by
  cases w <;> rfl

/-- two kinds that `is_subtype_` cannot relate, one of them not a leaf kind: the checker answers
with a mismatch and changes nothing -/
theorem chk_mismatch {W : Colls} {T : Types} (s : AggState) (hc : CInv W T s.chk.cache)
    (at_ bt : Types) (a b : ItemKind) (hf : innerFalls a b = true) (hnl : ¬ LeafK a ∨ ¬ LeafK b) :
    (∃ m, chkSubtype at_ a bt b s = .ok (.err m, s)) ∧ ∃ m, chkSubtypeQ at_ a bt b s = .error (.err m) := by
  have hfuel : ∃ n, checkFuel at_ bt = n + 1 := ⟨checkFuel at_ bt - 1, by simp only [checkFuel, Types.fuel]; omega⟩
  obtain ⟨n, hn⟩ := hfuel
  have hmiss : s.chk.cache.contains (GKind.mk' at_ a, GKind.mk' bt b) = false := by
    rw [Bool.eq_false_iff]
    intro hcon
    have hmem : (GKind.mk' at_ a, GKind.mk' bt b) ∈ s.chk.cache := by simpa using hcon
    obtain ⟨⟨l1, _⟩, ⟨l2, _⟩⟩ := hc.keys _ hmem
    rcases hnl with h | h
    · exact h l1
    · exact h l2
  obtain ⟨m, hm⟩ := inner_mismatch (fun c x y => isSubtype n c at_ x bt y) (fun c y x => isSubtype n c bt y at_ x)
    n s.chk at_ a bt b hf
  have hsub : isSubtype (checkFuel at_ bt) s.chk at_ a bt b = (.err m, s.chk) := by
    rw [hn]
    simp only [isSubtype, hmiss, Bool.false_eq_true, ↓reduceIte, hm]
  constructor
  · exact ⟨m, by rw [run_chkSubtype, hsub]⟩
  · exact ⟨m, by simp only [chkSubtypeQ, run_bind, run_chkSubtype, hsub]; rfl⟩

/-! ### the loop -/

theorem nest_loop {W : Colls} {types : Types} {S : Nat → Prop} {e u d : Nat} {f : Str × ItemKind → AggM Unit}
    (hstep : ∀ (n : Str) (sk : ItemKind) (s s' : AggState) (F : Forest) (ts : Tree),
      NState W types S e s F → SrcK types d sk → types.unfoldKind types.fuel sk = some ts → ts.namesDistinct = true →
      f (n, sk) s = .ok ((), s') →
      NStep u e s s' ∧ ((∃ tf r, F.get n = some tf ∧ meet tf ts = some r ∧ NState W types S e s' (setF F n r)) ∨
        (F.hasName n = false ∧ NState W types S e s' (snoc F n ts)))) :
    ∀ (Q : List (Str × ItemKind)) (G : Forest) (s s' : AggState) (F : Forest), NState W types S e s F →
      (∀ x, x ∈ Q → SrcK types d x.2) → unfoldItems (types.unfoldKind types.fuel) Q = some G → G.namesDistinct = true →
      forMList f Q s = .ok ((), s') →
      NStep u e s s' ∧ ∃ M, meetShared F G = some M ∧ NState W types S e s' (appendMissing M G)
  | [], G, s, s', F, hT, _, hG, _, h => by
    simp only [forMList, run_pure, Except.ok.injEq, Prod.mk.injEq, true_and] at h
    subst h
    simp only [unfoldItems, Option.some.injEq] at hG
    subst hG
    exact ⟨NStep.refl _ _ _, F, meetShared_nil F, by rw [appendMissing_nil]; exact hT⟩
  | (n, sk) :: Q, G, s, s', F, hT, hl, hG, hnd, h => by
    simp only [forMList, bind_ok] at h
    obtain ⟨_, s1, h1, h2⟩ := h
    obtain ⟨ts, G', hts, hG', rfl⟩ := unfoldItems_cons n sk Q G hG
    simp only [Forest.namesDistinct, Bool.and_eq_true, Bool.not_eq_true'] at hnd
    obtain ⟨⟨hn', htsnd⟩, hG'nd⟩ := hnd
    obtain ⟨hm1, hcase⟩ := hstep n sk s s1 F ts hT (hl (n, sk) List.mem_cons_self) hts htsnd h1
    have hlQ : ∀ x, x ∈ Q → SrcK types d x.2 := fun x hx => hl x (List.mem_cons_of_mem _ hx)
    rcases hcase with ⟨tf, r, hf, hmeet, hT1⟩ | ⟨hhas, hT1⟩
    · obtain ⟨hm2, M, hM, hT2⟩ := nest_loop hstep Q G' s1 s' (setF F n r) hT1 hlQ hG' hG'nd h2
      refine ⟨hm1.trans hm2, M, ?_, ?_⟩
      · rw [meetShared_cons_present F G' n ts tf r (keysNd_of_nd F hT.nd) hf hmeet hn']; exact hM
      · have hMn : M.hasName n = true := by
          rw [meetShared_hasName _ _ _ hM, hasName_setF]; exact Forest.get_hasName hf
        rw [appendMissing_cons_present M G' n ts hMn]; exact hT2
    · obtain ⟨hm2, M1, hM1, hT2⟩ := nest_loop hstep Q G' s1 s' (snoc F n ts) hT1 hlQ hG' hG'nd h2
      rw [meetShared_snoc F G' n ts hn'] at hM1
      obtain ⟨M0, hM0, rfl⟩ := Option.map_eq_some_iff.1 hM1
      refine ⟨hm1.trans hm2, M0, ?_, ?_⟩
      · rw [meetShared_cons_absent F G' n ts hhas]; exact hM0
      · have hM0n : M0.hasName n = false := by rw [meetShared_hasName _ _ _ hM0]; exact hhas
        rw [appendMissing_cons_absent M0 G' n ts hM0n hn']; exact hT2

theorem setF_self : ∀ (F : Forest) (n : Str) (t : Tree), F.get n = some t → setF F n t = F
  | .nil, _, _, h => by simp [Forest.get] at h
  | .cons m u r, n, t, h => by
    simp only [setF]
    by_cases hm : (m == n) = true
    · simp only [Forest.get, hm, ↓reduceIte, Option.some.injEq] at h
      subst h; simp [hm]
    · have hm' : (m == n) = false := by simpa using hm
      simp only [Forest.get, hm', Bool.false_eq_true, ↓reduceIte] at h
      simp [hm', setF_self r n t h]

/-! ### one iteration -/

theorem setExports_frame (S : Nat → Prop) (s : AggState) (e : Nat) (E' : List (Str × ItemKind)) (he : S e) :
    Frame S s.agg.types (setExports s e E').agg.types :=
  ((setExports_mstep 0 s e E').toNStep).frame he

section nstep
variable {W : Colls} {types : Types} (hW : W.mem types) (hs : Sane types) {S : Nat → Prop} {e : Nat}

/-- the invariant after setting the exports of the (mutable) interface `e` to frozen kinds -/
theorem ni_setExports {s : AggState} (hI : NI W types S s) (he : S e) {ti : Interface}
    (hti : s.agg.types.interfaces[e]? = some ti) (E' : List (Str × ItemKind))
    (hE' : ∀ x, x ∈ E' → FrozenK s.agg.types S x.2) : NI W types S (setExports s e E') := by
  have hfr := setExports_frame S s e E' he
  have hTeq := setExports_types_eq s e E' ti hti
  have hlen : (setExports s e E').agg.types.interfaces.length = s.agg.types.interfaces.length := by
    rw [hTeq]; simp [listSet_length]
  refine ⟨hI.ainv.of_same hfr.ext (by rw [hTeq]) rfl rfl, ?_, ?_, ?_, hI.ish⟩
  · intro j itf hj x hx
    by_cases hje : j = e
    · subst hje
      rw [hTeq] at hj
      simp only [listSet_get_self _ _ _ (getElem?_lt hti), Option.some.injEq] at hj
      subst hj
      exact (hE' x hx).frame hfr
    · rw [hTeq] at hj
      simp only [listSet_get_ne _ _ _ _ hje] at hj
      exact (hI.iwf j itf hj x hx).frame hfr
  · intro j hj; rw [hlen]; exact hI.sb j hj
  · intro i i' hg
    obtain ⟨a, b, c⟩ := hI.ik i i' hg
    exact ⟨a, by rw [hlen]; exact b, fun t ht => (c t ht).frame hI.iwf hfr (.inr ⟨false, i', rfl, a, b⟩)⟩

/-- the export is new: it is copied (with everything nested in it) and appended -/
theorem nstate_append {s0 s2 : AggState} {F0 : Forest} (hT : NState W types S e s0 F0) {ti : Interface}
    (hti : s0.agg.types.interfaces[e]? = some ti) {n : Str} (hnone : amGet ti.exports n = none)
    {sk k' : ItemKind} {ts : Tree} (hts : types.unfoldKind types.fuel sk = some ts) (htsnd : ts.namesDistinct = true)
    (hI2 : NI W types S s2) (hst : NRStep types.uid s0 s2) (hp : PostNK types S s2 sk k') :
    NStep types.uid e s0 (insExport s2 e n k') ∧ F0.hasName n = false ∧
      NState W types S e (insExport s2 e n k') (snoc F0 n ts) := by
  obtain ⟨ti', hti', m, hm⟩ := hT.itf
  rw [hti] at hti'; cases hti'
  have hFn : F0.get n = none := (unfoldItems_get ti.exports F0 n hm).1 (by rw [← amGet_eq_alGet]; exact hnone)
  have hhas : F0.hasName n = false := (Forest.hasName_false_iff F0 n).2 hFn
  have helt := getElem?_lt hti
  have hti2 : s2.agg.types.interfaces[e]? = some ti := by rw [hst.same e helt]; exact hti
  rw [insExport_eq s2 e n k' ti hti2]
  have hfr2 := hst.frame S
  have hfr3 := setExports_frame S s2 e (amInsert ti.exports n k') hT.mutE
  have hold : ∀ x, x ∈ ti.exports → FrozenK s2.agg.types S x.2 := fun x hx => (hT.ni.iwf e ti hti x hx).frame hfr2
  have hE' : ∀ x, x ∈ amInsert ti.exports n k' → FrozenK s2.agg.types S x.2 := by
    intro x hx
    rcases amInsert_mem _ _ _ _ hx with h | rfl
    · exact hold x h
    · exact hp.1
  have hI3 := ni_setExports hI2 hT.mutE hti2 _ hE'
  refine ⟨(hst.toNStep e).trans (setExports_mstep _ s2 e _).toNStep, hhas, hI3, ?_, hT.mutE, ?_, hasName_of_nd_snoc F0 n ts hT.nd htsnd hhas⟩
  · show s2.cfg.nestedMerge = true ∧ s2.cfg.typeMerge = true
    rw [hst.cfg]; exact hT.nested
  · refine ⟨{ ti with exports := amInsert ti.exports n k' }, ?_, ?_⟩
    · rw [setExports_types_eq s2 e _ ti hti2]
      exact listSet_get_self _ _ _ (getElem?_lt hti2)
    · obtain ⟨M, hM⟩ := hp.2 ts ⟨_, hts⟩
      refine ⟨max m M, ?_⟩
      have key : unfoldItems ((setExports s2 e (amInsert ti.exports n k')).agg.types.unfoldKind (max m M))
          (ti.exports ++ [(n, k')]) = some (snoc F0 n ts) := by
        apply unfoldItems_snoc
        · have h1 := unfoldItems_frame hT.ni.iwf hfr2 (hT.ni.iwf e ti hti) (unfoldItems_fuel_mono (Nat.le_max_left m M) hm)
          exact unfoldItems_frame hI2.iwf hfr3 hold h1
        · exact unfold_frame hI2.iwf hfr3 _ _ _ hp.1 (unfoldKind_mono _ (Nat.le_max_right m M) _ _ hM)
      rw [← amInsert_absent ti.exports n k' hnone] at key
      exact key

/-- weakening the set of mutable interfaces -/
theorem NI.weaken {S' : Nat → Prop} {s : AggState} (h : NI W types S' s) (hS : ∀ j, S j → S' j) : NI W types S s := by
  refine ⟨h.ainv, ?_, fun j hj => h.sb j (hS j hj), ?_, h.ish⟩
  · intro j itf hj x hx
    rcases h.iwf j itf hj x hx with h1 | ⟨b, t, h1, h2, h3⟩
    · exact .inl h1
    · exact .inr ⟨b, t, h1, fun hc => h2 (hS t hc), h3⟩
  · intro i i' hg
    obtain ⟨a, b, c⟩ := h.ik i i' hg
    exact ⟨fun hc => a (hS i' hc), b, c⟩

include hW hs in
/-- the export exists and both kinds are leaf kinds: equal trees, the target keeps its export -/
theorem nstate_keep {s0 : AggState} {F0 : Forest} (hT : NState W types S e s0 F0) {ti : Interface}
    (hti : s0.agg.types.interfaces[e]? = some ti) {n : Str} {tk : ItemKind} (hsome : amGet ti.exports n = some tk)
    (ltk : LeafK tk) {sk : ItemKind} (lk : LeafK sk) {ts : Tree} (hts : types.unfoldKind types.fuel sk = some ts)
    (htsnd : ts.namesDistinct = true) :
    ∃ r c', chkSubtype types sk s0.agg.types tk s0 = .ok (r, { s0 with chk := c' }) ∧
      (r = .ok → NStep types.uid e s0 (keepState s0 c' (GTy.mk' types sk.ty) tk.ty) ∧
        ∃ tf, F0.get n = some tf ∧ meet tf ts = some tf ∧
          NState W types S e (keepState s0 c' (GTy.mk' types sk.ty) tk.ty) (setF F0 n tf)) ∧
      (r ≠ .ok → ∃ m, chkSubtypeQ s0.agg.types tk types sk { s0 with chk := c' } = .error (.err m)) := by
  obtain ⟨ti', hti', m, hm⟩ := hT.itf
  rw [hti] at hti'; cases hti'
  obtain ⟨r, c', h1, _, h3, h4, tf, hFn, _⟩ := keepExport_core hW hs (e := e) hT.ni.ainv hT.nd hm hsome ltk lk hts htsnd
  refine ⟨r, c', h1, fun hok => ?_, h4⟩
  obtain ⟨hms, hA, heq⟩ := h3 hok
  have htf : tf = ts := heq tf hFn
  subst htf
  refine ⟨hms.toNStep, tf, hFn, ?_, ?_⟩
  · have hk : isEqK tf = true := eqKind_unfoldLeaf lk hts
    rw [meet_eqK tf tf hk]; simp
  · rw [setF_self F0 n tf hFn]
    have hkey : ∀ i ty, alGet (keepState s0 c' (GTy.mk' types sk.ty) tk.ty).agg.remapped (GTy.mk' types (.interface i)) = some ty →
        alGet s0.agg.remapped (GTy.mk' types (.interface i)) = some ty := by
      intro i ty hg
      simp only [keepState, alGet_alInsert] at hg
      split at hg
      · rename_i he
        have := eq_of_beq he
        cases sk with
        | func f => simp [GTy.mk', ItemKind.ty] at this
        | value v => simp [GTy.mk', ItemKind.ty] at this
        | type ty =>
          cases ty with
          | func f => simp [GTy.mk', ItemKind.ty] at this
          | value v => simp [GTy.mk', ItemKind.ty] at this
          | _ => cases lk
        | _ => cases lk
      · exact hg
    refine ⟨⟨hA, hT.ni.iwf, hT.ni.sb, ?_, fun i ty hg => hT.ni.ish i ty (hkey i ty hg)⟩, hT.nested, hT.mutE, ⟨ti, hti, m, hm⟩, hT.nd⟩
    intro i i' hg
    apply hT.ni.ik i i'
    simp only [keepState, alGet_alInsert] at hg
    split at hg
    · rename_i he
      have := eq_of_beq he
      cases sk with
      | func f => simp [GTy.mk', ItemKind.ty] at this
      | value v => simp [GTy.mk', ItemKind.ty] at this
      | type ty =>
        cases ty with
        | func f => simp [GTy.mk', ItemKind.ty] at this
        | value v => simp [GTy.mk', ItemKind.ty] at this
        | _ => cases lk
      | _ => cases lk
    · exact hg

/-- what the main theorem says at a given fuel -/
def MergeSpec (W : Colls) (types : Types) (fuel : Nat) : Prop :=
  ∀ (S : Nat → Prop) (e id : Nat) (s s' : AggState) (F G : Forest) (d : Nat), NState W types S e s F →
    SrcOK types d id →
    (∀ si, types.interfaces[id]? = some si → unfoldItems (types.unfoldKind types.fuel) si.exports = some G) →
    G.namesDistinct = true → mergeInterface fuel e types id s = .ok ((), s') →
    ∃ R, NState W types S e s' R ∧ NStep types.uid e s s' ∧ meet (.instance F) (.instance G) = some (.instance R)

/-- the state after `types.add_interface(copy)` -/
def pushIface (s : AggState) (copy : Interface) : AggState :=
  { s with agg := { s.agg with types := { s.agg.types with interfaces := s.agg.types.interfaces ++ [copy] } } }

theorem source_instance {w : Bool} {i : Nat} {ts : Tree} (hts : types.unfoldKind types.fuel (wrapK w i) = some ts) :
    ∃ G, ts = wrapT w (.instance G) ∧ ∀ si, types.interfaces[i]? = some si →
      unfoldItems (types.unfoldKind types.fuel) si.exports = some G := by
  have hf : types.fuel = (types.fuel - 1) + 1 := by simp only [Types.fuel]; omega
  rw [hf, unfoldKind_wrapK] at hts
  cases hi : types.interfaces[i]? with
  | none => simp [hi] at hts
  | some si =>
    simp only [hi] at hts
    obtain ⟨G, hG, rfl⟩ := Option.map_eq_some_iff.1 hts
    refine ⟨G, rfl, fun si' hsi' => ?_⟩
    cases hsi'
    exact unfoldItems_fuel_mono (Nat.sub_le _ _) hG

/-- the export exists and both kinds are instances: the nested instance is merged on a copy -/
theorem nstate_nested {fuel : Nat} (hIH : MergeSpec W types fuel) {s0 s2 : AggState} {F0 : Forest}
    (hT : NState W types S e s0 F0) {ti : Interface} (hti : s0.agg.types.interfaces[e]? = some ti)
    {n : Str} {w : Bool} {t sid : Nat} (hsome : amGet ti.exports n = some (wrapK w t)) {d : Nat} (hsrc : SrcOK types d sid)
    {ts : Tree} (hts : types.unfoldKind types.fuel (wrapK w sid) = some ts) (htsnd : ts.namesDistinct = true)
    {copy : Interface} (hcopy : s0.agg.types.interfaces[t]? = some copy)
    (hmerge : mergeInterface fuel s0.agg.types.interfaces.length types sid (pushIface s0 copy) = .ok ((), s2)) :
    NStep types.uid e s0 (insExport s2 e n (wrapK w s0.agg.types.interfaces.length)) ∧
      ∃ tf r, F0.get n = some tf ∧ meet tf ts = some r ∧
        NState W types S e (insExport s2 e n (wrapK w s0.agg.types.interfaces.length)) (setF F0 n r) := by
  obtain ⟨ti', hti', m, hm⟩ := hT.itf
  rw [hti] at hti'; cases hti'
  have hmem : (n, wrapK w t) ∈ ti.exports := alGet_mem _ _ _ (by rw [← amGet_eq_alGet]; exact hsome)
  obtain ⟨tf, htf, hFn⟩ := (unfoldItems_get ti.exports F0 n hm).2 _ (by rw [← amGet_eq_alGet]; exact hsome)
  have htfnd : tf.namesDistinct = true := Forest.nd_get F0 n tf hT.nd hFn
  -- the nested target interface is frozen
  have hfz : ¬ S t ∧ t < s0.agg.types.interfaces.length := by
    rcases hT.ni.iwf e ti hti _ hmem with h | ⟨w', t', h1, h2, h3⟩
    · exact absurd h (wrapK_not_leaf w t)
    · obtain ⟨_, rfl⟩ := wrapK_inj h1; exact ⟨h2, h3⟩
  -- its forest
  obtain ⟨m', rfl⟩ : ∃ m', m = m' + 1 := by
    cases m with
    | zero => simp [Types.unfoldKind] at htf
    | succ m' => exact ⟨m', rfl⟩
  rw [unfoldKind_wrapK] at htf
  simp only [hcopy] at htf
  obtain ⟨Ft, hFt, rfl⟩ := Option.map_eq_some_iff.1 htf
  have hFtnd : Ft.namesDistinct = true := by simpa [nd_wrapT, Tree.namesDistinct] using htfnd
  -- the source forest
  obtain ⟨Gs, rfl, hGs⟩ := source_instance hts
  have hGsnd : Gs.namesDistinct = true := by simpa [nd_wrapT, Tree.namesDistinct] using htsnd
  -- the state with the copy
  let L := s0.agg.types.interfaces.length
  let S' : Nat → Prop := fun j => S j ∨ j = L
  have hpushT : (pushIface s0 copy).agg.types = { s0.agg.types with interfaces := s0.agg.types.interfaces ++ [copy] } := rfl
  have hextP : Ext s0.agg.types (pushIface s0 copy).agg.types := ext_of_eq rfl rfl rfl rfl
  have hfrP : ∀ S0 : Nat → Prop, Frame S0 s0.agg.types (pushIface s0 copy).agg.types := fun S0 =>
    ⟨hextP, by simp [pushIface], fun j hj _ => by simp [pushIface, List.getElem?_append_left hj]⟩
  have hfzS' : ∀ k, FrozenK s0.agg.types S k → FrozenK (pushIface s0 copy).agg.types S' k := by
    rintro k (h | ⟨w', t', rfl, h2, h3⟩)
    · exact .inl h
    · refine .inr ⟨w', t', rfl, ?_, by simp [pushIface]; omega⟩
      rintro (hc | hc)
      · exact h2 hc
      · exact absurd hc (Nat.ne_of_lt h3)
  have hTP : NState W types S' L (pushIface s0 copy) Ft := by
    refine ⟨⟨hT.ni.ainv.of_same hextP rfl rfl rfl, ?_, ?_, ?_, hT.ni.ish⟩, hT.nested, .inr rfl, ⟨copy, by simp [pushIface, L], m', ?_⟩, hFtnd⟩
    · intro j itf hj x hx
      rcases Nat.lt_or_ge j L with hlt | hge
      · have : s0.agg.types.interfaces[j]? = some itf := by
          simpa [pushIface, List.getElem?_append_left hlt] using hj
        exact hfzS' _ (hT.ni.iwf j itf this x hx)
      · have hjL : j = L := by
          have := getElem?_lt hj
          simp [pushIface] at this; omega
        subst hjL
        have : itf = copy := by simpa [pushIface, L] using hj.symm
        subst this
        exact hfzS' _ (hT.ni.iwf t itf hcopy x hx)
    · rintro j (hj | hj)
      · have := hT.ni.sb j hj; simp [pushIface]; omega
      · subst hj; simp [pushIface, L]
    · intro i i' hg
      obtain ⟨a, b, c⟩ := hT.ni.ik i i' hg
      refine ⟨?_, by simp [pushIface]; omega, fun t0 ht0 => (c t0 ht0).frame hT.ni.iwf (hfrP S) (.inr ⟨false, i', rfl, a, b⟩)⟩
      rintro (hc | hc)
      · exact a hc
      · exact absurd hc (Nat.ne_of_lt b)
    · exact unfoldItems_frame hT.ni.iwf (hfrP S) (hT.ni.iwf t copy hcopy) hFt
  -- the recursive merge
  obtain ⟨R', hT2, hst2, hmeet⟩ := hIH S' L sid (pushIface s0 copy) s2 Ft Gs d hTP hsrc hGs hGsnd hmerge
  -- back to the outer interface
  have helt : e < L := getElem?_lt hti
  have hLlt : L < s2.agg.types.interfaces.length := by
    have := hst2.len; simp [pushIface] at this; omega
  have hti2 : s2.agg.types.interfaces[e]? = some ti := by
    rw [hst2.others e (by simp [pushIface]; omega) (Nat.ne_of_lt helt)]
    simpa [pushIface, List.getElem?_append_left helt] using hti
  have hI2 : NI W types S s2 := hT2.ni.weaken (fun j hj => .inl hj)
  have hnotSL : ¬ S L := fun hc => Nat.lt_irrefl _ (hT.ni.sb L hc)
  -- everything below `L` is as it was
  have hfr02 : Frame S s0.agg.types s2.agg.types := by
    refine ⟨hextP.trans hst2.ext, Nat.le_of_lt (Nat.lt_of_le_of_lt (Nat.le_refl _) hLlt), fun j hj _ => ?_⟩
    rw [hst2.others j (by simp [pushIface]; omega) (Nat.ne_of_lt hj)]
    simp [pushIface, List.getElem?_append_left hj]
  rw [insExport_eq s2 e n _ ti hti2]
  have hfr3 := setExports_frame S s2 e (amInsert ti.exports n (wrapK w L)) hT.mutE
  have hold : ∀ x, x ∈ ti.exports → FrozenK s2.agg.types S x.2 := fun x hx => (hT.ni.iwf e ti hti x hx).frame hfr02
  have hnewF : FrozenK s2.agg.types S (wrapK w L) := .inr ⟨w, L, rfl, hnotSL, hLlt⟩
  have hE' : ∀ x, x ∈ amInsert ti.exports n (wrapK w L) → FrozenK s2.agg.types S x.2 := by
    intro x hx
    rcases amInsert_mem _ _ _ _ hx with h | rfl
    · exact hold x h
    · exact hnewF
  have hI3 := ni_setExports hI2 hT.mutE hti2 _ hE'
  -- the merged copy unfolds to `R'`
  obtain ⟨ti2, hti2L, k2, hk2⟩ := hT2.itf
  have hLtree : s2.agg.types.unfoldKind (k2 + 1) (wrapK w L) = some (wrapT w (.instance R')) := by
    rw [unfoldKind_wrapK]
    simp only [hti2L, hk2, Option.map_some]
  have hmeet' : meet (wrapT w (.instance Ft)) (wrapT w (.instance Gs)) = some (wrapT w (.instance R')) := by
    rw [meet_wrapT, hmeet]; rfl
  refine ⟨?_, wrapT w (.instance Ft), wrapT w (.instance R'), hFn, hmeet', hI3, ?_, hT.mutE, ?_, ?_⟩
  · -- NStep
    have hms := setExports_mstep types.uid s2 e (amInsert ti.exports n (wrapK w L))
    refine ⟨(hextP.trans hst2.ext).trans hms.ext, ?_, ?_, hms.worlds.trans hst2.worlds, hms.modules.trans hst2.modules,
      hms.cfg.trans hst2.cfg, hms.imports.trans hst2.imports, hms.imap.trans hst2.imap, hms.redirects.trans hst2.redirects, ?_⟩
    · rw [hms.len]; exact Nat.le_of_lt hLlt
    · intro i hi hie
      rw [hms.others i hie, hst2.others i (by simp [pushIface]; omega) (Nat.ne_of_lt hi)]
      simp [pushIface, List.getElem?_append_left hi]
    · intro g hid hg
      rcases hms.keys g hid hg with h | h
      · exact hst2.keys g hid h
      · exact .inr h
  · show s2.cfg.nestedMerge = true ∧ s2.cfg.typeMerge = true
    rw [hst2.cfg]; exact hT.nested
  · refine ⟨{ ti with exports := amInsert ti.exports n (wrapK w L) }, ?_, max (m' + 1) (k2 + 1), ?_⟩
    · rw [setExports_types_eq s2 e _ ti hti2]
      exact listSet_get_self _ _ _ (getElem?_lt hti2)
    · apply unfoldItems_amInsert_present
      · have h1 := unfoldItems_frame hT.ni.iwf hfr02 (hT.ni.iwf e ti hti)
          (unfoldItems_fuel_mono (Nat.le_max_left (m' + 1) (k2 + 1)) hm)
        exact unfoldItems_frame hI2.iwf hfr3 hold h1
      · rw [hsome]; rfl
      · exact unfold_frame hI2.iwf hfr3 _ _ _ hnewF (unfoldKind_mono _ (Nat.le_max_right (m' + 1) (k2 + 1)) _ _ hLtree)
  · exact nd_setF F0 n (wrapT w (.instance R')) hT.nd (by simpa [nd_wrapT, Tree.namesDistinct] using hT2.nd)

include hW hs in
/-- one iteration of the loop of `merge_interface` on nested interfaces -/
theorem mergeExport_nstep {fuel : Nat} (hIH : MergeSpec W types fuel) {d : Nat} (n : Str) (sk : ItemKind)
    (s0 s1 : AggState) (F0 : Forest) (ts : Tree)
    (hT0 : NState W types S e s0 F0) (hsk : SrcK types d sk) (hts : types.unfoldKind types.fuel sk = some ts)
    (htsnd : ts.namesDistinct = true) (hb : mergeExportBody fuel e types (n, sk) s0 = .ok ((), s1)) :
    NStep types.uid e s0 s1 ∧ ((∃ tf r, F0.get n = some tf ∧ meet tf ts = some r ∧ NState W types S e s1 (setF F0 n r)) ∨
      (F0.hasName n = false ∧ NState W types S e s1 (snoc F0 n ts))) := by
  simp only [mergeExportBody] at hb
  obtain ⟨ti, hti, m, hm⟩ := hT0.itf
  simp only [bind_ok, run_getAgg, Except.ok.injEq, Prod.mk.injEq] at hb
  obtain ⟨_, _, ⟨rfl, rfl⟩, hb⟩ := hb
  simp only [hti, bind_ok, run_pure, run_get, Except.ok.injEq, Prod.mk.injEq] at hb
  obtain ⟨_, _, ⟨rfl, rfl⟩, _, _, ⟨rfl, rfl⟩, hb⟩ := hb
  cases hget : amGet ti.exports n with
  | none =>
    rw [hget] at hb
    simp only [bind_ok, run_pure, Except.ok.injEq, Prod.mk.injEq] at hb
    obtain ⟨_, _, ⟨rfl, rfl⟩, hb⟩ := hb
    simp only [Bool.not_false, ↓reduceIte, bind_ok, run_modifyTypes, Except.ok.injEq, Prod.mk.injEq, true_and] at hb
    obtain ⟨k', s2, hr, rfl⟩ := hb
    obtain ⟨hI2, hst, hp⟩ := (remapNest_spec hW hs fuel).2 d sk s0 k' s2 hT0.ni hsk hr
    obtain ⟨hm1, hhas, hT2⟩ := nstate_append hT0 hti hget hts htsnd hI2 hst hp
    exact ⟨hm1, .inr ⟨hhas, hT2⟩⟩
  | some tk =>
    rw [hget] at hb
    have hmem : (n, tk) ∈ ti.exports := alGet_mem _ _ _ (by rw [← amGet_eq_alGet]; exact hget)
    have hcinv := hT0.ni.ainv.cinv
    rcases hT0.ni.iwf e ti hti _ hmem with ltk | ⟨wt, t, rfl, hnS, htl⟩ <;> rcases hsk with lk | ⟨ws, sid, rfl, hsrc⟩
    · -- leaf / leaf
      obtain ⟨r, c', hr, hok, hne⟩ := nstate_keep hW hs hT0 hti hget ltk lk hts htsnd
      have hb' : (do
            let __do_lift ← chkSubtype types sk s0.agg.types tk
            match __do_lift with
              | R.ok => do
                modifyAgg fun ag =>
                    { types := ag.types, imports := ag.imports,
                      remapped := alInsert ag.remapped (GTy.mk' types sk.ty) tk.ty,
                      interfaces := ag.interfaces, redirects := ag.redirects }
                let skip ← pure true
                if (!skip) = true then do
                    let remapped ← remapKind fuel types sk
                    modifyTypes fun t =>
                        t.setInterface e fun i =>
                          { id := i.id, uses := i.uses, exports := amInsert i.exports n remapped }
                  else pure ()
              | x => do
                let ag ← getAgg
                withCtx (toString "mismatched type for export `" ++ toString (strS n) ++ toString "`")
                    (chkSubtypeQ ag.types tk types sk)
                let skip ← pure false
                if (!skip) = true then do
                    let remapped ← remapKind fuel types sk
                    modifyTypes fun t =>
                        t.setInterface e fun i =>
                          { id := i.id, uses := i.uses, exports := amInsert i.exports n remapped }
                  else pure () : AggM Unit) s0 = .ok ((), s1) := by
        cases tk with
        | func _ => exact hb
        | value _ => exact hb
        | type ty =>
          cases ty with
          | func _ => exact hb
          | value _ => exact hb
          | _ => cases ltk
        | _ => cases ltk
      clear hb
      simp only [bind_ok, hr, Except.ok.injEq, Prod.mk.injEq] at hb'
      obtain ⟨_, _, ⟨rfl, rfl⟩, hb'⟩ := hb'
      cases r with
      | ok =>
        simp only [bind_ok, run_modifyAgg, run_pure, Except.ok.injEq, Prod.mk.injEq, true_and] at hb'
        obtain ⟨_, _, ⟨rfl, _, _, ⟨rfl, rfl⟩, hb'⟩⟩ := hb'
        simp only [Bool.not_true, Bool.false_eq_true, ↓reduceIte, run_pure, Except.ok.injEq, Prod.mk.injEq,
          true_and] at hb'
        subst hb'
        obtain ⟨hm1, tf, hf, hmeet, hT2⟩ := hok rfl
        exact ⟨hm1, .inl ⟨tf, tf, hf, hmeet, hT2⟩⟩
      | err m0 =>
        obtain ⟨m', hm'⟩ := hne (by simp)
        simp only [bind_ok, run_getAgg, Except.ok.injEq, Prod.mk.injEq] at hb'
        obtain ⟨_, _, ⟨rfl, rfl⟩, _, _, hq, _⟩ := hb'
        rw [withCtx_ok, hm'] at hq
        cases hq
      | panic m0 =>
        obtain ⟨m', hm'⟩ := hne (by simp)
        simp only [bind_ok, run_getAgg, Except.ok.injEq, Prod.mk.injEq] at hb'
        obtain ⟨_, _, ⟨rfl, rfl⟩, _, _, hq, _⟩ := hb'
        rw [withCtx_ok, hm'] at hq
        cases hq
    · -- target leaf, source instance / type of interface: the kinds cannot be related
      exfalso
      obtain ⟨⟨m1, h1⟩, _⟩ := chk_mismatch s0 hcinv types s0.agg.types (wrapK ws sid) tk
        (innerFalls_wrap_leaf ltk ws sid) (.inl (wrapK_not_leaf ws sid))
      obtain ⟨_, ⟨m2, h2⟩⟩ := chk_mismatch s0 hcinv s0.agg.types types tk (wrapK ws sid)
        (innerFalls_leaf_wrap ltk ws sid) (.inr (wrapK_not_leaf ws sid))
      cases ws <;> simp only [wrapK] at hb h1 h2 <;>
        (cases tk with
          | func _ => simp only [run_bind, h1, run_getAgg, withCtx, h2] at hb; cases hb
          | value _ => simp only [run_bind, h1, run_getAgg, withCtx, h2] at hb; cases hb
          | type ty =>
            cases ty with
            | func _ => simp only [run_bind, h1, run_getAgg, withCtx, h2] at hb; cases hb
            | value _ => simp only [run_bind, h1, run_getAgg, withCtx, h2] at hb; cases hb
            | _ => cases ltk
          | _ => cases ltk)
    · -- target instance / type of interface, source leaf
      exfalso
      obtain ⟨⟨m1, h1⟩, _⟩ := chk_mismatch s0 hcinv types s0.agg.types sk (wrapK wt t)
        (innerFalls_leaf_wrap lk wt t) (.inr (wrapK_not_leaf wt t))
      obtain ⟨_, ⟨m2, h2⟩⟩ := chk_mismatch s0 hcinv s0.agg.types types (wrapK wt t) sk
        (innerFalls_wrap_leaf lk wt t) (.inl (wrapK_not_leaf wt t))
      cases wt <;> simp only [wrapK] at hb h1 h2 <;>
        (cases sk with
          | func _ => simp only [run_bind, h1, run_getAgg, withCtx, h2] at hb; cases hb
          | value _ => simp only [run_bind, h1, run_getAgg, withCtx, h2] at hb; cases hb
          | type ty =>
            cases ty with
            | func _ => simp only [run_bind, h1, run_getAgg, withCtx, h2] at hb; cases hb
            | value _ => simp only [run_bind, h1, run_getAgg, withCtx, h2] at hb; cases hb
            | _ => cases lk
          | _ => cases lk)
    · -- both nested kinds
      obtain ⟨copy, hcopy⟩ : ∃ copy, s0.agg.types.interfaces[t]? = some copy :=
        ⟨s0.agg.types.interfaces[t], by simp [List.getElem?_eq_getElem htl]⟩
      cases wt with
      | false =>
        cases ws with
        | false =>
          -- both instances: merge on a copy
          simp only [wrapK, hT0.nested.1, ↓reduceIte, hcopy, bind_ok, run_pure, run_modifyTypes, Except.ok.injEq,
            Prod.mk.injEq, true_and] at hb
          obtain ⟨_, _, ⟨rfl, rfl⟩, _, _, rfl, _, s2, hmg, _, _, rfl, _, _, ⟨rfl, rfl⟩, hb⟩ := hb
          simp only [Bool.not_true, Bool.false_eq_true, ↓reduceIte, run_pure, Except.ok.injEq, Prod.mk.injEq,
            true_and] at hb
          subst hb
          rw [withCtx_ok] at hmg
          obtain ⟨hm1, tf, r, hf, hmeet, hT2⟩ := nstate_nested (w := false) hIH hT0 hti hget hsrc hts htsnd hcopy hmg
          exact ⟨hm1, .inl ⟨tf, r, hf, hmeet, hT2⟩⟩
        | true =>
          exfalso
          obtain ⟨⟨m1, h1⟩, _⟩ := chk_mismatch s0 hcinv types s0.agg.types (wrapK true sid) (wrapK false t) rfl
            (.inl (wrapK_not_leaf true sid))
          obtain ⟨_, ⟨m2, h2⟩⟩ := chk_mismatch s0 hcinv s0.agg.types types (wrapK false t) (wrapK true sid) rfl
            (.inl (wrapK_not_leaf false t))
          simp only [wrapK] at hb h1 h2
          simp only [run_bind, h1, run_getAgg, withCtx, h2] at hb
          cases hb
      | true =>
        cases ws with
        | false =>
          exfalso
          obtain ⟨⟨m1, h1⟩, _⟩ := chk_mismatch s0 hcinv types s0.agg.types (wrapK false sid) (wrapK true t) rfl
            (.inl (wrapK_not_leaf false sid))
          obtain ⟨_, ⟨m2, h2⟩⟩ := chk_mismatch s0 hcinv s0.agg.types types (wrapK true t) (wrapK false sid) rfl
            (.inl (wrapK_not_leaf true t))
          simp only [wrapK] at hb h1 h2
          simp only [run_bind, h1, run_getAgg, withCtx, h2] at hb
          cases hb
        | true =>
          -- both `type` exports of interface type: merge on a copy
          simp only [wrapK, hT0.nested.2, ↓reduceIte, hcopy, bind_ok, run_pure, run_modifyTypes, Except.ok.injEq,
            Prod.mk.injEq, true_and] at hb
          obtain ⟨_, _, ⟨rfl, rfl⟩, _, _, rfl, _, s2, hmg, _, _, rfl, _, _, ⟨rfl, rfl⟩, hb⟩ := hb
          simp only [Bool.not_true, Bool.false_eq_true, ↓reduceIte, run_pure, Except.ok.injEq, Prod.mk.injEq,
            true_and] at hb
          subst hb
          rw [withCtx_ok] at hmg
          obtain ⟨hm1, tf, r, hf, hmeet, hT2⟩ := nstate_nested (w := true) hIH hT0 hti hget hsrc hts htsnd hcopy hmg
          exact ⟨hm1, .inl ⟨tf, r, hf, hmeet, hT2⟩⟩

include hW hs in
/-- **`merge_interface` on nested interfaces**: the merged target unfolds to the specification's
`meet` of the two instance types, at every nesting depth -/
theorem mergeInterface_nest : ∀ fuel, MergeSpec W types fuel
  | 0 => by
    intro S e id s s' F G d _ _ _ _ h
    simp [mergeInterface, run_apanic] at h
  | fuel + 1 => by
    intro S e id s s' F G d hT hsrc hG hGnd h
    cases d with
    | zero => exact hsrc.elim
    | succ d =>
      obtain ⟨si, hsi, huses, _, hexp⟩ := hsrc
      rw [mergeInterface_succ] at h
      simp only [hsi, bind_ok, run_pure, Except.ok.injEq, Prod.mk.injEq] at h
      obtain ⟨_, _, ⟨rfl, rfl⟩, h⟩ := h
      simp only [huses, mergeUsedTypes, forMList, run_pure, Except.ok.injEq, Prod.mk.injEq, true_and,
        exists_eq_left'] at h
      obtain ⟨_, h⟩ := h
      obtain ⟨hm, M, hM, hT'⟩ := nest_loop (u := types.uid) (d := d)
        (fun n sk s0 s1 F0 ts hT0 hsk hts htsnd hb =>
          mergeExport_nstep hW hs (mergeInterface_nest fuel) n sk s0 s1 F0 ts hT0 hsk hts htsnd hb)
        si.exports G s s' F hT hexp (hG si hsi) hGnd h
      exact ⟨appendMissing M G, hT', hm, by simp only [meet, hM]⟩

end nstep

end Wac.AggP
