import WacProofs.Lemmas.AggMeet
/-
  C09 general theorems, part 23 (specification side): on the covariant fragment the merge
  `meet a b` is COMPLETE — it is defined whenever the two trees have a common subtype.  Together
  with `meet_lower_bound` and `meet_greatest`: `meet a b` is defined iff `a` and `b` have a common
  subtype, and then it is the greatest one.
-/
namespace Wac.AggP
open Wac Wac.Spec

theorem meetShared_isSome : ∀ (ea eb : Forest), keysNd ea = true →
    (∀ k ta tb, ea.get k = some ta → eb.get k = some tb → ∃ m, meet ta tb = some m) →
    ∃ f, meetShared ea eb = some f
  | .nil, _, _, _ => ⟨.nil, rfl⟩
  | .cons n t r, eb, hk, h => by
    simp only [keysNd, Bool.and_eq_true, Bool.not_eq_true'] at hk
    obtain ⟨f, hf⟩ := meetShared_isSome r eb hk.2 (fun k ta tb hka hkb => by
      have hne : n ≠ k := by
        rintro rfl
        have := Forest.get_hasName hka
        rw [hk.1] at this; cases this
      exact h k ta tb (by simpa [Forest.get, hne] using hka) hkb)
    cases hg : eb.get n with
    | none => exact ⟨.cons n t f, by simp only [meetShared, hg, hf]⟩
    | some u =>
      obtain ⟨m, hm⟩ := h n t u (Forest.get_cons_self n t r) hg
      exact ⟨.cons n m f, by simp only [meetShared, hg, hm, hf]⟩

def ComplP (a : Tree) : Prop :=
  ∀ b x, cov a = true → a.namesDistinct = true → b.namesDistinct = true → x.namesDistinct = true →
    sub x a = true → sub x b = true → ∃ m, meet a b = some m

theorem compl_eqKind (a : Tree) (h : isEqKind a = true) : ComplP a := by
  intro b x _ _ _ _ hxa hxb
  rw [sub_eqKind_right a x h] at hxa
  have : x = a := by simpa using hxa
  subst this
  rw [sub_eqKind_left x b h] at hxb
  rw [meet_eqKind x b h, hxb]
  exact ⟨x, rfl⟩

mutual
theorem tree_compl : ∀ a : Tree, ComplP a
  | .instance ea => by
    intro b x hc ha hb hx hxa hxb
    obtain ⟨XF, rfl⟩ := sub_instance_left_shape hxa
    cases b with
    | «instance» eb =>
      simp only [Tree.namesDistinct] at ha hb hx
      simp only [cov] at hc
      have hkX := keysNd_of_nd XF hx
      rw [sub_instance_iff_k _ _ hkX] at hxa hxb
      obtain ⟨f, hf⟩ := meetShared_isSome ea eb (keysNd_of_nd ea ha) (fun k ta tb hka hkb => by
        obtain ⟨tx, htx, hsa⟩ := hxa k ta hka
        obtain ⟨tx', htx', hsb⟩ := hxb k tb hkb
        rw [htx] at htx'; cases htx'
        exact forest_compl ea k ta hka tb tx (covF_get ea k ta hc hka) (Forest.nd_get ea k ta ha hka)
          (Forest.nd_get eb k tb hb hkb) (Forest.nd_get XF k tx hx htx) hsa hsb)
      exact ⟨.instance (appendMissing f eb), by simp only [meet, hf]⟩
    | _ => simp [sub] at hxb
  | .type ta => by
    intro b x hc ha hb hx hxa hxb
    cases x with
    | type tx =>
      cases b with
      | type tb =>
        simp only [Tree.namesDistinct] at ha hb hx
        simp only [cov] at hc
        simp only [sub] at hxa hxb
        obtain ⟨m, hm⟩ := tree_compl ta tb tx hc ha hb hx hxa hxb
        exact ⟨.type m, by simp only [meet, hm, Option.map_some]⟩
      | _ => simp [sub] at hxb
    | _ => simp [sub] at hxa
  | .component _ _ => by intro b x hc; simp [cov] at hc
  | .module _ => by intro b x hc; simp [cov] at hc
  | .none => compl_eqKind _ rfl
  | .prim _ => compl_eqKind _ rfl
  | .own _ => compl_eqKind _ rfl
  | .borrow _ => compl_eqKind _ rfl
  | .tuple _ => compl_eqKind _ rfl
  | .list _ => compl_eqKind _ rfl
  | .fixedList _ _ => compl_eqKind _ rfl
  | .option _ => compl_eqKind _ rfl
  | .result _ _ => compl_eqKind _ rfl
  | .variant _ => compl_eqKind _ rfl
  | .record _ => compl_eqKind _ rfl
  | .flags _ => compl_eqKind _ rfl
  | .enum _ => compl_eqKind _ rfl
  | .stream _ => compl_eqKind _ rfl
  | .future _ => compl_eqKind _ rfl
  | .func _ _ _ => compl_eqKind _ rfl
  | .value _ => compl_eqKind _ rfl
  | .resource _ => compl_eqKind _ rfl
termination_by structural a => a
theorem forest_compl : ∀ (f : Forest) (k : Str) (t : Tree), f.get k = some t → ComplP t
  | .nil, k, t, h => by simp [Forest.get] at h
  | .cons n u r, k, t, h => by
    by_cases hk : n = k
    · subst hk; simp [Forest.get] at h; subst h; exact tree_compl u
    · simp [Forest.get, hk] at h; exact forest_compl r k t h
termination_by structural f => f
end

/-- **`meet_complete`**: on the covariant fragment two trees with a common subtype have a merge -/
theorem meet_complete (a b x : Tree) (hc : cov a = true) (ha : a.namesDistinct = true)
    (hb : b.namesDistinct = true) (hx : x.namesDistinct = true) (hxa : sub x a = true) (hxb : sub x b = true) :
    ∃ m, meet a b = some m :=
  tree_compl a b x hc ha hb hx hxa hxb

/-- **the merge is defined exactly when there is a common subtype** -/
theorem meet_isSome_iff (a b : Tree) (hc : cov a = true) (ha : a.namesDistinct = true) (hb : b.namesDistinct = true) :
    (∃ m, meet a b = some m) ↔ ∃ x, x.namesDistinct = true ∧ sub x a = true ∧ sub x b = true := by
  constructor
  · rintro ⟨m, hm⟩
    obtain ⟨h1, h2⟩ := meet_lower_bound a b m hc ha hb hm
    exact ⟨m, meet_nd a b m hc ha hb hm, h1, h2⟩
  · rintro ⟨x, hx, h1, h2⟩
    exact meet_complete a b x hc ha hb hx h1 h2

end Wac.AggP
