import WacProofs.Lemmas.NodupTypes
/-
  C12 proofs: multiplicity, part 3: `use`, interface items, world items, type statements and import
  statements are duplicate-free (`Inj`, see `Nodup.lean`).
-/
namespace Wac.C12.ND
open Wac Wac.Ast Wac.Spec.Grammar

theorem inj_gUse (fuel : Nat) : Inj (NHL []) (gUse fuel) := by
  unfold gUse
  refine inj_bind_det (det_t _) fun _ => inj_bind_top
    (inj_alt (inj_bind_det det_gPackagePath fun _ => inj_pure _) (inj_bind_det det_gId fun _ => inj_pure _)
      (by nd_cross))
    (fun path => inj_bind_det (det_t _) fun _ => inj_bind_det (det_t _) fun _ =>
      inj_bind (inj_list0 (cs := []) ?_ (by decide) fuel)
        (fun items => inj_bind_det (det_t _) fun _ => inj_bind_det (det_t _) fun _ => inj_pure _)
        (by nd_inj) (by nd_pres))
    (by nd_inj)
  exact inj_bind_det det_gId fun id => inj_map (inj_opt (inj_bind_det (det_t _) fun _ => inj_of_det det_gId))
    (by nd_map)

theorem inj_gInterfaceItem (fuel : Nat) : Inj (NHL []) (gInterfaceItem fuel) := by
  unfold gInterfaceItem
  exact inj_alt (inj_alt (inj_map (inj_gUse fuel) (by nd_map)) (inj_map (inj_gItemTypeDecl fuel) (by nd_map))
    (by nd_cross))
    (inj_bind_det det_gId fun id => inj_bind_det (det_t _) fun _ =>
      inj_bind (inj_gFuncTypeRef fuel) (fun ty => inj_bind_det (det_t _) fun _ => inj_pure _)
        (by nd_inj) (by nd_pres))
    (by nd_cross)

theorem inj_gInlineInterface (fuel : Nat) : Inj (NHL []) (gInlineInterface fuel) := by
  unfold gInlineInterface
  exact inj_bind_det (det_t _) fun _ => inj_bind_det (det_t _) fun _ =>
    inj_bind_top (inj_many_top (inj_gInterfaceItem fuel) fuel)
      (fun items => inj_bind_det (det_t _) fun _ => inj_pure _) (by nd_inj)

theorem inj_gWorldItemPath (fuel : Nat) : Inj (NHL ["<"]) (gWorldItemPath fuel) := by
  unfold gWorldItemPath
  exact inj_alt (inj_alt
    (inj_bind_det det_gId fun id => inj_bind_det (det_t _) fun _ =>
      inj_map (inj_alt (inj_alt (inj_map (inj_gFuncType fuel) (by nd_map))
        (inj_monoL (inj_map (inj_gInlineInterface fuel) (by nd_map))) (by nd_cross))
        (inj_bind_det det_gId fun _ => inj_pure _) (by nd_cross)) (by nd_map))
    (inj_bind_det det_gPackagePath fun _ => inj_pure _) (by nd_cross))
    (inj_bind_det det_gId fun _ => inj_pure _) (by nd_cross)

theorem inj_gWorldItem (fuel : Nat) : Inj (NHL []) (gWorldItem fuel) := by
  unfold gWorldItem
  have hitem : Inj (NHL []) (do let a ← gId; t "as"; let b ← gId; pure (⟨a, b⟩ : WorldIncludeItem)) :=
    inj_of_det (det_bind det_gId fun a => det_bind (det_t _) fun _ => det_bind det_gId fun b => det_pure _)
  refine inj_alt (inj_alt (inj_alt (inj_alt
    (inj_map (inj_gUse fuel) (by nd_map)) (inj_map (inj_gItemTypeDecl fuel) (by nd_map)) (by nd_cross))
    (inj_bind_det (det_t _) fun _ => inj_bind (inj_gWorldItemPath fuel)
      (fun p => inj_bind_det (det_t _) fun _ => inj_pure _) (by nd_inj) (by nd_pres)) (by nd_cross))
    (inj_bind_det (det_t _) fun _ => inj_bind (inj_gWorldItemPath fuel)
      (fun p => inj_bind_det (det_t _) fun _ => inj_pure _) (by nd_inj) (by nd_pres)) (by nd_cross))
    (inj_bind_det (det_t _) fun _ => inj_bind_top
      (inj_alt (inj_bind_det det_gPackagePath fun _ => inj_pure _) (inj_bind_det det_gId fun _ => inj_pure _)
        (by nd_cross))
      (fun w => inj_opt_bind
        (inj_bind_top
          (inj_bind_det (det_t _) fun _ => inj_bind_det (det_t _) fun _ =>
            inj_bind (inj_list0 hitem (by decide) fuel)
              (fun is => inj_bind_det (det_t _) fun _ => inj_pure _) (by nd_inj) (by nd_pres))
          (fun a => inj_bind_det (det_t _) fun _ => inj_pure _) ?_)
        (inj_bind_det (det_t _) fun _ => inj_pure _) ?_)
      ?_) (by nd_cross)
  · intro a a' r r' y s s' h h'
    simp only [mem_bind_iff, mem_pure_iff, Option.getD_some] at h h'
    grind
  · intro ts x r r' h h' _ _
    rw [mem_bind_iff] at h
    obtain ⟨a, r1, h1, _⟩ := h
    obtain ⟨_, e1, _⟩ := head_of_t h1
    obtain ⟨_, e2, _⟩ := head_of_t h'
    rw [e1] at e2
    exact absurd (List.cons.inj e2).1 (by decide)
  · intro a a' r r' y s s' h h'
    simp only [mem_bind_iff, mem_pure_iff] at h h'
    grind

theorem inj_gTypeStatement (fuel : Nat) : Inj (NHL []) (gTypeStatement fuel) := by
  unfold gTypeStatement
  exact inj_alt (inj_alt
    (inj_bind_det (det_t _) fun _ => inj_bind_det det_gId fun id => inj_bind_det (det_t _) fun _ =>
      inj_bind_top (inj_many_top (inj_gInterfaceItem fuel) fuel)
        (fun items => inj_bind_det (det_t _) fun _ => inj_pure _) (by nd_inj))
    (inj_bind_det (det_t _) fun _ => inj_bind_det det_gId fun id => inj_bind_det (det_t _) fun _ =>
      inj_bind_top (inj_many_top (inj_gWorldItem fuel) fuel)
        (fun items => inj_bind_det (det_t _) fun _ => inj_pure _) (by nd_inj)) (by nd_cross))
    (inj_map (inj_gTypeDecl fuel) (by nd_map)) (by nd_cross)

theorem inj_gExternName : Inj (NHL []) gExternName := by
  unfold gExternName
  exact inj_alt (inj_bind_det det_gId fun _ => inj_pure _) (inj_bind_det det_gString fun _ => inj_pure _)
    (by nd_cross)

theorem inj_gImportStatement (fuel : Nat) : Inj (NHL []) (gImportStatement fuel) := by
  unfold gImportStatement
  exact inj_bind_det (det_t _) fun _ => inj_bind_det det_gId fun id =>
    inj_bind_top (inj_opt (inj_bind_det (det_t _) fun _ => inj_gExternName))
      (fun name => inj_bind_det (det_t _) fun _ =>
        inj_bind (F := NHL ["<"])
          (inj_alt (inj_alt (inj_alt (inj_bind_det det_gPackagePath fun _ => inj_pure _)
            (inj_map (inj_gFuncType fuel) (by nd_map)) (by nd_cross))
            (inj_monoL (inj_map (inj_gInlineInterface fuel) (by nd_map))) (by nd_cross))
            (inj_bind_det det_gId fun _ => inj_pure _) (by nd_cross))
          (fun ty => inj_bind_det (det_t _) fun _ => inj_pure _) (by nd_inj) (by nd_pres))
      (by nd_inj)

end Wac.C12.ND
