import WacProofs.Lemmas.GraphBasic
/-
  Preservation of the C06 invariant `Inv` by every graph operation (one lemma per operation),
  on the model of the repaired code (`Legacy.fixed`).
-/
namespace Wac.Graph
open Wac Wac.HashSites

/-! ### unbounded forms of the bounded quantifiers of `Inv` -/

theorem Inv.node {ctx : Ctx} {g : Graph} (h : Inv ctx g) {n : Nat} {nd : Node} (hn : g.node? n = some nd) :
    NodeOk g n nd :=
  h.nodes n (List.mem_range.mpr (node?_eq_some_lt hn)) nd hn

/-- two nodes that differ at most in `name` and `exp` -/
def NodeSim (a b : Node) : Prop := b.kind = a.kind ∧ b.pkg = a.pkg ∧ b.item = a.item

theorem NodeSim.refl (a : Node) : NodeSim a a := ⟨rfl, rfl, rfl⟩

theorem NodeSim.isAlias {a b : Node} (h : NodeSim a b) : b.isAlias = a.isAlias := by
  unfold Node.isAlias; rw [h.1]
theorem NodeSim.isInst {a b : Node} (h : NodeSim a b) : b.isInst = a.isInst := by
  unfold Node.isInst; rw [h.1]
theorem NodeSim.isDef {a b : Node} (h : NodeSim a b) : b.isDef = a.isDef := by
  unfold Node.isDef; rw [h.1]
theorem NodeSim.sat {a b : Node} (h : NodeSim a b) : b.sat = a.sat := by
  unfold Node.sat; rw [h.1]
theorem NodeSim.defTy {a b : Node} (h : NodeSim a b) : b.defTy = a.defTy := by
  unfold Node.defTy; rw [h.1]

theorem defTy_eq_some {nd : Node} {ty : Ty} : nd.defTy = some ty ↔ nd.kind = .definition ty := by
  unfold Node.defTy
  cases nd.kind <;> simp

theorem isDef_of_defTy {nd : Node} {ty : Ty} (h : ty ∈ nd.defTy) : nd.isDef = true := by
  rw [Option.mem_def, defTy_eq_some] at h
  simp [Node.isDef, h]

theorem defTy_none_of_not_isDef {nd : Node} (h : nd.isDef = false) : nd.defTy = none := by
  unfold Node.isDef at h; unfold Node.defTy
  cases hk : nd.kind <;> simp [hk] at h ⊢

/-- the dependency clause of `EdgeOk` implies the weaker "both ends are definitions" -/
theorem dep_isDef {s d : Node} (h : ∃ ts ∈ s.defTy, ∃ td ∈ d.defTy, ts < td) :
    s.isDef = true ∧ d.isDef = true := by
  obtain ⟨ts, hts, td, htd, _⟩ := h
  exact ⟨isDef_of_defTy hts, isDef_of_defTy htd⟩

theorem pkgOf_congr {g g' : Graph} (h : g'.pkgs = g.pkgs) (id : PkgId) : g'.pkgOf id = g.pkgOf id := by
  unfold Graph.pkgOf; rw [h]

theorem pkgLive_congr {g g' : Graph} (h : g'.pkgs = g.pkgs) (id : PkgId) : g'.pkgLive id = g.pkgLive id := by
  unfold Graph.pkgLive; rw [pkgOf_congr h]

/-- an edge stays well formed when its endpoints keep kind, package and item kind and the
    package table is unchanged -/
theorem EdgeOk.transfer {ctx : Ctx} {g g' : Graph} {e : Edge} (h : EdgeOk ctx g e)
    (hp : g'.pkgs = g.pkgs)
    (hn : ∀ m nd, g.node? m = some nd → ∃ nd', g'.node? m = some nd' ∧ NodeSim nd nd') :
    EdgeOk ctx g' e := by
  obtain ⟨s, hs, d, hd, hk⟩ := h
  obtain ⟨s', hs', ss⟩ := hn _ _ hs
  obtain ⟨d', hd', sd⟩ := hn _ _ hd
  refine ⟨s', hs', d', hd', ?_⟩
  cases hek : e.kind with
  | alias i =>
    rw [hek] at hk
    simp only at hk ⊢
    rw [sd.isAlias, sd.2.1, ss.2.1, ss.2.2, sd.2.2]
    exact hk
  | arg i =>
    rw [hek] at hk
    simp only at hk ⊢
    rw [sd.sat, sd.isInst, sd.2.1]
    obtain ⟨h1, h2, pid, hpid, pd, hpd, hlt⟩ := hk
    exact ⟨h1, h2, pid, hpid, pd, by rw [pkgOf_congr hp]; exact hpd, hlt⟩
  | dep =>
    rw [hek] at hk
    simp only at hk ⊢
    rw [ss.defTy, sd.defTy]
    exact hk

/-- a node stays well formed when edges, maps and package table are unchanged and the node
    itself keeps kind, package, item kind and export name -/
theorem NodeOk.transfer {g g' : Graph} {n : Nat} {nd nd' : Node} (h : NodeOk g n nd)
    (hs : NodeSim nd nd') (hexp : nd'.exp = nd.exp)
    (hp : g'.pkgs = g.pkgs) (he : g'.edges = g.edges) (hi : g'.imports = g.imports)
    (hd : g'.defined = g.defined) (hx : g'.exports = g.exports) : NodeOk g' n nd' := by
  obtain ⟨h1, h2, h3⟩ := h
  refine ⟨?_, ?_, ?_⟩
  · intro pid hpid
    rw [hs.2.1] at hpid
    rw [pkgLive_congr hp]; exact h1 pid hpid
  · rw [hs.1]
    cases hk : nd.kind with
    | instantiation sat =>
      rw [hk] at h2
      simp only at h2 ⊢
      rw [he, hs.2.1, hs.2.2]
      obtain ⟨a, b, pid, hpid, pd, hpd, hit⟩ := h2
      exact ⟨a, b, pid, hpid, pd, by rw [pkgOf_congr hp]; exact hpd, hit⟩
    | alias =>
      rw [hk] at h2
      simp only at h2 ⊢
      unfold Graph.inEdges at h2 ⊢
      rw [he]; exact h2
    | «import» name =>
      rw [hk] at h2
      simp only at h2 ⊢
      rw [hi]; exact h2
    | definition ty =>
      rw [hk] at h2
      simp only at h2 ⊢
      rw [hd, hexp]; exact h2
  · rw [hexp, hx]; exact h3

/-- monotone version: edges may grow, lookups of this node's entries are kept -/
theorem NodeOk.mono {g g' : Graph} {n : Nat} {nd nd' : Node} (h : NodeOk g n nd)
    (hs : NodeSim nd nd') (hexp : nd'.exp = nd.exp)
    (hp : g'.pkgs = g.pkgs) (he : ∀ e ∈ g.edges, e ∈ g'.edges)
    (hin : nd.isAlias = true → g'.inEdges n = g.inEdges n)
    (hi : ∀ k, alGet g.imports k = some n → alGet g'.imports k = some n)
    (hd : ∀ k, alGet g.defined k = some n → alGet g'.defined k = some n)
    (hx : ∀ k, alGet g.exports k = some n → alGet g'.exports k = some n) : NodeOk g' n nd' := by
  obtain ⟨h1, h2, h3⟩ := h
  refine ⟨?_, ?_, ?_⟩
  · intro pid hpid
    rw [hs.2.1] at hpid
    rw [pkgLive_congr hp]; exact h1 pid hpid
  · rw [hs.1]
    cases hk : nd.kind with
    | instantiation sat =>
      rw [hk] at h2
      simp only at h2 ⊢
      rw [hs.2.1, hs.2.2]
      obtain ⟨a, b, pid, hpid, pd, hpd, hit⟩ := h2
      refine ⟨a, ?_, pid, hpid, pd, by rw [pkgOf_congr hp]; exact hpd, hit⟩
      intro i hi'
      obtain ⟨e, hem, hee⟩ := b i hi'
      exact ⟨e, he e hem, hee⟩
    | alias =>
      rw [hk] at h2
      simp only at h2 ⊢
      rw [hin (by simp [Node.isAlias, hk])]; exact h2
    | «import» name =>
      rw [hk] at h2
      simp only at h2 ⊢
      exact hi _ h2
    | definition ty =>
      rw [hk] at h2
      simp only at h2 ⊢
      rw [hexp]; exact ⟨hd _ h2.1, h2.2⟩
  · rw [hexp]
    intro name hname
    exact hx _ (h3 name hname)

/-- `Inv` from its parts, with the quantifiers over nodes in unbounded form -/
theorem Inv.build {ctx : Ctx} {g : Graph}
    (edges : ∀ e ∈ g.edges, EdgeOk ctx g e)
    (argUnique : (g.edges.filterMap Edge.argKey).Nodup)
    (nodes : ∀ n nd, g.node? n = some nd → NodeOk g n nd)
    (exportsKeys : (g.exports.map (·.1)).Nodup)
    (exportsLive : ∀ e ∈ g.exports, ∃ nd, g.node? e.2 = some nd ∧ nd.exp.isSome = true)
    (importsKeys : (g.imports.map (·.1)).Nodup)
    (importsLive : ∀ e ∈ g.imports, ∃ nd, g.node? e.2 = some nd ∧ nd.kind = .import e.1)
    (definedKeys : (g.defined.map (·.1)).Nodup)
    (definedLive : ∀ e ∈ g.defined, ∃ nd, g.node? e.2 = some nd ∧ nd.kind = .definition e.1)
    (pkgMapKeys : (g.pkgMap.map (·.1)).Nodup)
    (pkgMapLive : ∀ e ∈ g.pkgMap, ∃ pd ∈ (g.pkgOf e.2).toOption, pd.key = e.1)
    (pkgSlots : ∀ i ∈ List.range g.pkgs.length, ∀ slot ∈ g.pkgs[i]?, SlotOk g i slot)
    (freePkgsNodup : g.freePkgs.Nodup)
    (freePkgsRange : ∀ i ∈ g.freePkgs, i < g.pkgs.length)
    (free : FreeInv g) : Inv ctx g :=
  { edges := edges, argUnique := argUnique
    nodes := fun n _ nd hnd => nodes n nd hnd
    exportsKeys := exportsKeys
    exportsLive := fun e he => let ⟨nd, a, b⟩ := exportsLive e he; ⟨nd, a, b⟩
    importsKeys := importsKeys
    importsLive := fun e he => let ⟨nd, a, b⟩ := importsLive e he; ⟨nd, a, b⟩
    definedKeys := definedKeys
    definedLive := fun e he => let ⟨nd, a, b⟩ := definedLive e he; ⟨nd, a, b⟩
    pkgMapKeys := pkgMapKeys, pkgMapLive := pkgMapLive, pkgSlots := pkgSlots
    freePkgsNodup := freePkgsNodup, freePkgsRange := freePkgsRange
    freeNodesNodup := free.nodup, freeNodesVacant := free.vacant
    vacantFree := fun i hi hv => free.all i (List.mem_range.mp hi) hv }

theorem Inv.exportsLive' {ctx : Ctx} {g : Graph} (h : Inv ctx g) :
    ∀ e ∈ g.exports, ∃ nd, g.node? e.2 = some nd ∧ nd.exp.isSome = true :=
  fun e he => let ⟨nd, a, b⟩ := h.exportsLive e he; ⟨nd, a, b⟩
theorem Inv.importsLive' {ctx : Ctx} {g : Graph} (h : Inv ctx g) :
    ∀ e ∈ g.imports, ∃ nd, g.node? e.2 = some nd ∧ nd.kind = .import e.1 :=
  fun e he => let ⟨nd, a, b⟩ := h.importsLive e he; ⟨nd, a, b⟩
theorem Inv.definedLive' {ctx : Ctx} {g : Graph} (h : Inv ctx g) :
    ∀ e ∈ g.defined, ∃ nd, g.node? e.2 = some nd ∧ nd.kind = .definition e.1 :=
  fun e he => let ⟨nd, a, b⟩ := h.definedLive e he; ⟨nd, a, b⟩

/-- the package-table part of the invariant only depends on the package table -/
theorem pkgPart_congr {ctx : Ctx} {g g' : Graph} (h : Inv ctx g)
    (hp : g'.pkgs = g.pkgs) (hm : g'.pkgMap = g.pkgMap) (hf : g'.freePkgs = g.freePkgs) :
    (g'.pkgMap.map (·.1)).Nodup ∧ (∀ e ∈ g'.pkgMap, ∃ pd ∈ (g'.pkgOf e.2).toOption, pd.key = e.1) ∧
    (∀ i ∈ List.range g'.pkgs.length, ∀ slot ∈ g'.pkgs[i]?, SlotOk g' i slot) ∧
    g'.freePkgs.Nodup ∧ (∀ i ∈ g'.freePkgs, i < g'.pkgs.length) := by
  refine ⟨by rw [hm]; exact h.pkgMapKeys, ?_, ?_, by rw [hf]; exact h.freePkgsNodup,
    by rw [hf, hp]; exact h.freePkgsRange⟩
  · intro e he
    rw [hm] at he
    rw [pkgOf_congr hp]; exact h.pkgMapLive e he
  · intro i hi slot hs
    rw [hp] at hi hs
    have := h.pkgSlots i hi slot hs
    unfold SlotOk at this ⊢
    rw [hm, hf]; exact this

/-! ### `set_node_name` -/

theorem inv_setNodeName {ctx : Ctx} {g g' : Graph} {n : Nat} {s : Str} {out : Outcome}
    (h : Inv ctx g) (hs : setNodeName g n s = (g', out)) (hp : out.isPanic = false) : Inv ctx g' := by
  unfold setNodeName at hs
  split at hs
  · simp only [Prod.mk.injEq] at hs
    rw [← hs.2] at hp; simp [Outcome.isPanic] at hp
  · rename_i nd hnd
    simp only [Prod.mk.injEq] at hs
    obtain ⟨hg, _⟩ := hs
    subst hg
    obtain ⟨hfree, hnode⟩ := setNode_free h.free hnd { nd with name := some s }
    -- every old node has a similar new node
    have sim : ∀ m x, g.node? m = some x →
        ∃ x', (g.setNode n { nd with name := some s }).node? m = some x' ∧ NodeSim x x' ∧ x'.exp = x.exp := by
      intro m x hx
      rw [hnode]
      by_cases hm : m = n
      · subst hm
        rw [hnd] at hx; cases hx
        exact ⟨{ nd with name := some s }, by simp, ⟨rfl, rfl, rfl⟩, rfl⟩
      · exact ⟨x, by simp [hm, hx], NodeSim.refl _, rfl⟩
    have back : ∀ m x', (g.setNode n { nd with name := some s }).node? m = some x' →
        ∃ x, g.node? m = some x ∧ NodeSim x x' ∧ x'.exp = x.exp := by
      intro m x' hx'
      rw [hnode] at hx'
      by_cases hm : m = n
      · subst hm
        simp only [↓reduceIte, Option.some.injEq] at hx'
        subst hx'
        exact ⟨nd, hnd, ⟨rfl, rfl, rfl⟩, rfl⟩
      · simp only [hm, ↓reduceIte] at hx'
        exact ⟨x', hx', NodeSim.refl _, rfl⟩
    constructor
    · intro e he
      exact (h.edges e he).transfer rfl (fun m x hx => let ⟨x', a, b, _⟩ := sim m x hx; ⟨x', a, b⟩)
    · exact h.argUnique
    · intro m _ x' hx'
      obtain ⟨x, hx, hsim, hexp⟩ := back m x' hx'
      exact (h.node hx).transfer hsim hexp rfl rfl rfl rfl rfl
    · exact h.exportsKeys
    · intro e he
      obtain ⟨x, hx, hxe⟩ := h.exportsLive e he
      obtain ⟨x', a, _, c⟩ := sim _ _ hx
      exact ⟨x', a, by rw [c]; exact hxe⟩
    · exact h.importsKeys
    · intro e he
      obtain ⟨x, hx, hxe⟩ := h.importsLive e he
      obtain ⟨x', a, b, _⟩ := sim _ _ hx
      exact ⟨x', a, by rw [b.1]; exact hxe⟩
    · exact h.definedKeys
    · intro e he
      obtain ⟨x, hx, hxe⟩ := h.definedLive e he
      obtain ⟨x', a, b, _⟩ := sim _ _ hx
      exact ⟨x', a, by rw [b.1]; exact hxe⟩
    · exact h.pkgMapKeys
    · exact h.pkgMapLive
    · exact h.pkgSlots
    · exact h.freePkgsNodup
    · exact h.freePkgsRange
    · exact hfree.nodup
    · exact hfree.vacant
    · intro i hi hv
      exact hfree.all i (List.mem_range.mp hi) hv

/-! ### adding a node -/

/-- what `add_node` does to the old nodes and edges -/
structure Added (g g1 : Graph) (idx : Nat) (nd : Node) : Prop where
  fresh : g.node? idx = none
  node : ∀ m, g1.node? m = if m = idx then some nd else g.node? m
  free : FreeInv g1
  edges : g1.edges = g.edges
  imports : g1.imports = g.imports
  exports : g1.exports = g.exports
  defined : g1.defined = g.defined
  pkgMap : g1.pkgMap = g.pkgMap
  pkgs : g1.pkgs = g.pkgs
  freePkgs : g1.freePkgs = g.freePkgs

theorem added_of_addNode {ctx : Ctx} {g : Graph} (h : Inv ctx g) (nd : Node) :
    Added g (g.addNode nd).1 (g.addNode nd).2 nd := by
  have := addNode_spec h.free nd
  simp only at this
  obtain ⟨a, b, c, d, e, f, i, j, k, l, _⟩ := this
  exact ⟨a, b, c, d, e, f, i, j, k, l⟩

theorem Added.old {g g1 : Graph} {idx : Nat} {nd : Node} (a : Added g g1 idx nd) {m : Nat} {x : Node}
    (hx : g.node? m = some x) : g1.node? m = some x ∧ m ≠ idx := by
  have hm : m ≠ idx := fun e => by rw [e, a.fresh] at hx; cases hx
  rw [a.node]; simp [hm, hx]

theorem Added.new {g g1 : Graph} {idx : Nat} {nd : Node} (a : Added g g1 idx nd) : g1.node? idx = some nd := by
  rw [a.node]; simp

theorem Added.cases {g g1 : Graph} {idx : Nat} {nd : Node} (a : Added g g1 idx nd) {m : Nat} {x : Node}
    (hx : g1.node? m = some x) : (m = idx ∧ x = nd) ∨ (m ≠ idx ∧ g.node? m = some x) := by
  rw [a.node] at hx
  by_cases hm : m = idx
  · simp only [hm, ↓reduceIte, Option.some.injEq] at hx
    exact Or.inl ⟨hm, hx.symm⟩
  · simp only [hm, ↓reduceIte] at hx
    exact Or.inr ⟨hm, hx⟩

/-- old edges stay well formed after `add_node` (and any change of the maps) -/
theorem Added.edgeOk {ctx : Ctx} {g g1 g2 : Graph} {idx : Nat} {nd : Node} (a : Added g g1 idx nd)
    (hn : g2.nodes = g1.nodes) (hp : g2.pkgs = g1.pkgs) {e : Edge} (h : EdgeOk ctx g e) : EdgeOk ctx g2 e := by
  refine h.transfer (hp.trans a.pkgs) ?_
  intro m x hx
  exact ⟨x, by rw [node?_congr hn]; exact (a.old hx).1, NodeSim.refl _⟩

/-- no edge of a consistent graph touches a vacant slot -/
theorem Inv.edge_live {ctx : Ctx} {g : Graph} (h : Inv ctx g) {e : Edge} (he : e ∈ g.edges) :
    (∃ s, g.node? e.src = some s) ∧ (∃ d, g.node? e.dst = some d) := by
  obtain ⟨s, hs, d, hd, _⟩ := h.edges e he
  exact ⟨⟨s, hs⟩, ⟨d, hd⟩⟩

/-- old nodes stay well formed when a fresh node is added, no edge is added and the maps only
    gain entries for other keys -/
theorem Added.nodeOk {g g1 g2 : Graph} {idx : Nat} {nd : Node} (a : Added g g1 idx nd)
    (hp : g2.pkgs = g1.pkgs) (he : g2.edges = g1.edges)
    (hi : ∀ k v, alGet g.imports k = some v → alGet g2.imports k = some v)
    (hd : ∀ k v, alGet g.defined k = some v → alGet g2.defined k = some v)
    (hx : ∀ k v, alGet g.exports k = some v → alGet g2.exports k = some v)
    {m : Nat} {x : Node} (h : NodeOk g m x) : NodeOk g2 m x := by
  refine h.mono (NodeSim.refl _) rfl (hp.trans a.pkgs) ?_ ?_ (fun k => hi k m) (fun k => hd k m) (fun k => hx k m)
  · intro e hem; rw [he, a.edges]; exact hem
  · intro _; unfold Graph.inEdges; rw [he, a.edges]

/-- lookups of other keys survive the insertion of a fresh key -/
theorem alGet_insert_other {κ β : Type} [DecidableEq κ] {l : List (κ × β)} {k : κ} {v : β}
    (hk : alGet l k = none) {q : κ} {w : β} (h : alGet l q = some w) : alGet (alInsert l k v) q = some w := by
  rw [alGet_alInsert]
  have : k ≠ q := fun e => by rw [e] at hk; rw [hk] at h; cases h
  simp [this, h]

theorem alInsert_keys_nodup {κ β : Type} [DecidableEq κ] {l : List (κ × β)} {k : κ} {v : β}
    (hk : alGet l k = none) (nd : (l.map (·.1)).Nodup) : ((alInsert l k v).map (·.1)).Nodup := by
  rw [alInsert_fresh l k v (alGet_none_iff.mp hk)]
  simp only [List.map_append, List.map_cons, List.map_nil]
  rw [List.nodup_append]
  refine ⟨nd, by simp, ?_⟩
  intro a ha b hb
  simp only [List.mem_singleton] at hb
  subst hb
  exact fun e => (alGet_none_iff.mp hk) (e ▸ ha)

theorem alInsert_mem {κ β : Type} [DecidableEq κ] {l : List (κ × β)} {k : κ} {v : β}
    (hk : alGet l k = none) (e : κ × β) : e ∈ alInsert l k v ↔ e ∈ l ∨ e = (k, v) := by
  rw [alInsert_fresh l k v (alGet_none_iff.mp hk)]
  simp

/-! ### `import` -/

theorem inv_importItem {ctx : Ctx} {g g' : Graph} {name : Str} {kind : Kind} {out : Outcome}
    (h : Inv ctx g) (hs : importItem ctx g name kind = (g', out)) : Inv ctx g' := by
  unfold importItem at hs
  split at hs
  · simp only [Prod.mk.injEq] at hs; rw [← hs.1]; exact h
  · rename_i hnone
    split at hs
    · simp only [Prod.mk.injEq] at hs; rw [← hs.1]; exact h
    · simp only [Prod.mk.injEq] at hs
      obtain ⟨hg, _⟩ := hs
      subst hg
      have a := added_of_addNode h ⟨.import name, none, kind, none, none⟩
      generalize (g.addNode ⟨.import name, none, kind, none, none⟩).1 = g1 at a ⊢
      generalize (g.addNode ⟨.import name, none, kind, none, none⟩).2 = idx at a ⊢
      have hnone1 : alGet g1.imports name = none := by rw [a.imports]; exact hnone
      have pk := pkgPart_congr (g' := { g1 with imports := alInsert g1.imports name idx }) h a.pkgs a.pkgMap a.freePkgs
      apply Inv.build
      · intro e he
        exact a.edgeOk rfl rfl (h.edges e (by simpa [a.edges] using he))
      · simpa [a.edges] using h.argUnique
      · intro m x hx
        rcases a.cases (show g1.node? m = some x from hx) with ⟨rfl, rfl⟩ | ⟨hm, hx'⟩
        · refine ⟨by simp, ?_, by simp⟩
          simp only
          rw [alGet_alInsert]; simp
        · refine a.nodeOk (g2 := { g1 with imports := alInsert g1.imports name idx }) rfl rfl ?_ ?_ ?_ (h.node hx')
          · intro k v hk
            simp only
            rw [a.imports]; exact alGet_insert_other hnone hk
          · intro k v hk; simpa [a.defined] using hk
          · intro k v hk; simpa [a.exports] using hk
      · simpa [a.exports] using h.exportsKeys
      · intro e he
        obtain ⟨x, hx, hxe⟩ := h.exportsLive' e (by simpa [a.exports] using he)
        exact ⟨x, (a.old hx).1, hxe⟩
      · simp only; rw [a.imports]; exact alInsert_keys_nodup hnone h.importsKeys
      · intro e he
        simp only [a.imports] at he
        rcases (alInsert_mem hnone e).mp he with he | rfl
        · obtain ⟨x, hx, hxe⟩ := h.importsLive' e he
          exact ⟨x, (a.old hx).1, hxe⟩
        · exact ⟨_, a.new, rfl⟩
      · simpa [a.defined] using h.definedKeys
      · intro e he
        obtain ⟨x, hx, hxe⟩ := h.definedLive' e (by simpa [a.defined] using he)
        exact ⟨x, (a.old hx).1, hxe⟩
      · exact pk.1
      · exact pk.2.1
      · exact pk.2.2.1
      · exact pk.2.2.2.1
      · exact pk.2.2.2.2
      · exact ⟨a.free.nodup, a.free.vacant, a.free.all⟩

/-- adding a fresh node without touching edges or maps: everything old stays fine, the new
    node has to be justified -/
theorem inv_addNode_plain {ctx : Ctx} {g : Graph} (h : Inv ctx g) (nd : Node)
    (hnew : ∀ g1 idx, Added g g1 idx nd → NodeOk g1 idx nd) : Inv ctx (g.addNode nd).1 := by
  have a := added_of_addNode h nd
  generalize (g.addNode nd).1 = g1 at a ⊢
  generalize (g.addNode nd).2 = idx at a ⊢
  have pk := pkgPart_congr (g' := g1) h a.pkgs a.pkgMap a.freePkgs
  apply Inv.build
  · intro e he
    exact a.edgeOk rfl rfl (h.edges e (by simpa [a.edges] using he))
  · simpa [a.edges] using h.argUnique
  · intro m x hx
    rcases a.cases hx with ⟨rfl, rfl⟩ | ⟨hm, hx'⟩
    · exact hnew g1 m a
    · refine a.nodeOk (g2 := g1) rfl rfl ?_ ?_ ?_ (h.node hx')
      · intro k v hk; simpa [a.imports] using hk
      · intro k v hk; simpa [a.defined] using hk
      · intro k v hk; simpa [a.exports] using hk
  · simpa [a.exports] using h.exportsKeys
  · intro e he
    obtain ⟨x, hx, hxe⟩ := h.exportsLive' e (by simpa [a.exports] using he)
    exact ⟨x, (a.old hx).1, hxe⟩
  · simpa [a.imports] using h.importsKeys
  · intro e he
    obtain ⟨x, hx, hxe⟩ := h.importsLive' e (by simpa [a.imports] using he)
    exact ⟨x, (a.old hx).1, hxe⟩
  · simpa [a.defined] using h.definedKeys
  · intro e he
    obtain ⟨x, hx, hxe⟩ := h.definedLive' e (by simpa [a.defined] using he)
    exact ⟨x, (a.old hx).1, hxe⟩
  · exact pk.1
  · exact pk.2.1
  · exact pk.2.2.1
  · exact pk.2.2.2.1
  · exact pk.2.2.2.2
  · exact a.free

/-! ### `instantiate` -/

theorem inv_instantiate {ctx : Ctx} {g g' : Graph} {id : PkgId} {out : Outcome}
    (h : Inv ctx g) (hs : instantiate g id = (g', out)) : Inv ctx g' := by
  unfold instantiate at hs
  split at hs
  · simp only [Prod.mk.injEq] at hs; rw [← hs.1]; exact h
  · rename_i d hd
    simp only [Prod.mk.injEq] at hs
    rw [← hs.1]
    apply inv_addNode_plain h
    intro g1 idx a
    have hp : g1.pkgOf id = .ok d := by rw [pkgOf_congr a.pkgs]; exact hd
    refine ⟨?_, ?_, by simp⟩
    · intro pid hpid
      simp only [Option.mem_def, Option.some.injEq] at hpid
      subst hpid
      simp [Graph.pkgLive, hp]
    · simp only [List.nodup_nil, List.not_mem_nil, false_imp_iff, implies_true, true_and]
      exact ⟨id, rfl, d, by rw [hp]; rfl, rfl⟩

/-! ### `register_package` -/

/-- live package ids stay live with the same package -/
def PkgMono (g g' : Graph) : Prop := ∀ id d, g.pkgOf id = .ok d → g'.pkgOf id = .ok d

theorem toOption_mem {ε α : Type} {x : Except ε α} {a : α} : a ∈ x.toOption ↔ x = .ok a := by
  cases x <;> simp [Except.toOption]

theorem EdgeOk.pkgMono {ctx : Ctx} {g g' : Graph} {e : Edge} (h : EdgeOk ctx g e)
    (hn : g'.nodes = g.nodes) (hp : PkgMono g g') : EdgeOk ctx g' e := by
  obtain ⟨s, hs, d, hd, hk⟩ := h
  refine ⟨s, by rw [Option.mem_def, node?_congr hn]; exact hs, d, by rw [Option.mem_def, node?_congr hn]; exact hd, ?_⟩
  cases hek : e.kind with
  | alias i => rw [hek] at hk; exact hk
  | arg i =>
    rw [hek] at hk
    simp only at hk ⊢
    obtain ⟨h1, h2, pid, hpid, pd, hpd, hlt⟩ := hk
    exact ⟨h1, h2, pid, hpid, pd, toOption_mem.mpr (hp _ _ (toOption_mem.mp hpd)), hlt⟩
  | dep => rw [hek] at hk; exact hk

theorem NodeOk.pkgMono {g g' : Graph} {n : Nat} {nd : Node} (h : NodeOk g n nd)
    (he : g'.edges = g.edges) (hi : g'.imports = g.imports) (hd : g'.defined = g.defined)
    (hx : g'.exports = g.exports) (hp : PkgMono g g') : NodeOk g' n nd := by
  obtain ⟨h1, h2, h3⟩ := h
  refine ⟨?_, ?_, by rw [hx]; exact h3⟩
  · intro pid hpid
    have := h1 pid hpid
    unfold Graph.pkgLive at this ⊢
    cases hq : g.pkgOf pid with
    | error s => rw [hq] at this; cases this
    | ok d => rw [hp _ _ hq]
  · cases hk : nd.kind with
    | instantiation sat =>
      rw [hk] at h2
      simp only at h2 ⊢
      rw [he]
      obtain ⟨a, b, pid, hpid, pd, hpd, hit⟩ := h2
      exact ⟨a, b, pid, hpid, pd, toOption_mem.mpr (hp _ _ (toOption_mem.mp hpd)), hit⟩
    | alias =>
      rw [hk] at h2
      simp only at h2 ⊢
      unfold Graph.inEdges at h2 ⊢
      rw [he]; exact h2
    | «import» name =>
      rw [hk] at h2
      simp only at h2 ⊢
      rw [hi]; exact h2
    | definition ty =>
      rw [hk] at h2
      simp only at h2 ⊢
      rw [hd]; exact h2

/-- a state that differs from a consistent one only in the package table -/
theorem inv_of_pkgTable {ctx : Ctx} {g g' : Graph} (h : Inv ctx g)
    (hn : g'.nodes = g.nodes) (hf : g'.freeNodes = g.freeNodes) (he : g'.edges = g.edges)
    (hi : g'.imports = g.imports) (hd : g'.defined = g.defined) (hx : g'.exports = g.exports)
    (hp : PkgMono g g')
    (pkgMapKeys : (g'.pkgMap.map (·.1)).Nodup)
    (pkgMapLive : ∀ e ∈ g'.pkgMap, ∃ pd ∈ (g'.pkgOf e.2).toOption, pd.key = e.1)
    (pkgSlots : ∀ i ∈ List.range g'.pkgs.length, ∀ slot ∈ g'.pkgs[i]?, SlotOk g' i slot)
    (freePkgsNodup : g'.freePkgs.Nodup) (freePkgsRange : ∀ i ∈ g'.freePkgs, i < g'.pkgs.length) :
    Inv ctx g' := by
  apply Inv.build
  · intro e hem; rw [he] at hem; exact (h.edges e hem).pkgMono hn hp
  · rw [he]; exact h.argUnique
  · intro n nd hnd
    rw [node?_congr hn] at hnd
    exact (h.node hnd).pkgMono he hi hd hx hp
  · rw [hx]; exact h.exportsKeys
  · intro e hem; rw [hx] at hem
    obtain ⟨nd, a, b⟩ := h.exportsLive' e hem
    exact ⟨nd, by rw [node?_congr hn]; exact a, b⟩
  · rw [hi]; exact h.importsKeys
  · intro e hem; rw [hi] at hem
    obtain ⟨nd, a, b⟩ := h.importsLive' e hem
    exact ⟨nd, by rw [node?_congr hn]; exact a, b⟩
  · rw [hd]; exact h.definedKeys
  · intro e hem; rw [hd] at hem
    obtain ⟨nd, a, b⟩ := h.definedLive' e hem
    exact ⟨nd, by rw [node?_congr hn]; exact a, b⟩
  · exact pkgMapKeys
  · exact pkgMapLive
  · exact pkgSlots
  · exact freePkgsNodup
  · exact freePkgsRange
  · have f := h.free
    refine ⟨by rw [hf]; exact f.nodup, ?_, ?_⟩
    · intro i hi'
      rw [hf] at hi'
      rw [hn, node?_congr hn]; exact f.vacant i hi'
    · intro i hi' hv
      rw [hn] at hi'
      rw [node?_congr hn] at hv
      rw [hf]; exact f.all i hi' hv

theorem Inv.slot {ctx : Ctx} {g : Graph} (h : Inv ctx g) {i : Nat} {slot : PkgSlot} (hs : g.pkgs[i]? = some slot) :
    SlotOk g i slot := by
  have hi : i < g.pkgs.length := by
    rcases Nat.lt_or_ge i g.pkgs.length with hl | hl
    · exact hl
    · rw [List.getElem?_eq_none hl] at hs; cases hs
  exact h.pkgSlots i (List.mem_range.mpr hi) slot hs

end Wac.Graph
