import WacModel.Spec.Graph
/-
  Error characterisation of every fallible graph operation: one `iff` per error variant,
  stated on the state the call was applied to.  (Helper file for Props/C06.)
-/
namespace Wac.Graph
open Wac

theorem register_err_iff (g : Graph) (d : PkgDef) (e : Err) :
    (registerPackage g d).2 = .err e ↔
      Err.packageAlreadyRegistered d.key = e ∧ (alGet g.pkgMap d.key).isSome = true := by
  unfold registerPackage
  split
  · simp_all
  · split
    · split
      · simp_all
      · split <;> simp_all
    · simp_all

theorem import_err_iff (ctx : Ctx) (g : Graph) (name : Str) (k : Kind) (e : Err) :
    (importItem ctx g name k).2 = .err e ↔
      (∃ n, alGet g.imports name = some n ∧ Err.importAlreadyExists name n = e) ∨
      (alGet g.imports name = none ∧ ctx.validExtern name = false ∧ Err.invalidImportName name = e) := by
  unfold importItem
  split
  · rename_i n h; simp [h]
  · rename_i h
    split
    · simp_all
    · simp_all

theorem defineType_err_iff (ctx : Ctx) (g : Graph) (name : Str) (ty : Ty) (e : Err) :
    (defineType ctx g name ty).2 = .err e ↔
      ((alGet g.defined ty).isSome = true ∧ Err.typeAlreadyDefined = e) ∨
      ((alGet g.defined ty).isSome = false ∧ ctx.tyIsResource ty = true ∧ Err.cannotDefineResource = e) ∨
      ((alGet g.defined ty).isSome = false ∧ ctx.tyIsResource ty = false ∧
        (alGet g.exports name).isSome = true ∧ Err.exportConflict name = e) ∨
      ((alGet g.defined ty).isSome = false ∧ ctx.tyIsResource ty = false ∧
        (alGet g.exports name).isSome = false ∧ ctx.validExtern name = false ∧ Err.invalidExternName name = e) := by
  unfold defineType defineTypeWith
  split
  · simp_all
  · split
    · simp_all
    · split
      · simp_all
      · split
        · simp_all
        · simp_all

theorem alias_err_iff (ctx : Ctx) (g : Graph) (inst : Nat) (ename : Str) (e : Err) :
    (aliasInstanceExport ctx g inst ename).2 = .err e ↔
      ∃ nd, g.node? inst = some nd ∧
        ((ctx.kindExports nd.item = none ∧ Err.nodeIsNotAnInstance inst = e) ∨
         (∃ exps, ctx.kindExports nd.item = some exps ∧ alFull exps ename = none ∧
            Err.instanceMissingExport inst ename = e)) := by
  unfold aliasInstanceExport
  split
  · simp_all
  · rename_i nd hnd
    split
    · simp_all
    · rename_i exps hex
      split
      · simp_all
      · split <;> simp_all

theorem export_err_iff (ctx : Ctx) (g : Graph) (n : Nat) (name : Str) (e : Err) :
    (exportNode ctx g n name).2 = .err e ↔
      (∃ m, alGet g.exports name = some m ∧ Err.exportAlreadyExists name m = e) ∨
      (alGet g.exports name = none ∧ ctx.validExport name = false ∧ Err.invalidExportName name = e) := by
  unfold exportNode
  split
  · rename_i m h; simp [h]
  · split
    · simp_all
    · split <;> simp_all

theorem unexport_err_iff (lg : Legacy) (g : Graph) (n : Nat) (e : Err) :
    (unexport lg g n).2 = .err e ↔
      ∃ nd, g.node? n = some nd ∧ nd.isDef = true ∧ Err.mustExportDefinition = e := by
  unfold unexport
  split
  · simp_all
  · rename_i nd hnd
    split
    · simp_all [Node.isDef]
    · rename_i hk
      have : nd.isDef = false := by
        unfold Node.isDef; split <;> simp_all
      split
      · simp_all
      · split <;> simp_all

/-- the argument errors, in the order the code decides them -/
theorem setArg_err_iff (ctx : Ctx) (g : Graph) (inst : Nat) (name : Str) (arg : Nat) (e : Err) :
    (setArg ctx g inst name arg).2 = .err e ↔
      ∃ nd, g.node? inst = some nd ∧
        ((nd.isInst = false ∧ Err.nodeIsNotAnInstantiation inst = e) ∨
         (nd.isInst = true ∧ ∃ pid d, nd.pkg = some pid ∧ g.pkgAt pid = .ok d ∧
           ((alFull d.imports name = none ∧ Err.invalidArgumentName inst name d.name = e) ∨
            (∃ i k, alFull d.imports name = some (i, k) ∧
              ((scanArgs (g.inEdges inst) i arg = some (.ok false) ∧ Err.argumentAlreadyPassed inst name = e) ∨
               (scanArgs (g.inEdges inst) i arg = none ∧ ∃ a, g.node? arg = some a ∧
                  ctx.sub a.item k = false ∧ Err.argumentTypeMismatch name = e)))))) := by
  unfold setArg
  split
  · simp_all
  · rename_i nd hnd
    split
    · rename_i sat hk
      have hi : nd.isInst = true := by simp [Node.isInst, hk]
      split
      · simp_all
      · rename_i pid hp
        split
        · simp_all
        · rename_i d hd
          split
          · simp_all
          · rename_i i k hf
            split
            · simp_all
            · simp_all
            · rename_i hs
              show Outcome.err (Err.argumentAlreadyPassed inst name) = Outcome.err e ↔ _
              rw [Outcome.err.injEq]
              constructor
              · intro h
                exact ⟨nd, hnd, Or.inr ⟨hi, pid, d, hp, hd, Or.inr ⟨i, k, hf, Or.inl ⟨hs, h⟩⟩⟩⟩
              · rintro ⟨nd', hnd', h⟩
                rw [hnd] at hnd'; cases hnd'
                rcases h with ⟨h1, _⟩ | ⟨_, pid', d', hp', hd', h⟩
                · simp [hi] at h1
                · rw [hp] at hp'; cases hp'; rw [hd] at hd'; cases hd'
                  rcases h with ⟨h1, _⟩ | ⟨i', k', hf', h⟩
                  · simp [hf] at h1
                  · rw [hf] at hf'; cases hf'
                    rcases h with ⟨_, h⟩ | ⟨h1, _⟩
                    · exact h
                    · simp [hs] at h1
            · rename_i hs
              split
              · simp_all
              · rename_i a ha
                split
                · rename_i hsub
                  show Outcome.err (Err.argumentTypeMismatch name) = Outcome.err e ↔ _
                  rw [Outcome.err.injEq]
                  constructor
                  · intro h
                    exact ⟨nd, hnd, Or.inr ⟨hi, pid, d, hp, hd, Or.inr ⟨i, k, hf,
                      Or.inr ⟨hs, a, ha, by simpa using hsub, h⟩⟩⟩⟩
                  · rintro ⟨nd', hnd', h⟩
                    rw [hnd] at hnd'; cases hnd'
                    rcases h with ⟨h1, _⟩ | ⟨_, pid', d', hp', hd', h⟩
                    · simp [hi] at h1
                    · rw [hp] at hp'; cases hp'; rw [hd] at hd'; cases hd'
                      rcases h with ⟨h1, _⟩ | ⟨i', k', hf', h⟩
                      · simp [hf] at h1
                      · rw [hf] at hf'; cases hf'
                        rcases h with ⟨h1, _⟩ | ⟨_, _, _, _, h⟩
                        · simp [hs] at h1
                        · exact h
                · split <;> simp_all
    · rename_i hk
      have hi : nd.isInst = false := by
        unfold Node.isInst; split <;> simp_all
      simp_all

theorem unsetArg_err_iff (g : Graph) (inst : Nat) (name : Str) (arg : Nat) (e : Err) :
    (unsetArg g inst name arg).2 = .err e ↔
      ∃ nd, g.node? inst = some nd ∧
        ((nd.isInst = false ∧ Err.nodeIsNotAnInstantiation inst = e) ∨
         (nd.isInst = true ∧ ∃ pid d, nd.pkg = some pid ∧ g.pkgAt pid = .ok d ∧
           alFull d.imports name = none ∧ Err.invalidArgumentName inst name d.name = e)) := by
  unfold unsetArg
  split
  · simp_all
  · rename_i nd hnd
    split
    · rename_i sat hk
      have hi : nd.isInst = true := by simp [Node.isInst, hk]
      split
      · simp_all
      · rename_i pid hp
        split
        · simp_all
        · rename_i d hd
          split
          · simp_all
          · split
            · simp_all
            · simp_all
            · split <;> simp_all
    · rename_i hk
      have hi : nd.isInst = false := by
        unfold Node.isInst; split <;> simp_all
      simp_all

/-- the operations without a documented error never return one -/
theorem infallible_ops (lg : Legacy) (g : Graph) (e : Err) :
    (∀ id, (instantiate g id).2 ≠ .err e) ∧
    (∀ n s, (setNodeName g n s).2 ≠ .err e) ∧ (∀ n, (removeNode lg g n).2 ≠ .err e) := by
  refine ⟨?_, ?_, ?_⟩
  · intro id
    unfold instantiate
    split <;> simp
  · intro n s
    unfold setNodeName
    split <;> simp
  · intro n
    unfold removeNode
    split <;> simp

end Wac.Graph
