import WacModel.Targets
import WacModel.Spec.Targets
import WacProofs.Lemmas.C07Aux
/-
  Lemmas for C11: the loops of the two target validators, over one collection `t`, with the
  shared memo, decide the pointwise subtype facts (via the C07 main theorem `isSubtype_spec`).
-/
namespace Wac
open Wac.Spec Wac.Props.C07

/-- the one-collection family -/
def oneColl (t : Types) : Colls where
  mem s := s = t
  inj s u hs hu _ := by rw [hs, hu]

/-- the kind unfolds (at the fuel the validators use) to a tree with distinct names -/
def WFK (t : Types) (k : ItemKind) : Prop :=
  ∃ tr, t.unfoldKind (checkFuel t t) k = some tr ∧ tr.namesDistinct = true

/-- `a <: b` (name-only view) for two kinds of `t` -/
def SubK (t : Types) (a b : ItemKind) : Prop :=
  ∃ ta tb, t.unfoldKind (checkFuel t t) a = some ta ∧ t.unfoldKind (checkFuel t t) b = some tb ∧
    subNames ta tb = true

/-- one check of a validator: decides `SubK`, keeps the memo sound, never panics -/
theorem check_step (t : Types) (c : Checker) (a b : ItemKind) (hm : MemoSound (oneColl t) c.cache)
    (ha : WFK t a) (hb : WFK t b) :
    ((isSubtype (checkFuel t t) c t a t b).1 = .ok ↔ SubK t a b) ∧
    (∀ s, (isSubtype (checkFuel t t) c t a t b).1 ≠ .panic s) ∧
    MemoSound (oneColl t) (isSubtype (checkFuel t t) c t a t b).2.cache ∧
    ((isSubtype (checkFuel t t) c t a t b).1 = .ok → (isSubtype (checkFuel t t) c t a t b).2.kinds = c.kinds) := by
  obtain ⟨ta, hta, nda⟩ := ha
  obtain ⟨tb, htb, ndb⟩ := hb
  have h := check_iff_subNames' (oneColl t) (checkFuel t t) c t t a b ta tb rfl rfl hm hta htb nda ndb
  refine ⟨?_, h.2.1, h.2.2.1, h.2.2.2⟩
  constructor
  · intro hok; exact ⟨ta, tb, hta, htb, h.1.1 hok⟩
  · rintro ⟨ta', tb', hta', htb', hs⟩
    rw [hta] at hta'; rw [htb] at htb'
    cases hta'; cases htb'
    exact h.1.2 hs

/-! ### resolution-time loops -/

theorem resolveImports_spec (t : Types) (implicit explicit : List (Str × ItemKind)) :
    ∀ (l : List (Str × ItemKind)) (c : Checker), MemoSound (oneColl t) c.cache →
    (∀ n k, (n, k) ∈ l → WFK t k ∧
      ∀ e, (amGet implicit n).orElse (fun _ => amGet explicit n) = some e → WFK t e.promote) →
    ((resolveImports t implicit explicit c l).1 = .ok ↔
      ∀ n k, (n, k) ∈ l → ∃ e, (amGet implicit n).orElse (fun _ => amGet explicit n) = some e ∧ SubK t e.promote k) ∧
    MemoSound (oneColl t) (resolveImports t implicit explicit c l).2.cache ∧
    ((resolveImports t implicit explicit c l).1 = .ok → (resolveImports t implicit explicit c l).2.kinds = c.kinds)
  | [], c, hm, _ => by simp [resolveImports, hm]
  | (name, kind) :: rest, c, hm, hwf => by
    have hw := hwf name kind (List.mem_cons_self)
    have hrest : ∀ n k, (n, k) ∈ rest → WFK t k ∧
        ∀ e, (amGet implicit n).orElse (fun _ => amGet explicit n) = some e → WFK t e.promote :=
      fun n k h => hwf n k (List.mem_cons_of_mem _ h)
    simp only [resolveImports]
    cases hl : (amGet implicit name).orElse (fun _ => amGet explicit name) with
    | none =>
      simp only
      refine ⟨⟨fun h => (by cases h), fun h => ?_⟩, hm, fun h => (by cases h)⟩
      obtain ⟨e, he, _⟩ := h name kind (List.mem_cons_self)
      rw [hl] at he; cases he
    | some expected =>
      simp only
      have hs := check_step t c expected.promote kind hm (hw.2 expected hl) hw.1
      cases hr : isSubtype (checkFuel t t) c t expected.promote t kind with
      | mk r c' =>
        rw [hr] at hs
        cases r with
        | ok =>
          simp only
          have ih := resolveImports_spec t implicit explicit rest c' hs.2.2.1 hrest
          refine ⟨?_, ih.2.1, fun h => (ih.2.2 h).trans (hs.2.2.2 rfl)⟩
          rw [ih.1]
          constructor
          · intro h n k hmem
            rcases List.mem_cons.1 hmem with heq | hmem
            · cases heq; exact ⟨expected, hl, hs.1.1 rfl⟩
            · exact h n k hmem
          · intro h n k hmem; exact h n k (List.mem_cons_of_mem _ hmem)
        | err m =>
          simp only
          refine ⟨⟨fun h => (by cases h), fun h => ?_⟩, hs.2.2.1, fun h => (by cases h)⟩
          obtain ⟨e, he, hsub⟩ := h name kind (List.mem_cons_self)
          rw [hl] at he; cases he
          have := hs.1.2 hsub
          cases this
        | panic s => exact absurd rfl (hs.2.1 s)

theorem resolveExports_spec (t : Types) (graphExports : List (Str × ItemKind)) :
    ∀ (l : List (Str × ItemKind)) (c : Checker), MemoSound (oneColl t) c.cache →
    (∀ n e, (n, e) ∈ l → WFK t e.promote ∧ ∀ k, amGet graphExports n = some k → WFK t k) →
    ((resolveExports t graphExports c l).1 = .ok ↔
      ∀ n e, (n, e) ∈ l → ∃ k, amGet graphExports n = some k ∧ SubK t k e.promote) ∧
    MemoSound (oneColl t) (resolveExports t graphExports c l).2.cache
  | [], c, hm, _ => by simp [resolveExports, hm]
  | (name, expected) :: rest, c, hm, hwf => by
    have hw := hwf name expected (List.mem_cons_self)
    have hrest : ∀ n e, (n, e) ∈ rest → WFK t e.promote ∧ ∀ k, amGet graphExports n = some k → WFK t k :=
      fun n e h => hwf n e (List.mem_cons_of_mem _ h)
    simp only [resolveExports]
    cases hl : amGet graphExports name with
    | none =>
      simp only
      refine ⟨⟨fun h => (by cases h), fun h => ?_⟩, hm⟩
      obtain ⟨k, hk, _⟩ := h name expected (List.mem_cons_self)
      rw [hl] at hk; cases hk
    | some kind =>
      simp only
      have hs := check_step t c kind expected.promote hm (hw.2 kind hl) hw.1
      cases hr : isSubtype (checkFuel t t) c t kind t expected.promote with
      | mk r c' =>
        rw [hr] at hs
        cases r with
        | ok =>
          simp only
          have ih := resolveExports_spec t graphExports rest c' hs.2.2.1 hrest
          refine ⟨?_, ih.2⟩
          rw [ih.1]
          constructor
          · intro h n e hmem
            rcases List.mem_cons.1 hmem with heq | hmem
            · cases heq; exact ⟨kind, hl, hs.1.1 rfl⟩
            · exact h n e hmem
          · intro h n e hmem; exact h n e (List.mem_cons_of_mem _ hmem)
        | err m =>
          simp only
          refine ⟨⟨fun h => (by cases h), fun h => ?_⟩, hs.2.2.1⟩
          obtain ⟨k, hk, hsub⟩ := h name expected (List.mem_cons_self)
          rw [hl] at hk; cases hk
          have := hs.1.2 hsub
          cases this
        | panic s => exact absurd rfl (hs.2.1 s)

/-! ### diagnostics of the resolution-time loops -/

theorem resolveImports_diag (t : Types) (implicit explicit : List (Str × ItemKind)) :
    ∀ (l : List (Str × ItemKind)) (c : Checker), MemoSound (oneColl t) c.cache →
    (∀ n k, (n, k) ∈ l → WFK t k ∧
      ∀ e, (amGet implicit n).orElse (fun _ => amGet explicit n) = some e → WFK t e.promote) →
    (∀ n, (resolveImports t implicit explicit c l).1 = .importNotInTarget n →
      ∃ k, (n, k) ∈ l ∧ (amGet implicit n).orElse (fun _ => amGet explicit n) = none) ∧
    (∀ i n m, (resolveImports t implicit explicit c l).1 = .targetMismatch i n m →
      i = true ∧ ∃ k e, (n, k) ∈ l ∧ (amGet implicit n).orElse (fun _ => amGet explicit n) = some e ∧
        ¬ SubK t e.promote k) ∧
    (∀ n k, (resolveImports t implicit explicit c l).1 ≠ .missingTargetExport n k) ∧
    (∀ s, (resolveImports t implicit explicit c l).1 ≠ .panic s)
  | [], c, _, _ => by simp [resolveImports]
  | (name, kind) :: rest, c, hm, hwf => by
    have hw := hwf name kind (List.mem_cons_self)
    have hrest : ∀ n k, (n, k) ∈ rest → WFK t k ∧
        ∀ e, (amGet implicit n).orElse (fun _ => amGet explicit n) = some e → WFK t e.promote :=
      fun n k h => hwf n k (List.mem_cons_of_mem _ h)
    simp only [resolveImports]
    cases hl : (amGet implicit name).orElse (fun _ => amGet explicit name) with
    | none =>
      simp only
      refine ⟨fun n h => ?_, fun i n m h => (by cases h), fun n k h => (by cases h), fun s h => (by cases h)⟩
      cases h; exact ⟨kind, List.mem_cons_self, hl⟩
    | some expected =>
      simp only
      have hs := check_step t c expected.promote kind hm (hw.2 expected hl) hw.1
      cases hr : isSubtype (checkFuel t t) c t expected.promote t kind with
      | mk r c' =>
        rw [hr] at hs
        cases r with
        | ok =>
          simp only
          have ih := resolveImports_diag t implicit explicit rest c' hs.2.2.1 hrest
          refine ⟨fun n h => ?_, fun i n m h => ?_, ih.2.2.1, ih.2.2.2⟩
          · obtain ⟨k, hk, hn⟩ := ih.1 n h; exact ⟨k, List.mem_cons_of_mem _ hk, hn⟩
          · obtain ⟨hi, k, e, hk, he, hns⟩ := ih.2.1 i n m h
            exact ⟨hi, k, e, List.mem_cons_of_mem _ hk, he, hns⟩
        | err m =>
          simp only
          refine ⟨fun n h => (by cases h), fun i n m' h => ?_, fun n k h => (by cases h), fun s h => (by cases h)⟩
          cases h
          refine ⟨rfl, kind, expected, List.mem_cons_self, hl, fun hsub => ?_⟩
          have := hs.1.2 hsub
          cases this
        | panic s => exact absurd rfl (hs.2.1 s)

theorem resolveExports_diag (t : Types) (graphExports : List (Str × ItemKind)) :
    ∀ (l : List (Str × ItemKind)) (c : Checker), MemoSound (oneColl t) c.cache →
    (∀ n e, (n, e) ∈ l → WFK t e.promote ∧ ∀ k, amGet graphExports n = some k → WFK t k) →
    (∀ n kd, (resolveExports t graphExports c l).1 = .missingTargetExport n kd →
      ∃ e, (n, e) ∈ l ∧ amGet graphExports n = none) ∧
    (∀ i n m, (resolveExports t graphExports c l).1 = .targetMismatch i n m →
      i = false ∧ ∃ e k, (n, e) ∈ l ∧ amGet graphExports n = some k ∧ ¬ SubK t k e.promote) ∧
    (∀ n, (resolveExports t graphExports c l).1 ≠ .importNotInTarget n) ∧
    (∀ s, (resolveExports t graphExports c l).1 ≠ .panic s)
  | [], c, _, _ => by simp [resolveExports]
  | (name, expected) :: rest, c, hm, hwf => by
    have hw := hwf name expected (List.mem_cons_self)
    have hrest : ∀ n e, (n, e) ∈ rest → WFK t e.promote ∧ ∀ k, amGet graphExports n = some k → WFK t k :=
      fun n e h => hwf n e (List.mem_cons_of_mem _ h)
    simp only [resolveExports]
    cases hl : amGet graphExports name with
    | none =>
      simp only
      refine ⟨fun n kd h => ?_, fun i n m h => (by cases h), fun n h => (by cases h), fun s h => (by cases h)⟩
      cases h; exact ⟨expected, List.mem_cons_self, hl⟩
    | some kind =>
      simp only
      have hs := check_step t c kind expected.promote hm (hw.2 kind hl) hw.1
      cases hr : isSubtype (checkFuel t t) c t kind t expected.promote with
      | mk r c' =>
        rw [hr] at hs
        cases r with
        | ok =>
          simp only
          have ih := resolveExports_diag t graphExports rest c' hs.2.2.1 hrest
          refine ⟨fun n kd h => ?_, fun i n m h => ?_, ih.2.2.1, ih.2.2.2⟩
          · obtain ⟨e, he, hn⟩ := ih.1 n kd h; exact ⟨e, List.mem_cons_of_mem _ he, hn⟩
          · obtain ⟨hi, e, k, he, hk, hns⟩ := ih.2.1 i n m h
            exact ⟨hi, e, k, List.mem_cons_of_mem _ he, hk, hns⟩
        | err m =>
          simp only
          refine ⟨fun n kd h => (by cases h), fun i n m' h => ?_, fun n h => (by cases h), fun s h => (by cases h)⟩
          cases h
          refine ⟨rfl, expected, kind, List.mem_cons_self, hl, fun hsub => ?_⟩
          have := hs.1.2 hsub
          cases this
        | panic s => exact absurd rfl (hs.2.1 s)

/-! ### the stand-alone check's loops -/

theorem binaryImports_spec (t : Types) (wi : NameMap ItemKind) :
    ∀ (l : List (Str × ItemKind)) (c : Checker) (r : Report), MemoSound (oneColl t) c.cache →
    (∀ n k, (n, k) ∈ l → WFK t k ∧ ∀ e, wi.get n = some e → WFK t e.promote) →
    ∀ r' c', binaryImports t wi c r l = some (r', c') →
      MemoSound (oneColl t) c'.cache ∧
      (r'.isOk = true ↔ r.isOk = true ∧ ∀ n k, (n, k) ∈ l → ∃ e, wi.get n = some e ∧ SubK t e.promote k)
  | [], c, r, hm, _, r', c', h => by
    simp only [binaryImports, Option.some.injEq, Prod.mk.injEq] at h
    obtain ⟨rfl, rfl⟩ := h
    simp [hm]
  | (name, kind) :: rest, c, r, hm, hwf, r', c', h => by
    have hw := hwf name kind (List.mem_cons_self)
    have hrest : ∀ n k, (n, k) ∈ rest → WFK t k ∧ ∀ e, wi.get n = some e → WFK t e.promote :=
      fun n k h => hwf n k (List.mem_cons_of_mem _ h)
    simp only [binaryImports] at h
    cases hl : wi.get name with
    | none =>
      simp only [hl] at h
      have ih := binaryImports_spec t wi rest c _ hm hrest r' c' h
      refine ⟨ih.1, ?_⟩
      rw [ih.2]
      constructor
      · rintro ⟨h1, _⟩; simp [Report.isOk] at h1
      · rintro ⟨_, h2⟩
        obtain ⟨e, he, _⟩ := h2 name kind (List.mem_cons_self)
        rw [hl] at he; cases he
    | some expected =>
      simp only [hl] at h
      have hs := check_step t c expected.promote kind hm (hw.2 expected hl) hw.1
      cases hr : isSubtype (checkFuel t t) c t expected.promote t kind with
      | mk rr c1 =>
        rw [hr] at hs h
        cases rr with
        | ok =>
          simp only at h
          have ih := binaryImports_spec t wi rest c1 r hs.2.2.1 hrest r' c' h
          refine ⟨ih.1, ?_⟩
          rw [ih.2]
          constructor
          · rintro ⟨h1, h2⟩
            refine ⟨h1, fun n k hmem => ?_⟩
            rcases List.mem_cons.1 hmem with heq | hmem
            · cases heq; exact ⟨expected, hl, hs.1.1 rfl⟩
            · exact h2 n k hmem
          · rintro ⟨h1, h2⟩; exact ⟨h1, fun n k hmem => h2 n k (List.mem_cons_of_mem _ hmem)⟩
        | err m =>
          simp only at h
          have ih := binaryImports_spec t wi rest c1 _ hs.2.2.1 hrest r' c' h
          refine ⟨ih.1, ?_⟩
          rw [ih.2]
          constructor
          · rintro ⟨h1, _⟩; simp [Report.isOk] at h1
          · rintro ⟨_, h2⟩
            obtain ⟨e, he, hsub⟩ := h2 name kind (List.mem_cons_self)
            rw [hl] at he; cases he
            have := hs.1.2 hsub
            cases this
        | panic s => exact absurd rfl (hs.2.1 s)

theorem binaryExports_spec (t : Types) (ce : NameMap ItemKind) :
    ∀ (l : List (Str × ItemKind)) (c : Checker) (r : Report), MemoSound (oneColl t) c.cache →
    (∀ n e, (n, e) ∈ l → WFK t e.promote ∧ ∀ k, ce.get n = some k → WFK t k) →
    ∀ r' c', binaryExports t ce c r l = some (r', c') →
      MemoSound (oneColl t) c'.cache ∧
      (r'.isOk = true ↔ r.isOk = true ∧ ∀ n e, (n, e) ∈ l → ∃ k, ce.get n = some k ∧ SubK t k e.promote)
  | [], c, r, hm, _, r', c', h => by
    simp only [binaryExports, Option.some.injEq, Prod.mk.injEq] at h
    obtain ⟨rfl, rfl⟩ := h
    simp [hm]
  | (name, expected) :: rest, c, r, hm, hwf, r', c', h => by
    have hw := hwf name expected (List.mem_cons_self)
    have hrest : ∀ n e, (n, e) ∈ rest → WFK t e.promote ∧ ∀ k, ce.get n = some k → WFK t k :=
      fun n e h => hwf n e (List.mem_cons_of_mem _ h)
    simp only [binaryExports] at h
    cases hl : ce.get name with
    | none =>
      simp only [hl] at h
      have ih := binaryExports_spec t ce rest c _ hm hrest r' c' h
      refine ⟨ih.1, ?_⟩
      rw [ih.2]
      constructor
      · rintro ⟨h1, _⟩; simp [Report.isOk] at h1
      · rintro ⟨_, h2⟩
        obtain ⟨k, hk, _⟩ := h2 name expected (List.mem_cons_self)
        rw [hl] at hk; cases hk
    | some kind =>
      simp only [hl] at h
      have hs := check_step t c kind expected.promote hm (hw.2 kind hl) hw.1
      cases hr : isSubtype (checkFuel t t) c t kind t expected.promote with
      | mk rr c1 =>
        rw [hr] at hs h
        cases rr with
        | ok =>
          simp only at h
          have ih := binaryExports_spec t ce rest c1 r hs.2.2.1 hrest r' c' h
          refine ⟨ih.1, ?_⟩
          rw [ih.2]
          constructor
          · rintro ⟨h1, h2⟩
            refine ⟨h1, fun n e hmem => ?_⟩
            rcases List.mem_cons.1 hmem with heq | hmem
            · cases heq; exact ⟨kind, hl, hs.1.1 rfl⟩
            · exact h2 n e hmem
          · rintro ⟨h1, h2⟩; exact ⟨h1, fun n e hmem => h2 n e (List.mem_cons_of_mem _ hmem)⟩
        | err m =>
          simp only at h
          have ih := binaryExports_spec t ce rest c1 _ hs.2.2.1 hrest r' c' h
          refine ⟨ih.1, ?_⟩
          rw [ih.2]
          constructor
          · rintro ⟨h1, _⟩; simp [Report.isOk] at h1
          · rintro ⟨_, h2⟩
            obtain ⟨k, hk, hsub⟩ := h2 name expected (List.mem_cons_self)
            rw [hl] at hk; cases hk
            have := hs.1.2 hsub
            cases this
        | panic s => exact absurd rfl (hs.2.1 s)

end Wac
