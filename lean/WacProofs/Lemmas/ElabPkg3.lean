import WacProofs.Lemmas.ElabPkg2
/-
  C05 `elab_denotes`, part 12: the interfaces of a package, all kinds of items; the renaming `ρ`
  read off the run.
-/
namespace Wac.Elab
open Wac Wac.Spec.Wit Wac.Decode

variable {ρ : Nat → Res}

theorem alGet_append_some {β : Type} (l m : List (Str × β)) (k : Str) (v : β) (h : alGet l k = some v) :
    alGet (l ++ m) k = some v := by
  induction l with
  | nil => simp [alGet] at h
  | cons y ys ih =>
    obtain ⟨k', v'⟩ := y
    simp only [alGet] at h
    simp only [List.cons_append, alGet]
    split
    · rename_i heq; simp only [heq, if_true] at h; exact h
    · rename_i hne; simp only [hne] at h; exact ih h

theorem alGet_append_none {β : Type} (l m : List (Str × β)) (k : Str) (h : alGet l k = none) :
    alGet (l ++ m) k = alGet m k := by
  induction l with
  | nil => rfl
  | cons y ys ih =>
    obtain ⟨k', v'⟩ := y
    simp only [alGet] at h
    simp only [List.cons_append, alGet]
    split
    · rename_i heq; simp only [heq, if_true] at h; cases h
    · rename_i hne; simp only [hne] at h; exact ih h

/-- a new interface enters the root scope and the environment -/
theorem RootSim.push {T : Types} {root : List (Str × Bound)} {ifaces : List (Str × List (Str × Tree))}
    {n idn : Str} {i : Nat} {itf : Interface} {ex : List (Str × Tree)}
    (h : RootSim ρ T root ifaces) (hi : T.interfaces[i]? = some itf) (hex : ExpRel ρ T itf.exports ex)
    (hfresh : alGet ifaces n = none) :
    RootSim ρ T (root ++ [(n, .iface i)]) (ifaces ++ [(n, ex), (idn, ex)]) := by
  intro path j hp
  rw [alGet_append] at hp
  cases hr : alGet root path with
  | some b =>
    rw [hr] at hp
    simp only [Option.some.injEq] at hp
    subst hp
    obtain ⟨itf', ex', h1, h2, h3⟩ := h path j hr
    exact ⟨itf', ex', h1, alGet_append_some _ _ _ _ h2, h3⟩
  | none =>
    rw [hr] at hp
    simp only at hp
    split at hp
    · rename_i hnp
      cases hp
      have : path = n := by simpa using (beq_iff_eq.mp hnp).symm
      subst this
      refine ⟨itf, ex, hi, ?_, hex⟩
      rw [alGet_append_none _ _ _ hfresh]
      simp [alGet]
    · cases hp

theorem elabIfacesAll_ok (p : Pkg) :
    ∀ (ifs : List (Str × List Item)) (st st' : St) (env env' : Env),
      elabIfaces p ifs st = .ok st' → denIfaces p ifs env = some env' →
      Grow st.types st'.types ∧ st'.scope = st.scope ∧
      ∃ (newR : List Nat) (res : List (Nat × List (Str × Tree))),
        env'.next = env.next + newR.length ∧ newR.Pairwise (· < ·) ∧
        (∀ x ∈ newR, st.types.resources.length ≤ x ∧ x < st'.types.resources.length) ∧
        env'.ifaces = env.ifaces ++ (List.zip ifs res).flatMap
          (fun x => [(x.1.1, x.2.2), (p.idOf x.1.1, x.2.2)]) ∧
        ∀ (ρ : Nat → Res) (RL : List Nat), RL.length = env.next → ConsE ρ (RL ++ newR) st'.types →
          RootSim ρ st.types st.root env.ifaces →
          (env.ifaces.map (·.1) ++ ifs.flatMap (fun ni => [ni.1, p.idOf ni.1])).Nodup →
          (∀ nx ∈ env'.ifaces, (nx.2.map (·.1)).Nodup) →
          RootSim ρ st'.types st'.root env'.ifaces ∧
          All2 (fun (_ : Str × List Item) (ie : Nat × List (Str × Tree)) =>
            HK [] [] st'.types (kb st'.types) (.instance ie.1) (renT ρ (.instance (Forest.ofList ie.2)))) ifs res := by
  intro ifs
  induction ifs with
  | nil =>
    intro st st' env env' h hd
    simp only [elabIfaces, List.foldlM_nil] at h
    cases h
    simp only [denIfaces, List.foldlM_nil, Option.pure_def, Option.some.injEq] at hd
    subst hd
    exact ⟨Grow.refl _, rfl, [], [], by simp, List.Pairwise.nil, by simp, by simp,
      fun _ _ _ _ hrs _ _ => ⟨hrs, trivial⟩⟩
  | cons ni r ih =>
    intro st st' env env' h hd
    simp only [elabIfaces, List.foldlM_cons] at h
    simp only [denIfaces, List.foldlM_cons, Option.bind_eq_bind] at hd
    obtain ⟨env1, hd1, hd2⟩ := Option.bind_eq_some_iff.mp hd
    obtain ⟨ne, hne, henv1⟩ := Option.map_eq_some_iff.mp hd1
    obtain ⟨next1, ex⟩ := ne
    cases hdec : interfaceDecl st (some (idOf p ni.1)) ni.2 with
    | error e => simp [hdec] at h; cases h
    | ok si =>
      obtain ⟨st1, i⟩ := si
      simp only [hdec] at h
      have h' : elabIfaces p r { st1 with root := st1.root ++ [(ni.1, .iface i)] } = .ok st' := h
      have hd2' : denIfaces p r env1 = some env' := hd2
      obtain ⟨g1, rt1, sc1, k1⟩ := interfaceDeclAll_ok hdec
      obtain ⟨g2, sc2, newR2, res, hn2, hp2, hr2, henv, kk2⟩ := ih _ _ _ _ h' hd2'
      obtain ⟨newR1, hn1, hp1, hr1, kk1⟩ := k1 (p.idOf ni.1) env.ifaces env.next next1 ex hne
      have hl1 := g1.ext.resources_len
      have hl2 : st1.types.resources.length ≤ st'.types.resources.length := g2.ext.resources_len
      have henv1n : env1.next = next1 := by rw [← henv1]
      have henv1i : env1.ifaces = env.ifaces ++ [(ni.1, ex), (p.idOf ni.1, ex)] := by rw [← henv1]
      refine ⟨g1.trans g2, sc2.trans sc1, newR1 ++ newR2, (i, ex) :: res, ?_, ?_, ?_, ?_, ?_⟩
      · simp only [List.length_append]; rw [hn2, henv1n, hn1]; omega
      · rw [List.pairwise_append]
        refine ⟨hp1, hp2, ?_⟩
        intro a ha b hb
        have h3 := (hr1 a ha).2
        have h4 : st1.types.resources.length ≤ b := (hr2 b hb).1
        omega
      · intro x hx
        rcases List.mem_append.mp hx with hx | hx
        · have := hr1 x hx; omega
        · have h3 : st1.types.resources.length ≤ x ∧ x < st'.types.resources.length := hr2 x hx
          omega
      · rw [henv, henv1i]; simp
      · intro ρ RL hRL hcons hrs hkeys hnd
        have hex_nd : (ex.map (·.1)).Nodup := by
          apply hnd (ni.1, ex)
          rw [henv, henv1i]
          simp
        have hcons1 : ConsE ρ (RL ++ newR1) st1.types :=
          ConsE.back (RL' := RL ++ (newR1 ++ newR2)) hcons g2 (fun k idx hk => by
            rw [← List.append_assoc]; exact prefix_append_getElem? _ _ _ _ hk)
        obtain ⟨hk, itf, hitf, hexp⟩ := kk1 ρ RL hRL hcons1 hrs hex_nd
        have hfresh : alGet env.ifaces ni.1 = none := by
          apply alGet_none_of_not_mem
          intro hm
          simp only [List.flatMap_cons, List.cons_append, List.nil_append] at hkeys
          rw [List.nodup_append] at hkeys
          exact hkeys.2.2 _ hm _ (List.mem_cons_self ..) rfl
        have hrs1 : RootSim ρ st1.types (st1.root ++ [(ni.1, .iface i)]) env1.ifaces := by
          rw [henv1i, rt1]
          exact (hrs.mono g1).push hitf hexp hfresh
        have hkeys1 : (env1.ifaces.map (·.1) ++ r.flatMap (fun nj => [nj.1, p.idOf nj.1])).Nodup := by
          rw [henv1i]
          simpa [List.flatMap_cons, List.append_assoc] using hkeys
        obtain ⟨hrs', hall⟩ := kk2 ρ (RL ++ newR1) (by rw [henv1n, hn1]; simp [hRL])
          (by rw [List.append_assoc]; exact hcons) hrs1 hkeys1 hnd
        have hs2 : Types.size st1.types ≤ Types.size st'.types := g2.size
        exact ⟨hrs', HK.mono hk g2.ext (by unfold kb vb; omega), hall⟩

/-- the renaming read off a run: the `k`-th declared resource ↦ the leaf of its root resource;
any other number ↦ a leaf outside the arena (so that `ρ` is injective) -/
def rhoE (T : Types) (newR : List Nat) (k : Nat) : Res :=
  match newR[k]? with
  | some idx =>
    match T.resources[idx]? with
    | some x => ⟨T.uid, idx, x.name⟩
    | none => ⟨T.uid, idx, []⟩
  | none => ⟨T.uid, T.resources.length + k, []⟩

theorem consE_rhoE (T : Types) (newR : List Nat) : ConsE (rhoE T newR) ([] ++ newR) T := by
  intro k idx x hk hx
  simp only [List.nil_append] at hk
  simp [rhoE, hk, hx]

theorem rhoE_inj (T : Types) (newR : List Nat) (hp : newR.Pairwise (· < ·))
    (hr : ∀ x ∈ newR, x < T.resources.length) :
    ∀ a b, (rhoE T newR a).idx = (rhoE T newR b).idx → a = b := by
  have hidx : ∀ a, (rhoE T newR a).idx = match newR[a]? with
      | some idx => idx
      | none => T.resources.length + a := by
    intro a
    unfold rhoE
    split
    · split <;> rfl
    · rfl
  have hmono : ∀ (a b x y : Nat), a < b → newR[a]? = some x → newR[b]? = some y → x < y := by
    intro a b x y hab hx hy
    have ha := getElem?_lt_of_some hx
    have hb := getElem?_lt_of_some hy
    have := (List.pairwise_iff_getElem.mp hp) a b ha hb hab
    rw [List.getElem?_eq_getElem ha] at hx
    rw [List.getElem?_eq_getElem hb] at hy
    cases hx; cases hy
    exact this
  intro a b hab
  rw [hidx a, hidx b] at hab
  cases ha : newR[a]? with
  | some x =>
    cases hb : newR[b]? with
    | some y =>
      rw [ha, hb] at hab
      simp only at hab
      subst hab
      rcases Nat.lt_trichotomy a b with hlt | heq | hgt
      · have := hmono a b x x hlt ha hb; omega
      · exact heq
      · have := hmono b a x x hgt hb ha; omega
    | none =>
      rw [ha, hb] at hab
      simp only at hab
      have := hr x (List.mem_of_getElem? ha); omega
  | none =>
    cases hb : newR[b]? with
    | some y =>
      rw [ha, hb] at hab
      simp only at hab
      have := hr y (List.mem_of_getElem? hb); omega
    | none =>
      rw [ha, hb] at hab
      simp only at hab
      omega

end Wac.Elab
