import WacProofs.Lemmas.PrinterParseDepthItems
import WacProofs.Lemmas.PrinterErase
/-
  C13, nesting limit of the printed tokens: expressions (`parseExpr`, `parsePrimaryExpr`,
  `parseInstantiationArgument`, by simultaneous induction on the fuel), the postfix loop,
  `let`/`export` statements.  `[`, `]` are not counted by the lexer.
-/
namespace Wac.Lemmas.PrinterDepth
open Wac Wac.Ast Wac.Lex Wac.Parse Wac.PrintTok
open Wac.Lemmas.PrinterErase (tok_expr_mk tok_primaryExpr_new tok_primaryExpr_nested
  tok_exprArgs_inferred tok_exprArgs_spread tok_exprArgs_named tok_exprArgs_fill)

/-- what the depth lemma says about one instantiation argument -/
def argOK (d : Nat) : InstantiationArgument → Prop
  | .Named (.mk _ e) => Steps d (expr e) d
  | _ => True

theorem Steps_exprArgs {d : Nat} : ∀ (as : List InstantiationArgument),
    (∀ a ∈ as, argOK d a) → Steps d (exprArgs as) d := by
  intro as
  induction as with
  | nil => intro _; exact Steps.nil
  | cons a r ih =>
    intro h
    have h1 := h a (List.mem_cons_self ..)
    have h2 := ih (fun x hx => h x (List.mem_cons_of_mem _ hx))
    cases a with
    | Inferred id => rw [tok_exprArgs_inferred]; steps
    | Spread id => rw [tok_exprArgs_spread]; steps
    | Named n =>
      obtain ⟨name, e⟩ := n
      have h1' : Steps d (expr e) d := h1
      rw [tok_exprArgs_named]; steps
    | Fill sp =>
      rw [tok_exprArgs_fill]
      cases r.isEmpty
      · show Steps d ([ellipsis, comma] ++ exprArgs r) d
        steps
      · show Steps d ([ellipsis] ++ exprArgs r) d
        steps

theorem Steps_postfix {d : Nat} (post : List PostfixExpr) : Steps d (post.flatMap postfixExpr) d :=
  Steps.flatMap (fun p _ => by cases p <;> (unfold postfixExpr; steps))

theorem parseInstantiationArgumentName_post {st : PState} {d : Nat} (hd : st.depth = d) :
    Post (parseInstantiationArgumentName st) (fun _ st' => st'.depth = d) := by
  unfold parseInstantiationArgumentName
  split
  · pbind parseIdent_post hd => p st1 hd1
    exact Post_ok hd1
  · pbind parseString_post hd => p st1 hd1
    exact Post_ok hd1
  · exact Post_error

theorem parseAccessExpr_post {st : PState} {d : Nat} (hd : st.depth = d) :
    Post (parseAccessExpr st) (fun _ st' => st'.depth = d) := by
  unfold parseAccessExpr
  pbind parseToken_nb hd => _ st1 hd1
  pbind parseIdent_post hd1 => id st2 hd2
  exact Post_ok hd2

theorem parseNamedAccessExpr_post {st : PState} {d : Nat} (hd : st.depth = d) :
    Post (parseNamedAccessExpr st) (fun _ st' => st'.depth = d) := by
  unfold parseNamedAccessExpr
  pbind parseToken_nb hd => _ st1 hd1
  pbind parseString_post hd1 => s st2 hd2
  pbind parseToken_nb hd2 => _ st3 hd3
  exact Post_ok hd3

theorem parsePostfix_post : ∀ (fuel : Nat) {st : PState} {d : Nat}, st.depth = d →
    Post (parsePostfix fuel st) (fun _ st' => st'.depth = d) := by
  intro fuel
  induction fuel with
  | zero => intro st d _; unfold parsePostfix; exact Post_error
  | succ fuel ih =>
    intro st d hd
    unfold parsePostfix
    split
    · pbind parseAccessExpr_post hd => a st1 hd1
      pbind ih hd1 => r st2 hd2
      exact Post_ok hd2
    · pbind parseNamedAccessExpr_post hd => a st1 hd1
      pbind ih hd1 => r st2 hd2
      exact Post_ok hd2
    · exact Post_ok hd

theorem parseExpr_mutual_dp : ∀ (fuel : Nat),
    (∀ {st : PState} {d : Nat}, st.depth = d → Post (parseExpr fuel st) (Bal d expr)) ∧
    (∀ {st : PState} {d : Nat}, st.depth = d → Post (parsePrimaryExpr fuel st) (Bal d primaryExpr)) ∧
    (∀ {st : PState} {d : Nat}, st.depth = d →
      Post (parseInstantiationArgument fuel st) (fun a st' => st'.depth = d ∧ argOK d a)) := by
  intro fuel
  induction fuel with
  | zero =>
    refine ⟨?_, ?_, ?_⟩
    · intro st d _; unfold parseExpr; exact Post_error
    · intro st d _; unfold parsePrimaryExpr; exact Post_error
    · intro st d _; unfold parseInstantiationArgument; exact Post_error
  | succ fuel ih =>
    obtain ⟨ihE, ihP, ihA⟩ := ih
    refine ⟨?_, ?_, ?_⟩
    · intro st d hd
      unfold parseExpr
      pbind ihP hd => p st1 ⟨hd1, hp⟩
      pbind parsePostfix_post _ hd1 => post st2 hd2
      refine Post_ok ⟨hd2, ?_⟩
      rw [tok_expr_mk]
      have := Steps_postfix (d := d) post
      steps
    · intro st d hd
      unfold parsePrimaryExpr
      split
      · pbind parseToken_nb hd => _ st1 hd1
        pbind parsePackageName_post hd1 => pk st2 hd2
        pbind parseToken_op hd2 => _ st3 ⟨hd3, htd⟩
        pbind parseDelimited_post _ _ _ (fun _ h => ihA h) _ hd3 => as st4 ⟨hd4, has⟩
        pbind parseToken_cl hd4 => _ st5 hd5
        refine Post_ok ⟨hd5, ?_⟩
        rw [tok_primaryExpr_new]
        have := Steps_exprArgs as has
        steps
      · pbind parseToken_op hd => _ st1 ⟨hd1, htd⟩
        pbind ihE hd1 => e st2 ⟨hd2, he⟩
        pbind parseToken_cl hd2 => _ st3 hd3
        refine Post_ok ⟨hd3, ?_⟩
        rw [tok_primaryExpr_nested]
        steps
      · pbind parseIdent_post hd => id st1 hd1
        refine Post_ok ⟨hd1, ?_⟩
        show Steps d [ident id] d
        steps
      · exact Post_error
    · intro st d hd
      unfold parseInstantiationArgument
      split
      · pbind parseToken_nb hd => e st1 hd1
        split
        · exact Post_ok ⟨hd1, trivial⟩
        · pbind parseIdent_post hd1 => id st2 hd2
          exact Post_ok ⟨hd2, trivial⟩
      · split
        · split
          · pbind parseInstantiationArgumentName_post hd => n st1 hd1
            pbind parseToken_nb hd1 => _ st2 hd2
            pbind ihE hd2 => e st3 ⟨hd3, he⟩
            exact Post_ok ⟨hd3, he⟩
          · pbind parseIdent_post hd => id st1 hd1
            exact Post_ok ⟨hd1, trivial⟩
        · exact Post_error
      · exact Post_error

theorem parseExpr_dp (fuel : Nat) {st : PState} {d : Nat} (hd : st.depth = d) :
    Post (parseExpr fuel st) (Bal d expr) := (parseExpr_mutual_dp fuel).1 hd

/-! ### `let`, `export` -/

theorem parseLetStatement_dp (fuel : Nat) {st : PState} {d : Nat} (hd : st.depth = d) :
    Post (parseLetStatement fuel st) (Bal d letStatement) := by
  unfold parseLetStatement
  dsimp only
  pbind parseToken_nb hd => _ st1 hd1
  pbind parseIdent_post hd1 => id st2 hd2
  pbind parseToken_nb hd2 => _ st3 hd3
  pbind parseExpr_dp fuel hd3 => e st4 ⟨hd4, he⟩
  pbind parseToken_nb hd4 => _ st5 hd5
  refine Post_ok ⟨hd5, ?_⟩
  unfold letStatement
  dsimp only
  steps

theorem parseExportOptions_post {st : PState} {d : Nat} (hd : st.depth = d) :
    Post (parseExportOptions st) (fun _ st' => st'.depth = d) := by
  unfold parseExportOptions
  split
  · pbind parseToken_nb hd => e st1 hd1
    exact Post_ok hd1
  · split
    · pbind parseToken_nb hd => _ st1 hd1
      pbind parseExternName_post hd1 => n st2 hd2
      exact Post_ok hd2
    · exact Post_ok hd

theorem parseExportStatement_dp (fuel : Nat) {st : PState} {d : Nat} (hd : st.depth = d) :
    Post (parseExportStatement fuel st) (Bal d exportStatement) := by
  unfold parseExportStatement
  dsimp only
  pbind parseToken_nb hd => _ st1 hd1
  pbind parseExpr_dp fuel hd1 => e st2 ⟨hd2, he⟩
  pbind parseExportOptions_post hd2 => o st3 hd3
  pbind parseToken_nb hd3 => _ st4 hd4
  refine Post_ok ⟨hd4, ?_⟩
  unfold exportStatement
  dsimp only
  cases o <;> dsimp only <;> steps

end Wac.Lemmas.PrinterDepth
