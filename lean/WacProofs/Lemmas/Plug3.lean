import WacProofs.Lemmas.Plug2
import WacProofs.Lemmas.GraphQueries
/-
  C10, `no_plug_iff` (⇒): a plug loop that passes at least one argument leaves an argument edge
  at the socket instantiation, so `get_instantiation_arguments` is not empty afterwards.
-/
namespace Wac.Graph
open Wac Wac.HashSites

/-- the package table is untouched and edges are only added -/
def Grows (g g' : Graph) : Prop := g'.pkgs = g.pkgs ∧ ∀ e ∈ g.edges, e ∈ g'.edges

theorem Grows.refl (g : Graph) : Grows g g := ⟨rfl, fun _ h => h⟩

theorem Grows.trans {a b c : Graph} (h1 : Grows a b) (h2 : Grows b c) : Grows a c :=
  ⟨h2.1.trans h1.1, fun e he => h2.2 e (h1.2 e he)⟩

theorem addNode_grows (g : Graph) (nd : Node) : Grows g (g.addNode nd).1 := by
  unfold Graph.addNode
  split <;> exact ⟨rfl, fun _ h => h⟩

theorem instantiate_grows (g : Graph) (id : PkgId) : Grows g (instantiate g id).1 := by
  unfold instantiate
  split
  · exact Grows.refl g
  · exact addNode_grows g _

theorem alias_grows (ctx : Ctx) (g : Graph) (inst : Nat) (ename : Str) :
    Grows g (aliasInstanceExport ctx g inst ename).1 := by
  unfold aliasInstanceExport
  split
  · exact Grows.refl g
  · split
    · exact Grows.refl g
    · split
      · exact Grows.refl g
      · split
        · exact Grows.refl g
        · have h := addNode_grows g ⟨.alias, (‹Node›).pkg, (‹Kind›), none, none⟩
          exact ⟨h.1, fun e he => List.mem_cons_of_mem _ (h.2 e he)⟩

/-- there is an argument edge into `n` -/
def HasArg (g : Graph) (n : Nat) : Prop := ∃ e ∈ g.edges, e.dst = n ∧ e.kind.isArg = true

theorem HasArg.mono {g g' : Graph} {n : Nat} (h : HasArg g n) (hg : Grows g g') : HasArg g' n := by
  obtain ⟨e, he, h1, h2⟩ := h
  exact ⟨e, hg.2 e he, h1, h2⟩

theorem scanArgs_some {es : List Edge} {i a : Nat} {b : Bool} (h : scanArgs es i a = some (.ok b)) :
    ∃ e ∈ es, e.kind.isArg = true := by
  induction es with
  | nil => simp [scanArgs] at h
  | cons x r ih =>
    unfold scanArgs at h
    split at h
    · rename_i j hk
      split at h
      · exact ⟨x, List.mem_cons_self .., by simp [EdgeKind.isArg, hk]⟩
      · obtain ⟨e, he, hk'⟩ := ih h
        exact ⟨e, List.mem_cons_of_mem _ he, hk'⟩
    · cases h

/-- whatever `set_instantiation_argument` answers, it only adds; when it answers Ok the
    instantiation has an argument edge -/
theorem setArg_grows (ctx : Ctx) (g : Graph) (inst : Nat) (name : Str) (arg : Nat) :
    Grows g (setArg ctx g inst name arg).1 ∧
    (∀ v, (setArg ctx g inst name arg).2 = .ok v → HasArg (setArg ctx g inst name arg).1 inst) := by
  unfold setArg
  split
  · exact ⟨Grows.refl g, fun v h => by cases h⟩
  · split
    · split
      · exact ⟨Grows.refl g, fun v h => by cases h⟩
      · split
        · exact ⟨Grows.refl g, fun v h => by cases h⟩
        · split
          · exact ⟨Grows.refl g, fun v h => by cases h⟩
          · split
            · exact ⟨Grows.refl g, fun v h => by cases h⟩
            · rename_i hscan
              refine ⟨Grows.refl g, fun v _ => ?_⟩
              obtain ⟨e, he, hk⟩ := scanArgs_some hscan
              unfold Graph.inEdges at he
              rw [List.mem_filter] at he
              exact ⟨e, he.1, by simpa using he.2, hk⟩
            · exact ⟨Grows.refl g, fun v h => by cases h⟩
            · split
              · exact ⟨Grows.refl g, fun v h => by cases h⟩
              · split
                · exact ⟨Grows.refl g, fun v h => by cases h⟩
                · split
                  · exact ⟨Grows.refl g, fun v h => by cases h⟩
                  · refine ⟨⟨rfl, fun e he => List.mem_cons_of_mem _ he⟩, fun v _ => ?_⟩
                    exact ⟨_, List.mem_cons_self .., rfl, rfl⟩
    · exact ⟨Grows.refl g, fun v h => by cases h⟩

/-- a completed inner loop over a non-empty list of pairs leaves an argument edge at the socket -/
theorem plugOne_none {ctx : Ctx} (si : Nat) (p : PkgId) : ∀ (l : List (Str × Str)) (g g' : Graph) (inst : Option Nat),
    plugOne ctx si p l g inst = (g', none) → Grows g g' ∧ (l ≠ [] → HasArg g' si)
  | [], g, g', inst, h => by
    simp only [plugOne, Prod.mk.injEq] at h
    rw [← h.1]
    exact ⟨Grows.refl g, fun hne => absurd rfl hne⟩
  | (plugName, socketName) :: rest, g, g', inst, h => by
    unfold plugOne at h
    have key : ∀ (g1 : Graph) (i : Nat), Grows g g1 →
        (match aliasInstanceExport ctx g1 i plugName with
          | (g2, .ok (.node a)) =>
            match setArg ctx g2 si socketName a with
            | (g3, .ok _) => plugOne ctx si p rest g3 (some i)
            | (g3, .err e) => (g3, some (.graphError e))
            | (g3, .panic s) => (g3, some (.panic s))
          | (g2, .err e) => (g2, some (.graphError e))
          | (g2, .panic s) => (g2, some (.panic s))
          | (g2, .ok _) => (g2, some (.panic .invalidNodeId))) = (g', none) →
        Grows g g' ∧ HasArg g' si := by
      intro g1 i hg hres
      have ga := alias_grows ctx g1 i plugName
      cases hal : aliasInstanceExport ctx g1 i plugName with
      | mk g2 oa =>
        rw [hal] at hres ga
        simp only at ga
        cases oa with
        | err e => simp at hres
        | panic s => simp at hres
        | ok v =>
          cases v with
          | node a =>
            simp only at hres
            have gs := setArg_grows ctx g2 si socketName a
            cases hsa : setArg ctx g2 si socketName a with
            | mk g3 os =>
              rw [hsa] at hres gs
              simp only at gs
              cases os with
              | err e => simp at hres
              | panic s => simp at hres
              | ok w =>
                simp only at hres
                obtain ⟨gr, _⟩ := plugOne_none si p rest g3 g' (some i) hres
                exact ⟨(hg.trans ga).trans (gs.1.trans gr), (gs.2 w rfl).mono gr⟩
          | unit => simp at hres
          | pkg id => simp at hres
    cases inst with
    | some i =>
      simp only at h
      obtain ⟨a, b⟩ := key g i (Grows.refl g) h
      exact ⟨a, fun _ => b⟩
    | none =>
      simp only at h
      have gi := instantiate_grows g p
      cases hin : instantiate g p with
      | mk g1 oi =>
        rw [hin] at h gi
        simp only at gi
        cases oi with
        | ok v =>
          cases v with
          | node i =>
            simp only at h
            obtain ⟨a, b⟩ := key g1 i gi h
            exact ⟨a, fun _ => b⟩
          | unit => simp at h
          | pkg id => simp at h
        | err e => simp at h
        | panic s => simp at h

/-- the loop over the plugs: if it completes and some plug had a pair to pass, the socket
    instantiation has an argument edge -/
theorem plugAll_none {ctx : Ctx} (si : Nat) (socketD : PkgDef) : ∀ (ps : List PkgId) (g g' : Graph),
    plugAll ctx si socketD ps g = (g', none) → Grows g g' ∧
      ((∃ p ∈ ps, ∃ plugD, g.pkgOf p = .ok plugD ∧ plugExports ctx plugD socketD ≠ []) → HasArg g' si)
  | [], g, g', h => by
    simp only [plugAll, Prod.mk.injEq] at h
    rw [← h.1]
    exact ⟨Grows.refl g, fun ⟨p, hp, _⟩ => by cases hp⟩
  | p :: ps, g, g', h => by
    unfold plugAll at h
    cases hp : g.pkgOf p with
    | error s => rw [hp] at h; simp at h
    | ok plugD =>
      rw [hp] at h
      simp only at h
      cases h1 : plugOne ctx si p (plugExports ctx plugD socketD) g none with
      | mk g1 o1 =>
        rw [h1] at h
        cases o1 with
        | some o => simp at h
        | none =>
          simp only at h
          obtain ⟨ga, ha⟩ := plugOne_none si p _ g g1 none h1
          obtain ⟨gb, hb⟩ := plugAll_none si socketD ps g1 g' h
          refine ⟨ga.trans gb, ?_⟩
          rintro ⟨q, hq, qD, hqD, hne⟩
          rcases List.mem_cons.mp hq with rfl | hq'
          · rw [hp] at hqD
            cases hqD
            exact (ha hne).mono gb
          · exact hb ⟨q, hq', qD, by rw [pkgOf_congr ga.1]; exact hqD, hne⟩

/-- on a consistent graph an instantiation with an argument edge has a non-empty argument list -/
theorem args_nonempty_of_hasArg {ctx : Ctx} {g : Graph} (h : Inv ctx g) {n : Nat} (ha : HasArg g n) :
    getInstantiationArguments g n ≠ .ok [] := by
  obtain ⟨e, he, hdst, hk⟩ := ha
  obtain ⟨s, _, d, hd, hkk⟩ := h.edges e he
  rw [hdst, Option.mem_def] at hd
  have hinst : d.isInst = true := by
    cases hek : e.kind <;> rw [hek] at hk hkk
    · cases hk
    · exact hkk.2.1
    · cases hk
  obtain ⟨l, hl, hsrc⟩ := getInstantiationArguments_sources h hd hinst
  rw [hl]
  intro hnil
  have : l = [] := by injection hnil
  rw [this] at hsrc
  have hmem : e ∈ g.inEdges n := by
    unfold Graph.inEdges
    rw [List.mem_filter]
    exact ⟨he, by simpa using hdst⟩
  have : (g.inEdges n).map (·.src) = [] := by simpa using hsrc.symm
  rw [List.map_eq_nil_iff] at this
  rw [this] at hmem
  cases hmem

/-! ### the loops never report `NoPlugHappened` themselves -/

def PlugOutcome.isFail : PlugOutcome → Bool
  | .graphError _ | .panic _ => true
  | _ => false

theorem plugOne_some {ctx : Ctx} (si : Nat) (p : PkgId) : ∀ (l : List (Str × Str)) (g g' : Graph) (inst : Option Nat)
    (o : PlugOutcome), plugOne ctx si p l g inst = (g', some o) → o.isFail = true
  | [], g, g', inst, o, h => by simp [plugOne] at h
  | (plugName, socketName) :: rest, g, g', inst, o, h => by
    unfold plugOne at h
    have key : ∀ (g1 : Graph) (i : Nat),
        (match aliasInstanceExport ctx g1 i plugName with
          | (g2, .ok (.node a)) =>
            match setArg ctx g2 si socketName a with
            | (g3, .ok _) => plugOne ctx si p rest g3 (some i)
            | (g3, .err e) => (g3, some (.graphError e))
            | (g3, .panic s) => (g3, some (.panic s))
          | (g2, .err e) => (g2, some (.graphError e))
          | (g2, .panic s) => (g2, some (.panic s))
          | (g2, .ok _) => (g2, some (.panic .invalidNodeId))) = (g', some o) → o.isFail = true := by
      intro g1 i hres
      cases hal : aliasInstanceExport ctx g1 i plugName with
      | mk g2 oa =>
        rw [hal] at hres
        cases oa with
        | err e => simp only [Prod.mk.injEq, Option.some.injEq] at hres; rw [← hres.2]; rfl
        | panic s => simp only [Prod.mk.injEq, Option.some.injEq] at hres; rw [← hres.2]; rfl
        | ok v =>
          cases v with
          | node a =>
            simp only at hres
            cases hsa : setArg ctx g2 si socketName a with
            | mk g3 os =>
              rw [hsa] at hres
              cases os with
              | err e => simp only [Prod.mk.injEq, Option.some.injEq] at hres; rw [← hres.2]; rfl
              | panic s => simp only [Prod.mk.injEq, Option.some.injEq] at hres; rw [← hres.2]; rfl
              | ok w => exact plugOne_some si p rest g3 g' (some i) o hres
          | unit => simp only [Prod.mk.injEq, Option.some.injEq] at hres; rw [← hres.2]; rfl
          | pkg id => simp only [Prod.mk.injEq, Option.some.injEq] at hres; rw [← hres.2]; rfl
    cases inst with
    | some i => simp only at h; exact key g i h
    | none =>
      simp only at h
      cases hin : instantiate g p with
      | mk g1 oi =>
        rw [hin] at h
        cases oi with
        | ok v =>
          cases v with
          | node i => simp only at h; exact key g1 i h
          | unit => simp only [Prod.mk.injEq, Option.some.injEq] at h; rw [← h.2]; rfl
          | pkg id => simp only [Prod.mk.injEq, Option.some.injEq] at h; rw [← h.2]; rfl
        | err e => simp only [Prod.mk.injEq, Option.some.injEq] at h; rw [← h.2]; rfl
        | panic s => simp only [Prod.mk.injEq, Option.some.injEq] at h; rw [← h.2]; rfl

theorem plugAll_some {ctx : Ctx} (si : Nat) (socketD : PkgDef) : ∀ (ps : List PkgId) (g g' : Graph) (o : PlugOutcome),
    plugAll ctx si socketD ps g = (g', some o) → o.isFail = true
  | [], g, g', o, h => by simp [plugAll] at h
  | p :: ps, g, g', o, h => by
    unfold plugAll at h
    cases hp : g.pkgOf p with
    | error s => rw [hp] at h; simp only [Prod.mk.injEq, Option.some.injEq] at h; rw [← h.2]; rfl
    | ok plugD =>
      rw [hp] at h
      simp only at h
      cases h1 : plugOne ctx si p (plugExports ctx plugD socketD) g none with
      | mk g1 o1 =>
        rw [h1] at h
        cases o1 with
        | some o' =>
          simp only [Prod.mk.injEq, Option.some.injEq] at h
          rw [← h.2]
          exact plugOne_some si p _ g g1 none o' h1
        | none => exact plugAll_some si socketD ps g1 g' o h

theorem exportSocket_some {ctx : Ctx} (si : Nat) : ∀ (names : List Str) (g g' : Graph) (o : PlugOutcome),
    exportSocket ctx si names g = (g', some o) → o.isFail = true
  | [], g, g', o, h => by simp [exportSocket] at h
  | name :: rest, g, g', o, h => by
    unfold exportSocket at h
    cases hal : aliasInstanceExport ctx g si name with
    | mk g1 oa =>
      rw [hal] at h
      cases oa with
      | err e => simp only [Prod.mk.injEq, Option.some.injEq] at h; rw [← h.2]; rfl
      | panic s => simp only [Prod.mk.injEq, Option.some.injEq] at h; rw [← h.2]; rfl
      | ok v =>
        cases v with
        | node a =>
          simp only at h
          cases hex : exportNode ctx g1 a name with
          | mk g2 oe =>
            rw [hex] at h
            cases oe with
            | err e => simp only [Prod.mk.injEq, Option.some.injEq] at h; rw [← h.2]; rfl
            | panic s => simp only [Prod.mk.injEq, Option.some.injEq] at h; rw [← h.2]; rfl
            | ok w => exact exportSocket_some si rest g2 g' o h
        | unit => simp only [Prod.mk.injEq, Option.some.injEq] at h; rw [← h.2]; rfl
        | pkg id => simp only [Prod.mk.injEq, Option.some.injEq] at h; rw [← h.2]; rfl

end Wac.Graph
