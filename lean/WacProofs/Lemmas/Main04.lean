import WacProofs.Lemmas.New04
/-
  C04 refinement, part 5: expressions, statements, documents.
-/
namespace Wac.Lemmas.C04
open Wac.Lang Wac.Lang.Model

/-- libraries: the import names of a package are distinct (they are the keys of an `IndexMap`) -/
def LibWF (lib : Lib) : Prop := ∀ p ∈ lib, p.imports.names.Nodup

theorem StepRel.weaken {lib : Lib} {ms ms1 : State} (he : Ext ms.graph ms1.graph) (hsc : ms1.scope = ms.scope)
    {a : Except Diag (State × Nat)} {b : Except Diag (Spec.St × Spec.Val)}
    (h : StepRel lib ms1 a b) : StepRel lib ms a b := by
  cases h with
  | err d => exact .err d
  | ok s e bd v sc => exact .ok s (he.trans e) bd v (sc.trans hsc)

/-- a successful `resolve_package` keeps the simulation -/
theorem sim_pkgStep {lib : Lib} {ms ms1 : State} {ss : Spec.St} {id : Nat} {p : Package}
    (hs : Sim lib ms ss) (st : PkgStep lib ms ms1 id p) : Sim lib ms1 ss := by
  have hexp : explicitOf ms1.graph = explicitOf ms.graph := by unfold explicitOf; rw [st.nodes]
  have hinst : instNodes ms1.graph = instNodes ms.graph := by
    unfold instNodes
    rw [st.nodes]
    apply filterMap_congr_mem
    intro x hx
    obtain ⟨i, nd⟩ := x
    simp only
    cases hk : nd.kind with
    | imp _ => rfl
    | alias _ _ => rfl
    | defn _ => rfl
    | inst pkg =>
      simp only
      have hmem := (indexedFrom_mem 0 ms.graph.nodes i nd).mp hx
      have hget : ms.graph.nodes[i]? = some nd := by simpa using hmem.2
      have hok := hs.wf.nodes i nd hget
      unfold NodeOK at hok
      rw [hk] at hok
      rw [st.ext.package pkg hok.1]
  have hwf : GraphWF ms1.graph := by
    refine ⟨?_, ?_, ?_, ?_⟩
    · intro e he
      rw [st.edges] at he
      rw [st.nodes]
      exact hs.wf.edges e he
    · intro i nd hi
      rw [st.nodes] at hi
      have hlt : i < ms.graph.nodes.length := (List.getElem?_eq_some_iff.mp hi).1
      exact NodeOK.ext st.ext hlt (hs.wf.nodes i nd hi)
    · intro x hx
      rw [st.exports] at hx
      rw [st.nodes]
      exact hs.wf.exports x hx
    · rw [st.imports, hexp]; exact hs.wf.imports
  have hframe : Frame ms.graph ms1.graph := ⟨st.ext, hwf, st.edges, st.imports, st.exports, hexp, hinst⟩
  have heq : ms1 = { ms with graph := ms1.graph, pending := ms1.pending } := by
    cases ms1 with
    | mk sc g pd =>
      have : sc = ms.scope := st.scope
      subst this
      rfl
  rw [heq]
  exact hs.frame ms1.graph hframe ms1.pending (by rw [← heq]; exact st.ok)

/-- the explicit-argument loop of the model against `evalArgs` -/
inductive ArgsRel (lib : Lib) (ms : State) (req0 : Bool) :
    Except Diag (State × List (Str × Nat) × Bool) → Except Diag (Spec.St × List (Str × Spec.Val) × Bool) → Prop
  | err (d : Diag) : ArgsRel lib ms req0 (.error d) (.error d)
  | ok {ms' : State} {tbl' : List (Str × Nat)} {ss' : Spec.St} {fill : Bool} :
      Sim lib ms' ss' → Ext ms.graph ms'.graph → ms'.scope = ms.scope →
      (∀ x ∈ tbl', x.2 < ms'.graph.nodes.length) → (tbl'.map (·.1)).Nodup →
      ArgsRel lib ms req0 (.ok (ms', tbl', req0 && !fill)) (.ok (ss', tblVals ms'.graph tbl', fill))

theorem ArgsRel.weaken {lib : Lib} {ms ms1 : State} {req0 : Bool} (he : Ext ms.graph ms1.graph) (hsc : ms1.scope = ms.scope)
    {a : Except Diag (State × List (Str × Nat) × Bool)} {b : Except Diag (Spec.St × List (Str × Spec.Val) × Bool)}
    (h : ArgsRel lib ms1 req0 a b) : ArgsRel lib ms req0 a b := by
  cases h with
  | err d => exact .err d
  | ok s e sc bd nd => exact .ok s (he.trans e) (sc.trans hsc) bd nd

/-- the tail of `new`: instantiate, check and bind the arguments, import the missing ones -/
theorem new_tail {lib : Lib} {ms : State} {ss : Spec.St} (hs : Sim lib ms ss) (pkg : Nat) (p : Package)
    (hp : ms.graph.packages[pkg]? = some p) (pkgName : Str) (ver : Option Str)
    (hkey : p.name = pkgName ∧ p.version = ver) (hnd : p.imports.names.Nodup)
    (tbl : List (Str × Nat)) (hb : ∀ x ∈ tbl, x.2 < ms.graph.nodes.length) (hk : (tbl.map (·.1)).Nodup)
    (fill : Bool) :
    StepRel lib ms (newExprFinish ms pkg p.imports.names tbl (true && !fill))
      (Spec.finishNew ss pkgName ver p (tblVals ms.graph tbl) fill) := by
  unfold newExprFinish Spec.finishNew Graph.instantiate
  simp only [hp]
  -- the graph with the fresh instantiation node, before any argument edge
  let nd : Node := { kind := .inst pkg, item := .inst none p.exports, prov := .inst ms.graph.instCount }
  have hext1 : Ext ms.graph { ms.graph with nodes := ms.graph.nodes ++ [nd] } := ⟨⟨[nd], rfl⟩, ⟨[], by simp⟩⟩
  have ctx : SetCtx ms.graph { ms.graph with nodes := ms.graph.nodes ++ [nd] } ms.graph.nodes.length pkg p [] := by
    refine ⟨⟨nd, ?_, rfl⟩, hp, by simp, ?_, ?_, by simp⟩
    · simp [Graph.node?]
    · intro e he
      have := (hs.wf.edges e he).2
      omega
    · intro a ha
      exact hext1.kindOf a ha
  obtain ⟨s1, s2⟩ := setArgs_sim ms.graph ms.graph.nodes.length pkg p tbl _ [] ctx (by simpa using hk) hb
  cases hchk : Spec.checkArgs p (tblVals ms.graph tbl) with
  | error d =>
    rw [s1 d hchk]
    exact .err d
  | ok u =>
    cases u
    obtain ⟨e1, hin⟩ := s2 hchk
    rw [e1]
    simp only [Bool.true_and]
    have hgraph : ({ ms.graph with nodes := ms.graph.nodes ++ [nd], edges := ms.graph.edges ++ tbl.map (mkEdge p ms.graph.nodes.length) } : Graph)
        = afterNew ms.graph pkg p tbl := rfl
    obtain ⟨hsim, hval⟩ := sim_afterNew hs pkg p hp tbl hb hnd hin
    -- the missing-argument check
    have hmissing : p.imports.names.find? (fun n => !alHas n tbl) =
        ((p.imports.toList.filter (fun (x : Str × Kind) => !alHas x.1 (tblVals ms.graph tbl))).head?).map (·.1) := by
      have h := find_head_filter (fun n => !alHas n tbl) p.imports.toList
      rw [show p.imports.names = p.imports.toList.map (·.1) from rfl, h]
      congr 2
      apply List.filter_congr
      intro x _
      rw [alHas_tblVals]
    have hres : StepRel lib ms
        (Except.ok ({ ms with graph := afterNew ms.graph pkg p tbl }, ms.graph.nodes.length))
        (Except.ok (specAfterNew ss p (tblVals ms.graph tbl),
          ({ prov := .inst ss.insts.length, kind := .inst none p.exports } : Spec.Val))) :=
      .ok hsim (afterNew_ext _ _ _ _) (by simp [afterNew]) hval rfl
    have hspec : specAfterNew ss p (tblVals ms.graph tbl) =
        { ss with
          insts := ss.insts ++ [Instantiation.mk pkgName ver ((tblVals ms.graph tbl).map (fun (n, v) => (n, v.prov)) ++
              (p.imports.toList.filter (fun (n, _) => !alHas n (tblVals ms.graph tbl))).map (fun (n, _) => (n, Prov.imp n)))],
          implicit := ss.implicit ++ p.imports.toList.filter (fun (n, _) => !alHas n (tblVals ms.graph tbl)) } := by
      unfold specAfterNew
      rw [hkey.1, hkey.2]
    rw [hspec] at hres
    cases fill with
    | true =>
      simp only [Bool.not_true, Bool.false_eq_true, ↓reduceIte]
      exact hres
    | false =>
      simp only [Bool.not_false, ↓reduceIte]
      rw [hmissing]
      cases hm : p.imports.toList.filter (fun (x : Str × Kind) => !alHas x.1 (tblVals ms.graph tbl)) with
      | nil =>
        rw [hm] at hres
        simp only [List.head?_nil, Option.map_none]
        exact hres
      | cons a r =>
        obtain ⟨n, k⟩ := a
        simp only [List.head?_cons, Option.map_some]
        exact .err _

theorem keyIs_of_find (lib : Lib) (name : Str) (ver : Option Str) (p : Package) (h : lib.find name ver = some p) :
    p ∈ lib ∧ p.name = name ∧ p.version = ver := by
  rw [lib_find_eq] at h
  have hk : keyIs name ver p = true := List.find?_some h
  simp only [keyIs, Bool.and_eq_true, beq_iff_eq] at hk
  exact ⟨List.mem_of_find?_eq_some h, hk.1, hk.2⟩

theorem nodup_snoc_keys (tbl : List (Str × Nat)) (name : Str) (item : Nat) (hk : (tbl.map (·.1)).Nodup)
    (hn : alHas name tbl = false) : ((tbl ++ [(name, item)]).map (·.1)).Nodup := by
  rw [List.map_append, List.nodup_append]
  refine ⟨hk, by simp, ?_⟩
  intro a ha b hb e
  have hb' : b = name := by simpa using hb
  subst e; subst hb'
  have := (alHas_iff_mem_keys a tbl).mpr ha
  rw [hn] at this
  cases this

mutual
/-- expressions: the resolver model and the reference evaluator agree step by step -/
theorem expr_sim (lib : Lib) (hlib : LibWF lib) (self : Str) : ∀ (e : Expr) (ms : State) (ss : Spec.St),
    Sim lib ms ss → StepRel lib ms (Model.expr self ms e) (Spec.evalExpr lib self ss e)
  | .ident x, ms, ss, hs => by
    rw [Model.expr, Spec.evalExpr]
    obtain ⟨l1, l2⟩ := lookup_sim hs x
    cases hl : ms.localItem x with
    | error d => rw [l2 d hl]; exact .err d
    | ok n =>
      obtain ⟨h1, h2⟩ := l1 n hl
      rw [h1]
      exact .ok hs (Ext.refl _) h2 rfl rfl
  | .nested e, ms, ss, hs => by
    rw [Model.expr, Spec.evalExpr]
    exact expr_sim lib hlib self e ms ss hs
  | .access e id, ms, ss, hs => by
    rw [Model.expr, Spec.evalExpr]
    have h := expr_sim lib hlib self e ms ss hs
    generalize Model.expr self ms e = a at h
    generalize Spec.evalExpr lib self ss e = b at h
    cases h with
    | err d => exact .err d
    | ok s ex bd v sc =>
      subst v
      simp only
      have := postfix_sim s _ bd false id
      unfold specPostfix at this
      simp only [Bool.false_eq_true, ↓reduceIte] at this
      exact StepRel.weaken ex sc this
  | .namedAccess e str, ms, ss, hs => by
    rw [Model.expr, Spec.evalExpr]
    have h := expr_sim lib hlib self e ms ss hs
    generalize Model.expr self ms e = a at h
    generalize Spec.evalExpr lib self ss e = b at h
    cases h with
    | err d => exact .err d
    | ok s ex bd v sc =>
      subst v
      simp only
      have := postfix_sim s _ bd true str
      unfold specPostfix at this
      simp only [↓reduceIte] at this
      exact StepRel.weaken ex sc this
  | .new pkgName ver args, ms, ss, hs => by
    rw [Model.expr, Spec.evalExpr]
    by_cases hself : (pkgName == self) = true
    · simp only [hself, ↓reduceIte]
      exact .err _
    · simp only [hself, Bool.false_eq_true, ↓reduceIte]
      cases hfind : lib.find pkgName ver with
      | none =>
        rw [resolvePackage_err lib ms pkgName ver hs.pkgs hfind]
        exact .err _
      | some p =>
        obtain ⟨ms1, id, he, st⟩ := resolvePackage_ok lib ms pkgName ver hs.pkgs p hfind
        obtain ⟨hmem, hname, hver⟩ := keyIs_of_find lib pkgName ver p hfind
        have hnd : p.imports.names.Nodup := hlib p hmem
        rw [he]
        simp only
        have hs1 : Sim lib ms1 ss := sim_pkgStep hs st
        have hexp : ms1.graph.expectedOf id = p.imports.names := by simp [Graph.expectedOf, st.get]
        rw [hexp]
        have h := args_sim lib hlib self p.imports.names args ms1 ss [] true hs1 (by simp) (by simp)
        simp only [tblVals, List.map_nil] at h
        generalize newExprArgs self p.imports.names ms1 [] true args = a at h
        generalize Spec.evalArgs lib self p.imports.names ss [] args = b at h
        cases h with
        | err d => exact .err d
        | ok s2 ex2 sc2 bd2 nd2 =>
          rename_i ms2 tbl2 ss2 fill
          simp only
          have h3 := spreads_sim (lib := lib) (ss := ss2) p.imports.names hnd args ms2 tbl2 s2 bd2 nd2
          generalize newExprSpreads p.imports.names ms2 tbl2 args = a3 at h3
          generalize Spec.applySpreads ss2 p.imports.names (Spec.spreadNames args) (tblVals ms2.graph tbl2) = b3 at h3
          cases h3 with
          | err d => exact .err d
          | ok s3 ex3 sc3 pk3 bd3 nd3 =>
            rename_i ms3 tbl3
            simp only
            have hidl : id < ms1.graph.packages.length := (List.getElem?_eq_some_iff.mp st.get).1
            have hp3 : ms3.graph.packages[id]? = some p := by
              rw [pk3, ex2.package id hidl]; exact st.get
            have ht := new_tail s3 id p hp3 pkgName ver ⟨hname, hver⟩ hnd tbl3 bd3 nd3 fill
            exact StepRel.weaken (st.ext.trans (ex2.trans ex3)) ((sc3.trans sc2).trans st.scope) ht
/-- the explicit (inferred and named) arguments of a `new` -/
theorem args_sim (lib : Lib) (hlib : LibWF lib) (self : Str) (imports : List Str) :
    ∀ (args : Args) (ms : State) (ss : Spec.St) (tbl : List (Str × Nat)) (req0 : Bool), Sim lib ms ss →
      (∀ x ∈ tbl, x.2 < ms.graph.nodes.length) → (tbl.map (·.1)).Nodup →
      ArgsRel lib ms req0 (newExprArgs self imports ms tbl req0 args)
        (Spec.evalArgs lib self imports ss (tblVals ms.graph tbl) args)
  | .nil, ms, ss, tbl, req0, hs, hb, hk => by
    rw [newExprArgs, Spec.evalArgs]
    have := ArgsRel.ok (lib := lib) (ms := ms) (req0 := req0) (fill := false) hs (Ext.refl _) rfl hb hk
    simpa using this
  | .cons .fill .nil, ms, ss, tbl, req0, hs, hb, hk => by
    rw [newExprArgs, Spec.evalArgs]
    simp only [newExprArgs]
    have := ArgsRel.ok (lib := lib) (ms := ms) (req0 := req0) (fill := true) hs (Ext.refl _) rfl hb hk
    simpa using this
  | .cons .fill (.cons a r), ms, ss, tbl, req0, hs, hb, hk => by
    rw [newExprArgs, Spec.evalArgs]
    exact .err _
  | .cons (.spread x) rest, ms, ss, tbl, req0, hs, hb, hk => by
    rw [newExprArgs, Spec.evalArgs]
    exact args_sim lib hlib self imports rest ms ss tbl req0 hs hb hk
  | .cons (.inferred x) rest, ms, ss, tbl, req0, hs, hb, hk => by
    rw [newExprArgs, Spec.evalArgs, inferred_name_sim hs x imports]
    obtain ⟨l1, l2⟩ := lookup_sim hs x
    cases hl : ms.localItem x with
    | error d => rw [l2 d hl]; exact .err d
    | ok item =>
      obtain ⟨h1, h2⟩ := l1 item hl
      rw [h1]
      simp only
      rw [alHas_tblVals]
      by_cases hdup : alHas (Spec.inferredArgName x (valOf ms.graph item) imports) tbl = true
      · simp only [hdup, ↓reduceIte]
        exact .err _
      · have hdup' : alHas (Spec.inferredArgName x (valOf ms.graph item) imports) tbl = false := by simpa using hdup
        simp only [hdup', Bool.false_eq_true, ↓reduceIte]
        have hb' : ∀ y ∈ tbl ++ [(Spec.inferredArgName x (valOf ms.graph item) imports, item)], y.2 < ms.graph.nodes.length := by
          intro y hy
          rcases List.mem_append.mp hy with hy | hy
          · exact hb y hy
          · rw [List.mem_singleton.mp hy]; exact h2
        have ih := args_sim lib hlib self imports rest ms ss _ req0 hs hb' (nodup_snoc_keys tbl _ item hk hdup')
        rw [tblVals_append] at ih
        exact ih
  | .cons (.named nm e) rest, ms, ss, tbl, req0, hs, hb, hk => by
    rw [Spec.evalArgs]
    simp only [newExprArgs]
    have h := expr_sim lib hlib self e ms ss hs
    generalize Model.expr self ms e = a at h
    generalize Spec.evalExpr lib self ss e = b at h
    cases h with
    | err d => exact .err d
    | ok s ex bd v sc =>
      rename_i ms1 item ss1 val
      subst v
      simp only
      have hname : namedArgumentName nm imports = Spec.namedArgName nm imports := by
        cases nm with
        | id ident => simp [namedArgumentName, Spec.namedArgName, shortName_eq_model]
        | str s => rfl
      rw [hname, alHas_tblVals]
      by_cases hdup : alHas (Spec.namedArgName nm imports) tbl = true
      · simp only [hdup, ↓reduceIte]
        exact .err _
      · have hdup' : alHas (Spec.namedArgName nm imports) tbl = false := by simpa using hdup
        simp only [hdup', Bool.false_eq_true, ↓reduceIte]
        have hbt : ∀ y ∈ tbl, y.2 < ms1.graph.nodes.length :=
          fun y hy => Nat.lt_of_lt_of_le (hb y hy) ex.length_le
        have hb' : ∀ y ∈ tbl ++ [(Spec.namedArgName nm imports, item)], y.2 < ms1.graph.nodes.length := by
          intro y hy
          rcases List.mem_append.mp hy with hy | hy
          · exact hbt y hy
          · rw [List.mem_singleton.mp hy]; exact bd
        have ih := args_sim lib hlib self imports rest ms1 ss1 _ req0 s hb' (nodup_snoc_keys tbl _ item hk hdup')
        rw [tblVals_append, tblVals_ext ex tbl hb] at ih
        exact ArgsRel.weaken ex sc ih
end

end Wac.Lemmas.C04
