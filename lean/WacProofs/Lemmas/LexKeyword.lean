import WacModel.Lexer
import WacProofs.Lemmas.LexAscii
/-
  Keyword priority of the lexer model w.r.t. the generated tables.
-/
namespace Wac.Lemmas.LexKeyword
open Wac Wac.Lex Wac.Lemmas.LexAscii

theorem keywordTable_no_ident : keywordTable.all (fun p => p.2 != .Ident) = true := by decide
theorem symbolTable_no_ident : symbolTable.all (fun p => p.2 != .Ident) = true := by decide

theorem lookupKeyword_ne_ident {s : Str} : lookupKeyword s ≠ some .Ident := by
  intro h
  unfold lookupKeyword at h
  cases hf : keywordTable.find? (fun x => x.1 == s) with
  | none => simp [hf] at h
  | some p =>
    simp [hf] at h
    have hm := List.mem_of_find?_eq_some hf
    have := List.all_eq_true.mp keywordTable_no_ident p hm
    simp [h] at this

theorem matchSymbol_ne_ident {s : Str} {n : Nat} : matchSymbol s ≠ some (.Ident, n) := by
  intro h
  unfold matchSymbol at h
  have key : ∀ (l : List (Str × Token)) (acc : Option (Token × Nat)),
      (∀ p ∈ l, p.2 ≠ .Ident) → (∀ t n, acc = some (t, n) → t ≠ .Ident) →
      ∀ t n, l.foldl (fun best (x : Str × Token) =>
        if x.1.isPrefixOf s && x.1.length > (best.map (·.2)).getD 0 then some (x.2, x.1.length) else best) acc = some (t, n) →
        t ≠ .Ident := by
    intro l
    induction l with
    | nil => intro acc _ hacc t n h; exact hacc t n (by simpa using h)
    | cons x r ih =>
      intro acc hl hacc t n h
      simp only [List.foldl_cons] at h
      refine ih _ (fun p hp => hl p (by simp [hp])) ?_ t n h
      intro t' n' h'
      split at h'
      · simp at h'; rw [← h'.1]; exact hl x (by simp)
      · exact hacc t' n' h'
  refine key symbolTable none ?_ (by simp) .Ident n (by simpa using h) rfl
  intro p hp
  have := List.all_eq_true.mp symbolTable_no_ident p hp
  simpa using this

/-- keyword priority: when the lexer model returns `Ident`, the matched text is the longest
identifier at that position and is not a keyword of the generated table; when it returns a token
because of a keyword lookup, the text is that keyword's text -/
theorem ident_not_keyword {s : Str} {n : Nat} (h : lexStep s = .tok (.ok .Ident) n) :
    n = idLen s ∧ lookupKeyword (s.take n) = none := by
  cases s with
  | nil => simp [lexStep] at h
  | cons c r =>
    simp only [lexStep] at h
    by_cases h1 : isSkipChar c = true
    · rw [if_pos h1] at h; simp at h
    · rw [if_neg h1] at h
      by_cases h2 : (c == '/' && r.head? == some '/') = true
      · rw [if_pos h2] at h; simp at h
      · rw [if_neg h2] at h
        by_cases h3 : (c == '/' && r.head? == some '*') = true
        · rw [if_pos h3] at h
          split at h <;> simp at h
        · rw [if_neg h3] at h
          by_cases h4 : (c == '"') = true
          · rw [if_pos h4] at h
            split at h <;> simp at h
          · rw [if_neg h4] at h
            try simp only [] at h
            by_cases h5 : packagePathTokLen (c :: r) > 0
            · rw [if_pos h5] at h; simp at h
            · rw [if_neg h5] at h
              by_cases h6 : packageNameTokLen (c :: r) > 0
              · rw [if_pos h6] at h; simp at h
              · rw [if_neg h6] at h
                by_cases h7 : idLen (c :: r) > 0
                · rw [if_pos h7] at h
                  split at h
                  · rename_i kw hkw
                    simp at h
                    rw [h.1] at hkw
                    exact absurd hkw lookupKeyword_ne_ident
                  · rename_i hnone
                    simp at h
                    rw [← h]
                    exact ⟨rfl, hnone⟩
                · rw [if_neg h7] at h
                  split at h
                  · rename_i t m hm
                    simp at h
                    rw [h.1] at hm
                    exact absurd hm matchSymbol_ne_ident
                  · simp at h

end Wac.Lemmas.LexKeyword
