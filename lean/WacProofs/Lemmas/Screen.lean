import WacModel.Lexer
import WacModel.Spec.Grammar
import WacProofs.Lemmas.Utf8
namespace Wac.Lemmas.Screen
open Wac Wac.Lex

theorem screenChar_none_iff (c : Char) : screenChar c = none ↔ Spec.Grammar.forbiddenChar c = false := by
  unfold screenChar Spec.Grammar.forbiddenChar
  simp only [Generated.allowedControls, Generated.bidiOverrides, Generated.discouraged, Generated.controlGuard,
    Spec.Grammar.allowedControls, Spec.Grammar.bidiOverrides, Spec.Grammar.deprecated, isControl]
  simp only [List.contains_cons, List.contains_nil, Bool.or_false, Bool.true_and]
  split <;> rename_i h1
  · simp at h1 ⊢; omega
  · split <;> rename_i h2
    · simp at h1 h2 ⊢; omega
    · split <;> rename_i h3
      · simp at h1 h2 h3 ⊢; omega
      · split <;> rename_i h4
        · simp at h1 h2 h3 h4 ⊢; omega
        · simp at h1 h2 h3 h4 ⊢; omega

open Wac.Lemmas in
theorem go_spec (s : Str) : ∀ pos : Nat,
    (detectInvalidInput.go pos s = none ↔ s.any Spec.Grammar.forbiddenChar = false) ∧
    (∀ e sp, detectInvalidInput.go pos s = some (e, sp) →
      ∃ pre c post, s = pre ++ c :: post ∧ pre.any Spec.Grammar.forbiddenChar = false ∧
        screenChar c = some e ∧ sp = ⟨pos + utf8Len pre, c.utf8Size⟩) := by
  induction s with
  | nil => intro pos; simp [detectInvalidInput.go]
  | cons c r ih =>
    intro pos
    unfold detectInvalidInput.go
    cases hc : screenChar c with
    | none =>
      have hf := (screenChar_none_iff c).mp hc
      obtain ⟨ih1, ih2⟩ := ih (pos + c.utf8Size)
      refine ⟨by simp [hf, ih1], ?_⟩
      intro e sp h
      obtain ⟨pre, d, post, h1, h2, h3, h4⟩ := ih2 e sp h
      refine ⟨c :: pre, d, post, by simp [h1], by simp [hf, h2], h3, ?_⟩
      simp [h4]; omega
    | some e0 =>
      have hf : Spec.Grammar.forbiddenChar c = true := by
        cases h : Spec.Grammar.forbiddenChar c with
        | true => rfl
        | false => have := (screenChar_none_iff c).mpr h; simp [hc] at this
      refine ⟨by simp [hf], ?_⟩
      intro e sp h
      simp at h
      refine ⟨[], c, r, by simp, by simp, ?_, ?_⟩
      · rw [hc, h.1]
      · simp [← h.2]

end Wac.Lemmas.Screen
