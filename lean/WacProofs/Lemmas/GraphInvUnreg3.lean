import WacProofs.Lemmas.GraphInvUnreg2
/-
  `unregister_package` preserves `Inv` (assembly).
-/
namespace Wac.Graph
open Wac Wac.HashSites

theorem pkgId_beq_iff (a b : PkgId) : (a == b) = true ↔ a = b := by
  cases a with
  | mk i g =>
    cases b with
    | mk j k =>
      show (i == j && g == k) = true ↔ _
      simp

theorem optPkgId_beq_iff (a : Option PkgId) (b : PkgId) : (a == some b) = true ↔ a = some b := by
  cases a with
  | none =>
    constructor
    · intro h; exact absurd (show (false : Bool) = true from h) (by decide)
    · intro h; cases h
  | some x =>
    show (x == b) = true ↔ _
    rw [pkgId_beq_iff]; simp

theorem nodePkgIs_eq {g : Graph} {m : Nat} {x : Node} (hx : g.node? m = some x) (id : PkgId) :
    g.nodePkgIs m id = (x.pkg == some id) := by
  unfold Graph.nodePkgIs; rw [hx]

theorem nodePkgIs_none {g : Graph} {m : Nat} (hx : g.node? m = none) (id : PkgId) : g.nodePkgIs m id = false := by
  unfold Graph.nodePkgIs; rw [hx]

/-- (A) after the clearing pass, the map filters and `retain_nodes` the graph is consistent
    (with the package table still untouched) and no node refers to the package -/
theorem inv_unregMid {ctx : Ctx} {g g1 : Graph} {id : PkgId} (h : Inv ctx g)
    (hc : clearSatEdges g (unregSel g id) g.edges = .ok g1) :
    Inv ctx (unregMid g g1 id) ∧ (∀ m x, (unregMid g g1 id).node? m = some x → x.pkg ≠ some id) ∧
    (unregMid g g1 id).pkgs = g.pkgs ∧ (unregMid g g1 id).pkgMap = g.pkgMap ∧
    (unregMid g g1 id).freePkgs = g.freePkgs := by
  have c := clearSatEdges_spec _ _ _ _ hc
  -- the graph `retain_nodes` runs on
  let gm : Graph :=
    { g1 with
      exports := g.exports.filter (fun e => !g.nodePkgIs e.2 id)
      defined := g.defined.filter (fun e => !g.nodePkgIs e.2 id)
      imports := g.imports.filter (fun e => !g.nodePkgIs e.2 id) }
  have hgm : unregMid g g1 id = retainNodes gm id := rfl
  have hnodeM : ∀ m, gm.node? m = (g.node? m).map
      (fun x => setSat x ((erasesFor (unregSel g id) m g.edges).foldl List.erase x.sat)) := c.node
  have hpkM : ∀ m, gm.nodePkgIs m id = g.nodePkgIs m id := by
    intro m
    unfold Graph.nodePkgIs
    rw [hnodeM m]
    cases g.node? m with
    | none => rfl
    | some x => simp [setSat_pkg]
  -- its free list is still right: liveness of every slot is unchanged
  have fM : FreeInv gm := by
    have f := h.free
    have hlive : ∀ m, gm.node? m = none ↔ g.node? m = none := by
      intro m; rw [hnodeM m]; cases g.node? m <;> simp
    refine ⟨by show g1.freeNodes.Nodup; rw [c.freeNodes]; exact f.nodup, ?_, ?_⟩
    · intro i hi
      have hi' : i ∈ g.freeNodes := by have : i ∈ g1.freeNodes := hi; rw [c.freeNodes] at this; exact this
      refine ⟨by show i < g1.nodes.length; rw [c.len]; exact (f.vacant i hi').1, (hlive i).mpr (f.vacant i hi').2⟩
    · intro i hi hv
      have hi' : i < g.nodes.length := by have : i < g1.nodes.length := hi; rw [c.len] at this; exact this
      show i ∈ g1.freeNodes
      rw [c.freeNodes]; exact f.all i hi' ((hlive i).mp hv)
  obtain ⟨r1, r2, r3, r4, r5, r6, r7, r8, r9⟩ := retainNodes_spec gm id fM
  have hnode2 : ∀ m, (unregMid g g1 id).node? m = if g.nodePkgIs m id = true then none else gm.node? m := by
    intro m; rw [hgm, r1 m, hpkM m]
  -- the `RemovedSet` facts
  have rs : RemovedSet g (unregMid g g1 id) (fun m => g.nodePkgIs m id) := by
    refine
      { gone := fun m hm => by rw [hnode2 m]; simp [hm]
        kept := ?_, noNew := ?_, free := by rw [hgm]; exact r3, edges := ?_
        importsKeys := ?_, importsMem := ?_, exportsKeys := ?_, exportsMem := ?_
        definedKeys := ?_, definedMem := ?_
        pkgs := by rw [hgm, r7]; exact c.pkgs
        pkgMap := by rw [hgm, r8]; exact c.pkgMap
        freePkgs := by rw [hgm, r9]; exact c.freePkgs }
    · intro m x hm hx
      have hnodup : x.sat.Nodup := by
        have := (h.node hx).2.1
        unfold Node.sat
        cases hk : x.kind with
        | instantiation s => rw [hk] at this; exact this.1
        | _ => exact List.nodup_nil
      refine ⟨(erasesFor (unregSel g id) m g.edges).foldl List.erase x.sat, ?_, (foldl_erase_spec _ _ hnodup).1, ?_⟩
      · rw [hnode2 m, hnodeM m, hx]; simp [hm]
      · intro i
        rw [(foldl_erase_spec _ _ hnodup).2.2 i, mem_erasesFor]
        constructor
        · rintro ⟨hi, hno⟩
          refine ⟨hi, ?_⟩
          rintro ⟨e, he, hdead, hdst, hkind⟩
          apply hno
          refine ⟨e, he, hkind, ?_, hdst⟩
          unfold unregSel
          rw [hdead, hdst, hm]; rfl
        · rintro ⟨hi, hno⟩
          refine ⟨hi, ?_⟩
          rintro ⟨e, he, hkind, hsel, hdst⟩
          apply hno
          unfold unregSel at hsel
          simp only [Bool.and_eq_true, Bool.not_eq_true'] at hsel
          exact ⟨e, he, hsel.1, hdst, hkind⟩
    · intro m x' hx'
      rw [hnode2 m] at hx'
      cases hd : g.nodePkgIs m id with
      | true => simp [hd] at hx'
      | false =>
        simp only [hd, Bool.false_eq_true, ↓reduceIte] at hx'
        rw [hnodeM m] at hx'
        cases hq : g.node? m with
        | none => rw [hq] at hx'; cases hx'
        | some x => exact ⟨rfl, x, rfl⟩
    · rw [hgm, r2]
      have : gm.edges = g.edges := c.edges
      rw [this]
      congr 1
      funext e
      rw [hpkM, hpkM]
    · rw [hgm, r4]
      exact (List.Sublist.map _ List.filter_sublist).nodup h.importsKeys
    · intro e
      rw [hgm, r4]
      show e ∈ g.imports.filter _ ↔ _
      rw [List.mem_filter]; simp
    · rw [hgm, r5]
      exact (List.Sublist.map _ List.filter_sublist).nodup h.exportsKeys
    · intro e
      rw [hgm, r5]
      show e ∈ g.exports.filter _ ↔ _
      rw [List.mem_filter]; simp
    · rw [hgm, r6]
      exact (List.Sublist.map _ List.filter_sublist).nodup h.definedKeys
    · intro e
      rw [hgm, r6]
      show e ∈ g.defined.filter _ ↔ _
      rw [List.mem_filter]; simp
  -- alias edges stay inside the package: an alias node has its source's package
  have hclosed : ∀ e ∈ g.edges, e.kind.isAlias = true → g.nodePkgIs e.src id = true → g.nodePkgIs e.dst id = true := by
    intro e he hal hs
    obtain ⟨s, hs', d, hd', hk⟩ := h.edges e he
    cases hek : e.kind with
    | alias j =>
      rw [hek] at hk
      simp only at hk
      rw [nodePkgIs_eq hs'] at hs
      rw [nodePkgIs_eq hd', hk.2.1]; exact hs
    | arg j => rw [hek] at hal; cases hal
    | dep => rw [hek] at hal; cases hal
  refine ⟨inv_removed_set h hclosed rs, ?_, rs.pkgs, rs.pkgMap, rs.freePkgs⟩
  intro m x' hx' hpkg
  obtain ⟨hdead, x, s, hx, rfl, _, _⟩ := rs.back hx'
  have hdead' : g.nodePkgIs m id = false := hdead
  rw [nodePkgIs_eq hx] at hdead'
  rw [setSat_pkg] at hpkg
  have := (optPkgId_beq_iff x.pkg id).mpr hpkg
  rw [this] at hdead'
  cases hdead'

end Wac.Graph
