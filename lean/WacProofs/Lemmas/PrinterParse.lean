import WacProofs.Lemmas.PrinterParseBase
import WacProofs.Lemmas.PrinterParseExpr
/-
  C13: the parser model applied to the token sequence of the token-level printer
  (`Wac.PrintTok.printTokens d`, with ANY byte offsets attached) succeeds and returns a tree that
  equals `d` up to source positions and doc-comment line splitting (`Document.erase`).

  The doc-comment normal-form lemma (`eraseDocs_of_comments_eq`, proved in
  `WacProofs/Lemmas/PrinterErase.lean`) is taken as the hypothesis `DocsNF` so that this file does
  not depend on that one.

  The definitions `E`, `DocsNF`, `ParsesTo` live in `PrinterParseBase.lean` (same namespace).
-/
namespace Wac.Lemmas.PrinterParse
open Wac Wac.Ast Wac.Lex Wac.Parse Wac.PrintTok

/- FULL STATEMENT (target, work in progress): for every well-formed document, the parser on its
printed tokens (whatever positions the lexer attached) returns the document up to positions and
doc-comment line splitting.

theorem parseTokens_printTokens (hdocs : DocsNF) (d : Document) (hwf : d.wf = true)
    (st : PState) (hst : E st = printTokens d) :
    ∃ d', parseTokens st = .ok d' ∧ d'.erase = d.erase
-/

end Wac.Lemmas.PrinterParse
