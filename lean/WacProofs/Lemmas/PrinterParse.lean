import WacProofs.Lemmas.PrinterParseBase
import WacProofs.Lemmas.PrinterParseExpr
import WacProofs.Lemmas.PrinterParseTypes
import WacProofs.Lemmas.PrinterParseStmt
/-
  C13: the parser model applied to the token sequence of the token-level printer
  (`Wac.PrintTok.printTokens d`, with ANY byte offsets attached) succeeds and returns a tree that
  equals `d` up to source positions and doc-comment line splitting (`Document.erase`).

  The doc-comment normal-form lemma (`eraseDocs_of_comments_eq`, proved in
  `WacProofs/Lemmas/PrinterErase.lean`) is taken as the hypothesis `DocsNF` so that this file does
  not depend on that one.

  The definitions `E`, `DocsNF`, `ParsesTo` live in `PrinterParseBase.lean` (same namespace).
-/
namespace Wac.Lemmas.PrinterParse
open Wac Wac.Ast Wac.Lex Wac.Parse Wac.PrintTok

/-- the statements covered so far: `let`, `export`, `import` of anything but an inline interface -/
def coveredStmt : Statement → Bool
  | .Let _ => true
  | .Export _ => true
  | .Import s => (match s.ty with | .Interface _ => false | _ => true)
  | .Type' _ => false

/-- the documents covered so far -/
def covered (d : Document) : Bool := d.statements.all coveredStmt

theorem statement_ok_partial (hdocs : DocsNF) (s : Statement) (hwf : s.wf = true)
    (hc : coveredStmt s = true) (fuel : Nat) (hf : 3 * (statement s).length ≤ fuel) :
    ParsesTo (parseStatement fuel) Statement.erase (statement s) s (fun _ => True) := by
  cases s with
  | Let s => exact statement_let_ok hdocs s hwf fuel hf
  | Export s => exact statement_export_ok hdocs s hwf fuel hf
  | Type' s => simp [coveredStmt] at hc
  | Import s =>
    simp only [Statement.wf] at hwf
    have hwf' := hwf
    simp only [ImportStatement.wf, Bool.and_eq_true] at hwf'
    refine statement_import_ok hdocs s hwf fuel
      (importType_ok_simple s.ty hwf'.2 ?_ fuel ?_)
    · intro i hi
      simp [coveredStmt, hi] at hc
    · have := importType_length_le s
      simp only [statement] at hf
      omega

theorem statement_length_pos_partial (s : Statement) (hc : coveredStmt s = true) :
    1 ≤ (statement s).length := by
  cases s with
  | Let s => simp [statement, letStatement]
  | Export s => simp [statement, exportStatement]
  | Import s => simp [statement, importStatement]
  | Type' s => simp [coveredStmt] at hc

/-- PARTIAL: the target for documents whose statements are `let`, `export` and `import`s of
anything but inline interfaces. -/
theorem parseTokens_printTokens_partial (hdocs : DocsNF) (d : Document) (hwf : d.wf = true)
    (hc : covered d = true) (st : PState) (hst : E st = printTokens d) :
    ∃ d', parseTokens st = .ok d' ∧ d'.erase = d.erase := by
  have hwf' := hwf
  simp only [Document.wf, Bool.and_eq_true, List.all_eq_true] at hwf'
  simp only [covered, List.all_eq_true] at hc
  exact document_ok hdocs d hwf
    (fun s hs => statement_length_pos_partial s (hc s hs))
    (fun s hs fuel hf => statement_ok_partial hdocs s (hwf'.2 s hs) (hc s hs) fuel hf) st hst

/- FULL STATEMENT (target, work in progress): for every well-formed document, the parser on its
printed tokens (whatever positions the lexer attached) returns the document up to positions and
doc-comment line splitting.

theorem parseTokens_printTokens (hdocs : DocsNF) (d : Document) (hwf : d.wf = true)
    (st : PState) (hst : E st = printTokens d) :
    ∃ d', parseTokens st = .ok d' ∧ d'.erase = d.erase
-/

end Wac.Lemmas.PrinterParse
