import WacProofs.Lemmas.PrinterParseBase
import WacProofs.Lemmas.PrinterParseExpr
import WacProofs.Lemmas.PrinterParseTypes
import WacProofs.Lemmas.PrinterParseStmt
import WacProofs.Lemmas.PrinterParseDecls
import WacProofs.Lemmas.PrinterParseIface
import WacProofs.Lemmas.PrinterParseWorld
/-
  C13: the parser model applied to the token sequence of the token-level printer
  (`Wac.PrintTok.printTokens d`, with ANY byte offsets attached) succeeds and returns a tree that
  equals `d` up to source positions and doc-comment line splitting (`Document.erase`).

  The doc-comment normal-form lemma (`eraseDocs_of_comments_eq`, proved in
  `WacProofs/Lemmas/PrinterErase.lean`) is taken as the hypothesis `DocsNF` so that this file does
  not depend on that one.

  The definitions `E`, `DocsNF`, `ParsesTo` live in `PrinterParseBase.lean` (same namespace); the
  per-construct lemmas in `PrinterParse{Expr,Types,Stmt,Decls,Iface,World}.lean`.
-/
namespace Wac.Lemmas.PrinterParse
open Wac Wac.Ast Wac.Lex Wac.Parse Wac.PrintTok

/-- every import type, inline interfaces included -/
theorem importType_ok (hdocs : DocsNF) (t : ImportType) (hwf : t.wf = true) (fuel : Nat)
    (hf : 3 * (importType t).length ≤ fuel) :
    ParsesTo (parseImportType fuel) ImportType.erase (importType t) t (headIs .Semicolon) := by
  cases t with
  | Interface i =>
    intro st rest hE _
    simp only [importType] at hE hf
    simp only [ImportType.wf] at hwf
    obtain ⟨i', st1, h1, hi, hE1⟩ := inlineInterface_ok hdocs i hwf fuel hf st rest hE trivial
    have hh : headIs .InterfaceKeyword (E st) := hE ▸ (inlineInterface_head i).append _
    pt_exists st1, hE1
    · simp only [parseImportType, peekTok_of_headIs hh, h1, bind_ok]; rfl
    · simp [ImportType.erase, hi]
  | Package p => exact importType_ok_simple _ hwf (fun i h => by cases h) fuel hf
  | Func f => exact importType_ok_simple _ hwf (fun i h => by cases h) fuel hf
  | Ident id => exact importType_ok_simple _ hwf (fun i h => by cases h) fuel hf

theorem statement_type_ok (hdocs : DocsNF) (s : TypeStatement) (hwf : s.wf = true) (fuel : Nat)
    (hf : 3 * (typeStatement s).length ≤ fuel) :
    ParsesTo (parseStatement fuel) Statement.erase (statement (.Type' s)) (.Type' s) (fun _ => True) := by
  intro st rest hE _
  simp only [statement] at hE
  obtain ⟨s', st1, h1, hs, hE1⟩ := typeStatement_ok hdocs s hwf fuel hf st rest hE trivial
  have hin : headIn typeStatementPeeks (E st) := hE ▸ (typeStatement_head s).append _
  pt_exists st1, hE1
  · simp only [parseStatement, peekIs_false_of_headIn hin (k' := .ImportKeyword) (by decide),
      peekIs_false_of_headIn hin (k' := .LetKeyword) (by decide),
      peekIs_false_of_headIn hin (k' := .ExportKeyword) (by decide), peekIn_true hin,
      Bool.false_eq_true, if_false, if_true, h1, bind_ok]
    rfl
  · simp [Statement.erase, hs]

/-- `parseStatement` on the tokens of any well-formed statement -/
theorem statement_ok (hdocs : DocsNF) (s : Statement) (hwf : s.wf = true) (fuel : Nat)
    (hf : 3 * (statement s).length ≤ fuel) :
    ParsesTo (parseStatement fuel) Statement.erase (statement s) s (fun _ => True) := by
  cases s with
  | Let s => exact statement_let_ok hdocs s hwf fuel hf
  | Export s => exact statement_export_ok hdocs s hwf fuel hf
  | Type' s => exact statement_type_ok hdocs s hwf fuel hf
  | Import s =>
    simp only [Statement.wf] at hwf
    have hwf' := hwf
    simp only [ImportStatement.wf, Bool.and_eq_true] at hwf'
    refine statement_import_ok hdocs s hwf fuel (importType_ok hdocs s.ty hwf'.2 fuel ?_)
    have := importType_length_le s
    simp only [statement] at hf
    omega

theorem statement_length_pos (s : Statement) : 1 ≤ (statement s).length := by
  cases s with
  | Let s => simp [statement, letStatement]
  | Export s => simp [statement, exportStatement]
  | Import s => simp [statement, importStatement]
  | Type' s => exact headIn_length_pos (typeStatement_head s)

/-- FULL STATEMENT: for every well-formed document, the parser on its printed tokens (whatever
positions the lexer attached) returns the document up to positions and doc-comment line
splitting. -/
theorem parseTokens_printTokens (hdocs : DocsNF) (d : Document) (hwf : d.wf = true)
    (st : PState) (hst : E st = printTokens d) :
    ∃ d', parseTokens st = .ok d' ∧ d'.erase = d.erase := by
  have hwf' := hwf
  simp only [Document.wf, Bool.and_eq_true, List.all_eq_true] at hwf'
  exact document_ok hdocs d hwf (fun s _ => statement_length_pos s)
    (fun s hs fuel hf => statement_ok hdocs s (hwf'.2 s hs) fuel hf) st hst

end Wac.Lemmas.PrinterParse
