import WacModel.Printer
import WacModel.AstErase
import WacModel.PrintTokens
import WacModel.PrintWF
/-
  C13: (1) the normal form of doc comments — `docLines` (the trimmed lines the printer writes) is
  a fixed point: the comments a re-parse of the printed text returns (one comment per printed
  line) have the same `docLines`; (2) the printer (text and tokens) reads a tree only through its
  erasure `x.erase` (no spans; doc comments only through `docLines`).

  This file: part (1).  Part (2) (`document_erase`, `printTokens_erase`, `erase_idem`) is in
  `PrinterErase2.lean` (same namespace).
-/
namespace Wac.Lemmas.PrinterErase
open Wac Wac.Ast Wac.Lex Wac.Print

/-! ### doc comments -/

theorem dropWhile_head_false {α} (p : α → Bool) :
    ∀ (l : List α) (c : α) (r : List α), l.dropWhile p = c :: r → p c = false
  | [], c, r, h => by simp at h
  | a :: l, c, r, h => by
    rw [List.dropWhile_cons] at h
    by_cases hp : p a = true
    · rw [if_pos hp] at h; exact dropWhile_head_false p l c r h
    · rw [if_neg hp] at h
      cases h; simpa using hp

theorem dropWhile_eq_self_of_head {α} (p : α → Bool) (l : List α)
    (h : ∀ c r, l = c :: r → p c = false) : l.dropWhile p = l := by
  cases l with
  | nil => rfl
  | cons a l => rw [List.dropWhile_cons, h a l rfl]; simp

theorem dropWhile_idem' {α} (p : α → Bool) (l : List α) :
    (l.dropWhile p).dropWhile p = l.dropWhile p :=
  dropWhile_eq_self_of_head p _ (fun c r h => dropWhile_head_false p l c r h)

/-- the shape of a trimmed string: both ends are not white space -/
def Trimmed (l : Str) : Prop :=
  (∀ c r, l = c :: r → isRustWhitespace c = false) ∧
  (∀ c r, l.reverse = c :: r → isRustWhitespace c = false)

theorem rustTrim_of_trimmed (l : Str) (h : Trimmed l) : rustTrim l = l := by
  unfold rustTrim
  rw [dropWhile_eq_self_of_head _ l h.1, dropWhile_eq_self_of_head _ l.reverse h.2, List.reverse_reverse]

theorem rustTrim_trimmed (s : Str) : Trimmed (rustTrim s) := by
  unfold rustTrim
  constructor
  · intro c r h
    -- A.reverse = takeWhile ++ B
    have hA := List.takeWhile_append_dropWhile (p := isRustWhitespace)
      (l := (s.dropWhile isRustWhitespace).reverse)
    generalize hB : ((s.dropWhile isRustWhitespace).reverse.dropWhile isRustWhitespace) = B at h hA
    have hA' := congrArg List.reverse hA
    rw [List.reverse_append, List.reverse_reverse, h] at hA'
    exact dropWhile_head_false _ s c _ hA'.symm
  · intro c r h
    rw [List.reverse_reverse] at h
    exact dropWhile_head_false _ _ c r h

/-- `str::trim` is idempotent -/
theorem rustTrim_idem (s : Str) : rustTrim (rustTrim s) = rustTrim s :=
  rustTrim_of_trimmed _ (rustTrim_trimmed s)

theorem trimmed_of_rustTrim_eq (l : Str) (h : rustTrim l = l) : Trimmed l := h ▸ rustTrim_trimmed l

theorem mem_of_mem_dropWhile {α} (p : α → Bool) (l : List α) (c : α) (h : c ∈ l.dropWhile p) : c ∈ l :=
  (List.dropWhile_sublist p).subset h

theorem mem_of_mem_rustTrim (l : Str) (c : Char) (h : c ∈ rustTrim l) : c ∈ l := by
  unfold rustTrim at h
  rw [List.mem_reverse] at h
  have := mem_of_mem_dropWhile _ _ _ h
  rw [List.mem_reverse] at this
  exact mem_of_mem_dropWhile _ _ _ this

theorem rustLines_go_no_newline : ∀ (s acc l : Str), '\n' ∉ acc → l ∈ rustLines.go acc s → '\n' ∉ l
  | [], acc, l, hacc, h => by
    unfold rustLines.go at h
    split at h
    · simp at h
    · simp at h; subst h; simpa using hacc
  | c :: r, acc, l, hacc, h => by
    unfold rustLines.go at h
    split at h
    · rw [List.mem_cons] at h
      rcases h with h | h
      · subst h; simpa using hacc
      · exact rustLines_go_no_newline r [] l (by simp) h
    · rename_i hc
      refine rustLines_go_no_newline r (c :: acc) l ?_ h
      intro hm
      rw [List.mem_cons] at hm
      rcases hm with hm | hm
      · subst hm; simp at hc
      · exact hacc hm

/-- a line of `str::lines` contains no line feed -/
theorem rustLines_no_newline (s l : Str) (h : l ∈ rustLines s) : '\n' ∉ l := by
  unfold rustLines at h
  rw [List.mem_map] at h
  obtain ⟨l0, hl0, rfl⟩ := h
  have h0 := rustLines_go_no_newline s [] l0 (by simp) hl0
  split
  · intro hm; exact h0 (List.dropLast_subset _ hm)
  · exact h0

/-- every printed doc line is trimmed and contains no line feed -/
theorem docLines_normal (ds : List DocComment) (l : Str) (h : l ∈ docLines ds) :
    rustTrim l = l ∧ '\n' ∉ l := by
  unfold docLines at h
  rw [List.mem_flatMap] at h
  obtain ⟨d, _, hl⟩ := h
  rw [List.mem_map] at hl
  obtain ⟨l0, hl0, rfl⟩ := hl
  refine ⟨rustTrim_idem l0, fun hm => ?_⟩
  exact rustLines_no_newline _ _ hl0 (mem_of_mem_rustTrim _ _ hm)

theorem rustLines_go_of_no_newline : ∀ (s acc : Str), '\n' ∉ s →
    rustLines.go acc s = if acc.isEmpty && s.isEmpty then [] else [acc.reverse ++ s]
  | [], acc, _ => by
    unfold rustLines.go
    cases acc <;> simp
  | c :: r, acc, h => by
    unfold rustLines.go
    have hc : (c == '\n') = false := by
      simp only [List.mem_cons, not_or] at h
      simpa using fun e => h.1 e.symm
    have hr : '\n' ∉ r := fun hm => h (List.mem_cons_of_mem _ hm)
    rw [hc]
    simp only [Bool.false_eq_true, if_false]
    rw [rustLines_go_of_no_newline r (c :: acc) hr]
    simp

theorem rustLines_of_normal (l : Str) (hne : l ≠ []) (ht : rustTrim l = l) (hn : '\n' ∉ l) :
    rustLines l = [l] := by
  unfold rustLines
  rw [rustLines_go_of_no_newline l [] hn]
  have : l.isEmpty = false := by cases l <;> simp_all
  simp only [this, List.isEmpty_nil, Bool.and_false, Bool.false_eq_true, if_false, List.reverse_nil,
    List.nil_append, List.map_cons, List.map_nil]
  have hT := trimmed_of_rustTrim_eq l ht
  rw [if_neg]
  intro hlast
  have hl : l.getLast? = some '\r' := by simpa using hlast
  rw [List.getLast?_eq_head?_reverse] at hl
  cases hrev : l.reverse with
  | nil => rw [hrev] at hl; simp at hl
  | cons c r =>
    rw [hrev] at hl
    simp at hl
    subst hl
    have := hT.2 _ _ hrev
    revert this
    decide

theorem docLine_lines_of_normal (l : Str) (ht : rustTrim l = l) (hn : '\n' ∉ l) :
    (rustLines (if l.isEmpty then ['\n'] else l)).map rustTrim = [l] := by
  cases l with
  | nil => decide
  | cons c r =>
    simp only [List.isEmpty_cons, Bool.false_eq_true, if_false]
    rw [rustLines_of_normal _ (by simp) ht hn]
    simp [ht]

theorem docLines_of_normal (ds : List DocComment)
    (h : ∀ d ∈ ds, rustTrim d.comment = d.comment ∧ '\n' ∉ d.comment) :
    docLines ds = ds.map (·.comment) := by
  induction ds with
  | nil => rfl
  | cons d ds ih =>
    have hd := h d (by simp)
    have ih' := ih (fun d' hd' => h d' (List.mem_cons_of_mem _ hd'))
    unfold docLines at ih' ⊢
    rw [List.flatMap_cons, ih', docLine_lines_of_normal _ hd.1 hd.2]
    rfl

/-- comments whose texts are (already) the printed lines of `ds` print as the same lines: this is
what a re-parse of the printed text returns (one `///` comment per line) -/
theorem docLines_of_comments_eq (ds' ds : List DocComment)
    (h : ds'.map (·.comment) = docLines ds) : docLines ds' = docLines ds := by
  rw [docLines_of_normal ds', h]
  intro d hd
  apply docLines_normal ds
  rw [← h]
  exact List.mem_map_of_mem hd

theorem eraseDocs_of_comments_eq (ds' ds : List DocComment)
    (h : ds'.map (·.comment) = docLines ds) : eraseDocs ds' = eraseDocs ds := by
  unfold eraseDocs
  rw [docLines_of_comments_eq ds' ds h]

theorem eraseDocs_comments (ds : List DocComment) : (eraseDocs ds).map (·.comment) = docLines ds := by
  unfold eraseDocs
  rw [List.map_map]
  exact List.map_id' _

theorem docLines_eraseDocs (ds : List DocComment) : docLines (eraseDocs ds) = docLines ds :=
  docLines_of_comments_eq _ _ (eraseDocs_comments ds)

theorem eraseDocs_idem (ds : List DocComment) : eraseDocs (eraseDocs ds) = eraseDocs ds :=
  eraseDocs_of_comments_eq _ _ (eraseDocs_comments ds)

/-- the line the printer writes for one doc line -/
def docLine (p : PS) (line : Str) : PS :=
  (if line.isEmpty then p.doIndent.writeS "///" else (p.doIndent.writeS "/// ").write line).newline

/-- `DocumentPrinter::docs` writes exactly the lines `docLines` -/
theorem docs_eq_foldl (p : PS) (ds : List DocComment) :
    Print.docs p ds = (docLines ds).foldl docLine p := by
  unfold Print.docs docLines
  rw [List.foldl_flatMap]
  simp only [List.foldl_map]
  rfl

theorem docs_eraseDocs (p : PS) (ds : List DocComment) : Print.docs p (eraseDocs ds) = Print.docs p ds := by
  rw [docs_eq_foldl, docs_eq_foldl, docLines_eraseDocs]

end Wac.Lemmas.PrinterErase
