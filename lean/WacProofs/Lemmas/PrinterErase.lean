import WacModel.Printer
import WacModel.AstErase
import WacModel.PrintTokens
import WacModel.PrintWF
/-
  C13: (1) the normal form of doc comments — `docLines` (the trimmed lines the printer writes) is
  a fixed point: the comments a re-parse of the printed text returns (one comment per printed
  line) have the same `docLines`; (2) the printer (text and tokens) reads a tree only through its
  erasure `x.erase` (no spans; doc comments only through `docLines`).

  Main statements: `rustTrim_idem`, `rustLines_no_newline`, `docLines_normal`,
  `docLines_of_comments_eq`, `eraseDocs_of_comments_eq`, `docLines_eraseDocs`, `eraseDocs_idem`,
  `docs_eq_foldl`, `docs_eraseDocs`, `document_erase`, `printTokens_erase`, `erase_idem`.
-/
namespace Wac.Lemmas.PrinterErase
open Wac Wac.Ast Wac.Lex Wac.Print

/-! ### doc comments -/

theorem dropWhile_head_false {α} (p : α → Bool) :
    ∀ (l : List α) (c : α) (r : List α), l.dropWhile p = c :: r → p c = false
  | [], c, r, h => by simp at h
  | a :: l, c, r, h => by
    rw [List.dropWhile_cons] at h
    by_cases hp : p a = true
    · rw [if_pos hp] at h; exact dropWhile_head_false p l c r h
    · rw [if_neg hp] at h
      cases h; simpa using hp

theorem dropWhile_eq_self_of_head {α} (p : α → Bool) (l : List α)
    (h : ∀ c r, l = c :: r → p c = false) : l.dropWhile p = l := by
  cases l with
  | nil => rfl
  | cons a l => rw [List.dropWhile_cons, h a l rfl]; simp

theorem dropWhile_idem' {α} (p : α → Bool) (l : List α) :
    (l.dropWhile p).dropWhile p = l.dropWhile p :=
  dropWhile_eq_self_of_head p _ (fun c r h => dropWhile_head_false p l c r h)

/-- the shape of a trimmed string: both ends are not white space -/
def Trimmed (l : Str) : Prop :=
  (∀ c r, l = c :: r → isRustWhitespace c = false) ∧
  (∀ c r, l.reverse = c :: r → isRustWhitespace c = false)

theorem rustTrim_of_trimmed (l : Str) (h : Trimmed l) : rustTrim l = l := by
  unfold rustTrim
  rw [dropWhile_eq_self_of_head _ l h.1, dropWhile_eq_self_of_head _ l.reverse h.2, List.reverse_reverse]

theorem rustTrim_trimmed (s : Str) : Trimmed (rustTrim s) := by
  unfold rustTrim
  constructor
  · intro c r h
    -- A.reverse = takeWhile ++ B
    have hA := List.takeWhile_append_dropWhile (p := isRustWhitespace)
      (l := (s.dropWhile isRustWhitespace).reverse)
    generalize hB : ((s.dropWhile isRustWhitespace).reverse.dropWhile isRustWhitespace) = B at h hA
    have hA' := congrArg List.reverse hA
    rw [List.reverse_append, List.reverse_reverse, h] at hA'
    exact dropWhile_head_false _ s c _ hA'.symm
  · intro c r h
    rw [List.reverse_reverse] at h
    exact dropWhile_head_false _ _ c r h

/-- `str::trim` is idempotent -/
theorem rustTrim_idem (s : Str) : rustTrim (rustTrim s) = rustTrim s :=
  rustTrim_of_trimmed _ (rustTrim_trimmed s)

theorem trimmed_of_rustTrim_eq (l : Str) (h : rustTrim l = l) : Trimmed l := h ▸ rustTrim_trimmed l

theorem mem_of_mem_dropWhile {α} (p : α → Bool) (l : List α) (c : α) (h : c ∈ l.dropWhile p) : c ∈ l :=
  (List.dropWhile_sublist p).subset h

theorem mem_of_mem_rustTrim (l : Str) (c : Char) (h : c ∈ rustTrim l) : c ∈ l := by
  unfold rustTrim at h
  rw [List.mem_reverse] at h
  have := mem_of_mem_dropWhile _ _ _ h
  rw [List.mem_reverse] at this
  exact mem_of_mem_dropWhile _ _ _ this

theorem rustLines_go_no_newline : ∀ (s acc l : Str), '\n' ∉ acc → l ∈ rustLines.go acc s → '\n' ∉ l
  | [], acc, l, hacc, h => by
    unfold rustLines.go at h
    split at h
    · simp at h
    · simp at h; subst h; simpa using hacc
  | c :: r, acc, l, hacc, h => by
    unfold rustLines.go at h
    split at h
    · rw [List.mem_cons] at h
      rcases h with h | h
      · subst h; simpa using hacc
      · exact rustLines_go_no_newline r [] l (by simp) h
    · rename_i hc
      refine rustLines_go_no_newline r (c :: acc) l ?_ h
      intro hm
      rw [List.mem_cons] at hm
      rcases hm with hm | hm
      · subst hm; simp at hc
      · exact hacc hm

/-- a line of `str::lines` contains no line feed -/
theorem rustLines_no_newline (s l : Str) (h : l ∈ rustLines s) : '\n' ∉ l := by
  unfold rustLines at h
  rw [List.mem_map] at h
  obtain ⟨l0, hl0, rfl⟩ := h
  have h0 := rustLines_go_no_newline s [] l0 (by simp) hl0
  split
  · intro hm; exact h0 (List.dropLast_subset _ hm)
  · exact h0

/-- every printed doc line is trimmed and contains no line feed -/
theorem docLines_normal (ds : List DocComment) (l : Str) (h : l ∈ docLines ds) :
    rustTrim l = l ∧ '\n' ∉ l := by
  unfold docLines at h
  rw [List.mem_flatMap] at h
  obtain ⟨d, _, hl⟩ := h
  rw [List.mem_map] at hl
  obtain ⟨l0, hl0, rfl⟩ := hl
  refine ⟨rustTrim_idem l0, fun hm => ?_⟩
  exact rustLines_no_newline _ _ hl0 (mem_of_mem_rustTrim _ _ hm)

theorem rustLines_go_of_no_newline : ∀ (s acc : Str), '\n' ∉ s →
    rustLines.go acc s = if acc.isEmpty && s.isEmpty then [] else [acc.reverse ++ s]
  | [], acc, _ => by
    unfold rustLines.go
    cases acc <;> simp
  | c :: r, acc, h => by
    unfold rustLines.go
    have hc : (c == '\n') = false := by
      simp only [List.mem_cons, not_or] at h
      simpa using fun e => h.1 e.symm
    have hr : '\n' ∉ r := fun hm => h (List.mem_cons_of_mem _ hm)
    rw [hc]
    simp only [Bool.false_eq_true, if_false]
    rw [rustLines_go_of_no_newline r (c :: acc) hr]
    simp

theorem rustLines_of_normal (l : Str) (hne : l ≠ []) (ht : rustTrim l = l) (hn : '\n' ∉ l) :
    rustLines l = [l] := by
  unfold rustLines
  rw [rustLines_go_of_no_newline l [] hn]
  have : l.isEmpty = false := by cases l <;> simp_all
  simp only [this, List.isEmpty_nil, Bool.and_false, Bool.false_eq_true, if_false, List.reverse_nil,
    List.nil_append, List.map_cons, List.map_nil]
  have hT := trimmed_of_rustTrim_eq l ht
  rw [if_neg]
  intro hlast
  have hl : l.getLast? = some '\r' := by simpa using hlast
  rw [List.getLast?_eq_head?_reverse] at hl
  cases hrev : l.reverse with
  | nil => rw [hrev] at hl; simp at hl
  | cons c r =>
    rw [hrev] at hl
    simp at hl
    subst hl
    have := hT.2 _ _ hrev
    revert this
    decide

theorem docLine_lines_of_normal (l : Str) (ht : rustTrim l = l) (hn : '\n' ∉ l) :
    (rustLines (if l.isEmpty then ['\n'] else l)).map rustTrim = [l] := by
  cases l with
  | nil => decide
  | cons c r =>
    simp only [List.isEmpty_cons, Bool.false_eq_true, if_false]
    rw [rustLines_of_normal _ (by simp) ht hn]
    simp [ht]

theorem docLines_of_normal (ds : List DocComment)
    (h : ∀ d ∈ ds, rustTrim d.comment = d.comment ∧ '\n' ∉ d.comment) :
    docLines ds = ds.map (·.comment) := by
  induction ds with
  | nil => rfl
  | cons d ds ih =>
    have hd := h d (by simp)
    have ih' := ih (fun d' hd' => h d' (List.mem_cons_of_mem _ hd'))
    unfold docLines at ih' ⊢
    rw [List.flatMap_cons, ih', docLine_lines_of_normal _ hd.1 hd.2]
    rfl

/-- comments whose texts are (already) the printed lines of `ds` print as the same lines: this is
what a re-parse of the printed text returns (one `///` comment per line) -/
theorem docLines_of_comments_eq (ds' ds : List DocComment)
    (h : ds'.map (·.comment) = docLines ds) : docLines ds' = docLines ds := by
  rw [docLines_of_normal ds', h]
  intro d hd
  apply docLines_normal ds
  rw [← h]
  exact List.mem_map_of_mem hd

theorem eraseDocs_of_comments_eq (ds' ds : List DocComment)
    (h : ds'.map (·.comment) = docLines ds) : eraseDocs ds' = eraseDocs ds := by
  unfold eraseDocs
  rw [docLines_of_comments_eq ds' ds h]

theorem eraseDocs_comments (ds : List DocComment) : (eraseDocs ds).map (·.comment) = docLines ds := by
  unfold eraseDocs
  rw [List.map_map]
  exact List.map_id' _

theorem docLines_eraseDocs (ds : List DocComment) : docLines (eraseDocs ds) = docLines ds :=
  docLines_of_comments_eq _ _ (eraseDocs_comments ds)

theorem eraseDocs_idem (ds : List DocComment) : eraseDocs (eraseDocs ds) = eraseDocs ds :=
  eraseDocs_of_comments_eq _ _ (eraseDocs_comments ds)

/-- the line the printer writes for one doc line -/
def docLine (p : PS) (line : Str) : PS :=
  (if line.isEmpty then p.doIndent.writeS "///" else (p.doIndent.writeS "/// ").write line).newline

/-- `DocumentPrinter::docs` writes exactly the lines `docLines` -/
theorem docs_eq_foldl (p : PS) (ds : List DocComment) :
    Print.docs p ds = (docLines ds).foldl docLine p := by
  unfold Print.docs docLines
  rw [List.foldl_flatMap]
  simp only [List.foldl_map]
  rfl

theorem docs_eraseDocs (p : PS) (ds : List DocComment) : Print.docs p (eraseDocs ds) = Print.docs p ds := by
  rw [docs_eq_foldl, docs_eq_foldl, docLines_eraseDocs]

/-! ### the printer reads only the erasure -/

/-- a `foldl` over erased elements, when the step function does not see the erasure -/
theorem foldl_map_congr {α β} {f : β → α → β} {g : α → α} (h : ∀ b a, f b (g a) = f b a)
    (xs : List α) (init : β) : (xs.map g).foldl f init = xs.foldl f init := by
  simp only [List.foldl_map, h]

theorem separated_map {α} {f : PS → α → PS} {g : α → α} (h : ∀ p x, f p (g x) = f p x)
    (p : PS) (xs : List α) : separated p f (xs.map g) = separated p f xs := by
  simp only [separated, List.foldl_map, h]

@[local simp] theorem identSrc_erase (i : Ident) : identSrc i.erase = identSrc i := rfl
@[local simp] theorem stringSrc_erase (s : StringLit) : stringSrc s.erase = stringSrc s := rfl
@[local simp] theorem packagePath_erase (p : PS) (x : PackagePath) :
    Print.packagePath p x.erase = Print.packagePath p x := rfl
@[local simp] theorem packagePath_string_erase (x : PackagePath) : x.erase.string = x.string := rfl
@[local simp] theorem packageName_string_erase (x : PackageName) : x.erase.string = x.string := rfl
attribute [local simp] docs_eraseDocs

mutual
theorem ty_erase' : ∀ (t : Ty) (p : PS), Print.ty p t.erase = Print.ty p t
  | .U8 _, p | .S8 _, p | .U16 _, p | .S16 _, p | .U32 _, p | .S32 _, p | .U64 _, p | .S64 _, p
  | .F32 _, p | .F64 _, p | .Char _, p | .Bool _, p | .String _, p => by simp [Ty.erase, Print.ty]
  | .Tuple types _, p => by simp [Ty.erase, Print.ty, tys_erase' types]
  | .List t _, p => by simp [Ty.erase, Print.ty, ty_erase' t]
  | .Option t _, p => by simp [Ty.erase, Print.ty, ty_erase' t]
  | .Result none none _, p => by simp [Ty.erase, Print.ty]
  | .Result none (some err) _, p => by simp [Ty.erase, Print.ty, ty_erase' err]
  | .Result (some ok) none _, p => by simp [Ty.erase, Print.ty, ty_erase' ok]
  | .Result (some ok) (some err) _, p => by simp [Ty.erase, Print.ty, ty_erase' ok, ty_erase' err]
  | .Borrow id _, p => by simp [Ty.erase, Print.ty]
  | .Ident id, p => by simp [Ty.erase, Print.ty]
theorem tys_erase' : ∀ (ts : List Ty) (p : PS) (first : Bool),
    Print.tys p first (eraseTys ts) = Print.tys p first ts
  | [], p, first => by simp [eraseTys, Print.tys]
  | t :: r, p, first => by simp [eraseTys, Print.tys, ty_erase' t, tys_erase' r]
end

@[local simp] theorem ty_erase (p : PS) (t : Ty) : Print.ty p t.erase = Print.ty p t := ty_erase' t p

@[local simp] theorem namedTypes_erase (p : PS) (ts : List NamedType) :
    Print.namedTypes p (ts.map NamedType.erase) = Print.namedTypes p ts := by
  simp only [Print.namedTypes, List.foldl_map, NamedType.erase, ty_erase, identSrc_erase]

@[local simp] theorem funcType_erase (p : PS) (f : FuncType) : Print.funcType p f.erase = Print.funcType p f := by
  rcases f with ⟨params, _ | t⟩ <;> simp [FuncType.erase, ResultList.erase, Print.funcType]

@[local simp] theorem funcTypeRef_erase (p : PS) (f : FuncTypeRef) :
    Print.funcTypeRef p f.erase = Print.funcTypeRef p f := by
  cases f <;> simp [FuncTypeRef.erase, Print.funcTypeRef]

@[local simp] theorem constructor_erase (p : PS) (c : Constructor) :
    Print.constructor p c.erase = Print.constructor p c := by
  simp [Constructor.erase, Print.constructor]

@[local simp] theorem method_erase (p : PS) (m : Method) : Print.method p m.erase = Print.method p m := by
  simp [Method.erase, Print.method]

@[local simp] theorem resourceMethod_erase (p : PS) (m : ResourceMethod) :
    Print.resourceMethod p m.erase = Print.resourceMethod p m := by
  cases m <;> simp [ResourceMethod.erase, Print.resourceMethod]

@[local simp] theorem resourceDecl_erase (p : PS) (d : ResourceDecl) :
    Print.resourceDecl p d.erase = Print.resourceDecl p d := by
  simp [ResourceDecl.erase, Print.resourceDecl, separated_map resourceMethod_erase]

@[local simp] theorem variantCase_erase (p : PS) (c : VariantCase) :
    Print.variantCase p c.erase = Print.variantCase p c := by
  rcases c with ⟨docs, id, _ | t⟩ <;> simp [VariantCase.erase, Print.variantCase]

@[local simp] theorem variantDecl_erase (p : PS) (d : VariantDecl) :
    Print.variantDecl p d.erase = Print.variantDecl p d := by
  simp [VariantDecl.erase, Print.variantDecl, List.foldl_map]

@[local simp] theorem recordDecl_erase (p : PS) (d : RecordDecl) :
    Print.recordDecl p d.erase = Print.recordDecl p d := by
  simp [RecordDecl.erase, Field.erase, Print.recordDecl, List.foldl_map]

@[local simp] theorem flagsDecl_erase (p : PS) (d : FlagsDecl) :
    Print.flagsDecl p d.erase = Print.flagsDecl p d := by
  simp [FlagsDecl.erase, Flag.erase, Print.flagsDecl, List.foldl_map]

@[local simp] theorem enumDecl_erase (p : PS) (d : EnumDecl) :
    Print.enumDecl p d.erase = Print.enumDecl p d := by
  simp [EnumDecl.erase, EnumCase.erase, Print.enumDecl, List.foldl_map]

@[local simp] theorem typeAlias_erase (p : PS) (a : TypeAlias) :
    Print.typeAlias p a.erase = Print.typeAlias p a := by
  rcases a with ⟨docs, id, f | t⟩ <;> simp [TypeAlias.erase, TypeAliasKind.erase, Print.typeAlias]

@[local simp] theorem typeDecl_erase (p : PS) (d : TypeDecl) :
    Print.typeDecl p d.erase = Print.typeDecl p d := by
  cases d <;> simp [TypeDecl.erase, Print.typeDecl]

@[local simp] theorem itemTypeDecl_erase (p : PS) (d : ItemTypeDecl) :
    Print.itemTypeDecl p d.erase = Print.itemTypeDecl p d := by
  cases d <;> simp [ItemTypeDecl.erase, Print.itemTypeDecl]

@[local simp] theorem usePath_erase (p : PS) (u : UsePath) : Print.usePath p u.erase = Print.usePath p u := by
  cases u <;> simp [UsePath.erase, Print.usePath]

@[local simp] theorem useType_erase (p : PS) (u : Use) : Print.useType p u.erase = Print.useType p u := by
  simp only [Use.erase, Print.useType, docs_eraseDocs, usePath_erase]
  rw [foldl_map_congr]
  intro acc item
  rcases item with ⟨id, _ | a⟩ <;> simp [UseItem.erase]

@[local simp] theorem interfaceExport_erase (p : PS) (e : InterfaceExport) :
    Print.interfaceExport p e.erase = Print.interfaceExport p e := by
  simp [InterfaceExport.erase, Print.interfaceExport]

@[local simp] theorem interfaceItem_erase (p : PS) (i : InterfaceItem) :
    Print.interfaceItem p i.erase = Print.interfaceItem p i := by
  cases i <;> simp [InterfaceItem.erase, Print.interfaceItem]

@[local simp] theorem inlineInterface_erase (p : PS) (i : InlineInterface) :
    Print.inlineInterface p i.erase = Print.inlineInterface p i := by
  simp [InlineInterface.erase, Print.inlineInterface, separated_map interfaceItem_erase]

@[local simp] theorem externType_erase (p : PS) (t : ExternType) :
    Print.externType p t.erase = Print.externType p t := by
  cases t <;> simp [ExternType.erase, Print.externType]

@[local simp] theorem worldItemPath_erase (p : PS) (w : WorldItemPath) :
    Print.worldItemPath p w.erase = Print.worldItemPath p w := by
  cases w <;> simp [WorldItemPath.erase, NamedWorldItem.erase, Print.worldItemPath]

@[local simp] theorem worldRef_erase (p : PS) (w : WorldRef) : Print.worldRef p w.erase = Print.worldRef p w := by
  cases w <;> simp [WorldRef.erase, Print.worldRef]

@[local simp] theorem worldInclude_erase (p : PS) (i : WorldInclude) :
    Print.worldInclude p i.erase = Print.worldInclude p i := by
  rcases i with ⟨docs, world, _ | ⟨a, r⟩⟩ <;>
    simp [WorldInclude.erase, WorldIncludeItem.erase, Print.worldInclude, List.foldl_map]

@[local simp] theorem worldItem_erase (p : PS) (i : WorldItem) : Print.worldItem p i.erase = Print.worldItem p i := by
  cases i <;> simp [WorldItem.erase, WorldImport.erase, WorldExport.erase, Print.worldItem]

@[local simp] theorem interfaceDecl_erase (p : PS) (d : InterfaceDecl) :
    Print.interfaceDecl p d.erase = Print.interfaceDecl p d := by
  simp [InterfaceDecl.erase, Print.interfaceDecl, separated_map interfaceItem_erase]

@[local simp] theorem worldDecl_erase (p : PS) (d : WorldDecl) :
    Print.worldDecl p d.erase = Print.worldDecl p d := by
  simp [WorldDecl.erase, Print.worldDecl, separated_map worldItem_erase]

@[local simp] theorem typeStatement_erase (p : PS) (s : TypeStatement) :
    Print.typeStatement p s.erase = Print.typeStatement p s := by
  cases s <;> simp [TypeStatement.erase, Print.typeStatement]

@[local simp] theorem externNameSrc_erase (n : ExternName) : Print.externNameSrc n.erase = Print.externNameSrc n := by
  cases n <;> simp [ExternName.erase, Print.externNameSrc]

@[local simp] theorem importType_erase (p : PS) (t : ImportType) :
    Print.importType p t.erase = Print.importType p t := by
  cases t <;> simp [ImportType.erase, Print.importType]

@[local simp] theorem importStatement_erase (p : PS) (s : ImportStatement) :
    Print.importStatement p s.erase = Print.importStatement p s := by
  rcases s with ⟨docs, id, _ | n, ty⟩ <;> simp [ImportStatement.erase, Print.importStatement]

@[local simp] theorem postfixExpr_erase (p : PS) (e : PostfixExpr) :
    Print.postfixExpr p e.erase = Print.postfixExpr p e := by
  cases e <;> simp [PostfixExpr.erase, Print.postfixExpr]

theorem expr_mk (p : PS) (s : Span) (pr : PrimaryExpr) (post : List PostfixExpr) :
    Print.expr p (.mk s pr post) = post.foldl Print.postfixExpr (Print.primaryExpr p pr) := rfl
theorem exprArgs_nil (p : PS) : Print.exprArgs p [] = p := rfl
theorem exprArgs_inferred (p : PS) (id : Ident) (r : List InstantiationArgument) :
    Print.exprArgs p (.Inferred id :: r) =
      Print.exprArgs ((p.doIndent.write (identSrc id)).writeS ",").newline r := rfl
theorem exprArgs_spread (p : PS) (id : Ident) (r : List InstantiationArgument) :
    Print.exprArgs p (.Spread id :: r) =
      Print.exprArgs (((p.doIndent.writeS "...").write (identSrc id)).writeS ",").newline r := rfl
theorem exprArgs_named_ident (p : PS) (id : Ident) (e : Expr) (r : List InstantiationArgument) :
    Print.exprArgs p (.Named (.mk (.Ident id) e) :: r) =
      Print.exprArgs ((Print.expr ((p.doIndent.write (identSrc id)).writeS ": ") e).writeS ",").newline r := rfl
theorem exprArgs_named_string (p : PS) (s : StringLit) (e : Expr) (r : List InstantiationArgument) :
    Print.exprArgs p (.Named (.mk (.String s) e) :: r) =
      Print.exprArgs ((Print.expr ((p.doIndent.write (stringSrc s)).writeS ": ") e).writeS ",").newline r := rfl
theorem exprArgs_fill (p : PS) (s : Span) (r : List InstantiationArgument) :
    Print.exprArgs p (.Fill s :: r) =
      Print.exprArgs (if r.isEmpty then p.doIndent.writeS "..." else p.doIndent.writeS "...,").newline r := rfl

theorem eraseArgs_nil : eraseArgs [] = [] := rfl
theorem eraseArgs_inferred (id : Ident) (r : List InstantiationArgument) :
    eraseArgs (.Inferred id :: r) = .Inferred id.erase :: eraseArgs r := rfl
theorem eraseArgs_spread (id : Ident) (r : List InstantiationArgument) :
    eraseArgs (.Spread id :: r) = .Spread id.erase :: eraseArgs r := rfl
theorem eraseArgs_named (n : InstantiationArgumentName) (e : Expr) (r : List InstantiationArgument) :
    eraseArgs (.Named (.mk n e) :: r) = .Named (.mk n.erase e.erase) :: eraseArgs r := rfl
theorem eraseArgs_fill (s : Span) (r : List InstantiationArgument) :
    eraseArgs (.Fill s :: r) = .Fill zspan :: eraseArgs r := rfl
theorem eraseArgs_isEmpty (r : List InstantiationArgument) : (eraseArgs r).isEmpty = r.isEmpty := by
  cases r <;> rfl

theorem eraseArgs_length : ∀ args : List InstantiationArgument, (eraseArgs args).length = args.length
  | [] => rfl
  | .Inferred _ :: r => by rw [eraseArgs_inferred, List.length_cons, List.length_cons, eraseArgs_length r]
  | .Spread _ :: r => by rw [eraseArgs_spread, List.length_cons, List.length_cons, eraseArgs_length r]
  | .Named (.mk _ _) :: r => by rw [eraseArgs_named, List.length_cons, List.length_cons, eraseArgs_length r]
  | .Fill _ :: r => by rw [eraseArgs_fill, List.length_cons, List.length_cons, eraseArgs_length r]

theorem primaryExpr_new_big (p : PS) (s : Span) (pkg : PackageName) (args : List InstantiationArgument)
    (h1 : args ≠ []) (h2 : ∀ sp, args ≠ [.Fill sp]) :
    Print.primaryExpr p (.New (.mk s pkg args)) =
      (Print.exprArgs (((p.writeS "new ").write pkg.string).writeS " {").newline.inc args).dec.doIndent.writeS "}" :=
  Print.primaryExpr.eq_3 p s pkg args h1 h2

/-- the `new` expression, given the lemma for its arguments -/
theorem primaryExpr_new_erase (p : PS) (s s' : Span) (pkg : PackageName)
    (args : List InstantiationArgument)
    (ih : ∀ p, Print.exprArgs p (eraseArgs args) = Print.exprArgs p args) :
    Print.primaryExpr p (.New (.mk s' pkg.erase (eraseArgs args))) =
      Print.primaryExpr p (.New (.mk s pkg args)) := by
  by_cases h1 : args = []
  · subst h1; rfl
  by_cases h2 : ∃ sp, args = [.Fill sp]
  · obtain ⟨sp, rfl⟩ := h2; rfl
  have h2' : ∀ sp, args ≠ [.Fill sp] := fun sp h => h2 ⟨sp, h⟩
  have hlen := eraseArgs_length args
  have h1e : eraseArgs args ≠ [] := by
    intro h
    rw [h] at hlen
    exact h1 (List.eq_nil_of_length_eq_zero hlen.symm)
  have h2e : ∀ sp, eraseArgs args ≠ [.Fill sp] := by
    intro sp h
    rw [h] at hlen
    obtain ⟨a, rfl⟩ := List.length_eq_one_iff.mp hlen.symm
    rcases a with id | id | ⟨n, e⟩ | s
    · rw [eraseArgs_inferred] at h; simp at h
    · rw [eraseArgs_spread] at h; simp at h
    · rw [eraseArgs_named] at h; simp at h
    · exact h2' s rfl
  rw [primaryExpr_new_big _ _ _ _ h1e h2e, primaryExpr_new_big _ _ _ _ h1 h2', ih]
  rfl

mutual
theorem expr_erase' : ∀ (e : Expr) (p : PS), Print.expr p e.erase = Print.expr p e
  | .mk _ primary post, p => by
    rw [Expr.erase, expr_mk, expr_mk, primaryExpr_erase' primary, foldl_map_congr postfixExpr_erase]
theorem primaryExpr_erase' : ∀ (e : PrimaryExpr) (p : PS), Print.primaryExpr p e.erase = Print.primaryExpr p e
  | .New (.mk _ package args), p => by
    rw [PrimaryExpr.erase]
    exact primaryExpr_new_erase _ _ _ _ _ (exprArgs_erase' args)
  | .Nested (.mk _ inner), p => by
    rw [PrimaryExpr.erase, Print.primaryExpr, Print.primaryExpr, expr_erase' inner]
  | .Ident id, p => rfl
theorem exprArgs_erase' : ∀ (args : List InstantiationArgument) (p : PS),
    Print.exprArgs p (eraseArgs args) = Print.exprArgs p args
  | [], p => rfl
  | .Inferred id :: r, p => by
    rw [eraseArgs_inferred, exprArgs_inferred, exprArgs_inferred, exprArgs_erase' r]; rfl
  | .Spread id :: r, p => by
    rw [eraseArgs_spread, exprArgs_spread, exprArgs_spread, exprArgs_erase' r]; rfl
  | .Named (.mk (.Ident id) e) :: r, p => by
    rw [eraseArgs_named, InstantiationArgumentName.erase, exprArgs_named_ident, exprArgs_named_ident,
      exprArgs_erase' r, expr_erase' e]; rfl
  | .Named (.mk (.String s) e) :: r, p => by
    rw [eraseArgs_named, InstantiationArgumentName.erase, exprArgs_named_string, exprArgs_named_string,
      exprArgs_erase' r, expr_erase' e]; rfl
  | .Fill _ :: r, p => by
    rw [eraseArgs_fill, exprArgs_fill, exprArgs_fill, exprArgs_erase' r, eraseArgs_isEmpty]
end

@[local simp] theorem expr_erase (p : PS) (e : Expr) : Print.expr p e.erase = Print.expr p e := expr_erase' e p

@[local simp] theorem letStatement_erase (p : PS) (s : LetStatement) :
    Print.letStatement p s.erase = Print.letStatement p s := by
  simp [LetStatement.erase, Print.letStatement]

@[local simp] theorem exportStatement_erase (p : PS) (s : ExportStatement) :
    Print.exportStatement p s.erase = Print.exportStatement p s := by
  rcases s with ⟨docs, e, _ | sp | n⟩ <;> simp [ExportStatement.erase, ExportOptions.erase, Print.exportStatement]

@[local simp] theorem statement_erase (p : PS) (s : Statement) : Print.statement p s.erase = Print.statement p s := by
  cases s <;> simp [Statement.erase, Print.statement]

@[local simp] theorem packageDirective_erase (p : PS) (d : PackageDirective) :
    Print.packageDirective p d.erase = Print.packageDirective p d := by
  rcases d with ⟨pkg, _ | t⟩ <;> simp [PackageDirective.erase, Print.packageDirective]

theorem document_erase (d : Document) : Print.document d.erase = Print.document d := by
  simp [Document.erase, Print.document, separated_map statement_erase]

/-! ### the token printer reads only the erasure -/

@[local simp] theorem tok_dkw_erase (ds : List DocComment) (k : Token) (s : String) :
    PrintTok.dkw (eraseDocs ds) k s = PrintTok.dkw ds k s := by
  simp only [PrintTok.dkw, docLines_eraseDocs]
@[local simp] theorem tok_dident_erase (ds : List DocComment) (i : Ident) :
    PrintTok.dident (eraseDocs ds) i.erase = PrintTok.dident ds i := by
  simp only [PrintTok.dident, docLines_eraseDocs, identSrc_erase]
@[local simp] theorem tok_ident_erase (i : Ident) : PrintTok.ident i.erase = PrintTok.ident i := rfl
@[local simp] theorem tok_string_erase (s : StringLit) : PrintTok.string s.erase = PrintTok.string s := rfl
@[local simp] theorem tok_packagePath_erase (x : PackagePath) :
    PrintTok.packagePath x.erase = PrintTok.packagePath x := rfl
@[local simp] theorem tok_packageName_erase (x : PackageName) :
    PrintTok.packageName x.erase = PrintTok.packageName x := rfl

mutual
theorem tok_ty_erase' : ∀ (t : Ty), PrintTok.ty t.erase = PrintTok.ty t
  | .U8 _ | .S8 _ | .U16 _ | .S16 _ | .U32 _ | .S32 _ | .U64 _ | .S64 _
  | .F32 _ | .F64 _ | .Char _ | .Bool _ | .String _ => by simp [Ty.erase, PrintTok.ty]
  | .Tuple types _ => by simp [Ty.erase, PrintTok.ty, tok_tys_erase' types]
  | .List t _ => by simp [Ty.erase, PrintTok.ty, tok_ty_erase' t]
  | .Option t _ => by simp [Ty.erase, PrintTok.ty, tok_ty_erase' t]
  | .Result none none _ => by simp [Ty.erase, PrintTok.ty]
  | .Result none (some err) _ => by simp [Ty.erase, PrintTok.ty, tok_ty_erase' err]
  | .Result (some ok) none _ => by simp [Ty.erase, PrintTok.ty, tok_ty_erase' ok]
  | .Result (some ok) (some err) _ => by simp [Ty.erase, PrintTok.ty, tok_ty_erase' ok, tok_ty_erase' err]
  | .Borrow id _ => by simp [Ty.erase, PrintTok.ty]
  | .Ident id => by simp [Ty.erase, PrintTok.ty]
theorem tok_tys_erase' : ∀ (ts : List Ty) (first : Bool),
    PrintTok.tys first (eraseTys ts) = PrintTok.tys first ts
  | [], first => by simp [eraseTys, PrintTok.tys]
  | t :: r, first => by simp [eraseTys, PrintTok.tys, tok_ty_erase' t, tok_tys_erase' r]
end

attribute [local simp] tok_ty_erase'

@[local simp] theorem tok_namedTypes_erase (ts : List NamedType) : ∀ (first : Bool),
    PrintTok.namedTypes first (ts.map NamedType.erase) = PrintTok.namedTypes first ts := by
  induction ts with
  | nil => intro first; rfl
  | cons n r ih => intro first; simp [PrintTok.namedTypes, NamedType.erase, ih]

@[local simp] theorem tok_funcType_erase (f : FuncType) : PrintTok.funcType f.erase = PrintTok.funcType f := by
  rcases f with ⟨params, _ | t⟩ <;> simp [FuncType.erase, ResultList.erase, PrintTok.funcType]

@[local simp] theorem tok_funcTypeRef_erase (f : FuncTypeRef) :
    PrintTok.funcTypeRef f.erase = PrintTok.funcTypeRef f := by
  cases f <;> simp [FuncTypeRef.erase, PrintTok.funcTypeRef]

@[local simp] theorem tok_constructor_erase (c : Constructor) :
    PrintTok.constructor c.erase = PrintTok.constructor c := by
  simp [Constructor.erase, PrintTok.constructor]

@[local simp] theorem tok_method_erase (m : Method) : PrintTok.method m.erase = PrintTok.method m := by
  rcases m with ⟨docs, id, _ | _, ty⟩ <;> simp [Method.erase, PrintTok.method]

@[local simp] theorem tok_resourceMethod_erase (m : ResourceMethod) :
    PrintTok.resourceMethod m.erase = PrintTok.resourceMethod m := by
  cases m <;> simp [ResourceMethod.erase, PrintTok.resourceMethod]

@[local simp] theorem tok_resourceDecl_erase (d : ResourceDecl) :
    PrintTok.resourceDecl d.erase = PrintTok.resourceDecl d := by
  simp [ResourceDecl.erase, PrintTok.resourceDecl, List.flatMap_map]

@[local simp] theorem tok_variantCase_erase (c : VariantCase) :
    PrintTok.variantCase c.erase = PrintTok.variantCase c := by
  rcases c with ⟨docs, id, _ | t⟩ <;> simp [VariantCase.erase, PrintTok.variantCase]

@[local simp] theorem tok_variantDecl_erase (d : VariantDecl) :
    PrintTok.variantDecl d.erase = PrintTok.variantDecl d := by
  simp [VariantDecl.erase, PrintTok.variantDecl, List.flatMap_map]

@[local simp] theorem tok_recordDecl_erase (d : RecordDecl) :
    PrintTok.recordDecl d.erase = PrintTok.recordDecl d := by
  simp [RecordDecl.erase, Field.erase, PrintTok.recordDecl, List.flatMap_map]

@[local simp] theorem tok_flagsDecl_erase (d : FlagsDecl) :
    PrintTok.flagsDecl d.erase = PrintTok.flagsDecl d := by
  simp [FlagsDecl.erase, Flag.erase, PrintTok.flagsDecl, List.flatMap_map]

@[local simp] theorem tok_enumDecl_erase (d : EnumDecl) :
    PrintTok.enumDecl d.erase = PrintTok.enumDecl d := by
  simp [EnumDecl.erase, EnumCase.erase, PrintTok.enumDecl, List.flatMap_map]

@[local simp] theorem tok_typeAlias_erase (a : TypeAlias) :
    PrintTok.typeAlias a.erase = PrintTok.typeAlias a := by
  rcases a with ⟨docs, id, f | t⟩ <;> simp [TypeAlias.erase, TypeAliasKind.erase, PrintTok.typeAlias]

@[local simp] theorem tok_typeDecl_erase (d : TypeDecl) : PrintTok.typeDecl d.erase = PrintTok.typeDecl d := by
  cases d <;> simp [TypeDecl.erase, PrintTok.typeDecl]

@[local simp] theorem tok_itemTypeDecl_erase (d : ItemTypeDecl) :
    PrintTok.itemTypeDecl d.erase = PrintTok.itemTypeDecl d := by
  cases d <;> simp [ItemTypeDecl.erase, PrintTok.itemTypeDecl]

@[local simp] theorem tok_usePath_erase (u : UsePath) : PrintTok.usePath u.erase = PrintTok.usePath u := by
  cases u <;> simp [UsePath.erase, PrintTok.usePath]

@[local simp] theorem tok_useItems_erase (items : List UseItem) : ∀ (first : Bool),
    PrintTok.useItems first (items.map UseItem.erase) = PrintTok.useItems first items := by
  induction items with
  | nil => intro first; rfl
  | cons item r ih =>
    intro first
    rcases item with ⟨id, _ | a⟩ <;> simp [PrintTok.useItems, UseItem.erase, ih]

@[local simp] theorem tok_useType_erase (u : Use) : PrintTok.useType u.erase = PrintTok.useType u := by
  simp [Use.erase, PrintTok.useType]

@[local simp] theorem tok_interfaceExport_erase (e : InterfaceExport) :
    PrintTok.interfaceExport e.erase = PrintTok.interfaceExport e := by
  simp [InterfaceExport.erase, PrintTok.interfaceExport]

@[local simp] theorem tok_interfaceItem_erase (i : InterfaceItem) :
    PrintTok.interfaceItem i.erase = PrintTok.interfaceItem i := by
  cases i <;> simp [InterfaceItem.erase, PrintTok.interfaceItem]

@[local simp] theorem tok_inlineInterface_erase (i : InlineInterface) :
    PrintTok.inlineInterface i.erase = PrintTok.inlineInterface i := by
  simp [InlineInterface.erase, PrintTok.inlineInterface, List.flatMap_map]

@[local simp] theorem tok_externType_erase (t : ExternType) :
    PrintTok.externType t.erase = PrintTok.externType t := by
  cases t <;> simp [ExternType.erase, PrintTok.externType]

@[local simp] theorem tok_worldItemPath_erase (w : WorldItemPath) :
    PrintTok.worldItemPath w.erase = PrintTok.worldItemPath w := by
  cases w <;> simp [WorldItemPath.erase, NamedWorldItem.erase, PrintTok.worldItemPath]

@[local simp] theorem tok_worldRef_erase (w : WorldRef) : PrintTok.worldRef w.erase = PrintTok.worldRef w := by
  cases w <;> simp [WorldRef.erase, PrintTok.worldRef]

@[local simp] theorem tok_worldInclude_erase (i : WorldInclude) :
    PrintTok.worldInclude i.erase = PrintTok.worldInclude i := by
  rcases i with ⟨docs, world, _ | ⟨a, r⟩⟩ <;>
    simp [WorldInclude.erase, WorldIncludeItem.erase, PrintTok.worldInclude, List.flatMap_map]

@[local simp] theorem tok_worldItem_erase (i : WorldItem) : PrintTok.worldItem i.erase = PrintTok.worldItem i := by
  cases i <;> simp [WorldItem.erase, WorldImport.erase, WorldExport.erase, PrintTok.worldItem]

@[local simp] theorem tok_interfaceDecl_erase (d : InterfaceDecl) :
    PrintTok.interfaceDecl d.erase = PrintTok.interfaceDecl d := by
  simp [InterfaceDecl.erase, PrintTok.interfaceDecl, List.flatMap_map]

@[local simp] theorem tok_worldDecl_erase (d : WorldDecl) :
    PrintTok.worldDecl d.erase = PrintTok.worldDecl d := by
  simp [WorldDecl.erase, PrintTok.worldDecl, List.flatMap_map]

@[local simp] theorem tok_typeStatement_erase (s : TypeStatement) :
    PrintTok.typeStatement s.erase = PrintTok.typeStatement s := by
  cases s <;> simp [TypeStatement.erase, PrintTok.typeStatement]

@[local simp] theorem tok_externName_erase (n : ExternName) : PrintTok.externName n.erase = PrintTok.externName n := by
  cases n <;> simp [ExternName.erase, PrintTok.externName]

@[local simp] theorem tok_importType_erase (t : ImportType) :
    PrintTok.importType t.erase = PrintTok.importType t := by
  cases t <;> simp [ImportType.erase, PrintTok.importType]

@[local simp] theorem tok_importStatement_erase (s : ImportStatement) :
    PrintTok.importStatement s.erase = PrintTok.importStatement s := by
  rcases s with ⟨docs, id, _ | n, ty⟩ <;> simp [ImportStatement.erase, PrintTok.importStatement]

@[local simp] theorem tok_postfixExpr_erase (e : PostfixExpr) :
    PrintTok.postfixExpr e.erase = PrintTok.postfixExpr e := by
  cases e <;> simp [PostfixExpr.erase, PrintTok.postfixExpr]

@[local simp] theorem tok_argName_erase (n : InstantiationArgumentName) :
    PrintTok.argName n.erase = PrintTok.argName n := by
  cases n <;> simp [InstantiationArgumentName.erase, PrintTok.argName]

theorem tok_expr_mk (s : Span) (pr : PrimaryExpr) (post : List PostfixExpr) :
    PrintTok.expr (.mk s pr post) = PrintTok.primaryExpr pr ++ post.flatMap PrintTok.postfixExpr := rfl
theorem tok_primaryExpr_new (s : Span) (pkg : PackageName) (args : List InstantiationArgument) :
    PrintTok.primaryExpr (.New (.mk s pkg args)) =
      PrintTok.kw .NewKeyword "new" :: PrintTok.packageName pkg :: PrintTok.obrace ::
        (PrintTok.exprArgs args ++ [PrintTok.cbrace]) := rfl
theorem tok_primaryExpr_nested (s : Span) (inner : Expr) :
    PrintTok.primaryExpr (.Nested (.mk s inner)) =
      PrintTok.oparen :: (PrintTok.expr inner ++ [PrintTok.cparen]) := rfl
theorem tok_exprArgs_inferred (id : Ident) (r : List InstantiationArgument) :
    PrintTok.exprArgs (.Inferred id :: r) =
      [PrintTok.ident id, PrintTok.comma] ++ PrintTok.exprArgs r := rfl
theorem tok_exprArgs_spread (id : Ident) (r : List InstantiationArgument) :
    PrintTok.exprArgs (.Spread id :: r) =
      [PrintTok.ellipsis, PrintTok.ident id, PrintTok.comma] ++ PrintTok.exprArgs r := rfl
theorem tok_exprArgs_named (n : InstantiationArgumentName) (e : Expr) (r : List InstantiationArgument) :
    PrintTok.exprArgs (.Named (.mk n e) :: r) =
      (PrintTok.argName n :: PrintTok.colon :: (PrintTok.expr e ++ [PrintTok.comma])) ++ PrintTok.exprArgs r := rfl
theorem tok_exprArgs_fill (s : Span) (r : List InstantiationArgument) :
    PrintTok.exprArgs (.Fill s :: r) =
      (if r.isEmpty then [PrintTok.ellipsis] else [PrintTok.ellipsis, PrintTok.comma]) ++ PrintTok.exprArgs r := rfl

mutual
theorem tok_expr_erase' : ∀ (e : Expr), PrintTok.expr e.erase = PrintTok.expr e
  | .mk _ primary post => by
    rw [Expr.erase, tok_expr_mk, tok_expr_mk, tok_primaryExpr_erase' primary, List.flatMap_map]
    simp only [tok_postfixExpr_erase]
theorem tok_primaryExpr_erase' : ∀ (e : PrimaryExpr), PrintTok.primaryExpr e.erase = PrintTok.primaryExpr e
  | .New (.mk _ package args) => by
    rw [PrimaryExpr.erase, tok_primaryExpr_new, tok_primaryExpr_new, tok_exprArgs_erase' args]; rfl
  | .Nested (.mk _ inner) => by
    rw [PrimaryExpr.erase, tok_primaryExpr_nested, tok_primaryExpr_nested, tok_expr_erase' inner]
  | .Ident id => rfl
theorem tok_exprArgs_erase' : ∀ (args : List InstantiationArgument),
    PrintTok.exprArgs (eraseArgs args) = PrintTok.exprArgs args
  | [] => rfl
  | .Inferred id :: r => by
    rw [eraseArgs_inferred, tok_exprArgs_inferred, tok_exprArgs_inferred, tok_exprArgs_erase' r]; rfl
  | .Spread id :: r => by
    rw [eraseArgs_spread, tok_exprArgs_spread, tok_exprArgs_spread, tok_exprArgs_erase' r]; rfl
  | .Named (.mk n e) :: r => by
    rw [eraseArgs_named, tok_exprArgs_named, tok_exprArgs_named, tok_exprArgs_erase' r, tok_expr_erase' e,
      tok_argName_erase]
  | .Fill _ :: r => by
    rw [eraseArgs_fill, tok_exprArgs_fill, tok_exprArgs_fill, tok_exprArgs_erase' r, eraseArgs_isEmpty]
end

attribute [local simp] tok_expr_erase'

@[local simp] theorem tok_letStatement_erase (s : LetStatement) :
    PrintTok.letStatement s.erase = PrintTok.letStatement s := by
  simp [LetStatement.erase, PrintTok.letStatement]

@[local simp] theorem tok_exportStatement_erase (s : ExportStatement) :
    PrintTok.exportStatement s.erase = PrintTok.exportStatement s := by
  rcases s with ⟨docs, e, _ | sp | n⟩ <;>
    simp [ExportStatement.erase, ExportOptions.erase, PrintTok.exportStatement]

@[local simp] theorem tok_statement_erase (s : Statement) : PrintTok.statement s.erase = PrintTok.statement s := by
  cases s <;> simp [Statement.erase, PrintTok.statement]

@[local simp] theorem tok_packageDirective_erase (ds : List DocComment) (d : PackageDirective) :
    PrintTok.packageDirective (eraseDocs ds) d.erase = PrintTok.packageDirective ds d := by
  rcases d with ⟨pkg, _ | t⟩ <;> simp [PackageDirective.erase, PrintTok.packageDirective]

theorem printTokens_erase (d : Document) :
    Wac.PrintTok.printTokens d.erase = Wac.PrintTok.printTokens d := by
  simp [Document.erase, PrintTok.printTokens, List.flatMap_map]

/-! ### erasure is idempotent -/

theorem map_idem {α} {g : α → α} (h : ∀ x, g (g x) = g x) (xs : List α) :
    (xs.map g).map g = xs.map g := by
  simp only [List.map_map, Function.comp_def, h]

theorem option_map_idem {α} {g : α → α} (h : ∀ x, g (g x) = g x) (o : Option α) :
    (o.map g).map g = o.map g := by
  cases o <;> simp [h]

attribute [local simp] eraseDocs_idem

@[local simp] theorem idem_Ident (i : Ident) : i.erase.erase = i.erase := rfl
@[local simp] theorem idem_StringLit (s : StringLit) : s.erase.erase = s.erase := rfl
@[local simp] theorem idem_PackageName (p : PackageName) : p.erase.erase = p.erase := rfl
@[local simp] theorem idem_PackagePath (p : PackagePath) : p.erase.erase = p.erase := rfl

mutual
theorem idem_Ty : ∀ (t : Ty), t.erase.erase = t.erase
  | .U8 _ | .S8 _ | .U16 _ | .S16 _ | .U32 _ | .S32 _ | .U64 _ | .S64 _
  | .F32 _ | .F64 _ | .Char _ | .Bool _ | .String _ => by simp [Ty.erase]
  | .Tuple types _ => by simp [Ty.erase, idem_eraseTys types]
  | .List t _ => by simp [Ty.erase, idem_Ty t]
  | .Option t _ => by simp [Ty.erase, idem_Ty t]
  | .Result none none _ => by simp [Ty.erase]
  | .Result none (some err) _ => by simp [Ty.erase, idem_Ty err]
  | .Result (some ok) none _ => by simp [Ty.erase, idem_Ty ok]
  | .Result (some ok) (some err) _ => by simp [Ty.erase, idem_Ty ok, idem_Ty err]
  | .Borrow id _ => by simp [Ty.erase]
  | .Ident id => by simp [Ty.erase]
theorem idem_eraseTys : ∀ (ts : List Ty), eraseTys (eraseTys ts) = eraseTys ts
  | [] => by simp [eraseTys]
  | t :: r => by simp [eraseTys, idem_Ty t, idem_eraseTys r]
end

attribute [local simp] idem_Ty

@[local simp] theorem idem_NamedType (n : NamedType) : n.erase.erase = n.erase := by simp [NamedType.erase]
@[local simp] theorem idem_ResultList (r : ResultList) : r.erase.erase = r.erase := by
  cases r <;> simp [ResultList.erase]
@[local simp] theorem idem_FuncType (f : FuncType) : f.erase.erase = f.erase := by
  simp [FuncType.erase, map_idem idem_NamedType]
@[local simp] theorem idem_FuncTypeRef (f : FuncTypeRef) : f.erase.erase = f.erase := by
  cases f <;> simp [FuncTypeRef.erase]
@[local simp] theorem idem_Constructor (c : Constructor) : c.erase.erase = c.erase := by
  simp [Constructor.erase, map_idem idem_NamedType]
@[local simp] theorem idem_Method (m : Method) : m.erase.erase = m.erase := by simp [Method.erase]
@[local simp] theorem idem_ResourceMethod (m : ResourceMethod) : m.erase.erase = m.erase := by
  cases m <;> simp [ResourceMethod.erase]
@[local simp] theorem idem_ResourceDecl (d : ResourceDecl) : d.erase.erase = d.erase := by
  simp [ResourceDecl.erase, map_idem idem_ResourceMethod]
@[local simp] theorem idem_VariantCase (c : VariantCase) : c.erase.erase = c.erase := by
  simp [VariantCase.erase, option_map_idem idem_Ty]
@[local simp] theorem idem_VariantDecl (d : VariantDecl) : d.erase.erase = d.erase := by
  simp [VariantDecl.erase, map_idem idem_VariantCase]
@[local simp] theorem idem_Field (f : Field) : f.erase.erase = f.erase := by simp [Field.erase]
@[local simp] theorem idem_RecordDecl (d : RecordDecl) : d.erase.erase = d.erase := by
  simp [RecordDecl.erase, map_idem idem_Field]
@[local simp] theorem idem_Flag (f : Flag) : f.erase.erase = f.erase := by simp [Flag.erase]
@[local simp] theorem idem_FlagsDecl (d : FlagsDecl) : d.erase.erase = d.erase := by
  simp [FlagsDecl.erase, map_idem idem_Flag]
@[local simp] theorem idem_EnumCase (c : EnumCase) : c.erase.erase = c.erase := by simp [EnumCase.erase]
@[local simp] theorem idem_EnumDecl (d : EnumDecl) : d.erase.erase = d.erase := by
  simp [EnumDecl.erase, map_idem idem_EnumCase]
@[local simp] theorem idem_TypeAliasKind (k : TypeAliasKind) : k.erase.erase = k.erase := by
  cases k <;> simp [TypeAliasKind.erase]
@[local simp] theorem idem_TypeAlias (a : TypeAlias) : a.erase.erase = a.erase := by simp [TypeAlias.erase]
@[local simp] theorem idem_TypeDecl (d : TypeDecl) : d.erase.erase = d.erase := by
  cases d <;> simp [TypeDecl.erase]
@[local simp] theorem idem_ItemTypeDecl (d : ItemTypeDecl) : d.erase.erase = d.erase := by
  cases d <;> simp [ItemTypeDecl.erase]
@[local simp] theorem idem_UseItem (u : UseItem) : u.erase.erase = u.erase := by
  simp [UseItem.erase, option_map_idem idem_Ident]
@[local simp] theorem idem_UsePath (u : UsePath) : u.erase.erase = u.erase := by
  cases u <;> simp [UsePath.erase]
@[local simp] theorem idem_Use (u : Use) : u.erase.erase = u.erase := by
  simp [Use.erase, map_idem idem_UseItem]
@[local simp] theorem idem_InterfaceExport (e : InterfaceExport) : e.erase.erase = e.erase := by
  simp [InterfaceExport.erase]
@[local simp] theorem idem_InterfaceItem (i : InterfaceItem) : i.erase.erase = i.erase := by
  cases i <;> simp [InterfaceItem.erase]
@[local simp] theorem idem_InterfaceDecl (d : InterfaceDecl) : d.erase.erase = d.erase := by
  simp [InterfaceDecl.erase, map_idem idem_InterfaceItem]
@[local simp] theorem idem_InlineInterface (i : InlineInterface) : i.erase.erase = i.erase := by
  simp [InlineInterface.erase, map_idem idem_InterfaceItem]
@[local simp] theorem idem_ExternType (t : ExternType) : t.erase.erase = t.erase := by
  cases t <;> simp [ExternType.erase]
@[local simp] theorem idem_NamedWorldItem (n : NamedWorldItem) : n.erase.erase = n.erase := by
  simp [NamedWorldItem.erase]
@[local simp] theorem idem_WorldItemPath (w : WorldItemPath) : w.erase.erase = w.erase := by
  cases w <;> simp [WorldItemPath.erase]
@[local simp] theorem idem_WorldImport (i : WorldImport) : i.erase.erase = i.erase := by simp [WorldImport.erase]
@[local simp] theorem idem_WorldExport (e : WorldExport) : e.erase.erase = e.erase := by simp [WorldExport.erase]
@[local simp] theorem idem_WorldRef (w : WorldRef) : w.erase.erase = w.erase := by
  cases w <;> simp [WorldRef.erase]
@[local simp] theorem idem_WorldIncludeItem (i : WorldIncludeItem) : i.erase.erase = i.erase := by
  simp [WorldIncludeItem.erase]
@[local simp] theorem idem_WorldInclude (i : WorldInclude) : i.erase.erase = i.erase := by
  simp [WorldInclude.erase, map_idem idem_WorldIncludeItem]
@[local simp] theorem idem_WorldItem (i : WorldItem) : i.erase.erase = i.erase := by
  cases i <;> simp [WorldItem.erase]
@[local simp] theorem idem_WorldDecl (d : WorldDecl) : d.erase.erase = d.erase := by
  simp [WorldDecl.erase, map_idem idem_WorldItem]
@[local simp] theorem idem_TypeStatement (s : TypeStatement) : s.erase.erase = s.erase := by
  cases s <;> simp [TypeStatement.erase]
@[local simp] theorem idem_ExternName (n : ExternName) : n.erase.erase = n.erase := by
  cases n <;> simp [ExternName.erase]
@[local simp] theorem idem_ImportType (t : ImportType) : t.erase.erase = t.erase := by
  cases t <;> simp [ImportType.erase]
@[local simp] theorem idem_ImportStatement (s : ImportStatement) : s.erase.erase = s.erase := by
  simp [ImportStatement.erase, option_map_idem idem_ExternName]
@[local simp] theorem idem_InstantiationArgumentName (n : InstantiationArgumentName) :
    n.erase.erase = n.erase := by
  cases n <;> simp [InstantiationArgumentName.erase]
@[local simp] theorem idem_PostfixExpr (e : PostfixExpr) : e.erase.erase = e.erase := by
  cases e <;> simp [PostfixExpr.erase]

mutual
theorem idem_Expr : ∀ (e : Expr), e.erase.erase = e.erase
  | .mk _ primary post => by
    rw [Expr.erase, Expr.erase, idem_PrimaryExpr primary, map_idem idem_PostfixExpr]
theorem idem_PrimaryExpr : ∀ (e : PrimaryExpr), e.erase.erase = e.erase
  | .New (.mk _ package args) => by
    rw [PrimaryExpr.erase, PrimaryExpr.erase, idem_eraseArgs args, idem_PackageName]
  | .Nested (.mk _ inner) => by
    rw [PrimaryExpr.erase, PrimaryExpr.erase, idem_Expr inner]
  | .Ident id => rfl
theorem idem_eraseArgs : ∀ (args : List InstantiationArgument), eraseArgs (eraseArgs args) = eraseArgs args
  | [] => rfl
  | .Inferred id :: r => by
    rw [eraseArgs_inferred, eraseArgs_inferred, idem_eraseArgs r, idem_Ident]
  | .Spread id :: r => by
    rw [eraseArgs_spread, eraseArgs_spread, idem_eraseArgs r, idem_Ident]
  | .Named (.mk n e) :: r => by
    rw [eraseArgs_named, eraseArgs_named, idem_eraseArgs r, idem_Expr e, idem_InstantiationArgumentName]
  | .Fill _ :: r => by
    rw [eraseArgs_fill, eraseArgs_fill, idem_eraseArgs r]
end

attribute [local simp] idem_Expr

@[local simp] theorem idem_LetStatement (s : LetStatement) : s.erase.erase = s.erase := by
  simp [LetStatement.erase]
@[local simp] theorem idem_ExportOptions (o : ExportOptions) : o.erase.erase = o.erase := by
  cases o <;> simp [ExportOptions.erase]
@[local simp] theorem idem_ExportStatement (s : ExportStatement) : s.erase.erase = s.erase := by
  simp [ExportStatement.erase]
@[local simp] theorem idem_Statement (s : Statement) : s.erase.erase = s.erase := by
  cases s <;> simp [Statement.erase]
@[local simp] theorem idem_PackageDirective (d : PackageDirective) : d.erase.erase = d.erase := by
  simp [PackageDirective.erase, option_map_idem idem_PackagePath]

theorem erase_idem (d : Document) : d.erase.erase = d.erase := by
  simp [Document.erase, map_idem idem_Statement]

end Wac.Lemmas.PrinterErase
