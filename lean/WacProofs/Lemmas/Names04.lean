import WacModel.Spec.Language
import WacModel.Resolve
/-
  Helper lemmas for C04 about names: the model's byte-index style `rfind('/')` / `find('@')`
  computation agrees with the specification's "final path component".
-/
namespace Wac.Lemmas.C04
open Wac.Lang Wac.Lang.Model

/-- index of the last `/` -/
def lastIdx : Str → Option Nat
  | [] => none
  | c :: r =>
    match lastIdx r with
    | some j => some (j + 1)
    | none => if c == '/' then some 0 else none

theorem rfindSlash_go (s : Str) (i : Nat) (last : Option Nat) :
    rfindSlash.go s i last = match lastIdx s with
      | some j => some (i + j)
      | none => last := by
  induction s generalizing i last with
  | nil => simp [rfindSlash.go, lastIdx]
  | cons c r ih =>
    simp only [rfindSlash.go, lastIdx]
    rw [ih]
    cases h : lastIdx r with
    | some j => simp; omega
    | none =>
      by_cases hc : (c == '/') = true <;> simp [hc]

theorem rfindSlash_eq (s : Str) : rfindSlash s = lastIdx s := by
  unfold rfindSlash
  rw [rfindSlash_go]
  cases lastIdx s <;> simp

theorem lastIdx_none (s : Str) : lastIdx s = none ↔ '/' ∉ s := by
  induction s with
  | nil => simp [lastIdx]
  | cons c r ih =>
    simp only [lastIdx]
    cases h : lastIdx r with
    | some j =>
      have : ¬ ('/' ∉ r) := fun hn => by rw [ih.mpr hn] at h; cases h
      simp only [reduceCtorEq, false_iff]
      intro hn
      exact this (fun hm => hn (List.mem_cons_of_mem _ hm))
    | none =>
      have hr := ih.mp h
      by_cases hc : (c == '/') = true
      · simp only [hc, ↓reduceIte, reduceCtorEq, false_iff]
        intro hn
        have : c = '/' := by simpa using hc
        exact hn (this ▸ List.mem_cons_self)
      · simp only [hc]
        simp only [Bool.false_eq_true, ↓reduceIte, true_iff]
        intro hm
        cases hm with
        | head => simp at hc
        | tail _ h' => exact hr h'

theorem lastIdx_some (s : Str) (j : Nat) (h : lastIdx s = some j) :
    ∃ l₁ l₂, s = l₁ ++ '/' :: l₂ ∧ '/' ∉ l₂ ∧ l₁.length = j := by
  induction s generalizing j with
  | nil => simp [lastIdx] at h
  | cons c r ih =>
    simp only [lastIdx] at h
    cases hr : lastIdx r with
    | some k =>
      rw [hr] at h
      obtain ⟨l₁, l₂, e, hn, hl⟩ := ih k hr
      refine ⟨c :: l₁, l₂, by rw [e]; rfl, hn, ?_⟩
      simp at h
      simp [hl, h]
    | none =>
      rw [hr] at h
      by_cases hc : (c == '/') = true
      · simp [hc] at h
        have : c = '/' := by simpa using hc
        exact ⟨[], r, by simp [this], (lastIdx_none r).mp hr, by simp [h]⟩
      · simp [hc] at h

theorem takeWhile_append_stop {α} (p : α → Bool) (a : List α) (b : α) (c : List α)
    (ha : ∀ x ∈ a, p x = true) (hb : p b = false) : (a ++ b :: c).takeWhile p = a := by
  induction a with
  | nil => simp [hb]
  | cons x r ih =>
    have hx : p x = true := ha x List.mem_cons_self
    simp only [List.cons_append, List.takeWhile_cons, hx, ↓reduceIte]
    rw [ih (fun y hy => ha y (List.mem_cons_of_mem _ hy))]

theorem takeWhile_all {α} (p : α → Bool) (a : List α) (ha : ∀ x ∈ a, p x = true) : a.takeWhile p = a := by
  induction a with
  | nil => rfl
  | cons x r ih =>
    simp only [List.takeWhile_cons, ha x List.mem_cons_self, ↓reduceIte]
    rw [ih (fun y hy => ha y (List.mem_cons_of_mem _ hy))]

theorem afterLastSlash_split (l₁ l₂ : Str) (h : '/' ∉ l₂) : Spec.afterLastSlash (l₁ ++ '/' :: l₂) = l₂ := by
  unfold Spec.afterLastSlash
  rw [List.reverse_append, List.reverse_cons, List.append_assoc]
  simp only [List.singleton_append]
  rw [takeWhile_append_stop]
  · simp
  · intro x hx
    have : x ∈ l₂ := by simpa using hx
    simp only [bne_iff_ne, ne_eq]
    intro e; exact h (e ▸ this)
  · simp

theorem afterLastSlash_plain (s : Str) (h : '/' ∉ s) : Spec.afterLastSlash s = s := by
  unfold Spec.afterLastSlash
  rw [takeWhile_all]
  · simp
  · intro x hx
    have : x ∈ s := by simpa using hx
    simp only [bne_iff_ne, ne_eq]
    intro e; exact h (e ▸ this)

theorem stripVersion_eq (n : Str) : stripVersion n = n.takeWhile (· != '@') := by
  unfold stripVersion
  induction n with
  | nil => simp [findAt]
  | cons c r ih =>
    simp only [findAt]
    by_cases hc : (c == '@') = true
    · have : c = '@' := by simpa using hc
      simp [this]
    · have hne : (c != '@') = true := by simpa using hc
      simp only [hc, Bool.false_eq_true, ↓reduceIte, List.takeWhile_cons, hne]
      rw [← ih]
      cases findAt r <;> simp

/-- the model's filter closure is "has a `/` and its final component is the name" -/
theorem matchesInterfaceName_eq (name q : Str) :
    matchesInterfaceName name q = (q.contains '/' && Spec.finalComponent q == name) := by
  unfold matchesInterfaceName
  rw [rfindSlash_eq]
  cases h : lastIdx q with
  | none =>
    have : '/' ∉ q := (lastIdx_none q).mp h
    have hc : q.contains '/' = false := by simpa using this
    rw [hc]; rfl
  | some j =>
    obtain ⟨l₁, l₂, e, hn, hl⟩ := lastIdx_some q j h
    have hc : q.contains '/' = true := by simp [e]
    have hd : q.drop (j + 1) = l₂ := by
      rw [e, ← hl]
      simp
    simp only [hd, hc, Bool.true_and]
    unfold Spec.finalComponent
    rw [e, afterLastSlash_split l₁ l₂ hn, stripVersion_eq]

/-- a plain name is its own final component -/
theorem finalComponent_plain (q : Str) (h : '/' ∉ q) (h2 : '@' ∉ q) : Spec.finalComponent q = q := by
  unfold Spec.finalComponent
  rw [afterLastSlash_plain q h, takeWhile_all]
  intro x hx
  simp only [bne_iff_ne, ne_eq]
  intro e; exact h2 (e ▸ hx)

/-- `q` is an interface path whose final component (version removed) is `n` -/
def PathEndsWith (n q : Str) : Prop := q.contains '/' = true ∧ Spec.finalComponent q = n

instance (n q : Str) : Decidable (PathEndsWith n q) := by unfold PathEndsWith; infer_instance

theorem matchesInterfaceName_iff (n q : Str) : matchesInterfaceName n q = true ↔ PathEndsWith n q := by
  rw [matchesInterfaceName_eq]; simp [PathEndsWith]

theorem filter_eq_singleton {α} [DecidableEq α] (f : α → Bool) (m : List α) (hm : m.Nodup) (p : α) :
    m.filter f = [p] ↔ p ∈ m ∧ f p = true ∧ ∀ q ∈ m, f q = true → q = p := by
  constructor
  · intro h
    have hp : p ∈ m.filter f := by rw [h]; exact List.mem_cons_self
    have := List.mem_filter.mp hp
    refine ⟨this.1, this.2, fun q hq hf => ?_⟩
    have : q ∈ m.filter f := List.mem_filter.mpr ⟨hq, hf⟩
    rw [h] at this
    simpa using this
  · intro ⟨hp, hf, hu⟩
    have hnd : (m.filter f).Nodup := hm.sublist List.filter_sublist
    have hall : ∀ q ∈ m.filter f, q = p := fun q hq =>
      hu q (List.mem_filter.mp hq).1 (List.mem_filter.mp hq).2
    have hmem : p ∈ m.filter f := List.mem_filter.mpr ⟨hp, hf⟩
    match hl : m.filter f with
    | [] => rw [hl] at hmem; cases hmem
    | [a] =>
      rw [hl] at hall
      rw [hall a List.mem_cons_self]
    | a :: b :: r =>
      rw [hl] at hall hnd
      have ha := hall a List.mem_cons_self
      have hb := hall b (List.mem_cons_of_mem _ List.mem_cons_self)
      subst ha; subst hb
      simp at hnd

/-- the documented identifier rule is what `find_matching_interface_name(..).unwrap_or(id)` computes -/
theorem shortName_eq_model (n : Str) (m : List Str) :
    Spec.shortName n m = (findMatchingInterfaceName n m).getD n := by
  unfold Spec.shortName findMatchingInterfaceName
  by_cases hc : m.contains n = true
  · -- the name is a key itself: every outcome of the documented rule is the name
    have hmem : n ∈ m := by simpa using hc
    simp only [hc, ↓reduceIte, Option.getD_none]
    match hl : m.filter (Spec.endsWith n) with
    | [] => rfl
    | [a] =>
      have : n ∈ m.filter (Spec.endsWith n) :=
        List.mem_filter.mpr ⟨hmem, by simp [Spec.endsWith]⟩
      rw [hl] at this
      simp at this
      simp [this]
    | _ :: _ :: _ => rfl
  · have hnm : n ∉ m := by simpa using hc
    simp only [hc, Bool.false_eq_true, ↓reduceIte]
    have : m.filter (Spec.endsWith n) = m.filter (matchesInterfaceName n) := by
      apply List.filter_congr
      intro q hq
      rw [matchesInterfaceName_eq]
      have hqn : (q == n) = false := by
        have : q ≠ n := fun e => hnm (e ▸ hq)
        simpa using this
      simp [Spec.endsWith, hqn]
    rw [this]
    match m.filter (matchesInterfaceName n) with
    | [] => rfl
    | [a] => rfl
    | _ :: _ :: _ => rfl

end Wac.Lemmas.C04
