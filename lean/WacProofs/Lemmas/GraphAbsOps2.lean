import WacProofs.Lemmas.GraphAbsOps1
import WacProofs.Lemmas.GraphInvUnsetArg
/-
  C06 refinement: the operations that add or remove one edge
  (`alias_instance_export`, `set_instantiation_argument`, `unset_instantiation_argument`).
-/
namespace Wac.Graph
open Wac Wac.HashSites

/-! ### `alias_instance_export` -/

theorem findAliasEdge_some' {es : List Edge} {i t : Nat} (h : findAliasEdge es i = some t) :
    ∃ e ∈ es, e.kind = .alias i ∧ e.dst = t := by
  induction es with
  | nil => simp [findAliasEdge] at h
  | cons x r ih =>
    unfold findAliasEdge at h
    split at h
    · rename_i hk
      simp only [Option.some.injEq] at h
      exact ⟨x, List.mem_cons_self .., hk, h⟩
    · obtain ⟨e, he, h1, h2⟩ := ih h
      exact ⟨e, List.mem_cons_of_mem _ he, h1, h2⟩

theorem findAliasEdge_none {es : List Edge} {i : Nat} (h : findAliasEdge es i = none) :
    ∀ e ∈ es, e.kind ≠ .alias i := by
  induction es with
  | nil => intro e he; cases he
  | cons x r ih =>
    unfold findAliasEdge at h
    split at h
    · cases h
    · rename_i hk
      intro e he
      rcases List.mem_cons.mp he with rfl | he
      · exact hk
      · exact ih h e he

theorem mem_outEdges {g : Graph} {n : Nat} {e : Edge} : e ∈ g.outEdges n ↔ e ∈ g.edges ∧ e.src = n := by
  unfold Graph.outEdges; rw [List.mem_filter]; simp

theorem mem_inEdges {g : Graph} {n : Nat} {e : Edge} : e ∈ g.inEdges n ↔ e ∈ g.edges ∧ e.dst = n := by
  unfold Graph.inEdges; rw [List.mem_filter]; simp

/-- the abstract lookup of an existing alias agrees with the scan of the adjacency list -/
theorem findAlias_eq {ctx : Ctx} {g : Graph} (h : Inv ctx g) (hu : AliasUnique g) (inst i : Nat) :
    (abs g).findAlias inst i = findAliasEdge (g.outEdges inst) i := by
  unfold Abs.findAlias
  cases hq : findAliasEdge (g.outEdges inst) i with
  | none =>
    rw [List.find?_eq_none]
    intro t _ ht
    have ht' : (abs g).aliasOf t = some (inst, i) := by simpa using ht
    have hm := h.abs_alias.mp ht'
    exact findAliasEdge_none hq _ (mem_outEdges.mpr ⟨hm, rfl⟩) rfl
  | some t =>
    obtain ⟨e, he, hk, hd⟩ := findAliasEdge_some' hq
    obtain ⟨hem, hsrc⟩ := mem_outEdges.mp he
    have hedge : (⟨inst, t, .alias i⟩ : Edge) ∈ g.edges := by
      have : e = ⟨inst, t, .alias i⟩ := by cases e; simp only at hsrc hk hd; subst hsrc; subst hk; subst hd; rfl
      rw [← this]; exact hem
    have hal : (abs g).aliasOf t = some (inst, i) := h.abs_alias.mpr hedge
    have htl : t < g.nodes.length := by
      obtain ⟨_, ⟨d, hd'⟩⟩ := h.edge_live hedge
      exact node?_eq_some_lt hd'
    cases hf : (List.range (abs g).cap).find? (fun t => decide ((abs g).aliasOf t = some (inst, i))) with
    | none =>
      rw [List.find?_eq_none] at hf
      exact absurd (by simpa using hal) (hf t (List.mem_range.mpr htl))
    | some t' =>
      have ht' := List.find?_some hf
      have ht'' : (abs g).aliasOf t' = some (inst, i) := by simpa using ht'
      have hedge' := h.abs_alias.mp ht''
      have := hu _ hedge _ hedge' rfl rfl rfl
      simp only at this
      rw [this]

theorem hasDep_cons_nondep {g g' : Graph} {e : Edge} (he : g'.edges = e :: g.edges) (hk : e.kind ≠ .dep) :
    g'.hasDep = g.hasDep := by
  funext a b
  unfold Graph.hasDep
  rw [he, List.any_cons]
  have : (e.src == a && e.dst == b && e.kind == EdgeKind.dep) = false := by
    have : (e.kind == EdgeKind.dep) = false := by simpa using hk
    rw [this]; simp
  rw [this]; rfl

theorem abs_aliasInstanceExport {ctx : Ctx} {g g' : Graph} {inst : Nat} {ename : Str} {out : Outcome}
    (h : Inv ctx g) (hu : AliasUnique g) (hs : aliasInstanceExport ctx g inst ename = (g', out))
    (hp : out.isPanic = false) :
    specStep ctx g.fresh (abs g) (.alias inst ename) = (abs g', out) := by
  unfold aliasInstanceExport at hs
  simp only [specStep]
  split at hs
  · cases hs; cases hp
  · rename_i nd hnd
    rw [abs_node_some hnd]
    simp only
    have hitem : nd.abs.item = nd.item := rfl
    rw [hitem]
    split at hs
    · rename_i hke
      rw [hke]; cases hs; rfl
    · rename_i exps hke
      rw [hke]
      simp only
      split at hs
      · rename_i hfull
        rw [hfull]; cases hs; rfl
      · rename_i i k hfull
        rw [hfull]
        simp only
        rw [findAlias_eq h hu]
        split at hs
        · rename_i t ht
          rw [ht]; cases hs; rfl
        · rename_i ht
          rw [ht]
          simp only [Prod.mk.injEq] at hs ⊢
          obtain ⟨hg, ho⟩ := hs
          have a := added_of_addNode h ⟨.alias, nd.pkg, k, none, none⟩
          have hl := addNode_len h.free ⟨.alias, nd.pkg, k, none, none⟩
          have hf := addNode_fresh g ⟨.alias, nd.pkg, k, none, none⟩
          rw [← ho, ← hg, hf]
          rw [hf] at a
          generalize (g.addNode ⟨.alias, nd.pkg, k, none, none⟩).1 = g1 at a hl ⊢
          refine ⟨?_, rfl⟩
          have hb := abs_added a hl
          refine Abs.ext' ?_ ?_ ?_ ?_ ?_ ?_ ?_ ?_ ?_ ?_
          · show _ = g1.nodes.length
            rw [hl]; rfl
          · show _ = (abs g1).node
            rw [hb]; rfl
          · funext x y
            show _ = argOfE (⟨inst, g.fresh.node, .alias i⟩ :: g1.edges) x y
            rw [argOfE_cons, if_neg (by rintro ⟨_, hk⟩; cases hk), a.edges]
            rfl
          · funext t
            show _ = aliasOfE (⟨inst, g.fresh.node, .alias i⟩ :: g1.edges) t
            rw [aliasOfE_cons_alias rfl, a.edges]
            show upd (aliasOfE g.edges) _ _ t = _
            unfold upd
            by_cases ht' : t = g.fresh.node
            · subst ht'; simp
            · simp [ht', Ne.symm ht']
          · show _ = (g1.addEdge inst g.fresh.node (.alias i)).hasDep
            rw [hasDep_cons_nondep (g := g1) (g' := g1.addEdge inst g.fresh.node (.alias i)) rfl (by simp)]
            exact (hasDep_congr a.edges).symm
          · show _ = alGet g1.exports
            rw [a.exports]; rfl
          · show _ = alGet g1.imports
            rw [a.imports]; rfl
          · show _ = alGet g1.defined
            rw [a.defined]; rfl
          · show _ = (abs g1).pkg
            rw [hb]; rfl
          · show _ = alGet g1.pkgMap
            rw [a.pkgMap]; rfl

/-! ### the common prefix of the two argument operations -/

/-- the package the code finds through the unchecked `pkgAt` is the live package of the
    instantiation, and the specification finds the same -/
theorem instPkg_eq {ctx : Ctx} {g : Graph} (h : Inv ctx g) {inst : Nat} {nd : Node} {pid : PkgId} {d : PkgDef}
    (hnd : g.node? inst = some nd) (hpid : nd.pkg = some pid) (hd : g.pkgAt pid = .ok d) :
    (abs g).instPkg nd.abs = some d ∧ g.pkgOf pid = .ok d := by
  have hlive := (h.node hnd).1 pid (by rw [hpid]; rfl)
  have hd' : g.pkgOf pid = .ok d := by
    unfold Graph.pkgLive at hlive
    cases hq : g.pkgOf pid with
    | error s => rw [hq] at hlive; cases hlive
    | ok d0 =>
      have := pkgAt_of_pkgOf hq
      rw [hd] at this
      cases this; rfl
  refine ⟨?_, hd'⟩
  unfold Abs.instPkg
  have : nd.abs.pkg = some pid := hpid
  rw [this]
  show (g.pkgOf pid).toOption = some d
  rw [hd']; rfl

theorem abs_isInst_of_kind {nd : Node} {sat : List Nat} (hk : nd.kind = .instantiation sat) : nd.abs.isInst = true := by
  rw [abs_isInst]; simp [Node.isInst, hk]

theorem abs_isInst_false {nd : Node} (hk : ∀ sat, nd.kind ≠ .instantiation sat) : nd.abs.isInst = false := by
  rw [abs_isInst]
  unfold Node.isInst
  split
  · rename_i s hs; exact absurd hs (hk s)
  · rfl

/-! ### `set_instantiation_argument` -/

/-- the scan of the incoming edges of an instantiation is the lookup in the argument map -/
theorem scanArgs_eq {es : List Edge} {inst : Nat} (hall : ∀ e ∈ es, e.dst = inst → e.kind.isArg = true) (i arg : Nat) :
    scanArgs (es.filter (fun e => e.dst == inst)) i arg =
      (argOfE es inst i).map (fun s => (Except.ok (s == arg) : Except Site Bool)) := by
  induction es with
  | nil => rfl
  | cons e r ih =>
    have ih' := ih (fun e' he' => hall e' (List.mem_cons_of_mem _ he'))
    rw [argOfE_cons]
    by_cases hd : e.dst = inst
    · have hf : (e :: r).filter (fun e => e.dst == inst) = e :: r.filter (fun e => e.dst == inst) := by
        simp [List.filter_cons, hd]
      rw [hf]
      have hk := hall e (List.mem_cons_self ..) hd
      unfold scanArgs
      cases hkk : e.kind with
      | arg j =>
        simp only
        by_cases hj : j = i
        · subst hj; simp [hd]
        · have : ¬ (e.dst = inst ∧ EdgeKind.arg j = EdgeKind.arg i) := by
            rintro ⟨_, h2⟩; cases h2; exact hj rfl
          rw [if_neg hj, if_neg this]; exact ih'
      | alias j => rw [hkk] at hk; cases hk
      | dep => rw [hkk] at hk; cases hk
    · have hf : (e :: r).filter (fun e => e.dst == inst) = r.filter (fun e => e.dst == inst) := by
        simp [List.filter_cons, hd]
      rw [hf]
      rw [if_neg (fun hc => hd hc.1)]
      exact ih'

theorem abs_setArg {ctx : Ctx} {g g' : Graph} {inst arg : Nat} {name : Str} {out : Outcome}
    (h : Inv ctx g) (hs : setArg ctx g inst name arg = (g', out)) (hp : out.isPanic = false) :
    specStep ctx g.fresh (abs g) (.setArg inst name arg) = (abs g', out) := by
  unfold setArg at hs
  simp only [specStep]
  split at hs
  · cases hs; cases hp
  · rename_i nd hnd
    rw [abs_node_some hnd]
    simp only
    split at hs
    · rename_i sat hk
      rw [abs_isInst_of_kind hk]
      simp only [Bool.not_true, Bool.false_eq_true, ↓reduceIte]
      split at hs
      · cases hs; cases hp
      · rename_i pid hpid
        split at hs
        · cases hs; cases hp
        · rename_i d hd
          obtain ⟨hip, hd'⟩ := instPkg_eq h hnd hpid hd
          rw [hip]
          simp only
          split at hs
          · rename_i hfull
            rw [hfull]; cases hs; rfl
          · rename_i i expected hfull
            rw [hfull]
            simp only
            have hall : ∀ e ∈ g.edges, e.dst = inst → e.kind.isArg = true := by
              intro e he hdst
              obtain ⟨j, hj, _⟩ := inEdges_of_inst h hnd (by simp [Node.isInst, hk]) e he hdst
              rw [hj]; rfl
            have hscan := scanArgs_eq hall i arg
            have hin : g.inEdges inst = g.edges.filter (fun e => e.dst == inst) := rfl
            rw [← hin] at hscan
            have earg : (abs g).arg inst i = argOfE g.edges inst i := rfl
            rw [earg]
            split at hs
            · rename_i s hsc
              rw [hscan] at hsc
              cases hq : argOfE g.edges inst i <;> rw [hq] at hsc <;> cases hsc
            · rename_i hsc
              rw [hscan] at hsc
              cases hq : argOfE g.edges inst i with
              | none => rw [hq] at hsc; cases hsc
              | some s =>
                rw [hq] at hsc
                simp only [Option.map_some, Option.some.injEq, Except.ok.injEq, beq_iff_eq] at hsc
                simp only [hsc, ↓reduceIte]
                cases hs; rfl
            · rename_i hsc
              rw [hscan] at hsc
              cases hq : argOfE g.edges inst i with
              | none => rw [hq] at hsc; cases hsc
              | some s =>
                rw [hq] at hsc
                simp only [Option.map_some, Option.some.injEq, Except.ok.injEq, beq_eq_false_iff_ne, ne_eq] at hsc
                simp only [hsc, ↓reduceIte]
                cases hs; rfl
            · rename_i hsc
              rw [hscan] at hsc
              cases hq : argOfE g.edges inst i with
              | some s => rw [hq] at hsc; cases hsc
              | none =>
                simp only
                split at hs
                · cases hs; cases hp
                · rename_i argNd harg
                  rw [abs_node_some harg]
                  simp only
                  have : argNd.abs.item = argNd.item := rfl
                  rw [this]
                  split at hs
                  · rename_i hsub
                    rw [if_pos hsub]; cases hs; rfl
                  · rename_i hsub
                    rw [if_neg hsub]
                    split at hs
                    · cases hs; cases hp
                    · simp only [Prod.mk.injEq] at hs ⊢
                      obtain ⟨hg, ho⟩ := hs
                      refine ⟨?_, ho⟩
                      rw [← hg]
                      have hnd1 : (g.addEdge arg inst (.arg i)).node? inst = some nd := hnd
                      rw [abs_setNode_same hnd1 (by simp [Node.abs, NodeKind.abs, hk])]
                      refine Abs.ext' rfl rfl ?_ ?_ ?_ rfl rfl rfl rfl rfl
                      · funext x k
                        show (if x = inst ∧ k = i then some arg else argOfE g.edges x k) =
                          argOfE (⟨arg, inst, .arg i⟩ :: g.edges) x k
                        rw [argOfE_cons]
                        by_cases hc : x = inst ∧ k = i
                        · obtain ⟨rfl, rfl⟩ := hc; simp
                        · have : ¬ ((⟨arg, inst, .arg i⟩ : Edge).dst = x ∧ (⟨arg, inst, .arg i⟩ : Edge).kind = .arg k) := by
                            rintro ⟨h1, h2⟩
                            simp only at h1 h2
                            cases h2
                            exact hc ⟨h1.symm, rfl⟩
                          rw [if_neg this, if_neg hc]
                      · funext t
                        show _ = aliasOfE (⟨arg, inst, .arg i⟩ :: g.edges) t
                        rw [aliasOfE_cons_nonalias rfl]
                        rfl
                      · show _ = (g.addEdge arg inst (.arg i)).hasDep
                        rw [hasDep_cons_nondep (g := g) (g' := g.addEdge arg inst (.arg i)) rfl (by simp)]
                        rfl
    · rename_i hk
      rw [abs_isInst_false (fun sat hs' => hk sat hs')]
      simp only [Bool.not_false, ↓reduceIte]
      cases hs; rfl

/-! ### `unset_instantiation_argument` -/

theorem scanConnecting_false {es : List Edge} {inst i : Nat} (h : scanConnecting es inst i = .ok false) :
    ∀ e ∈ es, ¬ (e.dst = inst ∧ e.kind = .arg i) := by
  induction es with
  | nil => intro e he; cases he
  | cons x r ih =>
    unfold scanConnecting at h
    intro e he
    split at h
    · rename_i hd
      split at h
      · rename_i j hk
        split at h
        · cases h
        · rename_i hji
          rcases List.mem_cons.mp he with rfl | he
          · rintro ⟨_, h2⟩; rw [hk] at h2; cases h2; exact hji rfl
          · exact ih h e he
      · cases h
    · rename_i hd
      rcases List.mem_cons.mp he with rfl | he
      · exact fun hc => hd hc.1
      · exact ih h e he

theorem abs_unsetArg {ctx : Ctx} {g g' : Graph} {inst arg : Nat} {name : Str} {out : Outcome}
    (h : Inv ctx g) (hs : unsetArg g inst name arg = (g', out)) (hp : out.isPanic = false) :
    specStep ctx g.fresh (abs g) (.unsetArg inst name arg) = (abs g', out) := by
  have hinv' : Inv ctx g' := inv_unsetArg h hs
  unfold unsetArg at hs
  simp only [specStep]
  split at hs
  · cases hs; cases hp
  · rename_i nd hnd
    rw [abs_node_some hnd]
    simp only
    split at hs
    · rename_i sat hk
      rw [abs_isInst_of_kind hk]
      simp only [Bool.not_true, Bool.false_eq_true, ↓reduceIte]
      split at hs
      · cases hs; cases hp
      · rename_i pid hpid
        split at hs
        · cases hs; cases hp
        · rename_i d hd
          obtain ⟨hip, hd'⟩ := instPkg_eq h hnd hpid hd
          rw [hip]
          simp only
          split at hs
          · rename_i hfull
            rw [hfull]; cases hs; rfl
          · rename_i i _ hfull
            rw [hfull]
            simp only
            split at hs
            · cases hs; cases hp
            · rename_i hscan
              -- not connected
              have hno : ¬ (abs g).arg inst i = some arg := by
                intro hc
                have hm := h.abs_arg.mp hc
                exact scanConnecting_false hscan _ (mem_outEdges.mpr ⟨hm, rfl⟩) ⟨rfl, rfl⟩
              rw [if_neg hno]
              cases hs; rfl
            · rename_i hscan
              obtain ⟨e, hem, hdst, hkind⟩ := scanConnecting_true hscan
              obtain ⟨hem1, hsrc⟩ := mem_outEdges.mp hem
              have hedge : (⟨arg, inst, .arg i⟩ : Edge) ∈ g.edges := by
                have : e = ⟨arg, inst, .arg i⟩ := by
                  cases e; simp only at hsrc hdst hkind; subst hsrc; subst hdst; subst hkind; rfl
                rw [← this]; exact hem1
              rw [if_pos (h.abs_arg.mpr hedge)]
              split at hs
              · cases hs; cases hp
              · simp only [Prod.mk.injEq] at hs ⊢
                obtain ⟨hg, ho⟩ := hs
                refine ⟨?_, ho⟩
                symm
                have hedges : g'.edges = g.edges.erase ⟨arg, inst, .arg i⟩ := by
                  rw [← hg]; simp [Graph.setNode, removeArgEdge_eq_erase]
                have hnodes : ∀ m, (g'.node? m).map Node.abs = (g.node? m).map Node.abs := by
                  intro m
                  rw [← hg]
                  show ((g.setNode inst { nd with kind := .instantiation (sat.erase i) }).node? m).map Node.abs = _
                  rw [node?_set (g := g) (g' := g.setNode inst { nd with kind := .instantiation (sat.erase i) }) rfl
                    (node?_eq_some_lt hnd) m]
                  by_cases hm : m = inst
                  · subst hm; simp [hnd, Node.abs, NodeKind.abs, hk]
                  · simp [hm]
                have hmem : ∀ e', e' ∈ g'.edges ↔ e' ∈ g.edges ∧ e' ≠ ⟨arg, inst, .arg i⟩ := by
                  intro e'
                  rw [hedges]
                  constructor
                  · intro hm
                    refine ⟨List.mem_of_mem_erase hm, fun e2 => ?_⟩
                    subst e2
                    exact no_key_after_erase hedge (key := (inst, i)) rfl h.argUnique _ hm rfl
                  · rintro ⟨hm, hne⟩
                    exact (List.mem_erase_of_ne hne).mpr hm
                apply abs_eq_of hinv'
                · rw [← hg]; simp [Graph.setNode, abs]
                · exact hnodes
                · intro x k s
                  rw [hmem]
                  simp only
                  by_cases hc : x = inst ∧ k = i
                  · obtain ⟨rfl, rfl⟩ := hc
                    simp only [and_self, ↓reduceIte, reduceCtorEq, iff_false, not_and, ne_eq, Decidable.not_not]
                    intro hm
                    have := argKey_inj h.argUnique hm hedge (k := (x, k)) rfl rfl
                    exact this
                  · rw [if_neg hc, h.abs_arg]
                    constructor
                    · exact fun hm => hm.1
                    · intro hm
                      refine ⟨hm, fun e2 => ?_⟩
                      cases e2
                      exact hc ⟨rfl, rfl⟩
                · intro t s j
                  rw [hmem, h.abs_alias]
                  exact ⟨fun hm => hm.1, fun hm => ⟨hm, by simp⟩⟩
                · intro x y
                  rw [hmem, abs_dep]
                  exact ⟨fun hm => hm.1, fun hm => ⟨hm, by simp⟩⟩
                · intro nm n
                  rw [h.abs_exports, ← hg]; rfl
                · intro nm n
                  rw [h.abs_imports, ← hg]; rfl
                · intro ty n
                  rw [h.abs_defined, ← hg]; rfl
                · intro id
                  rw [← hg]; rfl
                · intro k
                  rw [← hg]; rfl
    · rename_i hk
      rw [abs_isInst_false (fun sat hs' => hk sat hs')]
      simp only [Bool.not_false, ↓reduceIte]
      cases hs; rfl

end Wac.Graph
