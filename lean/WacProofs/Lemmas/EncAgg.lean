import WacProofs.Lemmas.Aggregate
import WacProofs.Lemmas.NameMap
import WacProofs.Lemmas.VersionInj
/-
  The name-level aggregator model (`Agg.aggregate`) along import resolution: the invariant
  that makes `agg.canonical` the specification's `Spec.canon`.

  `AInv imps reds P` — for the import table `imps`, the redirect table `reds` and the list `P`
  of `(name, kind)` pairs aggregated so far:
  * the import names are distinct and there is one per semver track;
  * a redirect leads from a name that is not imported to an imported name of the same track
    that is not lower in version;
  * every import name is an aggregated name;
  * every aggregated name resolves (`canonical`) to an import of its kind.
-/
namespace Wac
open Wac.Spec

/-! ### association-list facts -/

theorem amGet_append' {β} (l l' : List (Str × β)) (k : Str) :
    amGet (l ++ l') k = match amGet l k with | some v => some v | none => amGet l' k := by
  induction l with
  | nil => simp [amGet]
  | cons e l ih =>
    simp only [List.cons_append, amGet_cons']
    by_cases h : e.1 = k
    · simp [h]
    · simp [h, ih]

theorem amGet_filter_ne {β} (l : List (Str × β)) (x k : Str) (h : k ≠ x) :
    amGet (l.filter fun e => e.1 != x) k = amGet l k := by
  induction l with
  | nil => rfl
  | cons e l ih =>
    by_cases he : e.1 = x
    · rw [List.filter_cons_of_neg (by simp [he]), amGet_cons', ih]
      have : ¬ e.1 = k := fun ek => h (ek ▸ he)
      simp [this]
    · rw [List.filter_cons_of_pos (by simpa using he), amGet_cons', amGet_cons', ih]

theorem amGet_some_of_mem_keys {β} {m : List (Str × β)} {k : Str} (h : k ∈ m.map (·.1)) :
    ∃ v, amGet m k = some v := by
  cases hq : amGet m k with
  | some v => exact ⟨v, rfl⟩
  | none => exact absurd h (amGet_none_not_mem hq)

theorem amGet_mem_keys {β} {m : List (Str × β)} {k : Str} {v : β} (h : amGet m k = some v) : k ∈ m.map (·.1) :=
  List.mem_map.mpr ⟨(k, v), amGet_mem h, rfl⟩

/-- the re-pointing of `name_redirects` when an import is superseded -/
theorem amGet_repoint (reds : List (Str × Str)) (ex name q : Str) :
    amGet (reds.map fun (k, v) => if v == ex then (k, name) else (k, v)) q =
      (amGet reds q).map fun v => if v == ex then name else v := by
  induction reds with
  | nil => rfl
  | cons e reds ih =>
    obtain ⟨k, v⟩ := e
    simp only [List.map_cons]
    by_cases hv : v = ex
    · subst hv
      simp only [beq_self_eq_true, ↓reduceIte, amGet_cons', ih]
      by_cases hk : k = q <;> simp [hk]
    · have : (v == ex) = false := by simpa using hv
      simp only [this, Bool.false_eq_true, ↓reduceIte, amGet_cons', ih]
      by_cases hk : k = q <;> simp [hk, this, hv]

/-! ### version order -/

theorem vlt_false_iff (a b : Version) : a.lt b = false ↔ b.key ≤ a.key := by
  rw [← not_vlt_iff]; simp

theorem vlt_asymm {a b : Version} (h : a.lt b = true) : b.lt a = false := by
  rw [vlt_false_iff]; exact le_of_lt ((vlt_iff _ _).mp h)

theorem vlt_false_trans {e k n : Version} (h1 : e.lt k = false) (h2 : e.lt n = true) : n.lt k = false := by
  rw [vlt_false_iff] at h1 ⊢
  exact le_of_lt (lt_of_le_of_lt h1 ((vlt_iff _ _).mp h2))

theorem vlt_false_trans' {a b c : Version} (h1 : b.lt a = false) (h2 : c.lt b = false) : c.lt a = false := by
  rw [vlt_false_iff] at h1 h2 ⊢
  exact le_trans h1 h2

/-! ### tracks by `alternate_lookup_key` -/

/-- `a` and `b` have the same `alternate_lookup_key` string -/
def SameTrack (a b : Str) : Prop := ∃ k va vb, altKey a = some (k, va) ∧ altKey b = some (k, vb)

theorem SameTrack.symm {a b : Str} (h : SameTrack a b) : SameTrack b a := by
  obtain ⟨k, va, vb, h1, h2⟩ := h; exact ⟨k, vb, va, h2, h1⟩

theorem SameTrack.trans {a b c : Str} (h : SameTrack a b) (h' : SameTrack b c) : SameTrack a c := by
  obtain ⟨k, va, vb, h1, h2⟩ := h
  obtain ⟨k', vb', vc, h3, h4⟩ := h'
  rw [h2] at h3
  injection h3 with h3
  injection h3 with h3 h5
  subst h3
  exact ⟨k, va, vc, h1, h4⟩

theorem findCompat_some {a : Agg} {name ex : Str} {ty : ItemTy} (h : a.findCompat name = some (ex, ty)) :
    (ex, ty) ∈ a.imports ∧ SameTrack name ex := by
  unfold Agg.findCompat at h
  cases hk : altKey name with
  | none => simp [hk] at h
  | some kv =>
    obtain ⟨k, v⟩ := kv
    simp only [hk] at h
    have hm := List.mem_of_find?_eq_some h
    have hp := List.find?_some h
    refine ⟨hm, ?_⟩
    simp only at hp
    cases hk' : altKey ex with
    | none => simp [hk'] at hp
    | some kv' =>
      obtain ⟨k', v'⟩ := kv'
      simp only [hk', beq_iff_eq] at hp
      subst hp
      exact ⟨k', v, v', hk, hk'⟩

theorem findCompat_none {a : Agg} {name : Str} (h : a.findCompat name = none) :
    ∀ e ∈ a.imports, ¬ SameTrack name e.1 := by
  intro e he ⟨k, va, vb, h1, h2⟩
  unfold Agg.findCompat at h
  simp only [h1] at h
  have := List.find?_eq_none.mp h e he
  simp [h2] at this

/-! ### the invariant -/

def canonicalOf (reds : List (Str × Str)) (name : Str) : Str := (amGet reds name).getD name

theorem canonical_eq (a : Agg) (n : Str) : a.canonical n = canonicalOf a.redirects n := rfl

structure AInv (imps : List (Str × ItemTy)) (reds : List (Str × Str)) (P : List (Str × Kind)) : Prop where
  nodup : (imps.map (·.1)).Nodup
  one : ∀ e1 ∈ imps, ∀ e2 ∈ imps, SameTrack e1.1 e2.1 → e1.1 = e2.1
  red : ∀ k v, amGet reds k = some v → v ∈ imps.map (·.1) ∧ k ∉ imps.map (·.1) ∧
      ∃ κ vk vv, altKey k = some (κ, vk) ∧ altKey v = some (κ, vv) ∧ vv.lt vk = false
  keysP : ∀ e ∈ imps, e.1 ∈ P.map (·.1)
  proc : ∀ p ∈ P, ∃ ty, amGet imps (canonicalOf reds p.1) = some ty ∧ ty.kind = p.2

theorem AInv.init : AInv [] [] [] :=
  ⟨by simp, by simp, by simp [amGet], by simp, by simp⟩

theorem AInv.redirect_target {imps reds P} (h : AInv imps reds P) {k v : Str} (hr : amGet reds k = some v) :
    SameTrack k v := by
  obtain ⟨_, _, κ, vk, vv, h1, h2, _⟩ := h.red k v hr
  exact ⟨κ, vk, vv, h1, h2⟩

/-- a key is not redirected -/
theorem AInv.key_not_redirected {imps reds P} (h : AInv imps reds P) {k : Str} (hk : k ∈ imps.map (·.1)) :
    amGet reds k = none := by
  cases hq : amGet reds k with
  | none => rfl
  | some v => exact absurd hk (h.red k v hq).2.1

theorem AInv.canonical_key {imps reds P} (h : AInv imps reds P) {k : Str} (hk : k ∈ imps.map (·.1)) :
    canonicalOf reds k = k := by
  simp [canonicalOf, h.key_not_redirected hk]

/-- the redirect of a name on the track of key `ex` leads to `ex` -/
theorem AInv.redirect_eq {imps reds P} (h : AInv imps reds P) {k v ex : Str} (hr : amGet reds k = some v)
    (hex : ex ∈ imps.map (·.1)) (hs : SameTrack k ex) : v = ex := by
  obtain ⟨hv, _, _⟩ := h.red k v hr
  obtain ⟨e1, he1, rfl⟩ := List.mem_map.mp hv
  obtain ⟨e2, he2, rfl⟩ := List.mem_map.mp hex
  exact h.one e1 he1 e2 he2 ((h.redirect_target hr).symm.trans hs)

theorem mem_P_append {P : List (Str × Kind)} {x : Str} {q : Str × Kind} (h : x ∈ P.map (·.1)) :
    x ∈ (P ++ [q]).map (·.1) := by
  simp only [List.map_append, List.mem_append]; exact Or.inl h

/-- the name is already imported, with the same kind -/
theorem AInv.exact {imps reds P} (h : AInv imps reds P) {name : Str} {ex : ItemTy} {kd : Kind}
    (hq : amGet imps name = some ex) (hk : ex.kind = kd) : AInv imps reds (P ++ [(name, kd)]) := by
  refine ⟨h.nodup, h.one, h.red, fun e he => mem_P_append (h.keysP e he), ?_⟩
  intro p hp
  rcases List.mem_append.mp hp with hp | hp
  · exact h.proc p hp
  · simp only [List.mem_singleton] at hp
    subst hp
    exact ⟨ex, by rw [h.canonical_key (amGet_mem_keys hq)]; exact hq, hk⟩

/-- a name on no track of an imported name: appended -/
theorem AInv.fresh {imps reds P} (h : AInv imps reds P) {name : Str} {ty : ItemTy}
    (hq : amGet imps name = none) (hno : ∀ e ∈ imps, ¬ SameTrack name e.1) :
    AInv (imps ++ [(name, ty)]) reds (P ++ [(name, ty.kind)]) := by
  have hnm : name ∉ imps.map (·.1) := amGet_none_not_mem hq
  have hred : amGet reds name = none := by
    cases hr : amGet reds name with
    | none => rfl
    | some v =>
      exfalso
      obtain ⟨hv, _, _⟩ := h.red name v hr
      obtain ⟨e, he, rfl⟩ := List.mem_map.mp hv
      exact hno e he (h.redirect_target hr)
  refine ⟨?_, ?_, ?_, ?_, ?_⟩
  · simp only [List.map_append, List.map_cons, List.map_nil]
    exact List.nodup_append.mpr ⟨h.nodup, by simp, by
      intro x hx y hy
      simp only [List.mem_singleton] at hy
      subst hy
      exact fun e => hnm (e ▸ hx)⟩
  · intro e1 he1 e2 he2 hs
    rcases List.mem_append.mp he1 with h1 | h1 <;> rcases List.mem_append.mp he2 with h2 | h2
    · exact h.one e1 h1 e2 h2 hs
    · simp only [List.mem_singleton] at h2; subst h2
      exact absurd hs.symm (hno e1 h1)
    · simp only [List.mem_singleton] at h1; subst h1
      exact absurd hs (hno e2 h2)
    · simp only [List.mem_singleton] at h1 h2; subst h1 h2; rfl
  · intro k v hr
    obtain ⟨hv, hk, rest⟩ := h.red k v hr
    refine ⟨by simp only [List.map_append, List.mem_append]; exact Or.inl hv, ?_, rest⟩
    simp only [List.map_append, List.map_cons, List.map_nil, List.mem_append, List.mem_singleton, not_or]
    refine ⟨hk, ?_⟩
    rintro rfl
    rw [hred] at hr; cases hr
  · intro e he
    rcases List.mem_append.mp he with h1 | h1
    · exact mem_P_append (h.keysP e h1)
    · simp only [List.mem_singleton] at h1; subst h1; simp
  · intro p hp
    rcases List.mem_append.mp hp with hp | hp
    · obtain ⟨ty0, h1, h2⟩ := h.proc p hp
      exact ⟨ty0, by rw [amGet_append', h1], h2⟩
    · simp only [List.mem_singleton] at hp
      subst hp
      refine ⟨ty, ?_, rfl⟩
      simp only [canonicalOf, hred, Option.getD_none]
      rw [amGet_append', hq]
      simp [amGet]

/-- a name on the track of the imported name `ex`, not higher: redirected to `ex` -/
theorem AInv.redirect {imps reds P} (h : AInv imps reds P) {name ex : Str} {exTy : ItemTy} {κ : Str} {nv ev : Version}
    {kd : Kind} (hq : amGet imps name = none) (hm : (ex, exTy) ∈ imps)
    (hkn : altKey name = some (κ, nv)) (hke : altKey ex = some (κ, ev)) (hlt : ev.lt nv = false)
    (hkind : exTy.kind = kd) :
    AInv imps (amInsert reds name ex) (P ++ [(name, kd)]) := by
  have hnm : name ∉ imps.map (·.1) := amGet_none_not_mem hq
  have hexk : ex ∈ imps.map (·.1) := List.mem_map.mpr ⟨_, hm, rfl⟩
  have hst : SameTrack name ex := ⟨κ, nv, ev, hkn, hke⟩
  have hget : amGet imps ex = some exTy := amGet_of_mem_nodup h.nodup hm
  -- the lookups that change
  have hcan : ∀ q, canonicalOf (amInsert reds name ex) q = if name = q then ex else canonicalOf reds q := by
    intro q
    simp only [canonicalOf, amGet_amInsert']
    by_cases hn : name = q <;> simp [hn]
  refine ⟨h.nodup, h.one, ?_, fun e he => mem_P_append (h.keysP e he), ?_⟩
  · intro k v hr
    rw [amGet_amInsert'] at hr
    by_cases hn : name = k
    · subst hn
      simp only [↓reduceIte, Option.some.injEq] at hr
      subst hr
      exact ⟨hexk, hnm, κ, nv, ev, hkn, hke, hlt⟩
    · simp only [hn, ↓reduceIte] at hr
      exact h.red k v hr
  · intro p hp
    rcases List.mem_append.mp hp with hp | hp
    · obtain ⟨ty0, h1, h2⟩ := h.proc p hp
      rw [hcan]
      by_cases hn : name = p.1
      · simp only [hn, ↓reduceIte]
        -- the old resolution of `name` was `ex` already
        have : canonicalOf reds p.1 = ex := by
          cases hr : amGet reds p.1 with
          | none =>
            exfalso
            simp only [canonicalOf, hr, Option.getD_none] at h1
            rw [← hn, hq] at h1; cases h1
          | some v =>
            simp only [canonicalOf, hr, Option.getD_some]
            exact h.redirect_eq hr hexk (hn ▸ hst)
        rw [this] at h1
        exact ⟨ty0, h1, h2⟩
      · simp only [hn, ↓reduceIte]
        exact ⟨ty0, h1, h2⟩
    · simp only [List.mem_singleton] at hp
      subst hp
      refine ⟨exTy, ?_, hkind⟩
      rw [hcan]; simp [hget]

/-- a name on the track of the imported name `ex`, strictly higher: `ex` is superseded -/
theorem AInv.rename {imps reds P} (h : AInv imps reds P) {name ex : Str} {exTy exTy' : ItemTy} {κ : Str}
    {nv ev : Version} {kd : Kind} (hq : amGet imps name = none) (hm : (ex, exTy) ∈ imps)
    (hkn : altKey name = some (κ, nv)) (hke : altKey ex = some (κ, ev)) (hlt : ev.lt nv = true)
    (hkind0 : exTy.kind = kd) (hkind : exTy'.kind = kd) :
    AInv ((imps.filter fun e => e.1 != ex) ++ [(name, exTy')])
      (amInsert (reds.map fun (k, v) => if v == ex then (k, name) else (k, v)) ex name) (P ++ [(name, kd)]) := by
  have hnm : name ∉ imps.map (·.1) := amGet_none_not_mem hq
  have hexk : ex ∈ imps.map (·.1) := List.mem_map.mpr ⟨_, hm, rfl⟩
  have hne : ex ≠ name := fun e => hnm (e ▸ hexk)
  have hne' : name ≠ ex := fun e => hne e.symm
  have hst : SameTrack name ex := ⟨κ, nv, ev, hkn, hke⟩
  have hget : amGet imps ex = some exTy := amGet_of_mem_nodup h.nodup hm
  have hredname : amGet reds name = none := by
    cases hr : amGet reds name with
    | none => rfl
    | some v =>
      exfalso
      have hv : v = ex := h.redirect_eq hr hexk hst
      subst hv
      obtain ⟨_, _, κ0, vk, vv, h1, h2, h3⟩ := h.red name v hr
      rw [hkn] at h1; injection h1 with h1; injection h1 with h1 h1'
      subst h1 h1'
      rw [hke] at h2; injection h2 with h2; injection h2 with _ h2'
      subst h2'
      rw [hlt] at h3; cases h3
  have hsub : ∀ e, e ∈ (imps.filter fun e => e.1 != ex) ↔ e ∈ imps ∧ e.1 ≠ ex := by
    intro e; simp [List.mem_filter]
  have hkeys : ∀ x, x ∈ ((imps.filter fun e => e.1 != ex) ++ [(name, exTy')]).map (·.1) ↔
      (x ∈ imps.map (·.1) ∧ x ≠ ex) ∨ x = name := by
    intro x
    simp only [List.map_append, List.mem_append, List.mem_map, hsub, List.map_cons, List.map_nil,
      List.mem_singleton]
    constructor
    · rintro (⟨e, ⟨he, hne⟩, rfl⟩ | h1)
      · exact Or.inl ⟨⟨e, he, rfl⟩, hne⟩
      · exact Or.inr h1
    · rintro (⟨⟨e, he, rfl⟩, hne⟩ | h1)
      · exact Or.inl ⟨e, ⟨he, hne⟩, rfl⟩
      · exact Or.inr h1
  have hfiltname : amGet (imps.filter fun e => e.1 != ex) name = none := by
    rw [amGet_filter_ne _ _ _ hne', hq]
  have hlook_name : amGet ((imps.filter fun e => e.1 != ex) ++ [(name, exTy')]) name = some exTy' := by
    rw [amGet_append', hfiltname]; simp [amGet]
  have hlook_old : ∀ q, q ≠ ex → q ≠ name →
      amGet ((imps.filter fun e => e.1 != ex) ++ [(name, exTy')]) q = amGet imps q := by
    intro q h1 h2
    rw [amGet_append', amGet_filter_ne _ _ _ h1]
    cases amGet imps q with
    | some v => rfl
    | none =>
      have : ¬ name = q := fun e => h2 e.symm
      simp [amGet, this]
  have hreds : ∀ q, amGet (amInsert (reds.map fun (k, v) => if v == ex then (k, name) else (k, v)) ex name) q =
      if ex = q then some name else (amGet reds q).map fun v => if v == ex then name else v := by
    intro q
    rw [amGet_amInsert', amGet_repoint]
  refine ⟨?_, ?_, ?_, ?_, ?_⟩
  · simp only [List.map_append, List.map_cons, List.map_nil]
    have hs : ((imps.filter fun e => e.1 != ex).map (·.1)).Sublist (imps.map (·.1)) := (List.filter_sublist).map _
    refine List.nodup_append.mpr ⟨hs.nodup h.nodup, by simp, ?_⟩
    intro x hx y hy
    simp only [List.mem_singleton] at hy
    subst hy
    exact fun e => hnm (e ▸ hs.subset hx)
  · intro e1 he1 e2 he2 hs
    rcases List.mem_append.mp he1 with h1 | h1 <;> rcases List.mem_append.mp he2 with h2 | h2
    · exact h.one e1 ((hsub e1).mp h1).1 e2 ((hsub e2).mp h2).1 hs
    · simp only [List.mem_singleton] at h2; subst h2
      exfalso
      have := h.one e1 ((hsub e1).mp h1).1 (ex, exTy) hm (hs.trans hst)
      exact ((hsub e1).mp h1).2 this
    · simp only [List.mem_singleton] at h1; subst h1
      exfalso
      have := h.one e2 ((hsub e2).mp h2).1 (ex, exTy) hm (hs.symm.trans hst)
      exact ((hsub e2).mp h2).2 this
    · simp only [List.mem_singleton] at h1 h2; subst h1 h2; rfl
  · intro k v hr
    rw [hreds] at hr
    by_cases hk : ex = k
    · subst hk
      simp only [↓reduceIte, Option.some.injEq] at hr
      subst hr
      refine ⟨(hkeys _).mpr (Or.inr rfl), ?_, κ, ev, nv, hke, hkn, vlt_asymm hlt⟩
      intro hmem
      rcases (hkeys _).mp hmem with ⟨_, h2⟩ | h2
      · exact h2 rfl
      · exact hne h2
    · simp only [hk, ↓reduceIte] at hr
      cases hr0 : amGet reds k with
      | none => simp [hr0] at hr
      | some v0 =>
        simp only [hr0, Option.map_some, Option.some.injEq] at hr
        obtain ⟨hv0, hk0, κ0, vk, vv, a1, a2, a3⟩ := h.red k v0 hr0
        have hkname : k ≠ name := by
          rintro rfl
          rw [hredname] at hr0; cases hr0
        have hknot : k ∉ ((imps.filter fun e => e.1 != ex) ++ [(name, exTy')]).map (·.1) := by
          intro hmem
          rcases (hkeys _).mp hmem with ⟨h1, _⟩ | h1
          · exact hk0 h1
          · exact hkname h1
        by_cases hv : v0 = ex
        · subst hv
          simp only [beq_self_eq_true, ↓reduceIte] at hr
          subst hr
          rw [hke] at a2; injection a2 with a2; injection a2 with a2 a2'
          subst a2 a2'
          exact ⟨(hkeys _).mpr (Or.inr rfl), hknot, κ, vk, nv, a1, hkn, vlt_false_trans a3 hlt⟩
        · have : (v0 == ex) = false := by simpa using hv
          simp only [this, Bool.false_eq_true, ↓reduceIte] at hr
          subst hr
          exact ⟨(hkeys _).mpr (Or.inl ⟨hv0, hv⟩), hknot, κ0, vk, vv, a1, a2, a3⟩
  · intro e he
    rcases List.mem_append.mp he with h1 | h1
    · exact mem_P_append (h.keysP e ((hsub e).mp h1).1)
    · simp only [List.mem_singleton] at h1; subst h1; simp
  · -- every aggregated name still resolves to an import of its kind
    have hcan : ∀ q, canonicalOf (amInsert (reds.map fun (k, v) => if v == ex then (k, name) else (k, v)) ex name) q =
        if canonicalOf reds q = ex then name else canonicalOf reds q := by
      intro q
      have hL : canonicalOf (amInsert (reds.map fun (k, v) => if v == ex then (k, name) else (k, v)) ex name) q =
          (if ex = q then some name else (amGet reds q).map fun v => if v == ex then name else v).getD q := by
        simp only [canonicalOf, hreds]
      rw [hL]
      by_cases hk : ex = q
      · subst hk
        rw [h.canonical_key hexk]; simp
      · have hk' : ¬ q = ex := fun e => hk e.symm
        cases hr0 : amGet reds q with
        | none =>
          have hc : canonicalOf reds q = q := by simp [canonicalOf, hr0]
          rw [hc]; simp [hk, hk']
        | some v0 =>
          have hc : canonicalOf reds q = v0 := by simp [canonicalOf, hr0]
          rw [hc]
          by_cases hv : v0 = ex
          · simp [hk, hv]
          · simp [hk, hv]
    intro p hp
    rcases List.mem_append.mp hp with hp | hp
    · obtain ⟨ty0, h1, h2⟩ := h.proc p hp
      rw [hcan]
      by_cases hc : canonicalOf reds p.1 = ex
      · simp only [hc, ↓reduceIte]
        rw [hc, hget] at h1
        injection h1 with h1
        subst h1
        exact ⟨exTy', hlook_name, by rw [hkind, ← hkind0, h2]⟩
      · simp only [hc, ↓reduceIte]
        have hcn : canonicalOf reds p.1 ≠ name := by
          intro e
          rw [e, hq] at h1; cases h1
        exact ⟨ty0, by rw [hlook_old _ hc hcn]; exact h1, h2⟩
    · simp only [List.mem_singleton] at hp
      subst hp
      refine ⟨exTy', ?_, hkind⟩
      rw [hcan]
      have : canonicalOf reds name = name := by simp [canonicalOf, hredname]
      simp only [this, hne', ↓reduceIte]
      exact hlook_name

/-- one `aggregate` call keeps the invariant and records the pair -/
theorem aggregate_inv {a a' : Agg} {name : Str} {ty : ItemTy} {P : List (Str × Kind)}
    (h : AInv a.imports a.redirects P) (ha : a.aggregate name ty = some a') :
    AInv a'.imports a'.redirects (P ++ [(name, ty.kind)]) := by
  unfold Agg.aggregate at ha
  simp only at ha
  have hi : (a.register ty).imports = a.imports := rfl
  have hr : (a.register ty).redirects = a.redirects := rfl
  cases hq : amGet (a.register ty).imports name with
  | some ex =>
    simp only [hq] at ha
    split at ha
    · rename_i hk
      injection ha with ha; subst ha
      rw [hi] at hq ⊢; rw [hr]
      exact h.exact hq hk
    · cases ha
  | none =>
    simp only [hq] at ha
    rw [hi] at hq
    cases hc : (a.register ty).findCompat name with
    | none =>
      simp only [hc] at ha
      injection ha with ha; subst ha
      have := findCompat_none hc
      rw [hi] at this
      simp only [hi, hr]
      exact h.fresh hq this
    | some pr =>
      obtain ⟨exName, exTy⟩ := pr
      simp only [hc] at ha
      obtain ⟨hm, κ, nv, ev, hkn, hke⟩ := findCompat_some hc
      rw [hi] at hm
      split at ha
      · cases ha
      · rename_i hkind
        have hkind : exTy.kind = ty.kind := by simpa using hkind
        simp only [hkn, hke] at ha
        split at ha
        · rename_i hlt
          injection ha with ha; subst ha
          simp only [hi, hr]
          refine h.rename hq hm hkn hke hlt hkind ?_
          split <;> simp [hkind]
        · rename_i hlt
          injection ha with ha; subst ha
          simp only [hi, hr]
          exact h.redirect hq hm hkn hke (by simpa using hlt) hkind

end Wac
