import WacModel.Parser
/-
  Small facts about single parse functions, obtained by unfolding the `Except` do-blocks.
-/
namespace Wac.Lemmas.ParserBasic
open Wac Wac.Lex Wac.Parse Wac.Ast

/-- unfold one parse function in `h : parseX … = .ok …` and split every `match`/`if` -/
syntax "parse_cases " ident " with " ident,+ : tactic
macro_rules
  | `(tactic| parse_cases $h with $[$ds],*) =>
    `(tactic| (simp only [$[$ds:ident],*, bind, Except.bind] at $h:ident
               repeat' split at $h:ident
               all_goals (try contradiction)
               all_goals (try simp at $h:ident)))

theorem record_nonempty {fuel st d st'} (h : parseRecordDecl fuel st = .ok (d, st')) : d.fields ≠ [] := by
  parse_cases h with parseRecordDecl
  rename_i hne
  obtain ⟨rfl, _⟩ := h
  intro hnil
  simp only at hnil
  exact hne (by simp [hnil])

theorem variant_nonempty {fuel st d st'} (h : parseVariantDecl fuel st = .ok (d, st')) : d.cases ≠ [] := by
  parse_cases h with parseVariantDecl
  rename_i hne
  obtain ⟨rfl, _⟩ := h
  intro hnil
  simp only at hnil
  exact hne (by simp [hnil])

theorem flags_nonempty {fuel st d st'} (h : parseFlagsDecl fuel st = .ok (d, st')) : d.flags ≠ [] := by
  parse_cases h with parseFlagsDecl
  rename_i hne
  obtain ⟨rfl, _⟩ := h
  intro hnil
  simp only at hnil
  exact hne (by simp [hnil])

theorem enum_nonempty {fuel st d st'} (h : parseEnumDecl fuel st = .ok (d, st')) : d.cases ≠ [] := by
  parse_cases h with parseEnumDecl
  rename_i hne
  obtain ⟨rfl, _⟩ := h
  intro hnil
  simp only at hnil
  exact hne (by simp [hnil])

theorem tuple_nonempty {fuel st ts sp st'} (h : parseType fuel st = .ok (.Tuple ts sp, st')) : ts ≠ [] := by
  cases fuel with
  | zero => simp [parseType] at h
  | succ fuel =>
    parse_cases h with parseType
    obtain ⟨⟨rfl, _⟩, _⟩ := h
    intro hn
    simp_all

/-- a delimited list that does not start at its closing token has at least one element -/
theorem delimited_nonempty {α} {stop : Token} {commas : Bool} {peeks : List Token} {item : PState → PR α}
    {fuel : Nat} {st st' : PState} {xs : List α}
    (h : parseDelimited stop commas peeks item fuel st = .ok (xs, st')) (hs : peekIs st stop = false) :
    xs ≠ [] := by
  cases fuel with
  | zero => simp [parseDelimited] at h
  | succ fuel =>
    simp only [parseDelimited, hs] at h
    repeat' split at h
    all_goals (try contradiction)
    all_goals (try simp at h)
    all_goals (obtain ⟨rfl, _⟩ := h; simp)

end Wac.Lemmas.ParserBasic
