import WacProofs.Lemmas.GraphInvRemove
/-
  `remove_node` (the recursive cascade) preserves `Inv`.
-/
namespace Wac.Graph
open Wac Wac.HashSites

/-- nothing appears: edges and live slots of `g'` are edges and live slots of `g` -/
def Shrinks (g g' : Graph) : Prop :=
  (∀ e ∈ g'.edges, e ∈ g.edges) ∧ (∀ m x', g'.node? m = some x' → ∃ x, g.node? m = some x)

theorem Shrinks.refl (g : Graph) : Shrinks g g := ⟨fun _ h => h, fun _ x h => ⟨x, h⟩⟩

theorem Shrinks.trans {a b c : Graph} (h1 : Shrinks a b) (h2 : Shrinks b c) : Shrinks a c :=
  ⟨fun e he => h1.1 e (h2.1 e he), fun m x hx => let ⟨y, hy⟩ := h2.2 m x hx; h1.2 m y hy⟩

theorem Shrinks.dead {g g' : Graph} (h : Shrinks g g') {m : Nat} (hm : g.node? m = none) : g'.node? m = none := by
  cases hq : g'.node? m with
  | none => rfl
  | some x => obtain ⟨y, hy⟩ := h.2 m x hq; rw [hm] at hy; cases hy

theorem Removed.shrinks {g g' : Graph} {n : Nat} {nd : Node} (r : Removed g g' n nd) : Shrinks g g' := by
  refine ⟨?_, fun m x' hx' => (r.noNew m x' hx').2⟩
  intro e he
  rw [r.edges] at he
  exact (List.mem_filter.mp he).1

/-- `detachNode` on a consistent graph whose node `n` has no outgoing alias edge -/
theorem inv_detach {ctx : Ctx} {g g' : Graph} {n : Nat} (h : Inv ctx g)
    (hnoalias : ∀ e ∈ g.edges, e.src = n → e.kind.isAlias = false)
    (hd : detachNode .fixed g n = (g', none)) : Inv ctx g' ∧ g'.node? n = none ∧ Shrinks g g' := by
  -- the node is live, otherwise `rawRemove` fails
  obtain ⟨g0, nd0, g1, hc, hr, _⟩ := detach_eq hd
  have c := clearSatEdges_spec _ _ _ _ hc
  cases hq : g.node? n with
  | none =>
    exfalso
    unfold Graph.rawRemove at hr
    rw [c.node n, hq] at hr
    simp at hr
  | some nd =>
    have r := detach_removed h hq hd
    exact ⟨inv_removed h hq hnoalias r, r.gone, r.shrinks⟩

/-- the step of the cascade loop -/
def cascadeStep (fuel : Nat) (acc : Graph × Option Site) (t : Nat) : Graph × Option Site :=
  match acc with
  | (g, some s) => (g, some s)
  | (g, none) => if Legacy.fixed.doubleRemove || g.live t then removeNodeAux .fixed fuel g t else (g, none)

theorem cascade_some (fuel : Nat) (g : Graph) (s : Site) :
    ∀ ts : List Nat, ts.foldl (cascadeStep fuel) (g, some s) = (g, some s)
  | [] => rfl
  | _ :: r => by simp only [List.foldl_cons, cascadeStep]; exact cascade_some fuel g s r

theorem removeNodeAux_succ (fuel : Nat) (g : Graph) (n : Nat) :
    removeNodeAux .fixed (fuel + 1) g n =
      match (cascadeTargets (g.outEdges n)).foldl (cascadeStep fuel) (g, none) with
      | (g', some s) => (g', some s)
      | (g', none) => detachNode .fixed g' n := rfl

/-- what one level of the recursion guarantees -/
def Level (ctx : Ctx) (fuel : Nat) : Prop :=
  ∀ g n g', Inv ctx g → removeNodeAux .fixed fuel g n = (g', none) →
    Inv ctx g' ∧ g'.node? n = none ∧ Shrinks g g'

theorem cascade_loop {ctx : Ctx} {fuel : Nat} (ih : Level ctx fuel) :
    ∀ (ts : List Nat) (g gA : Graph), Inv ctx g → ts.foldl (cascadeStep fuel) (g, none) = (gA, none) →
      Inv ctx gA ∧ Shrinks g gA ∧ ∀ t ∈ ts, gA.node? t = none
  | [], g, gA, h, hf => by
    simp only [List.foldl_nil, Prod.mk.injEq, and_true] at hf
    subst hf
    exact ⟨h, Shrinks.refl _, fun _ ht => by cases ht⟩
  | t :: r, g, gA, h, hf => by
    simp only [List.foldl_cons] at hf
    -- the first target
    cases hstep : cascadeStep fuel (g, none) t with
    | mk g1 o =>
      rw [hstep] at hf
      cases o with
      | some s => rw [cascade_some] at hf; cases hf
      | none =>
        have h1 : Inv ctx g1 ∧ g1.node? t = none ∧ Shrinks g g1 := by
          unfold cascadeStep at hstep
          simp only [Legacy.fixed, Bool.false_or] at hstep
          split at hstep
          · exact ih g t g1 h hstep
          · rename_i hl
            simp only [Prod.mk.injEq, and_true] at hstep
            subst hstep
            refine ⟨h, ?_, Shrinks.refl _⟩
            unfold Graph.live at hl
            cases hq : g.node? t with
            | none => rfl
            | some x => simp [hq] at hl
        obtain ⟨k1, k2, k3⟩ := cascade_loop ih r g1 gA h1.1 hf
        refine ⟨k1, h1.2.2.trans k2, ?_⟩
        intro t' ht'
        rcases List.mem_cons.mp ht' with rfl | ht'
        · exact k2.dead h1.2.1
        · exact k3 t' ht'

theorem mem_cascadeTargets {es : List Edge} {t : Nat} :
    t ∈ cascadeTargets es ↔ ∃ e ∈ es, e.dst = t ∧ e.kind.isArg = false := by
  unfold cascadeTargets
  rw [List.mem_filterMap]
  constructor
  · rintro ⟨e, he, hk⟩
    refine ⟨e, he, ?_⟩
    cases hkk : e.kind <;> rw [hkk] at hk <;> simp_all [EdgeKind.isArg]
  · rintro ⟨e, he, hd, hk⟩
    refine ⟨e, he, ?_⟩
    cases hkk : e.kind <;> simp_all [EdgeKind.isArg]

theorem level_all (ctx : Ctx) : ∀ fuel, Level ctx fuel
  | 0 => by
    intro g n g' _ hr
    simp [removeNodeAux] at hr
  | fuel + 1 => by
    intro g n g' h hr
    rw [removeNodeAux_succ] at hr
    cases hloop : (cascadeTargets (g.outEdges n)).foldl (cascadeStep fuel) (g, none) with
    | mk gA o =>
      rw [hloop] at hr
      cases o with
      | some s => simp at hr
      | none =>
        simp only at hr
        obtain ⟨hA, hsh, hdead⟩ := cascade_loop (level_all ctx fuel) _ g gA h hloop
        -- in `gA` the node has no outgoing alias edge: its alias targets are gone
        have hnoalias : ∀ e ∈ gA.edges, e.src = n → e.kind.isAlias = false := by
          intro e he hsrc
          cases hk : e.kind with
          | alias j =>
            exfalso
            have he0 : e ∈ g.outEdges n := by
              unfold Graph.outEdges
              rw [List.mem_filter]; exact ⟨hsh.1 e he, by simpa using hsrc⟩
            have ht : e.dst ∈ cascadeTargets (g.outEdges n) :=
              mem_cascadeTargets.mpr ⟨e, he0, rfl, by simp [hk, EdgeKind.isArg]⟩
            obtain ⟨_, ⟨d, hd⟩⟩ := hA.edge_live he
            rw [hdead _ ht] at hd; cases hd
          | arg j => rfl
          | dep => rfl
        obtain ⟨k1, k2, k3⟩ := inv_detach hA hnoalias hr
        exact ⟨k1, k2, hsh.trans k3⟩

theorem inv_removeNode {ctx : Ctx} {g g' : Graph} {n : Nat} {out : Outcome}
    (h : Inv ctx g) (hs : removeNode .fixed g n = (g', out)) : Inv ctx g' := by
  unfold removeNode at hs
  split at hs
  · simp only [Prod.mk.injEq] at hs; rw [← hs.1]; exact h
  · rename_i g1 hr
    simp only [Prod.mk.injEq] at hs
    rw [← hs.1]
    exact (level_all ctx _ g n g1 h hr).1

/-- `remove_node` leaves no trace of the node: the slot is vacant, nothing new appeared -/
theorem removeNode_gone {ctx : Ctx} {g g' : Graph} {n : Nat}
    (h : Inv ctx g) (hs : removeNode .fixed g n = (g', .ok .unit)) :
    g'.node? n = none ∧ Shrinks g g' := by
  unfold removeNode at hs
  split at hs
  · simp at hs
  · rename_i g1 hr
    simp only [Prod.mk.injEq, and_true] at hs
    rw [← hs]
    exact (level_all ctx _ g n g1 h hr).2

end Wac.Graph
