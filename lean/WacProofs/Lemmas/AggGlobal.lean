import WacProofs.Lemmas.AggStep
import WacProofs.Lemmas.AggNames
/-
  C09 general theorems, part 9: the invariant of `aggregate` over a list of flat instance
  requirements.  `TInv` (type level): every import is a flat instance of its own interface, every
  requirement seen so far is satisfied by the import of its class (`sat`) and that import is the
  greatest type satisfying all requirements of the class (`glb`).  The class assignment `cls` is
  kept abstract here; `GInv` instantiates it with `canonical_import_name` and adds the name-level
  invariant `NInv`.
-/
namespace Wac.AggP
open Wac Wac.Spec

abbrev Req := Str × Types × ItemKind

/-- a requirement of the flat fragment: an instance type without `uses` and without an interface
id, all of whose exports are functions or values, over a resource-free acyclic collection; `G` is
the forest of its exports -/
structure FlatReq (r : Req) (G : Forest) : Prop where
  sane : Sane r.2.1
  shape : ∃ i si, r.2.2 = .instance i ∧ r.2.1.interfaces[i]? = some si ∧ si.id = none ∧ si.uses = [] ∧
    (∀ x, x ∈ si.exports → LeafK x.2) ∧ unfoldItems (r.2.1.unfoldKind r.2.1.fuel) si.exports = some G
  nd : G.namesDistinct = true

/-- import `n` is a flat instance that unfolds to the forest `F` -/
def ImpForest (s : AggState) (n : Str) (F : Forest) : Prop :=
  ∃ e ti, amGet s.agg.imports n = some (.instance e) ∧ s.agg.types.interfaces[e]? = some ti ∧
    FlatItf s.agg.types ti F ∧ F.namesDistinct = true

theorem FlatItf.det {T : Types} {ti : Interface} {F F' : Forest} (h : FlatItf T ti F) (h' : FlatItf T ti F') : F = F' := by
  obtain ⟨n, hn⟩ := h.unf
  obtain ⟨m, hm⟩ := h'.unf
  have h1 := unfoldItems_fuel_mono (Nat.le_max_left n m) hn
  have h2 := unfoldItems_fuel_mono (Nat.le_max_right n m) hm
  rw [h1] at h2; exact Option.some.inj h2

theorem ImpForest.det {s : AggState} {n : Str} {F F' : Forest} (h : ImpForest s n F) (h' : ImpForest s n F') : F = F' := by
  obtain ⟨e, ti, h1, h2, h3, _⟩ := h
  obtain ⟨e', ti', h1', h2', h3', _⟩ := h'
  rw [h1] at h1'; cases h1'
  rw [h2] at h2'; cases h2'
  exact h3.det h3'

theorem FlatItf.ext {T T' : Types} {ti : Interface} {F : Forest} (h : FlatItf T ti F) (he : Ext T T') : FlatItf T' ti F := by
  obtain ⟨n, hn⟩ := h.unf
  exact ⟨h.leaf, n, he.unfoldItems_leaf _ _ _ h.leaf hn⟩

/-- the type-level invariant, for a class assignment `cls` (requirement name ↦ import name) -/
structure TInv (W : Colls) (seen : List (Req × Forest)) (cls : Str → Str) (s : AggState) : Prop where
  ainv : AInv W s
  imp : ∀ n k, amGet s.agg.imports n = some k → ∃ F, ImpForest s n F
  inj : ∀ n1 n2 e, amGet s.agg.imports n1 = some (.instance e) → amGet s.agg.imports n2 = some (.instance e) → n1 = n2
  keys : ∀ g, g.ty.hasId = true → (alGet s.agg.remapped g).isSome = true → ∃ p, p ∈ seen ∧ p.1.2.1.uid = g.uid
  flat : ∀ p, p ∈ seen → FlatReq p.1 p.2
  sat : ∀ p, p ∈ seen → ∃ F, ImpForest s (cls p.1.1) F ∧ sub (.instance F) (.instance p.2) = true
  glb : ∀ n F, ImpForest s n F → ∀ X, X.namesDistinct = true →
    (∀ p, p ∈ seen → cls p.1.1 = n → sub X (.instance p.2) = true) → sub X (.instance F) = true
  wit : ∀ n F, ImpForest s n F → ∀ k t, F.get k = some t → ∃ p, p ∈ seen ∧ cls p.1.1 = n ∧ p.2.get k = some t

theorem TInv.congr {W : Colls} {seen : List (Req × Forest)} {cls cls' : Str → Str} {s : AggState}
    (h : TInv W seen cls s) (hc : ∀ p, p ∈ seen → cls' p.1.1 = cls p.1.1) : TInv W seen cls' s :=
  ⟨h.ainv, h.imp, h.inj, h.keys, h.flat, fun p hp => by rw [hc p hp]; exact h.sat p hp,
    fun n F hF X hX hall => h.glb n F hF X hX (fun p hp hn => hall p hp (by rw [hc p hp]; exact hn)),
    fun n F hF k t hk => by
      obtain ⟨p, hp, h1, h2⟩ := h.wit n F hF k t hk
      exact ⟨p, hp, by rw [hc p hp]; exact h1, h2⟩⟩

/-- changing only the redirects does not touch the type-level invariant -/
theorem TInv.set_redirects {W : Colls} {seen : List (Req × Forest)} {cls : Str → Str} {s : AggState}
    (h : TInv W seen cls s) (R : List (Str × Str)) :
    TInv W seen cls { s with agg := { s.agg with redirects := R } } :=
  ⟨⟨⟨h.ainv.rinv.sound, h.ainv.rinv.closed, h.ainv.rinv.shape⟩, h.ainv.cinv, h.ainv.nores⟩, h.imp, h.inj, h.keys, h.flat, h.sat, h.glb, h.wit⟩

theorem sub_instance_refl (F : Forest) (h : F.namesDistinct = true) : sub (.instance F) (.instance F) = true :=
  sub_refl _ (by simpa [Tree.namesDistinct] using h)

theorem nd_instance {F : Forest} (h : F.namesDistinct = true) : (Tree.instance F).namesDistinct = true := by
  simpa [Tree.namesDistinct] using h

/-! ### merging a requirement into an existing import -/

section merge
variable {W : Colls} {seen : List (Req × Forest)} {cls : Str → Str} {s s1 : AggState}

theorem TInv.merge (hT : TInv W seen cls s) {r : Req} {G : Forest} (hr : FlatReq r G) (hW : W.mem r.2.1)
    {en : Str} {existing : ItemKind} (hget : amGet s.agg.imports en = some existing)
    (h : mergeKind existing r.2.1 r.2.2 s = .ok ((), s1)) {cls' : Str → Str}
    (hc1 : cls' r.1 = en) (hc2 : ∀ p, p ∈ seen → cls' p.1.1 = cls p.1.1) :
    TInv W ((r, G) :: seen) cls' s1 ∧ s1.agg.imports = s.agg.imports ∧ s1.agg.redirects = s.agg.redirects ∧
      s1.cfg = s.cfg := by
  obtain ⟨F, himp⟩ := hT.imp en existing hget
  obtain ⟨e, ti, hge, hti, hflat, hFnd⟩ := himp
  rw [hget] at hge; cases hge
  obtain ⟨i, si, hk, hsi, hid, huses, hleaf, hG⟩ := hr.shape
  rw [hk, mergeKind_instance] at h
  have hTS : TState W e s F := ⟨hT.ainv, ⟨ti, hti, hflat⟩, hFnd⟩
  obtain ⟨hm, hTS1, hcons⟩ := mergeInterface_flat hW hr.sane _ i s s1 F G si hTS hsi huses hleaf hG hr.nd h
  obtain ⟨ti1, hti1, hflat1⟩ := hTS1.itf
  have himp1 : ImpForest s1 en (appendMissing F G) := ⟨e, ti1, by rw [hm.imports]; exact hget, hti1, hflat1, hTS1.nd⟩
  -- imports other than `en` keep their forest
  have keep : ∀ n F', n ≠ en → ImpForest s n F' → ImpForest s1 n F' := by
    rintro n F' hne ⟨e', ti', h1, h2, h3, h4⟩
    have hee : e' ≠ e := fun hc => hne (hT.inj n en e (by rw [← hc]; exact h1) hget)
    exact ⟨e', ti', by rw [hm.imports]; exact h1, by rw [hm.others e' hee]; exact h2, h3.ext hm.ext, h4⟩
  have back : ∀ n F', n ≠ en → ImpForest s1 n F' → ImpForest s n F' := by
    intro n F' hne h1
    have h1' := h1
    obtain ⟨e', ti', g1, _, _, _⟩ := h1'
    rw [hm.imports] at g1
    obtain ⟨F0, h0⟩ := hT.imp n _ g1
    rw [(keep n F0 hne h0).det h1] at h0; exact h0
  have hkF : keysNd F = true := keysNd_of_nd F hFnd
  refine ⟨⟨hTS1.ainv, ?_, ?_, ?_, ?_, ?_, ?_, ?_⟩, hm.imports, hm.redirects, hm.cfg⟩
  · intro n k hn
    rw [hm.imports] at hn
    by_cases hne : n = en
    · subst hne; exact ⟨_, himp1⟩
    · obtain ⟨F', hF'⟩ := hT.imp n k hn
      exact ⟨F', keep n F' hne hF'⟩
  · intro n1 n2 e0 h1 h2
    rw [hm.imports] at h1 h2
    exact hT.inj n1 n2 e0 h1 h2
  · intro g hid hg
    rcases hm.keys g hid hg with hg | hg
    · obtain ⟨p, hp, hu⟩ := hT.keys g hid hg
      exact ⟨p, List.mem_cons_of_mem _ hp, hu⟩
    · exact ⟨(r, G), List.mem_cons_self, hg.symm⟩
  · intro p hp
    rcases List.mem_cons.1 hp with rfl | hp
    · exact hr
    · exact hT.flat p hp
  · intro p hp
    rcases List.mem_cons.1 hp with rfl | hp
    · simp only [hc1]
      exact ⟨_, himp1, flat_merge_lower_right F G hkF hr.nd hcons⟩
    · rw [hc2 p hp]
      obtain ⟨F', hF', hs'⟩ := hT.sat p hp
      by_cases hne : cls p.1.1 = en
      · rw [hne] at hF' ⊢
        have : F' = F := hF'.det ⟨e, ti, hget, hti, hflat, hFnd⟩
        subst this
        refine ⟨_, himp1, ?_⟩
        obtain ⟨_, _, _, _, _, hpnd⟩ := hF'
        exact sub_trans' _ _ _ (nd_instance hTS1.nd) (nd_instance hFnd) (nd_instance (hT.flat p hp).nd)
          (flat_merge_lower_left F' G hFnd (keysNd_of_nd G hr.nd)) hs'
      · exact ⟨F', keep _ F' hne hF', hs'⟩
  · intro n F' hF' X hX hall
    by_cases hne : n = en
    · subst hne
      rw [hF'.det himp1]
      refine flat_merge_greatest F G X hX ?_ (by simpa [hc1] using hall (r, G) List.mem_cons_self hc1)
      exact hT.glb n F ⟨e, ti, hget, hti, hflat, hFnd⟩ X hX
        (fun p hp hn => hall p (List.mem_cons_of_mem _ hp) (by rw [hc2 p hp]; exact hn))
    · exact hT.glb n F' (back n F' hne hF') X hX
        (fun p hp hn => hall p (List.mem_cons_of_mem _ hp) (by rw [hc2 p hp]; exact hn))
  · intro n F' hF' k t hk
    by_cases hne : n = en
    · subst hne
      rw [hF'.det himp1, get_appendMissing] at hk
      cases hfk : F.get k with
      | some tf =>
        rw [hfk] at hk
        simp only [Option.orElse_some, Option.some.injEq] at hk
        subst hk
        obtain ⟨p, hp, h1, h2⟩ := hT.wit n F ⟨e, ti, hget, hti, hflat, hFnd⟩ k tf hfk
        exact ⟨p, List.mem_cons_of_mem _ hp, by rw [hc2 p hp]; exact h1, h2⟩
      | none =>
        rw [hfk] at hk
        exact ⟨(r, G), List.mem_cons_self, hc1, by simpa using hk⟩
    · obtain ⟨p, hp, h1, h2⟩ := hT.wit n F' (back n F' hne hF') k t hk
      exact ⟨p, List.mem_cons_of_mem _ hp, by rw [hc2 p hp]; exact h1, h2⟩

end merge

/-! ### a new import -/

section fresh
variable {W : Colls} {seen : List (Req × Forest)} {cls : Str → Str} {s s1 : AggState}

/-- the state after `imports.insert(name, kind)` -/
def addImport (s : AggState) (n : Str) (k : ItemKind) : AggState :=
  { s with agg := { s.agg with imports := amInsert s.agg.imports n k } }

theorem TInv.fresh (hT : TInv W seen cls s) {r : Req} {G : Forest} (hr : FlatReq r G) (hW : W.mem r.2.1)
    (hfresh : ∀ p, p ∈ seen → p.1.2.1.uid ≠ r.2.1.uid) (hnone : amGet s.agg.imports r.1 = none)
    {fuel : Nat} {k' : ItemKind} (h : remapKind fuel r.2.1 r.2.2 s = .ok (k', s1)) {cls' : Str → Str}
    (hc1 : cls' r.1 = r.1) (hc2 : ∀ p, p ∈ seen → cls' p.1.1 = cls p.1.1) :
    TInv W ((r, G) :: seen) cls' (addImport s1 r.1 k') ∧ s1.agg.imports = s.agg.imports ∧
      s1.agg.redirects = s.agg.redirects ∧ s1.cfg = s.cfg := by
  obtain ⟨i, si, hk, hsi, hid, huses, hleaf, hG⟩ := hr.shape
  rw [hk] at h
  have hmiss : alGet s.agg.remapped (GTy.mk' r.2.1 (.interface i)) = none := by
    cases hg : alGet s.agg.remapped (GTy.mk' r.2.1 (.interface i)) with
    | none => rfl
    | some v =>
      obtain ⟨p, hp, hu⟩ := hT.keys (GTy.mk' r.2.1 (.interface i)) rfl (by rw [hg]; rfl)
      exact absurd (hu.trans (gty_uid_of_hasId _ _ rfl)) (hfresh p hp)
  obtain ⟨rfl, hfs⟩ := remapKind_flat_spec hW hr.sane fuel i s s1 si k' G _ hT.ainv.rinv hsi huses hid hleaf hG hmiss h
  obtain ⟨E', hifs, hflat⟩ := hfs.itf
  have hlen : s.agg.types.interfaces.length < s1.agg.types.interfaces.length := by rw [hifs]; simp
  have hnew : s1.agg.types.interfaces[s.agg.types.interfaces.length]? = some { id := none, uses := [], exports := E' } := by
    rw [hifs]; simp
  have hold : ∀ (e' : Nat) (ti' : Interface), s.agg.types.interfaces[e']? = some ti' → s1.agg.types.interfaces[e']? = some ti' := by
    intro e' ti' he
    rw [hifs, List.getElem?_append_left (getElem?_lt he)]; exact he
  have hgi : ∀ x, amGet (addImport s1 r.1 (.instance s.agg.types.interfaces.length)).agg.imports x =
      if r.1 == x then some (.instance s.agg.types.interfaces.length) else amGet s.agg.imports x := by
    intro x; simp only [addImport, hfs.imports]; exact AggP.amGet_amInsert _ _ _ _
  have himp1 : ImpForest (addImport s1 r.1 (.instance s.agg.types.interfaces.length)) r.1 G :=
    ⟨_, _, by rw [hgi]; simp, hnew, hflat, hr.nd⟩
  have keep : ∀ n F', ImpForest s n F' → n ≠ r.1 ∧ ImpForest (addImport s1 r.1 (.instance s.agg.types.interfaces.length)) n F' := by
    rintro n F' ⟨e', ti', h1, h2, h3, h4⟩
    have hne : n ≠ r.1 := by rintro rfl; rw [hnone] at h1; cases h1
    have hne' : (r.1 == n) = false := by simpa using fun e => hne e.symm
    exact ⟨hne, e', ti', by rw [hgi, hne']; exact h1, hold e' ti' h2, h3.ext hfs.ext, h4⟩
  have back : ∀ n F', n ≠ r.1 → ImpForest (addImport s1 r.1 (.instance s.agg.types.interfaces.length)) n F' →
      ImpForest s n F' := by
    intro n F' hne h1
    have h1' := h1
    obtain ⟨e', ti', g1, _, _, _⟩ := h1'
    have hne' : (r.1 == n) = false := by simpa using fun e => hne e.symm
    rw [hgi, hne'] at g1
    obtain ⟨F0, h0⟩ := hT.imp n _ g1
    rw [(keep n F0 h0).2.det h1] at h0; exact h0
  refine ⟨⟨⟨⟨hfs.rinv.sound, hfs.rinv.closed, hfs.rinv.shape⟩, by rw [show (addImport s1 r.1 _).chk = s.chk from hfs.chk]; exact hT.ainv.cinv.ext hfs.ext,
      hfs.ext.resources.trans hT.ainv.nores⟩, ?_, ?_, ?_, ?_, ?_, ?_, ?_⟩, hfs.imports, hfs.redirects, hfs.cfg⟩
  · intro n k hn
    rw [hgi] at hn
    by_cases hne : r.1 = n
    · subst hne; exact ⟨_, himp1⟩
    · have hne' : (r.1 == n) = false := by simpa using hne
      rw [hne'] at hn
      obtain ⟨F', hF'⟩ := hT.imp n k hn
      exact ⟨F', (keep n F' hF').2⟩
  · intro n1 n2 e0 h1 h2
    rw [hgi] at h1 h2
    -- an old import points below the new interface
    have oldlt : ∀ n, amGet s.agg.imports n = some (.instance e0) → e0 < s.agg.types.interfaces.length := by
      intro n hn
      obtain ⟨F', e', ti', g1, g2, _⟩ := hT.imp n _ hn
      rw [hn] at g1; cases g1
      exact getElem?_lt g2
    by_cases a1 : r.1 = n1 <;> by_cases a2 : r.1 = n2
    · rw [← a1, ← a2]
    · have a2' : (r.1 == n2) = false := by simpa using a2
      simp only [a1, BEq.rfl, ↓reduceIte, Option.some.injEq, ItemKind.instance.injEq] at h1
      rw [a2'] at h2
      have := oldlt n2 (by simpa using h2)
      omega
    · have a1' : (r.1 == n1) = false := by simpa using a1
      simp only [a2, BEq.rfl, ↓reduceIte, Option.some.injEq, ItemKind.instance.injEq] at h2
      rw [a1'] at h1
      have := oldlt n1 (by simpa using h1)
      omega
    · have a1' : (r.1 == n1) = false := by simpa using a1
      have a2' : (r.1 == n2) = false := by simpa using a2
      rw [a1'] at h1; rw [a2'] at h2
      exact hT.inj n1 n2 e0 (by simpa using h1) (by simpa using h2)
  · intro g hid hg
    rcases hfs.keys g hid hg with hg | hg
    · obtain ⟨p, hp, hu⟩ := hT.keys g hid hg
      exact ⟨p, List.mem_cons_of_mem _ hp, hu⟩
    · exact ⟨(r, G), List.mem_cons_self, hg.symm⟩
  · intro p hp
    rcases List.mem_cons.1 hp with rfl | hp
    · exact hr
    · exact hT.flat p hp
  · intro p hp
    rcases List.mem_cons.1 hp with rfl | hp
    · simp only [hc1]
      exact ⟨_, himp1, sub_instance_refl G hr.nd⟩
    · rw [hc2 p hp]
      obtain ⟨F', hF', hs'⟩ := hT.sat p hp
      exact ⟨F', (keep _ F' hF').2, hs'⟩
  · intro n F' hF' X hX hall
    by_cases hne : n = r.1
    · subst hne
      rw [hF'.det himp1]
      exact hall (r, G) List.mem_cons_self hc1
    · exact hT.glb n F' (back n F' hne hF') X hX
        (fun p hp hn => hall p (List.mem_cons_of_mem _ hp) (by rw [hc2 p hp]; exact hn))
  · intro n F' hF' k t hk
    by_cases hne : n = r.1
    · subst hne
      rw [hF'.det himp1] at hk
      exact ⟨(r, G), List.mem_cons_self, hc1, hk⟩
    · obtain ⟨p, hp, h1, h2⟩ := hT.wit n F' (back n F' hne hF') k t hk
      exact ⟨p, List.mem_cons_of_mem _ hp, by rw [hc2 p hp]; exact h1, h2⟩

end fresh

/-! ### renaming an import -/

section rename
variable {W : Colls} {seen : List (Req × Forest)} {cls : Str → Str} {s : AggState}

/-- the state after the rename branch of `aggregate` -/
def renameImport (s : AggState) (name exName : Str) (m : ItemKind) (R : List (Str × Str)) : AggState :=
  { s with agg := { s.agg with imports := alRemove s.agg.imports exName ++ [(name, m)], redirects := R } }

theorem TInv.rename (hT : TInv W seen cls s) {name exName : Str} {m : ItemKind}
    (hex : amGet s.agg.imports exName = some m) (hnone : amGet s.agg.imports name = none)
    (R : List (Str × Str)) {cls' : Str → Str}
    (hc : ∀ p, p ∈ seen → cls' p.1.1 = if cls p.1.1 = exName then name else cls p.1.1) :
    TInv W seen cls' (renameImport s name exName m R) := by
  have hne : name ≠ exName := by rintro rfl; rw [hnone] at hex; cases hex
  have hgi : ∀ x, amGet (renameImport s name exName m R).agg.imports x =
      if name == x then some m else if exName == x then none else amGet s.agg.imports x :=
    fun x => amGet_renamed s.agg.imports name exName m hne hnone x
  -- forests of the renamed state
  have fwd_ex : ∀ F, ImpForest s exName F → ImpForest (renameImport s name exName m R) name F := by
    rintro F ⟨e, ti, h1, h2, h3, h4⟩
    rw [hex] at h1; cases h1
    exact ⟨e, ti, by rw [hgi]; simp, h2, h3, h4⟩
  have fwd : ∀ n F, n ≠ exName → ImpForest s n F → ImpForest (renameImport s name exName m R) n F := by
    rintro n F hn ⟨e, ti, h1, h2, h3, h4⟩
    have hn1 : (name == n) = false := by
      rw [Bool.eq_false_iff]; intro hc'
      have : name = n := by simpa using hc'
      subst this; rw [hnone] at h1; cases h1
    have hn2 : (exName == n) = false := by simpa using fun e => hn e.symm
    exact ⟨e, ti, by rw [hgi, hn1, hn2]; exact h1, h2, h3, h4⟩
  have bwd : ∀ n F, ImpForest (renameImport s name exName m R) n F →
      (n = name ∧ ImpForest s exName F) ∨ (n ≠ name ∧ n ≠ exName ∧ ImpForest s n F) := by
    rintro n F ⟨e, ti, h1, h2, h3, h4⟩
    rw [hgi] at h1
    by_cases a1 : name = n
    · subst a1
      simp only [BEq.rfl, ↓reduceIte, Option.some.injEq] at h1
      subst h1
      exact .inl ⟨rfl, e, ti, hex, h2, h3, h4⟩
    · have a1' : (name == n) = false := by simpa using a1
      rw [a1'] at h1
      by_cases a2 : exName = n
      · subst a2; simp at h1
      · have a2' : (exName == n) = false := by simpa using a2
        rw [a2'] at h1
        exact .inr ⟨fun e' => a1 e'.symm, fun e' => a2 e'.symm, e, ti, by simpa using h1, h2, h3, h4⟩
  refine ⟨⟨⟨hT.ainv.rinv.sound, hT.ainv.rinv.closed, hT.ainv.rinv.shape⟩, hT.ainv.cinv, hT.ainv.nores⟩, ?_, ?_, hT.keys, hT.flat, ?_, ?_, ?_⟩
  · intro n k hn
    rw [hgi] at hn
    by_cases a1 : name = n
    · subst a1
      obtain ⟨F, hF⟩ := hT.imp exName m hex
      exact ⟨F, fwd_ex F hF⟩
    · have a1' : (name == n) = false := by simpa using a1
      rw [a1'] at hn
      by_cases a2 : exName = n
      · subst a2; simp at hn
      · have a2' : (exName == n) = false := by simpa using a2
        rw [a2'] at hn
        obtain ⟨F, hF⟩ := hT.imp n k (by simpa using hn)
        exact ⟨F, fwd n F (fun e' => a2 e'.symm) hF⟩
  · intro n1 n2 e0 h1 h2
    rw [hgi] at h1 h2
    -- translate both names back to names of the old import list
    have tr : ∀ n, (if name == n then some m else if exName == n then none else amGet s.agg.imports n) =
        some (.instance e0) → ∃ n0, amGet s.agg.imports n0 = some (.instance e0) ∧
          ((n = name ∧ n0 = exName) ∨ (n ≠ name ∧ n ≠ exName ∧ n0 = n)) := by
      intro n hn
      by_cases a1 : name = n
      · subst a1
        simp only [BEq.rfl, ↓reduceIte, Option.some.injEq] at hn
        subst hn
        exact ⟨exName, hex, .inl ⟨rfl, rfl⟩⟩
      · have a1' : (name == n) = false := by simpa using a1
        rw [a1'] at hn
        by_cases a2 : exName = n
        · subst a2; simp at hn
        · have a2' : (exName == n) = false := by simpa using a2
          rw [a2'] at hn
          exact ⟨n, by simpa using hn, .inr ⟨fun e' => a1 e'.symm, fun e' => a2 e'.symm, rfl⟩⟩
    obtain ⟨m1, g1, c1⟩ := tr n1 h1
    obtain ⟨m2, g2, c2⟩ := tr n2 h2
    have := hT.inj m1 m2 e0 g1 g2
    rcases c1 with ⟨a, b⟩ | ⟨a, b, c⟩ <;> rcases c2 with ⟨a', b'⟩ | ⟨a', b', c'⟩
    · rw [a, a']
    · rw [b, c'] at this; exact absurd this.symm b'
    · rw [c, b'] at this; exact absurd this b
    · rw [c, c'] at this; exact this
  · intro p hp
    rw [hc p hp]
    obtain ⟨F, hF, hs'⟩ := hT.sat p hp
    by_cases a : cls p.1.1 = exName
    · rw [a] at hF; simp only [a, ↓reduceIte]
      exact ⟨F, fwd_ex F hF, hs'⟩
    · simp only [a, ↓reduceIte]
      exact ⟨F, fwd _ F a hF, hs'⟩
  · intro n F hF X hX hall
    rcases bwd n F hF with ⟨rfl, hF0⟩ | ⟨a1, a2, hF0⟩
    · refine hT.glb exName F hF0 X hX (fun p hp hn => hall p hp ?_)
      rw [hc p hp, hn]; simp
    · refine hT.glb n F hF0 X hX (fun p hp hn => hall p hp ?_)
      rw [hc p hp, hn]; simp [a2]
  · intro n F hF k t hk
    rcases bwd n F hF with ⟨rfl, hF0⟩ | ⟨a1, a2, hF0⟩
    · obtain ⟨p, hp, h1, h2⟩ := hT.wit exName F hF0 k t hk
      exact ⟨p, hp, by rw [hc p hp, h1]; simp, h2⟩
    · obtain ⟨p, hp, h1, h2⟩ := hT.wit n F hF0 k t hk
      exact ⟨p, hp, by rw [hc p hp, h1]; simp [a2], h2⟩

end rename

end Wac.AggP
