import WacProofs.Lemmas.NodupItems
/-
  C12 proofs: multiplicity, part 4: expressions, statements, documents; the list of derivations of
  a token sequence has no duplicates (`derivations_nodup`), hence at most one element once any two
  of its elements are known to be equal (`derivations_length_le_one`).
-/
namespace Wac.C12.ND
open Wac Wac.Ast Wac.Spec.Grammar

theorem inj_gPostfix : Inj (NHL []) gPostfix := by
  unfold gPostfix
  exact inj_alt (inj_bind_det (det_t _) fun _ => inj_bind_det det_gId fun _ => inj_pure _)
    (inj_bind_det (det_t _) fun _ => inj_bind_det det_gString fun _ => inj_bind_det (det_t _) fun _ => inj_pure _)
    (by nd_cross)

theorem inj_gExpr_aux (fuel : Nat) :
    Inj (NHL []) (gExpr fuel) ∧ Inj (NHL []) (gPrimary fuel) ∧ Inj (NHL []) (gArg fuel) := by
  induction fuel with
  | zero =>
    exact ⟨by unfold gExpr; exact inj_fail, by unfold gPrimary; exact inj_fail, by unfold gArg; exact inj_fail⟩
  | succ n ih =>
    obtain ⟨ihE, ihP, ihA⟩ := ih
    refine ⟨?_, ?_, ?_⟩
    · unfold gExpr
      exact inj_bind_top ihP (fun p => inj_map (inj_many_top inj_gPostfix n) (by nd_map)) (by nd_inj)
    · unfold gPrimary
      exact inj_alt (inj_alt
        (inj_bind_det (det_t _) fun _ => inj_bind_det det_gPackageName fun p => inj_bind_det (det_t _) fun _ =>
          inj_bind (inj_list0 ihA (by decide) n) (fun args => inj_bind_det (det_t _) fun _ => inj_pure _)
            (by nd_inj) (by nd_pres))
        (inj_bind_det (det_t _) fun _ => inj_bind_top ihE
          (fun e => inj_bind_det (det_t _) fun _ => inj_pure _) (by nd_inj)) (by nd_cross))
        (inj_bind_det det_gId fun _ => inj_pure _) (by nd_cross)
    · unfold gArg
      exact inj_alt (inj_alt (inj_alt
        (inj_bind_det det_gId fun _ => inj_pure _)
        (inj_bind_det (det_t _) fun _ => inj_bind_det det_gId fun _ => inj_pure _) (by nd_cross))
        (inj_bind_top
          (inj_alt (inj_bind_det det_gId fun _ => inj_pure _) (inj_bind_det det_gString fun _ => inj_pure _)
            (by nd_cross))
          (fun name => inj_bind_det (det_t _) fun _ => inj_map ihE (by nd_map)) (by nd_inj)) (by nd_cross))
        (inj_bind_det (det_t _) fun _ => inj_pure _) (by nd_cross)

theorem inj_gExpr (fuel : Nat) : Inj (NHL []) (gExpr fuel) := (inj_gExpr_aux fuel).1

theorem inj_gStatement (fuel : Nat) : Inj (NHL []) (gStatement fuel) := by
  unfold gStatement
  exact inj_alt (inj_alt (inj_alt
    (inj_map (inj_gImportStatement fuel) (by nd_map)) (inj_map (inj_gTypeStatement fuel) (by nd_map)) (by nd_cross))
    (inj_bind_det (det_t _) fun _ => inj_bind_det det_gId fun id => inj_bind_det (det_t _) fun _ =>
      inj_bind_top (inj_gExpr fuel) (fun e => inj_bind_det (det_t _) fun _ => inj_pure _) (by nd_inj))
    (by nd_cross))
    (inj_bind_det (det_t _) fun _ => inj_bind_top (inj_gExpr fuel)
      (fun e => inj_bind_top
        (inj_alt (inj_alt (inj_bind_det (det_t _) fun _ => inj_pure _)
          (inj_bind_det (det_t _) fun _ => inj_map inj_gExternName (by nd_map)) (by nd_cross))
          (inj_pure _) (by nd_cross))
        (fun o => inj_bind_det (det_t _) fun _ => inj_pure _) (by nd_inj))
      (by nd_inj))
    (by nd_cross)

theorem inj_gDocument (fuel : Nat) : Inj (NHL []) (gDocument fuel) := by
  unfold gDocument
  exact inj_bind_det (det_t _) fun _ => inj_bind_det det_gPackageName fun p =>
    inj_bind_top (inj_opt (inj_bind_det (det_t _) fun _ => inj_of_det det_gPackagePath))
      (fun tg => inj_bind_det (det_t _) fun _ => inj_map (inj_many_top (inj_gStatement fuel) fuel) (by nd_map))
      (by nd_inj)

end Wac.C12.ND

namespace Wac.C12
open Wac Wac.Ast Wac.Spec.Grammar Wac.C12.ND

/-- the grammar never derives the same (document, rest) pair twice -/
theorem gDocument_nodup (fuel : Nat) (ts : List STok) : (gDocument fuel ts).Nodup :=
  inj_nodup (inj_gDocument fuel) ts

/-- ... and not even the same document with two different rests -/
theorem gDocument_trees_nodup (fuel : Nat) (ts : List STok) : ((gDocument fuel ts).map (·.1)).Nodup := by
  rw [List.nodup_iff_pairwise_ne, List.pairwise_map]
  exact (inj_gDocument fuel ts).imp fun h => h (NHL_nil _) (NHL_nil _)

/-- the list of derivations has no duplicates -/
theorem derivations_nodup (ts : List STok) : (derivations ts).Nodup := by
  unfold derivations
  rw [List.nodup_iff_pairwise_ne, List.pairwise_map]
  exact ((inj_gDocument _ ts).filter _).imp fun h => h (NHL_nil _) (NHL_nil _)

/-- so, the elements being equal (proved via the deterministic parser), there is at most one: the
verdict is never `.ambiguous` -/
theorem derivations_length_le_one (ts : List STok)
    (huniq : ∀ d1 ∈ derivations ts, ∀ d2 ∈ derivations ts, d1 = d2) : (derivations ts).length ≤ 1 := by
  have hn := derivations_nodup ts
  match hd : derivations ts with
  | [] => simp
  | [_] => simp
  | a :: b :: l =>
    rw [hd] at hn huniq
    have hab : a = b := huniq a List.mem_cons_self b (List.mem_cons_of_mem _ List.mem_cons_self)
    rw [List.nodup_cons] at hn
    exact absurd (hab ▸ List.mem_cons_self) hn.1

end Wac.C12
