import WacProofs.Lemmas.ParserComplete
/-
  C12 proofs: completeness of the parser model w.r.t. the grammar specification — the type
  sublanguage (`type`, named types, function types, resources, variants, records, flags, enums,
  type aliases, type declarations).

  Every statement has the shape `Complete er parseX gX follow gf` (see `ParserComplete.lean`): a
  derivation `(x, r) ∈ gX gf (abs st)` whose rest `r` satisfies the follow condition is what the
  parser returns, for every parser fuel `pf ≥ gf + 2`.  Follow conditions:
    * `type`, named type: the rest starts with a terminal other than `<` (the grammar derives
      `result` as a prefix of `result<…>`; the parser decides with `parse_optional('<')`, which
      also fails on a lexical-error item);
    * function type, function type reference: … other than `<` and `->`;
    * everything that ends with `;` or `}`: none.

  Peek facts: a derivation from `abs st` yields `nextTok` facts (the item `Lexer::next` delivers),
  which is what `parseToken`/`parseIdent`/`parseOptional` (taken) need; the parser *dispatches* on
  the raw peek, so everything that feeds a dispatch is stated for the raw `peekTok`/`peekIn`: all
  `*_first` lemmas, the `peekIn st peeks = true ∧ peekTok st ≠ some stop` part of the item
  hypotheses of `delimited_list1`/`delimited_list0`/`delimited_many`, and the hypothesis of
  `parseOptional_none` (`FollowLit.peekTok_ne` provides it from a follow condition).
-/
namespace Wac.C12
open Wac Wac.Ast Wac.Lex Wac.Parse Wac.Spec.Grammar



theorem effToks_length_tc (d : Nat) (l : List LTok) : (effToks d l).length = l.length := by
  induction l generalizing d with
  | nil => simp [effToks]
  | cons a r ih => rw [effToks_cons]; simp [ih]

theorem abs_length_tc (st : PState) : (abs st).length = st.toks.length := by
  simp [abs, eff, effToks_length_tc]

/-- the parser's (raw) peek is one of `ks`, so it is not `k` -/
theorem peekTok_ne_of_peekIn {st : PState} {ks : List Token} {k : Token} (h : peekIn st ks = true)
    (hk : k ∉ ks) : peekTok st ≠ some k := by
  obtain ⟨k', h1, h2⟩ := (peekIn_iff _ _).mp h
  intro h3; rw [h3] at h1; cases h1; exact hk h2

theorem nextTok_ne_of_peekIn {st : PState} {ks : List Token} {k : Token} (h : peekIn st ks = true)
    (hk : k ∉ ks) : nextTok st ≠ some k :=
  fun h3 => peekTok_ne_of_peekIn h hk (peekTok_of_nextTok h3)

/-- `parse_optional`, taken: the expected token is *delivered* -/
theorem parseOptional_some {α} {st st' : PState} {k : Token} {cb : PState → PR α} {a : α}
    (h : nextTok st = some k) (hcb : cb (adv st) = .ok (a, st')) :
    parseOptional st k cb = .ok (some a, st') :=
  parseOptional_eq_ok.mpr (.inl ⟨h, a, hcb, rfl⟩)

/-- `parse_optional`, not taken: the (raw) peek is another token -/
theorem parseOptional_none {α} {st : PState} {k : Token} {cb : PState → PR α}
    (h : peekTok st ≠ some k) (he : peekErr st = false) :
    parseOptional st k cb = .ok (none, st) :=
  parseOptional_eq_ok.mpr (.inr ⟨h, he, rfl, rfl⟩)

/-- a rest that starts with a terminal outside `bad`: the parser does not peek a token of `bad` -/
theorem FollowLit.peekTok_ne {bad : List Token} {st : PState} {k : Token}
    (h : FollowLit bad (abs st)) (hk : k ∈ bad) : peekTok st ≠ some k := by
  obtain ⟨k', hk', hnb⟩ := h.peek
  rw [peekTok_of_nextTok hk']
  intro e; cases e; exact hnb hk

theorem FollowLit.of_cons {bad : List Token} {k : Token} {r1 r : List STok} (hk : isLit k = true)
    (hb : k ∉ bad) (h : r1 = litTok k :: r) : FollowLit bad r1 :=
  ⟨k, hk, hb, by rw [h]; rfl⟩

theorem FollowLit.of_sep {bad : List Token} {stop : Token} {r1 : List STok} (hk : isLit stop = true)
    (hb : stop ∉ bad) (hc : Token.Comma ∉ bad)
    (h : r1.head? = some comma ∨ r1.head? = some (litTok stop)) : FollowLit bad r1 := by
  rcases h with h | h
  · exact ⟨.Comma, rfl, hc, by rw [h, comma_eq]⟩
  · exact ⟨stop, hk, hb, h⟩

/-! ### lengths of list derivations -/

theorem sepBy_len {β : Type} {p : SP β} (stop : Token)
    (hitem : ∀ st a r1, (a, r1) ∈ p (abs st) →
        (r1.head? = some comma ∨ r1.head? = some (litTok stop)) →
        ∃ st1 : PState, abs st1 = r1 ∧ st1.toks.length < st.toks.length)
    {xs : List β} {ts r : List STok} (h : SepBy p comma xs ts r)
    (st : PState) (hts : ts = abs st) (hr : r.head? = some (litTok stop)) :
    r.length < st.toks.length := by
  induction h generalizing st with
  | one h1 =>
    subst hts
    obtain ⟨st1, rfl, hl⟩ := hitem _ _ _ h1 (.inr hr)
    rw [abs_length_tc]; exact hl
  | oneTrail h1 =>
    subst hts
    obtain ⟨st1, habs, hl⟩ := hitem _ _ _ h1 (.inl rfl)
    have := congrArg List.length habs
    rw [abs_length_tc] at this
    simp at this; omega
  | cons h1 _ ih =>
    subst hts
    obtain ⟨st1, habs, hl⟩ := hitem _ _ _ h1 (.inl rfl)
    rw [comma_eq] at habs
    obtain ⟨hp1, habs2⟩ := abs_adv_of_cons (k := .Comma) rfl habs
    have hl1 := len_of_nextTok hp1
    have := ih (adv st1) habs2.symm hr
    omega

theorem many_len {β : Type} {p : SP β}
    (hitem : ∀ st a r1, (a, r1) ∈ p (abs st) →
        ∃ st1 : PState, abs st1 = r1 ∧ st1.toks.length < st.toks.length)
    {xs : List β} {ts r : List STok} (h : Many p xs ts r)
    (st : PState) (hts : ts = abs st) :
    r.length ≤ st.toks.length := by
  induction h generalizing st with
  | nil => subst hts; rw [abs_length_tc]; exact Nat.le_refl _
  | cons h1 _ ih =>
    subst hts
    obtain ⟨st1, rfl, hl⟩ := hitem _ _ _ h1
    have := ih st1 rfl
    omega

/-- a bracketed comma-separated nonempty list (`list1`) -/
theorem delimited_list1 {α β : Type} (stop : Token) (peeks : List Token) (item : PState → PR α)
    (er : α → β) (p : SP β) (hstop : isLit stop = true) (hne : stop ≠ .Comma)
    (hitem : ∀ st a r1, (a, r1) ∈ p (abs st) →
        (r1.head? = some comma ∨ r1.head? = some (litTok stop)) →
        ∃ x st1, item st = .ok (x, st1) ∧ er x = a ∧ abs st1 = r1 ∧
          st1.toks.length < st.toks.length ∧ peekIn st peeks = true ∧ peekTok st ≠ some stop)
    {xs : List β} {r1 r : List STok} (n : Nat) (st : PState)
    (h : (xs, r1) ∈ list1 p n (abs st)) (hr : r1 = litTok stop :: r) (fuel : Nat)
    (hfuel : n + 2 ≤ fuel) :
    ∃ ys st', parseDelimited stop true peeks item fuel st = .ok (ys, st') ∧ ys.map er = xs ∧
      ys.isEmpty = false ∧ peekIn st peeks = true ∧
      nextTok st' = some stop ∧ abs (adv st') = r ∧ st'.toks.length < st.toks.length := by
  obtain ⟨hsep, hlen⟩ := (mem_list1 _ _ _ _ _).mp h
  have hstop' : r1.head? = some (litTok stop) := by rw [hr]; rfl
  obtain ⟨ys, st', hdel, hys, habs⟩ := parseDelimited_commas_complete stop peeks item er p hstop hne
    hitem hsep st rfl hstop' fuel (.inl (by omega))
  have hl := sepBy_len stop (fun st a r1 ha hf => by
    obtain ⟨x, st1, _, _, h3, h4, _⟩ := hitem st a r1 ha hf
    exact ⟨st1, h3, h4⟩) hsep st rfl hstop'
  rw [← habs, abs_length_tc] at hl
  rw [hr] at habs
  obtain ⟨hp, habs2⟩ := abs_adv_of_cons hstop habs
  have hin : peekIn st peeks = true := by
    cases hsep with
    | one h1 => obtain ⟨_, _, _, _, _, _, h5, _⟩ := hitem _ _ _ h1 (.inr hstop'); exact h5
    | oneTrail h1 => obtain ⟨_, _, _, _, _, _, h5, _⟩ := hitem _ _ _ h1 (.inl rfl); exact h5
    | cons h1 _ => obtain ⟨_, _, _, _, _, _, h5, _⟩ := hitem _ _ _ h1 (.inl rfl); exact h5
  refine ⟨ys, st', hdel, hys, ?_, hin, hp, habs2, hl⟩
  have := hsep.ne_nil
  cases ys with
  | nil => simp at hys; exact absurd hys.symm this.symm
  | cons => rfl



theorem parseOptional_of_peek {α} {st : PState} {k : Token} (cb : PState → PR α)
    (h : nextTok st = some k) :
    parseOptional st k cb = (cb (adv st) >>= fun p => .ok (some p.1, p.2)) := by
  cases hcb : cb (adv st) with
  | ok v => obtain ⟨a, st'⟩ := v; exact parseOptional_some h hcb
  | error e =>
    have ⟨h1, h2, _⟩ := toks_of_nextTok h
    rw [tok?_eq_some] at h2
    unfold parseOptional PState.peek
    rw [h1]
    simp only [List.head?_cons, h2, if_true, parseToken_ok h, hcb]
    rfl



theorem gType_first {g : Nat} {st : PState} {x : Ty} {r : List STok}
    (h : (x, r) ∈ gType g (abs st)) : peekIn st typePeeks = true := by
  cases g with
  | zero => simp [gType] at h
  | succ g =>
    simp [gType, mem_gId, and_assoc] at h
    simp only [peekIn_iff, typePeeks]
    rcases h with h|h|h|h|h|h|h|h|h|h|h|h|h|h|h|h|h|h|h|h <;>
      exact ⟨_, peekTok_of_nextTok h.1, by decide⟩

theorem mem_gTypeOrHole {g : Nat} {st : PState} {x : Option Ty} {r : List STok} :
    (x, r) ∈ gTypeOrHole g (abs st) ↔ ∃ g', g = g' + 1 ∧
      ((nextTok st = some .Underscore ∧ x = none ∧ r = abs (adv st)) ∨
       (∃ ty, (ty, r) ∈ gType g' (abs st) ∧ x = some ty)) := by
  cases g with
  | zero => simp [gTypeOrHole]
  | succ g => simp [gTypeOrHole, and_assoc]



/-- `type | '_'` inside `result<…>` as the parser reads it -/
def holeP (pf : Nat) (st : PState) : PR (Option Ty) :=
  if peekIs st .Underscore then (.ok (none, st.next.2) : PR (Option Ty))
  else if peekIn st typePeeks then do
    let (t, st) ← parseType pf st
    .ok (some t, st)
  else .error (lookaheadError st (.Underscore :: typePeeks))

theorem parseType_result (pf : Nat) (st : PState) (h : nextTok st = some .ResultKeyword) :
    parseType (pf + 1) st = (do
      let (kw, st) ← parseToken st .ResultKeyword
      let inner (st : PState) : PR (Option Ty × Option Ty × Span) := do
        let (ok, st) ← holeP pf st
        let (err, st) ← parseOptional st .Comma (holeP pf)
        let (close, st) ← parseToken st .CloseAngle
        .ok ((ok, err.getD none, kw.span.cover close.span), st)
      let (r, st) ← parseOptional st .OpenAngle inner
      match r with
      | some (ok, err, span) => .ok (.Result ok err span, st)
      | none => .ok (.Result none none kw.span, st)) := by
  simp only [parseType, peekTok_of_nextTok h]
  rfl



/-- completeness of `parseType` at grammar fuel `g` -/
def CT (g : Nat) : Prop := Complete eraseTy parseType gType (FollowLit [.OpenAngle]) g

theorem holeP_complete {g pf : Nat} (ih : ∀ g', g' < g → CT g') {st : PState} {x : Option Ty}
    {r : List STok} (h : (x, r) ∈ gTypeOrHole g (abs st)) (hf : FollowLit [.OpenAngle] r)
    (hpf : g + 1 ≤ pf) :
    ∃ o st', holeP pf st = .ok (o, st') ∧ eraseTyOpt o = x ∧ abs st' = r ∧
      st'.toks.length < st.toks.length := by
  obtain ⟨g', hg, h2⟩ := mem_gTypeOrHole.mp h
  subst hg
  rcases h2 with ⟨k1, rfl, rfl⟩ | ⟨ty, hty, rfl⟩
  · have l1 := len_of_nextTok k1
    refine ⟨none, adv st, ?_, rfl, rfl, by omega⟩
    simp [holeP, k1, adv]
  · obtain ⟨t0, st', ht0, rfl, rfl, hl⟩ := ih g' (by omega) _ _ _ hty hf pf (by omega)
    have hin := gType_first hty
    have hnu : peekIs st .Underscore = false :=
      (peekIs_false_iff _ _).mpr (peekTok_ne_of_peekIn hin (by decide))
    refine ⟨some t0, st', ?_, rfl, rfl, hl⟩
    simp [holeP, hnu, hin, ht0]


theorem parseType_complete_step (g : Nat) (ih : ∀ g', g' ≤ g → CT g') : CT (g + 1) := by
  intro st x r h hfollow pf hpf
  obtain ⟨pf, rfl⟩ : ∃ p, pf = p + 1 := ⟨pf - 1, by omega⟩
  simp [gType, mem_gId, and_assoc] at h
  rcases h with ⟨k1, rfl, rfl⟩ | ⟨k1, rfl, rfl⟩ | ⟨k1, rfl, rfl⟩ | ⟨k1, rfl, rfl⟩ | ⟨k1, rfl, rfl⟩ |
    ⟨k1, rfl, rfl⟩ | ⟨k1, rfl, rfl⟩ | ⟨k1, rfl, rfl⟩ | ⟨k1, rfl, rfl⟩ | ⟨k1, rfl, rfl⟩ |
    ⟨k1, rfl, rfl⟩ | ⟨k1, rfl, rfl⟩ | ⟨k1, rfl, rfl⟩ |
    ⟨k1, k2, a, b, hl, hclose, rfl⟩ | ⟨k1, k2, a, b, ha, hclose, rfl⟩ | ⟨k1, k2, a, b, ha, hclose, rfl⟩ |
    ⟨k1, rfl, rfl⟩ |
    ⟨k1, k2, a, b, ha, (⟨o2, b2, ⟨a2, ⟨u, b1, hcomma, ha2⟩, rfl⟩, hclose, rfl⟩ | ⟨hclose, rfl⟩)⟩ |
    ⟨k1, k2, k3, k4, rfl, rfl⟩ | ⟨k1, rfl, rfl⟩
  iterate 13
    (have l1 := len_of_nextTok k1
     simp only [parseType, peekTok_of_nextTok k1, next_of_nextTok k1, Except.ok.injEq, Prod.mk.injEq]
     exact ⟨_, _, ⟨rfl, rfl⟩, by simp [eraseTy], rfl, by omega⟩)
  · -- tuple
    have hr1 := head_of_mem_t hclose
    have l1 := len_of_nextTok k1
    have l2 := len_of_nextTok k2
    obtain ⟨ys, st4, hdel, rfl, hne, hin, k5, habs5, hl4⟩ :=
      delimited_list1 .CloseAngle typePeeks (parseType pf) eraseTy (gType g) rfl (by decide)
        (fun st a r1 ha hf => by
          obtain ⟨x, st1, h1, h2, h3, h4⟩ := ih g (Nat.le_refl _) st a r1 ha
            (FollowLit.of_sep rfl (by decide) (by decide) hf) pf (by omega)
          exact ⟨x, st1, h1, h2, h3, h4, gType_first ha,
            peekTok_ne_of_peekIn (gType_first ha) (by decide)⟩)
        g (adv (adv st)) hl hr1 pf (by omega)
    have l5 := len_of_nextTok k5
    simp only [parseType, peekTok_of_nextTok k1, parseToken_ok k1, parseToken_ok k2, hin, hdel, hne, parseToken_ok k5,
      Except.ok_bind, Bool.not_true, Bool.false_eq_true, if_false, Except.ok.injEq, Prod.mk.injEq]
    exact ⟨_, _, ⟨rfl, rfl⟩, by simp [eraseTy, eraseTys_eq_map], habs5, by omega⟩
  · -- list
    have hr1 := head_of_mem_t hclose
    obtain ⟨t0, st3, ht0, rfl, rfl, hl3⟩ := ih g (Nat.le_refl _) _ _ _ ha
      (FollowLit.of_cons (k := .CloseAngle) rfl (by decide) hr1) pf (by omega)
    obtain ⟨k4, habs4⟩ := abs_adv_of_cons (k := .CloseAngle) rfl hr1
    have l1 := len_of_nextTok k1
    have l2 := len_of_nextTok k2
    have l4 := len_of_nextTok k4
    simp only [parseType, peekTok_of_nextTok k1, parseToken_ok k1, parseToken_ok k2, ht0, parseToken_ok k4,
      Except.ok_bind, Except.ok.injEq, Prod.mk.injEq]
    exact ⟨_, _, ⟨rfl, rfl⟩, by simp [eraseTy], habs4, by omega⟩
  · -- option
    have hr1 := head_of_mem_t hclose
    obtain ⟨t0, st3, ht0, rfl, rfl, hl3⟩ := ih g (Nat.le_refl _) _ _ _ ha
      (FollowLit.of_cons (k := .CloseAngle) rfl (by decide) hr1) pf (by omega)
    obtain ⟨k4, habs4⟩ := abs_adv_of_cons (k := .CloseAngle) rfl hr1
    have l1 := len_of_nextTok k1
    have l2 := len_of_nextTok k2
    have l4 := len_of_nextTok k4
    simp only [parseType, peekTok_of_nextTok k1, parseToken_ok k1, parseToken_ok k2, ht0, parseToken_ok k4,
      Except.ok_bind, Except.ok.injEq, Prod.mk.injEq]
    exact ⟨_, _, ⟨rfl, rfl⟩, by simp [eraseTy], habs4, by omega⟩
  · -- result
    have l1 := len_of_nextTok k1
    rw [parseType_result pf st k1]
    simp only [parseToken_ok k1, parseOptional_none (hfollow.peekTok_ne (k := .OpenAngle) (by simp)) hfollow.peekErr,
      Except.ok_bind, Except.ok.injEq, Prod.mk.injEq]
    exact ⟨_, _, ⟨rfl, rfl⟩, by simp [eraseTy, eraseTyOpt], rfl, by omega⟩
  · -- result<ok, err>
    have hb := (mem_t _ _ _ _).mp hcomma
    have hr1 := head_of_mem_t hclose
    obtain ⟨o, st3, ho, rfl, habs3, hl3⟩ := holeP_complete (g := g) (pf := pf)
      (fun g' hg' => ih g' (by omega)) ha
      (FollowLit.of_cons (k := .Comma) rfl (by decide) hb) (by omega)
    obtain ⟨k4, rfl⟩ := abs_adv_of_cons (k := .Comma) rfl (habs3.trans hb)
    obtain ⟨o2, st5, ho2, rfl, rfl, hl5⟩ := holeP_complete (g := g) (pf := pf)
      (fun g' hg' => ih g' (by omega)) ha2
      (FollowLit.of_cons (k := .CloseAngle) rfl (by decide) hr1) (by omega)
    obtain ⟨k6, habs6⟩ := abs_adv_of_cons (k := .CloseAngle) rfl hr1
    have l1 := len_of_nextTok k1
    have l2 := len_of_nextTok k2
    have l4 := len_of_nextTok k4
    have l6 := len_of_nextTok k6
    rw [parseType_result pf st k1]
    simp only [parseToken_ok k1, parseOptional_of_peek _ k2, ho, parseOptional_of_peek _ k4, ho2,
      parseToken_ok k6, Except.ok_bind, Option.getD_some, Except.ok.injEq, Prod.mk.injEq]
    exact ⟨_, _, ⟨rfl, rfl⟩, by simp [eraseTy], habs6, by omega⟩
  · -- result<ok>
    have hr1 := head_of_mem_t hclose
    obtain ⟨o, st3, ho, rfl, rfl, hl3⟩ := holeP_complete (g := g) (pf := pf)
      (fun g' hg' => ih g' (by omega)) ha
      (FollowLit.of_cons (k := .CloseAngle) rfl (by decide) hr1) (by omega)
    obtain ⟨k4, habs4⟩ := abs_adv_of_cons (k := .CloseAngle) rfl hr1
    have hnc : peekTok st3 ≠ some .Comma := by rw [peekTok_of_nextTok k4]; decide
    have l1 := len_of_nextTok k1
    have l2 := len_of_nextTok k2
    have l4 := len_of_nextTok k4
    rw [parseType_result pf st k1]
    simp only [parseToken_ok k1, parseOptional_of_peek _ k2, ho, parseOptional_none hnc
      (peekErr_of_nextTok k4), parseToken_ok k4, Except.ok_bind, Option.getD_none,
      Except.ok.injEq, Prod.mk.injEq]
    exact ⟨_, _, ⟨rfl, rfl⟩, by simp [eraseTy, eraseTyOpt], habs4, by omega⟩
  · -- borrow
    have l1 := len_of_nextTok k1
    have l2 := len_of_nextTok k2
    have l3 := len_of_nextTok k3
    have l4 := len_of_nextTok k4
    simp only [parseType, peekTok_of_nextTok k1, parseToken_ok k1, parseToken_ok k2, parseIdent_ok k3, parseToken_ok k4,
      Except.ok_bind, Except.ok.injEq, Prod.mk.injEq]
    exact ⟨_, _, ⟨rfl, rfl⟩, by simp [eraseTy, erase_identAt], rfl, by omega⟩
  · -- identifier
    have l1 := len_of_nextTok k1
    simp only [parseType, peekTok_of_nextTok k1, parseIdent_ok k1, Except.ok_bind, Except.ok.injEq, Prod.mk.injEq]
    exact ⟨_, _, ⟨rfl, rfl⟩, by simp [eraseTy, erase_identAt], rfl, by omega⟩


/-- completeness of `parseType`, for every grammar fuel -/
theorem parseType_complete (gf : Nat) :
    Complete eraseTy parseType gType (FollowLit [.OpenAngle]) gf := by
  induction gf using Nat.strongRecOn with
  | _ gf ih =>
    cases gf with
    | zero => intro st x r h; simp [gType] at h
    | succ g => exact parseType_complete_step g (fun g' hg' => ih g' (by omega))



theorem gNamedType_first {g : Nat} {st : PState} {x : NamedType} {r : List STok}
    (h : (x, r) ∈ gNamedType g (abs st)) : peekTok st = some .Ident := by
  simp [gNamedType, mem_gId, and_assoc] at h
  exact peekTok_of_nextTok h.1

theorem parseNamedType_complete (gf : Nat) :
    Complete eraseNamedType parseNamedType gNamedType (FollowLit [.OpenAngle]) gf := by
  intro st x r h hf pf hpf
  simp [gNamedType, mem_gId, and_assoc] at h
  obtain ⟨k1, k2, ty, hty, rfl⟩ := h
  obtain ⟨t0, st3, ht0, rfl, rfl, hl3⟩ := parseType_complete gf _ _ _ hty hf pf hpf
  have l1 := len_of_nextTok k1
  have l2 := len_of_nextTok k2
  simp only [parseNamedType, parseIdent_ok k1, parseToken_ok k2, ht0, Except.ok_bind,
    Except.ok.injEq, Prod.mk.injEq]
  exact ⟨_, _, ⟨rfl, rfl⟩, by simp [eraseNamedType, erase_identAt], rfl, by omega⟩

/-- a bracketed comma-separated possibly empty list (`list0`) -/
theorem delimited_list0 {α β : Type} (stop : Token) (peeks : List Token) (item : PState → PR α)
    (er : α → β) (p : SP β) (hstop : isLit stop = true) (hne : stop ≠ .Comma)
    (hitem : ∀ st a r1, (a, r1) ∈ p (abs st) →
        (r1.head? = some comma ∨ r1.head? = some (litTok stop)) →
        ∃ x st1, item st = .ok (x, st1) ∧ er x = a ∧ abs st1 = r1 ∧
          st1.toks.length < st.toks.length ∧ peekIn st peeks = true ∧ peekTok st ≠ some stop)
    {xs : List β} {r1 r : List STok} (n : Nat) (st : PState)
    (h : (xs, r1) ∈ list0 p n (abs st)) (hr : r1 = litTok stop :: r) (fuel : Nat)
    (hfuel : n + 2 ≤ fuel) :
    ∃ ys st', parseDelimited stop true peeks item fuel st = .ok (ys, st') ∧ ys.map er = xs ∧
      nextTok st' = some stop ∧ abs (adv st') = r ∧ st'.toks.length ≤ st.toks.length := by
  rcases (mem_list0 _ _ _ _ _).mp h with h1 | ⟨rfl, rfl⟩
  · obtain ⟨ys, st', h1, h2, _, _, h5, h6, h7⟩ := delimited_list1 stop peeks item er p hstop hne hitem
      n st ((mem_list1 _ _ _ _ _).mpr h1) hr fuel hfuel
    exact ⟨ys, st', h1, h2, h5, h6, by omega⟩
  · obtain ⟨hp, habs⟩ := abs_adv_of_cons hstop hr
    obtain ⟨f, rfl⟩ : ∃ f, fuel = f + 1 := ⟨fuel - 1, by omega⟩
    exact ⟨[], st, parseDelimited_nil _ _ _ _ _ _ hp, rfl, hp, habs, Nat.le_refl _⟩



/-- `'(' params? ')'` against the parser's `parse_delimited` over named types -/
theorem paramList_complete {g pf : Nat} (hpf : g + 2 ≤ pf) {st : PState} {ps : List NamedType}
    {r : List STok} (h : (ps, r) ∈ gParamList g (abs st)) :
    nextTok st = some .OpenParen ∧ ∃ ys st',
      parseDelimited .CloseParen true [.Ident] (parseNamedType pf) pf (adv st) = .ok (ys, st') ∧
      ys.map eraseNamedType = ps ∧ nextTok st' = some .CloseParen ∧ abs (adv st') = r ∧
      st'.toks.length ≤ (adv st).toks.length := by
  simp [gParamList, and_assoc] at h
  obtain ⟨k1, a, b, hl, hclose, rfl⟩ := h
  have hr1 := head_of_mem_t hclose
  exact ⟨k1, delimited_list0 .CloseParen [.Ident] (parseNamedType pf) eraseNamedType (gNamedType g)
    rfl (by decide)
    (fun st a r1 ha hf => by
      obtain ⟨x, st1, h1, h2, h3, h4⟩ := parseNamedType_complete g st a r1 ha
        (FollowLit.of_sep (stop := .CloseParen) rfl (by decide) (by decide) hf) pf hpf
      exact ⟨x, st1, h1, h2, h3, h4, by simp [peekIn_iff, gNamedType_first ha],
        by simp [gNamedType_first ha]⟩)
    g (adv st) hl hr1 pf hpf⟩

theorem gFuncType_first {g : Nat} {st : PState} {x : FuncType} {r : List STok}
    (h : (x, r) ∈ gFuncType g (abs st)) : peekTok st = some .FuncKeyword := by
  simp [gFuncType, and_assoc] at h
  exact peekTok_of_nextTok h.1

theorem parseFuncType_complete (gf : Nat) :
    Complete eraseFuncType parseFuncType gFuncType (FollowLit [.OpenAngle, .Arrow]) gf := by
  intro st x r h hf pf hpf
  simp [gFuncType, and_assoc] at h
  obtain ⟨k1, ps, r1, hps, hres⟩ := h
  obtain ⟨k2, ys, st4, hdel, rfl, k5, rfl, hl4⟩ := paramList_complete hpf hps
  have l1 := len_of_nextTok k1
  have l2 := len_of_nextTok k2
  have l5 := len_of_nextTok k5
  rcases hres with ⟨o, ⟨ty, ⟨u, b, harrow, hty⟩, rfl⟩, rfl⟩ | ⟨rfl, rfl⟩
  · rw [mem_t_Arrow] at harrow
    obtain ⟨k6, rfl⟩ := harrow
    have l6 := len_of_nextTok k6
    obtain ⟨t0, st7, ht0, rfl, rfl, hl7⟩ := parseType_complete gf _ _ _ hty
      (hf.mono (by simp)) pf hpf
    have hin := gType_first hty
    simp only [parseFuncType, parseToken_ok k1, parseToken_ok k2, hdel, parseToken_ok k5,
      parseOptional_of_peek _ k6, parseResultList, hin, ht0, Except.ok_bind, if_true,
      Except.ok.injEq, Prod.mk.injEq]
    exact ⟨_, _, ⟨rfl, rfl⟩, by simp [eraseFuncType, eraseResultList], rfl, by omega⟩
  · have hno : peekTok (adv st4) ≠ some .Arrow := hf.peekTok_ne (by simp)
    simp only [parseFuncType, parseToken_ok k1, parseToken_ok k2, hdel, parseToken_ok k5,
      parseOptional_none hno hf.peekErr, Except.ok_bind, Except.ok.injEq, Prod.mk.injEq]
    exact ⟨_, _, ⟨rfl, rfl⟩, by simp [eraseFuncType, eraseResultList], rfl, by omega⟩

theorem parseFuncTypeRef_complete (gf : Nat) :
    Complete eraseFuncTypeRef parseFuncTypeRef gFuncTypeRef (FollowLit [.OpenAngle, .Arrow]) gf := by
  intro st x r h hf pf hpf
  simp [gFuncTypeRef, mem_gId, and_assoc] at h
  rcases h with ⟨f, hfn, rfl⟩ | ⟨k1, rfl, rfl⟩
  · have k1 := gFuncType_first hfn
    obtain ⟨f0, st', h0, rfl, rfl, hl⟩ := parseFuncType_complete gf _ _ _ hfn hf pf hpf
    simp only [parseFuncTypeRef, k1, h0, Except.ok_bind, Except.ok.injEq, Prod.mk.injEq]
    exact ⟨_, _, ⟨rfl, rfl⟩, by simp [eraseFuncTypeRef], rfl, hl⟩
  · have l1 := len_of_nextTok k1
    simp only [parseFuncTypeRef, peekTok_of_nextTok k1, parseIdent_ok k1, Except.ok_bind, Except.ok.injEq, Prod.mk.injEq]
    exact ⟨_, _, ⟨rfl, rfl⟩, by simp [eraseFuncTypeRef, erase_identAt], rfl, by omega⟩



/-- a bracketed list without separators (`many`) -/
theorem delimited_many {α β : Type} (stop : Token) (peeks : List Token) (item : PState → PR α)
    (er : α → β) (p : SP β) (hstop : isLit stop = true)
    (hitem : ∀ st a r1, (a, r1) ∈ p (abs st) →
        ∃ x st1, item st = .ok (x, st1) ∧ er x = a ∧ abs st1 = r1 ∧
          st1.toks.length < st.toks.length ∧ peekIn st peeks = true ∧ peekTok st ≠ some stop)
    {xs : List β} {r1 r : List STok} (n : Nat) (st : PState)
    (h : (xs, r1) ∈ many p n (abs st)) (hr : r1 = litTok stop :: r) (fuel : Nat)
    (hfuel : n + 1 ≤ fuel) :
    ∃ ys st', parseDelimited stop false peeks item fuel st = .ok (ys, st') ∧ ys.map er = xs ∧
      nextTok st' = some stop ∧ abs (adv st') = r ∧ st'.toks.length ≤ st.toks.length := by
  obtain ⟨hm, hlen⟩ := (mem_many _ _ _ _ _).mp h
  have hstop' : r1.head? = some (litTok stop) := by rw [hr]; rfl
  obtain ⟨ys, st', hdel, hys, habs⟩ := parseDelimited_nocommas_complete stop peeks item er p hstop
    hitem hm st rfl hstop' fuel (.inl (by omega))
  have hl := many_len (fun st a r1 ha => by
    obtain ⟨x, st1, _, _, h3, h4, _⟩ := hitem st a r1 ha
    exact ⟨st1, h3, h4⟩) hm st rfl
  rw [← habs, abs_length_tc] at hl
  rw [hr] at habs
  obtain ⟨hp, habs2⟩ := abs_adv_of_cons hstop habs
  exact ⟨ys, st', hdel, hys, hp, habs2, hl⟩

theorem gResourceItem_first {g : Nat} {st : PState} {x : ResourceMethod} {r : List STok}
    (h : (x, r) ∈ gResourceItem g (abs st)) :
    peekIn st [.ConstructorKeyword, .Ident] = true := by
  simp [gResourceItem, mem_gId, and_assoc] at h
  rw [peekIn_iff]
  rcases h with h | h <;> exact ⟨_, peekTok_of_nextTok h.1, by decide⟩

theorem parseResourceMethod_complete (gf : Nat) :
    Complete eraseResourceMethod parseResourceMethod gResourceItem (fun _ => True) gf := by
  intro st x r h _ pf hpf
  simp [gResourceItem, mem_gId, and_assoc] at h
  rcases h with ⟨k1, ps, b, hps, hsemi, rfl⟩ |
    ⟨k1, k2, (⟨k3, o, ⟨u, rfl⟩, f, b, hfn, hsemi, rfl⟩ | ⟨f, b, hfn, hsemi, rfl⟩)⟩
  · -- constructor
    obtain ⟨k2, ys, st4, hdel, rfl, k5, rfl, hl4⟩ := paramList_complete hpf hps
    have hr1 := head_of_mem_t hsemi
    obtain ⟨k6, habs6⟩ := abs_adv_of_cons (k := .Semicolon) rfl hr1
    have l1 := len_of_nextTok k1
    have l2 := len_of_nextTok k2
    have l5 := len_of_nextTok k5
    have l6 := len_of_nextTok k6
    simp only [parseResourceMethod, peekTok_of_nextTok k1, parseConstructor, parseToken_ok k1, parseToken_ok k2, hdel,
      parseToken_ok k5, parseToken_ok k6, Except.ok_bind, Except.ok.injEq, Prod.mk.injEq]
    exact ⟨_, _, ⟨rfl, rfl⟩, by simp [eraseResourceMethod], habs6, by omega⟩
  · -- static method
    have hr1 := head_of_mem_t hsemi
    obtain ⟨f0, st5, hf0, rfl, rfl, hl5⟩ := parseFuncType_complete gf _ _ _ hfn
      (FollowLit.of_cons (k := .Semicolon) rfl (by decide) hr1) pf hpf
    obtain ⟨k6, habs6⟩ := abs_adv_of_cons (k := .Semicolon) rfl hr1
    have hs : peekIs (adv (adv st)) .StaticKeyword = true := (peekIs_iff _ _).mpr (peekTok_of_nextTok k3)
    have hadv : (adv (adv st)).next.2 = adv (adv (adv st)) := rfl
    have l1 := len_of_nextTok k1
    have l2 := len_of_nextTok k2
    have l3 := len_of_nextTok k3
    have l6 := len_of_nextTok k6
    simp only [parseResourceMethod, peekTok_of_nextTok k1, parseMethod, parseIdent_ok k1, parseToken_ok k2, hs, if_true,
      hadv, hf0, parseToken_ok k6, Except.ok_bind, Except.ok.injEq, Prod.mk.injEq]
    exact ⟨_, _, ⟨rfl, rfl⟩, by simp [eraseResourceMethod, erase_identAt], habs6, by omega⟩
  · -- method
    have hr1 := head_of_mem_t hsemi
    obtain ⟨f0, st5, hf0, rfl, rfl, hl5⟩ := parseFuncType_complete gf _ _ _ hfn
      (FollowLit.of_cons (k := .Semicolon) rfl (by decide) hr1) pf hpf
    obtain ⟨k6, habs6⟩ := abs_adv_of_cons (k := .Semicolon) rfl hr1
    have kf := gFuncType_first hfn
    have hs : peekIs (adv (adv st)) .StaticKeyword = false :=
      (peekIs_false_iff _ _).mpr (by rw [kf]; decide)
    have l1 := len_of_nextTok k1
    have l2 := len_of_nextTok k2
    have l6 := len_of_nextTok k6
    simp only [parseResourceMethod, peekTok_of_nextTok k1, parseMethod, parseIdent_ok k1, parseToken_ok k2, hs,
      Bool.false_eq_true, if_false, hf0, parseToken_ok k6, Except.ok_bind, Except.ok.injEq,
      Prod.mk.injEq]
    exact ⟨_, _, ⟨rfl, rfl⟩, by simp [eraseResourceMethod, erase_identAt], habs6, by omega⟩

theorem gResourceDecl_first {g : Nat} {st : PState} {x : ResourceDecl} {r : List STok}
    (h : (x, r) ∈ gResourceDecl g (abs st)) : peekTok st = some .ResourceKeyword := by
  simp [gResourceDecl, mem_gId, and_assoc] at h
  exact peekTok_of_nextTok h.1

theorem parseResourceDecl_complete (gf : Nat) :
    Complete eraseResourceDecl parseResourceDecl gResourceDecl (fun _ => True) gf := by
  intro st x r h _ pf hpf
  simp [gResourceDecl, mem_gId, and_assoc] at h
  rcases h with ⟨k1, k2, (⟨k3, rfl, rfl⟩ | ⟨k3, ms, b, hms, hclose, rfl⟩)⟩
  · have l1 := len_of_nextTok k1
    have l2 := len_of_nextTok k2
    have l3 := len_of_nextTok k3
    have hadv : (adv (adv st)).next.2 = adv (adv (adv st)) := rfl
    simp only [parseResourceDecl, parseToken_ok k1, parseIdent_ok k2, peekTok_of_nextTok k3, hadv, Except.ok_bind,
      Except.ok.injEq, Prod.mk.injEq]
    exact ⟨_, _, ⟨rfl, rfl⟩, by simp [eraseResourceDecl, erase_identAt], rfl, by omega⟩
  · have hr1 := head_of_mem_t hclose
    obtain ⟨ys, st5, hdel, rfl, k6, habs6, hl5⟩ := delimited_many .CloseBrace
      [.ConstructorKeyword, .Ident] (parseResourceMethod pf) eraseResourceMethod (gResourceItem gf) rfl
      (fun st a r1 ha => by
        obtain ⟨x, st1, h1, h2, h3, h4⟩ := parseResourceMethod_complete gf st a r1 ha trivial pf hpf
        exact ⟨x, st1, h1, h2, h3, h4, gResourceItem_first ha,
          peekTok_ne_of_peekIn (gResourceItem_first ha) (by decide)⟩)
      gf (adv (adv (adv st))) hms hr1 pf (by omega)
    have l1 := len_of_nextTok k1
    have l2 := len_of_nextTok k2
    have l3 := len_of_nextTok k3
    have l6 := len_of_nextTok k6
    simp only [parseResourceDecl, parseToken_ok k1, parseIdent_ok k2, peekTok_of_nextTok k3, parseToken_ok k3, hdel,
      parseToken_ok k6, Except.ok_bind, Except.ok.injEq, Prod.mk.injEq]
    exact ⟨_, _, ⟨rfl, rfl⟩, by simp [eraseResourceDecl, erase_identAt], habs6, by omega⟩



/-! ### variants -/

/-- `variant-case ::= id ('(' type ')')?` (inline in `gVariantDecl`; the same definition as
`gVariantCase` of `TypeSound.lean`, which this file does not import) -/
def gVariantCaseC (g : Nat) : SP VariantCase := do
  let id ← gId
  let ty ← opt (do t "("; let ty ← gType g; t ")"; pure ty)
  pure (⟨[], id, ty⟩ : VariantCase)

theorem gVariantDecl_eqC (g : Nat) : gVariantDecl g = (do
    t "variant"; let id ← gId; t "{"
    let cases ← list1 (gVariantCaseC g) g
    t "}"; pure ⟨[], id, cases⟩) := rfl

theorem gVariantCaseC_first {g : Nat} {st : PState} {x : VariantCase} {r : List STok}
    (h : (x, r) ∈ gVariantCaseC g (abs st)) : peekTok st = some .Ident := by
  simp [gVariantCaseC, mem_gId, and_assoc] at h
  exact peekTok_of_nextTok h.1

theorem parseVariantCase_complete (gf : Nat) :
    Complete eraseVariantCase parseVariantCase gVariantCaseC (FollowLit [.OpenParen]) gf := by
  intro st x r h hf pf hpf
  simp [gVariantCaseC, mem_gId, and_assoc] at h
  rcases h with ⟨k1, (⟨k2, o, ⟨ty', ⟨a, b, hty, hclose, rfl⟩, rfl⟩, rfl⟩ | ⟨rfl, rfl⟩)⟩
  · have hr1 := head_of_mem_t hclose
    obtain ⟨t0, st3, ht0, rfl, rfl, hl3⟩ := parseType_complete gf _ _ _ hty
      (FollowLit.of_cons (k := .CloseParen) rfl (by decide) hr1) pf hpf
    obtain ⟨k4, habs4⟩ := abs_adv_of_cons (k := .CloseParen) rfl hr1
    have l1 := len_of_nextTok k1
    have l2 := len_of_nextTok k2
    have l4 := len_of_nextTok k4
    simp only [parseVariantCase, parseIdent_ok k1, parseOptional_of_peek _ k2, ht0, parseToken_ok k4,
      Except.ok_bind, Except.ok.injEq, Prod.mk.injEq]
    exact ⟨_, _, ⟨rfl, rfl⟩, by simp [eraseVariantCase, erase_identAt], habs4, by omega⟩
  · have hno : peekTok (adv st) ≠ some .OpenParen := hf.peekTok_ne (by simp)
    have l1 := len_of_nextTok k1
    simp only [parseVariantCase, parseIdent_ok k1, parseOptional_none hno hf.peekErr,
      Except.ok_bind, Except.ok.injEq, Prod.mk.injEq]
    exact ⟨_, _, ⟨rfl, rfl⟩, by simp [eraseVariantCase, erase_identAt], rfl, by omega⟩

theorem gVariantDecl_first {g : Nat} {st : PState} {x : VariantDecl} {r : List STok}
    (h : (x, r) ∈ gVariantDecl g (abs st)) : peekTok st = some .VariantKeyword := by
  rw [gVariantDecl_eqC] at h
  simp [mem_gId, and_assoc] at h
  exact peekTok_of_nextTok h.1

theorem parseVariantDecl_complete (gf : Nat) :
    Complete eraseVariantDecl parseVariantDecl gVariantDecl (fun _ => True) gf := by
  intro st x r h _ pf hpf
  rw [gVariantDecl_eqC] at h
  simp [mem_gId, and_assoc] at h
  obtain ⟨k1, k2, k3, a, b, hl, hclose, rfl⟩ := h
  have hr1 := head_of_mem_t hclose
  obtain ⟨ys, st5, hdel, rfl, hne, _, k6, habs6, hl5⟩ :=
    delimited_list1 .CloseBrace [.Ident] (parseVariantCase pf) eraseVariantCase (gVariantCaseC gf) rfl
      (by decide)
      (fun st a r1 ha hf => by
        obtain ⟨x, st1, h1, h2, h3, h4⟩ := parseVariantCase_complete gf st a r1 ha
          (FollowLit.of_sep (stop := .CloseBrace) rfl (by decide) (by decide) hf) pf hpf
        exact ⟨x, st1, h1, h2, h3, h4, by simp [peekIn_iff, gVariantCaseC_first ha],
          by simp [gVariantCaseC_first ha]⟩)
      gf (adv (adv (adv st))) hl hr1 pf (by omega)
  have l1 := len_of_nextTok k1
  have l2 := len_of_nextTok k2
  have l3 := len_of_nextTok k3
  have l6 := len_of_nextTok k6
  simp only [parseVariantDecl, parseToken_ok k1, parseIdent_ok k2, parseToken_ok k3, hdel,
    parseToken_ok k6, hne, Bool.false_eq_true, if_false, Except.ok_bind, Except.ok.injEq,
    Prod.mk.injEq]
  exact ⟨_, _, ⟨rfl, rfl⟩, by simp [eraseVariantDecl, erase_identAt], habs6, by omega⟩

/-! ### records -/

/-- `field ::= named-type` (inline in `gRecordDecl`) -/
def gFieldC (g : Nat) : SP Field := do
  let n ← gNamedType g
  pure (⟨[], n.id, n.ty⟩ : Field)

theorem gRecordDecl_eqC (g : Nat) : gRecordDecl g = (do
    t "record"; let id ← gId; t "{"
    let fields ← list1 (gFieldC g) g
    t "}"; pure ⟨[], id, fields⟩) := rfl

theorem gFieldC_first {g : Nat} {st : PState} {x : Field} {r : List STok}
    (h : (x, r) ∈ gFieldC g (abs st)) : peekTok st = some .Ident := by
  simp [gFieldC] at h
  obtain ⟨n, hn, _⟩ := h
  exact gNamedType_first hn

theorem parseField_complete (gf : Nat) :
    Complete eraseField parseField gFieldC (FollowLit [.OpenAngle]) gf := by
  intro st x r h hf pf hpf
  simp [gFieldC] at h
  obtain ⟨n, hn, rfl⟩ := h
  obtain ⟨n0, st1, h0, rfl, rfl, hl⟩ := parseNamedType_complete gf _ _ _ hn hf pf hpf
  simp only [parseField, h0, Except.ok_bind, Except.ok.injEq, Prod.mk.injEq]
  exact ⟨_, _, ⟨rfl, rfl⟩, by simp [eraseField, eraseNamedType], rfl, hl⟩

theorem gRecordDecl_first {g : Nat} {st : PState} {x : RecordDecl} {r : List STok}
    (h : (x, r) ∈ gRecordDecl g (abs st)) : peekTok st = some .RecordKeyword := by
  rw [gRecordDecl_eqC] at h
  simp [mem_gId, and_assoc] at h
  exact peekTok_of_nextTok h.1

theorem parseRecordDecl_complete (gf : Nat) :
    Complete eraseRecordDecl parseRecordDecl gRecordDecl (fun _ => True) gf := by
  intro st x r h _ pf hpf
  rw [gRecordDecl_eqC] at h
  simp [mem_gId, and_assoc] at h
  obtain ⟨k1, k2, k3, a, b, hl, hclose, rfl⟩ := h
  have hr1 := head_of_mem_t hclose
  obtain ⟨ys, st5, hdel, rfl, hne, _, k6, habs6, hl5⟩ :=
    delimited_list1 .CloseBrace [.Ident] (parseField pf) eraseField (gFieldC gf) rfl
      (by decide)
      (fun st a r1 ha hf => by
        obtain ⟨x, st1, h1, h2, h3, h4⟩ := parseField_complete gf st a r1 ha
          (FollowLit.of_sep (stop := .CloseBrace) rfl (by decide) (by decide) hf) pf hpf
        exact ⟨x, st1, h1, h2, h3, h4, by simp [peekIn_iff, gFieldC_first ha],
          by simp [gFieldC_first ha]⟩)
      gf (adv (adv (adv st))) hl hr1 pf (by omega)
  have l1 := len_of_nextTok k1
  have l2 := len_of_nextTok k2
  have l3 := len_of_nextTok k3
  have l6 := len_of_nextTok k6
  simp only [parseRecordDecl, parseToken_ok k1, parseIdent_ok k2, parseToken_ok k3, hdel,
    parseToken_ok k6, hne, Bool.false_eq_true, if_false, Except.ok_bind, Except.ok.injEq,
    Prod.mk.injEq]
  exact ⟨_, _, ⟨rfl, rfl⟩, by simp [eraseRecordDecl, erase_identAt], habs6, by omega⟩



/-! ### flags and enums -/

def gFlagC : SP Flag := do let id ← gId; pure (⟨[], id⟩ : Flag)
def gEnumCaseC : SP EnumCase := do let id ← gId; pure (⟨[], id⟩ : EnumCase)

theorem gFlagsDecl_eqC (g : Nat) : gFlagsDecl g = (do
    t "flags"; let id ← gId; t "{"
    let flags ← list1 gFlagC g
    t "}"; pure ⟨[], id, flags⟩) := rfl

theorem gEnumDecl_eqC (g : Nat) : gEnumDecl g = (do
    t "enum"; let id ← gId; t "{"
    let cases ← list1 gEnumCaseC g
    t "}"; pure ⟨[], id, cases⟩) := rfl

theorem gFlagsDecl_first {g : Nat} {st : PState} {x : FlagsDecl} {r : List STok}
    (h : (x, r) ∈ gFlagsDecl g (abs st)) : peekTok st = some .FlagsKeyword := by
  rw [gFlagsDecl_eqC] at h
  simp [mem_gId, and_assoc] at h
  exact peekTok_of_nextTok h.1

theorem gEnumDecl_first {g : Nat} {st : PState} {x : EnumDecl} {r : List STok}
    (h : (x, r) ∈ gEnumDecl g (abs st)) : peekTok st = some .EnumKeyword := by
  rw [gEnumDecl_eqC] at h
  simp [mem_gId, and_assoc] at h
  exact peekTok_of_nextTok h.1

theorem parseFlagsDecl_complete (gf : Nat) :
    Complete eraseFlagsDecl parseFlagsDecl gFlagsDecl (fun _ => True) gf := by
  intro st x r h _ pf hpf
  rw [gFlagsDecl_eqC] at h
  simp [mem_gId, and_assoc] at h
  obtain ⟨k1, k2, k3, a, b, hl, hclose, rfl⟩ := h
  have hr1 := head_of_mem_t hclose
  obtain ⟨ys, st5, hdel, rfl, hne, _, k6, habs6, hl5⟩ :=
    delimited_list1 .CloseBrace [.Ident] parseFlag eraseFlag gFlagC rfl (by decide)
      (fun st a r1 ha _ => by
        simp [gFlagC, mem_gId] at ha
        obtain ⟨i, ⟨k1, rfl, rfl⟩, rfl⟩ := ha
        have l1 := len_of_nextTok k1
        refine ⟨⟨parseDocs st, identAt (tokAt st)⟩, adv st, ?_, by simp [eraseFlag, erase_identAt],
          rfl, by omega, by simp [peekIn_iff, k1], by simp [k1]⟩
        simp [parseFlag, parseIdent_ok k1])
      gf (adv (adv (adv st))) hl hr1 pf (by omega)
  have l1 := len_of_nextTok k1
  have l2 := len_of_nextTok k2
  have l3 := len_of_nextTok k3
  have l6 := len_of_nextTok k6
  simp only [parseFlagsDecl, parseToken_ok k1, parseIdent_ok k2, parseToken_ok k3, hdel,
    parseToken_ok k6, hne, Bool.false_eq_true, if_false, Except.ok_bind, Except.ok.injEq,
    Prod.mk.injEq]
  exact ⟨_, _, ⟨rfl, rfl⟩, by simp [eraseFlagsDecl, erase_identAt], habs6, by omega⟩

theorem parseEnumDecl_complete (gf : Nat) :
    Complete eraseEnumDecl parseEnumDecl gEnumDecl (fun _ => True) gf := by
  intro st x r h _ pf hpf
  rw [gEnumDecl_eqC] at h
  simp [mem_gId, and_assoc] at h
  obtain ⟨k1, k2, k3, a, b, hl, hclose, rfl⟩ := h
  have hr1 := head_of_mem_t hclose
  obtain ⟨ys, st5, hdel, rfl, hne, _, k6, habs6, hl5⟩ :=
    delimited_list1 .CloseBrace [.Ident] parseEnumCase eraseEnumCase gEnumCaseC rfl (by decide)
      (fun st a r1 ha _ => by
        simp [gEnumCaseC, mem_gId] at ha
        obtain ⟨i, ⟨k1, rfl, rfl⟩, rfl⟩ := ha
        have l1 := len_of_nextTok k1
        refine ⟨⟨parseDocs st, identAt (tokAt st)⟩, adv st, ?_,
          by simp [eraseEnumCase, erase_identAt], rfl, by omega, by simp [peekIn_iff, k1],
          by simp [k1]⟩
        simp [parseEnumCase, parseIdent_ok k1])
      gf (adv (adv (adv st))) hl hr1 pf (by omega)
  have l1 := len_of_nextTok k1
  have l2 := len_of_nextTok k2
  have l3 := len_of_nextTok k3
  have l6 := len_of_nextTok k6
  simp only [parseEnumDecl, parseToken_ok k1, parseIdent_ok k2, parseToken_ok k3, hdel,
    parseToken_ok k6, hne, Bool.false_eq_true, if_false, Except.ok_bind, Except.ok.injEq,
    Prod.mk.injEq]
  exact ⟨_, _, ⟨rfl, rfl⟩, by simp [eraseEnumDecl, erase_identAt], habs6, by omega⟩

/-! ### type aliases -/

theorem gTypeAlias_first {g : Nat} {st : PState} {x : TypeAlias} {r : List STok}
    (h : (x, r) ∈ gTypeAlias g (abs st)) : peekTok st = some .TypeKeyword := by
  simp [gTypeAlias, mem_gId, and_assoc] at h
  exact peekTok_of_nextTok h.1

theorem parseTypeAlias_complete (gf : Nat) :
    Complete eraseTypeAlias parseTypeAlias gTypeAlias (fun _ => True) gf := by
  intro st x r h _ pf hpf
  simp [gTypeAlias, mem_gId, and_assoc] at h
  rcases h with ⟨k1, k2, k3, (⟨kind, b, ⟨f, hfn, rfl⟩, hsemi, rfl⟩ | ⟨kind, b, ⟨ty, hty, rfl⟩, hsemi, rfl⟩)⟩
  · have hr1 := head_of_mem_t hsemi
    obtain ⟨f0, st5, hf0, rfl, rfl, hl5⟩ := parseFuncType_complete gf _ _ _ hfn
      (FollowLit.of_cons (k := .Semicolon) rfl (by decide) hr1) pf hpf
    obtain ⟨k6, habs6⟩ := abs_adv_of_cons (k := .Semicolon) rfl hr1
    have hfk : peekIs (adv (adv (adv st))) .FuncKeyword = true :=
      (peekIs_iff _ _).mpr (gFuncType_first hfn)
    have l1 := len_of_nextTok k1
    have l2 := len_of_nextTok k2
    have l3 := len_of_nextTok k3
    have l6 := len_of_nextTok k6
    simp only [parseTypeAlias, parseToken_ok k1, parseIdent_ok k2, parseToken_ok k3,
      parseTypeAliasKind, hfk, if_true, hf0, parseToken_ok k6, Except.ok_bind, Except.ok.injEq,
      Prod.mk.injEq]
    exact ⟨_, _, ⟨rfl, rfl⟩, by simp [eraseTypeAlias, eraseTypeAliasKind, erase_identAt], habs6,
      by omega⟩
  · have hr1 := head_of_mem_t hsemi
    obtain ⟨t0, st5, ht0, rfl, rfl, hl5⟩ := parseType_complete gf _ _ _ hty
      (FollowLit.of_cons (k := .Semicolon) rfl (by decide) hr1) pf hpf
    obtain ⟨k6, habs6⟩ := abs_adv_of_cons (k := .Semicolon) rfl hr1
    have hin := gType_first hty
    have hfk : peekIs (adv (adv (adv st))) .FuncKeyword = false :=
      (peekIs_false_iff _ _).mpr (peekTok_ne_of_peekIn hin (by decide))
    have l1 := len_of_nextTok k1
    have l2 := len_of_nextTok k2
    have l3 := len_of_nextTok k3
    have l6 := len_of_nextTok k6
    simp only [parseTypeAlias, parseToken_ok k1, parseIdent_ok k2, parseToken_ok k3,
      parseTypeAliasKind, hfk, Bool.false_eq_true, if_false, hin, if_true, ht0, parseToken_ok k6,
      Except.ok_bind, Except.ok.injEq, Prod.mk.injEq]
    exact ⟨_, _, ⟨rfl, rfl⟩, by simp [eraseTypeAlias, eraseTypeAliasKind, erase_identAt], habs6,
      by omega⟩

/-! ### type declarations -/

theorem gTypeDecl_first {g : Nat} {st : PState} {x : TypeDecl} {r : List STok}
    (h : (x, r) ∈ gTypeDecl g (abs st)) : peekIn st typeDeclPeeks = true := by
  simp [gTypeDecl] at h
  rw [peekIn_iff]
  rcases h with ⟨a, h, _⟩ | ⟨a, h, _⟩ | ⟨a, h, _⟩ | ⟨a, h, _⟩ | ⟨a, h, _⟩
  · exact ⟨_, gVariantDecl_first h, by decide⟩
  · exact ⟨_, gRecordDecl_first h, by decide⟩
  · exact ⟨_, gFlagsDecl_first h, by decide⟩
  · exact ⟨_, gEnumDecl_first h, by decide⟩
  · exact ⟨_, gTypeAlias_first h, by decide⟩

theorem parseTypeDecl_complete (gf : Nat) :
    Complete eraseTypeDecl parseTypeDecl gTypeDecl (fun _ => True) gf := by
  intro st x r h _ pf hpf
  simp [gTypeDecl] at h
  rcases h with ⟨a, h, rfl⟩ | ⟨a, h, rfl⟩ | ⟨a, h, rfl⟩ | ⟨a, h, rfl⟩ | ⟨a, h, rfl⟩
  · have k1 := gVariantDecl_first h
    obtain ⟨d, st', h0, rfl, rfl, hl⟩ := parseVariantDecl_complete gf _ _ _ h trivial pf hpf
    simp only [parseTypeDecl, k1, h0, Except.ok_bind, Except.ok.injEq, Prod.mk.injEq]
    exact ⟨_, _, ⟨rfl, rfl⟩, by simp [eraseTypeDecl], rfl, hl⟩
  · have k1 := gRecordDecl_first h
    obtain ⟨d, st', h0, rfl, rfl, hl⟩ := parseRecordDecl_complete gf _ _ _ h trivial pf hpf
    simp only [parseTypeDecl, k1, h0, Except.ok_bind, Except.ok.injEq, Prod.mk.injEq]
    exact ⟨_, _, ⟨rfl, rfl⟩, by simp [eraseTypeDecl], rfl, hl⟩
  · have k1 := gFlagsDecl_first h
    obtain ⟨d, st', h0, rfl, rfl, hl⟩ := parseFlagsDecl_complete gf _ _ _ h trivial pf hpf
    simp only [parseTypeDecl, k1, h0, Except.ok_bind, Except.ok.injEq, Prod.mk.injEq]
    exact ⟨_, _, ⟨rfl, rfl⟩, by simp [eraseTypeDecl], rfl, hl⟩
  · have k1 := gEnumDecl_first h
    obtain ⟨d, st', h0, rfl, rfl, hl⟩ := parseEnumDecl_complete gf _ _ _ h trivial pf hpf
    simp only [parseTypeDecl, k1, h0, Except.ok_bind, Except.ok.injEq, Prod.mk.injEq]
    exact ⟨_, _, ⟨rfl, rfl⟩, by simp [eraseTypeDecl], rfl, hl⟩
  · have k1 := gTypeAlias_first h
    obtain ⟨d, st', h0, rfl, rfl, hl⟩ := parseTypeAlias_complete gf _ _ _ h trivial pf hpf
    simp only [parseTypeDecl, k1, h0, Except.ok_bind, Except.ok.injEq, Prod.mk.injEq]
    exact ⟨_, _, ⟨rfl, rfl⟩, by simp [eraseTypeDecl], rfl, hl⟩

theorem gItemTypeDecl_first {g : Nat} {st : PState} {x : ItemTypeDecl} {r : List STok}
    (h : (x, r) ∈ gItemTypeDecl g (abs st)) : peekIn st itemTypeDeclPeeks = true := by
  simp [gItemTypeDecl] at h
  rcases h with ⟨a, h, _⟩ | ⟨a, h, _⟩
  · rw [peekIn_iff]; exact ⟨_, gResourceDecl_first h, by decide⟩
  · obtain ⟨k, hk, hm⟩ := (peekIn_iff _ _).mp (gTypeDecl_first h)
    rw [peekIn_iff]
    exact ⟨k, hk, List.mem_cons_of_mem _ hm⟩

theorem parseItemTypeDecl_complete (gf : Nat) :
    Complete eraseItemTypeDecl parseItemTypeDecl gItemTypeDecl (fun _ => True) gf := by
  intro st x r h _ pf hpf
  simp [gItemTypeDecl] at h
  rcases h with ⟨a, h, rfl⟩ | ⟨a, h, rfl⟩
  · have k1 := gResourceDecl_first h
    obtain ⟨d, st', h0, rfl, rfl, hl⟩ := parseResourceDecl_complete gf _ _ _ h trivial pf hpf
    simp only [parseItemTypeDecl, k1, h0, Except.ok_bind, Except.ok.injEq, Prod.mk.injEq]
    exact ⟨_, _, ⟨rfl, rfl⟩, by simp [eraseItemTypeDecl], rfl, hl⟩
  · simp [gTypeDecl] at h
    rcases h with ⟨a, h, rfl⟩ | ⟨a, h, rfl⟩ | ⟨a, h, rfl⟩ | ⟨a, h, rfl⟩ | ⟨a, h, rfl⟩
    · have k1 := gVariantDecl_first h
      obtain ⟨d, st', h0, rfl, rfl, hl⟩ := parseVariantDecl_complete gf _ _ _ h trivial pf hpf
      simp only [parseItemTypeDecl, k1, h0, Except.ok_bind, Except.ok.injEq, Prod.mk.injEq]
      exact ⟨_, _, ⟨rfl, rfl⟩, by simp [eraseItemTypeDecl], rfl, hl⟩
    · have k1 := gRecordDecl_first h
      obtain ⟨d, st', h0, rfl, rfl, hl⟩ := parseRecordDecl_complete gf _ _ _ h trivial pf hpf
      simp only [parseItemTypeDecl, k1, h0, Except.ok_bind, Except.ok.injEq, Prod.mk.injEq]
      exact ⟨_, _, ⟨rfl, rfl⟩, by simp [eraseItemTypeDecl], rfl, hl⟩
    · have k1 := gFlagsDecl_first h
      obtain ⟨d, st', h0, rfl, rfl, hl⟩ := parseFlagsDecl_complete gf _ _ _ h trivial pf hpf
      simp only [parseItemTypeDecl, k1, h0, Except.ok_bind, Except.ok.injEq, Prod.mk.injEq]
      exact ⟨_, _, ⟨rfl, rfl⟩, by simp [eraseItemTypeDecl], rfl, hl⟩
    · have k1 := gEnumDecl_first h
      obtain ⟨d, st', h0, rfl, rfl, hl⟩ := parseEnumDecl_complete gf _ _ _ h trivial pf hpf
      simp only [parseItemTypeDecl, k1, h0, Except.ok_bind, Except.ok.injEq, Prod.mk.injEq]
      exact ⟨_, _, ⟨rfl, rfl⟩, by simp [eraseItemTypeDecl], rfl, hl⟩
    · have k1 := gTypeAlias_first h
      obtain ⟨d, st', h0, rfl, rfl, hl⟩ := parseTypeAlias_complete gf _ _ _ h trivial pf hpf
      simp only [parseItemTypeDecl, k1, h0, Except.ok_bind, Except.ok.injEq, Prod.mk.injEq]
      exact ⟨_, _, ⟨rfl, rfl⟩, by simp [eraseItemTypeDecl], rfl, hl⟩

end Wac.C12
