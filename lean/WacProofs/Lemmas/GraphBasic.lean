import WacModel.Spec.Graph
import WacProofs.Lemmas.HashSites
/-
  Basic facts about the graph model's primitives (node slots, free list, association lists)
  used by the invariant-preservation proofs of C06.
-/
namespace Wac.Graph
open Wac Wac.HashSites

/-! ### node slots -/

theorem node?_eq_some_lt {g : Graph} {n : Nat} {nd : Node} (h : g.node? n = some nd) : n < g.nodes.length := by
  unfold Graph.node? at h
  rcases Nat.lt_or_ge n g.nodes.length with hl | hl
  · exact hl
  · rw [List.getElem?_eq_none hl] at h; simp at h

theorem node?_of_ge {g : Graph} {n : Nat} (h : g.nodes.length ≤ n) : g.node? n = none := by
  unfold Graph.node?
  rw [List.getElem?_eq_none h]; rfl

theorem live_iff {g : Graph} {n : Nat} : g.live n = true ↔ ∃ nd, g.node? n = some nd := by
  unfold Graph.live
  cases g.node? n <;> simp

theorem node?_congr {g g' : Graph} (h : g'.nodes = g.nodes) (m : Nat) : g'.node? m = g.node? m := by
  unfold Graph.node?; rw [h]

/-- a graph whose slots are `g.nodes.set i x`, `i` in range -/
theorem node?_set {g g' : Graph} {i : Nat} {x : Option Node} (h : g'.nodes = g.nodes.set i x)
    (hi : i < g.nodes.length) (m : Nat) : g'.node? m = if m = i then x else g.node? m := by
  unfold Graph.node?
  rw [h]
  by_cases hm : m = i
  · subst hm; simp [List.getElem?_set_self hi]
  · rw [List.getElem?_set_ne (Ne.symm hm)]; simp [hm]

/-- a graph whose slots are `g.nodes ++ [x]` -/
theorem node?_append {g g' : Graph} {x : Option Node} (h : g'.nodes = g.nodes ++ [x]) (m : Nat) :
    g'.node? m = if m = g.nodes.length then x else g.node? m := by
  unfold Graph.node?
  rw [h]
  by_cases hm : m = g.nodes.length
  · subst hm; simp
  · simp only [hm, ↓reduceIte]
    rcases Nat.lt_or_ge m g.nodes.length with hl | hl
    · rw [List.getElem?_append_left hl]
    · have : g.nodes.length < m := Nat.lt_of_le_of_ne hl (Ne.symm hm)
      rw [List.getElem?_eq_none (by simp; omega), List.getElem?_eq_none hl]

/-- the part of the invariant about the node free list -/
structure FreeInv (g : Graph) : Prop where
  nodup : g.freeNodes.Nodup
  vacant : ∀ i ∈ g.freeNodes, i < g.nodes.length ∧ g.node? i = none
  all : ∀ i, i < g.nodes.length → g.node? i = none → i ∈ g.freeNodes

theorem Inv.free {ctx : Ctx} {g : Graph} (h : Inv ctx g) : FreeInv g :=
  ⟨h.freeNodesNodup, h.freeNodesVacant, fun i hi hn => h.vacantFree i (List.mem_range.mpr hi) hn⟩

/-- `add_node`: the slot it returns was vacant, every other slot is unchanged -/
theorem addNode_spec {g : Graph} (f : FreeInv g) (nd : Node) :
    let r := g.addNode nd
    g.node? r.2 = none ∧ (∀ m, r.1.node? m = if m = r.2 then some nd else g.node? m) ∧ FreeInv r.1 ∧
    r.1.edges = g.edges ∧ r.1.imports = g.imports ∧ r.1.exports = g.exports ∧ r.1.defined = g.defined ∧
    r.1.pkgMap = g.pkgMap ∧ r.1.pkgs = g.pkgs ∧ r.1.freePkgs = g.freePkgs ∧ r.2 < r.1.nodes.length := by
  unfold Graph.addNode
  cases hfree : g.freeNodes with
  | nil =>
    dsimp only
    have hnode : ∀ (g' : Graph), g'.nodes = g.nodes ++ [some nd] → ∀ m, g'.node? m =
        if m = g.nodes.length then some nd else g.node? m := fun g' h m => node?_append h m
    refine ⟨node?_of_ge (Nat.le_refl _), hnode _ rfl, ?_, rfl, rfl, rfl, rfl, rfl, rfl, rfl, ?_⟩
    · refine ⟨by simp, by simp, ?_⟩
      intro i hi hn
      simp only [List.length_append, List.length_cons, List.length_nil] at hi
      rw [hnode _ rfl] at hn
      by_cases h : i = g.nodes.length
      · simp [h] at hn
      · simp only [h, ↓reduceIte] at hn
        have := f.all i (by omega) hn
        rw [hfree] at this; cases this
    · simp
  | cons i r =>
    dsimp only
    have hi := f.vacant i (by rw [hfree]; exact List.mem_cons_self ..)
    have hnd := f.nodup
    rw [hfree, List.nodup_cons] at hnd
    have hnode : ∀ (g' : Graph), g'.nodes = g.nodes.set i (some nd) → ∀ m, g'.node? m =
        if m = i then some nd else g.node? m := fun g' h m => node?_set h hi.1 m
    refine ⟨hi.2, hnode _ rfl, ?_, rfl, rfl, rfl, rfl, rfl, rfl, rfl, ?_⟩
    · refine ⟨hnd.2, ?_, ?_⟩
      · intro j hj
        have hj' := f.vacant j (by rw [hfree]; exact List.mem_cons_of_mem _ hj)
        refine ⟨by simpa using hj'.1, ?_⟩
        rw [hnode _ rfl]
        have : j ≠ i := fun e => hnd.1 (e ▸ hj)
        simp [this, hj'.2]
      · intro j hj hn
        simp only [List.length_set] at hj
        rw [hnode _ rfl] at hn
        by_cases h : j = i
        · simp [h] at hn
        · simp only [h, ↓reduceIte] at hn
          have := f.all j hj hn
          rw [hfree] at this
          rcases List.mem_cons.mp this with e | e
          · exact absurd e h
          · exact e
    · simpa using hi.1

/-- overwriting a live slot keeps the free-list invariant -/
theorem setNode_free {g : Graph} (f : FreeInv g) {n : Nat} {old : Node} (hl : g.node? n = some old) (nd : Node) :
    FreeInv (g.setNode n nd) ∧ ∀ m, (g.setNode n nd).node? m = if m = n then some nd else g.node? m := by
  have hn := node?_eq_some_lt hl
  have hnode : ∀ m, (g.setNode n nd).node? m = if m = n then some nd else g.node? m :=
    fun m => node?_set rfl hn m
  refine ⟨⟨f.nodup, ?_, ?_⟩, hnode⟩
  · intro i hi
    have := f.vacant i hi
    refine ⟨by simpa [Graph.setNode] using this.1, ?_⟩
    rw [hnode]
    have : i ≠ n := fun e => by rw [e, hl] at this; simp at this
    simp [this, (f.vacant i hi).2]
  · intro i hi hv
    simp only [Graph.setNode, List.length_set] at hi
    rw [hnode] at hv
    by_cases h : i = n
    · simp [h] at hv
    · simp only [h, ↓reduceIte] at hv
      exact f.all i hi hv

/-! ### association lists -/

theorem alGet_eq_some_mem {κ β : Type} [DecidableEq κ] {l : List (κ × β)} {k : κ} {v : β}
    (h : alGet l k = some v) : (k, v) ∈ l := by
  induction l with
  | nil => simp [alGet] at h
  | cons x r ih =>
    rw [alGet_cons] at h
    split at h
    · rename_i hk
      simp only [Option.some.injEq] at h
      obtain ⟨a, b⟩ := x
      simp only at hk h
      subst hk; subst h
      exact List.mem_cons_self ..
    · exact List.mem_cons_of_mem _ (ih h)

theorem alGet_isSome_iff {κ β : Type} [DecidableEq κ] {l : List (κ × β)} {k : κ} :
    (alGet l k).isSome = true ↔ k ∈ l.map (·.1) := by
  induction l with
  | nil => simp [alGet]
  | cons x r ih =>
    rw [alGet_cons]
    by_cases h : x.1 = k
    · simp [h]
    · simp only [h, ↓reduceIte, ih, List.map_cons, List.mem_cons]
      constructor
      · exact Or.inr
      · rintro (e | e)
        · exact absurd e.symm h
        · exact e

theorem alGet_none_iff {κ β : Type} [DecidableEq κ] {l : List (κ × β)} {k : κ} :
    alGet l k = none ↔ k ∉ l.map (·.1) := by
  rw [← alGet_isSome_iff]
  cases alGet l k <;> simp

/-- keys after `alInsert` of a fresh key -/
theorem alInsert_fresh {κ β : Type} [DecidableEq κ] (l : List (κ × β)) (k : κ) (v : β)
    (h : k ∉ l.map (·.1)) : alInsert l k v = l ++ [(k, v)] := by
  induction l with
  | nil => rfl
  | cons x r ih =>
    obtain ⟨a, b⟩ := x
    simp only [List.map_cons, List.mem_cons, not_or] at h
    unfold alInsert
    rw [if_neg (fun e => h.1 e.symm), ih h.2]
    rfl

theorem alErase_sublist {κ β : Type} [DecidableEq κ] (l : List (κ × β)) (k : κ) : (alErase l k).Sublist l := by
  induction l with
  | nil => exact List.Sublist.refl _
  | cons x r ih =>
    obtain ⟨a, b⟩ := x
    unfold alErase
    split
    · exact List.sublist_cons_self ..
    · exact ih.cons₂ _

theorem alErase_mem {κ β : Type} [DecidableEq κ] {l : List (κ × β)} {k : κ} (nd : (l.map (·.1)).Nodup)
    (e : κ × β) : e ∈ alErase l k ↔ e ∈ l ∧ e.1 ≠ k := by
  induction l with
  | nil => simp [alErase]
  | cons x r ih =>
    obtain ⟨a, b⟩ := x
    simp only [List.map_cons, List.nodup_cons] at nd
    unfold alErase
    split
    · rename_i hk
      subst hk
      constructor
      · intro he
        refine ⟨List.mem_cons_of_mem _ he, fun eq => nd.1 (eq ▸ List.mem_map_of_mem (f := (·.1)) he)⟩
      · rintro ⟨he, hne⟩
        rcases List.mem_cons.mp he with rfl | he
        · exact absurd rfl hne
        · exact he
    · rename_i hk
      simp only [List.mem_cons, ih nd.2]
      constructor
      · rintro (rfl | ⟨h1, h2⟩)
        · exact ⟨Or.inl rfl, hk⟩
        · exact ⟨Or.inr h1, h2⟩
      · rintro ⟨rfl | h1, h2⟩
        · exact Or.inl rfl
        · exact Or.inr ⟨h1, h2⟩

/-- `swap_remove` keeps exactly the other entries -/
theorem alSwapRemove_perm {κ β : Type} [DecidableEq κ] (l : List (κ × β)) (k : κ) :
    (alSwapRemove l k).Perm (alErase l k) := by
  induction l with
  | nil => exact List.Perm.refl _
  | cons x r ih =>
    obtain ⟨a, b⟩ := x
    unfold alSwapRemove alErase
    split
    · cases hr : r.getLast? with
      | none =>
        have : r = [] := by simpa using hr
        subst this; exact List.Perm.refl _
      | some l =>
        simp only
        obtain ⟨ys, hys⟩ := List.getLast?_eq_some_iff.mp hr
        subst hys
        rw [List.dropLast_concat]
        exact (List.perm_append_comm (l₁ := [l]) (l₂ := ys))
    · exact ih.cons _

end Wac.Graph
