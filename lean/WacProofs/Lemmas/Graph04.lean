import WacModel.Spec.Language
import WacModel.Resolve
/-
  C04 refinement, part 1: the graph.  Append-only extension of graphs, stability of the derived
  lists (`explicitOf`, `instNodes`, `instsOf`, `implicitOf`, `exportsOf`) under the graph operations
  the resolver performs.
-/
namespace Wac.Lemmas.C04
open Wac.Lang Wac.Lang.Model

/-- what a node denotes for the specification -/
def valOf (g : Graph) (n : Nat) : Spec.Val := { prov := g.provOf n, kind := g.kindOf n }

/-! ### association lists -/

theorem alGet_append {α} (n : Str) (l₁ l₂ : List (Str × α)) :
    alGet n (l₁ ++ l₂) = (alGet n l₁).or (alGet n l₂) := by
  induction l₁ with
  | nil => simp [alGet]
  | cons a r ih =>
    obtain ⟨m, x⟩ := a
    simp only [List.cons_append, alGet]
    by_cases h : (m == n) = true
    · simp [h]
    · simp [h, ih]

theorem alHas_append {α} (n : Str) (l₁ l₂ : List (Str × α)) :
    alHas n (l₁ ++ l₂) = (alHas n l₁ || alHas n l₂) := by
  unfold alHas
  rw [alGet_append]
  cases alGet n l₁ <;> simp

theorem alGet_map {α β} (f : α → β) (n : Str) (l : List (Str × α)) :
    alGet n (l.map fun (m, a) => (m, f a)) = (alGet n l).map f := by
  induction l with
  | nil => rfl
  | cons a r ih =>
    obtain ⟨m, x⟩ := a
    simp only [List.map_cons, alGet]
    by_cases h : (m == n) = true <;> simp [h, ih]

theorem alHas_map {α β} (f : α → β) (n : Str) (l : List (Str × α)) :
    alHas n (l.map fun (m, a) => (m, f a)) = alHas n l := by
  unfold alHas
  rw [alGet_map]
  cases alGet n l <;> rfl

/-- `alHas` only depends on the keys -/
theorem alHas_keys {α β} (n : Str) (l₁ : List (Str × α)) (l₂ : List (Str × β))
    (h : l₁.map (·.1) = l₂.map (·.1)) : alHas n l₁ = alHas n l₂ := by
  induction l₁ generalizing l₂ with
  | nil =>
    cases l₂ with
    | nil => rfl
    | cons b r => simp at h
  | cons a r ih =>
    cases l₂ with
    | nil => simp at h
    | cons b r₂ =>
      obtain ⟨m, x⟩ := a
      obtain ⟨m', y⟩ := b
      simp only [List.map_cons, List.cons.injEq] at h
      obtain ⟨hm, hr⟩ := h
      subst hm
      unfold alHas alGet
      by_cases hc : (m == n) = true
      · simp [hc]
      · simp only [hc]
        exact ih r₂ hr

theorem alHas_iff_mem_keys {α} (n : Str) (l : List (Str × α)) : alHas n l = true ↔ n ∈ l.map (·.1) := by
  induction l with
  | nil => simp [alHas, alGet]
  | cons a r ih =>
    obtain ⟨m, x⟩ := a
    unfold alHas alGet
    by_cases hc : (m == n) = true
    · have : m = n := by simpa using hc
      simp [this]
    · have hne : m ≠ n := by simpa using hc
      simp only [hc]
      have ih' : (alGet n r).isSome = true ↔ n ∈ r.map (·.1) := ih
      simp only [Bool.false_eq_true, ↓reduceIte, List.map_cons, List.mem_cons]
      rw [ih']
      constructor
      · exact Or.inr
      · rintro (h | h)
        · exact absurd h.symm hne
        · exact h

/-! ### indexed lists -/

theorem indexedFrom_append {α} (i : Nat) (l₁ l₂ : List α) :
    indexedFrom i (l₁ ++ l₂) = indexedFrom i l₁ ++ indexedFrom (i + l₁.length) l₂ := by
  induction l₁ generalizing i with
  | nil => simp [indexedFrom]
  | cons a r ih =>
    simp only [List.cons_append, indexedFrom, List.length_cons]
    rw [ih]
    have : i + 1 + r.length = i + (r.length + 1) := by omega
    rw [this]

theorem indexedFrom_mem {α} (i : Nat) (l : List α) (j : Nat) (a : α) :
    (j, a) ∈ indexedFrom i l ↔ i ≤ j ∧ l[j - i]? = some a := by
  induction l generalizing i with
  | nil => simp [indexedFrom]
  | cons b r ih =>
    simp only [indexedFrom, List.mem_cons, Prod.mk.injEq]
    rw [ih]
    constructor
    · rintro (⟨rfl, rfl⟩ | ⟨h1, h2⟩)
      · simp
      · refine ⟨by omega, ?_⟩
        have : j - i = (j - (i + 1)) + 1 := by omega
        rw [this]
        simpa using h2
    · rintro ⟨h1, h2⟩
      by_cases hj : j = i
      · subst hj
        simp at h2
        exact Or.inl ⟨rfl, h2.symm⟩
      · right
        refine ⟨by omega, ?_⟩
        have : j - i = (j - (i + 1)) + 1 := by omega
        rw [this] at h2
        simpa using h2

/-! ### extension of graphs -/

/-- `g'` is `g` with more nodes (and possibly more of everything else); old nodes are untouched -/
structure Ext (g g' : Graph) : Prop where
  nodes : ∃ extra, g'.nodes = g.nodes ++ extra
  packages : ∃ extra, g'.packages = g.packages ++ extra

theorem Ext.refl (g : Graph) : Ext g g := ⟨⟨[], by simp⟩, ⟨[], by simp⟩⟩

theorem Ext.trans {a b c : Graph} (h₁ : Ext a b) (h₂ : Ext b c) : Ext a c := by
  obtain ⟨⟨e1, h1⟩, ⟨p1, q1⟩⟩ := h₁
  obtain ⟨⟨e2, h2⟩, ⟨p2, q2⟩⟩ := h₂
  exact ⟨⟨e1 ++ e2, by rw [h2, h1, List.append_assoc]⟩, ⟨p1 ++ p2, by rw [q2, q1, List.append_assoc]⟩⟩

theorem Ext.length_le {g g' : Graph} (h : Ext g g') : g.nodes.length ≤ g'.nodes.length := by
  obtain ⟨⟨e, he⟩, _⟩ := h
  rw [he]; simp

theorem Ext.node {g g' : Graph} (h : Ext g g') (n : Nat) (hn : n < g.nodes.length) : g'.node? n = g.node? n := by
  obtain ⟨⟨e, he⟩, _⟩ := h
  unfold Graph.node?
  rw [he, List.getElem?_append_left hn]

theorem Ext.kindOf {g g' : Graph} (h : Ext g g') (n : Nat) (hn : n < g.nodes.length) : g'.kindOf n = g.kindOf n := by
  unfold Graph.kindOf; rw [h.node n hn]

theorem Ext.provOf {g g' : Graph} (h : Ext g g') (n : Nat) (hn : n < g.nodes.length) : g'.provOf n = g.provOf n := by
  unfold Graph.provOf; rw [h.node n hn]

theorem Ext.valOf {g g' : Graph} (h : Ext g g') (n : Nat) (hn : n < g.nodes.length) : valOf g' n = valOf g n := by
  unfold Wac.Lemmas.C04.valOf; rw [h.kindOf n hn, h.provOf n hn]

theorem Ext.package {g g' : Graph} (h : Ext g g') (i : Nat) (hi : i < g.packages.length) : g'.packages[i]? = g.packages[i]? := by
  obtain ⟨_, ⟨e, he⟩⟩ := h
  rw [he, List.getElem?_append_left hi]

/-! ### well-formed graphs -/

/-- provenance of a node agrees with its kind -/
def NodeOK (g : Graph) (i : Nat) (nd : Node) : Prop :=
  match nd.kind with
  | .imp name => nd.prov = .imp name
  | .inst pkg => pkg < g.packages.length ∧ ∃ k, nd.prov = .inst k
  | .alias src idx =>
    src < i ∧ ∃ es name k, (g.kindOf src).instExports = some es ∧ exportsAt es idx = some (name, k) ∧
      nd.prov = .exportOf (g.provOf src) name ∧ nd.item = k
  | .defn name => nd.prov = .defn name

structure GraphWF (g : Graph) : Prop where
  edges : ∀ e ∈ g.edges, e.src < g.nodes.length ∧ e.dst < g.nodes.length
  nodes : ∀ i nd, g.nodes[i]? = some nd → NodeOK g i nd
  exports : ∀ x ∈ g.exports, x.2 < g.nodes.length
  imports : g.imports.map (·.1) = (explicitOf g).map (·.1)

theorem NodeOK.ext {g g' : Graph} (h : Ext g g') {i : Nat} {nd : Node} (hi : i < g.nodes.length)
    (hok : NodeOK g i nd) : NodeOK g' i nd := by
  unfold NodeOK at hok ⊢
  cases hk : nd.kind with
  | imp name => rw [hk] at hok; exact hok
  | inst pkg =>
    rw [hk] at hok
    obtain ⟨_, ⟨e, he⟩⟩ := h
    exact ⟨by rw [he]; simp; omega, hok.2⟩
  | alias src idx =>
    rw [hk] at hok
    obtain ⟨hs, es, name, k, h1, h2, h3, h4⟩ := hok
    have hsl : src < g.nodes.length := by omega
    exact ⟨hs, es, name, k, by rw [h.kindOf src hsl]; exact h1, h2, by rw [h.provOf src hsl]; exact h3, h4⟩
  | defn name => rw [hk] at hok; exact hok

/-! ### the derived lists when a node is appended -/

theorem explicitOf_addNode (g : Graph) (nd : Node) (g' : Graph)
    (hn : g'.nodes = g.nodes ++ [nd]) :
    explicitOf g' = explicitOf g ++ (match nd.kind with | .imp name => [(name, nd.item)] | _ => []) := by
  unfold explicitOf
  rw [hn, List.filterMap_append]
  congr 1
  cases hk : nd.kind <;> simp [hk]

theorem instNodes_addNode (g g' : Graph) (nd : Node) (hn : g'.nodes = g.nodes ++ [nd])
    (hp : g'.packages = g.packages) :
    instNodes g' = instNodes g ++
      (match nd.kind with
       | .inst pkg => (match g.packages[pkg]? with | some p => [(g.nodes.length, p)] | none => [])
       | _ => []) := by
  unfold instNodes indexed
  rw [hn, indexedFrom_append, List.filterMap_append, hp]
  congr 1
  simp only [indexedFrom, Nat.zero_add]
  cases hk : nd.kind with
  | imp _ => simp [hk]
  | alias _ _ => simp [hk]
  | defn _ => simp [hk]
  | inst pkg => cases hp' : g.packages[pkg]? <;> simp [hk, hp']

theorem filterMap_congr_mem {α β} (f g : α → Option β) (l : List α) (h : ∀ x ∈ l, f x = g x) :
    l.filterMap f = l.filterMap g := by
  induction l with
  | nil => rfl
  | cons a r ih =>
    simp only [List.filterMap_cons]
    rw [h a List.mem_cons_self, ih (fun x hx => h x (List.mem_cons_of_mem _ hx))]

theorem any_dst_filter (l : List ArgEdge) (i idx : Nat) :
    l.any (fun e => e.dst == i && e.index == idx) = (l.filter (·.dst == i)).any (fun e => e.index == idx) := by
  induction l with
  | nil => rfl
  | cons a r ih =>
    by_cases hd : (a.dst == i) = true
    · simp only [List.filter_cons, hd, ↓reduceIte, List.any_cons, Bool.true_and, ih]
    · have : (a.dst == i) = false := by simpa using hd
      simp only [List.filter_cons, this, Bool.false_eq_true, ↓reduceIte, List.any_cons, Bool.false_and, Bool.false_or, ih]

theorem unsatisfied_congr (g g' : Graph) (i : Nat) (p : Package)
    (h : ∀ idx, g'.edges.any (fun e => e.dst == i && e.index == idx) = g.edges.any (fun e => e.dst == i && e.index == idx)) :
    unsatisfied g' i p = unsatisfied g i p := by
  unfold unsatisfied
  apply filterMap_congr_mem
  intro x _
  obtain ⟨idx, n, k⟩ := x
  simp only [h]

theorem instRecord_congr (g g' : Graph) (ip : Nat × Package)
    (he : g'.edges.filter (·.dst == ip.1) = g.edges.filter (·.dst == ip.1))
    (hp : ∀ e ∈ g.edges, g'.provOf e.src = g.provOf e.src) :
    instRecord g' ip = instRecord g ip := by
  have hu : unsatisfied g' ip.1 ip.2 = unsatisfied g ip.1 ip.2 := by
    apply unsatisfied_congr
    intro idx
    rw [any_dst_filter, any_dst_filter, he]
  unfold instRecord
  rw [hu, he]
  congr 2
  apply List.map_congr_left
  intro e hem
  rw [hp e (List.mem_filter.mp hem).1]

end Wac.Lemmas.C04
