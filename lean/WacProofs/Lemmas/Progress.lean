import WacModel.Parser
import WacProofs.Lemmas.ParserBasic
import WacProofs.Lemmas.ParseSpans
/-
  Progress: every successful parse function consumes tokens (the remaining token list gets
  shorter), which is what makes the fuel of the model sufficient.
-/
namespace Wac.Lemmas.Progress
open Wac Wac.Lex Wac.Parse Wac.Ast Wac.Lemmas.ParserBasic Wac.Lemmas.ParseSpans

theorem next_le (st : PState) : st.next.2.toks.length ≤ st.toks.length := by
  cases hts : st.toks with
  | nil => simp [(next_nil hts).2.1]
  | cons t r => simp [(next_cons hts).1]

theorem parseToken_lt {st k t st'} (h : parseToken st k = .ok (t, st')) : st'.toks.length + 1 ≤ st.toks.length := by
  unfold parseToken at h
  cases hts : st.toks with
  | nil =>
    have h1 := (next_nil hts).1
    rw [show st.next = (st.next.1, st.next.2) from rfl, h1] at h
    simp at h
  | cons t0 r =>
    obtain ⟨hr, _, _, _, _, t', h1, _⟩ := next_cons hts
    rw [show st.next = (st.next.1, st.next.2) from rfl, h1] at h
    simp only [] at h
    cases hres : t'.res with
    | error e => simp [hres] at h
    | ok found =>
      simp only [hres] at h
      split at h
      · simp at h; rw [← h.2, hr]; simp
      · simp at h

theorem parseToken_lt' {st k p} (h : parseToken st k = .ok p) : p.2.toks.length + 1 ≤ st.toks.length :=
  parseToken_lt (t := p.1) (st' := p.2) h

attribute [grind →] parseToken_lt'

/-- unfold a parse function (and `parse_optional`) in `h : parseX … = .ok p`, split everything, and let
`grind` chain the progress facts of the sub-calls -/
syntax "progress_tac " ident " with " ident,+ : tactic
macro_rules
  | `(tactic| progress_tac $h with $[$ds],*) =>
    `(tactic| (simp only [$[$ds:ident],*, parseOptional, bind, Except.bind] at $h:ident
               repeat' (split at *)
               all_goals (try contradiction)
               all_goals (try grind)))

theorem next_le' (st : PState) : st.next.snd.toks.length ≤ st.toks.length := next_le st
grind_pattern next_le' => st.next

@[grind →] theorem next_some_lt {st : PState} {t : LTok} {st' : PState} (h : st.next = (some t, st')) :
    st'.toks.length + 1 ≤ st.toks.length := by
  cases hts : st.toks with
  | nil => have := (next_nil hts).1; rw [h] at this; simp at this
  | cons t0 r =>
    have h1 := (next_cons hts).1
    rw [h] at h1
    simp only [] at h1
    simp [h1]

@[grind →] theorem parseIdent_lt {st p} (h : parseIdent st = .ok p) : p.2.toks.length + 1 ≤ st.toks.length := by
  progress_tac h with parseIdent

@[grind →] theorem parseString_lt {st p} (h : parseString st = .ok p) : p.2.toks.length + 1 ≤ st.toks.length := by
  progress_tac h with parseString

@[grind →] theorem parsePackageName_lt {st p} (h : parsePackageName st = .ok p) : p.2.toks.length + 1 ≤ st.toks.length := by
  progress_tac h with parsePackageName

@[grind →] theorem parsePackagePath_lt {st p} (h : parsePackagePath st = .ok p) : p.2.toks.length + 1 ≤ st.toks.length := by
  progress_tac h with parsePackagePath

/-- a delimited list never gives tokens back -/
theorem parseDelimited_le {α : Type} {stop : Token} {commas : Bool} {peeks : List Token}
    {item : PState → Except ParseError (α × PState)}
    (hitem : ∀ st1 q, item st1 = .ok q → q.2.toks.length + 1 ≤ st1.toks.length) :
    ∀ (fuel : Nat) (st : PState) p, parseDelimited stop commas peeks item fuel st = .ok p →
      p.2.toks.length ≤ st.toks.length := by
  intro fuel
  induction fuel with
  | zero => intro st p h; simp [parseDelimited] at h
  | succ fuel ih =>
    intro st p h
    unfold parseDelimited at h
    repeat' split at h
    all_goals (try contradiction)
    all_goals (try simp at h)
    all_goals (try grind)


/-- `parseDelimited_le` as a forward rule for a given item function -/
theorem delimited_le_of {α : Type} {stop : Token} {commas : Bool} {peeks : List Token}
    {item : PState → Except ParseError (α × PState)} {fuel : Nat} {st : PState} {p}
    (hitem : ∀ st1 q, item st1 = .ok q → q.2.toks.length + 1 ≤ st1.toks.length)
    (h : parseDelimited stop commas peeks item fuel st = .ok p) : p.2.toks.length ≤ st.toks.length :=
  parseDelimited_le hitem fuel st p h

theorem parseType_lt : ∀ (fuel : Nat) (st : PState) p, parseType fuel st = .ok p → p.2.toks.length + 1 ≤ st.toks.length := by
  intro fuel
  induction fuel with
  | zero => intro st p h; simp [parseType] at h
  | succ fuel ih =>
    intro st p h
    have hd : ∀ {stop commas peeks n st1 q}, parseDelimited stop commas peeks (parseType fuel) n st1 = .ok q →
        q.2.toks.length ≤ st1.toks.length := fun h => delimited_le_of (fun s q hq => ih s q hq) h
    simp only [parseType, parseOptional, bind, Except.bind] at h
    repeat' (split at *)
    all_goals (try contradiction)
    all_goals (try grind)

@[grind →] theorem parseType_lt' {fuel st p} (h : parseType fuel st = .ok p) : p.2.toks.length + 1 ≤ st.toks.length :=
  parseType_lt fuel st p h

@[grind →] theorem delimited_parseType_le {stop commas peeks fuel n st p}
    (h : parseDelimited stop commas peeks (parseType fuel) n st = .ok p) : p.2.toks.length ≤ st.toks.length :=
  delimited_le_of (fun _ _ hq => parseType_lt' hq) h

@[grind →] theorem parseNamedType_lt {fuel st p} (h : parseNamedType fuel st = .ok p) : p.2.toks.length + 1 ≤ st.toks.length := by
  progress_tac h with parseNamedType

@[grind →] theorem delimited_parseNamedType_le {stop commas peeks fuel n st p}
    (h : parseDelimited stop commas peeks (parseNamedType fuel) n st = .ok p) : p.2.toks.length ≤ st.toks.length :=
  delimited_le_of (fun _ _ hq => parseNamedType_lt hq) h

@[grind →] theorem parseResultList_lt {fuel st p} (h : parseResultList fuel st = .ok p) : p.2.toks.length + 1 ≤ st.toks.length := by
  progress_tac h with parseResultList

@[grind →] theorem parseFuncType_lt {fuel st p} (h : parseFuncType fuel st = .ok p) : p.2.toks.length + 1 ≤ st.toks.length := by
  progress_tac h with parseFuncType

@[grind →] theorem parseFuncTypeRef_lt {fuel st p} (h : parseFuncTypeRef fuel st = .ok p) : p.2.toks.length + 1 ≤ st.toks.length := by
  progress_tac h with parseFuncTypeRef

@[grind →] theorem parseConstructor_lt {fuel st p} (h : parseConstructor fuel st = .ok p) : p.2.toks.length + 1 ≤ st.toks.length := by
  progress_tac h with parseConstructor

@[grind →] theorem parseMethod_lt {fuel st p} (h : parseMethod fuel st = .ok p) : p.2.toks.length + 1 ≤ st.toks.length := by
  progress_tac h with parseMethod

@[grind →] theorem parseResourceMethod_lt {fuel st p} (h : parseResourceMethod fuel st = .ok p) : p.2.toks.length + 1 ≤ st.toks.length := by
  progress_tac h with parseResourceMethod

@[grind →] theorem delimited_parseResourceMethod_le {stop commas peeks fuel n st p}
    (h : parseDelimited stop commas peeks (parseResourceMethod fuel) n st = .ok p) : p.2.toks.length ≤ st.toks.length :=
  delimited_le_of (fun _ _ hq => parseResourceMethod_lt hq) h

@[grind →] theorem parseResourceDecl_lt {fuel st p} (h : parseResourceDecl fuel st = .ok p) : p.2.toks.length + 1 ≤ st.toks.length := by
  progress_tac h with parseResourceDecl

@[grind →] theorem parseVariantCase_lt {fuel st p} (h : parseVariantCase fuel st = .ok p) : p.2.toks.length + 1 ≤ st.toks.length := by
  progress_tac h with parseVariantCase

@[grind →] theorem delimited_parseVariantCase_le {stop commas peeks fuel n st p}
    (h : parseDelimited stop commas peeks (parseVariantCase fuel) n st = .ok p) : p.2.toks.length ≤ st.toks.length :=
  delimited_le_of (fun _ _ hq => parseVariantCase_lt hq) h

@[grind →] theorem parseVariantDecl_lt {fuel st p} (h : parseVariantDecl fuel st = .ok p) : p.2.toks.length + 1 ≤ st.toks.length := by
  progress_tac h with parseVariantDecl

@[grind →] theorem parseField_lt {fuel st p} (h : parseField fuel st = .ok p) : p.2.toks.length + 1 ≤ st.toks.length := by
  progress_tac h with parseField

@[grind →] theorem delimited_parseField_le {stop commas peeks fuel n st p}
    (h : parseDelimited stop commas peeks (parseField fuel) n st = .ok p) : p.2.toks.length ≤ st.toks.length :=
  delimited_le_of (fun _ _ hq => parseField_lt hq) h

@[grind →] theorem parseRecordDecl_lt {fuel st p} (h : parseRecordDecl fuel st = .ok p) : p.2.toks.length + 1 ≤ st.toks.length := by
  progress_tac h with parseRecordDecl

@[grind →] theorem parseFlag_lt {st p} (h : parseFlag st = .ok p) : p.2.toks.length + 1 ≤ st.toks.length := by
  progress_tac h with parseFlag

@[grind →] theorem delimited_parseFlag_le {stop commas peeks n st p}
    (h : parseDelimited stop commas peeks parseFlag n st = .ok p) : p.2.toks.length ≤ st.toks.length :=
  delimited_le_of (fun _ _ hq => parseFlag_lt hq) h

@[grind →] theorem parseFlagsDecl_lt {fuel st p} (h : parseFlagsDecl fuel st = .ok p) : p.2.toks.length + 1 ≤ st.toks.length := by
  progress_tac h with parseFlagsDecl

@[grind →] theorem parseEnumCase_lt {st p} (h : parseEnumCase st = .ok p) : p.2.toks.length + 1 ≤ st.toks.length := by
  progress_tac h with parseEnumCase

@[grind →] theorem delimited_parseEnumCase_le {stop commas peeks n st p}
    (h : parseDelimited stop commas peeks parseEnumCase n st = .ok p) : p.2.toks.length ≤ st.toks.length :=
  delimited_le_of (fun _ _ hq => parseEnumCase_lt hq) h

@[grind →] theorem parseEnumDecl_lt {fuel st p} (h : parseEnumDecl fuel st = .ok p) : p.2.toks.length + 1 ≤ st.toks.length := by
  progress_tac h with parseEnumDecl

@[grind →] theorem parseTypeAliasKind_lt {fuel st p} (h : parseTypeAliasKind fuel st = .ok p) : p.2.toks.length + 1 ≤ st.toks.length := by
  progress_tac h with parseTypeAliasKind

@[grind →] theorem parseTypeAlias_lt {fuel st p} (h : parseTypeAlias fuel st = .ok p) : p.2.toks.length + 1 ≤ st.toks.length := by
  progress_tac h with parseTypeAlias

@[grind →] theorem parseTypeDecl_lt {fuel st p} (h : parseTypeDecl fuel st = .ok p) : p.2.toks.length + 1 ≤ st.toks.length := by
  progress_tac h with parseTypeDecl

@[grind →] theorem parseItemTypeDecl_lt {fuel st p} (h : parseItemTypeDecl fuel st = .ok p) : p.2.toks.length + 1 ≤ st.toks.length := by
  progress_tac h with parseItemTypeDecl

@[grind →] theorem parseUsePath_lt {st p} (h : parseUsePath st = .ok p) : p.2.toks.length + 1 ≤ st.toks.length := by
  progress_tac h with parseUsePath

@[grind →] theorem parseUseItem_lt {st p} (h : parseUseItem st = .ok p) : p.2.toks.length + 1 ≤ st.toks.length := by
  progress_tac h with parseUseItem

@[grind →] theorem delimited_parseUseItem_le {stop commas peeks n st p}
    (h : parseDelimited stop commas peeks parseUseItem n st = .ok p) : p.2.toks.length ≤ st.toks.length :=
  delimited_le_of (fun _ _ hq => parseUseItem_lt hq) h

@[grind →] theorem parseUse_lt {fuel st p} (h : parseUse fuel st = .ok p) : p.2.toks.length + 1 ≤ st.toks.length := by
  progress_tac h with parseUse

@[grind →] theorem parseInterfaceExport_lt {fuel st p} (h : parseInterfaceExport fuel st = .ok p) : p.2.toks.length + 1 ≤ st.toks.length := by
  progress_tac h with parseInterfaceExport

@[grind →] theorem parseInterfaceItem_lt {fuel st p} (h : parseInterfaceItem fuel st = .ok p) : p.2.toks.length + 1 ≤ st.toks.length := by
  progress_tac h with parseInterfaceItem

@[grind →] theorem delimited_parseInterfaceItem_le {stop commas peeks fuel n st p}
    (h : parseDelimited stop commas peeks (parseInterfaceItem fuel) n st = .ok p) : p.2.toks.length ≤ st.toks.length :=
  delimited_le_of (fun _ _ hq => parseInterfaceItem_lt hq) h

@[grind →] theorem parseInterfaceDecl_lt {fuel st p} (h : parseInterfaceDecl fuel st = .ok p) : p.2.toks.length + 1 ≤ st.toks.length := by
  progress_tac h with parseInterfaceDecl

@[grind →] theorem parseInlineInterface_lt {fuel st p} (h : parseInlineInterface fuel st = .ok p) : p.2.toks.length + 1 ≤ st.toks.length := by
  progress_tac h with parseInlineInterface

@[grind →] theorem parseExternType_lt {fuel st p} (h : parseExternType fuel st = .ok p) : p.2.toks.length + 1 ≤ st.toks.length := by
  progress_tac h with parseExternType

@[grind →] theorem parseNamedWorldItem_lt {fuel st p} (h : parseNamedWorldItem fuel st = .ok p) : p.2.toks.length + 1 ≤ st.toks.length := by
  progress_tac h with parseNamedWorldItem

@[grind →] theorem parseWorldItemPath_lt {fuel st p} (h : parseWorldItemPath fuel st = .ok p) : p.2.toks.length + 1 ≤ st.toks.length := by
  progress_tac h with parseWorldItemPath

@[grind →] theorem parseWorldImport_lt {fuel st p} (h : parseWorldImport fuel st = .ok p) : p.2.toks.length + 1 ≤ st.toks.length := by
  progress_tac h with parseWorldImport

@[grind →] theorem parseWorldExport_lt {fuel st p} (h : parseWorldExport fuel st = .ok p) : p.2.toks.length + 1 ≤ st.toks.length := by
  progress_tac h with parseWorldExport

@[grind →] theorem parseWorldRef_lt {st p} (h : parseWorldRef st = .ok p) : p.2.toks.length + 1 ≤ st.toks.length := by
  progress_tac h with parseWorldRef

@[grind →] theorem parseWorldIncludeItem_lt {st p} (h : parseWorldIncludeItem st = .ok p) : p.2.toks.length + 1 ≤ st.toks.length := by
  progress_tac h with parseWorldIncludeItem

@[grind →] theorem delimited_parseWorldIncludeItem_le {stop commas peeks n st p}
    (h : parseDelimited stop commas peeks parseWorldIncludeItem n st = .ok p) : p.2.toks.length ≤ st.toks.length :=
  delimited_le_of (fun _ _ hq => parseWorldIncludeItem_lt hq) h

@[grind →] theorem parseWorldInclude_lt {fuel st p} (h : parseWorldInclude fuel st = .ok p) : p.2.toks.length + 1 ≤ st.toks.length := by
  progress_tac h with parseWorldInclude

@[grind →] theorem parseWorldItem_lt {fuel st p} (h : parseWorldItem fuel st = .ok p) : p.2.toks.length + 1 ≤ st.toks.length := by
  progress_tac h with parseWorldItem

@[grind →] theorem delimited_parseWorldItem_le {stop commas peeks fuel n st p}
    (h : parseDelimited stop commas peeks (parseWorldItem fuel) n st = .ok p) : p.2.toks.length ≤ st.toks.length :=
  delimited_le_of (fun _ _ hq => parseWorldItem_lt hq) h

@[grind →] theorem parseWorldDecl_lt {fuel st p} (h : parseWorldDecl fuel st = .ok p) : p.2.toks.length + 1 ≤ st.toks.length := by
  progress_tac h with parseWorldDecl

@[grind →] theorem parseTypeStatement_lt {fuel st p} (h : parseTypeStatement fuel st = .ok p) : p.2.toks.length + 1 ≤ st.toks.length := by
  progress_tac h with parseTypeStatement

@[grind →] theorem parseExternName_lt {st p} (h : parseExternName st = .ok p) : p.2.toks.length + 1 ≤ st.toks.length := by
  progress_tac h with parseExternName

@[grind →] theorem parseImportType_lt {fuel st p} (h : parseImportType fuel st = .ok p) : p.2.toks.length + 1 ≤ st.toks.length := by
  progress_tac h with parseImportType

@[grind →] theorem parseImportStatement_lt {fuel st p} (h : parseImportStatement fuel st = .ok p) : p.2.toks.length + 1 ≤ st.toks.length := by
  progress_tac h with parseImportStatement

@[grind →] theorem parseInstantiationArgumentName_lt {st p} (h : parseInstantiationArgumentName st = .ok p) : p.2.toks.length + 1 ≤ st.toks.length := by
  progress_tac h with parseInstantiationArgumentName

@[grind →] theorem parseAccessExpr_lt {st p} (h : parseAccessExpr st = .ok p) : p.2.toks.length + 1 ≤ st.toks.length := by
  progress_tac h with parseAccessExpr

@[grind →] theorem parseNamedAccessExpr_lt {st p} (h : parseNamedAccessExpr st = .ok p) : p.2.toks.length + 1 ≤ st.toks.length := by
  progress_tac h with parseNamedAccessExpr

theorem parsePostfix_le : ∀ (fuel : Nat) (st : PState) p, parsePostfix fuel st = .ok p → p.2.toks.length ≤ st.toks.length := by
  intro fuel
  induction fuel with
  | zero => intro st p h; simp [parsePostfix] at h
  | succ fuel ih =>
    intro st p h
    simp only [parsePostfix, bind, Except.bind] at h
    repeat' (split at *)
    all_goals (try contradiction)
    all_goals (try grind)

@[grind →] theorem parsePostfix_le' {fuel st p} (h : parsePostfix fuel st = .ok p) : p.2.toks.length ≤ st.toks.length :=
  parsePostfix_le fuel st p h

theorem exprs_lt : ∀ (fuel : Nat),
    (∀ st p, parseExpr fuel st = .ok p → p.2.toks.length + 1 ≤ st.toks.length) ∧
    (∀ st p, parsePrimaryExpr fuel st = .ok p → p.2.toks.length + 1 ≤ st.toks.length) ∧
    (∀ st p, parseInstantiationArgument fuel st = .ok p → p.2.toks.length + 1 ≤ st.toks.length) := by
  intro fuel
  induction fuel with
  | zero =>
    refine ⟨?_, ?_, ?_⟩ <;> intro st p h
    · simp [parseExpr] at h
    · simp [parsePrimaryExpr] at h
    · simp [parseInstantiationArgument] at h
  | succ fuel ih =>
    obtain ⟨ih1, ih2, ih3⟩ := ih
    have hd : ∀ {stop commas peeks n st1 q}, parseDelimited stop commas peeks (parseInstantiationArgument fuel) n st1 = .ok q →
        q.2.toks.length ≤ st1.toks.length := fun h => delimited_le_of (fun s q hq => ih3 s q hq) h
    refine ⟨?_, ?_, ?_⟩ <;> intro st p h
    · simp only [parseExpr, bind, Except.bind] at h
      repeat' (split at *)
      all_goals (try contradiction)
      all_goals (try grind)
    · simp only [parsePrimaryExpr, bind, Except.bind] at h
      repeat' (split at *)
      all_goals (try contradiction)
      all_goals (try grind)
    · simp only [parseInstantiationArgument, bind, Except.bind] at h
      repeat' (split at *)
      all_goals (try contradiction)
      all_goals (try grind)

@[grind →] theorem parseExpr_lt {fuel st p} (h : parseExpr fuel st = .ok p) : p.2.toks.length + 1 ≤ st.toks.length :=
  (exprs_lt fuel).1 st p h
@[grind →] theorem parseInstantiationArgument_lt {fuel st p} (h : parseInstantiationArgument fuel st = .ok p) :
    p.2.toks.length + 1 ≤ st.toks.length := (exprs_lt fuel).2.2 st p h

@[grind →] theorem parseLetStatement_lt {fuel st p} (h : parseLetStatement fuel st = .ok p) : p.2.toks.length + 1 ≤ st.toks.length := by
  progress_tac h with parseLetStatement

@[grind →] theorem parseExportOptions_le {st p} (h : parseExportOptions st = .ok p) : p.2.toks.length ≤ st.toks.length := by
  progress_tac h with parseExportOptions

@[grind →] theorem parseExportStatement_lt {fuel st p} (h : parseExportStatement fuel st = .ok p) : p.2.toks.length + 1 ≤ st.toks.length := by
  progress_tac h with parseExportStatement

@[grind →] theorem parseStatement_lt {fuel st p} (h : parseStatement fuel st = .ok p) : p.2.toks.length + 1 ≤ st.toks.length := by
  progress_tac h with parseStatement

@[grind →] theorem parsePackageDirective_lt {st p} (h : parsePackageDirective st = .ok p) : p.2.toks.length + 1 ≤ st.toks.length := by
  progress_tac h with parsePackageDirective

end Wac.Lemmas.Progress
