import WacModel.Spec.Plug
import WacProofs.Lemmas.GraphNoPanic2
import WacProofs.Props.C15
/-
  Helper lemmas for C10: `plug` is a composition of graph operations that keep `Inv`; the
  model's matching equals the specification's; a second offer for a satisfied import fails.
-/
namespace Wac.Graph
open Wac Wac.HashSites

/-! ### the model's matching is the specification's -/

theorem alGet_eq_find? {β : Type} (m : List (Str × β)) (k : Str) :
    (alGet m k).map (fun v => (k, v)) = m.find? (fun p => p.1 = k) := by
  induction m with
  | nil => rfl
  | cons x r ih =>
    obtain ⟨a, b⟩ := x
    rw [alGet_cons, List.find?_cons]
    by_cases h : a = k
    · subst h; simp
    · simp [h, ih]

theorem matchingImport_eq_intended (imports : List (Str × Kind)) (name : Str) :
    matchingImport imports name = intendedImport imports name := by
  unfold matchingImport intendedImport
  have h := alGet_eq_find? imports name
  cases hg : alGet imports name with
  | some k =>
    rw [hg] at h
    simp only [Option.map_some] at h
    rw [← h]
  | none =>
    rw [hg] at h
    simp only [Option.map_none] at h
    rw [← h]
    simp only
    congr 1
    funext p
    rw [Wac.Props.C15.compat_eq_spec]

/-- the pairs the code collects for one plug are the specification's offers -/
theorem plugExports_eq_offers (ctx : Ctx) (plugD socketD : PkgDef) :
    plugExports ctx plugD socketD = (offers ctx socketD plugD).map (fun p => (p.2, p.1)) := by
  unfold plugExports offers
  rw [List.map_filterMap]
  congr 1
  funext e
  obtain ⟨name, ty⟩ := e
  simp only
  rw [matchingImport_eq_intended]
  cases intendedImport socketD.imports name with
  | none => rfl
  | some p =>
    obtain ⟨imp, ik⟩ := p
    simp only
    split <;> rfl

/-! ### `plug` keeps the graph consistent -/

theorem plugOne_inv {ctx : Ctx} (si : Nat) (p : PkgId) : ∀ (l : List (Str × Str)) (g g' : Graph) (inst : Option Nat)
    (o : Option PlugOutcome), Inv ctx g → plugOne ctx si p l g inst = (g', o) → Inv ctx g'
  | [], g, g', inst, o, h, hs => by
    simp only [plugOne, Prod.mk.injEq] at hs
    rw [← hs.1]; exact h
  | (plugName, socketName) :: rest, g, g', inst, o, h, hs => by
    unfold plugOne at hs
    -- the (lazily created) instantiation
    have key : ∀ (g1 : Graph) (i : Nat), Inv ctx g1 →
        (match aliasInstanceExport ctx g1 i plugName with
          | (g2, .ok (.node a)) =>
            match setArg ctx g2 si socketName a with
            | (g3, .ok _) => plugOne ctx si p rest g3 (some i)
            | (g3, .err e) => (g3, some (.graphError e))
            | (g3, .panic s) => (g3, some (.panic s))
          | (g2, .err e) => (g2, some (.graphError e))
          | (g2, .panic s) => (g2, some (.panic s))
          | (g2, .ok _) => (g2, some (.panic .invalidNodeId))) = (g', o) → Inv ctx g' := by
      intro g1 i h1 hs1
      cases ha : aliasInstanceExport ctx g1 i plugName with
      | mk g2 oa =>
        have h2 : Inv ctx g2 := inv_aliasInstanceExport h1 ha
        rw [ha] at hs1
        cases oa with
        | ok v =>
          cases v with
          | node a =>
            simp only at hs1
            cases hsa : setArg ctx g2 si socketName a with
            | mk g3 os =>
              have h3 : Inv ctx g3 := inv_setArg h2 hsa
              rw [hsa] at hs1
              cases os with
              | ok v' => exact plugOne_inv si p rest g3 g' (some i) o h3 hs1
              | err e => simp only [Prod.mk.injEq] at hs1; rw [← hs1.1]; exact h3
              | panic s => simp only [Prod.mk.injEq] at hs1; rw [← hs1.1]; exact h3
          | unit => simp only [Prod.mk.injEq] at hs1; rw [← hs1.1]; exact h2
          | pkg id => simp only [Prod.mk.injEq] at hs1; rw [← hs1.1]; exact h2
        | err e => simp only [Prod.mk.injEq] at hs1; rw [← hs1.1]; exact h2
        | panic s => simp only [Prod.mk.injEq] at hs1; rw [← hs1.1]; exact h2
    cases inst with
    | some i =>
      simp only at hs
      exact key g i h hs
    | none =>
      simp only at hs
      cases hi : instantiate g p with
      | mk g1 oi =>
        have h1 : Inv ctx g1 := inv_instantiate h hi
        rw [hi] at hs
        cases oi with
        | ok v =>
          cases v with
          | node i => simp only at hs; exact key g1 i h1 hs
          | unit => simp only [Prod.mk.injEq] at hs; rw [← hs.1]; exact h1
          | pkg id => simp only [Prod.mk.injEq] at hs; rw [← hs.1]; exact h1
        | err e => simp only [Prod.mk.injEq] at hs; rw [← hs.1]; exact h1
        | panic s => simp only [Prod.mk.injEq] at hs; rw [← hs.1]; exact h1

theorem plugAll_inv {ctx : Ctx} (si : Nat) (socketD : PkgDef) : ∀ (ps : List PkgId) (g g' : Graph)
    (o : Option PlugOutcome), Inv ctx g → plugAll ctx si socketD ps g = (g', o) → Inv ctx g'
  | [], g, g', o, h, hs => by
    simp only [plugAll, Prod.mk.injEq] at hs
    rw [← hs.1]; exact h
  | p :: ps, g, g', o, h, hs => by
    unfold plugAll at hs
    cases hp : g.pkgOf p with
    | error s => rw [hp] at hs; simp only [Prod.mk.injEq] at hs; rw [← hs.1]; exact h
    | ok plugD =>
      rw [hp] at hs
      simp only at hs
      cases h1 : plugOne ctx si p (plugExports ctx plugD socketD) g none with
      | mk g1 o1 =>
        have hi1 : Inv ctx g1 := plugOne_inv si p _ g g1 none o1 h h1
        rw [h1] at hs
        cases o1 with
        | some oo => simp only [Prod.mk.injEq] at hs; rw [← hs.1]; exact hi1
        | none => exact plugAll_inv si socketD ps g1 g' o hi1 hs

theorem exportSocket_inv {ctx : Ctx} (si : Nat) : ∀ (names : List Str) (g g' : Graph) (o : Option PlugOutcome),
    Inv ctx g → exportSocket ctx si names g = (g', o) → Inv ctx g'
  | [], g, g', o, h, hs => by
    simp only [exportSocket, Prod.mk.injEq] at hs
    rw [← hs.1]; exact h
  | name :: rest, g, g', o, h, hs => by
    unfold exportSocket at hs
    cases ha : aliasInstanceExport ctx g si name with
    | mk g1 oa =>
      have h1 : Inv ctx g1 := inv_aliasInstanceExport h ha
      rw [ha] at hs
      cases oa with
      | ok v =>
        cases v with
        | node a =>
          simp only at hs
          cases he : exportNode ctx g1 a name with
          | mk g2 oe =>
            have h2 : Inv ctx g2 := inv_exportNode h1 he
            rw [he] at hs
            cases oe with
            | ok v' => exact exportSocket_inv si rest g2 g' o h2 hs
            | err e => simp only [Prod.mk.injEq] at hs; rw [← hs.1]; exact h2
            | panic s => simp only [Prod.mk.injEq] at hs; rw [← hs.1]; exact h2
        | unit => simp only [Prod.mk.injEq] at hs; rw [← hs.1]; exact h1
        | pkg id => simp only [Prod.mk.injEq] at hs; rw [← hs.1]; exact h1
      | err e => simp only [Prod.mk.injEq] at hs; rw [← hs.1]; exact h1
      | panic s => simp only [Prod.mk.injEq] at hs; rw [← hs.1]; exact h1

theorem plug_inv {ctx : Ctx} {g : Graph} (h : Inv ctx g) (plugs : List PkgId) (socket : PkgId) :
    Inv ctx (plug ctx g plugs socket).1 := by
  unfold plug
  cases hp : g.pkgOf socket with
  | error s => exact h
  | ok socketD =>
    simp only
    cases hi : instantiate g socket with
    | mk g1 oi =>
      have h1 : Inv ctx g1 := inv_instantiate h hi
      cases oi with
      | ok v =>
        cases v with
        | node si =>
          simp only
          cases ha : plugAll ctx si socketD plugs g1 with
          | mk g2 o2 =>
            have h2 : Inv ctx g2 := plugAll_inv si socketD plugs g1 g2 o2 h1 ha
            cases o2 with
            | some oo => exact h2
            | none =>
              simp only
              cases hargs : getInstantiationArguments g2 si with
              | error s => exact h2
              | ok l =>
                cases l with
                | nil => exact h2
                | cons x r =>
                  simp only
                  cases he : exportSocket ctx si ((ctx.pkgExports socketD).map (·.1)) g2 with
                  | mk g3 o3 =>
                    have h3 : Inv ctx g3 := exportSocket_inv si _ g2 g3 o3 h2 he
                    cases o3 <;> exact h3
        | unit => exact h1
        | pkg id => exact h1
      | err e => exact h1
      | panic s => exact h1

end Wac.Graph
