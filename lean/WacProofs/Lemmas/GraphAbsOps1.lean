import WacProofs.Lemmas.GraphAbsBasic
import WacProofs.Lemmas.GraphInvPkg
import WacProofs.Lemmas.GraphInvExport
import WacProofs.Lemmas.GraphInvUnexport
/-
  C06 refinement: the operations that touch one node or one map entry
  (`register_package`, `import`, `instantiate`, `set_node_name`, `export`, `unexport`).
-/
namespace Wac.Graph
open Wac Wac.HashSites

theorem alGet_alInsert_upd {κ β : Type} [DecidableEq κ] (l : List (κ × β)) (k : κ) (v : β) :
    alGet (alInsert l k v) = upd (alGet l) k (some v) := by
  funext q
  rw [alGet_alInsert]
  unfold upd
  by_cases h : q = k
  · subst h; simp
  · simp [h, Ne.symm h]

/-! ### `register_package` -/

theorem abs_registerPackage {ctx : Ctx} {g g' : Graph} {d : PkgDef} {out : Outcome}
    (h : Inv ctx g) (hs : registerPackage g d = (g', out)) (hp : out.isPanic = false) :
    specStep ctx g.fresh (abs g) (.register d) = (abs g', out) := by
  unfold registerPackage at hs
  simp only [specStep]
  have e1 : (abs g).pkgByKey d.key = alGet g.pkgMap d.key := rfl
  rw [e1]
  split at hs
  · rename_i hk
    rw [if_pos hk]
    cases hs; rfl
  · rename_i hk
    rw [if_neg hk]
    split at hs
    · rename_i i r hfree
      split at hs
      · cases hs; cases hp
      · rename_i slot hslot
        split at hs
        · cases hs; cases hp
        · rename_i hvac
          simp only [Prod.mk.injEq] at hs
          obtain ⟨hg, ho⟩ := hs
          have hf : g.fresh.pkg = ⟨i, slot.gen⟩ := by
            unfold Graph.fresh; rw [hfree]; simp only [hslot]
          have hpk : g'.pkgs = g.pkgs.set i ⟨some d, slot.gen⟩ := by rw [← hg]
          have hi : i < g.pkgs.length := by
            rcases Nat.lt_or_ge i g.pkgs.length with hl | hl
            · exact hl
            · rw [List.getElem?_eq_none hl] at hslot; cases hslot
          rw [hf, ← ho]
          congr 1
          refine Abs.ext' (by rw [← hg]; rfl) (by rw [← hg]; rfl) (by rw [← hg]; rfl) (by rw [← hg]; rfl)
            (by rw [← hg]; rfl) (by rw [← hg]; rfl) (by rw [← hg]; rfl) (by rw [← hg]; rfl) ?_ ?_
          · funext id
            show upd (fun id => (g.pkgOf id).toOption) _ _ _ = (g'.pkgOf id).toOption
            rw [pkgOf_set hpk hi id]
            unfold upd
            by_cases hid : id = ⟨i, slot.gen⟩
            · subst hid; simp [Except.toOption]
            · simp only [hid, ↓reduceIte]
              by_cases hidx : id.index = i
              · have hgen : slot.gen ≠ id.gen := by
                  intro e; apply hid; cases id; simp only at hidx e; subst hidx; subst e; rfl
                simp only [hidx, ↓reduceIte, ne_eq, hgen, not_false_eq_true]
                -- the old slot was vacant
                unfold Graph.pkgOf
                rw [hidx, hslot]
                simp only [ne_eq, hgen, not_false_eq_true, ↓reduceIte]
              · simp [hidx]
          · rw [← hg]
            exact (alGet_alInsert_upd _ _ _).symm
    · rename_i hfree
      dsimp only at hs
      simp only [Prod.mk.injEq] at hs
      obtain ⟨hg, ho⟩ := hs
      have hf : g.fresh.pkg = ⟨g.pkgs.length, 0⟩ := by
        unfold Graph.fresh; rw [hfree]
      have hpk : g'.pkgs = g.pkgs ++ [⟨some d, 0⟩] := by rw [← hg]
      rw [hf, ← ho]
      congr 1
      refine Abs.ext' (by rw [← hg]; rfl) (by rw [← hg]; rfl) (by rw [← hg]; rfl) (by rw [← hg]; rfl)
        (by rw [← hg]; rfl) (by rw [← hg]; rfl) (by rw [← hg]; rfl) (by rw [← hg]; rfl) ?_ ?_
      · funext id
        show upd (fun id => (g.pkgOf id).toOption) _ _ _ = (g'.pkgOf id).toOption
        rw [pkgOf_append hpk id]
        unfold upd
        by_cases hid : id = ⟨g.pkgs.length, 0⟩
        · subst hid; simp [Except.toOption]
        · simp only [hid, ↓reduceIte]
          by_cases hidx : id.index = g.pkgs.length
          · have hgen : (0 : Nat) ≠ id.gen := by
              intro e; apply hid; cases id; simp only at hidx e; subst hidx; subst e; rfl
            simp only [hidx, ↓reduceIte, ne_eq, hgen, not_false_eq_true]
            unfold Graph.pkgOf
            rw [hidx, List.getElem?_eq_none (Nat.le_refl _)]
          · simp [hidx]
      · rw [← hg]
        exact (alGet_alInsert_upd _ _ _).symm

/-! ### `import` -/

theorem abs_importItem {ctx : Ctx} {g g' : Graph} {name : Str} {kind : Kind} {out : Outcome}
    (h : Inv ctx g) (hs : importItem ctx g name kind = (g', out)) :
    specStep ctx g.fresh (abs g) (.importItem name kind) = (abs g', out) := by
  unfold importItem at hs
  simp only [specStep]
  have e1 : (abs g).imports name = alGet g.imports name := rfl
  rw [e1]
  split at hs
  · rename_i n hn
    rw [hn]; cases hs; rfl
  · rename_i hn
    rw [hn]
    simp only
    split at hs
    · rename_i hv
      rw [if_pos hv]; cases hs; rfl
    · rename_i hv
      rw [if_neg hv]
      simp only [Prod.mk.injEq] at hs
      obtain ⟨hg, ho⟩ := hs
      have a := added_of_addNode h ⟨.import name, none, kind, none, none⟩
      have hl := addNode_len h.free ⟨.import name, none, kind, none, none⟩
      have hf := addNode_fresh g ⟨.import name, none, kind, none, none⟩
      rw [← ho, ← hg, hf]
      rw [hf] at a
      generalize (g.addNode ⟨.import name, none, kind, none, none⟩).1 = g1 at a hl ⊢
      congr 1
      show _ = { abs g1 with imports := alGet (alInsert g1.imports name g.fresh.node) }
      rw [abs_added a hl, alGet_alInsert_upd, a.imports]
      rfl

/-! ### `instantiate` -/

theorem abs_instantiate {ctx : Ctx} {g g' : Graph} {id : PkgId} {out : Outcome}
    (h : Inv ctx g) (hs : instantiate g id = (g', out)) (hp : out.isPanic = false) :
    specStep ctx g.fresh (abs g) (.instantiate id) = (abs g', out) := by
  unfold instantiate at hs
  simp only [specStep]
  have e1 : (abs g).pkg id = (g.pkgOf id).toOption := rfl
  rw [e1]
  split at hs
  · cases hs; cases hp
  · rename_i d hd
    rw [hd]
    simp only [Except.toOption, Prod.mk.injEq] at hs ⊢
    obtain ⟨hg, ho⟩ := hs
    have a := added_of_addNode h ⟨.instantiation [], some id, d.instKind, none, none⟩
    have hl := addNode_len h.free ⟨.instantiation [], some id, d.instKind, none, none⟩
    have hf := addNode_fresh g ⟨.instantiation [], some id, d.instKind, none, none⟩
    rw [← ho, ← hg, hf]
    rw [hf] at a
    exact ⟨(abs_added a hl).symm, rfl⟩

/-! ### overwriting one live slot -/

/-- the abstraction after one node's weight was overwritten -/
theorem abs_setNode {g : Graph} {n : Nat} {old : Node} (hn : g.node? n = some old) (nd : Node) :
    abs (g.setNode n nd) = { abs g with node := upd (abs g).node n (some nd.abs) } := by
  refine Abs.ext' (by simp [abs, Graph.setNode]) ?_ rfl rfl rfl rfl rfl rfl rfl rfl
  funext m
  show ((g.setNode n nd).node? m).map Node.abs = upd (fun k => (g.node? k).map Node.abs) n (some nd.abs) m
  rw [node?_set (g := g) (g' := g.setNode n nd) rfl (node?_eq_some_lt hn) m]
  unfold upd
  by_cases hm : m = n <;> simp [hm]

/-- … when the abstract view of the node did not change -/
theorem abs_setNode_same {g : Graph} {n : Nat} {old : Node} (hn : g.node? n = some old) {nd : Node}
    (he : nd.abs = old.abs) : abs (g.setNode n nd) = abs g := by
  rw [abs_setNode hn]
  have : upd (abs g).node n (some nd.abs) = (abs g).node := by
    funext m
    unfold upd
    by_cases hm : m = n
    · subst hm; simp only [↓reduceIte]; rw [he]; exact (abs_node_some hn).symm
    · simp [hm]
  rw [this]

/-! ### `set_node_name` -/

theorem abs_setNodeName {ctx : Ctx} {g g' : Graph} {n : Nat} {name : Str} {out : Outcome}
    (hs : setNodeName g n name = (g', out)) (hp : out.isPanic = false) :
    specStep ctx g.fresh (abs g) (.setName n name) = (abs g', out) := by
  unfold setNodeName at hs
  simp only [specStep]
  split at hs
  · cases hs; cases hp
  · rename_i nd hnd
    rw [abs_node_some hnd]
    simp only [Prod.mk.injEq] at hs ⊢
    obtain ⟨hg, ho⟩ := hs
    rw [← hg, ← ho, abs_setNode hnd]
    exact ⟨rfl, rfl⟩

/-! ### `export` -/

theorem abs_exportNode {ctx : Ctx} {g g' : Graph} {n : Nat} {name : Str} {out : Outcome}
    (hs : exportNode ctx g n name = (g', out)) (hp : out.isPanic = false) :
    specStep ctx g.fresh (abs g) (.exportNode n name) = (abs g', out) := by
  unfold exportNode at hs
  simp only [specStep]
  have e1 : (abs g).exports name = alGet g.exports name := rfl
  rw [e1]
  split at hs
  · rename_i e he
    rw [he]; cases hs; rfl
  · rename_i he
    rw [he]
    simp only
    split at hs
    · rename_i hv
      rw [if_pos hv]; cases hs; rfl
    · rename_i hv
      rw [if_neg hv]
      split at hs
      · cases hs; cases hp
      · rename_i nd hnd
        rw [abs_node_some hnd]
        simp only [Prod.mk.injEq] at hs ⊢
        obtain ⟨hg, ho⟩ := hs
        refine ⟨?_, ho⟩
        rw [← hg]
        -- the node's abstract view is unchanged (only its export name may change)
        have hsame : ∀ nd' : Node, nd'.abs = nd.abs →
            abs { g.setNode n nd' with exports := alInsert (g.setNode n nd').exports name n } =
              { abs g with exports := upd (abs g).exports name (some n) } := by
          intro nd' he'
          show { abs (g.setNode n nd') with exports := alGet (alInsert g.exports name n) } = _
          rw [abs_setNode_same hnd he', alGet_alInsert_upd]
          rfl
        symm
        apply hsame
        cases hk : nd.kind with
        | definition ty => simp only; split <;> simp [Node.abs, hk]
        | «import» nm => simp [Node.abs, hk]
        | instantiation s => simp [Node.abs, hk]
        | alias => simp [Node.abs, hk]

/-! ### `unexport` -/

theorem alGet_dropped {m : List (Str × Nat)} (nd : (m.map (·.1)).Nodup) {name : Str} {n : Nat}
    (hname : alGet m name = some n) (k : Str) :
    alGet (dropped m name n) k = (alGet m k).filter (fun v => v != n) := by
  apply option_ext_iff
  intro v
  rw [alGet_iff_mem (dropped_keys_nodup nd name n), dropped_mem nd]
  constructor
  · rintro ⟨hm, _, hv⟩
    rw [alGet_of_mem _ nd _ hm]
    simp [hv]
  · intro hf
    cases hq : alGet m k with
    | none => rw [hq] at hf; cases hf
    | some w =>
      rw [hq] at hf
      simp only [Option.filter_some] at hf
      split at hf
      · rename_i hw
        cases hf
        refine ⟨alGet_eq_some_mem hq, ?_, by simpa using hw⟩
        intro e
        subst e
        rw [hname] at hq
        cases hq
        simp at hw
      · cases hf

theorem abs_unexport {ctx : Ctx} {g g' : Graph} {n : Nat} {out : Outcome}
    (h : Inv ctx g) (hs : unexport .fixed g n = (g', out)) (hp : out.isPanic = false) :
    specStep ctx g.fresh (abs g) (.unexport n) = (abs g', out) := by
  unfold unexport at hs
  simp only [specStep]
  split at hs
  · cases hs; cases hp
  · rename_i nd hnd
    rw [abs_node_some hnd]
    simp only
    rw [abs_isDef]
    split at hs
    · rename_i ty hk
      cases hs
      simp [Node.isDef, hk]
    · rename_i hk
      have hdef : nd.isDef = false := by
        unfold Node.isDef
        split
        · rename_i ty hk'; exact absurd hk' (hk ty)
        · rfl
      rw [hdef]
      simp only [Bool.false_eq_true, ↓reduceIte]
      split at hs
      · rename_i hx
        -- not exported: no entry of the export map refers to the node
        cases hs
        congr 1
        have : (fun nm => ((abs g).exports nm).filter (fun m => m != n)) = (abs g).exports := by
          funext nm
          show (alGet g.exports nm).filter (fun m => m != n) = alGet g.exports nm
          cases hq : alGet g.exports nm with
          | none => rfl
          | some m =>
            have hne : m ≠ n := by
              intro e
              obtain ⟨x, hx', hxe⟩ := h.exportsLive' (nm, m) (alGet_eq_some_mem hq)
              rw [e, hnd] at hx'
              cases hx'
              rw [hx] at hxe; cases hxe
            simp [hne]
        rw [this]
      · rename_i name hexp
        split at hs
        · cases hs; cases hp
        · simp only [Prod.mk.injEq] at hs
          obtain ⟨hg, ho⟩ := hs
          rw [← hg, ← ho]
          congr 1
          have hname : alGet g.exports name = some n := (h.node hnd).2.2 name (by rw [hexp]; rfl)
          show _ = { abs (g.setNode n { nd with exp := none }) with
            exports := alGet (dropped g.exports name n) }
          rw [abs_setNode_same hnd (by simp [Node.abs])]
          have : alGet (dropped g.exports name n) = fun nm => ((abs g).exports nm).filter (fun m => m != n) := by
            funext nm
            exact alGet_dropped h.exportsKeys hname nm
          rw [this]

end Wac.Graph
