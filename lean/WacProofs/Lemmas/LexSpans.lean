import WacModel.Lexer
import WacProofs.Lemmas.Utf8
/-
  Every token produced by the lexer model is a slice of the source: its span is exactly the
  byte range of its text.
-/
namespace Wac.Lemmas.LexSpans
open Wac Wac.Lex Wac.Ast Wac.Lemmas

/-- `sp` is the byte range of the sub-list `text` of `src` -/
def Slice (src : Str) (sp : Span) (text : Str) : Prop :=
  ∃ pre post, src = pre ++ text ++ post ∧ sp.offset = utf8Len pre ∧ sp.len = utf8Len text

theorem lexAll_slices (src : Str) : ∀ (fuel pos : Nat) (s : Str) (prevPos : Nat) (prev : Str),
    (∃ pre, src = pre ++ s ∧ pos = utf8Len pre) →
    ∀ t ∈ lexAll fuel pos s prevPos prev, Slice src t.span t.text := by
  intro fuel
  induction fuel with
  | zero => intro pos s pp pv _ t ht; simp [lexAll] at ht
  | succ fuel ih =>
    intro pos s pp pv ⟨pre, hsrc, hpos⟩ t ht
    unfold lexAll at ht
    split at ht
    · simp at ht
    · rename_i n _
      apply ih _ _ _ _ ?_ t ht
      refine ⟨pre ++ s.take (if n = 0 then 1 else n), ?_, ?_⟩
      · rw [List.append_assoc, List.take_append_drop]; exact hsrc
      · simp [hpos]
    · rename_i res n _
      simp only [List.mem_cons] at ht
      rcases ht with rfl | ht
      · exact ⟨pre, s.drop (if n = 0 then 1 else n), by
          simp only [List.append_assoc, List.take_append_drop]; exact hsrc, by simp [hpos], by simp⟩
      · apply ih _ _ _ _ ?_ t ht
        refine ⟨pre ++ s.take (if n = 0 then 1 else n), ?_, ?_⟩
        · rw [List.append_assoc, List.take_append_drop]; exact hsrc
        · simp [hpos]

theorem tokenize_slices (src : Str) : ∀ t ∈ tokenize src, Slice src t.span t.text :=
  lexAll_slices src _ 0 src 0 src ⟨[], by simp, by simp⟩

/-- a slice lies inside the source -/
theorem Slice.in_bounds {src sp text} (h : Slice src sp text) : sp.offset + sp.len ≤ utf8Len src := by
  obtain ⟨pre, post, rfl, h1, h2⟩ := h
  simp [h1, h2]

end Wac.Lemmas.LexSpans
