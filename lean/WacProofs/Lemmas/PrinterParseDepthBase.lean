import WacModel.Parser
import WacModel.PrintDepth
/-
  C13, base layer of "the printed tokens of every tree the parser model returns stay within the
  nesting limit of the lexer".

  * `cls p`             the bracket class of an offset-free token (opening / closing / other);
  * `Steps d ts d'`     `runDepth d ts = some d'`, with the composition rules `Steps.nil/nb/op/cl/
                        append/flatMap` (the proof of a `Steps` goal mirrors the print function);
  * `Post r P`          postcondition calculus for the `Except`-with-state parser functions: on a
                        success `(x, st')` the predicate `P x st'` holds;
  * `Bal d f`           the postcondition every parser function gets: the lexer's counter is back
                        at `d` and the printed tokens `f x` run from `d` to `d` within the limit;
  * the lexer-state lemmas (`PState.next` and the counter), `parseToken` for the three classes,
    `parseOptional`, `parseDelimited`, the leaves.
-/
namespace Wac.Lemmas.PrinterDepth
open Wac Wac.Ast Wac.Lex Wac.Parse Wac.PrintTok

/-! ### `runDepth` -/

/-- bracket class of a token -/
inductive Cls where
  | op | cl | nb
deriving DecidableEq, Repr

/-- the bracket class of an offset-free lexer item -/
def cls (p : PTok) : Cls :=
  match p.res with
  | .ok k => if isOpenBracket k then .op else if isCloseBracket k then .cl else .nb
  | .error _ => .nb

theorem runDepth_nil (d : Nat) : runDepth d [] = some d := rfl

theorem runDepth_cons_nb {p : PTok} (h : cls p = .nb) (d : Nat) (r : List PTok) :
    runDepth d (p :: r) = runDepth d r := by
  unfold cls at h
  rw [runDepth]
  split at h
  · rename_i k hk
    rw [hk]; dsimp only
    split at h
    · cases h
    · split at h
      · cases h
      · rename_i h1 h2; simp [h1, h2]
  · rename_i e he; rw [he]

theorem runDepth_cons_op {p : PTok} (h : cls p = .op) (d : Nat) (r : List PTok) :
    runDepth d (p :: r) = if tooDeep (d + 1) then none else runDepth (d + 1) r := by
  unfold cls at h
  rw [runDepth]
  split at h
  · rename_i k hk
    rw [hk]; dsimp only
    split at h
    · rename_i h1; simp [h1]
    · split at h <;> cases h
  · cases h

theorem runDepth_cons_cl {p : PTok} (h : cls p = .cl) (d : Nat) (r : List PTok) :
    runDepth d (p :: r) = runDepth (d - 1) r := by
  unfold cls at h
  rw [runDepth]
  split at h
  · rename_i k hk
    rw [hk]; dsimp only
    split at h
    · cases h
    · split at h
      · rename_i h1 h2; simp [h1, h2]
      · cases h
  · cases h

theorem runDepth_append (a b : List PTok) : ∀ (d : Nat),
    runDepth d (a ++ b) = (runDepth d a).bind (fun d' => runDepth d' b) := by
  induction a with
  | nil => intro d; rfl
  | cons p r ih =>
    intro d
    rw [List.cons_append]
    cases hc : cls p with
    | nb => rw [runDepth_cons_nb hc, runDepth_cons_nb hc, ih]
    | cl => rw [runDepth_cons_cl hc, runDepth_cons_cl hc, ih]
    | op =>
      rw [runDepth_cons_op hc, runDepth_cons_op hc]
      split
      · rfl
      · rw [ih]

/-- the tokens `ts` move the counter from `d` to `d'` without exceeding the limit -/
def Steps (d : Nat) (ts : List PTok) (d' : Nat) : Prop := runDepth d ts = some d'

theorem Steps.nil {d : Nat} : Steps d [] d := rfl

theorem Steps.nb {p : PTok} {r : List PTok} {d d' : Nat} (hp : cls p = .nb) (h : Steps d r d') :
    Steps d (p :: r) d' := by
  unfold Steps; rw [runDepth_cons_nb hp]; exact h

theorem Steps.op {p : PTok} {r : List PTok} {d d' : Nat} (hp : cls p = .op)
    (hd : tooDeep (d + 1) = false) (h : Steps (d + 1) r d') : Steps d (p :: r) d' := by
  unfold Steps; rw [runDepth_cons_op hp, hd]; exact h

theorem Steps.cl {p : PTok} {r : List PTok} {d d' : Nat} (hp : cls p = .cl) (h : Steps d r d') :
    Steps (d + 1) (p :: r) d' := by
  unfold Steps; rw [runDepth_cons_cl hp]; exact h

theorem Steps.append {a b : List PTok} {d d1 d2 : Nat} (ha : Steps d a d1) (hb : Steps d1 b d2) :
    Steps d (a ++ b) d2 := by
  unfold Steps at *; rw [runDepth_append, ha]; exact hb

theorem Steps.flatMap {α : Type} {f : α → List PTok} {d : Nat} :
    ∀ {xs : List α}, (∀ x ∈ xs, Steps d (f x) d) → Steps d (xs.flatMap f) d := by
  intro xs
  induction xs with
  | nil => intro _; exact Steps.nil
  | cons x r ih =>
    intro h
    rw [List.flatMap_cons]
    exact Steps.append (h x (List.mem_cons_self ..)) (ih (fun y hy => h y (List.mem_cons_of_mem _ hy)))

theorem tooDeep_of_le {n : Nat} (h : n ≤ 128) : tooDeep n = false := by
  simp [tooDeep, Generated.maxNestingDepth]; omega

/-! ### classes of the printed tokens -/

theorem cls_usePath (u : UsePath) : cls (usePath u) = .nb := by cases u <;> rfl
theorem cls_worldRef (w : WorldRef) : cls (worldRef w) = .nb := by cases w <;> rfl
theorem cls_externName (n : ExternName) : cls (externName n) = .nb := by cases n <;> rfl
theorem cls_argName (n : InstantiationArgumentName) : cls (argName n) = .nb := by cases n <;> rfl

/-- discharge `cls p = .nb` for a printed token -/
macro "cls_nb" : tactic =>
  `(tactic| first | rfl | exact cls_usePath _ | exact cls_worldRef _ | exact cls_externName _
                  | exact cls_argName _)

/-- prove a `Steps` goal whose token list is built from `::`, `++`, `[]` and parts for which a
`Steps` hypothesis is in the context (the middle depths are found by unification, left to right) -/
macro "steps" : tactic =>
  `(tactic| repeat' (first
      | assumption
      | exact Steps.nil
      | (apply Steps.nb; cls_nb)
      | (apply Steps.cl; rfl)
      | (apply Steps.op; rfl; (first | assumption | (apply tooDeep_of_le; omega)))
      | apply Steps.append))

/-! ### the postcondition calculus -/

/-- postcondition of a parse result: on success the value and the final state satisfy `P` -/
def Post {α : Type} (r : PR α) (P : α → PState → Prop) : Prop :=
  ∀ x st', r = .ok (x, st') → P x st'

theorem Post_ok {α : Type} {P : α → PState → Prop} {x : α} {st : PState} (hx : P x st) :
    Post (.ok (x, st) : PR α) P := by
  intro y st' h; cases h; exact hx

theorem Post_error {α : Type} {P : α → PState → Prop} {e : ParseError} : Post (.error e : PR α) P := by
  intro y st' h; cases h

theorem Post_bind {α β : Type} {r : PR α} {f : α × PState → PR β} {Q : α → PState → Prop}
    {P : β → PState → Prop}
    (hr : Post r Q) (hf : ∀ a st1, Q a st1 → Post (f (a, st1)) P) : Post (r >>= f) P := by
  intro y st' h
  cases r with
  | error e => cases h
  | ok p =>
    obtain ⟨a, st1⟩ := p
    exact hf a st1 (hr a st1 rfl) y st' h

theorem Post_mono {α : Type} {r : PR α} {Q P : α → PState → Prop} (hr : Post r Q)
    (h : ∀ a st, Q a st → P a st) : Post r P :=
  fun x st' e => h x st' (hr x st' e)

/-- a bind over a plain `Except` value (no state) -/
theorem Post_bindE {β γ : Type} {r : Except ParseError β} {f : β → PR γ} {P : γ → PState → Prop}
    (hf : ∀ b, Post (f b) P) : Post (r >>= f) P := by
  cases r with
  | error e => exact Post_error
  | ok b => exact hf b

/-- `pbind e => a st pat`: the goal is `Post (r >>= f) P`; `e : Post r Q`; continue with
`Post (f (a, st)) P` under `pat : Q a st` -/
macro "pbind " e:term " => " a:rintroPat st:rintroPat pat:rintroPat : tactic =>
  `(tactic| (refine Post_bind $e ?_; rintro $a $st $pat; dsimp only))

/-- the postcondition of every parser function: the counter is back at `d`, and the printed
tokens `f x` of the value run from `d` to `d` within the limit -/
def Bal {α : Type} (d : Nat) (f : α → List PTok) : α → PState → Prop :=
  fun x st' => st'.depth = d ∧ Steps d (f x) d

/-! ### the lexer state -/

theorem peekTok_toks {st : PState} {k : Token} (h : peekTok st = some k) :
    ∃ t r, st.toks = t :: r ∧ t.res = .ok k := by
  unfold peekTok PState.peek at h
  cases hs : st.toks with
  | nil => rw [hs] at h; cases h
  | cons t r =>
    rw [hs] at h
    refine ⟨t, r, rfl, ?_⟩
    simp only [List.head?_cons, Option.bind_some, LTok.tok?] at h
    split at h
    · rename_i k' hk; cases h; exact hk
    · cases h

theorem peekIs_peekTok {st : PState} {k : Token} (h : peekIs st k = true) : peekTok st = some k := by
  unfold peekIs at h; simpa using h

/-- `next` right after a `peek` that saw a non-bracket token keeps the counter -/
theorem next_depth_nb {st : PState} {k : Token} (h : peekTok st = some k)
    (hk : isOpenBracket k = false ∧ isCloseBracket k = false := by decide) :
    st.next.2.depth = st.depth := by
  obtain ⟨t, r, hs, ht⟩ := peekTok_toks h
  unfold PState.next
  rw [hs]; dsimp only; rw [ht]; dsimp only
  rw [hk.1, hk.2]; rfl

/-- what a successful `parseToken` says about the counter -/
theorem parseToken_depth {st : PState} {k : Token} {t : LTok} {st' : PState}
    (h : parseToken st k = .ok (t, st')) :
    st'.depth = (if isOpenBracket k then st.depth + 1 else if isCloseBracket k then st.depth - 1
      else st.depth) ∧ (isOpenBracket k = true → tooDeep (st.depth + 1) = false) := by
  unfold parseToken PState.next at h
  cases hs : st.toks with
  | nil => rw [hs] at h; cases h
  | cons a r =>
    rw [hs] at h
    dsimp only at h
    cases hr : a.res with
    | error e => rw [hr] at h; dsimp only at h; rw [hr] at h; cases h
    | ok found =>
      rw [hr] at h
      dsimp only at h
      by_cases ho : isOpenBracket found = true
      · rw [if_pos ho] at h
        by_cases htd : tooDeep (st.depth + 1) = true
        · rw [if_pos htd] at h; cases h
        · rw [if_neg htd] at h
          dsimp only at h
          rw [hr] at h; dsimp only at h
          by_cases hf : found = k
          · rw [if_pos hf] at h
            cases h; subst hf
            simp [ho]
            simpa using htd
          · rw [if_neg hf] at h; cases h
      · rw [if_neg ho] at h
        by_cases hc : isCloseBracket found = true
        · rw [if_pos hc] at h
          dsimp only at h
          rw [hr] at h; dsimp only at h
          by_cases hf : found = k
          · rw [if_pos hf] at h
            cases h; subst hf
            simp [ho, hc]
          · rw [if_neg hf] at h; cases h
        · rw [if_neg hc] at h
          dsimp only at h
          rw [hr] at h; dsimp only at h
          by_cases hf : found = k
          · rw [if_pos hf] at h
            cases h; subst hf
            simp [ho, hc]
          · rw [if_neg hf] at h; cases h

/-- `parse_token` of a token that is no bracket -/
theorem parseToken_nb {st : PState} {k : Token} {d : Nat} (hd : st.depth = d)
    (hk : isOpenBracket k = false ∧ isCloseBracket k = false := by decide) :
    Post (parseToken st k) (fun _ st' => st'.depth = d) := by
  intro t st' h
  have := (parseToken_depth h).1
  rw [hk.1, hk.2] at this
  rw [← hd]; simpa using this

/-- `parse_token` of an opening bracket -/
theorem parseToken_op {st : PState} {k : Token} {d : Nat} (hd : st.depth = d)
    (hk : isOpenBracket k = true := by decide) :
    Post (parseToken st k) (fun _ st' => st'.depth = d + 1 ∧ tooDeep (d + 1) = false) := by
  intro t st' h
  have := parseToken_depth h
  rw [hk] at this
  rw [← hd]; exact ⟨by simpa using this.1, this.2 rfl⟩

/-- `parse_token` of a closing bracket -/
theorem parseToken_cl {st : PState} {k : Token} {d : Nat} (hd : st.depth = d + 1)
    (hk : isOpenBracket k = false ∧ isCloseBracket k = true := by decide) :
    Post (parseToken st k) (fun _ st' => st'.depth = d) := by
  intro t st' h
  have := (parseToken_depth h).1
  rw [hk.1, hk.2, hd] at this
  simpa using this

/-- `parse_optional`, generic in the callback: nothing consumed, or the token and the callback -/
theorem parseOptional_post {α : Type} {st : PState} {k : Token} {cb : PState → PR α}
    {P : Option α → PState → Prop} (hnone : P none st)
    (hsome : Post (parseToken st k) (fun _ st1 => Post (cb st1) (fun a st' => P (some a) st'))) :
    Post (parseOptional st k cb) P := by
  intro o st' h
  unfold parseOptional at h
  split at h
  · split at h
    · split at h
      · split at h
        · cases h
        · rename_i t st1 hp
          split at h
          · rename_i a st2 hc
            have hP := hsome t st1 hp a st2 hc
            cases h
            exact hP
          · cases h
      · cases h; exact hnone
    · cases h
  · cases h; exact hnone

/-- `parse_delimited`, generic in the item parser: every item leaves the counter where it was -/
theorem parseDelimited_post {α : Type} (stop : Token) (withCommas : Bool) (peeks : List Token)
    {item : PState → PR α} {d : Nat} {P : α → Prop}
    (hitem : ∀ st1, st1.depth = d → Post (item st1) (fun x st' => st'.depth = d ∧ P x)) :
    ∀ (fuel : Nat) {st : PState}, st.depth = d →
      Post (parseDelimited stop withCommas peeks item fuel st)
        (fun xs st' => st'.depth = d ∧ ∀ x ∈ xs, P x) := by
  intro fuel
  induction fuel with
  | zero => intro st _; unfold parseDelimited; exact Post_error
  | succ fuel ih =>
    intro st hst xs st' h
    unfold parseDelimited at h
    split at h
    · cases h; exact ⟨hst, fun x hx => (by cases hx)⟩
    · split at h
      · cases h
      · split at h
        · cases h
        · rename_i x st1 hi
          obtain ⟨hst1, hx⟩ := hitem st hst x st1 hi
          split at h
          · split at h
            · cases h
              exact ⟨hst1, fun y hy => by
                rcases List.mem_singleton.mp hy with rfl; exact hx⟩
            · split at h
              · split at h
                · cases h
                · rename_i t st2 hc
                  have hst2 := parseToken_nb hst1 (by decide) t st2 hc
                  split at h
                  · cases h
                  · rename_i ys st3 hd
                    obtain ⟨hst3, hys⟩ := ih hst2 ys st3 hd
                    cases h
                    refine ⟨hst3, fun y hy => ?_⟩
                    rcases List.mem_cons.mp hy with rfl | hy
                    · exact hx
                    · exact hys y hy
              · split at h
                · cases h
                · rename_i ys st3 hd
                  obtain ⟨hst3, hys⟩ := ih hst1 ys st3 hd
                  cases h
                  refine ⟨hst3, fun y hy => ?_⟩
                  rcases List.mem_cons.mp hy with rfl | hy
                  · exact hx
                  · exact hys y hy
          · cases h

/-! ### leaves (one non-bracket token each) -/

theorem parseIdent_post {st : PState} {d : Nat} (hd : st.depth = d) :
    Post (parseIdent st) (fun _ st' => st'.depth = d) := by
  unfold parseIdent
  pbind parseToken_nb hd => t st1 hd1
  split <;> exact Post_ok hd1

theorem parseString_post {st : PState} {d : Nat} (hd : st.depth = d) :
    Post (parseString st) (fun _ st' => st'.depth = d) := by
  unfold parseString
  pbind parseToken_nb hd => t st1 hd1
  exact Post_ok hd1

theorem parsePackageName_post {st : PState} {d : Nat} (hd : st.depth = d) :
    Post (parsePackageName st) (fun _ st' => st'.depth = d) := by
  unfold parsePackageName
  pbind parseToken_nb hd => t st1 hd1
  exact Post_bindE fun v => Post_ok hd1

theorem parsePackagePath_post {st : PState} {d : Nat} (hd : st.depth = d) :
    Post (parsePackagePath st) (fun _ st' => st'.depth = d) := by
  unfold parsePackagePath
  pbind parseToken_nb hd => t st1 hd1
  split
  · exact Post_error
  · exact Post_bindE fun v => Post_ok hd1

end Wac.Lemmas.PrinterDepth
