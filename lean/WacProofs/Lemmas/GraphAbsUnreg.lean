import WacProofs.Lemmas.GraphAbsRemoveSet
/-
  C06 refinement: `unregister_package`.
-/
namespace Wac.Graph
open Wac Wac.HashSites

theorem rawRemove_len {g g' : Graph} {n : Nat} {nd : Node} (h : g.rawRemove n = some (nd, g')) :
    g'.nodes.length = g.nodes.length := by
  unfold Graph.rawRemove at h
  split at h
  · cases h
  · simp only [Option.some.injEq, Prod.mk.injEq] at h
    rw [← h.2]; simp

theorem retainNodes_len (g : Graph) (id : PkgId) : (retainNodes g id).nodes.length = g.nodes.length := by
  unfold retainNodes
  generalize List.range g.nodes.length = l
  induction l generalizing g with
  | nil => rfl
  | cons i r ih =>
    simp only [List.foldl_cons]
    split
    · split
      · rename_i nd g' h
        rw [ih g', rawRemove_len h]
      · exact ih g
    · exact ih g

/-- (copy of the `RemovedSet` facts established inside `inv_unregMid`) the state after the
    clearing pass, the map filters and `retain_nodes` is `g` without the nodes of the package -/
theorem unregMid_removedSet {ctx : Ctx} {g g1 : Graph} {id : PkgId} (h : Inv ctx g)
    (hc : clearSatEdges g (unregSel g id) g.edges = .ok g1) :
    RemovedSet g (unregMid g g1 id) (fun m => g.nodePkgIs m id) ∧
    (unregMid g g1 id).nodes.length = g.nodes.length := by
  have c := clearSatEdges_spec _ _ _ _ hc
  -- the graph `retain_nodes` runs on
  let gm : Graph :=
    { g1 with
      exports := g.exports.filter (fun e => !g.nodePkgIs e.2 id)
      defined := g.defined.filter (fun e => !g.nodePkgIs e.2 id)
      imports := g.imports.filter (fun e => !g.nodePkgIs e.2 id) }
  have hgm : unregMid g g1 id = retainNodes gm id := rfl
  have hnodeM : ∀ m, gm.node? m = (g.node? m).map
      (fun x => setSat x ((erasesFor (unregSel g id) m g.edges).foldl List.erase x.sat)) := c.node
  have hpkM : ∀ m, gm.nodePkgIs m id = g.nodePkgIs m id := by
    intro m
    unfold Graph.nodePkgIs
    rw [hnodeM m]
    cases g.node? m with
    | none => rfl
    | some x => simp [setSat_pkg]
  -- its free list is still right: liveness of every slot is unchanged
  have fM : FreeInv gm := by
    have f := h.free
    have hlive : ∀ m, gm.node? m = none ↔ g.node? m = none := by
      intro m; rw [hnodeM m]; cases g.node? m <;> simp
    refine ⟨by show g1.freeNodes.Nodup; rw [c.freeNodes]; exact f.nodup, ?_, ?_⟩
    · intro i hi
      have hi' : i ∈ g.freeNodes := by have : i ∈ g1.freeNodes := hi; rw [c.freeNodes] at this; exact this
      refine ⟨by show i < g1.nodes.length; rw [c.len]; exact (f.vacant i hi').1, (hlive i).mpr (f.vacant i hi').2⟩
    · intro i hi hv
      have hi' : i < g.nodes.length := by have : i < g1.nodes.length := hi; rw [c.len] at this; exact this
      show i ∈ g1.freeNodes
      rw [c.freeNodes]; exact f.all i hi' ((hlive i).mp hv)
  obtain ⟨r1, r2, r3, r4, r5, r6, r7, r8, r9⟩ := retainNodes_spec gm id fM
  have hnode2 : ∀ m, (unregMid g g1 id).node? m = if g.nodePkgIs m id = true then none else gm.node? m := by
    intro m; rw [hgm, r1 m, hpkM m]
  -- the `RemovedSet` facts
  refine ⟨?_, by rw [hgm, retainNodes_len]; show g1.nodes.length = _; exact c.len⟩
  · refine
      { gone := fun m hm => by rw [hnode2 m]; simp [hm]
        kept := ?_, noNew := ?_, free := by rw [hgm]; exact r3, edges := ?_
        importsKeys := ?_, importsMem := ?_, exportsKeys := ?_, exportsMem := ?_
        definedKeys := ?_, definedMem := ?_
        pkgs := by rw [hgm, r7]; exact c.pkgs
        pkgMap := by rw [hgm, r8]; exact c.pkgMap
        freePkgs := by rw [hgm, r9]; exact c.freePkgs }
    · intro m x hm hx
      have hnodup : x.sat.Nodup := by
        have := (h.node hx).2.1
        unfold Node.sat
        cases hk : x.kind with
        | instantiation s => rw [hk] at this; exact this.1
        | _ => exact List.nodup_nil
      refine ⟨(erasesFor (unregSel g id) m g.edges).foldl List.erase x.sat, ?_, (foldl_erase_spec _ _ hnodup).1, ?_⟩
      · rw [hnode2 m, hnodeM m, hx]; simp [hm]
      · intro i
        rw [(foldl_erase_spec _ _ hnodup).2.2 i, mem_erasesFor]
        constructor
        · rintro ⟨hi, hno⟩
          refine ⟨hi, ?_⟩
          rintro ⟨e, he, hdead, hdst, hkind⟩
          apply hno
          refine ⟨e, he, hkind, ?_, hdst⟩
          unfold unregSel
          rw [hdead, hdst, hm]; rfl
        · rintro ⟨hi, hno⟩
          refine ⟨hi, ?_⟩
          rintro ⟨e, he, hkind, hsel, hdst⟩
          apply hno
          unfold unregSel at hsel
          simp only [Bool.and_eq_true, Bool.not_eq_true'] at hsel
          exact ⟨e, he, hsel.1, hdst, hkind⟩
    · intro m x' hx'
      rw [hnode2 m] at hx'
      cases hd : g.nodePkgIs m id with
      | true => simp [hd] at hx'
      | false =>
        simp only [hd, Bool.false_eq_true, ↓reduceIte] at hx'
        rw [hnodeM m] at hx'
        cases hq : g.node? m with
        | none => rw [hq] at hx'; cases hx'
        | some x => exact ⟨rfl, x, rfl⟩
    · rw [hgm, r2]
      have : gm.edges = g.edges := c.edges
      rw [this]
      congr 1
      funext e
      rw [hpkM, hpkM]
    · rw [hgm, r4]
      exact (List.Sublist.map _ List.filter_sublist).nodup h.importsKeys
    · intro e
      rw [hgm, r4]
      show e ∈ g.imports.filter _ ↔ _
      rw [List.mem_filter]; simp
    · rw [hgm, r5]
      exact (List.Sublist.map _ List.filter_sublist).nodup h.exportsKeys
    · intro e
      rw [hgm, r5]
      show e ∈ g.exports.filter _ ↔ _
      rw [List.mem_filter]; simp
    · rw [hgm, r6]
      exact (List.Sublist.map _ List.filter_sublist).nodup h.definedKeys
    · intro e
      rw [hgm, r6]
      show e ∈ g.defined.filter _ ↔ _
      rw [List.mem_filter]; simp

theorem alGet_alErase_self {κ β : Type} [DecidableEq κ] {l : List (κ × β)} (nd : (l.map (·.1)).Nodup) (k : κ) :
    alGet (alErase l k) k = none := by
  rw [alGet_none_iff]
  intro hmem
  obtain ⟨e, he, hk⟩ := List.mem_map.mp hmem
  exact ((alErase_mem nd e).mp he).2 hk

theorem abs_unregisterPackage {ctx : Ctx} {g g' : Graph} {id : PkgId} {out : Outcome}
    (h : Inv ctx g) (hs : unregisterPackage .fixed g id = (g', out)) (hp : out.isPanic = false) :
    specStep ctx g.fresh (abs g) (.unregister id) = (abs g', out) := by
  -- the only non-panicking outcome is `Ok(())`
  have hout : out = .ok .unit := by
    unfold unregisterPackage at hs
    split at hs
    · simp only [Prod.mk.injEq] at hs; rw [← hs.2] at hp; cases hp
    · split at hs
      · simp only [Prod.mk.injEq] at hs; rw [← hs.2] at hp; cases hp
      · split at hs
        · dsimp only at hs
          split at hs
          · simp only [Prod.mk.injEq] at hs; rw [← hs.2] at hp; cases hp
          · split at hs
            · simp only [Prod.mk.injEq] at hs; rw [← hs.2] at hp; cases hp
            · split at hs
              · simp only [Prod.mk.injEq] at hs; rw [← hs.2] at hp; cases hp
              · simp only [Prod.mk.injEq] at hs; exact hs.2.symm
        · simp only [Prod.mk.injEq] at hs; rw [← hs.2] at hp; cases hp
  rw [hout] at hs ⊢
  obtain ⟨slot, d, g1, hslot, hgen, hd, hc, _, rfl⟩ := unregister_full hs
  obtain ⟨hmid, _, p1, p2, _⟩ := inv_unregMid h hc
  obtain ⟨rs, hlen⟩ := unregMid_removedSet h hc
  have hmidAbs := abs_removedAbs h hmid (rs.toAbs hlen)
  have hlt : id.index < g.pkgs.length := by
    rcases Nat.lt_or_ge id.index g.pkgs.length with hl | hl
    · exact hl
    · rw [List.getElem?_eq_none hl] at hslot; cases hslot
  have hpk : g.pkgOf id = .ok d := by
    unfold Graph.pkgOf
    rw [hslot]
    simp [hgen, hd]
  simp only [specStep]
  have e1 : (abs g).pkg id = some d := by
    show (g.pkgOf id).toOption = some d
    rw [hpk]; rfl
  rw [e1]
  simp only [Prod.mk.injEq, and_true]
  -- the specification's set is the set the code removes
  have hdead : (abs g).ofPkg id = fun m => g.nodePkgIs m id := by
    funext m
    unfold Abs.ofPkg
    cases hq : g.node? m with
    | none => rw [abs_node_none hq, nodePkgIs_none hq]
    | some x =>
      rw [abs_node_some hq, nodePkgIs_eq hq]
      simp only
      apply bool_ext_iff
      rw [optPkgId_beq_iff]
      show decide (x.pkg = some id) = true ↔ _
      exact decide_eq_true_iff
  rw [hdead, ← hmidAbs]
  refine Abs.ext' rfl rfl rfl rfl rfl rfl rfl rfl ?_ ?_
  · funext pid
    show upd (fun p => ((unregMid g g1 id).pkgOf p).toOption) id none pid =
      ((vacate (unregMid g g1 id) g id d slot.gen).pkgOf pid).toOption
    unfold upd
    have hvp : (vacate (unregMid g g1 id) g id d slot.gen).pkgs = g.pkgs.set id.index ⟨none, slot.gen + 1⟩ := rfl
    by_cases hix : pid.index = id.index
    · have hnone : ((vacate (unregMid g g1 id) g id d slot.gen).pkgOf pid).toOption = none := by
        unfold Graph.pkgOf
        rw [hvp, hix, List.getElem?_set_self hlt]
        simp only
        split <;> rfl
      rw [hnone]
      by_cases hpid : pid = id
      · simp [hpid]
      · simp only [hpid, ↓reduceIte]
        rw [pkgOf_congr p1]
        unfold Graph.pkgOf
        rw [hix, hslot]
        have : slot.gen ≠ pid.gen := by
          intro e; apply hpid; cases pid; cases id; simp only at hix e hgen; subst hix; rw [← e, hgen]
        simp [this, Except.toOption]
    · have hne : pid ≠ id := fun e => hix (by rw [e])
      simp only [hne, ↓reduceIte]
      rw [pkgOf_congr p1]
      unfold Graph.pkgOf
      rw [hvp, List.getElem?_set_ne (Ne.symm hix)]
  · funext k
    show upd (alGet (unregMid g g1 id).pkgMap) d.key none k = alGet (alErase g.pkgMap d.key) k
    rw [p2]
    unfold upd
    by_cases hk : k = d.key
    · subst hk
      simp only [↓reduceIte]
      exact (alGet_alErase_self h.pkgMapKeys _).symm
    · simp only [hk, ↓reduceIte]
      exact (alGet_alErase_other (Ne.symm hk)).symm

end Wac.Graph
