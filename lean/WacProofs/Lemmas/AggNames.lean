import WacModel.Aggregate
import WacProofs.Lemmas.AggMonad
import WacProofs.Lemmas.NameMap
import WacProofs.Lemmas.VersionInj
/-
  C09 general theorems, part 8: the name level of `aggregate` (`imports` keys, `name_redirects`),
  independent of the types.  `NInv`: import names are distinct, at most one import per semver
  track, every redirect points from a name that is not imported to an imported name of the same
  track with a strictly higher version, every requirement name seen so far is imported or
  redirected, every import name has been seen.  The three name-level updates of `aggregate` keep it.
-/
namespace Wac.AggP
open Wac Wac.Spec

/-! ### association-list facts -/

theorem amGet_none_iff {β : Type} : ∀ (m : List (Str × β)) (k : Str), amGet m k = none ↔ k ∉ m.map (·.1)
  | [], k => by simp [amGet]
  | (k', v) :: r, k => by
    simp only [amGet, List.map_cons, List.mem_cons, not_or]
    by_cases h : k' = k
    · subst h; simp
    · have : (k' == k) = false := by simpa using h
      simp only [this, Bool.false_eq_true, ↓reduceIte, amGet_none_iff r k]
      exact ⟨fun hr => ⟨fun e => h e.symm, hr⟩, fun hr => hr.2⟩

theorem amGet_isSome_iff {β : Type} (m : List (Str × β)) (k : Str) : (amGet m k).isSome = true ↔ k ∈ m.map (·.1) := by
  rw [← not_iff_not, ← amGet_none_iff]
  cases amGet m k <;> simp

theorem amGet_mem {β : Type} : ∀ (m : List (Str × β)) (k : Str) (v : β), amGet m k = some v → (k, v) ∈ m
  | [], k, v, h => by simp [amGet] at h
  | (k', v') :: r, k, v, h => by
    simp only [amGet] at h
    split at h
    · rename_i he
      have : k' = k := by simpa using he
      subst this; cases h; exact List.mem_cons_self
    · exact List.mem_cons_of_mem _ (amGet_mem r k v h)

theorem amGet_alRemove {β : Type} : ∀ (m : List (Str × β)) (k x : Str),
    amGet (alRemove m k) x = if k == x then none else amGet m x
  | [], k, x => by simp [alRemove, amGet]
  | (k', v) :: r, k, x => by
    have ih := amGet_alRemove r k x
    simp only [alRemove] at ih ⊢
    by_cases h1 : k' = k
    · subst h1
      simp only [List.filter, BEq.rfl, Bool.not_true]
      rw [ih]
      by_cases h2 : k' = x
      · subst h2; simp
      · have : (k' == x) = false := by simpa using h2
        simp [amGet, this]
    · have h1' : (k' == k) = false := by simpa using h1
      simp only [List.filter, h1', Bool.not_false, amGet]
      rw [ih]
      by_cases h2 : k' = x
      · subst h2
        have : (k == k') = false := by simpa using fun e => h1 e.symm
        simp [this]
      · have : (k' == x) = false := by simpa using h2
        simp [this]

theorem amGet_append_one {β : Type} : ∀ (m : List (Str × β)) (n : Str) (v : β) (x : Str),
    amGet (m ++ [(n, v)]) x = (amGet m x).orElse (fun _ => if n == x then some v else none)
  | [], n, v, x => by simp [amGet]
  | (k', v') :: r, n, v, x => by
    simp only [List.cons_append, amGet]
    split
    · rfl
    · exact amGet_append_one r n v x

theorem keys_alRemove_sub {β : Type} (m : List (Str × β)) (k : Str) :
    ((alRemove m k).map (·.1)).Sublist (m.map (·.1)) := (List.filter_sublist).map _

/-- `redirects.map (re-point exName ↦ name)` -/
def repoint (R : List (Str × Str)) (exName name : Str) : List (Str × Str) :=
  R.map fun e => if e.2 == exName then (e.1, name) else e

theorem amGet_repoint : ∀ (R : List (Str × Str)) (exName name a : Str),
    amGet (repoint R exName name) a = (amGet R a).map fun b => if b == exName then name else b
  | [], _, _, _ => rfl
  | (k, b) :: r, exName, name, a => by
    have ih := amGet_repoint r exName name a
    simp only [repoint] at ih
    simp only [repoint, List.map_cons, amGet]
    by_cases hb : (b == exName) = true
    · simp only [hb, ↓reduceIte, amGet]
      split
      · have : b = exName := by simpa using hb
        subst this; simp
      · exact ih
    · have hb' : (b == exName) = false := by simpa using hb
      simp only [hb', Bool.false_eq_true, ↓reduceIte, amGet]
      split
      · simp only [Option.map_some, hb', Bool.false_eq_true, ↓reduceIte]
      · exact ih

/-! ### versions on one track -/

theorem altKey_tie {a b k : Str} {va vb : Version} (ha : altKey a = some (k, va)) (hb : altKey b = some (k, vb))
    (hk : va.key = vb.key) : a = b := by
  obtain ⟨ta, hta, hra, hva⟩ := track_of_altKey ha
  obtain ⟨tb, htb, hrb, hvb⟩ := track_of_altKey hb
  have : ta = tb := (keyRep_eq_iff hra hrb).1 rfl
  subst this
  exact tieFree_always [(a, ()), (b, ())] (a, ()) (by simp) (b, ()) (by simp) ta hta htb va vb hva hvb hk

theorem vlt_trans {a b c : Version} (h1 : a.lt b = true) (h2 : b.lt c = true) : a.lt c = true := by
  rw [vlt_iff] at *; exact lt_trans h1 h2

theorem vlt_asymm {a b : Version} (h1 : a.lt b = true) : ¬ b.lt a = true := by
  rw [vlt_iff] at *; exact lt_asymm h1

theorem vlt_irrefl (a : Version) : ¬ a.lt a = true := by
  rw [vlt_iff]; exact lt_irrefl _

theorem vlt_of_not {a b k : Str} {va vb : Version} (ha : altKey a = some (k, va)) (hb : altKey b = some (k, vb))
    (hne : a ≠ b) (h : ¬ vb.lt va = true) : va.lt vb = true := by
  rw [vlt_iff]
  rw [not_vlt_iff] at h
  rcases lt_or_eq_of_le h with h | h
  · exact h
  · exact absurd (altKey_tie ha hb h) hne

/-! ### `find_semver_compatible_import` on the list of imports -/

def findSemver {β : Type} (imports : List (Str × β)) (name : Str) : Option (Str × β) :=
  match altKey name with
  | none => none
  | some (k, _) => imports.find? fun e => match altKey e.1 with
    | some (k', _) => k' == k
    | none => false

theorem findSemverImport_eq (a : Agg) (name : Str) : a.findSemverImport name = findSemver a.imports name := rfl

theorem findSemver_some {β : Type} {imports : List (Str × β)} {name en : Str} {ek : β}
    (h : findSemver imports name = some (en, ek)) :
    (en, ek) ∈ imports ∧ ∃ k v v', altKey name = some (k, v) ∧ altKey en = some (k, v') := by
  unfold findSemver at h
  cases hk : altKey name with
  | none => simp [hk] at h
  | some kv =>
    obtain ⟨k, v⟩ := kv
    simp only [hk] at h
    have hm := List.mem_of_find?_eq_some h
    have hp := List.find?_some h
    simp only at hp
    cases hke : altKey en with
    | none => simp [hke] at hp
    | some kv' =>
      obtain ⟨k', v'⟩ := kv'
      simp only [hke, beq_iff_eq] at hp
      subst hp
      exact ⟨hm, k', v, v', rfl, rfl⟩

theorem findSemver_none {β : Type} {imports : List (Str × β)} {name k : Str} {v : Version}
    (h : findSemver imports name = none) (hk : altKey name = some (k, v)) :
    ∀ e, e ∈ imports → ∀ v', altKey e.1 ≠ some (k, v') := by
  unfold findSemver at h
  simp only [hk, List.find?_eq_none] at h
  intro e he v' hke
  have := h e he
  simp [hke] at this

/-! ### the name-level invariant -/

def canon (R : List (Str × Str)) (n : Str) : Str := (amGet R n).getD n

theorem canonical_eq (a : Agg) (n : Str) : a.canonical n = canon a.redirects n := rfl

structure NInv {β : Type} (imports : List (Str × β)) (R : List (Str × Str)) (S : List Str) : Prop where
  nodup : (imports.map (·.1)).Nodup
  red : ∀ a b, amGet R a = some b → amGet imports a = none ∧ (amGet imports b).isSome = true ∧
    ∃ k va vb, altKey a = some (k, va) ∧ altKey b = some (k, vb) ∧ va.lt vb = true
  track : ∀ a b k va vb, (amGet imports a).isSome = true → (amGet imports b).isSome = true →
    altKey a = some (k, va) → altKey b = some (k, vb) → a = b
  seen : ∀ n, n ∈ S → (amGet imports n).isSome = true ∨ (amGet R n).isSome = true
  from_ : ∀ n, (amGet imports n).isSome = true → n ∈ S

theorem ninv_empty {β : Type} : NInv ([] : List (Str × β)) [] [] := by
  refine ⟨by simp, ?_, ?_, ?_, ?_⟩
  · intro a b h; cases h
  · intro a b k va vb h; cases h
  · intro n h; cases h
  · intro n h; cases h

section ninv
variable {β : Type} {imports : List (Str × β)} {R : List (Str × Str)} {S : List Str}

/-- the canonical name of a seen name is imported -/
theorem NInv.canon_imported (h : NInv imports R S) {n : Str} (hn : n ∈ S) : (amGet imports (canon R n)).isSome = true := by
  unfold canon
  cases hr : amGet R n with
  | some b => exact (h.red n b hr).2.1
  | none =>
    rcases h.seen n hn with h1 | h1
    · simpa using h1
    · rw [hr] at h1; cases h1

/-- an imported name is its own canonical name -/
theorem NInv.canon_self (h : NInv imports R S) {n : Str} (hn : (amGet imports n).isSome = true) : canon R n = n := by
  unfold canon
  cases hr : amGet R n with
  | some b => rw [(h.red n b hr).1] at hn; cases hn
  | none => rfl

/-- case 1 of `aggregate`: the name is imported already -/
theorem NInv.exact (h : NInv imports R S) {name : Str} (hn : (amGet imports name).isSome = true) :
    NInv imports R (name :: S) :=
  ⟨h.nodup, h.red, h.track, fun n hm => by
    rcases List.mem_cons.1 hm with rfl | hm
    · exact .inl hn
    · exact h.seen n hm, fun n hi => List.mem_cons_of_mem _ (h.from_ n hi)⟩

/-- case 3 of `aggregate`: no import of that name or track -/
theorem NInv.fresh (h : NInv imports R S) {name : Str} (k : β) (hnone : amGet imports name = none)
    (hfs : findSemver imports name = none) : NInv (amInsert imports name k) R (name :: S) := by
  have hget : ∀ x, amGet (amInsert imports name k) x = if name == x then some k else amGet imports x :=
    fun x => AggP.amGet_amInsert imports name x k
  have happ : amInsert imports name k = imports ++ [(name, k)] := by
    clear hget hfs h
    induction imports with
    | nil => rfl
    | cons e m ih =>
      obtain ⟨m0, v0⟩ := e
      simp only [amGet] at hnone
      split at hnone
      · cases hnone
      · rename_i hne
        simp [amInsert, hne, ih hnone]
  refine ⟨?_, ?_, ?_, ?_, ?_⟩
  · rw [happ, List.map_append, List.nodup_append]
    refine ⟨h.nodup, by simp, ?_⟩
    intro a ha b hb hab
    simp only [List.map_cons, List.map_nil, List.mem_singleton] at hb
    subst hb; subst hab
    exact (amGet_none_iff imports a).1 hnone ha
  · intro a b hab
    obtain ⟨h1, h2, k0, va, vb, ha, hb, hlt⟩ := h.red a b hab
    have hne : (name == a) = false := by
      rw [Bool.eq_false_iff]
      intro hc
      have : name = a := by simpa using hc
      subst this
      -- `name` is redirected to an import of its own track: `findSemver` would have found it
      obtain ⟨x, hx⟩ := Option.isSome_iff_exists.1 h2
      exact findSemver_none hfs ha (b, x) (amGet_mem _ _ _ hx) vb hb
    refine ⟨by rw [hget, hne]; exact h1, ?_, k0, va, vb, ha, hb, hlt⟩
    rw [hget]; split
    · rfl
    · exact h2
  · intro a b k0 va vb ha hb hka hkb
    rw [hget] at ha hb
    by_cases h1 : name = a <;> by_cases h2 : name = b
    · rw [← h1, ← h2]
    · subst h1
      have h2' : (name == b) = false := by simpa using h2
      rw [h2'] at hb
      obtain ⟨x, hx⟩ := Option.isSome_iff_exists.1 (by simpa using hb)
      exact absurd hkb (findSemver_none hfs hka (b, x) (amGet_mem _ _ _ hx) vb)
    · subst h2
      have h1' : (name == a) = false := by simpa using h1
      rw [h1'] at ha
      obtain ⟨x, hx⟩ := Option.isSome_iff_exists.1 (by simpa using ha)
      exact absurd hka (findSemver_none hfs hkb (a, x) (amGet_mem _ _ _ hx) va)
    · have h1' : (name == a) = false := by simpa using h1
      have h2' : (name == b) = false := by simpa using h2
      rw [h1'] at ha; rw [h2'] at hb
      exact h.track a b k0 va vb (by simpa using ha) (by simpa using hb) hka hkb
  · intro n hm
    rcases List.mem_cons.1 hm with rfl | hm
    · left; rw [hget]; simp
    · rcases h.seen n hm with h1 | h1
      · left; rw [hget]; split
        · rfl
        · exact h1
      · exact .inr h1
  · intro n hi
    rw [hget] at hi
    by_cases h1 : name = n
    · subst h1; exact List.mem_cons_self
    · have h1' : (name == n) = false := by simpa using h1
      rw [h1'] at hi
      exact List.mem_cons_of_mem _ (h.from_ n (by simpa using hi))

/-- case 2 of `aggregate`, the new name is not higher: it is redirected to the existing import -/
theorem NInv.redirect (h : NInv imports R S) {name exName k : Str} {vn vex : Version}
    (hnone : amGet imports name = none) (hex : (amGet imports exName).isSome = true)
    (hkn : altKey name = some (k, vn)) (hke : altKey exName = some (k, vex)) (hnlt : ¬ vex.lt vn = true) :
    NInv imports (amInsert R name exName) (name :: S) := by
  have hne : name ≠ exName := by rintro rfl; rw [hnone] at hex; cases hex
  have hget : ∀ x, amGet (amInsert R name exName) x = if name == x then some exName else amGet R x :=
    fun x => AggP.amGet_amInsert R name x exName
  refine ⟨h.nodup, ?_, h.track, ?_, fun n hi => List.mem_cons_of_mem _ (h.from_ n hi)⟩
  · intro a b hab
    rw [hget] at hab
    split at hab
    · rename_i he
      have : name = a := by simpa using he
      subst this
      cases hab
      exact ⟨hnone, hex, k, vn, vex, hkn, hke, vlt_of_not hkn hke hne hnlt⟩
    · exact h.red a b hab
  · intro n hm
    rcases List.mem_cons.1 hm with rfl | hm
    · right; rw [hget]; simp
    · rcases h.seen n hm with h1 | h1
      · exact .inl h1
      · right; rw [hget]; split
        · rfl
        · exact h1

theorem canon_redirect (R : List (Str × Str)) (name exName n : Str) :
    canon (amInsert R name exName) n = if name == n then exName else canon R n := by
  unfold canon
  rw [AggP.amGet_amInsert]
  split <;> rfl

/-- the imports after a rename -/
theorem amGet_renamed (imports : List (Str × β)) (name exName : Str) (m : β) (hne : name ≠ exName)
    (hnone : amGet imports name = none) (x : Str) :
    amGet (alRemove imports exName ++ [(name, m)]) x =
      if name == x then some m else if exName == x then none else amGet imports x := by
  rw [amGet_append_one, amGet_alRemove]
  by_cases h1 : name = x
  · subst h1
    have : (exName == name) = false := by simpa using fun e => hne e.symm
    simp [this, hnone]
  · have h1' : (name == x) = false := by simpa using h1
    simp only [h1', Bool.false_eq_true, ↓reduceIte]
    split
    · rfl
    · cases amGet imports x <;> rfl

/-- case 2 of `aggregate`, the new name is higher: the import is renamed, the old name and
everything that pointed to it are redirected to the new name -/
theorem NInv.rename (h : NInv imports R S) {name exName k : Str} {m : β} {vn vex : Version}
    (hnone : amGet imports name = none) (hex : amGet imports exName = some m)
    (hkn : altKey name = some (k, vn)) (hke : altKey exName = some (k, vex)) (hlt : vex.lt vn = true) :
    NInv (alRemove imports exName ++ [(name, m)]) (amInsert (repoint R exName name) exName name) (name :: S) := by
  have hne : name ≠ exName := by rintro rfl; rw [hnone] at hex; cases hex
  have hexs : (amGet imports exName).isSome = true := by rw [hex]; rfl
  have hgi := amGet_renamed imports name exName m hne hnone
  have hgr : ∀ a, amGet (amInsert (repoint R exName name) exName name) a =
      if exName == a then some name else (amGet R a).map fun b => if b == exName then name else b := by
    intro a; rw [AggP.amGet_amInsert, amGet_repoint]
  -- `name` is not a redirect key: it would point to `exName`, which is lower
  have hname_nokey : amGet R name = none := by
    cases hr : amGet R name with
    | none => rfl
    | some b =>
      obtain ⟨_, hb, k0, va, vb, hka, hkb, hl⟩ := h.red name b hr
      rw [hkn] at hka; cases hka
      have : b = exName := h.track b exName k vb vex hb hexs hkb hke
      subst this
      rw [hke] at hkb; cases hkb
      exact absurd hl (vlt_asymm hlt)
  refine ⟨?_, ?_, ?_, ?_, ?_⟩
  · rw [List.map_append, List.nodup_append]
    refine ⟨(keys_alRemove_sub imports exName).nodup h.nodup, by simp, ?_⟩
    intro a ha b hb hab
    simp only [List.map_cons, List.map_nil, List.mem_singleton] at hb
    subst hb; subst hab
    exact (amGet_none_iff imports a).1 hnone ((keys_alRemove_sub imports exName).subset ha)
  · intro a b hab
    rw [hgr] at hab
    by_cases hea : exName = a
    · subst hea
      simp only [BEq.rfl, ↓reduceIte, Option.some.injEq] at hab
      subst hab
      refine ⟨?_, ?_, k, vex, vn, hke, hkn, hlt⟩
      · rw [hgi]
        have : (name == exName) = false := by simpa using hne
        simp [this]
      · rw [hgi]; simp
    · have hea' : (exName == a) = false := by simpa using hea
      rw [hea'] at hab
      simp only [Bool.false_eq_true, ↓reduceIte, Option.map_eq_some_iff] at hab
      obtain ⟨b0, hb0, rfl⟩ := hab
      obtain ⟨h1, h2, k0, va, vb, hka, hkb, hl⟩ := h.red a b0 hb0
      have hna : name ≠ a := by rintro rfl; rw [hname_nokey] at hb0; cases hb0
      have hna' : (name == a) = false := by simpa using hna
      refine ⟨by rw [hgi, hna', hea']; exact h1, ?_, ?_⟩
      · by_cases hb : b0 = exName
        · subst hb; simp [hgi]
        · have hb' : (b0 == exName) = false := by simpa using hb
          simp only [hb', Bool.false_eq_true, ↓reduceIte]
          rw [hgi]
          have h3 : (name == b0) = false := by
            rw [Bool.eq_false_iff]; intro hc
            have : name = b0 := by simpa using hc
            subst this; rw [hnone] at h2; cases h2
          have h4 : (exName == b0) = false := by simpa using fun e => hb e.symm
          rw [h3, h4]; exact h2
      · by_cases hb : b0 = exName
        · subst hb
          rw [hke] at hkb; cases hkb
          simp only [BEq.rfl, ↓reduceIte]
          exact ⟨k, va, vn, hka, hkn, vlt_trans hl hlt⟩
        · have hb' : (b0 == exName) = false := by simpa using hb
          simp only [hb', Bool.false_eq_true, ↓reduceIte]
          exact ⟨k0, va, vb, hka, hkb, hl⟩
  · intro a b k0 va vb ha hb hka hkb
    rw [hgi] at ha hb
    -- an import of the new list is `name` or an old import other than `exName`
    have old : ∀ x, name ≠ x → (if name == x then some m else if exName == x then none else amGet imports x).isSome = true →
        exName ≠ x ∧ (amGet imports x).isSome = true := by
      intro x hx hs
      have hx' : (name == x) = false := by simpa using hx
      rw [hx'] at hs
      by_cases he : exName = x
      · subst he; simp at hs
      · have he' : (exName == x) = false := by simpa using he
        rw [he'] at hs
        exact ⟨he, by simpa using hs⟩
    by_cases h1 : name = a <;> by_cases h2 : name = b
    · rw [← h1, ← h2]
    · subst h1
      obtain ⟨hbe, hbi⟩ := old b h2 hb
      rw [hkn] at hka; cases hka
      exact absurd (h.track exName b k vex vb hexs hbi hke hkb) hbe
    · subst h2
      obtain ⟨hae, hai⟩ := old a h1 ha
      rw [hkn] at hkb; cases hkb
      exact absurd (h.track exName a k vex va hexs hai hke hka) hae
    · obtain ⟨_, hai⟩ := old a h1 ha
      obtain ⟨_, hbi⟩ := old b h2 hb
      exact h.track a b k0 va vb hai hbi hka hkb
  · intro n hm
    rcases List.mem_cons.1 hm with rfl | hm
    · left; rw [hgi]; simp
    · by_cases hen : exName = n
      · right; rw [hgr]; simp [hen]
      · have hen' : (exName == n) = false := by simpa using hen
        rcases h.seen n hm with h1 | h1
        · left
          rw [hgi]
          split
          · rfl
          · rw [hen']; exact h1
        · right
          rw [hgr, hen']
          obtain ⟨b, hb⟩ := Option.isSome_iff_exists.1 h1
          simp [hb]
  · intro n hi
    rw [hgi] at hi
    by_cases h1 : name = n
    · subst h1; exact List.mem_cons_self
    · have h1' : (name == n) = false := by simpa using h1
      rw [h1'] at hi
      by_cases he : exName = n
      · subst he; simp at hi
      · have he' : (exName == n) = false := by simpa using he
        rw [he'] at hi
        exact List.mem_cons_of_mem _ (h.from_ n (by simpa using hi))

/-- in the rename case the new (higher) name has never been redirected -/
theorem NInv.rename_nokey (h : NInv imports R S) {name exName k : Str} {vn vex : Version}
    (hex : (amGet imports exName).isSome = true)
    (hkn : altKey name = some (k, vn)) (hke : altKey exName = some (k, vex)) (hlt : vex.lt vn = true) :
    amGet R name = none := by
  cases hr : amGet R name with
  | none => rfl
  | some b =>
    obtain ⟨_, hb, k0, va, vb, hka, hkb, hl⟩ := h.red name b hr
    rw [hkn] at hka; cases hka
    have : b = exName := h.track b exName k vb vex hb hex hkb hke
    subst this
    rw [hke] at hkb; cases hkb
    exact absurd hl (vlt_asymm hlt)

/-- a seen name that is not imported is redirected to the import of its track -/
theorem NInv.seen_canon (h : NInv imports R S) {name exName k : Str} {vn vex : Version} (hs : name ∈ S)
    (hnone : amGet imports name = none) (hex : (amGet imports exName).isSome = true)
    (hkn : altKey name = some (k, vn)) (hke : altKey exName = some (k, vex)) : canon R name = exName := by
  rcases h.seen name hs with h1 | h1
  · rw [hnone] at h1; cases h1
  · obtain ⟨b, hb⟩ := Option.isSome_iff_exists.1 h1
    obtain ⟨_, hbi, k0, va, vb, hka, hkb, _⟩ := h.red name b hb
    rw [hkn] at hka; cases hka
    unfold canon; rw [hb]
    exact h.track b exName k vb vex hbi hex hkb hke

theorem canon_rename (R : List (Str × Str)) (name exName n : Str) :
    canon (amInsert (repoint R exName name) exName name) n =
      if exName == n then name else if canon R n == exName then (if (amGet R n).isSome then name else n) else canon R n := by
  unfold canon
  rw [AggP.amGet_amInsert, amGet_repoint]
  by_cases h : (exName == n) = true
  · simp [h]
  · have h' : (exName == n) = false := by simpa using h
    simp only [h', Bool.false_eq_true, ↓reduceIte]
    cases hr : amGet R n with
    | none =>
      simp only [Option.map_none, Option.getD_none, Option.isSome_none, Bool.false_eq_true, ↓reduceIte]
      split <;> rfl
    | some b =>
      simp only [Option.map_some, Option.getD_some, Option.isSome_some, ↓reduceIte]

end ninv

end Wac.AggP
