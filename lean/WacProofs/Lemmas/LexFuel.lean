import WacModel.Lexer
/-
  The fuel of `lexAll` is sufficient: with more fuel than characters the result does not depend
  on the fuel (the `0` case, which would silently truncate the token list, is never reached).
-/
namespace Wac.Lemmas.LexFuel
open Wac Wac.Lex

theorem drop_lt {s : Str} {n : Nat} (hs : s ≠ []) (hn : 0 < n) : (s.drop n).length < s.length := by
  cases s with
  | nil => exact absurd rfl hs
  | cons c r => simp; omega

theorem lexAll_stable : ∀ (fuel : Nat) (s : Str) (pos pp : Nat) (pv : Str), s.length < fuel →
    lexAll fuel pos s pp pv = lexAll (fuel + 1) pos s pp pv := by
  intro fuel
  induction fuel with
  | zero => intro s pos pp pv h; omega
  | succ fuel ih =>
    intro s pos pp pv h
    rw [lexAll, lexAll]
    cases hst : lexStep s with
    | eof => rfl
    | skip n =>
      simp only []
      have hs : s ≠ [] := by intro hs; subst hs; simp [lexStep] at hst
      have hn : 0 < (if n = 0 then 1 else n) := by split <;> omega
      exact ih _ _ _ _ (by have := drop_lt hs hn; omega)
    | tok res n =>
      simp only []
      have hs : s ≠ [] := by intro hs; subst hs; simp [lexStep] at hst
      have hn : 0 < (if n = 0 then 1 else n) := by split <;> omega
      congr 1
      exact ih _ _ _ _ (by have := drop_lt hs hn; omega)

/-- `tokenize` would produce the same tokens with any larger amount of fuel -/
theorem tokenize_fuel_sufficient (src : Str) (extra : Nat) :
    lexAll (src.length + 1 + extra) 0 src 0 src = tokenize src := by
  induction extra with
  | zero => rfl
  | succ k ih =>
    rw [← ih]
    exact (lexAll_stable (src.length + 1 + k) src 0 0 src (by omega)).symm

end Wac.Lemmas.LexFuel
