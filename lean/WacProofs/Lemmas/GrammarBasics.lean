import WacProofs.Lemmas.TokenAbs
import WacProofs.Lemmas.Erase
/-
  C12 proofs, layer 1: evaluation rules for the list-of-successes combinators of the grammar
  specification (`SP`, `t`, `class_`, `many`, `opt`, `list0`, `list1`) — generic ones and the ones
  for an abstracted parser token (`absTok tk`) at the head of the input.
-/
namespace Wac.C12
open Wac Wac.Ast Wac.Lex Wac.Parse Wac.Spec.Grammar

/-! ### the monad -/

@[simp] theorem bind_apply {α β} (p : SP α) (f : α → SP β) (ts : List STok) :
    (p >>= f) ts = (p ts).flatMap fun x => f x.1 x.2 := rfl

@[simp] theorem pure_apply {α} (a : α) (ts : List STok) : (pure a : SP α) ts = [(a, ts)] := rfl

@[simp] theorem alt_apply {α} (p q : SP α) (ts : List STok) : (p <+> q) ts = p ts ++ q ts := rfl

@[simp] theorem fail_apply {α} (ts : List STok) : (fail : SP α) ts = [] := rfl

@[simp] theorem opt_apply {α} (p : SP α) (ts : List STok) :
    opt p ts = (p ts).map (fun x => (some x.1, x.2)) ++ [(none, ts)] := by
  simp [opt, List.flatMap_def]
  induction p ts <;> simp_all

/-! ### terminals on abstracted tokens -/

theorem isLit_toList_ne_nil {k : Token} (h : isLit k = true) : (litText k).toList ≠ [] := by
  cases k <;> first | (exact absurd h (by decide)) | decide

/-- the token kinds that are token classes of the grammar -/
def classOf : Token → Option SKind
  | .Ident => some .id
  | .String => some .string
  | .PackageName => some .packageName
  | .PackagePath => some .packagePath
  | _ => none

theorem absTok_ok {tk : LTok} {k : Token} (h : tk.res = .ok k) :
    absTok tk = match classOf k with
      | some c => ⟨c, tk.text⟩
      | none => ⟨.lit, (litText k).toList⟩ := by
  unfold absTok; rw [h]; cases k <;> rfl

theorem absTok_error {tk : LTok} {e : LexError} (h : tk.res = .error e) : absTok tk = ⟨.lit, []⟩ := by
  unfold absTok; rw [h]

theorem tok?_ok {tk : LTok} {k : Token} (h : tk.res = .ok k) : tk.tok? = some k := by
  simp [LTok.tok?, h]

theorem tok?_error {tk : LTok} {e : LexError} (h : tk.res = .error e) : tk.tok? = none := by
  simp [LTok.tok?, h]

theorem tok?_eq_some {tk : LTok} {k : Token} : tk.tok? = some k ↔ tk.res = .ok k := by
  unfold LTok.tok?; split <;> simp_all

theorem classOf_none_of_isLit {k : Token} (h : isLit k = true) : classOf k = none := by
  cases k <;> first | rfl | (exact absurd h (by decide))

theorem classOf_ne_lit {k : Token} {c : SKind} (h : classOf k = some c) : c ≠ .lit := by
  cases k <;> simp [classOf] at h <;> subst h <;> decide

/-- a terminal matches exactly the items of its token kind -/
theorem t_abs (k : Token) (hk : isLit k = true) (tk : LTok) (r : List STok) :
    t (litText k) (absTok tk :: r) = if tk.tok? = some k then [((), r)] else [] := by
  cases hres : tk.res with
  | error e =>
    have hne : litText k ≠ "" := by simpa [isLit] using hk
    simp only [t, absTok_error hres, tok?_error hres]
    simp
    intro h; exact hne h
  | ok k' =>
    rw [absTok_ok hres, tok?_ok hres]
    by_cases hkk : k' = k
    · subst hkk
      simp [classOf_none_of_isLit hk, t]
    · simp only [Option.some.injEq, hkk, if_false]
      cases hc : classOf k' with
      | some c =>
        have := classOf_ne_lit hc
        simp [t]
        intro h; exact absurd h this
      | none =>
        simp only [t]
        have : ((litText k').toList == (litText k).toList) = false := by
          apply beq_false_of_ne
          intro h
          have h2 : litText k' = litText k := String.toList_inj.mp h
          have hk' : isLit k' = true := by
            unfold isLit; rw [h2]; exact hk
          exact hkk (litText_inj hk' hk h2)
        simp [this]

@[simp] theorem t_nil (s : String) : t s [] = [] := rfl

theorem class_abs (k : Token) (c : SKind) (hc : classOf k = some c) (tk : LTok) (r : List STok) :
    class_ c (absTok tk :: r) = if tk.tok? = some k then [(tk.text, r)] else [] := by
  cases hres : tk.res with
  | error e =>
    have := classOf_ne_lit hc
    simp only [class_, absTok_error hres, tok?_error hres]
    simp
    intro h; exact absurd h.symm this
  | ok k' =>
    rw [absTok_ok hres, tok?_ok hres]
    by_cases hkk : k' = k
    · subst hkk
      simp [hc, class_]
    · simp only [Option.some.injEq, hkk, if_false]
      cases hc' : classOf k' with
      | some c' =>
        simp [class_]
        intro h; subst h
        apply hkk
        cases k' <;> simp [classOf] at hc' <;> subst hc' <;> cases k <;> simp [classOf] at hc ⊢
      | none =>
        have := classOf_ne_lit hc
        simp [class_]
        intro h; exact absurd h.symm this

@[simp] theorem class_nil (c : SKind) : class_ c [] = [] := rfl

/-! ### one evaluation rule per terminal of the grammar -/

@[simp] theorem t_ImportKeyword (tk : LTok) (r : List STok) :
    t "import" (absTok tk :: r) = if tk.tok? = some .ImportKeyword then [((), r)] else [] := t_abs .ImportKeyword rfl tk r
@[simp] theorem t_WithKeyword (tk : LTok) (r : List STok) :
    t "with" (absTok tk :: r) = if tk.tok? = some .WithKeyword then [((), r)] else [] := t_abs .WithKeyword rfl tk r
@[simp] theorem t_TypeKeyword (tk : LTok) (r : List STok) :
    t "type" (absTok tk :: r) = if tk.tok? = some .TypeKeyword then [((), r)] else [] := t_abs .TypeKeyword rfl tk r
@[simp] theorem t_TupleKeyword (tk : LTok) (r : List STok) :
    t "tuple" (absTok tk :: r) = if tk.tok? = some .TupleKeyword then [((), r)] else [] := t_abs .TupleKeyword rfl tk r
@[simp] theorem t_ListKeyword (tk : LTok) (r : List STok) :
    t "list" (absTok tk :: r) = if tk.tok? = some .ListKeyword then [((), r)] else [] := t_abs .ListKeyword rfl tk r
@[simp] theorem t_OptionKeyword (tk : LTok) (r : List STok) :
    t "option" (absTok tk :: r) = if tk.tok? = some .OptionKeyword then [((), r)] else [] := t_abs .OptionKeyword rfl tk r
@[simp] theorem t_ResultKeyword (tk : LTok) (r : List STok) :
    t "result" (absTok tk :: r) = if tk.tok? = some .ResultKeyword then [((), r)] else [] := t_abs .ResultKeyword rfl tk r
@[simp] theorem t_BorrowKeyword (tk : LTok) (r : List STok) :
    t "borrow" (absTok tk :: r) = if tk.tok? = some .BorrowKeyword then [((), r)] else [] := t_abs .BorrowKeyword rfl tk r
@[simp] theorem t_ResourceKeyword (tk : LTok) (r : List STok) :
    t "resource" (absTok tk :: r) = if tk.tok? = some .ResourceKeyword then [((), r)] else [] := t_abs .ResourceKeyword rfl tk r
@[simp] theorem t_VariantKeyword (tk : LTok) (r : List STok) :
    t "variant" (absTok tk :: r) = if tk.tok? = some .VariantKeyword then [((), r)] else [] := t_abs .VariantKeyword rfl tk r
@[simp] theorem t_RecordKeyword (tk : LTok) (r : List STok) :
    t "record" (absTok tk :: r) = if tk.tok? = some .RecordKeyword then [((), r)] else [] := t_abs .RecordKeyword rfl tk r
@[simp] theorem t_FlagsKeyword (tk : LTok) (r : List STok) :
    t "flags" (absTok tk :: r) = if tk.tok? = some .FlagsKeyword then [((), r)] else [] := t_abs .FlagsKeyword rfl tk r
@[simp] theorem t_EnumKeyword (tk : LTok) (r : List STok) :
    t "enum" (absTok tk :: r) = if tk.tok? = some .EnumKeyword then [((), r)] else [] := t_abs .EnumKeyword rfl tk r
@[simp] theorem t_FuncKeyword (tk : LTok) (r : List STok) :
    t "func" (absTok tk :: r) = if tk.tok? = some .FuncKeyword then [((), r)] else [] := t_abs .FuncKeyword rfl tk r
@[simp] theorem t_StaticKeyword (tk : LTok) (r : List STok) :
    t "static" (absTok tk :: r) = if tk.tok? = some .StaticKeyword then [((), r)] else [] := t_abs .StaticKeyword rfl tk r
@[simp] theorem t_ConstructorKeyword (tk : LTok) (r : List STok) :
    t "constructor" (absTok tk :: r) = if tk.tok? = some .ConstructorKeyword then [((), r)] else [] := t_abs .ConstructorKeyword rfl tk r
@[simp] theorem t_U8Keyword (tk : LTok) (r : List STok) :
    t "u8" (absTok tk :: r) = if tk.tok? = some .U8Keyword then [((), r)] else [] := t_abs .U8Keyword rfl tk r
@[simp] theorem t_S8Keyword (tk : LTok) (r : List STok) :
    t "s8" (absTok tk :: r) = if tk.tok? = some .S8Keyword then [((), r)] else [] := t_abs .S8Keyword rfl tk r
@[simp] theorem t_U16Keyword (tk : LTok) (r : List STok) :
    t "u16" (absTok tk :: r) = if tk.tok? = some .U16Keyword then [((), r)] else [] := t_abs .U16Keyword rfl tk r
@[simp] theorem t_S16Keyword (tk : LTok) (r : List STok) :
    t "s16" (absTok tk :: r) = if tk.tok? = some .S16Keyword then [((), r)] else [] := t_abs .S16Keyword rfl tk r
@[simp] theorem t_U32Keyword (tk : LTok) (r : List STok) :
    t "u32" (absTok tk :: r) = if tk.tok? = some .U32Keyword then [((), r)] else [] := t_abs .U32Keyword rfl tk r
@[simp] theorem t_S32Keyword (tk : LTok) (r : List STok) :
    t "s32" (absTok tk :: r) = if tk.tok? = some .S32Keyword then [((), r)] else [] := t_abs .S32Keyword rfl tk r
@[simp] theorem t_U64Keyword (tk : LTok) (r : List STok) :
    t "u64" (absTok tk :: r) = if tk.tok? = some .U64Keyword then [((), r)] else [] := t_abs .U64Keyword rfl tk r
@[simp] theorem t_S64Keyword (tk : LTok) (r : List STok) :
    t "s64" (absTok tk :: r) = if tk.tok? = some .S64Keyword then [((), r)] else [] := t_abs .S64Keyword rfl tk r
@[simp] theorem t_F32Keyword (tk : LTok) (r : List STok) :
    t "f32" (absTok tk :: r) = if tk.tok? = some .F32Keyword then [((), r)] else [] := t_abs .F32Keyword rfl tk r
@[simp] theorem t_F64Keyword (tk : LTok) (r : List STok) :
    t "f64" (absTok tk :: r) = if tk.tok? = some .F64Keyword then [((), r)] else [] := t_abs .F64Keyword rfl tk r
@[simp] theorem t_CharKeyword (tk : LTok) (r : List STok) :
    t "char" (absTok tk :: r) = if tk.tok? = some .CharKeyword then [((), r)] else [] := t_abs .CharKeyword rfl tk r
@[simp] theorem t_BoolKeyword (tk : LTok) (r : List STok) :
    t "bool" (absTok tk :: r) = if tk.tok? = some .BoolKeyword then [((), r)] else [] := t_abs .BoolKeyword rfl tk r
@[simp] theorem t_StringKeyword (tk : LTok) (r : List STok) :
    t "string" (absTok tk :: r) = if tk.tok? = some .StringKeyword then [((), r)] else [] := t_abs .StringKeyword rfl tk r
@[simp] theorem t_InterfaceKeyword (tk : LTok) (r : List STok) :
    t "interface" (absTok tk :: r) = if tk.tok? = some .InterfaceKeyword then [((), r)] else [] := t_abs .InterfaceKeyword rfl tk r
@[simp] theorem t_WorldKeyword (tk : LTok) (r : List STok) :
    t "world" (absTok tk :: r) = if tk.tok? = some .WorldKeyword then [((), r)] else [] := t_abs .WorldKeyword rfl tk r
@[simp] theorem t_ExportKeyword (tk : LTok) (r : List STok) :
    t "export" (absTok tk :: r) = if tk.tok? = some .ExportKeyword then [((), r)] else [] := t_abs .ExportKeyword rfl tk r
@[simp] theorem t_NewKeyword (tk : LTok) (r : List STok) :
    t "new" (absTok tk :: r) = if tk.tok? = some .NewKeyword then [((), r)] else [] := t_abs .NewKeyword rfl tk r
@[simp] theorem t_LetKeyword (tk : LTok) (r : List STok) :
    t "let" (absTok tk :: r) = if tk.tok? = some .LetKeyword then [((), r)] else [] := t_abs .LetKeyword rfl tk r
@[simp] theorem t_UseKeyword (tk : LTok) (r : List STok) :
    t "use" (absTok tk :: r) = if tk.tok? = some .UseKeyword then [((), r)] else [] := t_abs .UseKeyword rfl tk r
@[simp] theorem t_IncludeKeyword (tk : LTok) (r : List STok) :
    t "include" (absTok tk :: r) = if tk.tok? = some .IncludeKeyword then [((), r)] else [] := t_abs .IncludeKeyword rfl tk r
@[simp] theorem t_AsKeyword (tk : LTok) (r : List STok) :
    t "as" (absTok tk :: r) = if tk.tok? = some .AsKeyword then [((), r)] else [] := t_abs .AsKeyword rfl tk r
@[simp] theorem t_PackageKeyword (tk : LTok) (r : List STok) :
    t "package" (absTok tk :: r) = if tk.tok? = some .PackageKeyword then [((), r)] else [] := t_abs .PackageKeyword rfl tk r
@[simp] theorem t_TargetsKeyword (tk : LTok) (r : List STok) :
    t "targets" (absTok tk :: r) = if tk.tok? = some .TargetsKeyword then [((), r)] else [] := t_abs .TargetsKeyword rfl tk r
@[simp] theorem t_Semicolon (tk : LTok) (r : List STok) :
    t ";" (absTok tk :: r) = if tk.tok? = some .Semicolon then [((), r)] else [] := t_abs .Semicolon rfl tk r
@[simp] theorem t_OpenBrace (tk : LTok) (r : List STok) :
    t "{" (absTok tk :: r) = if tk.tok? = some .OpenBrace then [((), r)] else [] := t_abs .OpenBrace rfl tk r
@[simp] theorem t_CloseBrace (tk : LTok) (r : List STok) :
    t "}" (absTok tk :: r) = if tk.tok? = some .CloseBrace then [((), r)] else [] := t_abs .CloseBrace rfl tk r
@[simp] theorem t_Colon (tk : LTok) (r : List STok) :
    t ":" (absTok tk :: r) = if tk.tok? = some .Colon then [((), r)] else [] := t_abs .Colon rfl tk r
@[simp] theorem t_Equals (tk : LTok) (r : List STok) :
    t "=" (absTok tk :: r) = if tk.tok? = some .Equals then [((), r)] else [] := t_abs .Equals rfl tk r
@[simp] theorem t_OpenParen (tk : LTok) (r : List STok) :
    t "(" (absTok tk :: r) = if tk.tok? = some .OpenParen then [((), r)] else [] := t_abs .OpenParen rfl tk r
@[simp] theorem t_CloseParen (tk : LTok) (r : List STok) :
    t ")" (absTok tk :: r) = if tk.tok? = some .CloseParen then [((), r)] else [] := t_abs .CloseParen rfl tk r
@[simp] theorem t_Arrow (tk : LTok) (r : List STok) :
    t "->" (absTok tk :: r) = if tk.tok? = some .Arrow then [((), r)] else [] := t_abs .Arrow rfl tk r
@[simp] theorem t_OpenAngle (tk : LTok) (r : List STok) :
    t "<" (absTok tk :: r) = if tk.tok? = some .OpenAngle then [((), r)] else [] := t_abs .OpenAngle rfl tk r
@[simp] theorem t_CloseAngle (tk : LTok) (r : List STok) :
    t ">" (absTok tk :: r) = if tk.tok? = some .CloseAngle then [((), r)] else [] := t_abs .CloseAngle rfl tk r
@[simp] theorem t_Underscore (tk : LTok) (r : List STok) :
    t "_" (absTok tk :: r) = if tk.tok? = some .Underscore then [((), r)] else [] := t_abs .Underscore rfl tk r
@[simp] theorem t_OpenBracket (tk : LTok) (r : List STok) :
    t "[" (absTok tk :: r) = if tk.tok? = some .OpenBracket then [((), r)] else [] := t_abs .OpenBracket rfl tk r
@[simp] theorem t_CloseBracket (tk : LTok) (r : List STok) :
    t "]" (absTok tk :: r) = if tk.tok? = some .CloseBracket then [((), r)] else [] := t_abs .CloseBracket rfl tk r
@[simp] theorem t_Dot (tk : LTok) (r : List STok) :
    t "." (absTok tk :: r) = if tk.tok? = some .Dot then [((), r)] else [] := t_abs .Dot rfl tk r
@[simp] theorem t_Ellipsis (tk : LTok) (r : List STok) :
    t "..." (absTok tk :: r) = if tk.tok? = some .Ellipsis then [((), r)] else [] := t_abs .Ellipsis rfl tk r
@[simp] theorem t_Comma (tk : LTok) (r : List STok) :
    t "," (absTok tk :: r) = if tk.tok? = some .Comma then [((), r)] else [] := t_abs .Comma rfl tk r
@[simp] theorem t_Slash (tk : LTok) (r : List STok) :
    t "/" (absTok tk :: r) = if tk.tok? = some .Slash then [((), r)] else [] := t_abs .Slash rfl tk r
@[simp] theorem t_At (tk : LTok) (r : List STok) :
    t "@" (absTok tk :: r) = if tk.tok? = some .At then [((), r)] else [] := t_abs .At rfl tk r

@[simp] theorem class_id (tk : LTok) (r : List STok) :
    class_ .id (absTok tk :: r) = if tk.tok? = some .Ident then [(tk.text, r)] else [] :=
  class_abs .Ident .id rfl tk r
@[simp] theorem class_string (tk : LTok) (r : List STok) :
    class_ .string (absTok tk :: r) = if tk.tok? = some .String then [(tk.text, r)] else [] :=
  class_abs .String .string rfl tk r
@[simp] theorem class_packageName (tk : LTok) (r : List STok) :
    class_ .packageName (absTok tk :: r) = if tk.tok? = some .PackageName then [(tk.text, r)] else [] :=
  class_abs .PackageName .packageName rfl tk r
@[simp] theorem class_packagePath (tk : LTok) (r : List STok) :
    class_ .packagePath (absTok tk :: r) = if tk.tok? = some .PackagePath then [(tk.text, r)] else [] :=
  class_abs .PackagePath .packagePath rfl tk r

end Wac.C12
