import WacProofs.Lemmas.GraphInvSetArg
import WacProofs.Lemmas.GraphInvUnsetArg
/-
  No call with live identifiers panics on a consistent graph (all operations except the two
  cascading removals, which are in GraphNoPanic2).
-/
namespace Wac.Graph
open Wac Wac.HashSites

theorem pkgLive_ok {g : Graph} {id : PkgId} (h : g.pkgLive id = true) : ∃ d, g.pkgOf id = .ok d := by
  unfold Graph.pkgLive at h
  cases hq : g.pkgOf id with
  | error s => rw [hq] at h; cases h
  | ok d => exact ⟨d, rfl⟩

theorem noPanic_register {ctx : Ctx} {g : Graph} (h : Inv ctx g) (d : PkgDef) :
    (registerPackage g d).2.isPanic = false := by
  unfold registerPackage
  split
  · rfl
  · split
    · rename_i i r hfree
      have hi : i ∈ g.freePkgs := by rw [hfree]; exact List.mem_cons_self ..
      have hlt := h.freePkgsRange i hi
      cases hs : g.pkgs[i]? with
      | none => rw [List.getElem?_eq_none_iff] at hs; omega
      | some slot =>
        simp only
        have so := h.slot hs
        unfold SlotOk at so
        cases hp : slot.pkg with
        | none => simp [Outcome.isPanic]
        | some pd => rw [hp] at so; exact absurd hi so.2
    · rfl

theorem noPanic_defineType {ctx : Ctx} (g : Graph) (name : Str) (ty : Ty) :
    (defineType ctx g name ty).2.isPanic = false := by
  unfold defineType defineTypeWith
  repeat' split
  all_goals rfl

theorem noPanic_importItem {ctx : Ctx} (g : Graph) (name : Str) (k : Kind) :
    (importItem ctx g name k).2.isPanic = false := by
  unfold importItem
  repeat' split
  all_goals rfl

theorem noPanic_instantiate {g : Graph} {id : PkgId} (hl : g.pkgLive id = true) :
    (instantiate g id).2.isPanic = false := by
  obtain ⟨d, hd⟩ := pkgLive_ok hl
  unfold instantiate
  rw [hd]; rfl

theorem noPanic_alias {ctx : Ctx} {g : Graph} {n : Nat} (hl : g.live n = true) (ename : Str) :
    (aliasInstanceExport ctx g n ename).2.isPanic = false := by
  obtain ⟨nd, hnd⟩ := live_iff.mp hl
  unfold aliasInstanceExport
  rw [hnd]
  simp only
  repeat' split
  all_goals rfl

theorem noPanic_setName {g : Graph} {n : Nat} (hl : g.live n = true) (s : Str) :
    (setNodeName g n s).2.isPanic = false := by
  obtain ⟨nd, hnd⟩ := live_iff.mp hl
  unfold setNodeName
  rw [hnd]; rfl

theorem noPanic_export {ctx : Ctx} {g : Graph} {n : Nat} (hl : g.live n = true) (name : Str) :
    (exportNode ctx g n name).2.isPanic = false := by
  obtain ⟨nd, hnd⟩ := live_iff.mp hl
  unfold exportNode
  split
  · rfl
  · split
    · rfl
    · rw [hnd]; rfl

theorem noPanic_unexport {ctx : Ctx} {g : Graph} (h : Inv ctx g) {n : Nat} (hl : g.live n = true) :
    (unexport .fixed g n).2.isPanic = false := by
  obtain ⟨nd, hnd⟩ := live_iff.mp hl
  unfold unexport
  rw [hnd]
  simp only
  split
  · rfl
  · split
    · rfl
    · rename_i name hexp
      have := (h.node hnd).2.2 name (by rw [hexp]; rfl)
      rw [this]; rfl

/-- every incoming edge of an instantiation is an argument edge -/
theorem inEdges_of_inst {ctx : Ctx} {g : Graph} (h : Inv ctx g) {n : Nat} {nd : Node}
    (hnd : g.node? n = some nd) (hi : nd.isInst = true) :
    ∀ e ∈ g.edges, e.dst = n → ∃ j, e.kind = .arg j ∧ j ∈ nd.sat := by
  intro e he hd
  obtain ⟨s, _, d, hd', hk⟩ := h.edges e he
  rw [hd, Option.mem_def, hnd] at hd'
  cases hd'
  cases hek : e.kind with
  | arg j => rw [hek] at hk; exact ⟨j, rfl, hk.1⟩
  | alias j =>
    rw [hek] at hk
    simp only at hk
    unfold Node.isAlias at hk
    unfold Node.isInst at hi
    cases hkk : nd.kind <;> simp [hkk] at hk hi
  | dep =>
    rw [hek] at hk
    have hk := (dep_isDef hk).2
    unfold Node.isDef at hk
    unfold Node.isInst at hi
    cases hkk : nd.kind <;> simp [hkk] at hk hi

theorem scanArgs_no_error {es : List Edge} {i a : Nat} (h : ∀ e ∈ es, ∃ j, e.kind = .arg j) :
    ∀ s, scanArgs es i a ≠ some (.error s) := by
  induction es with
  | nil => intro s; simp [scanArgs]
  | cons x r ih =>
    intro s
    unfold scanArgs
    obtain ⟨j, hj⟩ := h x (List.mem_cons_self ..)
    rw [hj]
    simp only
    split
    · simp
    · exact ih (fun e he => h e (List.mem_cons_of_mem _ he)) s

theorem scanArgs_none_not_mem {es : List Edge} {i a : Nat} (h : scanArgs es i a = none) :
    ∀ e ∈ es, e.kind ≠ .arg i := by
  intro e he hk
  obtain ⟨j, hj, hne⟩ := scanArgs_none h e he
  rw [hk] at hj
  cases hj
  exact hne rfl

theorem noPanic_setArg {ctx : Ctx} {g : Graph} (h : Inv ctx g) {inst arg : Nat} (name : Str)
    (hl : g.live inst = true) (ha : g.live arg = true) : (setArg ctx g inst name arg).2.isPanic = false := by
  obtain ⟨nd, hnd⟩ := live_iff.mp hl
  obtain ⟨argNd, harg⟩ := live_iff.mp ha
  unfold setArg
  rw [hnd]
  simp only
  cases hk : nd.kind with
  | instantiation sat =>
    simp only
    have hnok := h.node hnd
    have hinst : nd.isInst = true := by simp [Node.isInst, hk]
    have h2 := hnok.2.1
    rw [hk] at h2
    simp only at h2
    obtain ⟨_, hsub, pid, hpid, pd, hpd, _⟩ := h2
    rw [Option.mem_def] at hpid
    rw [hpid]
    simp only
    rw [pkgAt_of_pkgOf (toOption_mem.mp hpd)]
    simp only
    split
    · rfl
    · rename_i i expected hfull
      have hall : ∀ e ∈ g.inEdges inst, ∃ j, e.kind = .arg j := by
        intro e he
        unfold Graph.inEdges at he
        rw [List.mem_filter] at he
        obtain ⟨j, hj, _⟩ := inEdges_of_inst h hnd hinst e he.1 (by simpa using he.2)
        exact ⟨j, hj⟩
      split
      · rename_i s hs; exact absurd hs (scanArgs_no_error hall s)
      · rfl
      · rfl
      · rename_i hscan
        rw [harg]
        simp only
        split
        · rfl
        · split
          · -- the index is in the satisfied set, so an argument edge exists and the scan found it
            rename_i hc
            exfalso
            have hi : i ∈ sat := by simpa using hc
            obtain ⟨e, he, hd, hkk⟩ := hsub i hi
            have hin : e ∈ g.inEdges inst := by
              unfold Graph.inEdges; rw [List.mem_filter]; exact ⟨he, by simpa using hd⟩
            exact scanArgs_none_not_mem hscan e hin hkk
          · rfl
  | definition ty => rfl
  | «import» nm => rfl
  | alias => rfl

theorem scanConnecting_no_error {es : List Edge} {inst i : Nat} (h : ∀ e ∈ es, e.dst = inst → ∃ j, e.kind = .arg j) :
    ∀ s, scanConnecting es inst i ≠ .error s := by
  induction es with
  | nil => intro s; simp [scanConnecting]
  | cons x r ih =>
    intro s
    unfold scanConnecting
    split
    · rename_i hd
      obtain ⟨j, hj⟩ := h x (List.mem_cons_self ..) hd
      rw [hj]
      simp only
      split
      · simp
      · exact ih (fun e he => h e (List.mem_cons_of_mem _ he)) s
    · exact ih (fun e he => h e (List.mem_cons_of_mem _ he)) s

theorem noPanic_unsetArg {ctx : Ctx} {g : Graph} (h : Inv ctx g) {inst arg : Nat} (name : Str)
    (hl : g.live inst = true) : (unsetArg g inst name arg).2.isPanic = false := by
  obtain ⟨nd, hnd⟩ := live_iff.mp hl
  unfold unsetArg
  rw [hnd]
  simp only
  cases hk : nd.kind with
  | instantiation sat =>
    simp only
    have hnok := h.node hnd
    have hinst : nd.isInst = true := by simp [Node.isInst, hk]
    have h2 := hnok.2.1
    rw [hk] at h2
    simp only at h2
    obtain ⟨_, _, pid, hpid, pd, hpd, _⟩ := h2
    rw [Option.mem_def] at hpid
    rw [hpid]
    simp only
    rw [pkgAt_of_pkgOf (toOption_mem.mp hpd)]
    simp only
    split
    · rfl
    · rename_i i _ hfull
      have hall : ∀ e ∈ g.outEdges arg, e.dst = inst → ∃ j, e.kind = .arg j := by
        intro e he hd
        unfold Graph.outEdges at he
        rw [List.mem_filter] at he
        obtain ⟨j, hj, _⟩ := inEdges_of_inst h hnd hinst e he.1 hd
        exact ⟨j, hj⟩
      split
      · rename_i s hs; exact absurd hs (scanConnecting_no_error hall s)
      · rfl
      · rename_i hscan
        split
        · -- the edge exists, so its index is in the satisfied set
          rename_i hc
          exfalso
          obtain ⟨e, hem, hdst, hkind⟩ := scanConnecting_true hscan
          unfold Graph.outEdges at hem
          rw [List.mem_filter] at hem
          obtain ⟨j, hj, hjs⟩ := inEdges_of_inst h hnd hinst e hem.1 hdst
          rw [hkind] at hj
          cases hj
          have : nd.sat = sat := by simp [Node.sat, hk]
          rw [this] at hjs
          simp [hjs] at hc
        · rfl
  | definition ty => rfl
  | «import» nm => rfl
  | alias => rfl

end Wac.Graph
