import WacProofs.Lemmas.PrinterTokChars
import WacProofs.Lemmas.PrinterLexStream
import WacProofs.Lemmas.PrinterErase
/-
  C13: every character of every token text and of every doc comment the lexer model returns is a
  character of the source text (`tokenize_chars`); a source text that passes the code-point screen
  `detect_invalid_input` consists of characters accepted by the screen
  (`detectInvalidInput_none_all`); hence the initial parser state has only such characters in its
  items (`init_toksChars`).
-/
namespace Wac.Lemmas.PrinterChars
open Wac Wac.Ast Wac.Lex Wac.Parse Wac.Lemmas.PrinterErase

/-! ### `Lexer::comments` -/

theorem skipBlock_mem (d : Nat) (s r : Str) (h : skipBlock d s = some r) : ∀ c ∈ r, c ∈ s := by
  fun_induction skipBlock d s <;> simp_all

theorem docText_mem (t d : Str) (h : docText t = some d) : ∀ c ∈ d, c ∈ t := by
  intro c hc
  unfold docText at h
  split at h
  · simp only [Option.some.injEq] at h
    subst h
    exact List.mem_of_mem_drop (mem_of_mem_rustTrim _ _ hc)
  · split at h
    · simp only at h
      split at h
      · simp at h
      · simp only [Option.some.injEq] at h
        subst h
        exact List.mem_of_mem_drop (List.mem_of_mem_take (mem_of_mem_rustTrim _ _ hc))
    · simp at h

theorem commentsAt_mem (f pos : Nat) (s : Str) :
    ∀ dc ∈ commentsAt f pos s, ∀ c ∈ dc.comment, c ∈ s := by
  induction f generalizing pos s with
  | zero => simp [commentsAt]
  | succ f ih =>
    cases s with
    | nil => simp [commentsAt]
    | cons a r =>
      simp only [commentsAt]
      have hdrop : ∀ (n p : Nat), ∀ dc ∈ commentsAt f p ((a :: r).drop n), ∀ c ∈ dc.comment,
          c ∈ a :: r := fun n p dc hdc c hc => List.mem_of_mem_drop (ih p _ dc hdc c hc)
      split
      · exact hdrop _ _
      · split
        · split
          · rename_i d hd
            intro dc hdc c hc
            rcases List.mem_cons.1 hdc with rfl | hdc
            · exact (List.takeWhile_sublist _).subset (docText_mem _ _ hd c hc)
            · exact hdrop _ _ dc hdc c hc
          · exact hdrop _ _
        · split
          · split
            · rename_i after ha
              have hafter : ∀ p, ∀ dc ∈ commentsAt f p after, ∀ c ∈ dc.comment, c ∈ a :: r :=
                fun p dc hdc c hc => List.mem_cons_of_mem _
                  (List.mem_of_mem_drop (skipBlock_mem _ _ _ ha c (ih p _ dc hdc c hc)))
              split
              · rename_i d hd
                intro dc hdc c hc
                rcases List.mem_cons.1 hdc with rfl | hdc
                · exact List.mem_of_mem_take (docText_mem _ _ hd c hc)
                · exact hafter _ dc hdc c hc
              · exact hafter _
            · simp
          · simp

/-! ### the token stream -/

theorem lexAll_mem (src : Str) (f pos pp : Nat) (s prev : Str)
    (hs : ∀ c ∈ s, c ∈ src) (hp : ∀ c ∈ prev, c ∈ src) :
    ∀ t ∈ lexAll f pos s pp prev,
      (∀ c ∈ t.text, c ∈ src) ∧ ∀ dc ∈ t.docs, ∀ c ∈ dc.comment, c ∈ src := by
  induction f generalizing pos pp s prev with
  | zero => simp [lexAll]
  | succ f ih =>
    simp only [lexAll]
    split
    · simp
    · exact ih _ _ _ _ (fun c hc => hs c (List.mem_of_mem_drop hc)) hp
    · intro t ht
      rcases List.mem_cons.1 ht with rfl | ht
      · exact ⟨fun c hc => hs c (List.mem_of_mem_take hc),
          fun dc hdc c hc => hp c (commentsAt_mem _ _ _ dc hdc c hc)⟩
      · exact ih _ _ _ _ (fun c hc => hs c (List.mem_of_mem_drop hc))
          (fun c hc => hs c (List.mem_of_mem_drop hc)) t ht

theorem tokenize_chars (src : Str) :
    ∀ t ∈ tokenize src, (∀ c ∈ t.text, c ∈ src) ∧ ∀ dc ∈ t.docs, ∀ c ∈ dc.comment, c ∈ src :=
  lexAll_mem src _ _ _ _ _ (fun _ h => h) (fun _ h => h)

/-! ### the code-point screen -/

theorem detectInvalidInput_go_none (pos : Nat) (s : Str) (h : detectInvalidInput.go pos s = none) :
    ∀ c ∈ s, screenOk c = true := by
  induction s generalizing pos with
  | nil => simp
  | cons a r ih =>
    unfold detectInvalidInput.go at h
    split at h
    · simp at h
    · rename_i hn
      intro c hc
      rcases List.mem_cons.1 hc with rfl | hc
      · simp [screenOk, hn]
      · exact ih _ h c hc

theorem detectInvalidInput_none_all (s : Str) (h : detectInvalidInput s = none) :
    ∀ c ∈ s, screenOk c = true :=
  detectInvalidInput_go_none 0 s h

theorem init_toksChars (src : Str) (h : detectInvalidInput src = none) :
    ToksChars screenOk (PState.init src) := by
  have hall := detectInvalidInput_none_all src h
  intro t ht
  have := tokenize_chars src t ht
  exact ⟨fun c hc => hall c (this.1 c hc), fun dc hdc c hc => hall c (this.2 dc hdc c hc)⟩

end Wac.Lemmas.PrinterChars
