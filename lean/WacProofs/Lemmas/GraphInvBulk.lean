import WacProofs.Lemmas.GraphInvDetach
/-
  Removing a *set* of nodes that is closed under alias edges preserves `Inv` (the node part of
  `unregister_package`).
-/
namespace Wac.Graph
open Wac Wac.HashSites

/-- the state after the nodes with `dead m = true` are gone -/
structure RemovedSet (g g' : Graph) (dead : Nat → Bool) : Prop where
  gone : ∀ m, dead m = true → g'.node? m = none
  kept : ∀ m x, dead m = false → g.node? m = some x → ∃ s, g'.node? m = some (setSat x s) ∧ s.Nodup ∧
    ∀ i, i ∈ s ↔ i ∈ x.sat ∧ ¬ ∃ e ∈ g.edges, dead e.src = true ∧ e.dst = m ∧ e.kind = .arg i
  noNew : ∀ m x', g'.node? m = some x' → dead m = false ∧ ∃ x, g.node? m = some x
  free : FreeInv g'
  edges : g'.edges = g.edges.filter (fun e => !(dead e.src || dead e.dst))
  importsKeys : (g'.imports.map (·.1)).Nodup
  importsMem : ∀ e, e ∈ g'.imports ↔ e ∈ g.imports ∧ dead e.2 = false
  exportsKeys : (g'.exports.map (·.1)).Nodup
  exportsMem : ∀ e, e ∈ g'.exports ↔ e ∈ g.exports ∧ dead e.2 = false
  definedKeys : (g'.defined.map (·.1)).Nodup
  definedMem : ∀ e, e ∈ g'.defined ↔ e ∈ g.defined ∧ dead e.2 = false
  pkgs : g'.pkgs = g.pkgs
  pkgMap : g'.pkgMap = g.pkgMap
  freePkgs : g'.freePkgs = g.freePkgs

theorem RemovedSet.back {g g' : Graph} {dead : Nat → Bool} (r : RemovedSet g g' dead) {m : Nat} {x' : Node}
    (hx' : g'.node? m = some x') : dead m = false ∧ ∃ x s, g.node? m = some x ∧ x' = setSat x s ∧ s.Nodup ∧
      ∀ i, i ∈ s ↔ i ∈ x.sat ∧ ¬ ∃ e ∈ g.edges, dead e.src = true ∧ e.dst = m ∧ e.kind = .arg i := by
  obtain ⟨hm, x, hx⟩ := r.noNew m x' hx'
  obtain ⟨s, hs, a, b⟩ := r.kept m x hm hx
  rw [hx'] at hs
  exact ⟨hm, x, s, hx, Option.some.inj hs, a, b⟩

theorem inv_removed_set {ctx : Ctx} {g g' : Graph} {dead : Nat → Bool}
    (h : Inv ctx g)
    (hclosed : ∀ e ∈ g.edges, e.kind.isAlias = true → dead e.src = true → dead e.dst = true)
    (r : RemovedSet g g' dead) : Inv ctx g' := by
  have pk := pkgPart_congr h r.pkgs r.pkgMap r.freePkgs
  have hmemE : ∀ e, e ∈ g'.edges ↔ e ∈ g.edges ∧ dead e.src = false ∧ dead e.dst = false := by
    intro e
    rw [r.edges, List.mem_filter]
    cases dead e.src <;> cases dead e.dst <;> simp
  have fwd := r.kept
  apply Inv.build
  · -- edges
    intro e hem
    obtain ⟨hem0, hsn, hdn⟩ := (hmemE e).mp hem
    obtain ⟨s, hs, d, hd, hkk⟩ := h.edges e hem0
    obtain ⟨ss, hs', _, _⟩ := fwd _ _ hsn hs
    obtain ⟨sd, hd', _, hsd⟩ := fwd _ _ hdn hd
    refine ⟨_, hs', _, hd', ?_⟩
    cases hek : e.kind with
    | alias j =>
      rw [hek] at hkk
      simp only at hkk ⊢
      rw [setSat_isAlias, setSat_pkg, setSat_pkg, setSat_item, setSat_item]; exact hkk
    | arg j =>
      rw [hek] at hkk
      simp only at hkk ⊢
      obtain ⟨h1, h2, pid, hpid, pd, hpd, hlt⟩ := hkk
      refine ⟨?_, by rw [setSat_isInst]; exact h2, pid, by rw [setSat_pkg]; exact hpid, pd,
        by rw [pkgOf_congr r.pkgs]; exact hpd, hlt⟩
      rw [setSat_sat h2, hsd]
      refine ⟨h1, ?_⟩
      rintro ⟨e', he', hdead, hdst, hkind⟩
      have : e = e' :=
        argKey_inj h.argUnique hem0 he' (k := (e.dst, j)) (by simp [Edge.argKey, hek])
          (by simp [Edge.argKey, hkind, hdst])
      rw [← this, hsn] at hdead
      cases hdead
    | dep =>
      rw [hek] at hkk
      simp only at hkk ⊢
      rw [setSat_defTy, setSat_defTy]; exact hkk
  · rw [r.edges]
    exact (List.Sublist.filterMap _ List.filter_sublist).nodup h.argUnique
  · -- nodes
    intro m x' hx'
    obtain ⟨hmn, x, s, hx, rfl, hsn, hsm⟩ := r.back hx'
    obtain ⟨h1, h2, h3⟩ := h.node hx
    refine ⟨?_, ?_, ?_⟩
    · intro pid hpid
      rw [setSat_pkg] at hpid
      rw [pkgLive_congr r.pkgs]; exact h1 pid hpid
    · cases hk : x.kind with
      | instantiation sat =>
        rw [hk] at h2
        simp only at h2
        obtain ⟨_, b, pid, hpid, pd, hpd, hit⟩ := h2
        rw [setSat_kind_inst hk]
        simp only
        have hsat : x.sat = sat := by simp [Node.sat, hk]
        refine ⟨hsn, ?_, pid, by rw [setSat_pkg]; exact hpid, pd, by rw [pkgOf_congr r.pkgs]; exact hpd,
          by rw [setSat_item]; exact hit⟩
        intro i hi
        obtain ⟨hi1, hi2⟩ := (hsm i).mp hi
        rw [hsat] at hi1
        obtain ⟨e, hem, hdst, hkind⟩ := b i hi1
        refine ⟨e, (hmemE e).mpr ⟨hem, ?_, by rw [hdst]; exact hmn⟩, hdst, hkind⟩
        cases hds : dead e.src with
        | false => rfl
        | true => exact absurd ⟨e, hem, hds, hdst, hkind⟩ hi2
      | alias =>
        have hni : x.isInst = false := by simp [Node.isInst, hk]
        rw [setSat_of_not_inst hni, hk]
        rw [hk] at h2
        simp only at h2 ⊢
        unfold Graph.inEdges at h2 ⊢
        obtain ⟨e0, hl⟩ := List.length_eq_one_iff.mp h2
        have he0 : e0 ∈ g.edges.filter (fun e => e.dst == m) := by rw [hl]; exact List.mem_cons_self ..
        rw [List.mem_filter] at he0
        have hd0 : e0.dst = m := by simpa using he0.2
        obtain ⟨s0, _, d0, hd0', hk0⟩ := h.edges e0 he0.1
        rw [hd0] at hd0'
        rw [Option.mem_def, hx] at hd0'
        cases hd0'
        have hal : e0.kind.isAlias = true := by
          cases hek : e0.kind with
          | alias j => rfl
          | arg j => rw [hek] at hk0; simp only at hk0; rw [hni] at hk0; exact absurd hk0.2.1 (by simp)
          | dep => rw [hek] at hk0; have hdd := (dep_isDef hk0).2; simp [Node.isDef, hk] at hdd
        have hsrc : dead e0.src = false := by
          cases hds : dead e0.src with
          | false => rfl
          | true =>
            have := hclosed e0 he0.1 hal hds
            rw [hd0, hmn] at this; cases this
        rw [r.edges, List.filter_filter]
        have : (g.edges.filter fun a => (a.dst == m) && !(dead a.src || dead a.dst)) =
            (g.edges.filter (fun e => e.dst == m)).filter (fun a => !(dead a.src || dead a.dst)) := by
          rw [List.filter_filter]
          congr 1
          funext a
          exact Bool.and_comm _ _
        rw [this, hl]
        have hdn : dead e0.dst = false := by rw [hd0]; exact hmn
        simp [List.filter_cons, hsrc, hdn]
      | «import» name =>
        have hni : x.isInst = false := by simp [Node.isInst, hk]
        rw [setSat_of_not_inst hni, hk]
        rw [hk] at h2
        simp only at h2 ⊢
        exact alGet_of_mem _ r.importsKeys (name, m)
          ((r.importsMem (name, m)).mpr ⟨alGet_eq_some_mem h2, hmn⟩)
      | definition ty =>
        have hni : x.isInst = false := by simp [Node.isInst, hk]
        rw [setSat_of_not_inst hni, hk]
        rw [hk] at h2
        simp only at h2 ⊢
        exact ⟨alGet_of_mem _ r.definedKeys (ty, m)
          ((r.definedMem (ty, m)).mpr ⟨alGet_eq_some_mem h2.1, hmn⟩), h2.2⟩
    · rw [setSat_exp]
      intro nm hnm
      exact alGet_of_mem _ r.exportsKeys (nm, m)
        ((r.exportsMem (nm, m)).mpr ⟨alGet_eq_some_mem (h3 nm hnm), hmn⟩)
  · exact r.exportsKeys
  · intro e hem
    obtain ⟨hem0, hne⟩ := (r.exportsMem e).mp hem
    obtain ⟨x, hx, hxe⟩ := h.exportsLive' e hem0
    obtain ⟨s, hs, _, _⟩ := fwd _ _ hne hx
    exact ⟨_, hs, by rw [setSat_exp]; exact hxe⟩
  · exact r.importsKeys
  · intro e hem
    obtain ⟨hem0, hne⟩ := (r.importsMem e).mp hem
    obtain ⟨x, hx, hxk⟩ := h.importsLive' e hem0
    obtain ⟨s, hs, _, _⟩ := fwd _ _ hne hx
    have hni : x.isInst = false := by simp [Node.isInst, hxk]
    exact ⟨_, hs, by rw [setSat_of_not_inst hni]; exact hxk⟩
  · exact r.definedKeys
  · intro e hem
    obtain ⟨hem0, hne⟩ := (r.definedMem e).mp hem
    obtain ⟨x, hx, hxk⟩ := h.definedLive' e hem0
    obtain ⟨s, hs, _, _⟩ := fwd _ _ hne hx
    have hni : x.isInst = false := by simp [Node.isInst, hxk]
    exact ⟨_, hs, by rw [setSat_of_not_inst hni]; exact hxk⟩
  · exact pk.1
  · exact pk.2.1
  · exact pk.2.2.1
  · exact pk.2.2.2.1
  · exact pk.2.2.2.2
  · exact r.free

end Wac.Graph
