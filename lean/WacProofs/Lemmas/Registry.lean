import WacModel.Spec.Registry
/-
  Helper lemmas for C20.  The index-tagged loop of the model (`drain`) is related to an
  index-free run over the list of completed tasks (`drainT`); everything else is about that list.
-/
namespace Wac.Lemmas.Registry
open Wac Wac.Registry Wac.Spec.Registry

abbrev tasks := keyResults
abbrev errPart := failureOf
abbrev okPart := successOf

theorem filterMap_congr' {α β} {f g : α → Option β} {l : List α} (h : ∀ a ∈ l, f a = g a) :
    l.filterMap f = l.filterMap g := by
  induction l with
  | nil => rfl
  | cons a r ih =>
    have ha := h a (by simp)
    have hr := ih (fun b hb => h b (by simp [hb]))
    simp [List.filterMap_cons, ha, hr]

theorem specResolve_eq (valid : Str → Bool) (reg : Registry) (ks : List (Key × Span)) :
    specResolve valid reg ks =
      if ((tasks valid reg ks).filterMap errPart).isEmpty then .ok ((tasks valid reg ks).filterMap okPart)
      else .errs ((tasks valid reg ks).filterMap errPart) := rfl

/-- index-free version of the result loop: the completed tasks in completion order -/
def drainT : List (Key × Except RegErr Content) → List (Key × Content) → Outcome
  | [], acc => .ok acc
  | (_, .error e) :: _, _ => .error e
  | (k, .ok c) :: r, acc => drainT r (amInsertKey acc k c)

theorem drain_eq_drainT (ts : List (Key × Except RegErr Content)) (π : List Nat) (acc : List (Key × Content)) :
    drain (ts.map (·.2)) (fun i => ts[i]?.map (·.1)) π acc = drainT (π.filterMap (ts[·]?)) acc := by
  induction π generalizing acc with
  | nil => simp [drain, drainT]
  | cons i rest ih =>
    simp only [drain, List.filterMap_cons, List.getElem?_map]
    cases hi : ts[i]? with
    | none => simp [ih]
    | some t =>
      obtain ⟨k, r⟩ := t
      cases r with
      | error e => simp [drainT]
      | ok c => simp [drainT, ih]

theorem filterMap_getElem?_range' {α} (pre l : List α) :
    (List.range' pre.length l.length).filterMap ((pre ++ l)[·]?) = l := by
  induction l generalizing pre with
  | nil => simp
  | cons a r ih =>
    have h := ih (pre ++ [a])
    simp only [List.length_append, List.length_singleton, List.append_assoc, List.singleton_append] at h
    simp only [List.length_cons, List.range'_succ, List.filterMap_cons]
    have h0 : (pre ++ a :: r)[pre.length]? = some a := by simp
    rw [h0, h]

theorem filterMap_getElem?_range {α} (l : List α) :
    (List.range l.length).filterMap (l[·]?) = l := by
  have := filterMap_getElem?_range' [] l
  simpa [List.range_eq_range'] using this

theorem amInsertKey_fresh (m : List (Key × Content)) (k : Key) (c : Content) (h : k ∉ m.map (·.1)) :
    amInsertKey m k c = m ++ [(k, c)] := by
  induction m with
  | nil => simp [amInsertKey]
  | cons e r ih =>
    obtain ⟨k', c'⟩ := e
    simp only [List.map_cons, List.mem_cons, not_or] at h
    have hne : (k' == k) = false := by
      simp only [beq_eq_false_iff_ne, ne_eq]; exact fun h' => h.1 h'.symm
    simp [amInsertKey, hne, ih h.2]

/-- no failing task: the result is the accumulator followed by the tasks' contents in
    completion order (keys pairwise distinct, so every insert appends) -/
theorem drainT_ok (ts : List (Key × Except RegErr Content)) (acc : List (Key × Content))
    (hok : ts.filterMap errPart = [])
    (hnd : (acc.map (·.1) ++ ts.map (·.1)).Nodup) :
    drainT ts acc = .ok (acc ++ ts.filterMap okPart) := by
  induction ts generalizing acc with
  | nil => simp [drainT]
  | cons t rest ih =>
    obtain ⟨k, r⟩ := t
    cases r with
    | error e => simp [failureOf] at hok
    | ok c =>
      have hok' : rest.filterMap errPart = [] := by simpa [failureOf] using hok
      have hfresh : k ∉ acc.map (·.1) := by
        intro hm
        have := List.nodup_append.1 hnd
        exact this.2.2 k hm k (by simp) rfl
      rw [drainT, amInsertKey_fresh acc k c hfresh, ih _ hok']
      · simp [successOf]
      · simp only [List.map_append, List.map_cons, List.map_nil, List.append_assoc, List.cons_append,
          List.nil_append]
        simpa using hnd

/-- some failing task: the loop returns the error of one of the completed tasks -/
theorem drainT_err (ts : List (Key × Except RegErr Content)) (acc : List (Key × Content))
    (herr : ts.filterMap errPart ≠ []) :
    ∃ e, drainT ts acc = .error e ∧ e ∈ ts.filterMap errPart := by
  induction ts generalizing acc with
  | nil => simp at herr
  | cons t rest ih =>
    obtain ⟨k, r⟩ := t
    cases r with
    | error e => exact ⟨e, by simp [drainT], by simp [failureOf]⟩
    | ok c =>
      have herr' : rest.filterMap errPart ≠ [] := by simpa [failureOf] using herr
      obtain ⟨e, h1, h2⟩ := ih (amInsertKey acc k c) herr'
      refine ⟨e, by simp [drainT, h1], ?_⟩
      simp only [List.filterMap_cons, failureOf]
      exact h2


theorem nodup_of_map {α β} (f : α → β) (l : List α) (h : (l.map f).Nodup) : l.Nodup := by
  induction l with
  | nil => simp
  | cons a r ih =>
    simp only [List.map_cons, List.nodup_cons] at h ⊢
    exact ⟨fun hm => h.1 (List.mem_map.2 ⟨a, hm, rfl⟩), ih h.2⟩

/-! ### the phases before the downloads -/

def toReq (p : Key × Span) : Str × (Option Str × Span) := (p.1.name, (p.1.version, p.2))

theorem buildRequests_cases (valid : Str → Bool) (ks : List (Key × Span)) :
    (buildRequests valid ks = .ok (ks.map toReq) ∧ ∀ p ∈ ks, valid p.1.name = true) ∨
    (∃ p ∈ ks, valid p.1.name = false ∧ buildRequests valid ks = .error (.invalidPackageName p.1.name p.2)) := by
  induction ks with
  | nil => left; simp [buildRequests]
  | cons p rest ih =>
    obtain ⟨k, sp⟩ := p
    by_cases hv : valid k.name = true
    · rcases ih with ⟨h1, h2⟩ | ⟨q, hq, hqv, hqe⟩
      · left
        refine ⟨by simp [buildRequests, hv, h1, toReq], ?_⟩
        intro q hq
        simp only [List.mem_cons] at hq
        rcases hq with rfl | hq
        · exact hv
        · exact h2 q hq
      · right
        exact ⟨q, by simp [hq], hqv, by simp [buildRequests, hv, hqe]⟩
    · right
      have hv' : valid k.name = false := by simpa using hv
      exact ⟨(k, sp), by simp, hv', by simp [buildRequests, hv']⟩

theorem amGet_append_none {β} (t : List (Str × β)) (n : Str) (e : Str × β) (h : amGet t n = none) :
    amGet (t ++ [e]) n = if e.1 == n then some e.2 else none := by
  induction t with
  | nil => obtain ⟨a, b⟩ := e; simp [amGet]
  | cons x r ih =>
    obtain ⟨k', v'⟩ := x
    simp only [amGet] at h
    by_cases hk : (k' == n) = true
    · simp [hk] at h
    · simp only [hk, Bool.false_eq_true, if_false] at h
      simp [amGet, hk, ih h]

theorem amGet_append_some {β} (t : List (Str × β)) (n : Str) (e : Str × β) (v : β) (h : amGet t n = some v) :
    amGet (t ++ [e]) n = some v := by
  induction t with
  | nil => simp [amGet] at h
  | cons x r ih =>
    obtain ⟨k', v'⟩ := x
    simp only [amGet] at h
    by_cases hk : (k' == n) = true
    · simp only [hk, if_true] at h; simp [amGet, hk, h]
    · simp only [hk, Bool.false_eq_true, if_false] at h
      simp [amGet, hk, ih h]

theorem amGet_of_mem {β} (t : List (Str × β)) (n : Str) (h : n ∈ t.map (·.1)) : ∃ v, amGet t n = some v := by
  induction t with
  | nil => simp at h
  | cons x r ih =>
    obtain ⟨k', v'⟩ := x
    by_cases hk : (k' == n) = true
    · exact ⟨v', by simp [amGet, hk]⟩
    · simp only [List.map_cons, List.mem_cons] at h
      rcases h with h | h
      · exact absurd (by simp [h]) hk
      · obtain ⟨v, hv⟩ := ih h
        exact ⟨v, by simp [amGet, hk, hv]⟩

/-- everything in the name table comes from the requests (or was there before), with its span -/
theorem firstSpans_sound (P : Str → Span → Prop) (reqs : List (Str × (Option Str × Span))) (t : List (Str × Span))
    (ht : ∀ n sp, amGet t n = some sp → P n sp) (hr : ∀ r ∈ reqs, P r.1 r.2.2) :
    ∀ n sp, amGet (firstSpans reqs t) n = some sp → P n sp := by
  induction reqs generalizing t with
  | nil => simpa [firstSpans] using ht
  | cons r rest ih =>
    obtain ⟨name, ver, span⟩ := r
    simp only [firstSpans]
    have hrest : ∀ r ∈ rest, P r.1 r.2.2 := fun r hm => hr r (by simp [hm])
    cases hg : amGet t name with
    | some _ => exact ih t ht hrest
    | none =>
      apply ih _ _ hrest
      intro n sp hn
      by_cases hk : (name == n) = true
      · rw [amGet_append_none t n _ (by rw [← (beq_iff_eq.1 hk)]; exact hg)] at hn
        simp only [hk, if_true, Option.some.injEq] at hn
        subst hn
        have := hr (name, ver, span) (by simp)
        rw [← (beq_iff_eq.1 hk)]; exact this
      · cases hgn : amGet t n with
        | some v =>
          rw [amGet_append_some t n _ v hgn] at hn
          simp only [Option.some.injEq] at hn
          subst hn
          exact ht n v hgn
        | none => rw [amGet_append_none t n _ hgn] at hn; simp [hk] at hn

/-- every requested name is in the table -/
theorem firstSpans_covers (reqs : List (Str × (Option Str × Span))) (t : List (Str × Span)) (n : Str)
    (h : (∃ v, amGet t n = some v) ∨ ∃ r ∈ reqs, r.1 = n) :
    ∃ v, amGet (firstSpans reqs t) n = some v := by
  induction reqs generalizing t with
  | nil =>
    rcases h with h | ⟨r, hr, _⟩
    · simpa [firstSpans] using h
    · simp at hr
  | cons r rest ih =>
    obtain ⟨name, ver, span⟩ := r
    simp only [firstSpans]
    cases hg : amGet t name with
    | some w =>
      apply ih
      rcases h with h | ⟨r, hr, hrn⟩
      · exact Or.inl h
      · simp only [List.mem_cons] at hr
        rcases hr with rfl | hr
        · left; simp only at hrn; rw [← hrn]; exact ⟨w, hg⟩
        · exact Or.inr ⟨r, hr, hrn⟩
    | none =>
      apply ih
      rcases h with ⟨v, hv⟩ | ⟨r, hr, hrn⟩
      · exact Or.inl ⟨v, amGet_append_some t n _ v hv⟩
      · simp only [List.mem_cons] at hr
        rcases hr with rfl | hr
        · left
          simp only at hrn
          subst hrn
          exact ⟨span, by rw [amGet_append_none t name _ hg]; simp⟩
        · exact Or.inr ⟨r, hr, hrn⟩

theorem fetchPackages_some (reg : Registry) (names : List Str) (σ : Nat) (n : Str)
    (h : fetchPackages reg names σ = some n) : n ∈ names ∧ amGet reg n = none := by
  simp only [fetchPackages] at h
  split at h
  · simp at h
  · have hm := List.mem_of_getElem? h
    simp only [List.mem_filter, Option.isNone_iff_eq_none] at hm
    exact hm

theorem fetchPackages_none (reg : Registry) (names : List Str) (σ : Nat)
    (h : fetchPackages reg names σ = none) : ∀ n ∈ names, ∃ rels, amGet reg n = some rels := by
  simp only [fetchPackages] at h
  split at h
  · rename_i he
    intro n hn
    cases hg : amGet reg n with
    | some rels => exact ⟨rels, rfl⟩
    | none =>
      have : n ∈ names.filter (fun n => (amGet reg n).isNone) := by simp [List.mem_filter, hn, hg]
      simp only [List.isEmpty_iff] at he
      rw [he] at this; simp at this
  · rename_i he
    exfalso
    have hlen : (names.filter (fun n => (amGet reg n).isNone)).length > 0 := by
      cases hf : names.filter (fun n => (amGet reg n).isNone) with
      | nil => simp [hf] at he
      | cons _ _ => simp
    have hlt := Nat.mod_lt σ hlen
    rw [List.getElem?_eq_none_iff] at h
    omega

theorem amGet_eq_find {β} (m : List (Str × β)) (k : Str) :
    amGet m k = (m.find? (fun o => o.1 == k)).map (·.2) := by
  induction m with
  | nil => simp [amGet]
  | cons e r ih =>
    obtain ⟨k', v⟩ := e
    simp only [amGet, List.find?_cons]
    by_cases h : (k' == k) = true
    · simp [h]
    · simp only [Bool.not_eq_true] at h
      simp [h, ih]

/-- the registry's notion of "latest" agrees with the specification's on this registry -/
def LatestAgrees (reg : Registry) : Prop :=
  ∀ name rels, amGet reg name = some rels →
    (latestRelease rels).map (·.content) = (rels.find? (isLatest rels)).map (·.content)

/-- one download task computes what the specification asks for its key -/
theorem download_eq_specKey (valid : Str → Bool) (reg : Registry) (k : Key) (sp : Span)
    (hv : valid k.name = true) (hl : LatestAgrees reg) :
    download reg k.name k.version sp = specKey valid reg k sp := by
  simp only [download, specKey, hv, Bool.not_true, Bool.false_eq_true, if_false]
  have hg := amGet_eq_find reg k.name
  cases hf : reg.find? (fun p => p.1 == k.name) with
  | none => simp [hg, hf]
  | some e =>
    obtain ⟨n', rels⟩ := e
    have hg' : amGet reg k.name = some rels := by simp [hg, hf]
    simp only [hg']
    cases hver : k.version with
    | some v =>
      simp only [exactRelease]
      cases rels.find? (fun r => r.version == v) <;> simp
    | none =>
      have := hl k.name rels hg'
      cases h1 : latestRelease rels <;> cases h2 : rels.find? (isLatest rels) <;> simp_all


theorem mem_errs (valid : Str → Bool) (reg : Registry) (ks : List (Key × Span)) (p : Key × Span) (e : RegErr)
    (hp : p ∈ ks) (he : specKey valid reg p.1 p.2 = .error e) :
    e ∈ (tasks valid reg ks).filterMap errPart := by
  simp only [List.mem_filterMap, keyResults, List.mem_map]
  exact ⟨(p.1, specKey valid reg p.1 p.2), ⟨p, hp, rfl⟩, by simp [failureOf, he]⟩

theorem satisfies_error (valid : Str → Bool) (reg : Registry) (ks : List (Key × Span)) (e : RegErr)
    (he : e ∈ (tasks valid reg ks).filterMap errPart) :
    satisfies (.error e) (specResolve valid reg ks) = true := by
  rw [specResolve_eq]
  have hne : ((tasks valid reg ks).filterMap errPart).isEmpty = false := by
    cases h : (tasks valid reg ks).filterMap errPart with
    | nil => rw [h] at he; simp at he
    | cons _ _ => rfl
  simp only [hne, Bool.false_eq_true, if_false, satisfies, List.contains_eq_mem, decide_eq_true_eq]
  exact he

/-- the repaired resolver satisfies the specification for every server choice `σ` and every
    completion order `π` -/
theorem resolveRegistry_satisfies (valid : Str → Bool) (reg : Registry) (ks : List (Key × Span)) (σ : Nat) (π : List Nat)
    (hnd : (ks.map (·.1)).Nodup) (hπ : π.Perm (List.range ks.length)) (hl : LatestAgrees reg) :
    satisfies (resolveRegistry valid reg ks σ π) (specResolve valid reg ks) = true := by
  rcases buildRequests_cases valid ks with ⟨hreq, hvalid⟩ | ⟨p, hp, hpv, hpe⟩
  · simp only [resolveRegistry, hreq]
    cases hf : fetchPackages reg ((firstSpans (ks.map toReq) []).map (·.1)) σ with
    | some n =>
      simp only []
      obtain ⟨hn, hmiss⟩ := fetchPackages_some _ _ _ _ hf
      obtain ⟨sp, hsp⟩ := amGet_of_mem _ n hn
      have hsound := firstSpans_sound (fun n sp => ∃ p ∈ ks, p.1.name = n ∧ p.2 = sp) (ks.map toReq) []
        (by intro n sp h; simp [amGet] at h)
        (by
          intro r hr
          simp only [List.mem_map] at hr
          obtain ⟨p, hp, rfl⟩ := hr
          exact ⟨p, hp, rfl, rfl⟩) n sp hsp
      obtain ⟨p, hp, hpn, hps⟩ := hsound
      apply satisfies_error
      simp only [hsp, Option.getD_some]
      apply mem_errs valid reg ks p _ hp
      have hv := hvalid p hp
      have hfind : reg.find? (fun q => q.1 == p.1.name) = none := by
        have := amGet_eq_find reg n
        rw [hmiss] at this
        rw [hpn]
        cases h : reg.find? (fun q => q.1 == n) with
        | none => rfl
        | some _ => simp [h] at this
      rw [hpn] at hv hfind
      simp [specKey, hv, hfind, hpn, hps]
    | none =>
      simp only []
      have hres : (ks.map toReq).map (fun x => match x with | (name, version, span) => download reg name version span) =
          (tasks valid reg ks).map (·.2) := by
        simp only [keyResults, List.map_map]
        apply List.map_congr_left
        intro p hp
        simp only [Function.comp, toReq]
        exact download_eq_specKey valid reg p.1 p.2 (hvalid p hp) hl
      have hkey : (fun (i : Nat) => ks[i]?.map (fun (x : Key × Span) => x.1)) =
          (fun (i : Nat) => (tasks valid reg ks)[i]?.map (fun (x : Key × Except RegErr Content) => x.1)) := by
        funext i
        simp only [keyResults, List.getElem?_map]
        cases ks[i]? <;> rfl
      rw [hres, hkey, drain_eq_drainT]
      have hlen : (tasks valid reg ks).length = ks.length := by simp [keyResults]
      have hperm : (π.filterMap ((tasks valid reg ks)[·]?)).Perm (tasks valid reg ks) := by
        have := List.Perm.filterMap ((tasks valid reg ks)[·]?) hπ
        rw [← hlen, filterMap_getElem?_range] at this
        exact this
      have hpe := List.Perm.filterMap errPart hperm
      have hpo := List.Perm.filterMap okPart hperm
      by_cases hes : (tasks valid reg ks).filterMap errPart = []
      · have hes' : (π.filterMap ((tasks valid reg ks)[·]?)).filterMap errPart = [] := by
          rw [hes] at hpe; exact List.Perm.eq_nil hpe
        have hnd' : ((([] : List (Key × Content)).map (fun x => x.1)) ++ (π.filterMap ((tasks valid reg ks)[·]?)).map (fun x => x.1)).Nodup := by
          simp only [List.map_nil, List.nil_append]
          have hm := List.Perm.map (fun (x : Key × Except RegErr Content) => x.1) hperm
          rw [hm.nodup_iff]
          have hmap : (tasks valid reg ks).map (fun x => x.1) = ks.map (fun x => x.1) := by
            simp only [keyResults, List.map_map]; rfl
          rw [hmap]; exact hnd
        rw [drainT_ok _ [] hes' hnd', specResolve_eq, hes]
        simp only [List.isEmpty_nil, if_true, satisfies, List.nil_append, List.isPerm_iff]
        exact hpo
      · obtain ⟨e, h1, h2⟩ := drainT_err (π.filterMap ((tasks valid reg ks)[·]?)) [] (by
          intro h; rw [h] at hpe; exact hes (List.Perm.nil_eq hpe).symm)
        rw [h1]
        exact satisfies_error valid reg ks e ((List.Perm.mem_iff hpe).1 h2)
  · simp only [resolveRegistry, hpe]
    apply satisfies_error
    apply mem_errs valid reg ks p _ hp
    simp [specKey, hpv]


/-! ### the pinned code coincides with the repaired code when no two keys share a name -/

theorem amInsert_fresh {β} (m : List (Str × β)) (k : Str) (v : β) (h : k ∉ m.map (·.1)) :
    amInsert m k v = m ++ [(k, v)] := by
  induction m with
  | nil => simp [amInsert]
  | cons e r ih =>
    obtain ⟨k', v'⟩ := e
    simp only [List.map_cons, List.mem_cons, not_or] at h
    have hne : (k' == k) = false := by
      simp only [beq_eq_false_iff_ne, ne_eq]; exact fun h' => h.1 h'.symm
    simp [amInsert, hne, ih h.2]

theorem buildTable_eq (valid : Str → Bool) (ks : List (Key × Span)) (t : List (Str × (Option Str × Span)))
    (hnd : (t.map (·.1) ++ ks.map (·.1.name)).Nodup) :
    buildTable valid ks t =
      match buildRequests valid ks with
      | .ok l => .ok (t ++ l)
      | .error e => .error e := by
  induction ks generalizing t with
  | nil => simp [buildTable, buildRequests]
  | cons p rest ih =>
    obtain ⟨k, sp⟩ := p
    simp only [buildTable, buildRequests]
    by_cases hv : valid k.name = true
    · simp only [hv, if_true]
      have hfresh : k.name ∉ t.map (·.1) := by
        intro hm
        have := (List.nodup_append.1 hnd).2.2 k.name hm k.name (by simp)
        exact this rfl
      rw [amInsert_fresh t k.name _ hfresh, ih]
      · cases buildRequests valid rest <;> simp
      · simp only [List.map_append, List.map_cons, List.map_nil, List.append_assoc, List.cons_append,
          List.nil_append]
        simpa using hnd
    · simp [hv]

theorem firstSpans_distinct (reqs : List (Str × (Option Str × Span))) (t : List (Str × Span))
    (hnd : (t.map (·.1) ++ reqs.map (·.1)).Nodup) :
    firstSpans reqs t = t ++ reqs.map (fun r => (r.1, r.2.2)) := by
  induction reqs generalizing t with
  | nil => simp [firstSpans]
  | cons r rest ih =>
    obtain ⟨name, ver, span⟩ := r
    have hfresh : name ∉ t.map (·.1) := by
      intro hm
      have := (List.nodup_append.1 hnd).2.2 name hm name (by simp)
      exact this rfl
    have hnone : amGet t name = none := by
      cases h : amGet t name with
      | none => rfl
      | some v =>
        exfalso
        apply hfresh
        clear hnd ih hfresh
        induction t with
        | nil => simp [amGet] at h
        | cons e r ih =>
          obtain ⟨k', v'⟩ := e
          simp only [amGet] at h
          by_cases hk : (k' == name) = true
          · simp [beq_iff_eq.1 hk]
          · simp only [hk, Bool.false_eq_true, if_false] at h
            simp [ih h]
    simp only [firstSpans, hnone]
    rw [ih]
    · simp
    · simp only [List.map_append, List.map_cons, List.map_nil, List.append_assoc, List.cons_append,
        List.nil_append]
      simpa using hnd

theorem amGet_map_snd (l : List (Str × (Option Str × Span))) (n : Str) :
    amGet (l.map (fun r => (r.1, r.2.2))) n = (amGet l n).map (·.2) := by
  induction l with
  | nil => simp [amGet]
  | cons e r ih =>
    obtain ⟨k', v, sp⟩ := e
    simp only [List.map_cons, amGet]
    by_cases hk : (k' == n) = true <;> simp [hk, ih]

/-- with pairwise distinct package names the pinned code and the repaired code are the same function -/
theorem resolveOrig_eq_of_distinct_names (valid : Str → Bool) (reg : Registry) (ks : List (Key × Span)) (σ : Nat) (π : List Nat)
    (hnd : (ks.map (·.1.name)).Nodup) :
    resolveOrig valid reg ks σ π = resolveRegistry valid reg ks σ π := by
  simp only [resolveOrig, resolveRegistry]
  rw [buildTable_eq valid ks [] (by simpa using hnd)]
  rcases buildRequests_cases valid ks with ⟨hreq, _⟩ | ⟨p, _, _, hpe⟩
  · simp only [hreq, List.nil_append]
    have hnames : firstSpans (ks.map toReq) [] = (ks.map toReq).map (fun r => (r.1, r.2.2)) := by
      have hnd' : (([] : List (Str × Span)).map (·.1) ++ (ks.map toReq).map (·.1)).Nodup := by
        have : (ks.map toReq).map (·.1) = ks.map (·.1.name) := by simp only [List.map_map]; rfl
        simp only [List.map_nil, List.nil_append, this]; exact hnd
      rw [firstSpans_distinct _ [] hnd']; simp
    rw [hnames]
    have hfst : ((ks.map toReq).map (fun r => (r.1, r.2.2))).map (·.1) = (ks.map toReq).map (·.1) := by
      simp [List.map_map, Function.comp]
    rw [hfst]
    cases hf : fetchPackages reg ((ks.map toReq).map (·.1)) σ with
    | none => rfl
    | some n =>
      simp only [amGet_map_snd]
      cases amGet (ks.map toReq) n with
      | none => rfl
      | some v => obtain ⟨a, b⟩ := v; rfl
  · simp [hpe]


/-! ### "latest release": the client's `max_by` fold against the specification's "no later release" -/

/-- the order key of a release's version -/
def relKey (r : Release) : List (List Nat) :=
  match parseVersion r.version with
  | some v => v.key
  | none => []

theorem laterThan_iff (a b : Release) (ha : starMatches a.version = true) (hb : starMatches b.version = true) :
    laterThan a.version b.version = true ↔ relKey b < relKey a := by
  simp only [starMatches] at ha hb
  simp only [laterThan, relKey]
  cases hpa : parseVersion a.version with
  | none => simp [hpa] at ha
  | some va =>
    cases hpb : parseVersion b.version with
    | none => simp [hpb] at hb
    | some vb => simp [Version.lt]

/-- two releases of one package with the same version carry the same content (the registry's
    release table is a map keyed by version) -/
def VersionsFunctional (reg : Registry) : Prop :=
  ∀ name rels, amGet reg name = some rels →
    ∀ a ∈ rels, ∀ b ∈ rels, starMatches a.version = true → starMatches b.version = true →
      relKey a = relKey b → a.content = b.content

def foldStep (best : Option Release) (r : Release) : Option Release :=
  match best with
  | none => some r
  | some b => if laterThan b.version r.version then some b else some r

/-- the `max_by` fold returns an element that no element is later than -/
theorem fold_max (F : List Release) (hF : ∀ r ∈ F, starMatches r.version = true) (b : Release)
    (hb : starMatches b.version = true) :
    ∃ m, F.foldl foldStep (some b) = some m ∧ m ∈ b :: F ∧ ∀ o ∈ b :: F, ¬ relKey m < relKey o := by
  induction F generalizing b with
  | nil =>
    refine ⟨b, rfl, by simp, ?_⟩
    intro o ho
    simp only [List.mem_cons, List.not_mem_nil, or_false] at ho
    subst ho
    exact List.lt_irrefl _
  | cons r rest ih =>
    have hr : starMatches r.version = true := hF r (by simp)
    have hrest : ∀ x ∈ rest, starMatches x.version = true := fun x hx => hF x (by simp [hx])
    simp only [List.foldl_cons, foldStep]
    by_cases hlt : laterThan b.version r.version = true
    · -- `b` stays
      simp only [hlt, if_true]
      obtain ⟨m, h1, h2, h3⟩ := ih hrest b hb
      refine ⟨m, h1, ?_, ?_⟩
      · simp only [List.mem_cons] at h2 ⊢
        rcases h2 with h2 | h2
        · exact Or.inl h2
        · exact Or.inr (Or.inr h2)
      · intro o ho
        simp only [List.mem_cons] at ho
        rcases ho with rfl | rfl | ho
        · exact h3 _ (by simp)
        · -- r < b ≤ m
          have hrb : relKey o < relKey b := (laterThan_iff b o hb hr).1 hlt
          have hbm : relKey b ≤ relKey m := List.not_lt.1 (h3 b (by simp))
          intro hmo
          exact absurd (List.lt_of_le_of_lt hbm hmo) (List.lt_asymm hrb)
        · exact h3 o (by simp [ho])
    · -- `r` replaces `b`
      have hlt' : laterThan b.version r.version = false := by simpa using hlt
      simp only [hlt', Bool.false_eq_true, if_false]
      obtain ⟨m, h1, h2, h3⟩ := ih hrest r hr
      refine ⟨m, h1, ?_, ?_⟩
      · simp only [List.mem_cons] at h2 ⊢
        rcases h2 with h2 | h2
        · exact Or.inr (Or.inl h2)
        · exact Or.inr (Or.inr h2)
      · intro o ho
        simp only [List.mem_cons] at ho
        rcases ho with rfl | rfl | ho
        · -- b ≤ r ≤ m
          have hbr : relKey o ≤ relKey r := List.not_lt.1 (fun h => hlt ((laterThan_iff o r hb hr).2 h))
          have hrm : relKey r ≤ relKey m := List.not_lt.1 (h3 r (by simp))
          exact List.not_lt.2 (List.le_trans hbr hrm)
        · exact h3 _ (by simp)
        · exact h3 o (by simp [ho])

theorem latestRelease_eq_fold (rels : List Release) :
    latestRelease rels = (rels.filter (fun r => starMatches r.version)).foldl foldStep none := rfl

theorem isLatest_iff (rels : List Release) (r : Release) :
    isLatest rels r = true ↔
      r ∈ rels ∧ starMatches r.version = true ∧
        ∀ o ∈ rels, starMatches o.version = true → ¬ relKey r < relKey o := by
  simp only [isLatest, Bool.and_eq_true, List.contains_eq_mem, decide_eq_true_eq, List.all_eq_true,
    Bool.not_eq_true', Bool.and_eq_false_iff]
  constructor
  · rintro ⟨⟨h1, h2⟩, h3⟩
    refine ⟨h1, h2, ?_⟩
    intro o ho hso hlt
    rcases h3 o ho with h | h
    · simp [hso] at h
    · have := (laterThan_iff o r hso h2).2 hlt
      simp [this] at h
  · rintro ⟨h1, h2, h3⟩
    refine ⟨⟨h1, h2⟩, ?_⟩
    intro o ho
    by_cases hso : starMatches o.version = true
    · right
      cases hl : laterThan o.version r.version with
      | false => rfl
      | true => exact absurd ((laterThan_iff o r hso h2).1 hl) (h3 o ho hso)
    · left; simpa using hso

/-- the two notions of "latest" pick releases with the same content -/
theorem latestAgrees_of_functional (reg : Registry) (hfun : VersionsFunctional reg) : LatestAgrees reg := by
  intro name rels hg
  rw [latestRelease_eq_fold]
  cases hF : rels.filter (fun r => starMatches r.version) with
  | nil =>
    -- no candidate at all: both sides are `none`
    have hnone : rels.find? (isLatest rels) = none := by
      rw [List.find?_eq_none]
      intro r hr hl
      have := (isLatest_iff rels r).1 hl
      have hm : r ∈ rels.filter (fun r => starMatches r.version) := by simp [List.mem_filter, this.1, this.2.1]
      rw [hF] at hm; simp at hm
    simp [hnone]
  | cons b F =>
    have hmemF : ∀ x, x ∈ b :: F ↔ x ∈ rels ∧ starMatches x.version = true := by
      intro x; rw [← hF]; simp [List.mem_filter]
    have hb := (hmemF b).1 (by simp)
    have hFs : ∀ r ∈ F, starMatches r.version = true := fun r hr => ((hmemF r).1 (by simp [hr])).2
    obtain ⟨m, h1, h2, h3⟩ := fold_max F hFs b hb.2
    have hfold : List.foldl foldStep none (b :: F) = some m := by simpa [List.foldl_cons, foldStep] using h1
    rw [hfold]
    have hm := (hmemF m).1 h2
    have hmlatest : isLatest rels m = true := by
      rw [isLatest_iff]
      exact ⟨hm.1, hm.2, fun o ho hso => h3 o ((hmemF o).2 ⟨ho, hso⟩)⟩
    cases hfind : rels.find? (isLatest rels) with
    | none =>
      rw [List.find?_eq_none] at hfind
      exact absurd hmlatest (by simpa using hfind m hm.1)
    | some r =>
      have hr := List.find?_some hfind
      have hrm := List.mem_of_find?_eq_some hfind
      obtain ⟨_, hrs, hrmax⟩ := (isLatest_iff rels r).1 hr
      -- both are maximal: same key, hence same content
      have h_rm : relKey m ≤ relKey r := List.not_lt.1 (hrmax m hm.1 hm.2)
      have h_mr : relKey r ≤ relKey m := List.not_lt.1 (h3 r ((hmemF r).2 ⟨hrm, hrs⟩))
      have hkey : relKey m = relKey r := List.le_antisymm h_rm h_mr
      have := hfun name rels hg m hm.1 r hrm hm.2 hrs hkey
      simp [this]

end Wac.Lemmas.Registry
