import WacProofs.Lemmas.TypeSound
import WacProofs.Lemmas.Document
/-
  C12 proofs: soundness of the parser model w.r.t. the grammar specification — `use`, interface
  items, interfaces, world items, worlds, type statements, import statements, and `statement`
  (`ast/type.rs`, `ast/import.rs`, `ast.rs`); finally `stmtSound : StmtSound`, the hypothesis of
  the document-level soundness theorem (`Document.lean`).

  Everything that can meet a package-path token takes `SemverAgree` (the two version parsers agree)
  and `WF st` (every package-path token of the state has the lexical shape the parser relies on).
  All statements have slack `0` (`Sound er g 0 st x st'`): the grammar passes its fuel down
  unchanged, `many p fuel` needs as much fuel as there are items, and every item consumes a token.

  The recognisers the grammar writes inline are named here (`gUsePath`, `gUseItem`, `gExternType`,
  `gWorldRef`, `gIncludeItem`, `gImportType`, …) with `rfl` lemmas stating that the grammar's
  definitions are these.
-/
namespace Wac.C12
open Wac Wac.Ast Wac.Lex Wac.Parse Wac.Spec.Grammar

/-- `use-path ::= package-path | id` (the inline recogniser of `gUse`) -/
def gUsePath : SP UsePath :=
  (do let p ← gPackagePath; pure (UsePath.Package p)) <+> (do let id ← gId; pure (UsePath.Ident id))

/-- `use-item ::= id ('as' id)?` (the inline recogniser of `gUse`) -/
def gUseItem : SP UseItem := do
  let id ← gId; let a ← opt (do t "as"; gId); pure (⟨id, a⟩ : UseItem)

theorem gUse_eq (fuel : Nat) : gUse fuel = (do
    t "use"; let path ← gUsePath; t "."; t "{"
    let items ← list0 gUseItem fuel
    t "}"; t ";"; pure ⟨[], path, items⟩) := rfl

theorem parseUsePath_sound (hV : SemverAgree) {st st' : PState} {p : UsePath} (hwf : WF st)
    (h : parseUsePath st = .ok (p, st')) :
    st' = adv st ∧ st.toks.length = st'.toks.length + 1 ∧ (eraseUsePath p, abs st') ∈ gUsePath (abs st) := by
  unfold parseUsePath at h
  split at h
  · rename_i hk
    simp only [Except.bind_eq_ok, Prod.exists, parsePackagePath_eq_ok] at h
    obtain ⟨pp, st1, ⟨hk, hp, rfl⟩, h2⟩ := h
    cases h2
    have hag := pkgPathAt_agree hV (tokAt st) (hwf.shape hk)
    rw [hp] at hag
    refine ⟨rfl, len_of_nextTok hk, ?_⟩
    simp [gUsePath, mem_gPackagePath, hk, eraseUsePath, ← hag]
  · rename_i hk
    simp only [Except.bind_eq_ok, Prod.exists, parseIdent_eq_ok] at h
    obtain ⟨id, st1, ⟨hk, rfl, rfl⟩, h2⟩ := h
    cases h2
    refine ⟨rfl, len_of_nextTok hk, ?_⟩
    simp [gUsePath, mem_gId, hk, eraseUsePath, erase_identAt]
  · cases h

theorem parseUseItem_sound (st : PState) (u : UseItem) (st' : PState)
    (h : parseUseItem st = .ok (u, st')) : Sound eraseUseItem (fun _ => gUseItem) 0 st u st' := by
  simp only [parseUseItem, Except.bind_eq_ok, Prod.exists, parseIdent_eq_ok] at h
  obtain ⟨id, st1, ⟨h1, rfl, rfl⟩, o, st2, ho, h3⟩ := h
  cases h3
  have l1 := len_of_nextTok h1
  rw [parseOptional_eq_ok] at ho
  rcases ho with ⟨hp, a, ha, rfl⟩ | ⟨hnp, _, rfl, rfl⟩
  · rw [parseIdent_eq_ok] at ha
    obtain ⟨h2, rfl, rfl⟩ := ha
    have l2 := len_of_nextTok hp
    have l3 := len_of_nextTok h2
    refine ⟨(Suf.adv _).trans ((Suf.adv _).trans (Suf.adv _)), by omega, ?_⟩
    intro gf hgf
    simp [gUseItem, h1, hp, h2, mem_gId, and_assoc, eraseUseItem, erase_identAt]
  · refine ⟨Suf.adv _, by omega, ?_⟩
    intro gf hgf
    simp [gUseItem, h1, mem_gId, and_assoc, eraseUseItem, erase_identAt]


/-- a possibly empty comma-separated list up to `stop` against `list0` -/
theorem list0_sound {α β : Type} (stop : Token) (peeks : List Token) (item : PState → PR α) (er : α → β)
    (p : Nat → SP β)
    (hitem : ∀ st x st1, item st = .ok (x, st1) → Sound er p 0 st x st1)
    (pf : Nat) (st : PState) (xs : List α) (st3 : PState)
    (hd : parseDelimited stop true peeks item pf st = .ok (xs, st3)) :
    Suf st3 st ∧ peekTok st3 = some stop ∧
    ∀ gf, st.toks.length ≤ st3.toks.length + gf → (xs.map er, abs st3) ∈ list0 (p gf) gf (abs st) := by
  obtain ⟨hs3, hp3, hl3⟩ := parseDelimited_struct _ _ _ _
    (fun st x st1 hx => ⟨(hitem st x st1 hx).1, (hitem st x st1 hx).2.1⟩) _ _ _ _ hd
  refine ⟨hs3, hp3, ?_⟩
  intro gf hgf
  obtain ⟨_, _, _, hm3⟩ := parseDelimited_commas_sound stop peeks item er (p gf) gf
    (fun st x st1 hx => by
      obtain ⟨a, b, c⟩ := hitem st x st1 hx
      exact ⟨a, b, fun hB => c gf (by omega)⟩) _ _ _ _ hd
  rw [mem_list0]
  rcases hm3 hgf with ⟨rfl, rfl⟩ | hsep
  · right; simp
  · left; exact ⟨hsep, by simp; omega⟩

theorem parseUse_sound (hV : SemverAgree) {pf : Nat} {st st' : PState} {u : Use} (hwf : WF st)
    (h : parseUse pf st = .ok (u, st')) : Sound eraseUse gUse 0 st u st' := by
  simp only [parseUse, Except.bind_eq_ok, Prod.exists, parseToken_eq_ok] at h
  obtain ⟨t1, st1, ⟨h1, rfl, rfl⟩, path, st2, hpath, t3, st3, ⟨h3, rfl, rfl⟩, t4, st4, ⟨h4, rfl, rfl⟩,
    items, st5, hd, t6, st6, ⟨h6, rfl, rfl⟩, t7, st7, ⟨h7, rfl, rfl⟩, h8⟩ := h
  cases h8
  obtain ⟨rfl, l2, hm2⟩ := parseUsePath_sound hV hwf.adv hpath
  obtain ⟨hs5, _, hm5⟩ := list0_sound .CloseBrace [.Ident] parseUseItem eraseUseItem (fun _ => gUseItem)
    parseUseItem_sound pf _ _ _ hd
  have l1 := len_of_nextTok h1
  have l3 := len_of_nextTok h3
  have l4 := len_of_nextTok h4
  have l6 := len_of_nextTok h6
  have l7 := len_of_nextTok h7
  have l5 := hs5.len
  refine ⟨(Suf.adv _).trans ((Suf.adv _).trans (hs5.trans ((Suf.adv _).trans ((Suf.adv _).trans
    ((Suf.adv _).trans (Suf.adv _)))))), by omega, ?_⟩
  intro gf hgf
  rw [gUse_eq]
  simp [h1, eraseUse]
  refine ⟨_, _, hm2, ?_⟩
  simp [h3, h4]
  refine ⟨_, _, hm5 gf (by omega), ?_⟩
  simp [h6, h7]

theorem parseInterfaceExport_sound {pf : Nat} {st st' : PState} {e : InterfaceExport}
    (h : parseInterfaceExport pf st = .ok (e, st')) :
    Sound (fun e => InterfaceItem.Export (eraseInterfaceExport e)) gInterfaceItem 0 st e st' := by
  simp only [parseInterfaceExport, Except.bind_eq_ok, Prod.exists, parseToken_eq_ok, parseIdent_eq_ok] at h
  obtain ⟨id, st1, ⟨h1, rfl, rfl⟩, t2, st2, ⟨h2, rfl, rfl⟩, ty, st3, hty, t4, st4, ⟨h4, rfl, rfl⟩, h5⟩ := h
  cases h5
  obtain ⟨hs3, hl3, hm3⟩ := parseFuncTypeRef_sound _ _ _ _ hty
  have l1 := len_of_nextTok h1
  have l2 := len_of_nextTok h2
  have l4 := len_of_nextTok h4
  refine ⟨(Suf.adv _).trans (hs3.trans ((Suf.adv _).trans (Suf.adv _))), by omega, ?_⟩
  intro gf hgf
  simp only [gInterfaceItem, alt_apply, List.mem_append]
  right
  simp [h1, h2, mem_gId, and_assoc, eraseInterfaceExport, erase_identAt]
  exact ⟨_, _, hm3 gf (by omega), by simp [h4], rfl⟩

theorem parseInterfaceItem_sound (hV : SemverAgree) {pf : Nat} {st st' : PState} {i : InterfaceItem}
    (hwf : WF st) (h : parseInterfaceItem pf st = .ok (i, st')) :
    Sound eraseInterfaceItem gInterfaceItem 0 st i st' := by
  unfold parseInterfaceItem at h
  split at h
  · simp only [Except.bind_eq_ok, Prod.exists] at h
    obtain ⟨u, st1, hu, h2⟩ := h
    cases h2
    obtain ⟨hs, hl, hm⟩ := parseUse_sound hV hwf hu
    refine ⟨hs, hl, fun gf hgf => ?_⟩
    simp only [gInterfaceItem, alt_apply, List.mem_append]
    left; left
    simp [eraseInterfaceItem, hm gf hgf]
  · split at h
    · simp only [Except.bind_eq_ok, Prod.exists] at h
      obtain ⟨e, st1, he, h2⟩ := h
      cases h2
      exact parseInterfaceExport_sound he
    · split at h
      · simp only [Except.bind_eq_ok, Prod.exists] at h
        obtain ⟨d, st1, hd, h2⟩ := h
        cases h2
        obtain ⟨hs, hl, hm⟩ := parseItemTypeDecl_sound _ _ _ _ hd
        refine ⟨hs, hl, fun gf hgf => ?_⟩
        simp only [gInterfaceItem, alt_apply, List.mem_append]
        left; right
        simp [eraseInterfaceItem, hm gf hgf]
      · cases h


/-- a brace-delimited item sequence (no separators) up to `stop` against `many`, for items that are
sound on well-formed states -/
theorem many_sound {α β : Type} (stop : Token) (peeks : List Token) (item : PState → PR α) (er : α → β)
    (p : Nat → SP β)
    (hitem : ∀ st x st1, WF st → item st = .ok (x, st1) → Sound er p 0 st x st1)
    (pf : Nat) (st : PState) (xs : List α) (st3 : PState) (hwf : WF st)
    (hd : parseDelimited stop false peeks item pf st = .ok (xs, st3)) :
    Suf st3 st ∧ peekTok st3 = some stop ∧
    ∀ gf, st.toks.length ≤ st3.toks.length + gf → (xs.map er, abs st3) ∈ many (p gf) gf (abs st) := by
  have hInv : ∀ st st', WF st → Suf st' st → WF st' := fun _ _ h hs => h.suf hs
  obtain ⟨hs3, hp3, hl3, _⟩ := parseDelimited_nocommas_sound_inv stop peeks item er (p 0) WF hInv 0
    (fun st x st1 hw hx => by
      obtain ⟨a, b, c⟩ := hitem st x st1 hw hx
      exact ⟨a, b, fun hB => by omega⟩) pf st xs st3 hwf hd
  refine ⟨hs3, hp3, ?_⟩
  intro gf hgf
  obtain ⟨_, _, _, hm3⟩ := parseDelimited_nocommas_sound_inv stop peeks item er (p gf) WF hInv gf
    (fun st x st1 hw hx => by
      obtain ⟨a, b, c⟩ := hitem st x st1 hw hx
      exact ⟨a, b, fun hB => c gf (by omega)⟩) pf st xs st3 hwf hd
  rw [mem_many]
  exact ⟨hm3 hgf, by simp; omega⟩

theorem interfaceItems_sound (hV : SemverAgree) {pf : Nat} {st st3 : PState} {xs : List InterfaceItem}
    (hwf : WF st)
    (hd : parseDelimited .CloseBrace false interfaceItemPeeks (parseInterfaceItem pf) pf st = .ok (xs, st3)) :
    Suf st3 st ∧ peekTok st3 = some .CloseBrace ∧
    ∀ gf, st.toks.length ≤ st3.toks.length + gf →
      (xs.map eraseInterfaceItem, abs st3) ∈ many (gInterfaceItem gf) gf (abs st) :=
  many_sound .CloseBrace interfaceItemPeeks (parseInterfaceItem pf) eraseInterfaceItem gInterfaceItem
    (fun _ _ _ hw hx => parseInterfaceItem_sound hV hw hx) pf st xs st3 hwf hd

theorem parseInlineInterface_sound (hV : SemverAgree) {pf : Nat} {st st' : PState} {i : InlineInterface}
    (hwf : WF st) (h : parseInlineInterface pf st = .ok (i, st')) :
    Sound eraseInlineInterface gInlineInterface 0 st i st' := by
  simp only [parseInlineInterface, Except.bind_eq_ok, Prod.exists, parseToken_eq_ok] at h
  obtain ⟨t1, st1, ⟨h1, rfl, rfl⟩, t2, st2, ⟨h2, rfl, rfl⟩, items, st3, hd, t4, st4, ⟨h4, rfl, rfl⟩, h5⟩ := h
  cases h5
  obtain ⟨hs3, _, hm3⟩ := interfaceItems_sound hV hwf.adv.adv hd
  have l1 := len_of_nextTok h1
  have l2 := len_of_nextTok h2
  have l4 := len_of_nextTok h4
  have l3 := hs3.len
  refine ⟨(Suf.adv _).trans (hs3.trans ((Suf.adv _).trans (Suf.adv _))), by omega, ?_⟩
  intro gf hgf
  simp [gInlineInterface, h1, h2, eraseInlineInterface]
  exact ⟨_, _, hm3 gf (by omega), by simp [h4], rfl⟩

theorem parseInterfaceDecl_sound (hV : SemverAgree) {pf : Nat} {st st' : PState} {d : InterfaceDecl}
    (hwf : WF st) (h : parseInterfaceDecl pf st = .ok (d, st')) :
    Sound (fun d => TypeStatement.Interface (eraseInterfaceDecl d)) gTypeStatement 0 st d st' := by
  simp only [parseInterfaceDecl, Except.bind_eq_ok, Prod.exists, parseToken_eq_ok, parseIdent_eq_ok] at h
  obtain ⟨t1, st1, ⟨h1, rfl, rfl⟩, id, st2, ⟨h2, rfl, rfl⟩, t3, st3, ⟨h3, rfl, rfl⟩, items, st4, hd,
    t5, st5, ⟨h5, rfl, rfl⟩, h6⟩ := h
  cases h6
  obtain ⟨hs4, _, hm4⟩ := interfaceItems_sound hV hwf.adv.adv.adv hd
  have l1 := len_of_nextTok h1
  have l2 := len_of_nextTok h2
  have l3 := len_of_nextTok h3
  have l5 := len_of_nextTok h5
  have l4 := hs4.len
  refine ⟨(Suf.adv _).trans (hs4.trans ((Suf.adv _).trans ((Suf.adv _).trans (Suf.adv _)))), by omega, ?_⟩
  intro gf hgf
  simp only [gTypeStatement, alt_apply, List.mem_append]
  left; left
  simp [h1, h2, h3, mem_gId, and_assoc, eraseInterfaceDecl, erase_identAt]
  exact ⟨_, _, hm4 gf (by omega), by simp [h5], rfl⟩

/-! ### world items -/

/-- `extern-type ::= func-type | inline-interface | id` (the inline recogniser of `gWorldItemPath`) -/
def gExternType (fuel : Nat) : SP ExternType :=
  (do let f ← gFuncType fuel; pure (ExternType.Func f)) <+>
  (do let i ← gInlineInterface fuel; pure (ExternType.Interface i)) <+>
  (do let id ← gId; pure (ExternType.Ident id))

theorem gWorldItemPath_eq (fuel : Nat) : gWorldItemPath fuel =
    ((do let id ← gId; t ":"; let ty ← gExternType fuel; pure (.Named ⟨id, ty⟩)) <+>
     (do let p ← gPackagePath; pure (.Package p)) <+>
     (do let id ← gId; pure (.Ident id))) := rfl

theorem parseExternType_sound (hV : SemverAgree) {pf : Nat} {st st' : PState} {x : ExternType}
    (hwf : WF st) (h : parseExternType pf st = .ok (x, st')) :
    Sound eraseExternType gExternType 0 st x st' := by
  unfold parseExternType at h
  split at h
  · rename_i hk
    simp only [Except.bind_eq_ok, Prod.exists, parseIdent_eq_ok] at h
    obtain ⟨id, st1, ⟨hk, rfl, rfl⟩, h2⟩ := h
    cases h2
    have l1 := len_of_nextTok hk
    refine ⟨Suf.adv _, by omega, fun gf hgf => ?_⟩
    simp only [gExternType, alt_apply, List.mem_append]
    right
    simp [hk, mem_gId, eraseExternType, erase_identAt]
  · simp only [Except.bind_eq_ok, Prod.exists] at h
    obtain ⟨f, st1, hf, h2⟩ := h
    cases h2
    obtain ⟨hs, hl, hm⟩ := parseFuncType_sound _ _ _ _ hf
    refine ⟨hs, hl, fun gf hgf => ?_⟩
    simp only [gExternType, alt_apply, List.mem_append]
    left; left
    simp [eraseExternType, hm gf hgf]
  · simp only [Except.bind_eq_ok, Prod.exists] at h
    obtain ⟨i, st1, hi, h2⟩ := h
    cases h2
    obtain ⟨hs, hl, hm⟩ := parseInlineInterface_sound hV hwf hi
    refine ⟨hs, hl, fun gf hgf => ?_⟩
    simp only [gExternType, alt_apply, List.mem_append]
    left; right
    simp [eraseExternType, hm gf hgf]
  · cases h

theorem parseWorldItemPath_sound (hV : SemverAgree) {pf : Nat} {st st' : PState} {p : WorldItemPath}
    (hwf : WF st) (h : parseWorldItemPath pf st = .ok (p, st')) :
    Sound eraseWorldItemPath gWorldItemPath 0 st p st' := by
  unfold parseWorldItemPath at h
  split at h
  · rename_i hk
    simp only [Except.bind_eq_ok, Prod.exists, parsePackagePath_eq_ok] at h
    obtain ⟨pp, st1, ⟨hk, hp, rfl⟩, h2⟩ := h
    cases h2
    have hag := pkgPathAt_agree hV (tokAt st) (hwf.shape hk)
    rw [hp] at hag
    have l1 := len_of_nextTok hk
    refine ⟨Suf.adv _, by omega, fun gf hgf => ?_⟩
    rw [gWorldItemPath_eq]
    simp only [alt_apply, List.mem_append]
    left; right
    simp [mem_gPackagePath, hk, eraseWorldItemPath, ← hag]
  · rename_i hk
    split at h
    · rename_i hc
      simp only [peek2Tok_eq, beq_iff_eq] at hc
      simp only [parseNamedWorldItem, Except.bind_eq_ok, Prod.exists, parseToken_eq_ok, parseIdent_eq_ok] at h
      obtain ⟨n, st1, ⟨id, st2, ⟨hk, rfl, rfl⟩, t3, st3, ⟨hc, rfl, rfl⟩, ty, st4, hty, h5⟩, h6⟩ := h
      cases h5; cases h6
      obtain ⟨hs, hl, hm⟩ := parseExternType_sound hV hwf.adv.adv hty
      have l1 := len_of_nextTok hk
      have l2 := len_of_nextTok hc
      refine ⟨hs.trans ((Suf.adv _).trans (Suf.adv _)), by omega, fun gf hgf => ?_⟩
      rw [gWorldItemPath_eq]
      simp only [alt_apply, List.mem_append]
      left; left
      simp [hk, hc, mem_gId, and_assoc, eraseWorldItemPath, eraseNamedWorldItem, erase_identAt]
      exact hm gf (by omega)
    · simp only [Except.bind_eq_ok, Prod.exists, parseIdent_eq_ok] at h
      obtain ⟨id, st1, ⟨hk, rfl, rfl⟩, h2⟩ := h
      cases h2
      have l1 := len_of_nextTok hk
      refine ⟨Suf.adv _, by omega, fun gf hgf => ?_⟩
      rw [gWorldItemPath_eq]
      simp only [alt_apply, List.mem_append]
      right
      simp [hk, mem_gId, eraseWorldItemPath, erase_identAt]
  · cases h

/-- `world-ref ::= package-path | id` (the inline recogniser of `gWorldItem`) -/
def gWorldRef : SP WorldRef :=
  (do let p ← gPackagePath; pure (WorldRef.Package p)) <+> (do let id ← gId; pure (WorldRef.Ident id))

/-- `world-include-item ::= id 'as' id` (the inline recogniser of `gWorldItem`) -/
def gIncludeItem : SP WorldIncludeItem := do
  let a ← gId; t "as"; let b ← gId; pure (⟨a, b⟩ : WorldIncludeItem)

/-- `world-include ::= 'include' world-ref ('with' '{' world-include-items '}')? ';'` -/
def gWorldInclude (fuel : Nat) : SP WorldItem := do
  t "include"
  let w ← gWorldRef
  let items ← opt (do t "with"; t "{"; let is ← list0 gIncludeItem fuel; t "}"; pure is)
  t ";"; pure (.Include ⟨[], w, items.getD []⟩)

theorem gWorldItem_eq (fuel : Nat) : gWorldItem fuel =
    ((do let u ← gUse fuel; pure (.Use u)) <+>
     (do let d ← gItemTypeDecl fuel; pure (.Type' d)) <+>
     (do t "import"; let p ← gWorldItemPath fuel; t ";"; pure (.Import ⟨[], p⟩)) <+>
     (do t "export"; let p ← gWorldItemPath fuel; t ";"; pure (.Export ⟨[], p⟩)) <+>
     gWorldInclude fuel) := rfl

theorem parseWorldRef_sound (hV : SemverAgree) {st st' : PState} {w : WorldRef} (hwf : WF st)
    (h : parseWorldRef st = .ok (w, st')) :
    st' = adv st ∧ st.toks.length = st'.toks.length + 1 ∧ (eraseWorldRef w, abs st') ∈ gWorldRef (abs st) := by
  unfold parseWorldRef at h
  split at h
  · rename_i hk
    simp only [Except.bind_eq_ok, Prod.exists, parsePackagePath_eq_ok] at h
    obtain ⟨pp, st1, ⟨hk, hp, rfl⟩, h2⟩ := h
    cases h2
    have hag := pkgPathAt_agree hV (tokAt st) (hwf.shape hk)
    rw [hp] at hag
    refine ⟨rfl, len_of_nextTok hk, ?_⟩
    simp [gWorldRef, mem_gPackagePath, hk, eraseWorldRef, ← hag]
  · rename_i hk
    simp only [Except.bind_eq_ok, Prod.exists, parseIdent_eq_ok] at h
    obtain ⟨id, st1, ⟨hk, rfl, rfl⟩, h2⟩ := h
    cases h2
    refine ⟨rfl, len_of_nextTok hk, ?_⟩
    simp [gWorldRef, mem_gId, hk, eraseWorldRef, erase_identAt]
  · cases h

theorem parseWorldIncludeItem_sound (st : PState) (i : WorldIncludeItem) (st' : PState)
    (h : parseWorldIncludeItem st = .ok (i, st')) :
    Sound eraseWorldIncludeItem (fun _ => gIncludeItem) 0 st i st' := by
  simp only [parseWorldIncludeItem, Except.bind_eq_ok, Prod.exists, parseIdent_eq_ok, parseToken_eq_ok] at h
  obtain ⟨a, st1, ⟨h1, rfl, rfl⟩, t2, st2, ⟨h2, rfl, rfl⟩, b, st3, ⟨h3, rfl, rfl⟩, h4⟩ := h
  cases h4
  have l1 := len_of_nextTok h1
  have l2 := len_of_nextTok h2
  have l3 := len_of_nextTok h3
  refine ⟨(Suf.adv _).trans ((Suf.adv _).trans (Suf.adv _)), by omega, fun gf hgf => ?_⟩
  simp [gIncludeItem, h1, h2, h3, mem_gId, and_assoc, eraseWorldIncludeItem, erase_identAt]

theorem parseWorldImport_sound (hV : SemverAgree) {pf : Nat} {st st' : PState} {i : WorldImport}
    (hwf : WF st) (h : parseWorldImport pf st = .ok (i, st')) :
    Sound (fun i => eraseWorldItem (.Import i)) gWorldItem 0 st i st' := by
  simp only [parseWorldImport, Except.bind_eq_ok, Prod.exists, parseToken_eq_ok] at h
  obtain ⟨t1, st1, ⟨h1, rfl, rfl⟩, p, st2, hp, t3, st3, ⟨h3, rfl, rfl⟩, h4⟩ := h
  cases h4
  obtain ⟨hs, hl, hm⟩ := parseWorldItemPath_sound hV hwf.adv hp
  have l1 := len_of_nextTok h1
  have l3 := len_of_nextTok h3
  refine ⟨(Suf.adv _).trans (hs.trans (Suf.adv _)), by omega, fun gf hgf => ?_⟩
  rw [gWorldItem_eq]
  simp only [alt_apply, List.mem_append]
  left; left; right
  simp [h1, eraseWorldItem]
  exact ⟨_, _, hm gf (by omega), by simp [h3], rfl⟩

theorem parseWorldExport_sound (hV : SemverAgree) {pf : Nat} {st st' : PState} {e : WorldExport}
    (hwf : WF st) (h : parseWorldExport pf st = .ok (e, st')) :
    Sound (fun e => eraseWorldItem (.Export e)) gWorldItem 0 st e st' := by
  simp only [parseWorldExport, Except.bind_eq_ok, Prod.exists, parseToken_eq_ok] at h
  obtain ⟨t1, st1, ⟨h1, rfl, rfl⟩, p, st2, hp, t3, st3, ⟨h3, rfl, rfl⟩, h4⟩ := h
  cases h4
  obtain ⟨hs, hl, hm⟩ := parseWorldItemPath_sound hV hwf.adv hp
  have l1 := len_of_nextTok h1
  have l3 := len_of_nextTok h3
  refine ⟨(Suf.adv _).trans (hs.trans (Suf.adv _)), by omega, fun gf hgf => ?_⟩
  rw [gWorldItem_eq]
  simp only [alt_apply, List.mem_append]
  left; right
  simp [h1, eraseWorldItem]
  exact ⟨_, _, hm gf (by omega), by simp [h3], rfl⟩

theorem parseWorldInclude_sound (hV : SemverAgree) {pf : Nat} {st st' : PState} {i : WorldInclude}
    (hwf : WF st) (h : parseWorldInclude pf st = .ok (i, st')) :
    Sound (fun i => eraseWorldItem (.Include i)) gWorldInclude 0 st i st' := by
  simp only [parseWorldInclude, Except.bind_eq_ok, Prod.exists, parseToken_eq_ok] at h
  obtain ⟨t1, st1, ⟨h1, rfl, rfl⟩, w, st2, hw, o, st3, ho, t4, st4, ⟨h4, rfl, rfl⟩, h5⟩ := h
  cases h5
  obtain ⟨rfl, l2, hm2⟩ := parseWorldRef_sound hV hwf.adv hw
  have l1 := len_of_nextTok h1
  have l4 := len_of_nextTok h4
  rw [parseOptional_eq_ok] at ho
  rcases ho with ⟨hwith, items, hi, rfl⟩ | ⟨hnw, _, rfl, rfl⟩
  · simp only [Except.bind_eq_ok, Prod.exists, parseToken_eq_ok] at hi
    obtain ⟨t5, st5, ⟨h5, rfl, rfl⟩, is, st6, hd, t7, st7, ⟨h7, rfl, rfl⟩, h8⟩ := hi
    cases h8
    obtain ⟨hs6, _, hm6⟩ := list0_sound .CloseBrace [.Ident] parseWorldIncludeItem eraseWorldIncludeItem
      (fun _ => gIncludeItem) parseWorldIncludeItem_sound pf _ _ _ hd
    have l3 := len_of_nextTok hwith
    have l5 := len_of_nextTok h5
    have l7 := len_of_nextTok h7
    have l6 := hs6.len
    refine ⟨(Suf.adv _).trans ((Suf.adv _).trans (hs6.trans ((Suf.adv _).trans ((Suf.adv _).trans
      ((Suf.adv _).trans (Suf.adv _)))))), by omega, fun gf hgf => ?_⟩
    simp [gWorldInclude, h1, eraseWorldItem]
    refine ⟨_, _, hm2, ?_⟩
    left
    simp [hwith, h5]
    exact ⟨_, abs (adv st6), ⟨_, ⟨_, _, hm6 gf (by omega), by simp [h7], rfl⟩, rfl⟩, by simp [h4], rfl⟩
  · refine ⟨(Suf.adv _).trans ((Suf.adv _).trans (Suf.adv _)), by omega, fun gf hgf => ?_⟩
    simp [gWorldInclude, h1, eraseWorldItem]
    refine ⟨_, _, hm2, ?_⟩
    right
    simp [h4]

theorem parseWorldItem_sound (hV : SemverAgree) {pf : Nat} {st st' : PState} {i : WorldItem}
    (hwf : WF st) (h : parseWorldItem pf st = .ok (i, st')) :
    Sound eraseWorldItem gWorldItem 0 st i st' := by
  unfold parseWorldItem at h
  split at h
  · simp only [Except.bind_eq_ok, Prod.exists] at h
    obtain ⟨u, st1, hu, h2⟩ := h
    cases h2
    obtain ⟨hs, hl, hm⟩ := parseUse_sound hV hwf hu
    refine ⟨hs, hl, fun gf hgf => ?_⟩
    rw [gWorldItem_eq]
    simp only [alt_apply, List.mem_append]
    left; left; left; left
    simp [eraseWorldItem, hm gf hgf]
  · split at h
    · simp only [Except.bind_eq_ok, Prod.exists] at h
      obtain ⟨x, st1, hx, h2⟩ := h
      cases h2
      exact parseWorldImport_sound hV hwf hx
    · split at h
      · simp only [Except.bind_eq_ok, Prod.exists] at h
        obtain ⟨x, st1, hx, h2⟩ := h
        cases h2
        exact parseWorldExport_sound hV hwf hx
      · split at h
        · simp only [Except.bind_eq_ok, Prod.exists] at h
          obtain ⟨x, st1, hx, h2⟩ := h
          cases h2
          obtain ⟨hs, hl, hm⟩ := parseWorldInclude_sound hV hwf hx
          refine ⟨hs, hl, fun gf hgf => ?_⟩
          rw [gWorldItem_eq]
          simp only [alt_apply, List.mem_append]
          right
          exact hm gf hgf
        · split at h
          · simp only [Except.bind_eq_ok, Prod.exists] at h
            obtain ⟨d, st1, hd, h2⟩ := h
            cases h2
            obtain ⟨hs, hl, hm⟩ := parseItemTypeDecl_sound _ _ _ _ hd
            refine ⟨hs, hl, fun gf hgf => ?_⟩
            rw [gWorldItem_eq]
            simp only [alt_apply, List.mem_append]
            left; left; left; right
            simp [eraseWorldItem, hm gf hgf]
          · cases h

theorem parseWorldDecl_sound (hV : SemverAgree) {pf : Nat} {st st' : PState} {d : WorldDecl}
    (hwf : WF st) (h : parseWorldDecl pf st = .ok (d, st')) :
    Sound (fun d => TypeStatement.World (eraseWorldDecl d)) gTypeStatement 0 st d st' := by
  simp only [parseWorldDecl, Except.bind_eq_ok, Prod.exists, parseToken_eq_ok, parseIdent_eq_ok] at h
  obtain ⟨t1, st1, ⟨h1, rfl, rfl⟩, id, st2, ⟨h2, rfl, rfl⟩, t3, st3, ⟨h3, rfl, rfl⟩, items, st4, hd,
    t5, st5, ⟨h5, rfl, rfl⟩, h6⟩ := h
  cases h6
  obtain ⟨hs4, _, hm4⟩ := many_sound .CloseBrace worldItemPeeks (parseWorldItem pf) eraseWorldItem gWorldItem
    (fun _ _ _ hw hx => parseWorldItem_sound hV hw hx) pf _ _ _ hwf.adv.adv.adv hd
  have l1 := len_of_nextTok h1
  have l2 := len_of_nextTok h2
  have l3 := len_of_nextTok h3
  have l5 := len_of_nextTok h5
  have l4 := hs4.len
  refine ⟨(Suf.adv _).trans (hs4.trans ((Suf.adv _).trans ((Suf.adv _).trans (Suf.adv _)))), by omega, ?_⟩
  intro gf hgf
  simp only [gTypeStatement, alt_apply, List.mem_append]
  left; right
  simp [h1, h2, h3, mem_gId, and_assoc, eraseWorldDecl, erase_identAt]
  exact ⟨_, _, hm4 gf (by omega), by simp [h5], rfl⟩

theorem parseTypeStatement_sound (hV : SemverAgree) {pf : Nat} {st st' : PState} {s : TypeStatement}
    (hwf : WF st) (h : parseTypeStatement pf st = .ok (s, st')) :
    Sound eraseTypeStatement gTypeStatement 0 st s st' := by
  unfold parseTypeStatement at h
  split at h
  · simp only [Except.bind_eq_ok, Prod.exists] at h
    obtain ⟨x, st1, hx, h2⟩ := h
    cases h2
    exact parseInterfaceDecl_sound hV hwf hx
  · split at h
    · simp only [Except.bind_eq_ok, Prod.exists] at h
      obtain ⟨x, st1, hx, h2⟩ := h
      cases h2
      exact parseWorldDecl_sound hV hwf hx
    · split at h
      · simp only [Except.bind_eq_ok, Prod.exists] at h
        obtain ⟨x, st1, hx, h2⟩ := h
        cases h2
        obtain ⟨hs, hl, hm⟩ := parseTypeDecl_sound _ _ _ _ hx
        refine ⟨hs, hl, fun gf hgf => ?_⟩
        simp only [gTypeStatement, alt_apply, List.mem_append]
        right
        simp [eraseTypeStatement, hm gf hgf]
      · cases h

/-! ### import statements, statements -/

/-- `import-type ::= package-path | func-type | inline-interface | id` (the inline recogniser of
`gImportStatement`) -/
def gImportType (fuel : Nat) : SP ImportType :=
  (do let p ← gPackagePath; pure (ImportType.Package p)) <+>
  (do let f ← gFuncType fuel; pure (ImportType.Func f)) <+>
  (do let i ← gInlineInterface fuel; pure (ImportType.Interface i)) <+>
  (do let id ← gId; pure (ImportType.Ident id))

theorem gImportStatement_eq (fuel : Nat) : gImportStatement fuel = (do
    t "import"; let id ← gId
    let name ← opt (do t "as"; gExternName)
    t ":"
    let ty ← gImportType fuel
    t ";"; pure ⟨[], id, name, ty⟩) := rfl

theorem parseImportType_sound (hV : SemverAgree) {pf : Nat} {st st' : PState} {x : ImportType}
    (hwf : WF st) (h : parseImportType pf st = .ok (x, st')) :
    Sound eraseImportType gImportType 0 st x st' := by
  unfold parseImportType at h
  split at h
  · simp only [Except.bind_eq_ok, Prod.exists] at h
    obtain ⟨f, st1, hf, h2⟩ := h
    cases h2
    obtain ⟨hs, hl, hm⟩ := parseFuncType_sound _ _ _ _ hf
    refine ⟨hs, hl, fun gf hgf => ?_⟩
    simp only [gImportType, alt_apply, List.mem_append]
    left; left; right
    simp [eraseImportType, hm gf hgf]
  · simp only [Except.bind_eq_ok, Prod.exists] at h
    obtain ⟨i, st1, hi, h2⟩ := h
    cases h2
    obtain ⟨hs, hl, hm⟩ := parseInlineInterface_sound hV hwf hi
    refine ⟨hs, hl, fun gf hgf => ?_⟩
    simp only [gImportType, alt_apply, List.mem_append]
    left; right
    simp [eraseImportType, hm gf hgf]
  · rename_i hk
    simp only [Except.bind_eq_ok, Prod.exists, parsePackagePath_eq_ok] at h
    obtain ⟨pp, st1, ⟨hk, hp, rfl⟩, h2⟩ := h
    cases h2
    have hag := pkgPathAt_agree hV (tokAt st) (hwf.shape hk)
    rw [hp] at hag
    have l1 := len_of_nextTok hk
    refine ⟨Suf.adv _, by omega, fun gf hgf => ?_⟩
    simp only [gImportType, alt_apply, List.mem_append]
    left; left; left
    simp [mem_gPackagePath, hk, eraseImportType, ← hag]
  · rename_i hk
    simp only [Except.bind_eq_ok, Prod.exists, parseIdent_eq_ok] at h
    obtain ⟨id, st1, ⟨hk, rfl, rfl⟩, h2⟩ := h
    cases h2
    have l1 := len_of_nextTok hk
    refine ⟨Suf.adv _, by omega, fun gf hgf => ?_⟩
    simp only [gImportType, alt_apply, List.mem_append]
    right
    simp [hk, mem_gId, eraseImportType, erase_identAt]
  · cases h

theorem parseImportStatement_sound (hV : SemverAgree) {pf : Nat} {st st' : PState} {s : ImportStatement}
    (hwf : WF st) (h : parseImportStatement pf st = .ok (s, st')) :
    Sound eraseImportStatement gImportStatement 0 st s st' := by
  simp only [parseImportStatement, Except.bind_eq_ok, Prod.exists, parseToken_eq_ok, parseIdent_eq_ok] at h
  obtain ⟨t1, st1, ⟨h1, rfl, rfl⟩, id, st2, ⟨h2, rfl, rfl⟩, name, st3, hn, t4, st4, ⟨h4, rfl, rfl⟩,
    ty, st5, hty, t6, st6, ⟨h6, rfl, rfl⟩, h7⟩ := h
  cases h7
  have l1 := len_of_nextTok h1
  have l2 := len_of_nextTok h2
  have l4 := len_of_nextTok h4
  have l6 := len_of_nextTok h6
  rw [parseOptional_eq_ok] at hn
  rcases hn with ⟨has, n, hn, rfl⟩ | ⟨hnas, _, rfl, rfl⟩
  · have l3 := len_of_nextTok has
    rw [parseExternName_eq_ok] at hn
    rcases hn with ⟨kn, rfl, rfl⟩ | ⟨kn, rfl, rfl⟩
    all_goals
      have l3' := len_of_nextTok kn
      obtain ⟨hs, hl, hm⟩ := parseImportType_sound hV hwf.adv.adv.adv.adv.adv hty
      refine ⟨(Suf.adv _).trans (hs.trans ((Suf.adv _).trans ((Suf.adv _).trans ((Suf.adv _).trans
        ((Suf.adv _).trans (Suf.adv _)))))), by omega, fun gf hgf => ?_⟩
      rw [gImportStatement_eq]
      simp [h1, h2, mem_gId, and_assoc, eraseImportStatement, erase_identAt]
      simp [has, kn, h4, mem_gExternName, eraseExternName, erase_identAt, erase_stringAt, and_assoc]
      exact ⟨_, _, hm gf (by omega), by simp [h6], rfl⟩
  · obtain ⟨hs, hl, hm⟩ := parseImportType_sound hV hwf.adv.adv.adv hty
    refine ⟨(Suf.adv _).trans (hs.trans ((Suf.adv _).trans ((Suf.adv _).trans (Suf.adv _)))), by omega,
      fun gf hgf => ?_⟩
    rw [gImportStatement_eq]
    simp [h1, h2, mem_gId, and_assoc, eraseImportStatement, erase_identAt]
    right
    simp [h4]
    exact ⟨_, _, hm gf (by omega), by simp [h6], rfl⟩

theorem parseStatement_sound (hV : SemverAgree) {pf : Nat} {st st' : PState} {s : Statement}
    (hwf : WF st) (h : parseStatement pf st = .ok (s, st')) :
    Sound eraseStatement gStatement 0 st s st' := by
  unfold parseStatement at h
  split at h
  · simp only [Except.bind_eq_ok, Prod.exists] at h
    obtain ⟨x, st1, hx, h2⟩ := h
    cases h2
    obtain ⟨hs, hl, hm⟩ := parseImportStatement_sound hV hwf hx
    refine ⟨hs, hl, fun gf hgf => ?_⟩
    simp only [gStatement, alt_apply, List.mem_append]
    left; left; left
    simp [eraseStatement, hm gf hgf]
  · split at h
    · simp only [Except.bind_eq_ok, Prod.exists] at h
      obtain ⟨x, st1, hx, h2⟩ := h
      cases h2
      exact parseLetStatement_sound hV hx
    · split at h
      · simp only [Except.bind_eq_ok, Prod.exists] at h
        obtain ⟨x, st1, hx, h2⟩ := h
        cases h2
        exact parseExportStatement_sound hV hx
      · split at h
        · simp only [Except.bind_eq_ok, Prod.exists] at h
          obtain ⟨x, st1, hx, h2⟩ := h
          cases h2
          obtain ⟨hs, hl, hm⟩ := parseTypeStatement_sound hV hwf hx
          refine ⟨hs, hl, fun gf hgf => ?_⟩
          simp only [gStatement, alt_apply, List.mem_append]
          left; left; right
          simp [eraseStatement, hm gf hgf]
        · cases h

/-- **statement-level soundness**, the hypothesis of `parseTokens_sound` -/
theorem stmtSound (hV : SemverAgree) : StmtSound :=
  fun _ _ _ _ hwf h => parseStatement_sound hV hwf h

end Wac.C12
