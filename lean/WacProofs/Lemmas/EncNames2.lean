import WacProofs.Lemmas.EncNames
/-
  Completeness of the emitted exports, the aggregated pairs as implied requests, and the import
  items behind the recorded implicit arguments.
-/
namespace Wac
open Wac.Spec

/-! ### every designated export is emitted -/

theorem encNode_def_item {g : GraphVal} {o : Opts} {st st' : EncSt} {id : Nat} {n : Node} {name : Str}
    (he : encNode g o st id = .ok st') (hn : g.node? id = some n) (hk : n.kind = .definition)
    (hx : n.exportName = some name) : ∃ i, Item.export name .type i ∈ st'.items := by
  unfold encNode at he
  simp only [hn, hk] at he
  cases hr : encDefinition st n with
  | error e => simp [hr] at he
  | panic s => simp [hr] at he
  | ok r =>
    obtain ⟨st1, idx⟩ := r
    simp only [hr] at he
    cases hq : natGet st1.nodeIdx id with
    | some x => simp [hq] at he
    | none =>
      simp only [hq] at he
      injection he with he
      subst he
      unfold encDefinition at hr
      simp only [hx] at hr
      injection hr with hr
      have := congrArg Prod.fst hr
      simp only at this
      refine ⟨(defTypeIndex st n).2, ?_⟩
      show _ ∈ st1.items
      rw [← this, emit_items]
      simp

theorem encNodes_def_item {g : GraphVal} {A C Imp} {o : Opts} (wf : WF g) (hA : PkgImportsOk g o A)
    (hC : DefExportsOk g C) (ids : List Nat) {st st' : EncSt} (h : SInv g A (ArgsOk g Imp) C st)
    (hi : ImpFrozen Imp st) (he : encNodes g o ids st = .ok st') :
    ∀ id ∈ ids, ∀ n name, g.node? id = some n → n.kind = .definition → n.exportName = some name →
      ∃ i, Item.export name .type i ∈ st'.items := by
  induction ids generalizing st with
  | nil => simp
  | cons id0 ids ih =>
    simp only [encNodes] at he
    cases h1 : encNode g o st id0 with
    | error e => simp [h1] at he
    | panic s => simp [h1] at he
    | ok st1 =>
      simp only [h1] at he
      obtain ⟨r1, r2, _, _⟩ := encNode_sinv wf hA hC h hi h1
      obtain ⟨_, l2⟩ := encNodes_sinv wf hA hC ids r1 r2 he
      intro id hid n name hn hk hx
      rcases List.mem_cons.mp hid with e | e
      · subst e
        obtain ⟨i, hi'⟩ := encNode_def_item h1 hn hk hx
        exact ⟨i, l2.mem hi'⟩
      · exact ih r1 r2 he id e n name hn hk hx

theorem encExports_itemsLe {g : GraphVal} (exps : List (Str × Nat)) {st st' : EncSt}
    (he : encExports g exps st = .ok st') : ItemsLe st st' := by
  induction exps generalizing st with
  | nil => simp only [encExports] at he; injection he with he; subst he; exact ItemsLe.refl _
  | cons e exps ih =>
    obtain ⟨name, id⟩ := e
    simp only [encExports] at he
    cases hn : g.node? id with
    | none => simp [hn] at he
    | some n =>
      simp only [hn] at he
      split at he
      · exact ih he
      · cases hq : natGet st.nodeIdx id with
        | none => simp [hq] at he
        | some idx =>
          simp only [hq] at he
          exact (emit_itemsLe _ _).trans (ih he)

/-- the exports loop: every entry names a live node, and every entry that is not a definition
    is emitted with the node's kind -/
theorem encExports_items {g : GraphVal} (exps : List (Str × Nat)) {st st' : EncSt}
    (he : encExports g exps st = .ok st') :
    ∀ e ∈ exps, ∃ n, g.node? e.2 = some n ∧
      (n.isDefinition = false → ∃ i, Item.export e.1 n.ty.kind i ∈ st'.items) := by
  induction exps generalizing st with
  | nil => simp
  | cons e0 exps ih =>
    obtain ⟨name, id⟩ := e0
    simp only [encExports] at he
    cases hn : g.node? id with
    | none => simp [hn] at he
    | some n =>
      simp only [hn] at he
      intro e hm
      by_cases hd : n.isDefinition = true
      · simp only [hd, ↓reduceIte] at he
        rcases List.mem_cons.mp hm with e1 | e1
        · subst e1
          exact ⟨n, hn, fun h => by rw [hd] at h; cases h⟩
        · exact ih he e e1
      · simp only [hd, Bool.false_eq_true, ↓reduceIte] at he
        cases hq : natGet st.nodeIdx id with
        | none => simp [hq] at he
        | some idx =>
          simp only [hq] at he
          rcases List.mem_cons.mp hm with e1 | e1
          · subst e1
            refine ⟨n, hn, fun _ => ⟨idx, ?_⟩⟩
            apply (encExports_itemsLe exps he).mem
            rw [emit_items]; simp
          · exact ih he e e1

/-! ### the aggregated pairs are implied requests -/

theorem aggregated_is_req {g : GraphVal} (wf : WF g) {importNodes : List Nat} {p : Str × Kind}
    (h : p ∈ g.nodes.flatMap (reqPairs g) ∨ IsExplicit g importNodes p) :
    ∃ r ∈ impliedReqs g, r.name = p.1 ∧ r.ty.kind = p.2 := by
  rcases h with h | ⟨n, _, nd, h1, h2, h3⟩
  · rw [List.mem_flatMap] at h
    obtain ⟨n, hn, hp⟩ := h
    unfold reqPairs at hp
    cases hk : n.kind with
    | instantiation slot sat =>
      simp only [hk] at hp
      cases hpk : g.pkg? slot with
      | none => simp [hpk] at hp
      | some pk =>
        simp only [hpk, List.mem_map] at hp
        obtain ⟨r, hr, rfl⟩ := hp
        rw [wf.satOk n hn slot sat pk hk hpk] at hr
        exact ⟨r, (mem_impliedReqs g r).mpr (Or.inl ⟨n, hn, slot, sat, pk, hk, hpk, hr⟩), rfl, rfl⟩
    | «import» nm => simp [hk] at hp
    | «alias» => simp [hk] at hp
    | definition => simp [hk] at hp
  · exact ⟨{ name := p.1, ty := nd.ty }, (mem_impliedReqs g _).mpr (Or.inr ⟨nd, (node?_mem h1).1, p.1, h2, rfl⟩),
      rfl, h3.symm⟩

/-! ### the import items behind the designated imports -/

theorem implicitOk_has {w : WState} {cn : Str → Str} {L : List (Str × Kind × Nat)} {R : List ImportReq}
    (h : ImplicitOk w cn L R) : ∀ r ∈ R, ∃ i, Has w r.ty.kind i (.imp (cn r.name)) := by
  induction L generalizing R with
  | nil => cases R <;> simp_all [ImplicitOk]
  | cons a L ih =>
    cases R with
    | nil => simp [ImplicitOk] at h
    | cons r0 R =>
      simp only [ImplicitOk] at h
      intro r hr
      rcases List.mem_cons.mp hr with e | e
      · subst e
        exact ⟨a.2.2, by rw [← h.1.2.1]; exact h.1.2.2⟩
      · exact ih h.2 r e

end Wac
