import WacProofs.Lemmas.DecodeFunc
/-
  C08 `decode_tree`, part 6: `module_type` and `resource` (resource identity: `ResInv` threaded
  through the cache invariant — field `res` of `Inv` says that every cached resource id is, in every
  later arena, the leaf `ρ base` of its base resource; `Cons ρ` ties `ρ` to the resource map).
-/
namespace Wac.Decode
open Wac Wac.Spec.Decode

variable {w : WTypes} {ρ : Nat → Res} {oi ow : List Nat} {c : Nat}

theorem Inv.insertInst {st : St} (h : Inv w ρ oi ow c st) (i id : Nat)
    (hv : RK w ρ oi ow c st (.instance i) (.instance id)) :
    Inv w ρ oi ow c (cacheInsert st (.any (.instance i)) (.type (.interface id))) := by
  refine ⟨h.hc, ?_, ?_, ?_, ?_, ?_, ?_, h.rm, h.inj⟩
  · intro d' v' hl
    simp only [cacheInsert, lookup_cons] at hl
    split at hl
    · rename_i heq; cases heq
    · exact h.defined _ _ hl
  · intro f' id' hl
    simp only [cacheInsert, lookup_cons] at hl
    split at hl
    · rename_i heq; cases heq
    · exact h.func _ _ hl
  · intro f' id' hl
    simp only [cacheInsert, lookup_cons] at hl
    split at hl
    · rename_i heq; cases heq; cases hl; exact hv
    · exact h.inst _ _ hl
  · intro f' id' hl
    simp only [cacheInsert, lookup_cons] at hl
    split at hl
    · rename_i heq; cases heq
    · exact h.comp _ _ hl
  · intro f' id' hl
    simp only [cacheInsert, lookup_cons] at hl
    split at hl
    · rename_i heq; cases heq
    · exact h.mod _ _ hl
  · intro f' id' hl
    simp only [cacheInsert, lookup_cons] at hl
    split at hl
    · rename_i heq; cases heq
    · exact h.res _ _ hl

theorem Inv.insertComp {st : St} (h : Inv w ρ oi ow c st) (i id : Nat)
    (hv : RK w ρ oi ow c st (.component i) (.component id)) :
    Inv w ρ oi ow c (cacheInsert st (.any (.component i)) (.type (.world id))) := by
  refine ⟨h.hc, ?_, ?_, ?_, ?_, ?_, ?_, h.rm, h.inj⟩
  · intro d' v' hl
    simp only [cacheInsert, lookup_cons] at hl
    split at hl
    · rename_i heq; cases heq
    · exact h.defined _ _ hl
  · intro f' id' hl
    simp only [cacheInsert, lookup_cons] at hl
    split at hl
    · rename_i heq; cases heq
    · exact h.func _ _ hl
  · intro f' id' hl
    simp only [cacheInsert, lookup_cons] at hl
    split at hl
    · rename_i heq; cases heq
    · exact h.inst _ _ hl
  · intro f' id' hl
    simp only [cacheInsert, lookup_cons] at hl
    split at hl
    · rename_i heq; cases heq; cases hl; exact hv
    · exact h.comp _ _ hl
  · intro f' id' hl
    simp only [cacheInsert, lookup_cons] at hl
    split at hl
    · rename_i heq; cases heq
    · exact h.mod _ _ hl
  · intro f' id' hl
    simp only [cacheInsert, lookup_cons] at hl
    split at hl
    · rename_i heq; cases heq
    · exact h.res _ _ hl

theorem Inv.insertMod {st : St} (h : Inv w ρ oi ow c st) (m id : Nat)
    (hv : ∃ mt, w.mods[m]? = some mt ∧ st.types.modules[id]? = some mt) :
    Inv w ρ oi ow c (cacheInsert st (.module m) (.type (.module id))) := by
  refine ⟨h.hc, ?_, ?_, ?_, ?_, ?_, ?_, h.rm, h.inj⟩
  · intro d' v' hl
    simp only [cacheInsert, lookup_cons] at hl
    split at hl
    · rename_i heq; cases heq
    · exact h.defined _ _ hl
  · intro f' id' hl
    simp only [cacheInsert, lookup_cons] at hl
    split at hl
    · rename_i heq; cases heq
    · exact h.func _ _ hl
  · intro f' id' hl
    simp only [cacheInsert, lookup_cons] at hl
    split at hl
    · rename_i heq; cases heq
    · exact h.inst _ _ hl
  · intro f' id' hl
    simp only [cacheInsert, lookup_cons] at hl
    split at hl
    · rename_i heq; cases heq
    · exact h.comp _ _ hl
  · intro f' id' hl
    simp only [cacheInsert, lookup_cons] at hl
    split at hl
    · rename_i heq; cases heq; cases hl; exact hv
    · exact h.mod _ _ hl
  · intro f' id' hl
    simp only [cacheInsert, lookup_cons] at hl
    split at hl
    · rename_i heq; cases heq
    · exact h.res _ _ hl

theorem Inv.insertRes {st : St} (h : Inv w ρ oi ow c st) (r id : Nat)
    (hv : ∃ e, w.res[r]? = some e ∧ HL oi ow st.types id (ρ e.base)) :
    Inv w ρ oi ow c (cacheInsert st (.any (.res r)) (.resource id)) := by
  refine ⟨h.hc, ?_, ?_, ?_, ?_, ?_, ?_, h.rm, h.inj⟩
  · intro d' v' hl
    simp only [cacheInsert, lookup_cons] at hl
    split at hl
    · rename_i heq; cases heq
    · exact h.defined _ _ hl
  · intro f' id' hl
    simp only [cacheInsert, lookup_cons] at hl
    split at hl
    · rename_i heq; cases heq
    · exact h.func _ _ hl
  · intro f' id' hl
    simp only [cacheInsert, lookup_cons] at hl
    split at hl
    · rename_i heq; cases heq
    · exact h.inst _ _ hl
  · intro f' id' hl
    simp only [cacheInsert, lookup_cons] at hl
    split at hl
    · rename_i heq; cases heq
    · exact h.comp _ _ hl
  · intro f' id' hl
    simp only [cacheInsert, lookup_cons] at hl
    split at hl
    · rename_i heq; cases heq
    · exact h.mod _ _ hl
  · intro f' id' hl
    simp only [cacheInsert, lookup_cons] at hl
    split at hl
    · rename_i heq; cases heq; cases hl; exact hv
    · exact h.res _ _ hl

theorem Frame.ofAddModule (st : St) (mt : ModuleType) : Frame st (Decode.addModule st mt).1 := by
  refine ⟨⟨rfl, fun _ _ h => h, fun _ _ h => h, ?_, fun _ x h => ⟨x, h, rfl, rfl⟩,
    fun _ x _ h => ⟨x, h, rfl⟩, fun _ x _ h => ⟨x, h, rfl, rfl⟩⟩, ?_, fun _ _ h => h⟩
  · intro i x h
    exact getElem?_append_lt' _ _ _ _ h
  · simp [Decode.addModule, Types.size]

theorem Frame.ofAddResource (st : St) (x : Resource) : Frame st (Decode.addResource st x).1 := by
  refine ⟨⟨rfl, fun _ _ h => h, fun _ _ h => h, fun _ _ h => h, ?_,
    fun _ x _ h => ⟨x, h, rfl⟩, fun _ x _ h => ⟨x, h, rfl, rfl⟩⟩, ?_, fun _ _ h => h⟩
  · intro i y h
    exact ⟨y, getElem?_append_lt' _ _ _ _ h, rfl, rfl⟩
  · simp [Decode.addResource, Types.size]

/-- the converted module type is the validator's -/
def RM (w : WTypes) (st : St) (m id : Nat) : Prop :=
  ∃ mt, w.mods[m]? = some mt ∧ st.types.modules[id]? = some mt

theorem RM_stable : Stable (RM w) := by
  intro st st' m id hf h
  obtain ⟨mt, h1, h2⟩ := h
  exact ⟨mt, h1, hf.ext.modules _ _ h2⟩

theorem moduleType_good : Good (Inv w ρ oi ow c) (moduleType w) (RM w) := by
  intro st m st' id h
  unfold moduleType at h
  split at h
  · rename_i id0 hl
    cases h
    exact ⟨Frame.refl _, fun hP => ⟨hP, hP.mod m _ hl⟩⟩
  · cases h
  · split at h
    · cases h
    · rename_i mt hmt
      simp only at h
      cases h
      have hfr : Frame st (Decode.addModule st mt).1 := Frame.ofAddModule st mt
      refine ⟨⟨hfr.ext, hfr.size, hfr.rmap⟩, fun hP => ?_⟩
      have hinv1 : Inv w ρ oi ow c (Decode.addModule st mt).1 := hP.step hfr rfl rfl
      have hrm : RM w (Decode.addModule st mt).1 m st.types.modules.length :=
        ⟨mt, hmt, by simp [Decode.addModule]⟩
      exact ⟨hinv1.insertMod m _ hrm, hrm⟩

/-- `id` is the conversion of the validator's resource id `r` -/
def RL (w : WTypes) (ρ : Nat → Res) (oi ow : List Nat) (st : St) (r id : Nat) : Prop :=
  ∃ e, w.res[r]? = some e ∧ HL oi ow st.types id (ρ e.base)

theorem RL_stable : Stable (RL w ρ oi ow) := by
  intro st st' r id hf h
  obtain ⟨e, h1, h2⟩ := h
  exact ⟨e, h1, h2.mono hf.ext.of_nil⟩

/-- a root resource is its own leaf in every extension -/
theorem resLeaf_root {T' : Types} {s : Nat} {x : Resource} (hx : T'.resources[s]? = some x)
    (ha : x.alias = none) : T'.resLeaf s = some ⟨T'.uid, s, x.name⟩ := by
  simp [Types.resLeaf, Types.resolveResource, hx, ha]

/-- an alias of a root resource is the leaf of the root -/
theorem resLeaf_alias {T' : Types} {id s : Nat} {y x : Resource} {a : ResourceAlias}
    (hy : T'.resources[id]? = some y) (hya : y.alias = some a) (hsrc : a.source = s)
    (hx : T'.resources[s]? = some x) (ha : x.alias = none) :
    T'.resLeaf id = some ⟨T'.uid, s, x.name⟩ := by
  have hlen : 0 < T'.resources.length := by have := getElem?_lt_of_some hy; omega
  obtain ⟨n, hn⟩ : ∃ n, T'.resources.length = n + 1 := ⟨T'.resources.length - 1, by omega⟩
  simp [Types.resLeaf, Types.resolveResource, hy, hya, hsrc, hx, ha, hn]

/-- **`TypeConverter::resource` keeps the invariant** and returns an id that is, in every later
arena, the leaf of its base resource (given that `ρ` agrees with the resource map afterwards). -/
theorem resource_ok {st st' : St} {name : Str} {r id : Nat}
    (h : resource w st name r = .ok (st', id)) :
    Frame st st' ∧ (Inv w ρ oi ow c st → Cons ρ st' → Inv w ρ oi ow c st' ∧ RL w ρ oi ow st' r id) := by
  unfold resource at h
  split at h
  · rename_i id0 hl
    cases h
    exact ⟨Frame.refl _, fun hP _ => ⟨hP, hP.res r _ hl⟩⟩
  · cases h
  · split at h
    · cases h
    · rename_i e he
      split at h
      · -- alias of a known base resource
        rename_i src hsrc
        simp only at h
        cases h
        generalize hx0 : ({ name := name, alias := some { owner := _, source := src } } : Resource) = x0 at *
        have hfr : Frame st (Decode.addResource st x0).1 := Frame.ofAddResource st x0
        refine ⟨⟨hfr.ext, hfr.size, hfr.rmap⟩, fun hP hcons => ?_⟩
        have hinv1 : Inv w ρ oi ow c (Decode.addResource st x0).1 := hP.step hfr rfl rfl
        obtain ⟨root, hroot, hrootA⟩ := hP.rm _ _ hsrc
        have hρ := hcons e.base src root hsrc (by
          show (st.types.resources ++ [x0])[src]? = some root
          rw [List.getElem?_append_left (getElem?_lt_of_some hroot)]; exact hroot)
        have hrl : RL w ρ oi ow (Decode.addResource st x0).1 r st.types.resources.length := by
          refine ⟨e, he, ?_⟩
          intro T' he'
          obtain ⟨y, hy, _, hya⟩ := he'.resources st.types.resources.length x0 (by simp [Decode.addResource])
          obtain ⟨x, hx, hxn, hxa⟩ := (hfr.ext.of_nil.trans he').resources src root hroot
          rw [hrootA] at hxa
          have hxa' : x.alias = none := by simpa using hxa
          rw [← hx0] at hya
          simp only [Option.map_some] at hya
          cases hya' : y.alias with
          | none => rw [hya'] at hya; cases hya
          | some a =>
            rw [hya'] at hya
            simp only [Option.map_some, Option.some.injEq] at hya
            rw [resLeaf_alias hy hya' hya hx hxa', hρ, hxn, he'.uid]
            rfl
        exact ⟨hinv1.insertRes r _ hrl, hrl⟩
      · -- a new base resource
        rename_i hnone
        simp only at h
        cases h
        let x0 : Resource := { name := name, alias := none }
        have hfr : Frame st (Decode.addResource st x0).1 := Frame.ofAddResource st x0
        let st1 : St := { (Decode.addResource st x0).1 with
          resourceMap := (e.base, st.types.resources.length) :: st.resourceMap }
        have hfr1 : Frame st st1 := by
          refine ⟨hfr.ext, hfr.size, ?_⟩
          intro b s hb
          show lookup ((e.base, st.types.resources.length) :: st.resourceMap) b = some s
          rw [lookup_cons]
          split
          · rename_i heq; subst heq; rw [hnone] at hb; cases hb
          · exact hb
        refine ⟨⟨hfr1.ext, hfr1.size, hfr1.rmap⟩, fun hP hcons => ?_⟩
        have hinv1 : Inv w ρ oi ow c (Decode.addResource st x0).1 := hP.step hfr rfl rfl
        have hinv2 : Inv w ρ oi ow c st1 := by
          refine ⟨hinv1.hc, hinv1.defined, hinv1.func, hinv1.inst, hinv1.comp, hinv1.mod, hinv1.res, ?_, ?_⟩
          rotate_left
          · intro b b' s hb hb'
            have hb1 : lookup ((e.base, st.types.resources.length) :: st.resourceMap) b = some s := hb
            have hb2 : lookup ((e.base, st.types.resources.length) :: st.resourceMap) b' = some s := hb'
            rw [lookup_cons] at hb1 hb2
            have hrange : ∀ b0 s0, lookup st.resourceMap b0 = some s0 → s0 < st.types.resources.length := by
              intro b0 s0 h0
              obtain ⟨x, hx, _⟩ := hP.rm b0 s0 h0
              exact getElem?_lt_of_some hx
            split at hb1
            · rename_i h1
              cases hb1
              split at hb2
              · rename_i h2; exact h1.symm.trans h2
              · have := hrange _ _ hb2; omega
            · split at hb2
              · cases hb2
                have := hrange _ _ hb1; omega
              · exact hP.inj b b' s hb1 hb2
          intro b s hb
          have hb' : lookup ((e.base, st.types.resources.length) :: st.resourceMap) b = some s := hb
          rw [lookup_cons] at hb'
          split at hb'
          · cases hb'
            exact ⟨x0, by simp [st1, Decode.addResource, x0], rfl⟩
          · exact hinv1.rm b s hb'
        have hρ := hcons e.base st.types.resources.length x0 (by
          show lookup ((e.base, st.types.resources.length) :: st.resourceMap) e.base = some _
          rw [lookup_cons]; simp) (by
          show (st.types.resources ++ [x0])[st.types.resources.length]? = some x0
          simp)
        have hrl : RL w ρ oi ow st1 r st.types.resources.length := by
          refine ⟨e, he, ?_⟩
          intro T' he'
          obtain ⟨y, hy, hyn, hya⟩ := he'.resources st.types.resources.length x0
            (by simp [st1, Decode.addResource])
          have hya' : y.alias = none := by simpa [x0] using hya
          rw [resLeaf_root hy hya', hρ, hyn, he'.uid]
          rfl
        exact ⟨hinv2.insertRes r _ hrl, hrl⟩

end Wac.Decode
