import WacModel.Printer
import WacModel.PrintChars
import WacProofs.Lemmas.PrinterErase
/-
  C13: the printer writes only characters of its own string literals and characters of the text
  leaves of the tree (`document_chars`); hence the printed text passes the code-point screen
  `detect_invalid_input` whenever the leaves do (`print_screen`).
-/
namespace Wac.Lemmas.PrinterChars
open Wac Wac.Ast Wac.Lex Wac.Print Wac.Lemmas.PrinterErase

/-- the characters occurring in the string literals of the printer (plus `%` and `"`) -/
def printerLiteralChars : List Char := "abcdefghijklmnopqrstuvwxyz0123456789 \n/<>_,:()-;{}=.[]%\"".toList

/-- `OutOk q p`: every character written so far satisfies `q` -/
def OutOk (q : Char → Bool) (p : PS) : Prop := ∀ c ∈ p.out, q c = true

/-- `q` accepts every literal character of the printer -/
def Lit (q : Char → Bool) : Prop := ∀ c ∈ printerLiteralChars, q c = true

/-- every character of the literal `s` is in `printerLiteralChars` -/
def litOk (s : String) : Bool := s.toList.all fun c => printerLiteralChars.contains c

variable {q : Char → Bool}

theorem OutOk.write {p : PS} {s : Str} (h : OutOk q p) (hs : ∀ c ∈ s, q c = true) : OutOk q (p.write s) := by
  intro c hc
  simp only [PS.write, List.mem_append, List.mem_reverse] at hc
  rcases hc with hc | hc
  · exact hs c hc
  · exact h c hc

theorem OutOk.writeS {p : PS} {s : String} (hlit : Lit q) (h : OutOk q p) (hs : litOk s = true) :
    OutOk q (p.writeS s) := by
  apply OutOk.write h
  intro c hc
  simp only [litOk, List.all_eq_true, List.contains_iff_mem] at hs
  exact hlit c (hs c hc)

theorem OutOk.newline {p : PS} (hlit : Lit q) (h : OutOk q p) : OutOk q p.newline := by
  intro c hc
  simp only [PS.newline, List.mem_cons] at hc
  rcases hc with hc | hc
  · subst hc; exact hlit _ (by decide)
  · exact h c hc

theorem OutOk.doIndent {p : PS} (hlit : Lit q) (h : OutOk q p) : OutOk q p.doIndent := by
  unfold PS.doIndent
  split
  · exact h
  · intro c hc
    simp only [List.mem_append, List.mem_replicate] at hc
    rcases hc with hc | hc
    · rw [hc.2]; exact hlit _ (by decide)
    · exact h c hc

theorem OutOk.inc {p : PS} (h : OutOk q p) : OutOk q p.inc := h
theorem OutOk.dec {p : PS} (h : OutOk q p) : OutOk q p.dec := h

theorem OutOk.ite {c : Prop} [Decidable c] {a b : PS} (ha : c → OutOk q a) (hb : ¬c → OutOk q b) :
    OutOk q (if c then a else b) := by
  split
  · exact ha ‹_›
  · exact hb ‹_›

/-! ### doc comments -/

theorem rustLines_go_mem : ∀ (s acc l : Str), l ∈ rustLines.go acc s → ∀ c ∈ l, c ∈ acc ∨ c ∈ s
  | [], acc, l, h, c, hc => by
    unfold rustLines.go at h
    split at h
    · simp at h
    · simp at h; subst h; left; simpa using hc
  | a :: r, acc, l, h, c, hc => by
    unfold rustLines.go at h
    split at h
    · rw [List.mem_cons] at h
      rcases h with h | h
      · subst h; left; simpa using hc
      · rcases rustLines_go_mem r [] l h c hc with h' | h'
        · simp at h'
        · right; exact List.mem_cons_of_mem _ h'
    · rcases rustLines_go_mem r (a :: acc) l h c hc with h' | h'
      · rw [List.mem_cons] at h'
        rcases h' with h' | h'
        · right; rw [h']; exact List.mem_cons_self
        · left; exact h'
      · right; exact List.mem_cons_of_mem _ h'

/-- the characters of a line of `str::lines` are characters of the text -/
theorem rustLines_mem (s l : Str) (h : l ∈ rustLines s) : ∀ c ∈ l, c ∈ s := by
  intro c hc
  unfold rustLines at h
  rw [List.mem_map] at h
  obtain ⟨l0, hl0, rfl⟩ := h
  have hc0 : c ∈ l0 := by
    split at hc
    · exact List.dropLast_subset _ hc
    · exact hc
  rcases rustLines_go_mem s [] l0 hl0 c hc0 with h' | h'
  · simp at h'
  · exact h'

theorem docLines_chars (hlit : Lit q) (ds : List DocComment) (hd : docsChars q ds = true) :
    ∀ l ∈ docLines ds, ∀ c ∈ l, q c = true := by
  intro l hl c hc
  unfold docLines at hl
  rw [List.mem_flatMap] at hl
  obtain ⟨d, hd', hl⟩ := hl
  rw [List.mem_map] at hl
  obtain ⟨l0, hl0, rfl⟩ := hl
  have hc0 := rustLines_mem _ _ hl0 c (mem_of_mem_rustTrim _ _ hc)
  simp only [docsChars, List.all_eq_true] at hd
  split at hc0
  · rw [List.mem_singleton] at hc0
    subst hc0; exact hlit _ (by decide)
  · exact hd d hd' c hc0

theorem docLine_ok (hlit : Lit q) {p : PS} (h : OutOk q p) (l : Str) (hl : ∀ c ∈ l, q c = true) :
    OutOk q (docLine p l) := by
  unfold docLine
  split
  · exact ((h.doIndent hlit).writeS hlit (by decide)).newline hlit
  · exact (((h.doIndent hlit).writeS hlit (by decide)).write hl).newline hlit

theorem docs_ok (hlit : Lit q) {p : PS} (h : OutOk q p) (ds : List DocComment) (hd : docsChars q ds = true) :
    OutOk q (Print.docs p ds) := by
  rw [docs_eq_foldl]
  have hls := docLines_chars hlit ds hd
  generalize docLines ds = ls at hls
  induction ls generalizing p with
  | nil => exact h
  | cons l r ih =>
    rw [List.foldl_cons]
    exact ih (docLine_ok hlit h l (hls l (by simp))) (fun l' hl' => hls l' (List.mem_cons_of_mem _ hl'))

/-! ### leaves -/

theorem identSrc_ok (hlit : Lit q) (i : Ident) (h : i.chars q = true) : ∀ c ∈ identSrc i, q c = true := by
  intro c hc
  simp only [Ident.chars, List.all_eq_true] at h
  unfold identSrc Ident.raw at hc
  split at hc
  · rw [List.mem_cons] at hc
    rcases hc with hc | hc
    · subst hc; exact hlit _ (by decide)
    · exact h c hc
  · exact h c hc

theorem stringSrc_ok (hlit : Lit q) (s : StringLit) (h : s.chars q = true) : ∀ c ∈ stringSrc s, q c = true := by
  intro c hc
  simp only [StringLit.chars, List.all_eq_true] at h
  simp only [stringSrc, List.mem_append, List.mem_singleton] at hc
  rcases hc with (hc | hc) | hc
  · subst hc; exact hlit _ (by decide)
  · exact h c hc
  · subst hc; exact hlit _ (by decide)

theorem packageName_ok (n : PackageName) (h : n.chars q = true) : ∀ c ∈ n.string, q c = true := by
  simpa only [PackageName.chars, List.all_eq_true] using h

theorem packagePathStr_ok (n : PackagePath) (h : n.chars q = true) : ∀ c ∈ n.string, q c = true := by
  simpa only [PackagePath.chars, List.all_eq_true] using h

/-! ### loops -/

theorem foldl_ok {α} (f : PS → α → PS) (ch : α → Bool)
    (hf : ∀ p x, OutOk q p → ch x = true → OutOk q (f p x)) :
    ∀ (xs : List α) (p : PS), OutOk q p → xs.all ch = true → OutOk q (xs.foldl f p)
  | [], p, h, _ => h
  | x :: r, p, h, hx => by
    simp only [List.all_cons, Bool.and_eq_true] at hx
    exact foldl_ok f ch hf r _ (hf p x h hx.1) hx.2

theorem foldl_pair_ok {α} (f : PS × Bool → α → PS × Bool) (ch : α → Bool)
    (hf : ∀ acc x, OutOk q acc.1 → ch x = true → OutOk q (f acc x).1) :
    ∀ (xs : List α) (acc : PS × Bool), OutOk q acc.1 → xs.all ch = true → OutOk q (xs.foldl f acc).1
  | [], p, h, _ => h
  | x :: r, p, h, hx => by
    simp only [List.all_cons, Bool.and_eq_true] at hx
    exact foldl_pair_ok f ch hf r _ (hf p x h hx.1) hx.2

theorem separated_ok {α} (hlit : Lit q) (f : PS → α → PS) (ch : α → Bool)
    (hf : ∀ p x, OutOk q p → ch x = true → OutOk q (f p x))
    (xs : List α) (p : PS) (h : OutOk q p) (hx : xs.all ch = true) : OutOk q (separated p f xs) := by
  unfold separated
  refine foldl_pair_ok _ ch ?_ xs (p, true) h hx
  intro acc x hacc hx
  refine (hf _ x ?_ hx).newline hlit
  split
  · exact hacc
  · exact hacc.newline hlit

/-! ### the traversal tactic -/

/-- one backward step for a goal `OutOk q (…)`, `∀ c ∈ …, q c = true`, `litOk … = true` -/
local syntax "outok_rule" : tactic
local macro_rules | `(tactic| outok_rule) => `(tactic| with_reducible refine OutOk.ite (fun _ => ?_) (fun _ => ?_))
local macro_rules | `(tactic| outok_rule) => `(tactic| (simp only [*]; done))
local macro_rules | `(tactic| outok_rule) => `(tactic| ((with_reducible show litOk _ = true); decide))
local macro_rules | `(tactic| outok_rule) => `(tactic| with_reducible apply OutOk.inc)
local macro_rules | `(tactic| outok_rule) => `(tactic| with_reducible apply OutOk.dec)
local macro_rules | `(tactic| outok_rule) => `(tactic| with_reducible apply OutOk.newline)
local macro_rules | `(tactic| outok_rule) => `(tactic| with_reducible apply OutOk.doIndent)
local macro_rules | `(tactic| outok_rule) => `(tactic| with_reducible apply OutOk.write)
local macro_rules | `(tactic| outok_rule) => `(tactic| with_reducible apply OutOk.writeS)
local macro_rules | `(tactic| outok_rule) => `(tactic| with_reducible apply docs_ok)
local macro_rules | `(tactic| outok_rule) => `(tactic| with_reducible apply identSrc_ok)
local macro_rules | `(tactic| outok_rule) => `(tactic| with_reducible apply stringSrc_ok)
local macro_rules | `(tactic| outok_rule) => `(tactic| with_reducible apply packageName_ok)
local macro_rules | `(tactic| outok_rule) => `(tactic| with_reducible apply packagePathStr_ok)
local macro_rules | `(tactic| outok_rule) => `(tactic| with_reducible assumption)

local macro "outok" : tactic => `(tactic| repeat' outok_rule)

theorem packagePath_ok {p : PS} (h : OutOk q p) (x : PackagePath) (hx : x.chars q = true) :
    OutOk q (Print.packagePath p x) := by
  unfold Print.packagePath
  outok
local macro_rules | `(tactic| outok_rule) => `(tactic| with_reducible apply packagePath_ok)

mutual
theorem ty_ok' (hlit : Lit q) : ∀ (t : Ty) (p : PS), OutOk q p → t.chars q = true → OutOk q (Print.ty p t)
  | .U8 _, p, h, _ | .S8 _, p, h, _ | .U16 _, p, h, _ | .S16 _, p, h, _ | .U32 _, p, h, _ | .S32 _, p, h, _
  | .U64 _, p, h, _ | .S64 _, p, h, _ | .F32 _, p, h, _ | .F64 _, p, h, _ | .Char _, p, h, _
  | .Bool _, p, h, _ | .String _, p, h, _ => by simp only [Print.ty]; outok
  | .Tuple types _, p, h, hc => by
    simp only [Ty.chars] at hc
    simp only [Print.ty]
    exact (tys_ok' hlit types _ true (by outok) hc).writeS hlit (by decide)
  | .List t _, p, h, hc => by
    simp only [Ty.chars] at hc
    simp only [Print.ty]
    exact (ty_ok' hlit t _ (by outok) hc).writeS hlit (by decide)
  | .Option t _, p, h, hc => by
    simp only [Ty.chars] at hc
    simp only [Print.ty]
    exact (ty_ok' hlit t _ (by outok) hc).writeS hlit (by decide)
  | .Result none none _, p, h, _ => by simp only [Print.ty]; outok
  | .Result none (some err) _, p, h, hc => by
    simp only [Ty.chars] at hc
    simp only [Print.ty]
    exact (ty_ok' hlit err _ (by outok) hc).writeS hlit (by decide)
  | .Result (some ok') none _, p, h, hc => by
    simp only [Ty.chars] at hc
    simp only [Print.ty]
    exact (ty_ok' hlit ok' _ (by outok) hc).writeS hlit (by decide)
  | .Result (some ok') (some err) _, p, h, hc => by
    simp only [Ty.chars, Bool.and_eq_true] at hc
    simp only [Print.ty]
    exact (ty_ok' hlit err _ ((ty_ok' hlit ok' _ (by outok) hc.1).writeS hlit (by decide)) hc.2).writeS hlit
      (by decide)
  | .Borrow id _, p, h, hc => by
    simp only [Ty.chars] at hc
    simp only [Print.ty]
    outok
  | .Ident id, p, h, hc => by
    simp only [Ty.chars] at hc
    simp only [Print.ty]
    outok
theorem tys_ok' (hlit : Lit q) : ∀ (ts : List Ty) (p : PS) (first : Bool), OutOk q p → charsTys q ts = true →
    OutOk q (Print.tys p first ts)
  | [], p, first, h, _ => by simp only [Print.tys]; exact h
  | t :: r, p, first, h, hc => by
    simp only [charsTys, Bool.and_eq_true] at hc
    simp only [Print.tys]
    exact tys_ok' hlit r _ false (ty_ok' hlit t _ (by outok) hc.1) hc.2
end

theorem ty_ok (hlit : Lit q) {p : PS} (h : OutOk q p) (t : Ty) (ht : t.chars q = true) : OutOk q (Print.ty p t) :=
  ty_ok' hlit t p h ht
local macro_rules | `(tactic| outok_rule) => `(tactic| with_reducible apply ty_ok)

theorem namedTypes_ok (hlit : Lit q) {p : PS} (h : OutOk q p) (ts : List NamedType)
    (hts : ts.all (NamedType.chars q) = true) : OutOk q (Print.namedTypes p ts) := by
  unfold Print.namedTypes
  refine foldl_pair_ok _ _ ?_ ts (p, true) h hts
  intro acc n hacc hn
  simp only [NamedType.chars, Bool.and_eq_true] at hn
  dsimp only
  outok
local macro_rules | `(tactic| outok_rule) => `(tactic| with_reducible apply namedTypes_ok)

theorem funcType_ok (hlit : Lit q) {p : PS} (h : OutOk q p) (f : FuncType) (hf : f.chars q = true) :
    OutOk q (Print.funcType p f) := by
  rcases f with ⟨params, _ | t⟩ <;> simp only [FuncType.chars, ResultList.chars, Bool.and_eq_true] at hf <;>
    simp only [Print.funcType] <;> outok
local macro_rules | `(tactic| outok_rule) => `(tactic| with_reducible apply funcType_ok)

theorem funcTypeRef_ok (hlit : Lit q) {p : PS} (h : OutOk q p) (f : FuncTypeRef) (hf : f.chars q = true) :
    OutOk q (Print.funcTypeRef p f) := by
  cases f <;> simp only [FuncTypeRef.chars] at hf <;> simp only [Print.funcTypeRef] <;> outok
local macro_rules | `(tactic| outok_rule) => `(tactic| with_reducible apply funcTypeRef_ok)

theorem constructor_ok (hlit : Lit q) {p : PS} (h : OutOk q p) (c : Constructor) (hc : c.chars q = true) :
    OutOk q (Print.constructor p c) := by
  simp only [Constructor.chars, Bool.and_eq_true] at hc
  simp only [Print.constructor]
  outok
local macro_rules | `(tactic| outok_rule) => `(tactic| with_reducible apply constructor_ok)

theorem method_ok (hlit : Lit q) {p : PS} (h : OutOk q p) (m : Method) (hm : m.chars q = true) :
    OutOk q (Print.method p m) := by
  simp only [Method.chars, Bool.and_eq_true] at hm
  simp only [Print.method]
  outok
local macro_rules | `(tactic| outok_rule) => `(tactic| with_reducible apply method_ok)

theorem resourceMethod_ok (hlit : Lit q) {p : PS} (h : OutOk q p) (m : ResourceMethod) (hm : m.chars q = true) :
    OutOk q (Print.resourceMethod p m) := by
  cases m <;> simp only [ResourceMethod.chars] at hm <;> simp only [Print.resourceMethod] <;> outok
local macro_rules | `(tactic| outok_rule) => `(tactic| with_reducible apply resourceMethod_ok)

theorem resourceDecl_ok (hlit : Lit q) {p : PS} (h : OutOk q p) (x : ResourceDecl) (hx : x.chars q = true) :
    OutOk q (Print.resourceDecl p x) := by
  simp only [ResourceDecl.chars, Bool.and_eq_true] at hx
  simp only [Print.resourceDecl]
  outok
  exact separated_ok hlit _ _ (fun _ y hp hy => resourceMethod_ok hlit hp y hy) _ _ (by outok) hx.2
local macro_rules | `(tactic| outok_rule) => `(tactic| with_reducible apply resourceDecl_ok)

theorem variantCase_ok (hlit : Lit q) {p : PS} (h : OutOk q p) (x : VariantCase) (hx : x.chars q = true) :
    OutOk q (Print.variantCase p x) := by
  rcases x with ⟨docs, id, _ | t⟩ <;> simp only [VariantCase.chars, Bool.and_eq_true] at hx <;>
    simp only [Print.variantCase] <;> outok
local macro_rules | `(tactic| outok_rule) => `(tactic| with_reducible apply variantCase_ok)

theorem variantDecl_ok (hlit : Lit q) {p : PS} (h : OutOk q p) (x : VariantDecl) (hx : x.chars q = true) :
    OutOk q (Print.variantDecl p x) := by
  simp only [VariantDecl.chars, Bool.and_eq_true] at hx
  simp only [Print.variantDecl]
  outok
  refine foldl_ok _ (VariantCase.chars q) (fun p y hp hy => ?_) _ _ (by outok) (by outok)
  outok
local macro_rules | `(tactic| outok_rule) => `(tactic| with_reducible apply variantDecl_ok)

theorem recordDecl_ok (hlit : Lit q) {p : PS} (h : OutOk q p) (x : RecordDecl) (hx : x.chars q = true) :
    OutOk q (Print.recordDecl p x) := by
  simp only [RecordDecl.chars, Bool.and_eq_true] at hx
  simp only [Print.recordDecl]
  outok
  refine foldl_ok _ (Field.chars q) (fun p y hp hy => ?_) _ _ (by outok) (by outok)
  simp only [Field.chars, Bool.and_eq_true] at hy
  outok
local macro_rules | `(tactic| outok_rule) => `(tactic| with_reducible apply recordDecl_ok)

theorem flagsDecl_ok (hlit : Lit q) {p : PS} (h : OutOk q p) (x : FlagsDecl) (hx : x.chars q = true) :
    OutOk q (Print.flagsDecl p x) := by
  simp only [FlagsDecl.chars, Bool.and_eq_true] at hx
  simp only [Print.flagsDecl]
  outok
  refine foldl_ok _ (Flag.chars q) (fun p y hp hy => ?_) _ _ (by outok) (by outok)
  simp only [Flag.chars, Bool.and_eq_true] at hy
  outok
local macro_rules | `(tactic| outok_rule) => `(tactic| with_reducible apply flagsDecl_ok)

theorem enumDecl_ok (hlit : Lit q) {p : PS} (h : OutOk q p) (x : EnumDecl) (hx : x.chars q = true) :
    OutOk q (Print.enumDecl p x) := by
  simp only [EnumDecl.chars, Bool.and_eq_true] at hx
  simp only [Print.enumDecl]
  outok
  refine foldl_ok _ (EnumCase.chars q) (fun p y hp hy => ?_) _ _ (by outok) (by outok)
  simp only [EnumCase.chars, Bool.and_eq_true] at hy
  outok
local macro_rules | `(tactic| outok_rule) => `(tactic| with_reducible apply enumDecl_ok)

theorem typeAlias_ok (hlit : Lit q) {p : PS} (h : OutOk q p) (x : TypeAlias) (hx : x.chars q = true) :
    OutOk q (Print.typeAlias p x) := by
  rcases x with ⟨docs, id, f | t⟩ <;> simp only [TypeAlias.chars, TypeAliasKind.chars, Bool.and_eq_true] at hx <;>
    simp only [Print.typeAlias] <;> outok
local macro_rules | `(tactic| outok_rule) => `(tactic| with_reducible apply typeAlias_ok)

theorem typeDecl_ok (hlit : Lit q) {p : PS} (h : OutOk q p) (x : TypeDecl) (hx : x.chars q = true) :
    OutOk q (Print.typeDecl p x) := by
  cases x <;> simp only [TypeDecl.chars] at hx <;> simp only [Print.typeDecl] <;> outok
local macro_rules | `(tactic| outok_rule) => `(tactic| with_reducible apply typeDecl_ok)

theorem itemTypeDecl_ok (hlit : Lit q) {p : PS} (h : OutOk q p) (x : ItemTypeDecl) (hx : x.chars q = true) :
    OutOk q (Print.itemTypeDecl p x) := by
  cases x <;> simp only [ItemTypeDecl.chars] at hx <;> simp only [Print.itemTypeDecl] <;> outok
local macro_rules | `(tactic| outok_rule) => `(tactic| with_reducible apply itemTypeDecl_ok)

theorem usePath_ok (hlit : Lit q) {p : PS} (h : OutOk q p) (x : UsePath) (hx : x.chars q = true) :
    OutOk q (Print.usePath p x) := by
  cases x <;> simp only [UsePath.chars] at hx <;> simp only [Print.usePath] <;> outok
local macro_rules | `(tactic| outok_rule) => `(tactic| with_reducible apply usePath_ok)

theorem useType_ok (hlit : Lit q) {p : PS} (h : OutOk q p) (x : Use) (hx : x.chars q = true) :
    OutOk q (Print.useType p x) := by
  simp only [Use.chars, Bool.and_eq_true] at hx
  simp only [Print.useType]
  outok
  refine foldl_pair_ok _ (UseItem.chars q) (fun acc item hacc hitem => ?_) _ _ (by outok) (by outok)
  rcases item with ⟨id, _ | a⟩ <;> simp only [UseItem.chars, Bool.and_eq_true] at hitem <;> dsimp only <;> outok
local macro_rules | `(tactic| outok_rule) => `(tactic| with_reducible apply useType_ok)

theorem interfaceExport_ok (hlit : Lit q) {p : PS} (h : OutOk q p) (x : InterfaceExport) (hx : x.chars q = true) :
    OutOk q (Print.interfaceExport p x) := by
  simp only [InterfaceExport.chars, Bool.and_eq_true] at hx
  simp only [Print.interfaceExport]
  outok
local macro_rules | `(tactic| outok_rule) => `(tactic| with_reducible apply interfaceExport_ok)

theorem interfaceItem_ok (hlit : Lit q) {p : PS} (h : OutOk q p) (x : InterfaceItem) (hx : x.chars q = true) :
    OutOk q (Print.interfaceItem p x) := by
  cases x <;> simp only [InterfaceItem.chars] at hx <;> simp only [Print.interfaceItem] <;> outok
local macro_rules | `(tactic| outok_rule) => `(tactic| with_reducible apply interfaceItem_ok)

theorem inlineInterface_ok (hlit : Lit q) {p : PS} (h : OutOk q p) (x : InlineInterface) (hx : x.chars q = true) :
    OutOk q (Print.inlineInterface p x) := by
  simp only [InlineInterface.chars] at hx
  simp only [Print.inlineInterface]
  outok
  exact separated_ok hlit _ _ (fun _ y hp hy => interfaceItem_ok hlit hp y hy) _ _ (by outok) hx
local macro_rules | `(tactic| outok_rule) => `(tactic| with_reducible apply inlineInterface_ok)

theorem externType_ok (hlit : Lit q) {p : PS} (h : OutOk q p) (x : ExternType) (hx : x.chars q = true) :
    OutOk q (Print.externType p x) := by
  cases x <;> simp only [ExternType.chars] at hx <;> simp only [Print.externType] <;> outok
local macro_rules | `(tactic| outok_rule) => `(tactic| with_reducible apply externType_ok)

theorem worldItemPath_ok (hlit : Lit q) {p : PS} (h : OutOk q p) (x : WorldItemPath) (hx : x.chars q = true) :
    OutOk q (Print.worldItemPath p x) := by
  cases x <;> simp only [WorldItemPath.chars, NamedWorldItem.chars, Bool.and_eq_true] at hx <;>
    simp only [Print.worldItemPath] <;> outok
local macro_rules | `(tactic| outok_rule) => `(tactic| with_reducible apply worldItemPath_ok)

theorem worldRef_ok (hlit : Lit q) {p : PS} (h : OutOk q p) (x : WorldRef) (hx : x.chars q = true) :
    OutOk q (Print.worldRef p x) := by
  cases x <;> simp only [WorldRef.chars] at hx <;> simp only [Print.worldRef] <;> outok
local macro_rules | `(tactic| outok_rule) => `(tactic| with_reducible apply worldRef_ok)

theorem worldInclude_ok (hlit : Lit q) {p : PS} (h : OutOk q p) (x : WorldInclude) (hx : x.chars q = true) :
    OutOk q (Print.worldInclude p x) := by
  simp only [WorldInclude.chars, Bool.and_eq_true] at hx
  simp only [Print.worldInclude]
  outok
  refine foldl_ok _ (WorldIncludeItem.chars q) (fun p y hp hy => ?_) _ _ (by outok) (by outok)
  simp only [WorldIncludeItem.chars, Bool.and_eq_true] at hy
  outok
local macro_rules | `(tactic| outok_rule) => `(tactic| with_reducible apply worldInclude_ok)

theorem worldItem_ok (hlit : Lit q) {p : PS} (h : OutOk q p) (x : WorldItem) (hx : x.chars q = true) :
    OutOk q (Print.worldItem p x) := by
  cases x <;> simp only [WorldItem.chars, Bool.and_eq_true] at hx <;> simp only [Print.worldItem] <;> outok
local macro_rules | `(tactic| outok_rule) => `(tactic| with_reducible apply worldItem_ok)

theorem interfaceDecl_ok (hlit : Lit q) {p : PS} (h : OutOk q p) (x : InterfaceDecl) (hx : x.chars q = true) :
    OutOk q (Print.interfaceDecl p x) := by
  simp only [InterfaceDecl.chars, Bool.and_eq_true] at hx
  simp only [Print.interfaceDecl]
  outok
  exact separated_ok hlit _ _ (fun _ y hp hy => interfaceItem_ok hlit hp y hy) _ _ (by outok) hx.2
local macro_rules | `(tactic| outok_rule) => `(tactic| with_reducible apply interfaceDecl_ok)

theorem worldDecl_ok (hlit : Lit q) {p : PS} (h : OutOk q p) (x : WorldDecl) (hx : x.chars q = true) :
    OutOk q (Print.worldDecl p x) := by
  simp only [WorldDecl.chars, Bool.and_eq_true] at hx
  simp only [Print.worldDecl]
  outok
  exact separated_ok hlit _ _ (fun _ y hp hy => worldItem_ok hlit hp y hy) _ _ (by outok) hx.2
local macro_rules | `(tactic| outok_rule) => `(tactic| with_reducible apply worldDecl_ok)

theorem typeStatement_ok (hlit : Lit q) {p : PS} (h : OutOk q p) (x : TypeStatement) (hx : x.chars q = true) :
    OutOk q (Print.typeStatement p x) := by
  cases x <;> simp only [TypeStatement.chars] at hx <;> simp only [Print.typeStatement] <;> outok
local macro_rules | `(tactic| outok_rule) => `(tactic| with_reducible apply typeStatement_ok)

theorem externNameSrc_ok (hlit : Lit q) (n : ExternName) (hn : n.chars q = true) :
    ∀ c ∈ Print.externNameSrc n, q c = true := by
  cases n <;> simp only [ExternName.chars] at hn <;> simp only [Print.externNameSrc] <;> outok
local macro_rules | `(tactic| outok_rule) => `(tactic| with_reducible apply externNameSrc_ok)

theorem importType_ok (hlit : Lit q) {p : PS} (h : OutOk q p) (x : ImportType) (hx : x.chars q = true) :
    OutOk q (Print.importType p x) := by
  cases x <;> simp only [ImportType.chars] at hx <;> simp only [Print.importType] <;> outok
local macro_rules | `(tactic| outok_rule) => `(tactic| with_reducible apply importType_ok)

theorem importStatement_ok (hlit : Lit q) {p : PS} (h : OutOk q p) (x : ImportStatement) (hx : x.chars q = true) :
    OutOk q (Print.importStatement p x) := by
  rcases x with ⟨docs, id, _ | n, ty⟩ <;> simp only [ImportStatement.chars, Bool.and_eq_true] at hx <;>
    simp only [Print.importStatement] <;> outok
local macro_rules | `(tactic| outok_rule) => `(tactic| with_reducible apply importStatement_ok)

theorem postfixExpr_ok (hlit : Lit q) {p : PS} (h : OutOk q p) (x : PostfixExpr) (hx : x.chars q = true) :
    OutOk q (Print.postfixExpr p x) := by
  cases x <;> simp only [PostfixExpr.chars] at hx <;> simp only [Print.postfixExpr] <;> outok
local macro_rules | `(tactic| outok_rule) => `(tactic| with_reducible apply postfixExpr_ok)

/-! ### expressions -/

theorem charsArgs_inferred (id : Ident) (r : List InstantiationArgument) :
    charsArgs q (.Inferred id :: r) = (id.chars q && charsArgs q r) := rfl
theorem charsArgs_spread (id : Ident) (r : List InstantiationArgument) :
    charsArgs q (.Spread id :: r) = (id.chars q && charsArgs q r) := rfl
theorem charsArgs_named (n : InstantiationArgumentName) (e : Expr) (r : List InstantiationArgument) :
    charsArgs q (.Named (.mk n e) :: r) = ((n.chars q && e.chars q) && charsArgs q r) := rfl
theorem charsArgs_fill (s : Span) (r : List InstantiationArgument) :
    charsArgs q (.Fill s :: r) = (true && charsArgs q r) := rfl
theorem exprChars_mk (s : Span) (pr : PrimaryExpr) (post : List PostfixExpr) :
    (Expr.mk s pr post).chars q = (pr.chars q && post.all (PostfixExpr.chars q)) := rfl
theorem primaryChars_new (s : Span) (pkg : PackageName) (args : List InstantiationArgument) :
    (PrimaryExpr.New (.mk s pkg args)).chars q = (pkg.chars q && charsArgs q args) := rfl
theorem primaryChars_nested (s : Span) (inner : Expr) :
    (PrimaryExpr.Nested (.mk s inner)).chars q = inner.chars q := rfl
theorem primaryChars_ident (id : Ident) : (PrimaryExpr.Ident id).chars q = id.chars q := rfl

/-- the `new` expression, given the lemma for its arguments -/
theorem primaryExpr_new_ok (hlit : Lit q) {p : PS} (h : OutOk q p) (s : Span) (pkg : PackageName)
    (args : List InstantiationArgument) (hpkg : pkg.chars q = true)
    (ih : ∀ p, OutOk q p → OutOk q (Print.exprArgs p args)) :
    OutOk q (Print.primaryExpr p (.New (.mk s pkg args))) := by
  by_cases h1 : args = []
  · subst h1
    show OutOk q ((((p.writeS "new ").write pkg.string).writeS " {").writeS "}")
    outok
  by_cases h2 : ∃ sp, args = [.Fill sp]
  · obtain ⟨sp, rfl⟩ := h2
    show OutOk q ((((p.writeS "new ").write pkg.string).writeS " {").writeS " ... }")
    outok
  rw [primaryExpr_new_big _ _ _ _ h1 (fun sp h => h2 ⟨sp, h⟩)]
  exact ((ih _ (by outok)).dec.doIndent hlit).writeS hlit (by decide)

mutual
theorem expr_ok' (hlit : Lit q) : ∀ (e : Expr) (p : PS), OutOk q p → e.chars q = true → OutOk q (Print.expr p e)
  | .mk _ primary post, p, h, hc => by
    rw [exprChars_mk, Bool.and_eq_true] at hc
    rw [expr_mk]
    exact foldl_ok _ (PostfixExpr.chars q) (fun _ y hp hy => postfixExpr_ok hlit hp y hy) post _
      (primaryExpr_ok' hlit primary p h hc.1) hc.2
theorem primaryExpr_ok' (hlit : Lit q) : ∀ (e : PrimaryExpr) (p : PS), OutOk q p → e.chars q = true →
    OutOk q (Print.primaryExpr p e)
  | .New (.mk _ pkg args), p, h, hc => by
    rw [primaryChars_new, Bool.and_eq_true] at hc
    exact primaryExpr_new_ok hlit h _ pkg args hc.1 (fun p hp => exprArgs_ok' hlit args p hp hc.2)
  | .Nested (.mk _ inner), p, h, hc => by
    rw [primaryChars_nested] at hc
    rw [Print.primaryExpr]
    exact (expr_ok' hlit inner _ (by outok) hc).writeS hlit (by decide)
  | .Ident id, p, h, hc => by
    rw [primaryChars_ident] at hc
    rw [Print.primaryExpr]
    outok
theorem exprArgs_ok' (hlit : Lit q) : ∀ (args : List InstantiationArgument) (p : PS), OutOk q p →
    charsArgs q args = true → OutOk q (Print.exprArgs p args)
  | [], p, h, _ => by rw [exprArgs_nil]; exact h
  | .Inferred id :: r, p, h, hc => by
    rw [charsArgs_inferred, Bool.and_eq_true] at hc
    rw [exprArgs_inferred]
    exact exprArgs_ok' hlit r _ (by outok) hc.2
  | .Spread id :: r, p, h, hc => by
    rw [charsArgs_spread, Bool.and_eq_true] at hc
    rw [exprArgs_spread]
    exact exprArgs_ok' hlit r _ (by outok) hc.2
  | .Named (.mk (.Ident id) e) :: r, p, h, hc => by
    rw [charsArgs_named, Bool.and_eq_true, Bool.and_eq_true, InstantiationArgumentName.chars] at hc
    rw [exprArgs_named_ident]
    exact exprArgs_ok' hlit r _ (((expr_ok' hlit e _ (by outok) hc.1.2).writeS hlit (by decide)).newline hlit) hc.2
  | .Named (.mk (.String s) e) :: r, p, h, hc => by
    rw [charsArgs_named, Bool.and_eq_true, Bool.and_eq_true, InstantiationArgumentName.chars] at hc
    rw [exprArgs_named_string]
    exact exprArgs_ok' hlit r _ (((expr_ok' hlit e _ (by outok) hc.1.2).writeS hlit (by decide)).newline hlit) hc.2
  | .Fill _ :: r, p, h, hc => by
    rw [charsArgs_fill, Bool.and_eq_true] at hc
    rw [exprArgs_fill]
    exact exprArgs_ok' hlit r _ (by outok) hc.2
end

theorem expr_ok (hlit : Lit q) {p : PS} (h : OutOk q p) (e : Expr) (he : e.chars q = true) :
    OutOk q (Print.expr p e) := expr_ok' hlit e p h he
local macro_rules | `(tactic| outok_rule) => `(tactic| with_reducible apply expr_ok)

/-! ### statements and the document -/

theorem letStatement_ok (hlit : Lit q) {p : PS} (h : OutOk q p) (x : LetStatement) (hx : x.chars q = true) :
    OutOk q (Print.letStatement p x) := by
  simp only [LetStatement.chars, Bool.and_eq_true] at hx
  simp only [Print.letStatement]
  outok
local macro_rules | `(tactic| outok_rule) => `(tactic| with_reducible apply letStatement_ok)

theorem exportStatement_ok (hlit : Lit q) {p : PS} (h : OutOk q p) (x : ExportStatement) (hx : x.chars q = true) :
    OutOk q (Print.exportStatement p x) := by
  rcases x with ⟨docs, e, _ | sp | n⟩ <;>
    simp only [ExportStatement.chars, ExportOptions.chars, Bool.and_eq_true] at hx <;>
    simp only [Print.exportStatement] <;> outok
local macro_rules | `(tactic| outok_rule) => `(tactic| with_reducible apply exportStatement_ok)

theorem statement_ok (hlit : Lit q) {p : PS} (h : OutOk q p) (x : Statement) (hx : x.chars q = true) :
    OutOk q (Print.statement p x) := by
  cases x <;> simp only [Statement.chars] at hx <;> simp only [Print.statement] <;> outok
local macro_rules | `(tactic| outok_rule) => `(tactic| with_reducible apply statement_ok)

theorem packageDirective_ok (hlit : Lit q) {p : PS} (h : OutOk q p) (x : PackageDirective)
    (hx : x.chars q = true) : OutOk q (Print.packageDirective p x) := by
  rcases x with ⟨pkg, _ | t⟩ <;> simp only [PackageDirective.chars, Bool.and_eq_true] at hx <;>
    simp only [Print.packageDirective] <;> outok
local macro_rules | `(tactic| outok_rule) => `(tactic| with_reducible apply packageDirective_ok)

/-- the printer writes only literal characters and characters of leaves -/
theorem document_chars (q : Char → Bool) (hlit : ∀ c ∈ printerLiteralChars, q c = true)
    (d : Document) (hd : d.chars q = true) : ∀ c ∈ Print.document d, q c = true := by
  have hlit' : Lit q := hlit
  simp only [Document.chars, Bool.and_eq_true] at hd
  have h0 : OutOk q ⟨[], 0, false⟩ := by intro c hc; cases hc
  have hp : OutOk q (packageDirective (docs ⟨[], 0, false⟩ d.docs) d.directive) := by outok
  have := separated_ok hlit' _ _ (fun _ y hp hy => statement_ok hlit' hp y hy) d.statements _ hp hd.2
  intro c hc
  simp only [Print.document, List.mem_reverse] at hc
  exact this c hc

/-! ### the code-point screen -/

theorem detectInvalidInput_go_none_iff : ∀ (s : Str) (pos : Nat),
    detectInvalidInput.go pos s = none ↔ ∀ c ∈ s, screenOk c = true
  | [], pos => by simp [detectInvalidInput.go]
  | c :: r, pos => by
    unfold detectInvalidInput.go
    cases hc : screenChar c with
    | some e => simp [screenOk, hc]
    | none =>
      simp only [List.mem_cons, forall_eq_or_imp, screenOk, hc, Option.isNone_none, true_and]
      exact detectInvalidInput_go_none_iff r _

theorem detectInvalidInput_none_iff (s : Str) : detectInvalidInput s = none ↔ ∀ c ∈ s, screenOk c = true :=
  detectInvalidInput_go_none_iff s 0

/-- the printed text of a tree whose leaves pass the code-point screen passes the screen -/
theorem print_screen (d : Document) (hd : d.chars screenOk = true) :
    detectInvalidInput (Print.document d) = none :=
  (detectInvalidInput_none_iff _).mpr (document_chars screenOk (by decide) d hd)

end Wac.Lemmas.PrinterChars
