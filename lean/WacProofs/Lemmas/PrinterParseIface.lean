import WacProofs.Lemmas.PrinterParseDecls
/-
  C13, interfaces: `use`, interface exports, interface items, interface declarations and inline
  interfaces.
-/
namespace Wac.Lemmas.PrinterParse
open Wac Wac.Ast Wac.Lex Wac.Parse Wac.PrintTok

/-! ### `use` -/

/-- the tokens of one `use` item -/
def useItemToks (u : UseItem) : List PTok :=
  ident u.id :: (match u.asId with | some a => [kw .AsKeyword "as", ident a] | none => [])

theorem useItems_false_eq : (us : List UseItem) →
    useItems false us = (match us with | [] => [] | _ :: _ => comma :: sepList useItemToks us)
  | [] => rfl
  | [u] => by obtain ⟨id, asId⟩ := u; cases asId <;> simp [useItems, sepList, useItemToks]
  | u :: v :: r => by
    have ih := useItems_false_eq (v :: r)
    rw [useItems, ih]; obtain ⟨id, asId⟩ := u; cases asId <;> simp [sepList, useItemToks]

theorem useItems_true_eq : (us : List UseItem) → useItems true us = sepList useItemToks us
  | [] => rfl
  | [u] => by obtain ⟨id, asId⟩ := u; cases asId <;> simp [useItems, sepList, useItemToks]
  | u :: v :: r => by
    rw [useItems, useItems_false_eq]; obtain ⟨id, asId⟩ := u; cases asId <;> simp [sepList, useItemToks]

theorem useItem_ok (u : UseItem) (hwf : u.wf = true) :
    ParsesTo parseUseItem UseItem.erase (useItemToks u) u (headIn [.Comma, .CloseBrace]) := by
  intro st rest hE hF
  obtain ⟨id, asId⟩ := u
  simp only [UseItem.wf, Bool.and_eq_true] at hwf
  simp only [useItemToks, List.cons_append] at hE
  obtain ⟨i', st1, h1, hi, hE1⟩ := parseIdent_ok hwf.1 hE rfl rfl
  cases asId with
  | none =>
    simp only [List.nil_append] at hE1
    pt_exists st1, hE1
    · simp only [parseUseItem, h1, bind_ok]
      rw [parseOptional_none _ (hE1 ▸ hF.headNot (by decide))]
      rfl
    · simp [UseItem.erase, hi]
  | some a =>
    simp only [List.cons_append, List.nil_append] at hE1
    have hE2 := E_next hE1
    obtain ⟨a', st3, h3, ha, hE3⟩ := parseIdent_ok (i := a) hwf.2 hE2 rfl rfl
    pt_exists st3, hE3
    · simp only [parseUseItem, h1, bind_ok]
      rw [parseOptional_eq _ hE1 rfl]
      simp only [h3, optMap_ok, bind_ok]
      rfl
    · simp [UseItem.erase, hi, ha]

theorem usePath_ok {p : UsePath} (hwf : p.wf = true) {st : PState} {rest : List PTok}
    (h : E st = usePath p :: rest) :
    ∃ p' st', parseUsePath st = .ok (p', st') ∧ p'.erase = p.erase ∧ E st' = rest := by
  cases p with
  | Package path =>
    obtain ⟨p', st1, h1, hp, hE1⟩ := parsePackagePath_ok (p := path) hwf h rfl rfl
    pt_exists st1, hE1
    · simp only [parseUsePath, peekTok_of_E h (k := .PackagePath) rfl, h1, bind_ok]; rfl
    · simp [UsePath.erase, hp]
  | Ident id =>
    obtain ⟨i', st1, h1, hi, hE1⟩ := parseIdent_ok (i := id) hwf h rfl rfl
    pt_exists st1, hE1
    · simp only [parseUsePath, peekTok_of_E h (k := .Ident) rfl, h1, bind_ok]; rfl
    · simp [UsePath.erase, hi]

theorem use_ok (hdocs : DocsNF) (u : Use) (hwf : u.wf = true) (fuel : Nat)
    (hf : 3 * (useType u).length ≤ fuel) :
    ParsesTo (parseUse fuel) Use.erase (useType u) u (fun _ => True) := by
  intro st rest hE _
  obtain ⟨docs, path, items⟩ := u
  simp only [Use.wf, Bool.and_eq_true, List.all_eq_true] at hwf
  simp only [useType, useItems_true_eq, List.cons_append, List.append_assoc, List.nil_append,
    List.length_cons, List.length_append, List.length_nil] at hE hf
  have hd := parseDocs_erase hdocs hE (ds := docs) rfl
  obtain ⟨t1, st1, h1, -, hE1⟩ := parseToken_ok hE (k := .UseKeyword) rfl
  obtain ⟨p', st2, h2, hp, hE2⟩ := usePath_ok hwf.1 hE1
  obtain ⟨t3, st3, h3, -, hE3⟩ := parseToken_ok hE2 (k := .Dot) rfl
  obtain ⟨t4, st4, h4, -, hE4⟩ := parseToken_ok hE3 (k := .OpenBrace) rfl
  have hlen := length_le_sepList useItemToks items (fun x _ => by simp [useItemToks])
  obtain ⟨is', st5, h5, his, hE5⟩ := parseDelimited_separated (stop := .CloseBrace) (peeks := [.Ident])
    (item := parseUseItem) (er := UseItem.erase) useItemToks (by decide) (by decide) items
    (fun x _ => headIn_cons (k := .Ident) rfl (by decide))
    (fun x hx => useItem_ok x (hwf.2 x hx)) fuel (by omega) st4 _ hE4 (headIs_cons rfl)
  obtain ⟨t6, st6, h6, -, hE6⟩ := parseToken_ok hE5 (k := .CloseBrace) rfl
  obtain ⟨t7, st7, h7, -, hE7⟩ := parseToken_ok hE6 (k := .Semicolon) rfl
  pt_exists st7, hE7
  · simp only [parseUse, h1, h2, h3, h4, h5, h6, h7, bind_ok]; rfl
  · simp [Use.erase, hd, hp, his]

theorem use_head (u : Use) : headIs .UseKeyword (useType u) := by
  simp only [useType]; exact headIs_cons rfl

/-! ### interface exports and items -/

theorem interfaceExport_ok (hdocs : DocsNF) (e : InterfaceExport) (hwf : e.wf = true) (fuel : Nat)
    (hf : 3 * (interfaceExport e).length ≤ fuel) :
    ParsesTo (parseInterfaceExport fuel) InterfaceExport.erase (interfaceExport e) e (fun _ => True) := by
  intro st rest hE _
  obtain ⟨docs, id, ty⟩ := e
  simp only [InterfaceExport.wf, Bool.and_eq_true] at hwf
  simp only [interfaceExport, List.cons_append, List.append_assoc, List.nil_append,
    List.length_cons, List.length_append, List.length_nil] at hE hf
  have hd := parseDocs_erase hdocs hE (ds := docs) rfl
  obtain ⟨i', st1, h1, hi, hE1⟩ := parseIdent_ok hwf.1 hE rfl rfl
  obtain ⟨t2, st2, h2, -, hE2⟩ := parseToken_ok hE1 (k := .Colon) rfl
  obtain ⟨r', st3, h3, hr, hE3⟩ := funcTypeRef_ok ty hwf.2 fuel (by omega) st2 _ hE2
    (headNot_cons (k := .Semicolon) rfl (by decide))
  obtain ⟨t4, st4, h4, -, hE4⟩ := parseToken_ok hE3 (k := .Semicolon) rfl
  pt_exists st4, hE4
  · simp only [parseInterfaceExport, h1, h2, h3, h4, bind_ok]; rfl
  · simp [InterfaceExport.erase, hd, hi, hr]

theorem interfaceItem_head (i : InterfaceItem) : headIn interfaceItemPeeks (interfaceItem i) := by
  cases i with
  | Use u => exact (use_head u).headIn (by decide)
  | Type' d =>
    exact (itemTypeDecl_head d).mono (fun k hk => List.mem_cons_of_mem _ (List.mem_cons_of_mem _ hk))
  | Export e =>
    simp only [interfaceItem, interfaceExport]
    exact headIn_cons (k := .Ident) rfl (by decide)

theorem interfaceItem_ok (hdocs : DocsNF) (i : InterfaceItem) (hwf : i.wf = true) (fuel : Nat)
    (hf : 3 * (interfaceItem i).length ≤ fuel) :
    ParsesTo (parseInterfaceItem fuel) InterfaceItem.erase (interfaceItem i) i (fun _ => True) := by
  intro st rest hE _
  cases i with
  | Use u =>
    simp only [interfaceItem] at hE hf
    simp only [InterfaceItem.wf] at hwf
    obtain ⟨u', st1, h1, hu, hE1⟩ := use_ok hdocs u hwf fuel hf st rest hE trivial
    have hh : headIs .UseKeyword (E st) := hE ▸ (use_head u).append _
    pt_exists st1, hE1
    · simp only [parseInterfaceItem, peekIs_true hh, if_true, h1, bind_ok]; rfl
    · simp [InterfaceItem.erase, hu]
  | Export e =>
    simp only [interfaceItem] at hE hf
    simp only [InterfaceItem.wf] at hwf
    obtain ⟨e', st1, h1, he, hE1⟩ := interfaceExport_ok hdocs e hwf fuel hf st rest hE trivial
    simp only [interfaceExport, List.cons_append] at hE
    have hh : headIs .Ident (E st) := hE ▸ headIs_cons rfl
    pt_exists st1, hE1
    · simp only [parseInterfaceItem, peekIs_false hh (k' := .UseKeyword) (by decide), peekIs_true hh,
        Bool.false_eq_true, if_false, if_true, h1, bind_ok]
      rfl
    · simp [InterfaceItem.erase, he]
  | Type' d =>
    simp only [interfaceItem] at hE hf
    simp only [InterfaceItem.wf] at hwf
    obtain ⟨d', st1, h1, hd, hE1⟩ := itemTypeDecl_ok hdocs d hwf fuel hf st rest hE trivial
    have hin : headIn itemTypeDeclPeeks (E st) := hE ▸ (itemTypeDecl_head d).append _
    pt_exists st1, hE1
    · simp only [parseInterfaceItem, peekIs_false_of_headIn hin (k' := .UseKeyword) (by decide),
        peekIs_false_of_headIn hin (k' := .Ident) (by decide), peekIn_true hin,
        Bool.false_eq_true, if_false, if_true, h1, bind_ok]
      rfl
    · simp [InterfaceItem.erase, hd]

theorem interfaceItems_ok (hdocs : DocsNF) (items : List InterfaceItem)
    (hwf : ∀ i ∈ items, i.wf = true) (fuel : Nat)
    (hf : 3 * (items.flatMap interfaceItem).length + 3 ≤ fuel) :
    ParsesTo (parseDelimited .CloseBrace false interfaceItemPeeks (parseInterfaceItem fuel) fuel)
      (List.map InterfaceItem.erase) (items.flatMap interfaceItem) items (headIs .CloseBrace) := by
  have hlen := length_le_flatMap interfaceItem items
    (fun x _ => headIn_length_pos (interfaceItem_head x))
  exact parseDelimited_plain interfaceItem (by decide) items
    (fun i _ => interfaceItem_head i)
    (fun i hi => (interfaceItem_ok hdocs i (hwf i hi) fuel (by
      have := flatMap_mem_length interfaceItem items i hi; omega)).follow (fun _ _ => trivial))
    fuel (by omega)

theorem interfaceDecl_ok (hdocs : DocsNF) (d : InterfaceDecl) (hwf : d.wf = true) (fuel : Nat)
    (hf : 3 * (interfaceDecl d).length ≤ fuel) :
    ParsesTo (parseInterfaceDecl fuel) InterfaceDecl.erase (interfaceDecl d) d (fun _ => True) := by
  intro st rest hE _
  obtain ⟨docs, id, items⟩ := d
  simp only [InterfaceDecl.wf, Bool.and_eq_true, List.all_eq_true] at hwf
  simp only [interfaceDecl, List.cons_append, List.append_assoc, List.nil_append, List.length_cons,
    List.length_append, List.length_nil] at hE hf
  have hd := parseDocs_erase hdocs hE (ds := docs) rfl
  obtain ⟨t1, st1, h1, -, hE1⟩ := parseToken_ok hE (k := .InterfaceKeyword) rfl
  obtain ⟨i', st2, h2, hi, hE2⟩ := parseIdent_ok hwf.1 hE1 rfl rfl
  obtain ⟨t3, st3, h3, -, hE3⟩ := parseToken_ok hE2 (k := .OpenBrace) rfl
  obtain ⟨is', st4, h4, his, hE4⟩ := interfaceItems_ok hdocs items hwf.2 fuel (by omega) st3 _ hE3
    (headIs_cons rfl)
  obtain ⟨t5, st5, h5, -, hE5⟩ := parseToken_ok hE4 (k := .CloseBrace) rfl
  pt_exists st5, hE5
  · simp only [parseInterfaceDecl, h1, h2, h3, h4, h5, bind_ok]; rfl
  · simp [InterfaceDecl.erase, hd, hi, his]

theorem inlineInterface_ok (hdocs : DocsNF) (i : InlineInterface) (hwf : i.wf = true) (fuel : Nat)
    (hf : 3 * (inlineInterface i).length ≤ fuel) :
    ParsesTo (parseInlineInterface fuel) InlineInterface.erase (inlineInterface i) i (fun _ => True) := by
  intro st rest hE _
  obtain ⟨items⟩ := i
  simp only [InlineInterface.wf, List.all_eq_true] at hwf
  simp only [inlineInterface, List.cons_append, List.append_assoc, List.nil_append, List.length_cons,
    List.length_append, List.length_nil] at hE hf
  obtain ⟨t1, st1, h1, -, hE1⟩ := parseToken_ok hE (k := .InterfaceKeyword) rfl
  obtain ⟨t2, st2, h2, -, hE2⟩ := parseToken_ok hE1 (k := .OpenBrace) rfl
  obtain ⟨is', st3, h3, his, hE3⟩ := interfaceItems_ok hdocs items hwf fuel (by omega) st2 _ hE2
    (headIs_cons rfl)
  obtain ⟨t4, st4, h4, -, hE4⟩ := parseToken_ok hE3 (k := .CloseBrace) rfl
  pt_exists st4, hE4
  · simp only [parseInlineInterface, h1, h2, h3, h4, bind_ok]; rfl
  · simp [InlineInterface.erase, his]

theorem inlineInterface_head (i : InlineInterface) : headIs .InterfaceKeyword (inlineInterface i) := by
  simp only [inlineInterface]; exact headIs_cons rfl

end Wac.Lemmas.PrinterParse
