import WacProofs.Lemmas.GraphInvDetach
/-
  `detachNode` (the bookkeeping of `remove_node` after the cascade) yields a `Removed` state.
-/
namespace Wac.Graph
open Wac Wac.HashSites

/-- the three map clean-ups of `remove_node` -/
def cleanupMaps (g1 : Graph) (nd : Node) (n : Nat) : Graph :=
  { g1 with
    imports := (match nd.kind with
      | .import name => alErase g1.imports name
      | _ => g1.imports)
    exports := (match nd.exp with
      | some name => dropped g1.exports name n
      | none => g1.exports)
    defined := (match nd.kind with
      | .definition ty => alErase g1.defined ty
      | _ => g1.defined) }

theorem detach_eq {g g' : Graph} {n : Nat} (h : detachNode .fixed g n = (g', none)) :
    ∃ g0 nd0 g1, clearSatEdges g (fun _ => true) (g.outEdges n) = .ok g0 ∧ g0.rawRemove n = some (nd0, g1) ∧
      g' = cleanupMaps g1 nd0 n := by
  unfold detachNode at h
  simp only [Legacy.fixed, Bool.false_eq_true, ↓reduceIte] at h
  split at h
  · simp at h
  · rename_i g0 hc
    split at h
    · simp at h
    · rename_i nd0 g1 hr
      refine ⟨g0, nd0, g1, hc, hr, ?_⟩
      split at h
      · simp at h
      · rename_i g2 h2
        split at h
        · simp at h
        · rename_i g3 h3
          split at h
          · simp at h
          · rename_i g4 h4
            simp only [Prod.mk.injEq, and_true] at h
            subst h
            -- the three clean-ups
            have e2 : g2 = { g1 with imports := (match nd0.kind with
                | .import name => alErase g1.imports name
                | _ => g1.imports) } := by
              unfold dropImport at h2
              cases hk : nd0.kind with
              | «import» name =>
                rw [hk] at h2
                simp only at h2
                split at h2
                · cases h2
                · simp only [Except.ok.injEq] at h2; exact h2.symm
              | definition ty => rw [hk] at h2; simp only [Except.ok.injEq] at h2; rw [← h2]
              | instantiation s => rw [hk] at h2; simp only [Except.ok.injEq] at h2; rw [← h2]
              | alias => rw [hk] at h2; simp only [Except.ok.injEq] at h2; rw [← h2]
            have e3 : g3 = { g2 with exports := (match nd0.exp with
                | some name => dropped g2.exports name n
                | none => g2.exports) } := by
              unfold dropExport at h3
              cases hx : nd0.exp with
              | some name =>
                rw [hx] at h3
                simp only at h3
                split at h3
                · cases h3
                · simp only [Except.ok.injEq] at h3; exact h3.symm
              | none => rw [hx] at h3; simp only [Except.ok.injEq] at h3; rw [← h3]
            have e4 : g4 = { g3 with defined := (match nd0.kind with
                | .definition ty => alErase g3.defined ty
                | _ => g3.defined) } := by
              unfold dropDefined at h4
              cases hk : nd0.kind with
              | definition ty =>
                rw [hk] at h4
                simp only at h4
                split at h4
                · cases h4
                · simp only [Except.ok.injEq] at h4; exact h4.symm
              | «import» name => rw [hk] at h4; simp only [Except.ok.injEq] at h4; rw [← h4]
              | instantiation s => rw [hk] at h4; simp only [Except.ok.injEq] at h4; rw [← h4]
              | alias => rw [hk] at h4; simp only [Except.ok.injEq] at h4; rw [← h4]
            rw [e4, e3, e2]
            rfl

/-- the outgoing argument edges of `n`, as the indices `clearSatEdges` erases at `m` -/
theorem mem_erasesFor_out {g : Graph} {n m i : Nat} :
    i ∈ erasesFor (fun _ => true) m (g.outEdges n) ↔ (⟨n, m, .arg i⟩ : Edge) ∈ g.edges := by
  rw [mem_erasesFor]
  constructor
  · rintro ⟨e, he, hk, _, hd⟩
    unfold Graph.outEdges at he
    rw [List.mem_filter] at he
    have hs : e.src = n := by simpa using he.2
    have : e = ⟨n, m, .arg i⟩ := by cases e; simp only at hs hd hk; subst hs; subst hd; subst hk; rfl
    rw [← this]; exact he.1
  · intro he
    refine ⟨⟨n, m, .arg i⟩, ?_, rfl, rfl, rfl⟩
    unfold Graph.outEdges
    rw [List.mem_filter]; exact ⟨he, by simp⟩

theorem detach_removed {ctx : Ctx} {g g' : Graph} {n : Nat} {nd : Node} (h : Inv ctx g)
    (hn : g.node? n = some nd) (hd : detachNode .fixed g n = (g', none)) : Removed g g' n nd := by
  obtain ⟨g0, nd0, g1, hc, hr, rfl⟩ := detach_eq hd
  have c := clearSatEdges_spec _ _ _ _ hc
  -- the removed slot
  unfold Graph.rawRemove at hr
  have hn0 : g0.node? n = some (setSat nd ((erasesFor (fun _ => true) n (g.outEdges n)).foldl List.erase nd.sat)) := by
    rw [c.node n, hn]; rfl
  rw [hn0] at hr
  simp only [Option.some.injEq, Prod.mk.injEq] at hr
  obtain ⟨hnd0, hg1⟩ := hr
  have hlt : n < g0.nodes.length := node?_eq_some_lt hn0
  have hnode1 : ∀ m, g1.node? m = if m = n then none else g0.node? m := by
    intro m
    exact node?_set (g := g0) (g' := g1) (by rw [← hg1]) hlt m
  have hnodeF : ∀ m, (cleanupMaps g1 nd0 n).node? m = g1.node? m := fun m => rfl
  -- kind / export name of the removed node are those of `nd`
  have hkind : ∀ name, nd0.kind = .import name ↔ nd.kind = .import name := by
    intro name; rw [← hnd0]; unfold setSat; cases hk : nd.kind <;> simp [hk]
  have hkindD : ∀ ty, nd0.kind = .definition ty ↔ nd.kind = .definition ty := by
    intro ty; rw [← hnd0]; unfold setSat; cases hk : nd.kind <;> simp [hk]
  have hexp0 : nd0.exp = nd.exp := by rw [← hnd0, setSat_exp]
  refine
    { gone := by rw [hnodeF, hnode1]; simp
      len := ?_, kept := ?_, noNew := ?_, freeNodes := ?_, edges := ?_, imports := ?_, exports := ?_,
      defined := ?_, pkgs := ?_, pkgMap := ?_, freePkgs := ?_ }
  · show g1.nodes.length = g.nodes.length
    rw [← hg1]; simp only [List.length_set]; exact c.len
  · intro m x hm hx
    refine ⟨(erasesFor (fun _ => true) m (g.outEdges n)).foldl List.erase x.sat, ?_, ?_, ?_⟩
    · rw [hnodeF, hnode1, c.node m, hx]; simp [hm]
    · have hnodup : x.sat.Nodup := by
        have := (h.node hx).2.1
        unfold Node.sat
        cases hk : x.kind with
        | instantiation s => rw [hk] at this; exact this.1
        | _ => exact List.nodup_nil
      exact (foldl_erase_spec _ _ hnodup).1
    · intro i
      have hnodup : x.sat.Nodup := by
        have := (h.node hx).2.1
        unfold Node.sat
        cases hk : x.kind with
        | instantiation s => rw [hk] at this; exact this.1
        | _ => exact List.nodup_nil
      rw [(foldl_erase_spec _ _ hnodup).2.2 i, mem_erasesFor_out]
  · intro m x' hx'
    rw [hnodeF, hnode1] at hx'
    by_cases hm : m = n
    · simp [hm] at hx'
    · simp only [hm, ↓reduceIte] at hx'
      rw [c.node m] at hx'
      cases hq : g.node? m with
      | none => rw [hq] at hx'; cases hx'
      | some x => exact ⟨hm, x, rfl⟩
  · show g1.freeNodes = n :: g.freeNodes
    rw [← hg1]; simp only; rw [c.freeNodes]
  · show g1.edges = _
    rw [← hg1]; simp only; rw [c.edges]
  · show (match nd0.kind with
      | .import name => alErase g1.imports name
      | _ => g1.imports) = _
    have hi : g1.imports = g.imports := by rw [← hg1]; exact c.imports
    rw [hi]
    cases hk : nd.kind with
    | «import» name => rw [(hkind name).mpr hk]
    | definition ty => rw [(hkindD ty).mpr hk]
    | instantiation s =>
      have : nd0.kind = .instantiation ((erasesFor (fun _ => true) n (g.outEdges n)).foldl List.erase nd.sat) := by
        rw [← hnd0]; exact setSat_kind_inst hk _
      rw [this]
    | alias =>
      have : nd0.kind = .alias := by rw [← hnd0]; unfold setSat; simp [hk]
      rw [this]
  · show (match nd0.exp with
      | some name => dropped g1.exports name n
      | none => g1.exports) = _
    have hx : g1.exports = g.exports := by rw [← hg1]; exact c.exports
    rw [hx, hexp0]
    cases nd.exp <;> rfl
  · show (match nd0.kind with
      | .definition ty => alErase g1.defined ty
      | _ => g1.defined) = _
    have hdf : g1.defined = g.defined := by rw [← hg1]; exact c.defined
    rw [hdf]
    cases hk : nd.kind with
    | «import» name => rw [(hkind name).mpr hk]
    | definition ty => rw [(hkindD ty).mpr hk]
    | instantiation s =>
      have : nd0.kind = .instantiation ((erasesFor (fun _ => true) n (g.outEdges n)).foldl List.erase nd.sat) := by
        rw [← hnd0]; exact setSat_kind_inst hk _
      rw [this]
    | alias =>
      have : nd0.kind = .alias := by rw [← hnd0]; unfold setSat; simp [hk]
      rw [this]
  · show g1.pkgs = g.pkgs
    rw [← hg1]; exact c.pkgs
  · show g1.pkgMap = g.pkgMap
    rw [← hg1]; exact c.pkgMap
  · show g1.freePkgs = g.freePkgs
    rw [← hg1]; exact c.freePkgs

end Wac.Graph
