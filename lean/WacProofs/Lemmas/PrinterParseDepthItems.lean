import WacProofs.Lemmas.PrinterParseDepthDecls
/-
  C13, nesting limit of the printed tokens: `use`, interface items, interfaces, world items,
  worlds, type statements, `import` statements.

  The preconditions `d + n ≤ 128` on the counter `d` at the start of a construct say how many
  brackets the construct may nest around a `resource r;` (printed as `resource r { }`):
  an interface item 1, an interface 2, a world item 2 (`import x: interface { resource r; }`),
  a world 3.  `include w with { }` is printed as `include w`: fewer brackets than consumed.
-/
namespace Wac.Lemmas.PrinterDepth
open Wac Wac.Ast Wac.Lex Wac.Parse Wac.PrintTok

theorem parseUsePath_post {st : PState} {d : Nat} (hd : st.depth = d) :
    Post (parseUsePath st) (fun _ st' => st'.depth = d) := by
  unfold parseUsePath
  split
  · pbind parsePackagePath_post hd => p st1 hd1
    exact Post_ok hd1
  · pbind parseIdent_post hd => p st1 hd1
    exact Post_ok hd1
  · exact Post_error

theorem parseUseItem_post {st : PState} {d : Nat} (hd : st.depth = d) :
    Post (parseUseItem st) (fun _ st' => st'.depth = d ∧ True) := by
  unfold parseUseItem
  pbind parseIdent_post hd => id st1 hd1
  refine Post_bind (parseOptional_post (P := fun (_ : Option Ident) st' => st'.depth = d) hd1 ?_) ?_
  · intro _ sa hsa
    exact parseIdent_post (parseToken_nb hd1 (by decide) _ sa hsa)
  · rintro r st2 hd2
    exact Post_ok ⟨hd2, trivial⟩

/-- the items of a `use`: no brackets at all -/
theorem Steps_useItems {d : Nat} : ∀ (items : List UseItem) (first : Bool),
    Steps d (useItems first items) d := by
  intro items
  induction items with
  | nil => intro _; exact Steps.nil
  | cons item r ih =>
    intro first
    have h2 := ih false
    unfold useItems
    cases first <;> cases item.asId <;> dsimp only <;> steps

theorem parseUse_dp (fuel : Nat) {st : PState} {d : Nat} (hd : st.depth = d) :
    Post (parseUse fuel st) (Bal d useType) := by
  unfold parseUse
  dsimp only
  pbind parseToken_nb hd => _ st1 hd1
  pbind parseUsePath_post hd1 => path st2 hd2
  pbind parseToken_nb hd2 => _ st3 hd3
  pbind parseToken_op hd3 => _ st4 ⟨hd4, htd⟩
  pbind parseDelimited_post _ _ _ (fun _ h => parseUseItem_post h) fuel hd4 => items st5 ⟨hd5, _⟩
  pbind parseToken_cl hd5 => _ st6 hd6
  pbind parseToken_nb hd6 => _ st7 hd7
  refine Post_ok ⟨hd7, ?_⟩
  have hi : Steps (d + 1) (useItems true items) (d + 1) := Steps_useItems items true
  unfold useType
  dsimp only
  steps

theorem parseInterfaceExport_dp (fuel : Nat) {st : PState} {d : Nat} (hd : st.depth = d) :
    Post (parseInterfaceExport fuel st) (Bal d interfaceExport) := by
  unfold parseInterfaceExport
  dsimp only
  pbind parseIdent_post hd => id st1 hd1
  pbind parseToken_nb hd1 => _ st2 hd2
  pbind parseFuncTypeRef_dp fuel hd2 => f st3 ⟨hd3, hf⟩
  pbind parseToken_nb hd3 => _ st4 hd4
  refine Post_ok ⟨hd4, ?_⟩
  unfold interfaceExport
  dsimp only
  steps

theorem parseInterfaceItem_dp (fuel : Nat) {st : PState} {d : Nat} (hd : st.depth = d)
    (hb : d + 1 ≤ 128) : Post (parseInterfaceItem fuel st) (Bal d interfaceItem) := by
  unfold parseInterfaceItem
  split
  · pbind parseUse_dp fuel hd => x st1 ⟨hd1, hx⟩
    exact Post_ok ⟨hd1, hx⟩
  · split
    · pbind parseInterfaceExport_dp fuel hd => x st1 ⟨hd1, hx⟩
      exact Post_ok ⟨hd1, hx⟩
    · split
      · pbind parseItemTypeDecl_dp fuel hd hb => x st1 ⟨hd1, hx⟩
        exact Post_ok ⟨hd1, hx⟩
      · exact Post_error

theorem parseInterfaceDecl_dp (fuel : Nat) {st : PState} {d : Nat} (hd : st.depth = d)
    (hb : d + 2 ≤ 128) : Post (parseInterfaceDecl fuel st) (Bal d interfaceDecl) := by
  unfold parseInterfaceDecl
  dsimp only
  pbind parseToken_nb hd => _ st1 hd1
  pbind parseIdent_post hd1 => id st2 hd2
  pbind parseToken_op hd2 => _ st3 ⟨hd3, htd⟩
  pbind parseDelimited_post _ _ _ (fun _ h => parseInterfaceItem_dp fuel h (by omega)) fuel hd3 =>
    items st4 ⟨hd4, hitems⟩
  pbind parseToken_cl hd4 => _ st5 hd5
  refine Post_ok ⟨hd5, ?_⟩
  have hi := Steps.flatMap hitems
  unfold interfaceDecl
  dsimp only
  steps

theorem parseInlineInterface_dp (fuel : Nat) {st : PState} {d : Nat} (hd : st.depth = d)
    (hb : d + 2 ≤ 128) : Post (parseInlineInterface fuel st) (Bal d inlineInterface) := by
  unfold parseInlineInterface
  pbind parseToken_nb hd => _ st1 hd1
  pbind parseToken_op hd1 => _ st3 ⟨hd3, htd⟩
  pbind parseDelimited_post _ _ _ (fun _ h => parseInterfaceItem_dp fuel h (by omega)) fuel hd3 =>
    items st4 ⟨hd4, hitems⟩
  pbind parseToken_cl hd4 => _ st5 hd5
  refine Post_ok ⟨hd5, ?_⟩
  have hi := Steps.flatMap hitems
  unfold inlineInterface
  dsimp only
  steps

theorem parseExternType_dp (fuel : Nat) {st : PState} {d : Nat} (hd : st.depth = d)
    (hb : d + 2 ≤ 128) : Post (parseExternType fuel st) (Bal d externType) := by
  unfold parseExternType
  split
  · pbind parseIdent_post hd => id st1 hd1
    refine Post_ok ⟨hd1, ?_⟩
    show Steps d [ident id] d
    steps
  · pbind parseFuncType_dp fuel hd => x st1 ⟨hd1, hx⟩
    exact Post_ok ⟨hd1, hx⟩
  · pbind parseInlineInterface_dp fuel hd hb => x st1 ⟨hd1, hx⟩
    exact Post_ok ⟨hd1, hx⟩
  · exact Post_error

theorem parseNamedWorldItem_dp (fuel : Nat) {st : PState} {d : Nat} (hd : st.depth = d)
    (hb : d + 2 ≤ 128) :
    Post (parseNamedWorldItem fuel st) (fun n st' => st'.depth = d ∧ Steps d (externType n.ty) d) := by
  unfold parseNamedWorldItem
  pbind parseIdent_post hd => id st1 hd1
  pbind parseToken_nb hd1 => _ st2 hd2
  pbind parseExternType_dp fuel hd2 hb => t st3 ⟨hd3, ht⟩
  exact Post_ok ⟨hd3, ht⟩

theorem parseWorldItemPath_dp (fuel : Nat) {st : PState} {d : Nat} (hd : st.depth = d)
    (hb : d + 2 ≤ 128) : Post (parseWorldItemPath fuel st) (Bal d worldItemPath) := by
  unfold parseWorldItemPath
  split
  · pbind parsePackagePath_post hd => p st1 hd1
    refine Post_ok ⟨hd1, ?_⟩
    show Steps d [packagePath p] d
    steps
  · split
    · pbind parseNamedWorldItem_dp fuel hd hb => n st1 ⟨hd1, hn⟩
      refine Post_ok ⟨hd1, ?_⟩
      show Steps d (ident n.id :: colon :: externType n.ty) d
      steps
    · pbind parseIdent_post hd => id st1 hd1
      refine Post_ok ⟨hd1, ?_⟩
      show Steps d [ident id] d
      steps
  · exact Post_error

theorem parseWorldImport_dp (fuel : Nat) {st : PState} {d : Nat} (hd : st.depth = d)
    (hb : d + 2 ≤ 128) :
    Post (parseWorldImport fuel st) (Bal d (fun i => worldItem (.Import i))) := by
  unfold parseWorldImport
  dsimp only
  pbind parseToken_nb hd => _ st1 hd1
  pbind parseWorldItemPath_dp fuel hd1 hb => p st2 ⟨hd2, hp⟩
  pbind parseToken_nb hd2 => _ st3 hd3
  refine Post_ok ⟨hd3, ?_⟩
  show Steps d (dkw (parseDocs st) .ImportKeyword "import" :: worldItemPath p ++ [semi]) d
  steps

theorem parseWorldExport_dp (fuel : Nat) {st : PState} {d : Nat} (hd : st.depth = d)
    (hb : d + 2 ≤ 128) :
    Post (parseWorldExport fuel st) (Bal d (fun e => worldItem (.Export e))) := by
  unfold parseWorldExport
  dsimp only
  pbind parseToken_nb hd => _ st1 hd1
  pbind parseWorldItemPath_dp fuel hd1 hb => p st2 ⟨hd2, hp⟩
  pbind parseToken_nb hd2 => _ st3 hd3
  refine Post_ok ⟨hd3, ?_⟩
  show Steps d (dkw (parseDocs st) .ExportKeyword "export" :: worldItemPath p ++ [semi]) d
  steps

theorem parseWorldRef_post {st : PState} {d : Nat} (hd : st.depth = d) :
    Post (parseWorldRef st) (fun _ st' => st'.depth = d) := by
  unfold parseWorldRef
  split
  · pbind parsePackagePath_post hd => p st1 hd1
    exact Post_ok hd1
  · pbind parseIdent_post hd => p st1 hd1
    exact Post_ok hd1
  · exact Post_error

theorem parseWorldIncludeItem_post {st : PState} {d : Nat} (hd : st.depth = d) :
    Post (parseWorldIncludeItem st) (fun _ st' => st'.depth = d ∧ True) := by
  unfold parseWorldIncludeItem
  pbind parseIdent_post hd => a st1 hd1
  pbind parseToken_nb hd1 => _ st2 hd2
  pbind parseIdent_post hd2 => b st3 hd3
  exact Post_ok ⟨hd3, trivial⟩

theorem parseWorldInclude_dp (fuel : Nat) {st : PState} {d : Nat} (hd : st.depth = d) :
    Post (parseWorldInclude fuel st) (Bal d worldInclude) := by
  unfold parseWorldInclude
  dsimp only
  pbind parseToken_nb hd => _ st1 hd1
  pbind parseWorldRef_post hd1 => w st2 hd2
  refine Post_bind (parseOptional_post (P := fun (r : Option (List WorldIncludeItem)) st' =>
      st'.depth = d ∧ (r.isSome = true → tooDeep (d + 1) = false)) ?_ ?_) ?_
  · exact ⟨hd2, fun h => by cases h⟩
  · intro _ sa hsa
    have hda := parseToken_nb hd2 (by decide) _ sa hsa
    pbind parseToken_op hda => _ sb ⟨hdb, htd⟩
    pbind parseDelimited_post _ _ _ (fun _ h => parseWorldIncludeItem_post h) fuel hdb => items sc ⟨hdc, _⟩
    pbind parseToken_cl hdc => _ sd hdd
    exact Post_ok ⟨hdd, fun _ => htd⟩
  · rintro r st3 ⟨hd3, hr⟩
    dsimp only
    pbind parseToken_nb hd3 => _ st4 hd4
    refine Post_ok ⟨hd4, ?_⟩
    unfold worldInclude
    dsimp only
    cases r with
    | none => show Steps d (_ :: _ :: [] ++ [semi]) d; steps
    | some items =>
      have htd := hr rfl
      cases items with
      | nil => show Steps d (_ :: _ :: [] ++ [semi]) d; steps
      | cons a l =>
        have hi : Steps (d + 1) ((a :: l).flatMap (fun item : WorldIncludeItem =>
            [ident item.fromId, kw .AsKeyword "as", ident item.toId, comma])) (d + 1) :=
          Steps.flatMap (fun _ _ => by steps)
        show Steps d (_ :: _ :: (kw .WithKeyword "with" :: obrace ::
          (a :: l).flatMap (fun item : WorldIncludeItem =>
            [ident item.fromId, kw .AsKeyword "as", ident item.toId, comma]) ++ [cbrace]) ++ [semi]) d
        steps

theorem parseWorldItem_dp (fuel : Nat) {st : PState} {d : Nat} (hd : st.depth = d)
    (hb : d + 2 ≤ 128) : Post (parseWorldItem fuel st) (Bal d worldItem) := by
  unfold parseWorldItem
  split
  · pbind parseUse_dp fuel hd => x st1 ⟨hd1, hx⟩
    exact Post_ok ⟨hd1, hx⟩
  · split
    · pbind parseWorldImport_dp fuel hd hb => x st1 ⟨hd1, hx⟩
      exact Post_ok ⟨hd1, hx⟩
    · split
      · pbind parseWorldExport_dp fuel hd hb => x st1 ⟨hd1, hx⟩
        exact Post_ok ⟨hd1, hx⟩
      · split
        · pbind parseWorldInclude_dp fuel hd => x st1 ⟨hd1, hx⟩
          exact Post_ok ⟨hd1, hx⟩
        · split
          · pbind parseItemTypeDecl_dp fuel hd (by omega) => x st1 ⟨hd1, hx⟩
            exact Post_ok ⟨hd1, hx⟩
          · exact Post_error

theorem parseWorldDecl_dp (fuel : Nat) {st : PState} {d : Nat} (hd : st.depth = d)
    (hb : d + 3 ≤ 128) : Post (parseWorldDecl fuel st) (Bal d worldDecl) := by
  unfold parseWorldDecl
  dsimp only
  pbind parseToken_nb hd => _ st1 hd1
  pbind parseIdent_post hd1 => id st2 hd2
  pbind parseToken_op hd2 => _ st3 ⟨hd3, htd⟩
  pbind parseDelimited_post _ _ _ (fun _ h => parseWorldItem_dp fuel h (by omega)) fuel hd3 =>
    items st4 ⟨hd4, hitems⟩
  pbind parseToken_cl hd4 => _ st5 hd5
  refine Post_ok ⟨hd5, ?_⟩
  have hi := Steps.flatMap hitems
  unfold worldDecl
  dsimp only
  steps

theorem parseTypeStatement_dp (fuel : Nat) {st : PState} {d : Nat} (hd : st.depth = d)
    (hb : d + 3 ≤ 128) : Post (parseTypeStatement fuel st) (Bal d typeStatement) := by
  unfold parseTypeStatement
  split
  · pbind parseInterfaceDecl_dp fuel hd (by omega) => x st1 ⟨hd1, hx⟩
    exact Post_ok ⟨hd1, hx⟩
  · split
    · pbind parseWorldDecl_dp fuel hd hb => x st1 ⟨hd1, hx⟩
      exact Post_ok ⟨hd1, hx⟩
    · split
      · pbind parseTypeDecl_dp fuel hd => x st1 ⟨hd1, hx⟩
        exact Post_ok ⟨hd1, hx⟩
      · exact Post_error

/-! ### `import` statements -/

theorem parseExternName_post {st : PState} {d : Nat} (hd : st.depth = d) :
    Post (parseExternName st) (fun _ st' => st'.depth = d) := by
  unfold parseExternName
  split
  · pbind parseIdent_post hd => p st1 hd1
    exact Post_ok hd1
  · pbind parseString_post hd => p st1 hd1
    exact Post_ok hd1
  · exact Post_error

theorem parseImportType_dp (fuel : Nat) {st : PState} {d : Nat} (hd : st.depth = d)
    (hb : d + 2 ≤ 128) : Post (parseImportType fuel st) (Bal d importType) := by
  unfold parseImportType
  split
  · pbind parseFuncType_dp fuel hd => x st1 ⟨hd1, hx⟩
    exact Post_ok ⟨hd1, hx⟩
  · pbind parseInlineInterface_dp fuel hd hb => x st1 ⟨hd1, hx⟩
    exact Post_ok ⟨hd1, hx⟩
  · pbind parsePackagePath_post hd => p st1 hd1
    refine Post_ok ⟨hd1, ?_⟩
    show Steps d [packagePath p] d
    steps
  · pbind parseIdent_post hd => id st1 hd1
    refine Post_ok ⟨hd1, ?_⟩
    show Steps d [ident id] d
    steps
  · exact Post_error

theorem parseImportStatement_dp (fuel : Nat) {st : PState} {d : Nat} (hd : st.depth = d)
    (hb : d + 2 ≤ 128) : Post (parseImportStatement fuel st) (Bal d importStatement) := by
  unfold parseImportStatement
  dsimp only
  pbind parseToken_nb hd => _ st1 hd1
  pbind parseIdent_post hd1 => id st2 hd2
  refine Post_bind (parseOptional_post (P := fun (_ : Option ExternName) st' => st'.depth = d) hd2 ?_) ?_
  · intro _ sa hsa
    exact parseExternName_post (parseToken_nb hd2 (by decide) _ sa hsa)
  · rintro name st3 hd3
    dsimp only
    pbind parseToken_nb hd3 => _ st4 hd4
    pbind parseImportType_dp fuel hd4 hb => t st5 ⟨hd5, ht⟩
    pbind parseToken_nb hd5 => _ st6 hd6
    refine Post_ok ⟨hd6, ?_⟩
    unfold importStatement
    dsimp only
    cases name <;> dsimp only <;> steps

end Wac.Lemmas.PrinterDepth
