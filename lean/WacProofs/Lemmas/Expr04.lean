import WacProofs.Lemmas.Sim04
/-
  C04 refinement, part 3: names of arguments, access, and the pieces of `new`.
-/
namespace Wac.Lemmas.C04
open Wac.Lang Wac.Lang.Model

/-- the argument table seen by the specification -/
def tblVals (g : Graph) (tbl : List (Str × Nat)) : List (Str × Spec.Val) :=
  tbl.map fun (n, i) => (n, valOf g i)

theorem tblVals_ext {g g' : Graph} (h : Ext g g') (tbl : List (Str × Nat)) (hb : ∀ x ∈ tbl, x.2 < g.nodes.length) :
    tblVals g' tbl = tblVals g tbl := by
  unfold tblVals
  apply List.map_congr_left
  intro x hx
  obtain ⟨n, i⟩ := x
  simp only
  rw [h.valOf i (hb _ hx)]

theorem alHas_tblVals (g : Graph) (tbl : List (Str × Nat)) (n : Str) : alHas n (tblVals g tbl) = alHas n tbl :=
  alHas_map (valOf g) n tbl

theorem tblVals_append (g : Graph) (a b : List (Str × Nat)) : tblVals g (a ++ b) = tblVals g a ++ tblVals g b := by
  unfold tblVals; simp

/-! ### local names -/

theorem alGet_mem {α} (x : Str) : ∀ (l : List (Str × α)) (a : α), alGet x l = some a → ∃ y ∈ l, y.2 = a
  | [], a, h => by simp [alGet] at h
  | (m, k) :: r, a, h => by
    simp only [alGet] at h
    by_cases hc : (m == x) = true
    · simp only [hc, ↓reduceIte, Option.some.injEq] at h
      exact ⟨(m, k), List.mem_cons_self, h⟩
    · simp only [hc, Bool.false_eq_true, ↓reduceIte] at h
      obtain ⟨y, hy, e⟩ := alGet_mem x r a h
      exact ⟨y, List.mem_cons_of_mem _ hy, e⟩

theorem lookup_sim {lib : Lib} {ms : State} {ss : Spec.St} (hs : Sim lib ms ss) (x : Str) :
    (∀ n, ms.localItem x = .ok n → Spec.lookup ss x = .ok (valOf ms.graph n) ∧ n < ms.graph.nodes.length) ∧
    (∀ d, ms.localItem x = .error d → Spec.lookup ss x = .error d) := by
  unfold State.localItem Spec.lookup
  rw [hs.env, alGet_map (valOf ms.graph) x ms.scope]
  cases hget : alGet x ms.scope with
  | none =>
    refine ⟨fun n h => (by cases h), fun d h => ?_⟩
    cases h; rfl
  | some n =>
    refine ⟨fun m hm => ?_, fun d h => (by cases h)⟩
    cases hm
    obtain ⟨y, hy, e⟩ := alGet_mem x ms.scope n hget
    exact ⟨rfl, e ▸ hs.scopeBound y hy⟩

/-! ### the name an item is known by -/

theorem externName_sim {g : Graph} (hwf : GraphWF g) (n : Nat) (hn : n < g.nodes.length) :
    Spec.externName (g.provOf n) =
      match g.getImportName n with
      | some name => some name
      | none =>
        match g.getAliasSource n with
        | some (_, name) => some name
        | none => none := by
  have hget : g.nodes[n]? = some g.nodes[n] := List.getElem?_eq_getElem hn
  have hok := hwf.nodes n _ hget
  unfold NodeOK at hok
  unfold Graph.provOf Graph.getImportName Graph.getAliasSource Graph.node?
  rw [hget]
  simp only
  cases hk : (g.nodes[n]).kind with
  | imp name =>
    rw [hk] at hok
    have : g.nodes[n] = { kind := .imp name, item := (g.nodes[n]).item, prov := .imp name } := by
      cases hnd : g.nodes[n] with
      | mk k i p => rw [hnd] at hk hok; simp at hk hok; simp [hk, hok]
    rw [this]
    rfl
  | inst pkg =>
    rw [hk] at hok
    obtain ⟨_, k, hp⟩ := hok
    cases hnd : g.nodes[n] with
    | mk kd i p =>
      rw [hnd] at hk hp
      simp only at hk hp
      subst hk; subst hp
      rfl
  | alias src idx =>
    rw [hk] at hok
    obtain ⟨_, es, name, k, h1, h2, h3, _⟩ := hok
    cases hnd : g.nodes[n] with
    | mk kd i p =>
      rw [hnd] at hk h3
      simp only at hk h3
      subst hk; subst h3
      simp only [Spec.externName, h1, h2, Option.map_some]
  | defn name =>
    rw [hk] at hok
    cases hnd : g.nodes[n] with
    | mk kd i p =>
      rw [hnd] at hk hok
      simp only at hk hok
      subst hk; subst hok
      rfl

/-! ### inferred and named argument names -/

theorem infer_chain (imports : List Str) (x : Str) (item : Nat) (oid oimp : Option Str)
    (oalias : Option (Nat × Str)) (fm : Option Str) :
    (match (match oid with
            | some id => if imports.contains id then some id else none
            | none => none : Option Str) with
     | some id => (Except.ok (id, item) : Except Diag (Str × Nat))
     | none =>
       match (match oimp with
              | some name => if imports.contains name then some name else none
              | none =>
                match oalias with
                | some (_, name) => if imports.contains name then some name else none
                | none => none : Option Str) with
       | some name => .ok (name, item)
       | none =>
         match fm with
         | some name => .ok (name, item)
         | none => .ok (x, item))
    = .ok ((match oid.filter (imports.contains ·) with
            | some p => p
            | none =>
              match (match oimp with
                     | some n => some n
                     | none =>
                       match oalias with
                       | some (_, n) => some n
                       | none => none : Option Str).filter (imports.contains ·) with
              | some n => n
              | none => fm.getD x), item) := by
  cases oid with
  | some id =>
    by_cases h1 : id ∈ imports
    · simp [Option.filter, h1]
    · cases oimp with
      | some name =>
        by_cases h2 : name ∈ imports
        · simp [Option.filter, h1, h2]
        · cases fm <;> simp [Option.filter, h1, h2]
      | none =>
        cases oalias with
        | some sn =>
          obtain ⟨s, name⟩ := sn
          by_cases h2 : name ∈ imports
          · simp [Option.filter, h1, h2]
          · cases fm <;> simp [Option.filter, h1, h2]
        | none => cases fm <;> simp [Option.filter, h1]
  | none =>
    cases oimp with
    | some name =>
      by_cases h2 : name ∈ imports
      · simp [Option.filter, h2]
      · cases fm <;> simp [Option.filter, h2]
    | none =>
      cases oalias with
      | some sn =>
        obtain ⟨s, name⟩ := sn
        by_cases h2 : name ∈ imports
        · simp [Option.filter, h2]
        · cases fm <;> simp [Option.filter, h2]
      | none => cases fm <;> simp [Option.filter]

/-- `inferred_instantiation_arg` computes the documented precedence (`Spec.inferredArgName`) -/
theorem inferred_name_sim {lib : Lib} {ms : State} {ss : Spec.St} (hs : Sim lib ms ss) (x : Str) (imports : List Str) :
    inferredInstantiationArg ms x imports =
      match ms.localItem x with
      | .error d => .error d
      | .ok item => .ok (Spec.inferredArgName x (valOf ms.graph item) imports, item) := by
  unfold inferredInstantiationArg
  cases hl : ms.localItem x with
  | error d => rfl
  | ok item =>
    simp only
    have hb := ((lookup_sim hs x).1 item hl).2
    unfold Spec.inferredArgName
    have hkind : (valOf ms.graph item).kind = ms.graph.kindOf item := rfl
    have hprov : (valOf ms.graph item).prov = ms.graph.provOf item := rfl
    rw [hkind, hprov, externName_sim hs.wf item hb, shortName_eq_model]
    exact infer_chain imports x item _ _ _ _

/-! ### evaluation steps -/

/-- an expression step of the model against the same step of the specification -/
inductive StepRel (lib : Lib) (ms : State) : Except Diag (State × Nat) → Except Diag (Spec.St × Spec.Val) → Prop
  | err (d : Diag) : StepRel lib ms (.error d) (.error d)
  | ok {ms' : State} {n : Nat} {ss' : Spec.St} {v : Spec.Val} :
      Sim lib ms' ss' → Ext ms.graph ms'.graph → n < ms'.graph.nodes.length → valOf ms'.graph n = v →
      ms'.scope = ms.scope → StepRel lib ms (.ok (ms', n)) (.ok (ss', v))

/-- what `evalExpr` does with the value of the operand of an access -/
def specPostfix (ss : Spec.St) (v : Spec.Val) (named : Bool) (id : Str) : Except Diag (Spec.St × Spec.Val) :=
  if named then Spec.attach ss (Spec.access v id)
  else
    match v.kind.instExports with
    | none => .error (.notInstance .access)
    | some es => Spec.attach ss (Spec.access v (Spec.shortName id es.names))

theorem access_via_alias {lib : Lib} {ms : State} {ss : Spec.St} (hs : Sim lib ms ss) (item : Nat)
    (hi : item < ms.graph.nodes.length) (name : Str) :
    StepRel lib ms (orMissingExport name (aliasExport ms item name .access))
      (Spec.attach ss (Spec.access (valOf ms.graph item) name)) := by
  obtain ⟨h1, h2, h3⟩ := aliasExport_sim hs item hi name .access
  unfold Spec.access
  cases hsel : Spec.select .access (valOf ms.graph item) name with
  | error d => rw [h1 d hsel]; exact .err d
  | ok o =>
    cases o with
    | none => rw [h2 hsel]; exact .err _
    | some v =>
      obtain ⟨ms', n, he, st⟩ := h3 v hsel
      rw [he]
      exact .ok st.sim st.ext st.bound st.val st.scope

/-- access expressions select the documented export -/
theorem postfix_sim {lib : Lib} {ms : State} {ss : Spec.St} (hs : Sim lib ms ss) (item : Nat)
    (hi : item < ms.graph.nodes.length) (named : Bool) (id : Str) :
    StepRel lib ms (postfixExpr ms item named id) (specPostfix ss (valOf ms.graph item) named id) := by
  unfold postfixExpr specPostfix
  cases named with
  | true => exact access_via_alias hs item hi id
  | false =>
    simp only [Bool.false_eq_true, ↓reduceIte]
    have hkind : (valOf ms.graph item).kind = ms.graph.kindOf item := rfl
    rw [hkind]
    cases hes : (ms.graph.kindOf item).instExports with
    | none => exact .err _
    | some es =>
      simp only
      rw [shortName_eq_model]
      exact access_via_alias hs item hi _

/-! ### spread arguments -/

/-- the value a spread contributes for the import `n` -/
def spreadVal (g : Graph) (item : Nat) (es : Exports) (n : Str) : Str × Spec.Val :=
  (n, { prov := .exportOf (g.provOf item) n, kind := (es.get n).getD default })

structure SpreadRes (lib : Lib) (ms ms' : State) (ss : Spec.St) (item : Nat) (es : Exports)
    (cur new : List (Str × Nat)) (names : List Str) : Prop where
  sim : Sim lib ms' ss
  ext : Ext ms.graph ms'.graph
  scope : ms'.scope = ms.scope
  packages : ms'.graph.packages = ms.graph.packages
  bound : ∀ x ∈ new, x.2 < ms'.graph.nodes.length
  vals : tblVals ms'.graph new =
    (names.filter (fun n => !alHas n cur && es.has n)).map (spreadVal ms.graph item es)

theorem spreadLoop_sim {lib : Lib} {ss : Spec.St} (item : Nat) (es : Exports) :
    ∀ (names : List Str) (ms : State) (cur : List (Str × Nat)) (spread : Bool),
      Sim lib ms ss → item < ms.graph.nodes.length → (ms.graph.kindOf item).instExports = some es →
      names.Nodup →
      ∃ ms' new, spreadLoop item ms cur spread names = .ok (ms', cur ++ new, spread || !new.isEmpty) ∧
        SpreadRes lib ms ms' ss item es cur new names
  | [], ms, cur, spread, hs, _, _, _ =>
    ⟨ms, [], by simp [spreadLoop], ⟨hs, Ext.refl _, rfl, rfl, by simp, by simp [tblVals]⟩⟩
  | name :: rest, ms, cur, spread, hs, hi, hes, hnd => by
    have hnr : name ∉ rest := (List.nodup_cons.mp hnd).1
    have hrest : rest.Nodup := (List.nodup_cons.mp hnd).2
    unfold spreadLoop
    by_cases hcur : alHas name cur = true
    · obtain ⟨ms', new, he, r⟩ := spreadLoop_sim item es rest ms cur spread hs hi hes hrest
      refine ⟨ms', new, by simp [hcur, he], ⟨r.sim, r.ext, r.scope, r.packages, r.bound, ?_⟩⟩
      rw [r.vals]
      simp [List.filter_cons, hcur]
    · have hcur' : alHas name cur = false := by simpa using hcur
      simp only [hcur', Bool.false_eq_true, ↓reduceIte]
      obtain ⟨h1, h2, h3⟩ := aliasExport_sim hs item hi name .spread
      have hsel : Spec.select .spread (valOf ms.graph item) name =
          match es.get name with
          | none => .ok none
          | some k => .ok (some { prov := .exportOf (ms.graph.provOf item) name, kind := k }) := by
        unfold Spec.select
        have hkind : (valOf ms.graph item).kind = ms.graph.kindOf item := rfl
        rw [hkind, hes]
        rfl
      cases hget : es.get name with
      | none =>
        rw [hget] at hsel
        rw [h2 hsel]
        simp only
        obtain ⟨ms', new, he, r⟩ := spreadLoop_sim item es rest ms cur spread hs hi hes hrest
        refine ⟨ms', new, he, ⟨r.sim, r.ext, r.scope, r.packages, r.bound, ?_⟩⟩
        rw [r.vals]
        have : es.has name = false := by simp [Exports.has, hget]
        simp [List.filter_cons, this]
      | some k =>
        rw [hget] at hsel
        obtain ⟨ms1, n, he1, st⟩ := h3 _ hsel
        rw [he1]
        simp only
        have hi1 : item < ms1.graph.nodes.length := Nat.lt_of_lt_of_le hi st.ext.length_le
        have hes1 : (ms1.graph.kindOf item).instExports = some es := by rw [st.ext.kindOf item hi]; exact hes
        obtain ⟨ms', new, he, r⟩ :=
          spreadLoop_sim item es rest ms1 (cur ++ [(name, n)]) true st.sim hi1 hes1 hrest
        refine ⟨ms', (name, n) :: new, ?_, ⟨r.sim, st.ext.trans r.ext, r.scope.trans st.scope,
          r.packages.trans st.packages, ?_, ?_⟩⟩
        · rw [he]; simp
        · intro x hx
          rcases List.mem_cons.mp hx with rfl | hx
          · exact Nat.lt_of_lt_of_le st.bound r.ext.length_le
          · exact r.bound x hx
        · have hhas : es.has name = true := by simp [Exports.has, hget]
          have hv : valOf ms'.graph n = { prov := .exportOf (ms.graph.provOf item) name, kind := k } := by
            rw [r.ext.valOf n st.bound]; exact st.val
          have hfilter : rest.filter (fun n' => !alHas n' (cur ++ [(name, n)]) && es.has n') =
              rest.filter (fun n' => !alHas n' cur && es.has n') := by
            apply List.filter_congr
            intro n' hn'
            have hne : (name == n') = false := by
              have : name ≠ n' := fun e => hnr (e ▸ hn')
              simpa using this
            rw [alHas_append]
            simp [alHas, alGet, hne]
          simp only [tblVals, List.map_cons] at r ⊢
          have hvals := r.vals
          simp only [tblVals] at hvals
          rw [hvals, hfilter]
          simp only [List.filter_cons, hcur', hhas, Bool.not_false, Bool.and_self, ↓reduceIte, List.map_cons]
          congr 1
          · simp [spreadVal, hv, hget]
          · apply List.map_congr_left
            intro n' _
            simp [spreadVal, st.ext.provOf item hi]

theorem isInstance_iff (k : Kind) : k.isInstance = true ↔ ∃ es, k.instExports = some es := by
  cases k <;> simp [Kind.isInstance, Kind.instExports]

/-- an argument-table step of the model against the specification's -/
inductive TblRel (lib : Lib) (ms : State) (ss : Spec.St) :
    Except Diag (State × List (Str × Nat)) → Except Diag (List (Str × Spec.Val)) → Prop
  | err (d : Diag) : TblRel lib ms ss (.error d) (.error d)
  | ok {ms' : State} {tbl' : List (Str × Nat)} :
      Sim lib ms' ss → Ext ms.graph ms'.graph → ms'.scope = ms.scope → ms'.graph.packages = ms.graph.packages →
      (∀ x ∈ tbl', x.2 < ms'.graph.nodes.length) → (tbl'.map (·.1)).Nodup →
      TblRel lib ms ss (.ok (ms', tbl')) (.ok (tblVals ms'.graph tbl'))

theorem tblVals_keys (g : Graph) (tbl : List (Str × Nat)) : (tblVals g tbl).map (·.1) = tbl.map (·.1) := by
  unfold tblVals
  rw [List.map_map]
  apply List.map_congr_left
  intro x _
  rfl

/-- one spread argument: "spread to any unspecified and unsatisfied arguments", error if it
    contributes nothing or is not an instance -/
theorem spreadArg_sim {lib : Lib} {ms : State} {ss : Spec.St} (hs : Sim lib ms ss) (x : Str)
    (expected : List Str) (hnd : expected.Nodup) (tbl : List (Str × Nat))
    (hb : ∀ y ∈ tbl, y.2 < ms.graph.nodes.length) (hk : (tbl.map (·.1)).Nodup) :
    TblRel lib ms ss (spreadInstantiationArg ms x expected tbl)
      (Spec.spreadStep ss expected x (tblVals ms.graph tbl)) := by
  unfold Spec.spreadStep
  unfold spreadInstantiationArg
  obtain ⟨l1, l2⟩ := lookup_sim hs x
  cases hl : ms.localItem x with
  | error d => rw [l2 d hl]; exact .err d
  | ok item =>
    obtain ⟨hlook, hi⟩ := l1 item hl
    rw [hlook]
    simp only
    have hkind : (valOf ms.graph item).kind = ms.graph.kindOf item := rfl
    rw [hkind]
    cases hes : (ms.graph.kindOf item).instExports with
    | none =>
      have : (ms.graph.kindOf item).isInstance = false := by
        cases hh : (ms.graph.kindOf item).isInstance with
        | false => rfl
        | true => obtain ⟨es, he⟩ := (isInstance_iff _).mp hh; rw [he] at hes; cases hes
      simp only [this, Bool.not_false, ↓reduceIte]
      exact .err _
    | some es =>
      have hinst : (ms.graph.kindOf item).isInstance = true := (isInstance_iff _).mpr ⟨es, hes⟩
      simp only [hinst, Bool.not_true, Bool.false_eq_true, ↓reduceIte]
      obtain ⟨ms', new, he, r⟩ := spreadLoop_sim (lib := lib) (ss := ss) item es expected ms tbl false hs hi hes hnd
      rw [he]
      simp only [Bool.false_or]
      have hfil : expected.filter (fun n => !alHas n (tblVals ms.graph tbl) && es.has n) =
          expected.filter (fun n => !alHas n tbl && es.has n) := by
        apply List.filter_congr
        intro n _
        rw [alHas_tblVals]
      rw [hfil]
      have hlen : new.length = (expected.filter (fun n => !alHas n tbl && es.has n)).length := by
        have := congrArg List.length r.vals
        simpa [tblVals] using this
      by_cases hemp : new.isEmpty = true
      · have hnew : new = [] := by simpa using hemp
        have hc : (expected.filter (fun n => !alHas n tbl && es.has n)).isEmpty = true := by
          rw [hnew] at hlen
          simpa using hlen.symm
        simp only [hemp, Bool.not_true, Bool.not_false, ↓reduceIte, hc]
        exact .err _
      · have hemp' : new.isEmpty = false := by simpa using hemp
        have hc : (expected.filter (fun n => !alHas n tbl && es.has n)).isEmpty = false := by
          cases hh : (expected.filter (fun n => !alHas n tbl && es.has n)).isEmpty with
          | false => rfl
          | true =>
            have : expected.filter (fun n => !alHas n tbl && es.has n) = [] := by simpa using hh
            rw [this] at hlen
            have : new = [] := by simpa using hlen
            rw [this] at hemp'; cases hemp'
        simp only [hemp', Bool.not_false, Bool.not_true, Bool.false_eq_true, ↓reduceIte, hc]
        have hvals : tblVals ms.graph tbl ++ (expected.filter (fun n => !alHas n tbl && es.has n)).map (fun n =>
            (n, ({ prov := .exportOf (valOf ms.graph item).prov n, kind := (es.get n).getD default } : Spec.Val)))
            = tblVals ms'.graph (tbl ++ new) := by
          rw [tblVals_append, tblVals_ext r.ext tbl hb, r.vals]
          rfl
        rw [hvals]
        refine .ok r.sim r.ext r.scope r.packages ?_ ?_
        · intro y hy
          rcases List.mem_append.mp hy with hy | hy
          · exact Nat.lt_of_lt_of_le (hb y hy) r.ext.length_le
          · exact r.bound y hy
        · -- the new keys are names that were not in the table, each once
          have hkeys : new.map (·.1) = expected.filter (fun n => !alHas n tbl && es.has n) := by
            have := congrArg (List.map (·.1)) r.vals
            rw [tblVals_keys] at this
            rw [this, List.map_map]
            simp [spreadVal, Function.comp_def]
          rw [List.map_append, List.nodup_append]
          refine ⟨hk, ?_, ?_⟩
          · rw [hkeys]; exact hnd.sublist List.filter_sublist
          · intro a ha b hb' e
            subst e
            rw [hkeys] at hb'
            have := (List.mem_filter.mp hb').2
            have hin : alHas a tbl = true := (alHas_iff_mem_keys a tbl).mpr ha
            simp [hin] at this

theorem TblRel.weaken {lib : Lib} {ms ms1 : State} {ss : Spec.St} (he : Ext ms.graph ms1.graph)
    (hsc : ms1.scope = ms.scope) (hp : ms1.graph.packages = ms.graph.packages)
    {a : Except Diag (State × List (Str × Nat))} {b : Except Diag (List (Str × Spec.Val))}
    (h : TblRel lib ms1 ss a b) : TblRel lib ms ss a b := by
  cases h with
  | err d => exact .err d
  | ok s e sc pk bd nd => exact .ok s (he.trans e) (sc.trans hsc) (pk.trans hp) bd nd

/-- the spread arguments of a `new`, applied in order after the explicit arguments -/
theorem spreads_sim {lib : Lib} {ss : Spec.St} (expected : List Str) (hnd : expected.Nodup) :
    ∀ (args : Args) (ms : State) (tbl : List (Str × Nat)), Sim lib ms ss →
      (∀ y ∈ tbl, y.2 < ms.graph.nodes.length) → (tbl.map (·.1)).Nodup →
      TblRel lib ms ss (newExprSpreads expected ms tbl args)
        (Spec.applySpreads ss expected (Spec.spreadNames args) (tblVals ms.graph tbl))
  | .nil, ms, tbl, hs, hb, hk => by
    simp only [newExprSpreads, Spec.spreadNames, Spec.applySpreads]
    exact .ok hs (Ext.refl _) rfl rfl hb hk
  | .cons (.spread x) rest, ms, tbl, hs, hb, hk => by
    simp only [newExprSpreads, Spec.spreadNames, Spec.applySpreads]
    have h := spreadArg_sim hs x expected hnd tbl hb hk
    generalize spreadInstantiationArg ms x expected tbl = a at h
    generalize Spec.spreadStep ss expected x (tblVals ms.graph tbl) = b at h
    cases h with
    | err d => exact .err d
    | ok s e sc pk bd nd =>
      simp only
      exact TblRel.weaken e sc pk (spreads_sim expected hnd rest _ _ s bd nd)
  | .cons (.inferred _) rest, ms, tbl, hs, hb, hk => by
    simp only [newExprSpreads, Spec.spreadNames]
    exact spreads_sim expected hnd rest ms tbl hs hb hk
  | .cons (.named _ _) rest, ms, tbl, hs, hb, hk => by
    simp only [newExprSpreads, Spec.spreadNames]
    exact spreads_sim expected hnd rest ms tbl hs hb hk
  | .cons .fill rest, ms, tbl, hs, hb, hk => by
    simp only [newExprSpreads, Spec.spreadNames]
    exact spreads_sim expected hnd rest ms tbl hs hb hk

end Wac.Lemmas.C04
