import WacProofs.Lemmas.Plug5
/-
  C10, `only_offers_passed` / `plug_result_exports`: the converse of `Keeps` — what the steps of
  `plug` may ADD: argument edges into the socket instantiation come from collected pairs only,
  export-map entries from the re-export loop only.
-/
namespace Wac.Graph
open Wac Wac.HashSites

/-- what a step of `plug` may add: argument edges into `si` satisfying `newArg`, export-map
    entries satisfying `newExp`, nothing else into `si` / into the export map -/
structure Only (g g' : Graph) (si : Nat) (newArg : Edge → Prop) (newExp : Str × Nat → Prop) : Prop where
  edges : ∀ e ∈ g'.edges, e.dst = si → e ∈ g.edges ∨ newArg e
  exports : ∀ x ∈ g'.exports, x ∈ g.exports ∨ newExp x

theorem Only.refl (g : Graph) (si : Nat) (A : Edge → Prop) (X : Str × Nat → Prop) : Only g g si A X :=
  ⟨fun _ he _ => Or.inl he, fun _ hx => Or.inl hx⟩

theorem instantiate_only {ctx : Ctx} {g : Graph} (h : Inv ctx g) (id : PkgId) (si : Nat) :
    Only g (instantiate g id).1 si (fun _ => False) (fun _ => False) := by
  unfold instantiate
  split
  · exact Only.refl ..
  · rename_i d _
    have a := added_of_addNode h ⟨.instantiation [], some id, d.instKind, none, none⟩
    exact ⟨fun e he _ => Or.inl (by rw [a.edges] at he; exact he), fun x hx => Or.inl (by rw [a.exports] at hx; exact hx)⟩

theorem alias_only {ctx : Ctx} {g : Graph} (h : Inv ctx g) (inst : Nat) (ename : Str) {si : Nat}
    (hsi : ∃ x, g.node? si = some x) :
    Only g (aliasInstanceExport ctx g inst ename).1 si (fun _ => False) (fun _ => False) := by
  unfold aliasInstanceExport
  split
  · exact Only.refl ..
  · rename_i nd _
    split
    · exact Only.refl ..
    · split
      · exact Only.refl ..
      · rename_i i k _
        split
        · exact Only.refl ..
        · have a := added_of_addNode h ⟨.alias, nd.pkg, k, none, none⟩
          refine ⟨?_, fun x hx => Or.inl (by
            have : x ∈ (g.addNode ⟨.alias, nd.pkg, k, none, none⟩).1.exports := hx
            rw [a.exports] at this; exact this)⟩
          intro e he hd
          have he' : e ∈ (⟨inst, (g.addNode ⟨.alias, nd.pkg, k, none, none⟩).2, .alias i⟩ : Edge) ::
              (g.addNode ⟨.alias, nd.pkg, k, none, none⟩).1.edges := he
          rcases List.mem_cons.mp he' with rfl | he'
          · exfalso
            simp only at hd
            obtain ⟨x, hx⟩ := hsi
            rw [← hd, a.fresh] at hx
            cases hx
          · rw [a.edges] at he'; exact Or.inl he'

theorem setArg_only (ctx : Ctx) (g : Graph) (inst : Nat) (name : Str) (arg : Nat) :
    Only g (setArg ctx g inst name arg).1 inst
      (fun e => ∃ idx, e = ⟨arg, inst, .arg idx⟩ ∧ ArgIdx g inst name idx) (fun _ => False) := by
  unfold setArg
  split
  · exact Only.refl ..
  · rename_i nd hnd
    split
    · rename_i sat hk
      split
      · exact Only.refl ..
      · rename_i pid hpid
        split
        · exact Only.refl ..
        · rename_i d hd
          split
          · exact Only.refl ..
          · rename_i i k hfull
            split
            · exact Only.refl ..
            · exact Only.refl ..
            · exact Only.refl ..
            · split
              · exact Only.refl ..
              · split
                · exact Only.refl ..
                · split
                  · exact Only.refl ..
                  · refine ⟨?_, fun x hx => Or.inl hx⟩
                    intro e he _
                    have he' : e ∈ (⟨arg, inst, .arg i⟩ : Edge) :: g.edges := he
                    rcases List.mem_cons.mp he' with rfl | he'
                    · exact Or.inr ⟨i, rfl, nd, pid, d, k, hnd, hpid, hd, hfull⟩
                    · exact Or.inl he'
    · exact Only.refl ..

theorem exportNode_only (ctx : Ctx) (g : Graph) (n : Nat) (name : Str) (si : Nat) :
    Only g (exportNode ctx g n name).1 si (fun _ => False) (fun x => x = (name, n)) := by
  unfold exportNode
  split
  · exact Only.refl ..
  · rename_i hnone
    split
    · exact Only.refl ..
    · split
      · exact Only.refl ..
      · refine ⟨fun e he _ => Or.inl he, ?_⟩
        intro x hx
        have hx' : x ∈ alInsert g.exports name n := hx
        rcases (alInsert_mem hnone x).mp hx' with h1 | h1
        · exact Or.inl h1
        · exact Or.inr h1

/-! ### argument edges of the socket instantiation come from collected pairs -/

/-- the edge `e` (into `si`) passes export `pr.1` of an instantiation of `p` as import `pr.2` -/
def ArgFrom (ctx : Ctx) (g : Graph) (si : Nat) (p : PkgId) (pr : Str × Str) (e : Edge) : Prop :=
  ∃ pi j idx, InstOf g pi p ∧ AliasIdx ctx g pi pr.1 j ∧ ArgIdx g si pr.2 idx ∧
    (⟨pi, e.src, .alias j⟩ : Edge) ∈ g.edges ∧ e.kind = .arg idx

theorem ArgFrom.mono {ctx : Ctx} {g g' : Graph} {si : Nat} {p : PkgId} {pr : Str × Str} {e : Edge}
    (h : ArgFrom ctx g si p pr e) (k : Keeps g g') : ArgFrom ctx g' si p pr e := by
  obtain ⟨pi, j, idx, h1, h2, h3, h4, h5⟩ := h
  exact ⟨pi, j, idx, h1.mono k, h2.mono k, h3.mono k, k.edges _ h4, h5⟩

/-- every edge into `si` comes from a pair in `A` -/
def OnlyFrom (ctx : Ctx) (g : Graph) (si : Nat) (A : PkgId → Str × Str → Prop) : Prop :=
  ∀ e ∈ g.edges, e.dst = si → ∃ p pr, A p pr ∧ ArgFrom ctx g si p pr e

theorem OnlyFrom.step {ctx : Ctx} {g g' : Graph} {si : Nat} {A A' : PkgId → Str × Str → Prop} {N : Edge → Prop}
    (ho : OnlyFrom ctx g si A) (k : Keeps g g') (hon : ∀ e ∈ g'.edges, e.dst = si → e ∈ g.edges ∨ N e)
    (hA : ∀ p pr, A p pr → A' p pr)
    (hN : ∀ e, N e → e ∈ g'.edges → e.dst = si → ∃ p pr, A' p pr ∧ ArgFrom ctx g' si p pr e) :
    OnlyFrom ctx g' si A' := by
  intro e he hd
  rcases hon e he hd with h1 | h1
  · obtain ⟨p, pr, ha, haf⟩ := ho e h1 hd
    exact ⟨p, pr, hA p pr ha, haf.mono k⟩
  · exact hN e h1 he hd

theorem OnlyFrom.keep {ctx : Ctx} {g g' : Graph} {si : Nat} {A : PkgId → Str × Str → Prop}
    (ho : OnlyFrom ctx g si A) (k : Keeps g g') (hon : ∀ e ∈ g'.edges, e.dst = si → e ∈ g.edges ∨ False) :
    OnlyFrom ctx g' si A :=
  ho.step k hon (fun _ _ h => h) (fun _ hf => hf.elim)

theorem live_keeps {g g' : Graph} {n : Nat} (k : Keeps g g') (h : ∃ x, g.node? n = some x) : ∃ x, g'.node? n = some x := by
  obtain ⟨x, hx⟩ := h
  obtain ⟨x', hx', _⟩ := k.nodes n x hx
  exact ⟨x', hx'⟩

/-- the inner loop: the argument edges into `si` it adds come from the pairs of its list; the
    export map is untouched -/
theorem plugOne_only {ctx : Ctx} (si : Nat) (p : PkgId) : ∀ (l : List (Str × Str)) (g g' : Graph) (inst : Option Nat)
    (A : PkgId → Str × Str → Prop),
    Inv ctx g → (∃ x, g.node? si = some x) → (∀ i0, inst = some i0 → InstOf g i0 p) → OnlyFrom ctx g si A →
    plugOne ctx si p l g inst = (g', none) →
    OnlyFrom ctx g' si (fun p' pr' => A p' pr' ∨ (p' = p ∧ pr' ∈ l)) ∧ (∀ x ∈ g'.exports, x ∈ g.exports)
  | [], g, g', _, A, _, _, _, ho, hs => by
    simp only [plugOne, Prod.mk.injEq, and_true] at hs
    subst hs
    refine ⟨?_, fun _ hx => hx⟩
    intro e he hd
    obtain ⟨p', pr', ha, haf⟩ := ho e he hd
    exact ⟨p', pr', Or.inl ha, haf⟩
  | (plugName, socketName) :: rest, g, g', inst, A, h, hsi, hinst, ho, hs => by
    unfold plugOne at hs
    have key : ∀ (g1 : Graph) (i : Nat), Inv ctx g1 → (∃ x, g1.node? si = some x) → InstOf g1 i p →
        OnlyFrom ctx g1 si A → (∀ x ∈ g1.exports, x ∈ g.exports) →
        (match aliasInstanceExport ctx g1 i plugName with
          | (g2, .ok (.node a)) =>
            match setArg ctx g2 si socketName a with
            | (g3, .ok _) => plugOne ctx si p rest g3 (some i)
            | (g3, .err e) => (g3, some (.graphError e))
            | (g3, .panic s) => (g3, some (.panic s))
          | (g2, .err e) => (g2, some (.graphError e))
          | (g2, .panic s) => (g2, some (.panic s))
          | (g2, .ok _) => (g2, some (.panic .invalidNodeId))) = (g', none) →
        OnlyFrom ctx g' si (fun p' pr' => A p' pr' ∨ (p' = p ∧ pr' ∈ (plugName, socketName) :: rest)) ∧
          (∀ x ∈ g'.exports, x ∈ g.exports) := by
      intro g1 i h1 hsi1 hio ho1 hx1 hs1
      have ka := alias_keeps h1 i plugName
      have oa' := alias_only h1 i plugName hsi1
      cases ha : aliasInstanceExport ctx g1 i plugName with
      | mk g2 oa =>
        have h2 : Inv ctx g2 := inv_aliasInstanceExport h1 ha
        rw [ha] at hs1 ka oa'
        simp only at ka oa'
        cases oa with
        | err e => simp at hs1
        | panic s => simp at hs1
        | ok v =>
          cases v with
          | unit => simp at hs1
          | pkg id => simp at hs1
          | node a =>
            simp only at hs1
            obtain ⟨nd, exps, j, kk, hnd, hexps, hfull, hedge⟩ := ka.2 a rfl
            have hai : AliasIdx ctx g1 i plugName j := ⟨nd, exps, kk, hnd, hexps, hfull⟩
            have ho2 : OnlyFrom ctx g2 si A := ho1.keep ka.1 oa'.edges
            have hsi2 := live_keeps ka.1 hsi1
            have ks := setArg_keeps ctx g2 si socketName a
            have os' := setArg_only ctx g2 si socketName a
            cases hsa : setArg ctx g2 si socketName a with
            | mk g3 os =>
              have h3 : Inv ctx g3 := inv_setArg h2 hsa
              rw [hsa] at hs1 ks os'
              simp only at ks os'
              cases os with
              | err e => simp at hs1
              | panic s => simp at hs1
              | ok w =>
                simp only at hs1
                have k13 := ka.1.trans ks
                have hio3 : InstOf g3 i p := hio.mono k13
                have hsi3 := live_keeps ks hsi2
                have ho3 : OnlyFrom ctx g3 si (fun p' pr' => A p' pr' ∨ (p' = p ∧ pr' = (plugName, socketName))) := by
                  refine ho2.step ks os'.edges (fun _ _ hh => Or.inl hh) ?_
                  rintro e ⟨idx, rfl, hidx⟩ _ _
                  exact ⟨p, (plugName, socketName), Or.inr ⟨rfl, rfl⟩,
                    i, j, idx, hio3, hai.mono k13, hidx.mono ks, ks.edges _ hedge, rfl⟩
                have hx3 : ∀ x ∈ g3.exports, x ∈ g.exports := by
                  intro x hx
                  rcases os'.exports x hx with h' | h'
                  · rcases oa'.exports x h' with h'' | h''
                    · exact hx1 x h''
                    · exact h''.elim
                  · exact h'.elim
                obtain ⟨r1, r2⟩ := plugOne_only si p rest g3 g' (some i) _ h3 hsi3
                  (fun i0 hi0 => by cases hi0; exact hio3) ho3 hs1
                refine ⟨?_, fun x hx => hx3 x (r2 x hx)⟩
                intro e he hd
                obtain ⟨p', pr', ha', haf⟩ := r1 e he hd
                refine ⟨p', pr', ?_, haf⟩
                rcases ha' with (h' | ⟨h', h''⟩) | ⟨h', h''⟩
                · exact Or.inl h'
                · exact Or.inr ⟨h', by rw [h'']; exact List.mem_cons_self ..⟩
                · exact Or.inr ⟨h', List.mem_cons_of_mem _ h''⟩
    cases inst with
    | some i =>
      simp only at hs
      exact key g i h hsi (hinst i rfl) ho (fun _ hx => hx) hs
    | none =>
      simp only at hs
      cases hp : g.pkgOf p with
      | error s =>
        have : instantiate g p = (g, .panic s) := by unfold instantiate; rw [hp]
        rw [this] at hs
        simp at hs
      | ok d =>
        have hi : instantiate g p = ((g.addNode ⟨.instantiation [], some p, d.instKind, none, none⟩).1,
            .ok (.node (g.addNode ⟨.instantiation [], some p, d.instKind, none, none⟩).2)) := by
          unfold instantiate; rw [hp]
        have h1 := inv_instantiate h hi
        have a := added_of_addNode h ⟨.instantiation [], some p, d.instKind, none, none⟩
        have ki := instantiate_keeps h p
        have oi := instantiate_only h p si
        rw [hi] at hs ki oi
        simp only at hs ki oi
        exact key _ _ h1 (live_keeps ki hsi) ⟨_, a.new, rfl, rfl⟩ (ho.keep ki oi.edges)
          (fun x hx => (oi.exports x hx).elim id False.elim) hs

/-- the loop over the plugs -/
theorem plugAll_only {ctx : Ctx} (si : Nat) (socketD : PkgDef) : ∀ (ps : List PkgId) (g g' : Graph)
    (A : PkgId → Str × Str → Prop),
    Inv ctx g → (∃ x, g.node? si = some x) → OnlyFrom ctx g si A → plugAll ctx si socketD ps g = (g', none) →
    OnlyFrom ctx g' si (fun p' pr' => A p' pr' ∨
      (p' ∈ ps ∧ ∃ plugD, g.pkgOf p' = .ok plugD ∧ pr' ∈ plugExports ctx plugD socketD)) ∧
    (∀ x ∈ g'.exports, x ∈ g.exports)
  | [], g, g', A, _, _, ho, hs => by
    simp only [plugAll, Prod.mk.injEq, and_true] at hs
    subst hs
    refine ⟨?_, fun _ hx => hx⟩
    intro e he hd
    obtain ⟨p', pr', ha, haf⟩ := ho e he hd
    exact ⟨p', pr', Or.inl ha, haf⟩
  | q :: ps, g, g', A, h, hsi, ho, hs => by
    unfold plugAll at hs
    cases hq : g.pkgOf q with
    | error s => rw [hq] at hs; simp at hs
    | ok qD =>
      rw [hq] at hs
      simp only at hs
      cases h1 : plugOne ctx si q (plugExports ctx qD socketD) g none with
      | mk g1 o1 =>
        rw [h1] at hs
        cases o1 with
        | some o' => simp at hs
        | none =>
          simp only at hs
          have hi1 : Inv ctx g1 := plugOne_inv si q _ g g1 none none h h1
          have k1 := plugOne_keeps si q _ g g1 none none h h1
          obtain ⟨a1, b1⟩ := plugOne_only si q _ g g1 none A h hsi (fun _ hi0 => nomatch hi0) ho h1
          obtain ⟨a2, b2⟩ := plugAll_only si socketD ps g1 g' _ hi1 (live_keeps k1 hsi) a1 hs
          refine ⟨?_, fun x hx => b1 x (b2 x hx)⟩
          intro e he hd
          obtain ⟨p', pr', ha', haf⟩ := a2 e he hd
          refine ⟨p', pr', ?_, haf⟩
          rcases ha' with (h' | ⟨h', h''⟩) | ⟨h', plugD, h'', h'''⟩
          · exact Or.inl h'
          · exact Or.inr ⟨by rw [h']; exact List.mem_cons_self .., qD, by rw [h']; exact hq, h''⟩
          · exact Or.inr ⟨List.mem_cons_of_mem _ h', plugD, by rw [← pkgOf_congr k1.pkgs]; exact h'', h'''⟩

/-- the re-export loop adds no edge into `si`, and export-map entries for its names only -/
theorem exportSocket_only {ctx : Ctx} (si : Nat) : ∀ (names : List Str) (g g' : Graph) (A : PkgId → Str × Str → Prop),
    Inv ctx g → (∃ x, g.node? si = some x) → OnlyFrom ctx g si A → exportSocket ctx si names g = (g', none) →
    OnlyFrom ctx g' si A ∧ (∀ x ∈ g'.exports, x ∈ g.exports ∨ x.1 ∈ names)
  | [], g, g', _, _, _, ho, hs => by
    simp only [exportSocket, Prod.mk.injEq, and_true] at hs
    subst hs
    exact ⟨ho, fun _ hx => Or.inl hx⟩
  | name :: rest, g, g', A, h, hsi, ho, hs => by
    unfold exportSocket at hs
    have ka := alias_keeps h si name
    have oa' := alias_only h si name hsi
    cases ha : aliasInstanceExport ctx g si name with
    | mk g1 oa =>
      have h1 : Inv ctx g1 := inv_aliasInstanceExport h ha
      rw [ha] at hs ka oa'
      simp only at ka oa'
      cases oa with
      | err e => simp at hs
      | panic s => simp at hs
      | ok v =>
        cases v with
        | unit => simp at hs
        | pkg id => simp at hs
        | node a =>
          simp only at hs
          have ke := exportNode_keeps ctx g1 a name
          have oe' := exportNode_only ctx g1 a name si
          cases he : exportNode ctx g1 a name with
          | mk g2 oe =>
            have h2 : Inv ctx g2 := inv_exportNode h1 he
            rw [he] at hs ke oe'
            simp only at ke oe'
            cases oe with
            | err e => simp at hs
            | panic s => simp at hs
            | ok w =>
              simp only at hs
              have ho1 := ho.keep ka.1 oa'.edges
              have ho2 := ho1.keep ke.1 oe'.edges
              obtain ⟨r1, r2⟩ := exportSocket_only si rest g2 g' A h2 (live_keeps ke.1 (live_keeps ka.1 hsi)) ho2 hs
              refine ⟨r1, ?_⟩
              intro x hx
              rcases r2 x hx with h' | h'
              · rcases oe'.exports x h' with h'' | h''
                · rcases oa'.exports x h'' with h3 | h3
                  · exact Or.inl h3
                  · exact h3.elim
                · right; rw [h'']; exact List.mem_cons_self ..
              · exact Or.inr (List.mem_cons_of_mem _ h')

/-! ### indices found in the graph are indices of the package definitions -/

/-- the export index found at an instantiation of `p` is the index in `p`'s export list -/
theorem aliasIdx_pkgExports {ctx : Ctx} {g' : Graph} (hinv' : Inv ctx g') {pi : Nat} {p : PkgId} {plugD : PkgDef}
    {name : Str} {j : Nat} (hpi : InstOf g' pi p) (hpd : g'.pkgOf p = .ok plugD) (hai : AliasIdx ctx g' pi name j) :
    ∃ k, alFull (ctx.pkgExports plugD) name = some (j, k) := by
  obtain ⟨x, exps, k, hx, hexps, hfull⟩ := hai
  obtain ⟨x', hx', hinst, hpkg⟩ := hpi
  rw [hx] at hx'
  cases hx'
  have hitem : x.item = plugD.instKind := by
    have h2 := (hinv'.node hx).2.1
    unfold Node.isInst at hinst
    cases hk : x.kind with
    | instantiation sat =>
      rw [hk] at h2
      simp only at h2
      obtain ⟨_, _, pid, hpid, pd, hpd', hit⟩ := h2
      rw [Option.mem_def, hpkg] at hpid
      cases hpid
      have := toOption_mem.mp hpd'
      rw [hpd] at this
      cases this
      exact hit
    | definition ty => simp [hk] at hinst
    | «import» nm => simp [hk] at hinst
    | «alias» => simp [hk] at hinst
  have hpe : ctx.pkgExports plugD = exps := by
    unfold Ctx.pkgExports
    rw [← hitem, hexps]; rfl
  exact ⟨k, by rw [hpe]; exact hfull⟩

/-- the import index found at an instantiation of the socket is the index in its import list -/
theorem argIdx_imports {g' : Graph} {si : Nat} {socket : PkgId} {socketD : PkgDef} {name : Str} {idx : Nat}
    (hsi : InstOf g' si socket) (hs : g'.pkgOf socket = .ok socketD) (ha : ArgIdx g' si name idx) :
    ∃ k', alFull socketD.imports name = some (idx, k') := by
  obtain ⟨y, pid, d, k', hy, hypkg, hd, hfull'⟩ := ha
  obtain ⟨y', hy', _, hpkg'⟩ := hsi
  rw [hy] at hy'
  cases hy'
  rw [hpkg'] at hypkg
  cases hypkg
  have := pkgAt_of_pkgOf hs
  rw [this] at hd
  cases hd
  exact ⟨k', hfull'⟩

theorem mem_zip_range {α : Type} (l : List α) {i : Nat} {x : α} (h : l[i]? = some x) :
    (i, x) ∈ (List.range l.length).zip l := by
  have hlt : i < l.length := by
    rcases Nat.lt_or_ge i l.length with hl | hl
    · exact hl
    · rw [List.getElem?_eq_none hl] at h; cases h
  rw [List.mem_iff_getElem]
  refine ⟨i, by simp [hlt], ?_⟩
  have hx : l[i] = x := by
    have := List.getElem?_eq_getElem hlt
    rw [this] at h
    exact Option.some.inj h
  simp [hx]


end Wac.Graph
