import WacModel.Spec.Cli
/- Helper lemmas for C19. -/
namespace Wac.Lemmas.Cli
open Wac Wac.Cli Wac.Spec.Cli

theorem amGet_amInsert {β} (m : List (Str × β)) (k k' : Str) (v : β) :
    amGet (amInsert m k v) k' = if k == k' then some v else amGet m k' := by
  induction m with
  | nil => simp [amInsert, amGet]
  | cons e r ih =>
    obtain ⟨a, b⟩ := e
    simp only [amInsert]
    by_cases hak : (a == k) = true
    · have hak' : a = k := beq_iff_eq.1 hak
      subst hak'
      simp only [beq_self_eq_true, if_true, amGet]
      by_cases h : (a == k') = true <;> simp [h]
    · simp only [hak, Bool.false_eq_true, if_false, amGet, ih]
      by_cases h1 : (a == k') = true
      · have : a = k' := beq_iff_eq.1 h1
        subst this
        have : (k == a) = false := by
          simp only [beq_eq_false_iff_ne, ne_eq]
          intro h; subst h; simp at hak
        simp [this]
      · simp [h1]

theorem foldl_overrides (deps : List (Str × Str)) (m : List (Str × Str)) (k : Str) :
    amGet (deps.foldl (fun m d => amInsert m d.1 d.2) m) k =
      match lastOverride deps k with
      | some v => some v
      | none => amGet m k := by
  induction deps generalizing m with
  | nil => simp [lastOverride]
  | cons d rest ih =>
    simp only [List.foldl_cons, ih, lastOverride, List.reverse_cons, List.find?_append]
    cases hr : List.find? (fun d => d.1 == k) rest.reverse with
    | some e => simp
    | none =>
      simp only [Option.none_or, Option.map_none, List.find?_cons, List.find?_nil]
      rw [amGet_amInsert]
      by_cases h : (d.1 == k) = true <;> simp [h]

theorem collectOverrides_lookup (deps : List (Str × Str)) (k : Str) :
    amGet (collectOverrides deps) k = lastOverride deps k := by
  rw [collectOverrides, foldl_overrides]
  cases lastOverride deps k <;> simp [amGet]

end Wac.Lemmas.Cli
