import WacModel.Spec.Cli
/- Helper lemmas for C19. -/
namespace Wac.Lemmas.Cli
open Wac Wac.Cli Wac.Spec.Cli

theorem amGet_amInsert {β} (m : List (Str × β)) (k k' : Str) (v : β) :
    amGet (amInsert m k v) k' = if k == k' then some v else amGet m k' := by
  induction m with
  | nil => simp [amInsert, amGet]
  | cons e r ih =>
    obtain ⟨a, b⟩ := e
    simp only [amInsert]
    by_cases hak : (a == k) = true
    · have hak' : a = k := beq_iff_eq.1 hak
      subst hak'
      simp only [beq_self_eq_true, if_true, amGet]
      by_cases h : (a == k') = true <;> simp [h]
    · simp only [hak, Bool.false_eq_true, if_false, amGet, ih]
      by_cases h1 : (a == k') = true
      · have : a = k' := beq_iff_eq.1 h1
        subst this
        have : (k == a) = false := by
          simp only [beq_eq_false_iff_ne, ne_eq]
          intro h; subst h; simp at hak
        simp [this]
      · simp [h1]

theorem foldl_overrides (deps : List (Str × Str)) (m : List (Str × Str)) (k : Str) :
    amGet (deps.foldl (fun m d => amInsert m d.1 d.2) m) k =
      match lastOverride deps k with
      | some v => some v
      | none => amGet m k := by
  induction deps generalizing m with
  | nil => simp [lastOverride]
  | cons d rest ih =>
    simp only [List.foldl_cons, ih, lastOverride, List.reverse_cons, List.find?_append]
    cases hr : List.find? (fun d => d.1 == k) rest.reverse with
    | some e => simp
    | none =>
      simp only [Option.none_or, Option.map_none, List.find?_cons, List.find?_nil]
      rw [amGet_amInsert]
      by_cases h : (d.1 == k) = true <;> simp [h]

theorem collectOverrides_lookup (deps : List (Str × Str)) (k : Str) :
    amGet (collectOverrides deps) k = lastOverride deps k := by
  rw [collectOverrides, foldl_overrides]
  cases lastOverride deps k <;> simp [amGet]


theorem amGet_none_of_not_mem {β} (m : List (Str × β)) (k : Str) (h : k ∉ m.map (·.1)) : amGet m k = none := by
  induction m with
  | nil => simp [amGet]
  | cons e r ih =>
    obtain ⟨a, b⟩ := e
    simp only [List.map_cons, List.mem_cons, not_or] at h
    have : (a == k) = false := by
      simp only [beq_eq_false_iff_ne, ne_eq]; exact fun h' => h.1 h'.symm
    simp [amGet, this, ih h.2]

/-- with pairwise distinct file stems every plug is a group of its own, in argument order -/
theorem groupByStem_distinct (plugs : List Str) (acc : List (Str × List Str))
    (h : (acc.map (·.1) ++ plugs.map stemOf).Nodup) :
    plugs.foldl groupStep acc = acc ++ plugs.map (fun p => (stemOf p, [p])) := by
  induction plugs generalizing acc with
  | nil => simp
  | cons p rest ih =>
    have hfresh : stemOf p ∉ acc.map (·.1) := by
      intro hm
      exact (List.nodup_append.1 h).2.2 _ hm _ (by simp) rfl
    simp only [List.foldl_cons, groupStep, amGet_none_of_not_mem acc _ hfresh]
    rw [ih]
    · simp
    · simp only [List.map_append, List.map_cons, List.map_nil, List.append_assoc, List.cons_append,
        List.nil_append]
      simpa using h

theorem singleton_groups (l : List Str) :
    l.flatMap (fun a => groupPackages (stemOf a, [a])) = l.map (fun p => ("plug:".toList ++ stemOf p, p)) := by
  induction l with
  | nil => rfl
  | cons p rest ih =>
    simp only [List.flatMap_cons, List.map_cons, ih]
    simp [groupPackages, List.range, List.range.loop]

end Wac.Lemmas.Cli
