import WacModel.Lexer
import WacProofs.Lemmas.TokenAbs
import WacProofs.Lemmas.LexShape
import WacProofs.Lemmas.LexSpecIds
/-
  C12 proofs, lexical layer 3: one step of the lexer model against the specification.

  At a position that starts neither with white space nor with a comment, `lexStep` produces a token
  of kind `k` over `n` characters iff the longest candidate of the specification (`best (candidates
  s)`, keywords before classes) has the kind `k` stands for and length `n`, and the text the
  abstraction attaches to the token is the matched text; `lexStep` produces a lexical error iff
  the specification has no candidate (`lexStep_spec`).
-/
namespace Wac.C12
open Wac Wac.Lex Wac.Spec.Grammar Wac.Spec.Grammar.Re

/-! ### `best` -/

theorem best_mem {l : List (SKind × Nat)} {b : SKind × Nat} (h : best l = some b) : b ∈ l := by
  induction l generalizing b with
  | nil => simp [best] at h
  | cons c r ih =>
    unfold best at h
    split at h
    · rename_i b' hb'
      split at h
      · cases h; exact List.mem_cons_of_mem _ (ih hb')
      · cases h; exact List.mem_cons_self
    · cases h; exact List.mem_cons_self

theorem best_eq_none {l : List (SKind × Nat)} (h : best l = none) : l = [] := by
  cases l with
  | nil => rfl
  | cons c r =>
    unfold best at h
    split at h
    · split at h <;> cases h
    · cases h

/-- the first candidate of maximal length -/
theorem best_eq_find (l : List (SKind × Nat)) (n : Nat) (hle : ∀ x ∈ l, x.2 ≤ n)
    (hex : ∃ x ∈ l, x.2 = n) : best l = l.find? (fun x => x.2 == n) := by
  induction l with
  | nil => obtain ⟨x, hx, _⟩ := hex; cases hx
  | cons c r ih =>
    by_cases hc : c.2 = n
    · rw [List.find?_cons_of_pos (by simpa using hc)]
      unfold best
      split
      · rename_i b hb
        have := hle b (List.mem_cons_of_mem _ (best_mem hb))
        rw [if_neg (by omega)]
      · rfl
    · rw [List.find?_cons_of_neg (by simpa using hc)]
      have hex' : ∃ x ∈ r, x.2 = n := by
        obtain ⟨x, hx, hxn⟩ := hex
        rcases List.mem_cons.mp hx with rfl | hx
        · exact absurd hxn hc
        · exact ⟨x, hx, hxn⟩
      have ih' := ih (fun x hx => hle x (List.mem_cons_of_mem _ hx)) hex'
      obtain ⟨x, hx, hxn⟩ := hex'
      cases hf : r.find? (fun x => x.2 == n) with
      | none => exact absurd hxn (by simpa using List.find?_eq_none.mp hf x hx)
      | some b =>
        rw [hf] at ih'
        have hb : b.2 = n := by simpa using List.find?_some hf
        have hcn := hle c List.mem_cons_self
        unfold best
        rw [ih']
        dsimp only
        rw [if_pos (by omega)]

/-- a last candidate that is strictly longer than all the others wins -/
theorem best_snoc_lt (l : List (SKind × Nat)) (k : SKind) (n : Nat) (h : ∀ x ∈ l, x.2 < n) :
    best (l ++ [(k, n)]) = some (k, n) := by
  rw [best_eq_find _ n (by
      intro x hx
      rcases List.mem_append.mp hx with hx | hx
      · exact Nat.le_of_lt (h x hx)
      · rw [List.mem_singleton.mp hx]; exact Nat.le_refl _)
    ⟨(k, n), List.mem_append_right _ List.mem_cons_self, rfl⟩, List.find?_append]
  have : l.find? (fun x => x.2 == n) = none := by
    rw [List.find?_eq_none]
    intro x hx
    have := h x hx
    simp; omega
  rw [this]
  simp

/-- candidates of one kind, one of which has the maximal length, followed by candidates that are
not longer: the result has that kind -/
theorem best_first_kind (l l2 : List (SKind × Nat)) (k : SKind) (n : Nat)
    (hk : ∀ x ∈ l, x.1 = k) (hle : ∀ x ∈ l, x.2 ≤ n) (hex : ∃ x ∈ l, x.2 = n)
    (hle2 : ∀ x ∈ l2, x.2 ≤ n) : best (l ++ l2) = some (k, n) := by
  obtain ⟨x0, hx0, hx0n⟩ := hex
  rw [best_eq_find _ n (by
      intro x hx
      rcases List.mem_append.mp hx with hx | hx
      · exact hle x hx
      · exact hle2 x hx)
    ⟨x0, List.mem_append_left _ hx0, hx0n⟩, List.find?_append]
  cases hf : l.find? (fun x => x.2 == n) with
  | none => exact absurd hx0n (by simpa using List.find?_eq_none.mp hf x0 hx0)
  | some b =>
    have hb : b.2 = n := by simpa using List.find?_some hf
    have hb1 := hk b (List.mem_of_find?_eq_some hf)
    rw [Option.some_or]
    congr 1
    exact Prod.ext hb1 hb

/-! ### the candidates -/

/-- the candidate contributed by a token class -/
def reCand (k : SKind) (r : Re) (s : Str) : List (SKind × Nat) :=
  match r.longest s with
  | some n => if n > 0 then [(k, n)] else []
  | none => []

/-- every terminal given by its text -/
def allLits : List String := keywords ++ symbols.map (·.2)

/-- the candidates contributed by the keywords and the punctuation -/
def litCands (s : Str) : List (SKind × Nat) :=
  allLits.filterMap fun t => if t.toList.isPrefixOf s then some (SKind.lit, t.length) else none

theorem candidates_eq (s : Str) :
    candidates s = litCands s ++ reCand .id reId s ++ reCand .string reString s ++
      reCand .packageName rePackageNameTok s ++ reCand .packagePath rePackagePathTok s := rfl

theorem reCand_of_recognises {k : SKind} {r : Re} {s : Str} {n : Nat} (h : Recognises r s n) :
    reCand k r s = if 0 < n then [(k, n)] else [] := by
  unfold reCand
  rw [h.longest]
  by_cases hn : n = 0
  · simp [hn]
  · have hp : 0 < n := Nat.pos_of_ne_zero hn
    simp [hn, hp]

theorem mem_litCands {s : Str} {x : SKind × Nat} :
    x ∈ litCands s ↔ ∃ t ∈ allLits, t.toList.isPrefixOf s = true ∧ x = (.lit, t.toList.length) := by
  unfold litCands
  rw [List.mem_filterMap]
  constructor
  · rintro ⟨t, ht, h⟩
    split at h
    · rename_i hp
      cases h
      exact ⟨t, ht, hp, by rw [String.length_toList]⟩
    · cases h
  · rintro ⟨t, ht, hp, rfl⟩
    exact ⟨t, ht, by rw [if_pos hp, String.length_toList]⟩

theorem litCands_kind {s : Str} : ∀ x ∈ litCands s, x.1 = .lit := by
  intro x hx
  obtain ⟨t, _, _, rfl⟩ := mem_litCands.mp hx
  rfl

theorem litCands_eq_nil {s : Str} (h : ∀ t ∈ allLits, t.toList.isPrefixOf s = false) :
    litCands s = [] := by
  unfold litCands
  rw [List.filterMap_eq_nil_iff]
  intro t ht
  rw [h t ht]
  rfl

/-! ### the tables -/

theorem keywordTable_texts : keywordTable.map (·.1) = keywords.map (·.toList) := by decide

theorem symbolTable_texts : symbolTable.map (·.1) = (symbols.map (·.2)).map (·.toList) := by decide

theorem keywords_are_ids :
    ∀ k ∈ keywords, idLen k.toList = k.toList.length ∧ 0 < k.toList.length := by decide

/-- the characters the punctuation terminals start with -/
def symStarts : List Char :=
  [';', '{', '}', ':', '=', '(', ')', '-', '<', '>', '_', '[', ']', '.', ',', '/', '@']

theorem symbols_start :
    ∀ t ∈ symbols.map (·.2), (t.toList.head?.map symStarts.contains) = some true := by decide

theorem symStarts_spec : ∀ c ∈ symStarts, isIdStart c = false ∧ c ≠ '"' := by decide

theorem symbolTable_nonempty : ∀ e ∈ symbolTable, 0 < e.1.length := by decide

theorem isPrefixOf_take {t s : Str} (h : t.isPrefixOf s = true) :
    s.take t.length = t ∧ t.length ≤ s.length := by
  rw [List.isPrefixOf_iff_prefix] at h
  exact ⟨(List.prefix_iff_eq_take.mp h).symm, h.length_le⟩

theorem isPrefixOf_of_take {s : Str} {n : Nat} (_h : n ≤ s.length) : (s.take n).isPrefixOf s = true := by
  rw [List.isPrefixOf_iff_prefix]
  exact List.take_prefix n s

/-- a keyword at the start of `s` is a prefix match of `id` -/
theorem keyword_prefix_le {k : String} (hk : k ∈ keywords) {s : Str}
    (hp : k.toList.isPrefixOf s = true) : k.toList.length ≤ idLen s ∧ 0 < idLen s := by
  obtain ⟨he, hpos⟩ := keywords_are_ids k hk
  obtain ⟨htake, hlen⟩ := isPrefixOf_take hp
  have hm : Matches reId k.toList := by
    rcases idLen_spec k.toList with ⟨hz, _⟩ | ⟨_, hmax⟩
    · omega
    · have := hmax.1.2
      rwa [he, List.take_length] at this
  have hpm : PM reId s k.toList.length := ⟨hlen, by rw [htake]; exact hm⟩
  rcases idLen_spec s with ⟨_, hno⟩ | ⟨hp', hmax⟩
  · exact absurd hpm (hno _)
  · exact ⟨hmax.2 _ hpm, hp'⟩

/-- a punctuation terminal at the start of `c :: r` -/
theorem symbol_prefix_start {t : String} (ht : t ∈ symbols.map (·.2)) {c : Char} {r : Str}
    (hp : t.toList.isPrefixOf (c :: r) = true) : c ∈ symStarts := by
  have h := symbols_start t ht
  cases hl : t.toList with
  | nil => rw [hl] at h; cases h
  | cons a w =>
    rw [hl] at h hp
    rw [List.isPrefixOf_cons_cons, Bool.and_eq_true] at hp
    have hac : a = c := by simpa using hp.1
    subst hac
    simpa using h

theorem mem_allLits {t : String} : t ∈ allLits ↔ t ∈ keywords ∨ t ∈ symbols.map (·.2) :=
  List.mem_append

/-- when `s` starts an identifier, the literal candidates are keywords, none longer than `idLen s` -/
theorem litCands_le_idLen {c : Char} {r : Str} (hc : isIdStart c = true) :
    ∀ x ∈ litCands (c :: r), x.2 ≤ idLen (c :: r) := by
  intro x hx
  obtain ⟨t, ht, hp, rfl⟩ := mem_litCands.mp hx
  rcases mem_allLits.mp ht with hk | hs
  · exact (keyword_prefix_le hk hp).1
  · have := (symStarts_spec c (symbol_prefix_start hs hp)).1
    rw [hc] at this; cases this

theorem lookupKeyword_some {w : Str} {kw : Token} (h : lookupKeyword w = some kw) :
    (∃ k ∈ keywords, k.toList = w) ∧ (litText kw).toList = w ∧
      kw ≠ .PackagePath ∧ kw ≠ .String ∧ kw ≠ .Ident ∧ kw ≠ .PackageName := by
  unfold lookupKeyword at h
  rw [Option.map_eq_some_iff] at h
  obtain ⟨e, he, rfl⟩ := h
  have hmem := List.mem_of_find?_eq_some he
  have hw : e.1 = w := by simpa using List.find?_some he
  refine ⟨?_, ?_, keywordTable_kinds e hmem⟩
  · have : w ∈ keywordTable.map (·.1) := List.mem_map.mpr ⟨e, hmem, hw⟩
    rw [keywordTable_texts, List.mem_map] at this
    exact this
  · rw [← hw]
    exact litText_tables e (List.mem_append_left _ hmem)

theorem lookupKeyword_none {w : Str} (h : lookupKeyword w = none) :
    ∀ k ∈ keywords, k.toList ≠ w := by
  unfold lookupKeyword at h
  rw [Option.map_eq_none_iff, List.find?_eq_none] at h
  intro k hk hkw
  have : w ∈ keywordTable.map (·.1) := by
    rw [keywordTable_texts]
    exact List.mem_map.mpr ⟨k, hk, hkw⟩
  obtain ⟨e, he, hew⟩ := List.mem_map.mp this
  exact h e he (by simpa using hew)

/-! ### `matchSymbol` -/

theorem foldl_symbol_spec (s : Str) (tbl : List (Str × Token)) (init : Option (Token × Nat)) :
    let F := fun (best : Option (Token × Nat)) (e : Str × Token) =>
      if e.1.isPrefixOf s && e.1.length > (best.map (·.2)).getD 0 then some (e.2, e.1.length) else best
    let res := tbl.foldl F init
    (res = init ∨ ∃ e ∈ tbl, e.1.isPrefixOf s = true ∧ res = some (e.2, e.1.length)) ∧
    (init.map (·.2)).getD 0 ≤ (res.map (·.2)).getD 0 ∧
    (∀ e ∈ tbl, e.1.isPrefixOf s = true → e.1.length ≤ (res.map (·.2)).getD 0) := by
  induction tbl generalizing init with
  | nil =>
    exact ⟨.inl rfl, Nat.le_refl _, fun e he => by cases he⟩
  | cons e l ih =>
    intro F res
    have ih' := ih (F init e)
    simp only at ih'
    obtain ⟨h1, h2, h3⟩ := ih'
    have hres : res = l.foldl F (F init e) := rfl
    rw [← hres] at h1 h2 h3
    -- the step
    have hstep : (F init e = init ∨ (e.1.isPrefixOf s = true ∧ F init e = some (e.2, e.1.length))) ∧
        (init.map (·.2)).getD 0 ≤ ((F init e).map (·.2)).getD 0 ∧
        (e.1.isPrefixOf s = true → e.1.length ≤ ((F init e).map (·.2)).getD 0) := by
      show (((if _ then _ else _) = init) ∨ _) ∧ _
      by_cases hc : (e.1.isPrefixOf s && decide (e.1.length > (init.map (·.2)).getD 0)) = true
      · have hF : F init e = some (e.2, e.1.length) := if_pos hc
        rw [Bool.and_eq_true, decide_eq_true_eq] at hc
        refine ⟨.inr ⟨hc.1, hF⟩, ?_, ?_⟩
        · rw [hF]; simp; omega
        · intro _; rw [hF]; simp
      · have hF : F init e = init := if_neg hc
        refine ⟨.inl hF, by rw [hF]; exact Nat.le_refl _, ?_⟩
        intro hp
        rw [hF]
        rw [Bool.and_eq_true, decide_eq_true_eq] at hc
        have : ¬ e.1.length > (init.map (·.2)).getD 0 := fun h => hc ⟨hp, h⟩
        omega
    obtain ⟨s1, s2, s3⟩ := hstep
    refine ⟨?_, by omega, ?_⟩
    · rcases h1 with h1 | ⟨e', he', hp', hr'⟩
      · rcases s1 with s1 | ⟨hp, s1⟩
        · exact .inl (by rw [h1, s1])
        · exact .inr ⟨e, List.mem_cons_self, hp, by rw [h1, s1]⟩
      · exact .inr ⟨e', List.mem_cons_of_mem _ he', hp', hr'⟩
    · intro e' he' hp'
      rcases List.mem_cons.mp he' with rfl | he'
      · have := s3 hp'; omega
      · exact h3 e' he' hp'

theorem matchSymbol_some {s : Str} {t : Token} {n : Nat} (h : matchSymbol s = some (t, n)) :
    (∃ e ∈ symbolTable, e.1.isPrefixOf s = true ∧ e.2 = t ∧ e.1.length = n) ∧
    (∀ e ∈ symbolTable, e.1.isPrefixOf s = true → e.1.length ≤ n) := by
  have := foldl_symbol_spec s symbolTable none
  simp only at this
  unfold matchSymbol at h
  rw [h] at this
  obtain ⟨h1, _, h3⟩ := this
  refine ⟨?_, by simpa using h3⟩
  rcases h1 with h1 | ⟨e, he, hp, hr⟩
  · cases h1
  · cases hr
    exact ⟨e, he, hp, rfl, rfl⟩

theorem matchSymbol_none {s : Str} (h : matchSymbol s = none) :
    ∀ e ∈ symbolTable, e.1.isPrefixOf s = false := by
  have := foldl_symbol_spec s symbolTable none
  simp only at this
  unfold matchSymbol at h
  rw [h] at this
  obtain ⟨_, _, h3⟩ := this
  intro e he
  cases hp : e.1.isPrefixOf s with
  | false => rfl
  | true =>
    have h' : e.1.length ≤ 0 := h3 e he hp
    have := symbolTable_nonempty e he
    omega

theorem mem_symbolTable_texts {t : String} (ht : t ∈ symbols.map (·.2)) :
    ∃ e ∈ symbolTable, e.1 = t.toList := by
  have : t.toList ∈ symbolTable.map (·.1) := by
    rw [symbolTable_texts]
    exact List.mem_map.mpr ⟨t, ht, rfl⟩
  obtain ⟨e, he, h⟩ := List.mem_map.mp this
  exact ⟨e, he, h⟩

theorem symbolTable_mem_texts {e : Str × Token} (he : e ∈ symbolTable) :
    ∃ t ∈ symbols.map (·.2), t.toList = e.1 := by
  have : e.1 ∈ symbolTable.map (·.1) := List.mem_map.mpr ⟨e, he, rfl⟩
  rw [symbolTable_texts] at this
  obtain ⟨t, ht, h⟩ := List.mem_map.mp this
  exact ⟨t, ht, h⟩

/-! ### the abstraction of a token -/

theorem absTok_lit (k : Token) (sp : Ast.Span) (tx : Str) (d : List Ast.DocComment)
    (h1 : k ≠ .PackagePath) (h2 : k ≠ .String) (h3 : k ≠ .Ident) (h4 : k ≠ .PackageName) :
    absTok ⟨.ok k, sp, tx, d⟩ = ⟨.lit, (litText k).toList⟩ := by
  cases k <;> first | rfl | contradiction

/-! ### pieces of `lexStep` -/

theorem packageNameLen_zero {s : Str} (h : idLen s = 0) : packageNameLen s = 0 := by
  unfold packageNameLen
  dsimp only
  rw [if_pos h]

theorem packageNameTokLen_zero {s : Str} (h : packageNameLen s = 0) : packageNameTokLen s = 0 := by
  unfold packageNameTokLen
  dsimp only
  rw [if_pos h]

theorem packagePathTokLen_zero {s : Str} (h : packageNameLen s = 0) : packagePathTokLen s = 0 := by
  unfold packagePathTokLen
  dsimp only
  rw [if_pos h]

theorem idLen_lt_packageNameLen {s : Str} (h : 0 < packageNameLen s) :
    idLen s < packageNameLen s ∧ 0 < idLen s := by
  unfold packageNameLen at h ⊢
  dsimp only at h ⊢
  by_cases h1 : idLen s = 0
  · rw [if_pos h1] at h; omega
  · rw [if_neg h1] at h ⊢
    by_cases h2 : colonIdsLen s.length (s.drop (idLen s)) = 0
    · rw [if_pos h2] at h; omega
    · rw [if_neg h2]; omega

theorem packageNameLen_le_tok {s : Str} (h : 0 < packageNameTokLen s) :
    packageNameLen s ≤ packageNameTokLen s ∧ 0 < packageNameLen s := by
  unfold packageNameTokLen at h ⊢
  dsimp only at h ⊢
  by_cases h1 : packageNameLen s = 0
  · rw [if_pos h1] at h; omega
  · rw [if_neg h1]; omega

theorem atVersionLen_pos {s : Str} (h : 0 < atVersionLen s) : ∃ r, s = '@' :: r := by
  unfold atVersionLen at h
  split at h
  · exact ⟨_, rfl⟩
  · omega

/-- a package path is strictly longer than the package name it starts with -/
theorem packageNameTokLen_lt_path {s : Str} (h : 0 < packagePathTokLen s) :
    packageNameTokLen s < packagePathTokLen s ∧ 0 < packageNameLen s := by
  unfold packagePathTokLen at h ⊢
  dsimp only at h ⊢
  by_cases h1 : packageNameLen s = 0
  · rw [if_pos h1] at h; omega
  · rw [if_neg h1] at h ⊢
    by_cases h2 : slashIdsLen s.length (s.drop (packageNameLen s)) = 0
    · rw [if_pos h2] at h; omega
    · rw [if_neg h2]
      obtain ⟨r, hr⟩ := slashIdsLen_pos (Nat.pos_of_ne_zero h2)
      have hat : atVersionLen (s.drop (packageNameLen s)) = 0 := by
        rcases Nat.eq_zero_or_pos (atVersionLen (s.drop (packageNameLen s))) with h0 | hp
        · exact h0
        · obtain ⟨r', hr'⟩ := atVersionLen_pos hp
          rw [hr] at hr'; cases hr'
      have : packageNameTokLen s = packageNameLen s := by
        unfold packageNameTokLen
        dsimp only
        rw [if_neg h1, hat, Nat.add_zero]
      rw [this]
      omega

/-! ### one step -/

/-- the candidates at a position where no identifier starts -/
theorem candidates_no_id {s : Str} (h : idLen s = 0) :
    candidates s = litCands s ++ reCand .string reString s := by
  have hn := packageNameLen_zero h
  rw [candidates_eq, reCand_of_recognises (idLen_spec s),
    reCand_of_recognises (packageNameTokLen_spec s), reCand_of_recognises (packagePathTokLen_spec s),
    h, packageNameTokLen_zero hn, packagePathTokLen_zero hn]
  simp

theorem reCand_string_ne {s : Str} (h : ∀ r, s ≠ '"' :: r) : reCand .string reString s = [] := by
  unfold reCand
  rw [longest_of_noPM (string_noPM_ne s h)]

/-- the result of one step of the model against the specification -/
inductive StepSpec (s : Str) : Step → Prop
  /-- a token: the specification's best candidate has the kind the token stands for and the same
  length, and the abstraction of the token carries the matched text -/
  | ok (k : Token) (n : Nat) (kd : SKind) : 0 < n → n ≤ s.length → best (candidates s) = some (kd, n) →
      (∀ sp d, absTok ⟨.ok k, sp, s.take n, d⟩ = ⟨kd, s.take n⟩) → StepSpec s (.tok (.ok k) n)
  /-- a lexical error: the specification has no candidate -/
  | err (e : LexError) (n : Nat) : best (candidates s) = none → StepSpec s (.tok (.error e) n)

theorem lexStep_spec_quote (r : Str) : StepSpec ('"' :: r) (lexStep ('"' :: r)) := by
  have hid : idLen ('"' :: r) = 0 := by
    rcases Nat.eq_zero_or_pos (idLen ('"' :: r)) with h | h
    · exact h
    · exact absurd (idLen_pos_start h) (by decide)
  have hlits : litCands ('"' :: r) = [] := by
    apply litCands_eq_nil
    intro t ht
    cases hp : t.toList.isPrefixOf ('"' :: r) with
    | false => rfl
    | true =>
      rcases mem_allLits.mp ht with hk | hs
      · have := (keyword_prefix_le hk hp).2; omega
      · exact absurd rfl (symStarts_spec _ (symbol_prefix_start hs hp)).2
  have hcand := candidates_no_id hid
  rw [hlits, List.nil_append] at hcand
  have hstep : lexStep ('"' :: r) =
      if (r.takeWhile (· != '"')).length < r.length
      then .tok (.ok .String) ((r.takeWhile (· != '"')).length + 2)
      else .tok (.error .UnterminatedString) 1 := by
    simp [lexStep, isSkipChar]
  rw [hstep]
  unfold reCand at hcand
  rw [string_eq_longest] at hcand
  split
  · rename_i hlt
    rw [if_pos hlt] at hcand
    simp only [gt_iff_lt, Nat.zero_lt_succ, if_true] at hcand
    refine .ok _ _ .string (by omega) (by simp; omega) (by rw [hcand]; rfl) (fun _ _ => rfl)
  · rename_i hlt
    rw [if_neg hlt] at hcand
    exact .err _ _ (by rw [hcand]; rfl)

theorem lexStep_eq_of_start (c : Char) (r : Str) (h1 : isSkipChar c = false)
    (h2 : (c == '/' && r.head? == some '/') = false) (h3 : (c == '/' && r.head? == some '*') = false)
    (h4 : c ≠ '"') :
    lexStep (c :: r) =
      if packagePathTokLen (c :: r) > 0 then .tok (.ok .PackagePath) (packagePathTokLen (c :: r))
      else if packageNameTokLen (c :: r) > 0 then .tok (.ok .PackageName) (packageNameTokLen (c :: r))
      else if idLen (c :: r) > 0 then
        match lookupKeyword ((c :: r).take (idLen (c :: r))) with
        | some kw => .tok (.ok kw) (idLen (c :: r))
        | none => .tok (.ok .Ident) (idLen (c :: r))
      else
        match matchSymbol (c :: r) with
        | some (t, n) => .tok (.ok t) n
        | none => .tok (.error .UnexpectedToken) 1 := by
  have h4' : (c == '"') = false := by simpa using h4
  unfold lexStep
  simp only [h1, h2, h3, h4', Bool.false_eq_true, if_false]
  rfl

theorem idLen_le_length (s : Str) : idLen s ≤ s.length := by
  rcases idLen_spec s with ⟨hz, _⟩ | ⟨_, hmax⟩
  · omega
  · exact hmax.1.1

theorem packageNameTokLen_le_length (s : Str) : packageNameTokLen s ≤ s.length := by
  rcases packageNameTokLen_spec s with ⟨hz, _⟩ | ⟨_, hmax⟩
  · omega
  · exact hmax.1.1

theorem packagePathTokLen_le_length (s : Str) : packagePathTokLen s ≤ s.length := by
  rcases packagePathTokLen_spec s with ⟨hz, _⟩ | ⟨_, hmax⟩
  · omega
  · exact hmax.1.1

/-- **one step**: at a position that starts neither with white space, nor with a comment, the model
and the specification agree -/
theorem lexStep_spec (c : Char) (r : Str) (h1 : isSkipChar c = false)
    (h2 : (c == '/' && r.head? == some '/') = false) (h3 : (c == '/' && r.head? == some '*') = false) :
    StepSpec (c :: r) (lexStep (c :: r)) := by
  by_cases h4 : c = '"'
  · subst h4; exact lexStep_spec_quote r
  have hstr : reCand .string reString (c :: r) = [] :=
    reCand_string_ne fun r' hr' => h4 (List.cons.inj hr').1
  rw [lexStep_eq_of_start c r h1 h2 h3 h4]
  by_cases hid : idLen (c :: r) = 0
  · -- punctuation or nothing
    have hn := packageNameLen_zero hid
    rw [packagePathTokLen_zero hn, packageNameTokLen_zero hn, hid]
    simp only [gt_iff_lt, Nat.lt_irrefl, if_false]
    have hcand := candidates_no_id hid
    rw [hstr, List.append_nil] at hcand
    have hnokw : ∀ k ∈ keywords, k.toList.isPrefixOf (c :: r) = false := by
      intro k hk
      cases hp : k.toList.isPrefixOf (c :: r) with
      | false => rfl
      | true => have := (keyword_prefix_le hk hp).2; omega
    cases hm : matchSymbol (c :: r) with
    | none =>
      refine .err _ _ ?_
      rw [hcand, litCands_eq_nil]
      · rfl
      · intro t ht
        rcases mem_allLits.mp ht with hk | hs
        · exact hnokw t hk
        · obtain ⟨e, he, het⟩ := mem_symbolTable_texts hs
          rw [← het]
          exact matchSymbol_none hm e he
    | some tn =>
      obtain ⟨t, n⟩ := tn
      obtain ⟨⟨e, he, hp, rfl, rfl⟩, hmax⟩ := matchSymbol_some hm
      obtain ⟨htake, hlen⟩ := isPrefixOf_take hp
      have hkinds := symbolTable_kinds e he
      refine .ok _ _ .lit (symbolTable_nonempty e he) hlen ?_ ?_
      · rw [hcand]
        have := best_first_kind (litCands (c :: r)) [] .lit e.1.length litCands_kind ?_ ?_
          (fun x hx => by cases hx)
        · rwa [List.append_nil] at this
        · intro x hx
          obtain ⟨t, ht, htp, rfl⟩ := mem_litCands.mp hx
          rcases mem_allLits.mp ht with hk | hs
          · rw [hnokw t hk] at htp; cases htp
          · obtain ⟨e', he', het⟩ := mem_symbolTable_texts hs
            rw [← het] at htp ⊢
            exact hmax e' he' htp
        · obtain ⟨t, ht, hte⟩ := symbolTable_mem_texts he
          exact ⟨(.lit, e.1.length), mem_litCands.mpr
            ⟨t, mem_allLits.mpr (.inr ht), by rw [hte]; exact hp, by rw [hte]⟩, rfl⟩
      · intro sp d
        rw [absTok_lit _ _ _ _ hkinds.1 hkinds.2.1 hkinds.2.2.1 hkinds.2.2.2, htake,
          litText_tables e (List.mem_append_right _ he)]
  · -- an identifier starts here
    have hidpos : 0 < idLen (c :: r) := Nat.pos_of_ne_zero hid
    have hstart := idLen_pos_start hidpos
    have hlits := litCands_le_idLen (r := r) hstart
    have hidc := reCand_of_recognises (k := .id) (idLen_spec (c :: r))
    rw [if_pos hidpos] at hidc
    have hpnc := reCand_of_recognises (k := .packageName) (packageNameTokLen_spec (c :: r))
    have hppc := reCand_of_recognises (k := .packagePath) (packagePathTokLen_spec (c :: r))
    have hcand := candidates_eq (c :: r)
    rw [hstr, hidc, List.append_nil, hpnc, hppc] at hcand
    by_cases hpp : 0 < packagePathTokLen (c :: r)
    · -- package path
      rw [if_pos hpp]
      rw [if_pos hpp] at hcand
      obtain ⟨hlt, hn⟩ := packageNameTokLen_lt_path hpp
      obtain ⟨hilt, _⟩ := idLen_lt_packageNameLen hn
      have hpn : 0 < packageNameTokLen (c :: r) := by
        unfold packageNameTokLen; dsimp only; rw [if_neg (by omega)]; omega
      have hnle := (packageNameLen_le_tok hpn).1
      refine .ok _ _ .packagePath hpp (packagePathTokLen_le_length _) ?_ (fun _ _ => rfl)
      rw [hcand]
      apply best_snoc_lt
      intro x hx
      rw [if_pos hpn] at hx
      simp only [List.mem_append, List.mem_singleton] at hx
      rcases hx with (hx | rfl) | rfl
      · have := hlits x hx; omega
      · show idLen (c :: r) < _; omega
      · exact hlt
    · rw [if_neg hpp]
      rw [if_neg hpp, List.append_nil] at hcand
      by_cases hpn : 0 < packageNameTokLen (c :: r)
      · -- package name
        rw [if_pos hpn]
        rw [if_pos hpn] at hcand
        obtain ⟨hnle, hn⟩ := packageNameLen_le_tok hpn
        obtain ⟨hilt, _⟩ := idLen_lt_packageNameLen hn
        refine .ok _ _ .packageName hpn (packageNameTokLen_le_length _) ?_ (fun _ _ => rfl)
        rw [hcand]
        apply best_snoc_lt
        intro x hx
        simp only [List.mem_append, List.mem_singleton] at hx
        rcases hx with hx | rfl
        · have := hlits x hx; omega
        · show idLen (c :: r) < _; omega
      · rw [if_neg hpn, if_pos hidpos]
        rw [if_neg hpn, List.append_nil] at hcand
        have hlen := idLen_le_length (c :: r)
        cases hk : lookupKeyword ((c :: r).take (idLen (c :: r))) with
        | some kw =>
          -- keyword
          obtain ⟨⟨k, hkmem, hkw⟩, htext, hkinds⟩ := lookupKeyword_some hk
          refine .ok _ _ .lit hidpos hlen ?_ ?_
          · rw [hcand]
            refine best_first_kind _ _ .lit _ litCands_kind hlits ?_ ?_
            · refine ⟨(.lit, idLen (c :: r)), mem_litCands.mpr ⟨k, mem_allLits.mpr (.inl hkmem), ?_, ?_⟩, rfl⟩
              · rw [hkw]; exact isPrefixOf_of_take hlen
              · rw [hkw, List.length_take, Nat.min_eq_left hlen]
            · intro x hx
              rw [List.mem_singleton.mp hx]
              exact Nat.le_refl _
          · intro sp d
            rw [absTok_lit _ _ _ _ hkinds.1 hkinds.2.1 hkinds.2.2.1 hkinds.2.2.2, htext]
        | none =>
          -- identifier
          refine .ok _ _ .id hidpos hlen ?_ (fun _ _ => rfl)
          rw [hcand]
          apply best_snoc_lt
          intro x hx
          have hle := hlits x hx
          rcases Nat.lt_or_ge x.2 (idLen (c :: r)) with hlt | hge
          · exact hlt
          · exfalso
            obtain ⟨t, ht, htp, rfl⟩ := mem_litCands.mp hx
            have heq : t.toList.length = idLen (c :: r) := by
              simp only at hle hge; omega
            obtain ⟨htake, _⟩ := isPrefixOf_take htp
            rcases mem_allLits.mp ht with hkm | hs
            · exact lookupKeyword_none hk t hkm (by rw [← heq, htake])
            · have := (symStarts_spec c (symbol_prefix_start hs htp)).1
              rw [hstart] at this; cases this

end Wac.C12
