import WacProofs.Lemmas.ParserSound
/-
  C12 proofs: soundness of the parser model w.r.t. the grammar specification — the type
  sublanguage (`ast/type.rs`): types, named types, function types, resources, variants, records,
  flags, enums, type aliases, type declarations.

  Every main statement has the form `Sound erase g 0 st x st'` (`Combinators.lean`): the parser
  consumed at least one item and `(erase x, abs st')` is a derivation of `g gf (abs st)` for every
  grammar fuel `gf` that is at least the number of consumed items (slack `0` everywhere; the only
  auxiliary statement with slack `1` is the `type | '_'` step inside `result<…>`, which the
  grammar reaches through `gTypeOrHole`, one fuel unit below `gType`).

  The recognisers the grammar writes inline (`variant-case`, `field`, `flag`, `enum-case`, the
  alternative of `type-alias`) are named here (`gVariantCase`, `gField`, `gFlag`, `gEnumCase`,
  `gTypeAliasKind`); `g…Decl_eq` (all by `rfl`) state that the grammar's definitions are these.
-/
namespace Wac.C12
open Wac Wac.Ast Wac.Lex Wac.Parse Wac.Spec.Grammar

/-! ### types -/

theorem toks_of_next_none {st : PState} {x : PState} (h : st.next = (none, x)) : st.toks = [] := by
  cases hs : st.toks with
  | nil => rfl
  | cons a r => rw [next_cons hs] at h; cases h

theorem nextTok_of_next_none {st : PState} {x : PState} (h : st.next = (none, x)) : nextTok st = none :=
  nextTok_nil (toks_of_next_none h)

theorem peekTok_of_next_none {st : PState} {x : PState} (h : st.next = (none, x)) : peekTok st = none :=
  peekTok_nil (toks_of_next_none h)

/-- the `type | '_'` step of `result<…>` -/
theorem typeOrHole_sound (pf : Nat)
    (ih : ∀ st ty st', parseType pf st = .ok (ty, st') → Sound eraseTy gType 0 st ty st')
    (st : PState) (o : Option Ty) (st' : PState)
    (h : (if peekIs st .Underscore = true then (.ok (none, st.next.2) : PR (Option Ty))
           else if peekIn st typePeeks = true then
             parseType pf st >>= fun x => .ok (some x.1, x.2)
           else .error (lookaheadError st (.Underscore :: typePeeks))) = .ok (o, st')) :
    Sound eraseTyOpt gTypeOrHole 1 st o st' := by
  split at h
  · rename_i hu
    rw [peekIs_iff] at hu
    replace hu := nextTok_of_peekTok hu (.inl rfl)
    cases h
    have l1 : st.toks.length = st.next.2.toks.length + 1 := len_of_nextTok hu
    refine ⟨Suf.adv _, by omega, ?_⟩
    intro gf hgf
    obtain ⟨g, rfl⟩ : ∃ g, gf = g + 1 := ⟨gf - 1, by omega⟩
    show (eraseTyOpt none, abs (adv st)) ∈ _
    simp [gTypeOrHole, hu, eraseTyOpt]
  · split at h
    · simp only [Except.bind_eq_ok, Prod.exists] at h
      obtain ⟨ty, st1, hty, h2⟩ := h
      cases h2
      obtain ⟨hs, hl, hm⟩ := ih _ _ _ hty
      refine ⟨hs, hl, ?_⟩
      intro gf hgf
      obtain ⟨g, rfl⟩ : ∃ g, gf = g + 1 := ⟨gf - 1, by omega⟩
      simp only [gTypeOrHole, alt_apply, bind_apply, pure_apply, List.mem_append, List.mem_flatMap,
        List.mem_singleton, Prod.mk.injEq, Prod.exists]
      right
      exact ⟨_, _, hm g (by omega), rfl, rfl⟩
    · cases h

theorem parseType_sound_step (pf : Nat)
    (ih : ∀ st ty st', parseType pf st = .ok (ty, st') → Sound eraseTy gType 0 st ty st')
    (st : PState) (ty : Ty) (st' : PState) (h : parseType (pf + 1) st = .ok (ty, st')) :
    Sound eraseTy gType 0 st ty st' := by
  unfold parseType at h
  split at h
  · rename_i x tk st1 hn
    have e : st1 = adv st := by simp [adv, hn]
    subst e
    dsimp only at h
    split at h
    iterate 13
      · rename_i hk
        replace hk := nextTok_of_peekTok hk (.inl rfl)
        cases h
        have l1 := len_of_nextTok hk
        refine ⟨Suf.adv _, by omega, ?_⟩
        intro gf hgf
        obtain ⟨g, rfl⟩ : ∃ g, gf = g + 1 := ⟨gf - 1, by omega⟩
        simp [gType, hk, eraseTy]
    · -- tuple
      rename_i hk
      simp only [Except.bind_eq_ok, Prod.exists, parseToken_eq_ok] at h
      obtain ⟨kw, st1, ⟨hk, rfl, rfl⟩, t2, st2, ⟨h2, rfl, rfl⟩, h3⟩ := h
      split at h3
      · cases h3
      · simp only [Except.bind_eq_ok, Prod.exists] at h3
        obtain ⟨types, st3, hd, h4⟩ := h3
        split at h4
        · cases h4
        · rename_i hne
          simp only [Except.bind_eq_ok, Prod.exists, parseToken_eq_ok] at h4
          obtain ⟨close, st4, ⟨h5, rfl, rfl⟩, h6⟩ := h4
          cases h6
          have l1 := len_of_nextTok hk
          have l2 := len_of_nextTok h2
          have l5 := len_of_nextTok h5
          obtain ⟨hs3, hp3, hl3⟩ := parseDelimited_struct _ _ _ _
            (fun st x st1 hx => ⟨(ih st x st1 hx).1, (ih st x st1 hx).2.1⟩) _ _ _ _ hd
          have hl3' := hs3.len
          refine ⟨(Suf.adv _).trans (hs3.trans ((Suf.adv _).trans (Suf.adv _))), by omega, ?_⟩
          intro gf hgf
          obtain ⟨g, rfl⟩ : ∃ g, gf = g + 1 := ⟨gf - 1, by omega⟩
          obtain ⟨_, _, _, hm3⟩ := parseDelimited_commas_sound .CloseAngle typePeeks
            (parseType pf) eraseTy (gType g) g (fun st x st1 hx => by
              obtain ⟨a, b, c⟩ := ih st x st1 hx
              exact ⟨a, b, fun hB => c g (by omega)⟩) _ _ _ _ hd
          simp [gType, hk, h2, eraseTy]
          refine ⟨types.map eraseTy, abs st3, ?_, by simp [h5], eraseTys_eq_map _⟩
          rw [mem_list1]
          rcases hm3 (by omega) with ⟨rfl, _⟩ | hsep
          · simp at hne
          · exact ⟨hsep, by simp; omega⟩
    · -- list
      rename_i hk
      simp only [Except.bind_eq_ok, Prod.exists, parseToken_eq_ok] at h
      obtain ⟨kw, st1, ⟨hk, rfl, rfl⟩, t2, st2, ⟨h2, rfl, rfl⟩, ty1, st3, hty, close, st4, ⟨h5, rfl, rfl⟩, h6⟩ := h
      cases h6
      obtain ⟨hs3, hl3, hm3⟩ := ih _ _ _ hty
      have l1 := len_of_nextTok hk
      have l2 := len_of_nextTok h2
      have l5 := len_of_nextTok h5
      refine ⟨(Suf.adv _).trans (hs3.trans ((Suf.adv _).trans (Suf.adv _))), by omega, ?_⟩
      intro gf hgf
      obtain ⟨g, rfl⟩ : ∃ g, gf = g + 1 := ⟨gf - 1, by omega⟩
      simp [gType, hk, h2, eraseTy]
      exact ⟨_, _, hm3 g (by omega), by simp [h5], rfl⟩
    · -- option
      rename_i hk
      simp only [Except.bind_eq_ok, Prod.exists, parseToken_eq_ok] at h
      obtain ⟨kw, st1, ⟨hk, rfl, rfl⟩, t2, st2, ⟨h2, rfl, rfl⟩, ty1, st3, hty, close, st4, ⟨h5, rfl, rfl⟩, h6⟩ := h
      cases h6
      obtain ⟨hs3, hl3, hm3⟩ := ih _ _ _ hty
      have l1 := len_of_nextTok hk
      have l2 := len_of_nextTok h2
      have l5 := len_of_nextTok h5
      refine ⟨(Suf.adv _).trans (hs3.trans ((Suf.adv _).trans (Suf.adv _))), by omega, ?_⟩
      intro gf hgf
      obtain ⟨g, rfl⟩ : ∃ g, gf = g + 1 := ⟨gf - 1, by omega⟩
      simp [gType, hk, h2, eraseTy]
      exact ⟨_, _, hm3 g (by omega), by simp [h5], rfl⟩
    · -- result
      rename_i hk
      simp only [Except.bind_eq_ok, Prod.exists, parseToken_eq_ok] at h
      obtain ⟨kw, st1, ⟨hk, rfl, rfl⟩, h2⟩ := h
      obtain ⟨r, st2, hopt, h3⟩ := h2
      rw [parseOptional_eq_ok] at hopt
      have l1 := len_of_nextTok hk
      rcases hopt with ⟨hlt, a, ha, rfl⟩ | ⟨hne, _, rfl, rfl⟩
      · simp only [Except.bind_eq_ok, Prod.exists, parseToken_eq_ok] at ha
        obtain ⟨ok, st3, hok, err, st4, herr, close, st5, ⟨h5, rfl, rfl⟩, h6⟩ := ha
        cases h6
        cases h3
        have l2 := len_of_nextTok hlt
        have l5 := len_of_nextTok h5
        obtain ⟨hs3, hl3, hm3⟩ := typeOrHole_sound pf ih _ _ _ hok
        rw [parseOptional_eq_ok] at herr
        rcases herr with ⟨hc, e, he, rfl⟩ | ⟨hnc, _, rfl, rfl⟩
        · obtain ⟨hs4, hl4, hm4⟩ := typeOrHole_sound pf ih _ _ _ he
          have l3 := len_of_nextTok hc
          refine ⟨(Suf.adv _).trans (hs4.trans ((Suf.adv _).trans (hs3.trans ((Suf.adv _).trans (Suf.adv _))))), by omega, ?_⟩
          intro gf hgf
          obtain ⟨g, rfl⟩ : ∃ g, gf = g + 1 := ⟨gf - 1, by omega⟩
          simp [gType, hk, hlt, eraseTy]
          right
          exact ⟨_, _, hm3 g (by omega), .inl ⟨some (eraseTyOpt e), abs st4,
            ⟨eraseTyOpt e, ⟨(), abs (adv st3), by simp [hc], hm4 g (by omega)⟩, rfl⟩,
            ⟨(), by simp [h5]⟩, rfl, rfl⟩⟩
        · refine ⟨(Suf.adv _).trans (hs3.trans ((Suf.adv _).trans (Suf.adv _))), by omega, ?_⟩
          intro gf hgf
          obtain ⟨g, rfl⟩ : ∃ g, gf = g + 1 := ⟨gf - 1, by omega⟩
          simp [gType, hk, hlt, eraseTy]
          right
          exact ⟨_, _, hm3 g (by omega), .inr ⟨⟨(), by simp [h5]⟩, rfl, rfl⟩⟩
      · cases h3
        refine ⟨Suf.adv _, by omega, ?_⟩
        intro gf hgf
        obtain ⟨g, rfl⟩ : ∃ g, gf = g + 1 := ⟨gf - 1, by omega⟩
        simp [gType, hk, eraseTy, eraseTyOpt]
    · -- borrow
      rename_i hk
      simp only [Except.bind_eq_ok, Prod.exists, parseToken_eq_ok, parseIdent_eq_ok] at h
      obtain ⟨kw, st1, ⟨hk, rfl, rfl⟩, t2, st2, ⟨h2, rfl, rfl⟩, id, st3, ⟨h3, rfl, rfl⟩, close, st4, ⟨h5, rfl, rfl⟩, h6⟩ := h
      cases h6
      have l1 := len_of_nextTok hk
      have l2 := len_of_nextTok h2
      have l3 := len_of_nextTok h3
      have l5 := len_of_nextTok h5
      refine ⟨(Suf.adv _).trans ((Suf.adv _).trans ((Suf.adv _).trans (Suf.adv _))), by omega, ?_⟩
      intro gf hgf
      obtain ⟨g, rfl⟩ : ∃ g, gf = g + 1 := ⟨gf - 1, by omega⟩
      simp [gType, hk, h2, h3, h5, mem_gId, and_assoc, eraseTy, erase_identAt]
    · -- identifier
      rename_i hk
      simp only [Except.bind_eq_ok, Prod.exists, parseIdent_eq_ok] at h
      obtain ⟨id, st1, ⟨hk, rfl, rfl⟩, h2⟩ := h
      cases h2
      have l1 := len_of_nextTok hk
      refine ⟨Suf.adv _, by omega, ?_⟩
      intro gf hgf
      obtain ⟨g, rfl⟩ : ∃ g, gf = g + 1 := ⟨gf - 1, by omega⟩
      simp [gType, hk, mem_gId, and_assoc, eraseTy, erase_identAt]
    · cases h
  · rename_i x hn
    have := peekTok_of_next_none hn
    simp [this] at h

theorem parseType_sound (pf : Nat) (st : PState) (ty : Ty) (st' : PState)
    (h : parseType pf st = .ok (ty, st')) : Sound eraseTy gType 0 st ty st' := by
  induction pf generalizing st ty st' with
  | zero => simp [parseType] at h
  | succ pf ih => exact parseType_sound_step pf ih st ty st' h

/-! ### named types, function types -/

theorem parseNamedType_sound (pf : Nat) (st : PState) (n : NamedType) (st' : PState)
    (h : parseNamedType pf st = .ok (n, st')) : Sound eraseNamedType gNamedType 0 st n st' := by
  simp only [parseNamedType, Except.bind_eq_ok, Prod.exists, parseToken_eq_ok, parseIdent_eq_ok] at h
  obtain ⟨id, st1, ⟨h1, rfl, rfl⟩, t2, st2, ⟨h2, rfl, rfl⟩, ty, st3, hty, h4⟩ := h
  cases h4
  obtain ⟨hs3, hl3, hm3⟩ := parseType_sound _ _ _ _ hty
  have l1 := len_of_nextTok h1
  have l2 := len_of_nextTok h2
  refine ⟨hs3.trans ((Suf.adv _).trans (Suf.adv _)), by omega, ?_⟩
  intro gf hgf
  simp [gNamedType, h1, h2, mem_gId, and_assoc, eraseNamedType, erase_identAt]
  exact hm3 gf (by omega)

theorem parseResultList_sound (pf : Nat) (st : PState) (r : ResultList) (st' : PState)
    (h : parseResultList pf st = .ok (r, st')) :
    ∃ ty, r = .Scalar ty ∧ Sound eraseTy gType 0 st ty st' := by
  unfold parseResultList at h
  split at h
  · simp only [Except.bind_eq_ok, Prod.exists] at h
    obtain ⟨ty, st1, hty, h2⟩ := h
    cases h2
    exact ⟨ty, rfl, parseType_sound _ _ _ _ hty⟩
  · cases h

/-- the parameter list `'(' params? ')'` shared by function types and constructors -/
theorem paramList_sound (pf : Nat) (st : PState) (ps : List NamedType) (st3 : PState)
    (h1 : nextTok st = some .OpenParen)
    (hd : parseDelimited .CloseParen true [.Ident] (parseNamedType pf) pf (adv st) = .ok (ps, st3)) :
    Suf (adv st3) st ∧ (adv st3).toks.length + 2 ≤ st.toks.length ∧
    ∀ gf, st.toks.length ≤ (adv st3).toks.length + gf →
      (ps.map eraseNamedType, abs (adv st3)) ∈ gParamList gf (abs st) := by
  obtain ⟨hs3, hp3, hl3⟩ := parseDelimited_struct _ _ _ _
    (fun st x st1 hx => ⟨(parseNamedType_sound pf st x st1 hx).1, (parseNamedType_sound pf st x st1 hx).2.1⟩)
    _ _ _ _ hd
  replace hp3 := nextTok_of_peekTok hp3 (.inl rfl)
  have l1 := len_of_nextTok h1
  have l3 := len_of_nextTok hp3
  have hl3' := hs3.len
  refine ⟨(Suf.adv _).trans (hs3.trans (Suf.adv _)), by omega, ?_⟩
  intro gf hgf
  obtain ⟨_, _, _, hm3⟩ := parseDelimited_commas_sound .CloseParen [.Ident]
    (parseNamedType pf) eraseNamedType (gNamedType gf) gf (fun st x st1 hx => by
      obtain ⟨a, b, c⟩ := parseNamedType_sound pf st x st1 hx
      exact ⟨a, b, fun hB => c gf (by omega)⟩) _ _ _ _ hd
  simp [gParamList, h1]
  refine ⟨_, abs st3, ?_, by simp [hp3], rfl⟩
  rw [mem_list0]
  rcases hm3 (by omega) with ⟨rfl, rfl⟩ | hsep
  · right; simp
  · left; exact ⟨hsep, by simp; omega⟩

theorem parseFuncType_sound (pf : Nat) (st : PState) (f : FuncType) (st' : PState)
    (h : parseFuncType pf st = .ok (f, st')) : Sound eraseFuncType gFuncType 0 st f st' := by
  simp only [parseFuncType, Except.bind_eq_ok, Prod.exists, parseToken_eq_ok] at h
  obtain ⟨t1, st1, ⟨h1, rfl, rfl⟩, t2, st2, ⟨h2, rfl, rfl⟩, ps, st3, hd, t4, st4, ⟨h4, rfl, rfl⟩,
    res, st5, hres, h6⟩ := h
  cases h6
  obtain ⟨hs3, hl3, hm3⟩ := paramList_sound pf _ _ _ h2 hd
  have l1 := len_of_nextTok h1
  rw [parseOptional_eq_ok] at hres
  rcases hres with ⟨ha, r, hr, rfl⟩ | ⟨hna, _, rfl, rfl⟩
  · obtain ⟨ty, rfl, hs5, hl5, hm5⟩ := parseResultList_sound _ _ _ _ hr
    have l4 := len_of_nextTok ha
    refine ⟨hs5.trans ((Suf.adv _).trans (hs3.trans (Suf.adv _))), by omega, ?_⟩
    intro gf hgf
    simp [gFuncType, h1, eraseFuncType, eraseResultList]
    exact ⟨_, _, hm3 gf (by omega), _, ⟨_, ⟨(), _, by simp [ha], hm5 gf (by omega)⟩, rfl⟩, rfl, rfl⟩
  · refine ⟨hs3.trans (Suf.adv _), by omega, ?_⟩
    intro gf hgf
    simp [gFuncType, h1, eraseFuncType, eraseResultList]
    exact ⟨_, _, hm3 gf (by omega), .inr ⟨rfl, rfl⟩⟩


theorem parseFuncTypeRef_sound (pf : Nat) (st : PState) (f : FuncTypeRef) (st' : PState)
    (h : parseFuncTypeRef pf st = .ok (f, st')) : Sound eraseFuncTypeRef gFuncTypeRef 0 st f st' := by
  unfold parseFuncTypeRef at h
  split at h
  · rename_i hk
    simp only [Except.bind_eq_ok, Prod.exists] at h
    obtain ⟨ft, st1, hft, h2⟩ := h
    cases h2
    obtain ⟨hs, hl, hm⟩ := parseFuncType_sound _ _ _ _ hft
    refine ⟨hs, hl, ?_⟩
    intro gf hgf
    simp [gFuncTypeRef, eraseFuncTypeRef]
    exact hm gf hgf
  · rename_i hk
    simp only [Except.bind_eq_ok, Prod.exists, parseIdent_eq_ok] at h
    obtain ⟨id, st1, ⟨hk, rfl, rfl⟩, h2⟩ := h
    cases h2
    have l1 := len_of_nextTok hk
    refine ⟨Suf.adv _, by omega, ?_⟩
    intro gf hgf
    simp [gFuncTypeRef, hk, mem_gId, and_assoc, eraseFuncTypeRef, erase_identAt]
  · cases h

theorem parseResourceMethod_sound (pf : Nat) (st : PState) (m : ResourceMethod) (st' : PState)
    (h : parseResourceMethod pf st = .ok (m, st')) :
    Sound eraseResourceMethod gResourceItem 0 st m st' := by
  unfold parseResourceMethod at h
  split at h
  · -- constructor
    rename_i hk
    simp only [parseConstructor, Except.bind_eq_ok, Prod.exists, parseToken_eq_ok] at h
    obtain ⟨c, st1, ⟨kw, st2, ⟨hk, rfl, rfl⟩, t2, st3, ⟨h2, rfl, rfl⟩, ps, st4, hd, t5, st5, ⟨h5, rfl, rfl⟩,
      t6, st6, ⟨h6, rfl, rfl⟩, h7⟩, h8⟩ := h
    cases h7; cases h8
    obtain ⟨hs3, hl3, hm3⟩ := paramList_sound pf _ _ _ h2 hd
    have l1 := len_of_nextTok hk
    have l6 := len_of_nextTok h6
    refine ⟨(Suf.adv _).trans (hs3.trans (Suf.adv _)), by omega, ?_⟩
    intro gf hgf
    simp [gResourceItem, hk, eraseResourceMethod]
    exact ⟨_, _, hm3 gf (by omega), by simp [h6], rfl⟩
  · -- method
    rename_i hk
    simp only [parseMethod, Except.bind_eq_ok, Prod.exists, parseToken_eq_ok, parseIdent_eq_ok] at h
    obtain ⟨m, st1, ⟨id, st2, ⟨hk, rfl, rfl⟩, t2, st3, ⟨h2, rfl, rfl⟩, ft, st4, hft, t5, st5, ⟨h5, rfl, rfl⟩,
      h7⟩, h8⟩ := h
    cases h7; cases h8
    have l1 := len_of_nextTok hk
    have l2 := len_of_nextTok h2
    have l5 := len_of_nextTok h5
    by_cases hst : peekIs (adv (adv st)) .StaticKeyword = true
    · simp only [hst, if_true] at hft
      rw [peekIs_iff] at hst
      replace hst := nextTok_of_peekTok hst (.inl rfl)
      change parseFuncType pf (adv (adv (adv st))) = _ at hft
      obtain ⟨hs4, hl4, hm4⟩ := parseFuncType_sound _ _ _ _ hft
      have l3 := len_of_nextTok hst
      refine ⟨(Suf.adv _).trans (hs4.trans ((Suf.adv _).trans ((Suf.adv _).trans (Suf.adv _)))), by omega, ?_⟩
      intro gf hgf
      simp [gResourceItem, hk, h2, mem_gId, and_assoc, eraseResourceMethod, erase_identAt]
      left
      exact ⟨hst, some (), ⟨(), rfl⟩, _, _, hm4 gf (by omega), (), _, by simp [h5], by simp [hst], rfl, rfl⟩
    · have hst' : peekIs (adv (adv st)) .StaticKeyword = false := Bool.eq_false_iff.mpr hst
      simp only [hst', Bool.false_eq_true, if_false] at hft
      obtain ⟨hs4, hl4, hm4⟩ := parseFuncType_sound _ _ _ _ hft
      refine ⟨(Suf.adv _).trans (hs4.trans ((Suf.adv _).trans (Suf.adv _))), by omega, ?_⟩
      intro gf hgf
      simp [gResourceItem, hk, h2, mem_gId, and_assoc, eraseResourceMethod, erase_identAt]
      right
      exact ⟨_, _, hm4 gf (by omega), (), _, by simp [h5], hst', rfl, rfl⟩
  · cases h

/-! ### resources, variants, records, flags, enums -/

theorem parseResourceDecl_sound (pf : Nat) (st : PState) (d : ResourceDecl) (st' : PState)
    (h : parseResourceDecl pf st = .ok (d, st')) : Sound eraseResourceDecl gResourceDecl 0 st d st' := by
  simp only [parseResourceDecl, Except.bind_eq_ok, Prod.exists, parseToken_eq_ok, parseIdent_eq_ok] at h
  obtain ⟨t1, st1, ⟨h1, rfl, rfl⟩, id, st2, ⟨h2, rfl, rfl⟩, h3⟩ := h
  have l1 := len_of_nextTok h1
  have l2 := len_of_nextTok h2
  split at h3
  · rename_i hk
    replace hk := nextTok_of_peekTok hk (.inl rfl)
    cases h3
    have l3 := len_of_nextTok hk
    refine ⟨(Suf.adv _).trans ((Suf.adv _).trans (Suf.adv _)), by show (adv (adv (adv st))).toks.length < _; omega, ?_⟩
    intro gf hgf
    show (_, abs (adv (adv (adv st)))) ∈ _
    simp [gResourceDecl, h1, h2, hk, mem_gId, and_assoc, eraseResourceDecl, erase_identAt]
  · rename_i hk
    simp only [Except.bind_eq_ok, Prod.exists, parseToken_eq_ok] at h3
    obtain ⟨t4, st4, ⟨hk, rfl, rfl⟩, ms, st5, hd, t6, st6, ⟨h6, rfl, rfl⟩, h7⟩ := h3
    cases h7
    have l3 := len_of_nextTok hk
    have l6 := len_of_nextTok h6
    obtain ⟨hs5, hp5, hl5⟩ := parseDelimited_struct _ _ _ _
      (fun st x st1 hx => ⟨(parseResourceMethod_sound pf st x st1 hx).1,
        (parseResourceMethod_sound pf st x st1 hx).2.1⟩) _ _ _ _ hd
    have hl5' := hs5.len
    refine ⟨(Suf.adv _).trans (hs5.trans ((Suf.adv _).trans ((Suf.adv _).trans (Suf.adv _)))), by omega, ?_⟩
    intro gf hgf
    obtain ⟨_, _, _, hm5⟩ := parseDelimited_nocommas_sound .CloseBrace [.ConstructorKeyword, .Ident]
      (parseResourceMethod pf) eraseResourceMethod (gResourceItem gf) gf (fun st x st1 hx => by
        obtain ⟨a, b, c⟩ := parseResourceMethod_sound pf st x st1 hx
        exact ⟨a, b, fun hB => c gf (by omega)⟩) _ _ _ _ hd
    simp [gResourceDecl, h1, h2, hk, mem_gId, and_assoc, eraseResourceDecl, erase_identAt]
    refine ⟨_, abs st5, ?_, by simp [h6], rfl⟩
    rw [mem_many]
    exact ⟨hm5 (by omega), by simp; omega⟩
  · cases h3

/-- a non-empty comma-separated list up to `stop` against `list1` -/
theorem list1_sound {α β : Type} (stop : Token) (peeks : List Token) (item : PState → PR α) (er : α → β)
    (p : Nat → SP β)
    (hitem : ∀ st x st1, item st = .ok (x, st1) → Sound er p 0 st x st1)
    (pf : Nat) (st : PState) (xs : List α) (st3 : PState)
    (hd : parseDelimited stop true peeks item pf st = .ok (xs, st3)) (hne : ¬ xs.isEmpty = true) :
    Suf st3 st ∧ st3.toks.length < st.toks.length ∧ peekTok st3 = some stop ∧
    ∀ gf, st.toks.length ≤ st3.toks.length + gf → (xs.map er, abs st3) ∈ list1 (p gf) gf (abs st) := by
  obtain ⟨hs3, hp3, hl3⟩ := parseDelimited_struct _ _ _ _
    (fun st x st1 hx => ⟨(hitem st x st1 hx).1, (hitem st x st1 hx).2.1⟩) _ _ _ _ hd
  have hpos : 0 < xs.length := by
    cases xs with
    | nil => simp at hne
    | cons a l => simp
  refine ⟨hs3, by omega, hp3, ?_⟩
  intro gf hgf
  obtain ⟨_, _, _, hm3⟩ := parseDelimited_commas_sound stop peeks item er (p gf) gf
    (fun st x st1 hx => by
      obtain ⟨a, b, c⟩ := hitem st x st1 hx
      exact ⟨a, b, fun hB => c gf (by omega)⟩) _ _ _ _ hd
  rw [mem_list1]
  rcases hm3 hgf with ⟨rfl, _⟩ | hsep
  · simp at hne
  · exact ⟨hsep, by simp; omega⟩

/-- `variant-case ::= id ('(' type ')')?` (the inline recogniser of `gVariantDecl`) -/
def gVariantCase (fuel : Nat) : SP VariantCase := do
  let id ← gId; let ty ← opt (do t "("; let ty ← gType fuel; t ")"; pure ty); pure (⟨[], id, ty⟩ : VariantCase)

theorem gVariantDecl_eq (fuel : Nat) : gVariantDecl fuel = (do
    t "variant"; let id ← gId; t "{"
    let cases ← list1 (gVariantCase fuel) fuel
    t "}"; pure ⟨[], id, cases⟩) := rfl

theorem parseVariantCase_sound (pf : Nat) (st : PState) (c : VariantCase) (st' : PState)
    (h : parseVariantCase pf st = .ok (c, st')) : Sound eraseVariantCase gVariantCase 0 st c st' := by
  simp only [parseVariantCase, Except.bind_eq_ok, Prod.exists, parseIdent_eq_ok] at h
  obtain ⟨id, st1, ⟨h1, rfl, rfl⟩, o, st2, ho, h3⟩ := h
  cases h3
  have l1 := len_of_nextTok h1
  rw [parseOptional_eq_ok] at ho
  rcases ho with ⟨hp, ty, hty, rfl⟩ | ⟨hnp, _, rfl, rfl⟩
  · simp only [Except.bind_eq_ok, Prod.exists, parseToken_eq_ok] at hty
    obtain ⟨ty', st3, hty, t4, st4, ⟨h4, rfl, rfl⟩, h5⟩ := hty
    cases h5
    obtain ⟨hs3, hl3, hm3⟩ := parseType_sound _ _ _ _ hty
    have l2 := len_of_nextTok hp
    have l4 := len_of_nextTok h4
    refine ⟨(Suf.adv _).trans (hs3.trans ((Suf.adv _).trans (Suf.adv _))), by omega, ?_⟩
    intro gf hgf
    simp [gVariantCase, h1, hp, mem_gId, and_assoc, eraseVariantCase, erase_identAt]
    exact ⟨_, _, hm3 gf (by omega), by simp [h4], rfl⟩
  · refine ⟨Suf.adv _, by omega, ?_⟩
    intro gf hgf
    simp [gVariantCase, h1, mem_gId, and_assoc, eraseVariantCase, erase_identAt]


theorem parseVariantDecl_sound (pf : Nat) (st : PState) (d : VariantDecl) (st' : PState)
    (h : parseVariantDecl pf st = .ok (d, st')) : Sound eraseVariantDecl gVariantDecl 0 st d st' := by
  simp only [parseVariantDecl, Except.bind_eq_ok, Prod.exists, parseToken_eq_ok, parseIdent_eq_ok] at h
  obtain ⟨t1, st1, ⟨h1, rfl, rfl⟩, id, st2, ⟨h2, rfl, rfl⟩, t3, st3, ⟨h3, rfl, rfl⟩, cs, st4, hd,
    t5, st5, ⟨h5, rfl, rfl⟩, h6⟩ := h
  split at h6
  · cases h6
  · rename_i hne
    cases h6
    obtain ⟨hs4, hl4, _, hm4⟩ := list1_sound .CloseBrace [.Ident] (parseVariantCase pf) eraseVariantCase
      gVariantCase (parseVariantCase_sound pf) pf _ _ _ hd hne
    have l1 := len_of_nextTok h1
    have l2 := len_of_nextTok h2
    have l3 := len_of_nextTok h3
    have l5 := len_of_nextTok h5
    refine ⟨(Suf.adv _).trans (hs4.trans ((Suf.adv _).trans ((Suf.adv _).trans (Suf.adv _)))), by omega, ?_⟩
    intro gf hgf
    rw [gVariantDecl_eq]
    simp [h1, h2, h3, mem_gId, and_assoc, eraseVariantDecl, erase_identAt]
    exact ⟨_, _, hm4 gf (by omega), by simp [h5], rfl⟩

/-- `field ::= named-type` (the inline recogniser of `gRecordDecl`) -/
def gField (fuel : Nat) : SP Field := do
  let n ← gNamedType fuel; pure (⟨[], n.id, n.ty⟩ : Field)

theorem gRecordDecl_eq (fuel : Nat) : gRecordDecl fuel = (do
    t "record"; let id ← gId; t "{"
    let fields ← list1 (gField fuel) fuel
    t "}"; pure ⟨[], id, fields⟩) := rfl

theorem parseField_sound (pf : Nat) (st : PState) (f : Field) (st' : PState)
    (h : parseField pf st = .ok (f, st')) : Sound eraseField gField 0 st f st' := by
  simp only [parseField, Except.bind_eq_ok, Prod.exists] at h
  obtain ⟨n, st1, hn, h2⟩ := h
  cases h2
  obtain ⟨hs, hl, hm⟩ := parseNamedType_sound _ _ _ _ hn
  refine ⟨hs, hl, ?_⟩
  intro gf hgf
  simp only [gField, bind_apply, pure_apply, List.mem_flatMap, List.mem_singleton, Prod.mk.injEq, Prod.exists]
  exact ⟨_, _, hm gf hgf, rfl, rfl⟩

theorem parseRecordDecl_sound (pf : Nat) (st : PState) (d : RecordDecl) (st' : PState)
    (h : parseRecordDecl pf st = .ok (d, st')) : Sound eraseRecordDecl gRecordDecl 0 st d st' := by
  simp only [parseRecordDecl, Except.bind_eq_ok, Prod.exists, parseToken_eq_ok, parseIdent_eq_ok] at h
  obtain ⟨t1, st1, ⟨h1, rfl, rfl⟩, id, st2, ⟨h2, rfl, rfl⟩, t3, st3, ⟨h3, rfl, rfl⟩, cs, st4, hd,
    t5, st5, ⟨h5, rfl, rfl⟩, h6⟩ := h
  split at h6
  · cases h6
  · rename_i hne
    cases h6
    obtain ⟨hs4, hl4, _, hm4⟩ := list1_sound .CloseBrace [.Ident] (parseField pf) eraseField
      gField (parseField_sound pf) pf _ _ _ hd hne
    have l1 := len_of_nextTok h1
    have l2 := len_of_nextTok h2
    have l3 := len_of_nextTok h3
    have l5 := len_of_nextTok h5
    refine ⟨(Suf.adv _).trans (hs4.trans ((Suf.adv _).trans ((Suf.adv _).trans (Suf.adv _)))), by omega, ?_⟩
    intro gf hgf
    rw [gRecordDecl_eq]
    simp [h1, h2, h3, mem_gId, and_assoc, eraseRecordDecl, erase_identAt]
    exact ⟨_, _, hm4 gf (by omega), by simp [h5], rfl⟩

/-- `flag ::= id` (the inline recogniser of `gFlagsDecl`) -/
def gFlag : SP Flag := do let id ← gId; pure (⟨[], id⟩ : Flag)

theorem gFlagsDecl_eq (fuel : Nat) : gFlagsDecl fuel = (do
    t "flags"; let id ← gId; t "{"
    let flags ← list1 gFlag fuel
    t "}"; pure ⟨[], id, flags⟩) := rfl

theorem parseFlag_sound (st : PState) (f : Flag) (st' : PState)
    (h : parseFlag st = .ok (f, st')) : Sound eraseFlag (fun _ => gFlag) 0 st f st' := by
  simp only [parseFlag, Except.bind_eq_ok, Prod.exists, parseIdent_eq_ok] at h
  obtain ⟨id, st1, ⟨h1, rfl, rfl⟩, h2⟩ := h
  cases h2
  have l1 := len_of_nextTok h1
  refine ⟨Suf.adv _, by omega, ?_⟩
  intro gf hgf
  simp [gFlag, h1, mem_gId, and_assoc, eraseFlag, erase_identAt]

theorem parseFlagsDecl_sound (pf : Nat) (st : PState) (d : FlagsDecl) (st' : PState)
    (h : parseFlagsDecl pf st = .ok (d, st')) : Sound eraseFlagsDecl gFlagsDecl 0 st d st' := by
  simp only [parseFlagsDecl, Except.bind_eq_ok, Prod.exists, parseToken_eq_ok, parseIdent_eq_ok] at h
  obtain ⟨t1, st1, ⟨h1, rfl, rfl⟩, id, st2, ⟨h2, rfl, rfl⟩, t3, st3, ⟨h3, rfl, rfl⟩, cs, st4, hd,
    t5, st5, ⟨h5, rfl, rfl⟩, h6⟩ := h
  split at h6
  · cases h6
  · rename_i hne
    cases h6
    obtain ⟨hs4, hl4, _, hm4⟩ := list1_sound .CloseBrace [.Ident] parseFlag eraseFlag
      (fun _ => gFlag) parseFlag_sound pf _ _ _ hd hne
    have l1 := len_of_nextTok h1
    have l2 := len_of_nextTok h2
    have l3 := len_of_nextTok h3
    have l5 := len_of_nextTok h5
    refine ⟨(Suf.adv _).trans (hs4.trans ((Suf.adv _).trans ((Suf.adv _).trans (Suf.adv _)))), by omega, ?_⟩
    intro gf hgf
    rw [gFlagsDecl_eq]
    simp [h1, h2, h3, mem_gId, and_assoc, eraseFlagsDecl, erase_identAt]
    exact ⟨_, _, hm4 gf (by omega), by simp [h5], rfl⟩

/-- `enum-case ::= id` (the inline recogniser of `gEnumDecl`) -/
def gEnumCase : SP EnumCase := do let id ← gId; pure (⟨[], id⟩ : EnumCase)

theorem gEnumDecl_eq (fuel : Nat) : gEnumDecl fuel = (do
    t "enum"; let id ← gId; t "{"
    let cases ← list1 gEnumCase fuel
    t "}"; pure ⟨[], id, cases⟩) := rfl

theorem parseEnumCase_sound (st : PState) (c : EnumCase) (st' : PState)
    (h : parseEnumCase st = .ok (c, st')) : Sound eraseEnumCase (fun _ => gEnumCase) 0 st c st' := by
  simp only [parseEnumCase, Except.bind_eq_ok, Prod.exists, parseIdent_eq_ok] at h
  obtain ⟨id, st1, ⟨h1, rfl, rfl⟩, h2⟩ := h
  cases h2
  have l1 := len_of_nextTok h1
  refine ⟨Suf.adv _, by omega, ?_⟩
  intro gf hgf
  simp [gEnumCase, h1, mem_gId, and_assoc, eraseEnumCase, erase_identAt]

theorem parseEnumDecl_sound (pf : Nat) (st : PState) (d : EnumDecl) (st' : PState)
    (h : parseEnumDecl pf st = .ok (d, st')) : Sound eraseEnumDecl gEnumDecl 0 st d st' := by
  simp only [parseEnumDecl, Except.bind_eq_ok, Prod.exists, parseToken_eq_ok, parseIdent_eq_ok] at h
  obtain ⟨t1, st1, ⟨h1, rfl, rfl⟩, id, st2, ⟨h2, rfl, rfl⟩, t3, st3, ⟨h3, rfl, rfl⟩, cs, st4, hd,
    t5, st5, ⟨h5, rfl, rfl⟩, h6⟩ := h
  split at h6
  · cases h6
  · rename_i hne
    cases h6
    obtain ⟨hs4, hl4, _, hm4⟩ := list1_sound .CloseBrace [.Ident] parseEnumCase eraseEnumCase
      (fun _ => gEnumCase) parseEnumCase_sound pf _ _ _ hd hne
    have l1 := len_of_nextTok h1
    have l2 := len_of_nextTok h2
    have l3 := len_of_nextTok h3
    have l5 := len_of_nextTok h5
    refine ⟨(Suf.adv _).trans (hs4.trans ((Suf.adv _).trans ((Suf.adv _).trans (Suf.adv _)))), by omega, ?_⟩
    intro gf hgf
    rw [gEnumDecl_eq]
    simp [h1, h2, h3, mem_gId, and_assoc, eraseEnumDecl, erase_identAt]
    exact ⟨_, _, hm4 gf (by omega), by simp [h5], rfl⟩

/-! ### type aliases, type declarations -/

/-- `func-type | type` (the inline recogniser of `gTypeAlias`) -/
def gTypeAliasKind (fuel : Nat) : SP TypeAliasKind :=
  (do let f ← gFuncType fuel; pure (TypeAliasKind.Func f)) <+> (do let ty ← gType fuel; pure (TypeAliasKind.Type' ty))

theorem gTypeAlias_eq (fuel : Nat) : gTypeAlias fuel = (do
    t "type"; let id ← gId; t "="
    let kind ← gTypeAliasKind fuel
    t ";"; pure ⟨[], id, kind⟩) := rfl

theorem parseTypeAliasKind_sound (pf : Nat) (st : PState) (k : TypeAliasKind) (st' : PState)
    (h : parseTypeAliasKind pf st = .ok (k, st')) :
    Sound eraseTypeAliasKind gTypeAliasKind 0 st k st' := by
  unfold parseTypeAliasKind at h
  split at h
  · simp only [Except.bind_eq_ok, Prod.exists] at h
    obtain ⟨f, st1, hf, h2⟩ := h
    cases h2
    obtain ⟨hs, hl, hm⟩ := parseFuncType_sound _ _ _ _ hf
    refine ⟨hs, hl, ?_⟩
    intro gf hgf
    simp only [gTypeAliasKind, alt_apply, bind_apply, pure_apply, List.mem_append, List.mem_flatMap,
      List.mem_singleton, Prod.mk.injEq, Prod.exists]
    exact .inl ⟨_, _, hm gf hgf, rfl, rfl⟩
  · split at h
    · simp only [Except.bind_eq_ok, Prod.exists] at h
      obtain ⟨ty, st1, hty, h2⟩ := h
      cases h2
      obtain ⟨hs, hl, hm⟩ := parseType_sound _ _ _ _ hty
      refine ⟨hs, hl, ?_⟩
      intro gf hgf
      simp only [gTypeAliasKind, alt_apply, bind_apply, pure_apply, List.mem_append, List.mem_flatMap,
        List.mem_singleton, Prod.mk.injEq, Prod.exists]
      exact .inr ⟨_, _, hm gf hgf, rfl, rfl⟩
    · cases h

theorem parseTypeAlias_sound (pf : Nat) (st : PState) (a : TypeAlias) (st' : PState)
    (h : parseTypeAlias pf st = .ok (a, st')) : Sound eraseTypeAlias gTypeAlias 0 st a st' := by
  simp only [parseTypeAlias, Except.bind_eq_ok, Prod.exists, parseToken_eq_ok, parseIdent_eq_ok] at h
  obtain ⟨t1, st1, ⟨h1, rfl, rfl⟩, id, st2, ⟨h2, rfl, rfl⟩, t3, st3, ⟨h3, rfl, rfl⟩, k, st4, hk,
    t5, st5, ⟨h5, rfl, rfl⟩, h6⟩ := h
  cases h6
  obtain ⟨hs4, hl4, hm4⟩ := parseTypeAliasKind_sound _ _ _ _ hk
  have l1 := len_of_nextTok h1
  have l2 := len_of_nextTok h2
  have l3 := len_of_nextTok h3
  have l5 := len_of_nextTok h5
  refine ⟨(Suf.adv _).trans (hs4.trans ((Suf.adv _).trans ((Suf.adv _).trans (Suf.adv _)))), by omega, ?_⟩
  intro gf hgf
  rw [gTypeAlias_eq]
  simp [h1, h2, h3, mem_gId, and_assoc, eraseTypeAlias, erase_identAt]
  exact ⟨_, _, hm4 gf (by omega), by simp [h5], rfl⟩

theorem parseTypeDecl_sound (pf : Nat) (st : PState) (d : TypeDecl) (st' : PState)
    (h : parseTypeDecl pf st = .ok (d, st')) : Sound eraseTypeDecl gTypeDecl 0 st d st' := by
  unfold parseTypeDecl at h
  split at h
  · simp only [Except.bind_eq_ok, Prod.exists] at h
    obtain ⟨x, st1, hx, h2⟩ := h
    cases h2
    obtain ⟨hs, hl, hm⟩ := parseVariantDecl_sound _ _ _ _ hx
    refine ⟨hs, hl, fun gf hgf => ?_⟩
    simp [gTypeDecl, eraseTypeDecl, hm gf hgf]
  · simp only [Except.bind_eq_ok, Prod.exists] at h
    obtain ⟨x, st1, hx, h2⟩ := h
    cases h2
    obtain ⟨hs, hl, hm⟩ := parseRecordDecl_sound _ _ _ _ hx
    refine ⟨hs, hl, fun gf hgf => ?_⟩
    simp [gTypeDecl, eraseTypeDecl, hm gf hgf]
  · simp only [Except.bind_eq_ok, Prod.exists] at h
    obtain ⟨x, st1, hx, h2⟩ := h
    cases h2
    obtain ⟨hs, hl, hm⟩ := parseFlagsDecl_sound _ _ _ _ hx
    refine ⟨hs, hl, fun gf hgf => ?_⟩
    simp [gTypeDecl, eraseTypeDecl, hm gf hgf]
  · simp only [Except.bind_eq_ok, Prod.exists] at h
    obtain ⟨x, st1, hx, h2⟩ := h
    cases h2
    obtain ⟨hs, hl, hm⟩ := parseEnumDecl_sound _ _ _ _ hx
    refine ⟨hs, hl, fun gf hgf => ?_⟩
    simp [gTypeDecl, eraseTypeDecl, hm gf hgf]
  · simp only [Except.bind_eq_ok, Prod.exists] at h
    obtain ⟨x, st1, hx, h2⟩ := h
    cases h2
    obtain ⟨hs, hl, hm⟩ := parseTypeAlias_sound _ _ _ _ hx
    refine ⟨hs, hl, fun gf hgf => ?_⟩
    simp [gTypeDecl, eraseTypeDecl, hm gf hgf]
  · cases h

/-- the embedding of `TypeDecl` into `ItemTypeDecl` used by `gItemTypeDecl` -/
def itemOfTypeDecl : TypeDecl → ItemTypeDecl
  | .Variant d => .Variant d | .Record d => .Record d | .Flags d => .Flags d
  | .Enum d => .Enum d | .Alias d => .Alias d

theorem mem_gItemTypeDecl_of_typeDecl {gf : Nat} {d : TypeDecl} {ts r : List STok}
    (h : (d, r) ∈ gTypeDecl gf ts) : (itemOfTypeDecl d, r) ∈ gItemTypeDecl gf ts := by
  simp only [gItemTypeDecl, alt_apply, bind_apply, pure_apply, List.mem_append, List.mem_flatMap,
    List.mem_singleton, Prod.mk.injEq, Prod.exists]
  exact .inr ⟨_, _, h, by cases d <;> rfl, rfl⟩

theorem parseItemTypeDecl_sound (pf : Nat) (st : PState) (d : ItemTypeDecl) (st' : PState)
    (h : parseItemTypeDecl pf st = .ok (d, st')) : Sound eraseItemTypeDecl gItemTypeDecl 0 st d st' := by
  unfold parseItemTypeDecl at h
  split at h
  · simp only [Except.bind_eq_ok, Prod.exists] at h
    obtain ⟨x, st1, hx, h2⟩ := h
    cases h2
    obtain ⟨hs, hl, hm⟩ := parseResourceDecl_sound _ _ _ _ hx
    refine ⟨hs, hl, fun gf hgf => ?_⟩
    simp [gItemTypeDecl, eraseItemTypeDecl, hm gf hgf]
  · rename_i hk
    simp only [Except.bind_eq_ok, Prod.exists] at h
    obtain ⟨x, st1, hx, h2⟩ := h
    cases h2
    have ht : parseTypeDecl pf st = .ok (.Variant x, st') := by
      simp [parseTypeDecl, hk, hx, bind, Except.bind]
    obtain ⟨hs, hl, hm⟩ := parseTypeDecl_sound _ _ _ _ ht
    exact ⟨hs, hl, fun gf hgf => mem_gItemTypeDecl_of_typeDecl (hm gf hgf)⟩
  · rename_i hk
    simp only [Except.bind_eq_ok, Prod.exists] at h
    obtain ⟨x, st1, hx, h2⟩ := h
    cases h2
    have ht : parseTypeDecl pf st = .ok (.Record x, st') := by
      simp [parseTypeDecl, hk, hx, bind, Except.bind]
    obtain ⟨hs, hl, hm⟩ := parseTypeDecl_sound _ _ _ _ ht
    exact ⟨hs, hl, fun gf hgf => mem_gItemTypeDecl_of_typeDecl (hm gf hgf)⟩
  · rename_i hk
    simp only [Except.bind_eq_ok, Prod.exists] at h
    obtain ⟨x, st1, hx, h2⟩ := h
    cases h2
    have ht : parseTypeDecl pf st = .ok (.Flags x, st') := by
      simp [parseTypeDecl, hk, hx, bind, Except.bind]
    obtain ⟨hs, hl, hm⟩ := parseTypeDecl_sound _ _ _ _ ht
    exact ⟨hs, hl, fun gf hgf => mem_gItemTypeDecl_of_typeDecl (hm gf hgf)⟩
  · rename_i hk
    simp only [Except.bind_eq_ok, Prod.exists] at h
    obtain ⟨x, st1, hx, h2⟩ := h
    cases h2
    have ht : parseTypeDecl pf st = .ok (.Enum x, st') := by
      simp [parseTypeDecl, hk, hx, bind, Except.bind]
    obtain ⟨hs, hl, hm⟩ := parseTypeDecl_sound _ _ _ _ ht
    exact ⟨hs, hl, fun gf hgf => mem_gItemTypeDecl_of_typeDecl (hm gf hgf)⟩
  · rename_i hk
    simp only [Except.bind_eq_ok, Prod.exists] at h
    obtain ⟨x, st1, hx, h2⟩ := h
    cases h2
    have ht : parseTypeDecl pf st = .ok (.Alias x, st') := by
      simp [parseTypeDecl, hk, hx, bind, Except.bind]
    obtain ⟨hs, hl, hm⟩ := parseTypeDecl_sound _ _ _ _ ht
    exact ⟨hs, hl, fun gf hgf => mem_gItemTypeDecl_of_typeDecl (hm gf hgf)⟩
  · cases h

end Wac.C12
