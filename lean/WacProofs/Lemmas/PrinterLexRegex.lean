import WacModel.Lexer
import WacModel.PrintWF
/-
  C13, lexical layer 1: how the hand-written regex recognisers of `WacModel/Lexer.lean` (`idLen`,
  `packageNameTokLen`, `packagePathTokLen`, …) and `lexStep` behave on `token text ++ rest`.

  The recognisers are greedy scanners; each of them treats "end of input" and "a character that
  cannot continue the token" alike, so appending a text `b` that starts with such a character
  (`stopI`/`stopP`) does not change the result: `m (a ++ b) = m a` for EVERY `a`.  From these
  invariance lemmas the one-token lemmas `lexStep_*` follow: a well-formed token text followed by
  a text the printer may write after it is lexed as exactly that token.
-/
namespace Wac.Lemmas.PrinterLex
open Wac Wac.Ast Wac.Lex

/-- characters an identifier token can contain -/
def idChar (c : Char) : Bool := isLower c || isUpper c || isDigit c || c == '%' || c == '-'
/-- characters a package name / package path token can contain -/
def pkgChar (c : Char) : Bool := idChar c || c == ':' || c == '/' || c == '@' || c == '.' || c == '+'

/-- `b` cannot continue (or start) an identifier -/
def stopI : Str → Bool
  | [] => true
  | c :: _ => !idChar c

/-- what may follow a keyword or an identifier token: not an identifier character, and a `:` only
when no identifier follows it (otherwise the lexer would see a package name) -/
def stopW : Str → Bool
  | [] => true
  | ':' :: r => stopI r
  | c :: _ => !idChar c

/-- what may follow a package name / package path token: no character of such a token, except a
`.` that is not followed by a version character (`use a:b/c@1.0.0.{ … }`) -/
def stopP : Str → Bool
  | [] => true
  | '.' :: r => (match r with | [] => true | c :: _ => !isSemverChar c)
  | c :: _ => !pkgChar c

/-! ### characters -/

theorem charLe_iff (a c : Char) : a ≤ c ↔ a.toNat ≤ c.toNat := by
  rw [Char.le_def]
  show a.val ≤ c.val ↔ _
  rw [UInt32.le_iff_toNat_le]
  rfl

theorem charEq_iff (a c : Char) : a = c ↔ a.toNat = c.toNat := Char.toNat_inj.symm

theorem isLower_iff (c : Char) : isLower c = true ↔ 97 ≤ c.toNat ∧ c.toNat ≤ 122 := by
  simp only [isLower, Bool.and_eq_true, decide_eq_true_eq, charLe_iff]
  constructor <;> intro ⟨a, b⟩ <;> exact ⟨a, b⟩

theorem isUpper_iff (c : Char) : isUpper c = true ↔ 65 ≤ c.toNat ∧ c.toNat ≤ 90 := by
  simp only [isUpper, Bool.and_eq_true, decide_eq_true_eq, charLe_iff]
  constructor <;> intro ⟨a, b⟩ <;> exact ⟨a, b⟩

theorem isDigit_iff' (c : Char) : isDigit c = true ↔ 48 ≤ c.toNat ∧ c.toNat ≤ 57 := by
  simp only [isDigit, Bool.and_eq_true, decide_eq_true_eq, charLe_iff]
  constructor <;> intro ⟨a, b⟩ <;> exact ⟨a, b⟩

theorem idChar_iff (c : Char) : idChar c = true ↔
    (97 ≤ c.toNat ∧ c.toNat ≤ 122) ∨ (65 ≤ c.toNat ∧ c.toNat ≤ 90) ∨ (48 ≤ c.toNat ∧ c.toNat ≤ 57) ∨
      c.toNat = 37 ∨ c.toNat = 45 := by
  simp only [idChar, Bool.or_eq_true, isLower_iff, isUpper_iff, isDigit_iff', beq_iff_eq, charEq_iff]
  have h1 : '%'.toNat = 37 := rfl
  have h2 : '-'.toNat = 45 := rfl
  rw [h1, h2]
  omega


theorem pkgChar_iff (c : Char) : pkgChar c = true ↔
    (97 ≤ c.toNat ∧ c.toNat ≤ 122) ∨ (65 ≤ c.toNat ∧ c.toNat ≤ 90) ∨ (48 ≤ c.toNat ∧ c.toNat ≤ 57) ∨
      c.toNat = 37 ∨ c.toNat = 45 ∨
      c.toNat = 58 ∨ c.toNat = 47 ∨ c.toNat = 64 ∨ c.toNat = 46 ∨ c.toNat = 43 := by
  simp only [pkgChar, Bool.or_eq_true, idChar_iff, beq_iff_eq, charEq_iff, Char.reduceToNat]
  omega

theorem isSemverChar_iff (c : Char) : isSemverChar c = true ↔
    (97 ≤ c.toNat ∧ c.toNat ≤ 122) ∨ (65 ≤ c.toNat ∧ c.toNat ≤ 90) ∨ (48 ≤ c.toNat ∧ c.toNat ≤ 57) ∨
      c.toNat = 45 ∨ c.toNat = 43 := by
  simp only [isSemverChar, Bool.or_eq_true, isLower_iff, isUpper_iff, isDigit_iff', beq_iff_eq, charEq_iff,
    Char.reduceToNat]
  omega

theorem isSkipChar_iff (c : Char) : isSkipChar c = true ↔
    c.toNat = 32 ∨ c.toNat = 9 ∨ c.toNat = 13 ∨ c.toNat = 10 ∨ c.toNat = 12 := by
  simp only [isSkipChar, Bool.or_eq_true, beq_iff_eq, charEq_iff, Char.reduceToNat]
  omega

/-- decide a goal about character classes from hypotheses about character classes -/
macro "char_arith" : tactic => `(tactic|
  (simp only [Bool.not_eq_true', ← Bool.not_eq_true, bne_iff_ne, beq_iff_eq, ne_eq,
      pkgChar_iff, idChar_iff, isSemverChar_iff, isSkipChar_iff, isLower_iff, isUpper_iff, isDigit_iff',
      charEq_iff, Char.reduceToNat] at *
   omega))


/-! ### invariance of the recognisers under appending a stopping text -/

/-! #### the separated-repetition scanners, generically -/

/-- `(sep m)*` with fuel: the common shape of `dashWordsLen`, `colonIdsLen`, `dotChunksLen`,
`slashIdsLen` -/
def sepLen (sep : Char) (m : Str → Nat) : Nat → Str → Nat
  | 0, _ => 0
  | _ + 1, [] => 0
  | f + 1, c :: r =>
    if c = sep then (if m r = 0 then 0 else 1 + m r + sepLen sep m f (r.drop (m r))) else 0

theorem dashWordsLen_eq : dashWordsLen = sepLen '-' wordLen := by
  funext f s
  induction f generalizing s with
  | zero => rfl
  | succ f ih =>
    cases s with
    | nil => rfl
    | cons c r =>
      by_cases h : c = '-'
      · subst h; simp only [dashWordsLen, sepLen, ih, if_true]
      · simp only [sepLen, if_neg h]
        unfold dashWordsLen
        split
        · rename_i heq; cases heq; exact absurd rfl h
        · rfl


theorem colonIdsLen_eq : colonIdsLen = sepLen ':' idLen := by
  funext f s
  induction f generalizing s with
  | zero => rfl
  | succ f ih =>
    cases s with
    | nil => rfl
    | cons c r =>
      by_cases h : c = ':'
      · subst h; simp only [colonIdsLen, sepLen, ih, if_true]
      · simp only [sepLen, if_neg h]
        unfold colonIdsLen
        split
        · rename_i heq; cases heq; exact absurd rfl h
        · rfl

theorem slashIdsLen_eq : slashIdsLen = sepLen '/' idLen := by
  funext f s
  induction f generalizing s with
  | zero => rfl
  | succ f ih =>
    cases s with
    | nil => rfl
    | cons c r =>
      by_cases h : c = '/'
      · subst h; simp only [slashIdsLen, sepLen, ih, if_true]
      · simp only [sepLen, if_neg h]
        unfold slashIdsLen
        split
        · rename_i heq; cases heq; exact absurd rfl h
        · rfl

/-- the chunk scanner of `dotChunksLen` -/
def semverRun (r : Str) : Nat := (r.takeWhile isSemverChar).length

theorem dotChunksLen_eq : dotChunksLen = sepLen '.' semverRun := by
  funext f s
  induction f generalizing s with
  | zero => rfl
  | succ f ih =>
    cases s with
    | nil => rfl
    | cons c r =>
      by_cases h : c = '.'
      · subst h; simp only [dotChunksLen, sepLen, ih, if_true]; rfl
      · simp only [sepLen, if_neg h]
        unfold dotChunksLen
        split
        · rename_i heq; cases heq; exact absurd rfl h
        · rfl

theorem sepLen_nil (sep : Char) (m : Str → Nat) (f : Nat) : sepLen sep m f [] = 0 := by
  cases f <;> rfl

theorem sepLen_le (sep : Char) (m : Str → Nat) (hm : ∀ s, m s ≤ s.length) :
    ∀ f s, sepLen sep m f s ≤ s.length := by
  intro f
  induction f with
  | zero => intro s; simp [sepLen]
  | succ f ih =>
    intro s
    cases s with
    | nil => simp [sepLen]
    | cons c r =>
      simp only [sepLen]
      split
      · split
        · omega
        · have h1 := ih (r.drop (m r))
          have h2 := hm r
          simp only [List.length_drop, List.length_cons] at *
          omega
      · omega

/-- appending a text at which the scanner stops changes nothing, whatever the (sufficient) fuels -/
theorem sepLen_append (sep : Char) (m : Str → Nat) (b : Str) (hm : ∀ s, m s ≤ s.length)
    (hmb : ∀ a, m (a ++ b) = m a) (hb : ∀ f, sepLen sep m f b = 0) :
    ∀ f f' a, a.length ≤ f → a.length ≤ f' → sepLen sep m f (a ++ b) = sepLen sep m f' a := by
  intro f
  induction f with
  | zero =>
    intro f' a h _
    have : a = [] := List.length_eq_zero_iff.mp (by omega)
    subst this
    simp [sepLen, sepLen_nil]
  | succ f ih =>
    intro f' a h h'
    cases a with
    | nil => simp [hb, sepLen_nil]
    | cons c r =>
      cases f' with
      | zero => simp at h'
      | succ f' =>
        simp only [List.cons_append, sepLen, hmb]
        split
        · split
          · rfl
          · have h2 := hm r
            simp only [List.length_cons] at h h'
            rw [List.drop_append_of_le_length h2,
              ih f' (r.drop (m r)) (by simp only [List.length_drop]; omega)
                (by simp only [List.length_drop]; omega)]
        · rfl

/-! ### words and identifiers -/

theorem wordTailLen_le (u : Bool) (s : Str) : wordTailLen u s ≤ s.length := by
  induction s with
  | nil => simp [wordTailLen]
  | cons c r ih =>
    simp only [wordTailLen, List.length_cons]
    repeat' split
    all_goals omega

theorem wordTailLen_append (u : Bool) (a b : Str) (hb : stopI b = true) :
    wordTailLen u (a ++ b) = wordTailLen u a := by
  induction a with
  | nil =>
    cases b with
    | nil => rfl
    | cons c r =>
      simp only [stopI] at hb
      have h1 : isUpper c = false ∧ isLower c = false ∧ isDigit c = false := by char_arith
      simp [wordTailLen, h1]
  | cons c r ih => simp only [List.cons_append, wordTailLen, ih]

theorem wordLen_le (s : Str) : wordLen s ≤ s.length := by
  cases s with
  | nil => simp [wordLen]
  | cons c r =>
    have h1 := wordTailLen_le false r
    have h2 := wordTailLen_le true r
    simp only [wordLen, List.length_cons]
    split
    · omega
    · split <;> omega

theorem wordLen_append (a b : Str) (hb : stopI b = true) : wordLen (a ++ b) = wordLen a := by
  cases a with
  | nil =>
    cases b with
    | nil => rfl
    | cons c r =>
      simp only [stopI] at hb
      have h1 : isLower c = false ∧ isUpper c = false := by char_arith
      simp [wordLen, h1]
  | cons c r => simp only [List.cons_append, wordLen, wordTailLen_append _ _ _ hb]

/-- `idLen` after the optional `%` (`p` = 1 if there was one) -/
def idCore (p : Nat) (s : Str) : Nat :=
  if wordLen s = 0 then 0 else p + wordLen s + dashWordsLen s.length (s.drop (wordLen s))

theorem idLen_nil : idLen [] = 0 := rfl
theorem idLen_pct (r : Str) : idLen ('%' :: r) = idCore 1 r := rfl
theorem idLen_cons (c : Char) (r : Str) (h : c ≠ '%') : idLen (c :: r) = idCore 0 (c :: r) := by
  unfold idLen
  split
  rename_i p s' heq
  split at heq
  · rename_i h2; cases h2; exact absurd rfl h
  · cases heq; rfl


theorem stopI_dash {b : Str} (hb : stopI b = true) : ∀ f, sepLen '-' wordLen f b = 0 := by
  intro f
  cases f with
  | zero => rfl
  | succ f =>
    cases b with
    | nil => rfl
    | cons c r =>
      simp only [stopI] at hb
      have h : c ≠ '-' := by char_arith
      simp only [sepLen, if_neg h]

theorem idCore_append (p : Nat) (a b : Str) (hb : stopI b = true) : idCore p (a ++ b) = idCore p a := by
  unfold idCore
  rw [wordLen_append a b hb, List.drop_append_of_le_length (wordLen_le a), dashWordsLen_eq,
    sepLen_append '-' wordLen b wordLen_le (fun a => wordLen_append a b hb) (stopI_dash hb)
      (a ++ b).length a.length (a.drop (wordLen a)) (by simp only [List.length_drop, List.length_append]; omega)
      (by simp only [List.length_drop]; omega)]

theorem idCore_le (p : Nat) (s : Str) : idCore p s ≤ p + s.length := by
  unfold idCore
  split
  · omega
  · have h1 := wordLen_le s
    have h2 := sepLen_le '-' wordLen wordLen_le s.length (s.drop (wordLen s))
    rw [dashWordsLen_eq]
    simp only [List.length_drop] at h2
    omega

theorem idCore_zero_iff (p : Nat) (s : Str) : idCore p s = 0 ↔ wordLen s = 0 := by
  unfold idCore
  split <;> omega

theorem idLen_stop {b : Str} (hb : stopI b = true) : idLen b = 0 := by
  cases b with
  | nil => rfl
  | cons c r =>
    simp only [stopI] at hb
    have h : c ≠ '%' ∧ isLower c = false ∧ isUpper c = false := by char_arith
    rw [idLen_cons c r h.1, idCore_zero_iff]
    simp [wordLen, h]

theorem idLen_append (a b : Str) (hb : stopI b = true) : idLen (a ++ b) = idLen a := by
  cases a with
  | nil => rw [List.nil_append, idLen_stop hb, idLen_nil]
  | cons c r =>
    by_cases h : c = '%'
    · subst h; rw [List.cons_append, idLen_pct, idLen_pct, idCore_append 1 r b hb]
    · rw [List.cons_append, idLen_cons c _ h, idLen_cons c r h, ← List.cons_append, idCore_append 0 _ b hb]

theorem idLen_le (a : Str) : idLen a ≤ a.length := by
  cases a with
  | nil => simp [idLen_nil]
  | cons c r =>
    by_cases h : c = '%'
    · subst h; rw [idLen_pct]; have := idCore_le 1 r; simp only [List.length_cons]; omega
    · rw [idLen_cons c r h]; have := idCore_le 0 (c :: r); omega

/-- the first character of an identifier -/
def idHead (c : Char) : Bool := c == '%' || isLower c || isUpper c

theorem wordLen_head {c : Char} {r : Str} (h : wordLen (c :: r) ≠ 0) : isLower c = true ∨ isUpper c = true := by
  simp only [wordLen] at h
  by_cases h1 : isLower c = true
  · exact Or.inl h1
  · by_cases h2 : isUpper c = true
    · exact Or.inr h2
    · simp [h1, h2] at h

theorem idLen_head {c : Char} {r : Str} (h : idLen (c :: r) ≠ 0) : idHead c = true := by
  by_cases hc : c = '%'
  · subst hc; rfl
  · rw [idLen_cons c r hc] at h
    have := wordLen_head (fun h' => h ((idCore_zero_iff 0 _).mpr h'))
    simp only [idHead, Bool.or_eq_true]
    cases this with
    | inl h => exact Or.inl (Or.inr h)
    | inr h => exact Or.inr h

theorem idLen_of_not_head {c : Char} (r : Str) (h : idHead c = false) : idLen (c :: r) = 0 := by
  by_cases h' : idLen (c :: r) = 0
  · exact h'
  · rw [idLen_head h'] at h; cases h

theorem idLen_ne_nil {s : Str} (h : idLen s ≠ 0) : ∃ c r, s = c :: r ∧ idHead c = true := by
  cases s with
  | nil => exact absurd idLen_nil h
  | cons c r => exact ⟨c, r, rfl, idLen_head h⟩


/-! ### what `stopP` gives -/

theorem stopP_dot (r : Str) : stopP ('.' :: r) = (match r with | [] => true | c :: _ => !isSemverChar c) := rfl

theorem stopP_cons_ne (c : Char) (r : Str) (h : c ≠ '.') : stopP (c :: r) = !pkgChar c := by
  unfold stopP
  split
  · rename_i heq; cases heq
  · rename_i heq; cases heq; exact absurd rfl h
  · rename_i heq; cases heq; rfl

/-- the first character of a text that stops a package token is no version character and none of
`:`, `/`, `@` -/
theorem stopP_head {c : Char} {r : Str} (hb : stopP (c :: r) = true) :
    idChar c = false ∧ isSemverChar c = false ∧ isDigit c = false ∧ c ≠ ':' ∧ c ≠ '/' ∧ c ≠ '@' := by
  by_cases h : c = '.'
  · subst h; decide
  · rw [stopP_cons_ne c r h] at hb
    char_arith

theorem stopP_stopI {b : Str} (hb : stopP b = true) : stopI b = true := by
  cases b with
  | nil => rfl
  | cons c r => simp only [stopI, (stopP_head hb).1, Bool.not_false]

theorem takeWhile_append_stop (p : Char → Bool) (a b : Str) (hb : ∀ c r, b = c :: r → p c = false) :
    (a ++ b).takeWhile p = a.takeWhile p := by
  induction a with
  | nil =>
    cases b with
    | nil => rfl
    | cons c r => simp [List.takeWhile, hb c r rfl]
  | cons c r ih => simp only [List.cons_append, List.takeWhile_cons, ih]

theorem length_takeWhile_le (p : Char → Bool) (s : Str) : (s.takeWhile p).length ≤ s.length := by
  induction s with
  | nil => simp
  | cons c r ih => simp only [List.takeWhile_cons, List.length_cons]; split <;> simp only [List.length_cons, List.length_nil] <;> omega

theorem semverRun_le (s : Str) : semverRun s ≤ s.length := length_takeWhile_le _ _

theorem semverRun_append (a b : Str) (hb : stopP b = true) : semverRun (a ++ b) = semverRun a := by
  unfold semverRun
  rw [takeWhile_append_stop]
  intro c r h; subst h; exact (stopP_head hb).2.1

theorem stopP_sep {b : Str} (hb : stopP b = true) (sep : Char) (m : Str → Nat)
    (hsep : sep = ':' ∨ sep = '/' ∨ (sep = '.' ∧ m = semverRun)) : ∀ f, sepLen sep m f b = 0 := by
  intro f
  cases f with
  | zero => rfl
  | succ f =>
    cases b with
    | nil => rfl
    | cons c r =>
      by_cases h : c = sep
      · have hh := stopP_head hb
        rcases hsep with h1 | h1 | ⟨h1, h2⟩
        · exact absurd (h.trans h1) hh.2.2.2.1
        · exact absurd (h.trans h1) hh.2.2.2.2.1
        · subst h2; subst h1; subst h
          rw [stopP_dot] at hb
          have : semverRun r = 0 := by
            cases r with
            | nil => rfl
            | cons d r' =>
              simp only [Bool.not_eq_true'] at hb
              simp [semverRun, List.takeWhile, hb]
          simp only [sepLen, this, if_true]
      · simp only [sepLen, if_neg h]

/-! ### package names -/

theorem colonIdsLen_le (f : Nat) (s : Str) : colonIdsLen f s ≤ s.length := by
  rw [colonIdsLen_eq]; exact sepLen_le ':' idLen idLen_le f s

theorem slashIdsLen_le (f : Nat) (s : Str) : slashIdsLen f s ≤ s.length := by
  rw [slashIdsLen_eq]; exact sepLen_le '/' idLen idLen_le f s

theorem dotChunksLen_le (f : Nat) (s : Str) : dotChunksLen f s ≤ s.length := by
  rw [dotChunksLen_eq]; exact sepLen_le '.' semverRun semverRun_le f s

theorem packageNameLen_le (s : Str) : packageNameLen s ≤ s.length := by
  unfold packageNameLen
  have h1 := idLen_le s
  have h2 := colonIdsLen_le s.length (s.drop (idLen s))
  simp only [List.length_drop] at h2
  simp only []
  split
  · omega
  · split <;> omega

theorem packageNameLen_append (a b : Str) (hb : stopP b = true) :
    packageNameLen (a ++ b) = packageNameLen a := by
  unfold packageNameLen
  have hi := stopP_stopI hb
  simp only [idLen_append a b hi]
  rw [List.drop_append_of_le_length (idLen_le a), colonIdsLen_eq,
    sepLen_append ':' idLen b idLen_le (fun a => idLen_append a b hi) (stopP_sep hb _ _ (Or.inl rfl))
      (a ++ b).length a.length (a.drop (idLen a)) (by simp only [List.length_drop, List.length_append]; omega)
      (by simp only [List.length_drop]; omega)]

theorem semverLen_le (s : Str) : semverLen s ≤ s.length := by
  unfold semverLen
  have h1 : (s.takeWhile isDigit).length ≤ s.length := length_takeWhile_le _ _
  have h2 := dotChunksLen_le s.length (s.drop (s.takeWhile isDigit).length)
  simp only [List.length_drop] at h2
  simp only []
  split <;> omega

theorem semverLen_append (a b : Str) (hb : stopP b = true) : semverLen (a ++ b) = semverLen a := by
  unfold semverLen
  have ht : (a ++ b).takeWhile isDigit = a.takeWhile isDigit := by
    apply takeWhile_append_stop
    intro c r h; subst h; exact (stopP_head hb).2.2.1
  have h1 : (a.takeWhile isDigit).length ≤ a.length := length_takeWhile_le _ _
  simp only [ht]
  rw [List.drop_append_of_le_length h1, dotChunksLen_eq,
    sepLen_append '.' semverRun b semverRun_le (fun a => semverRun_append a b hb)
      (stopP_sep hb _ _ (Or.inr (Or.inr ⟨rfl, rfl⟩)))
      (a ++ b).length a.length (a.drop (a.takeWhile isDigit).length)
      (by simp only [List.length_drop, List.length_append]; omega)
      (by simp only [List.length_drop]; omega)]

theorem atVersionLen_nil : atVersionLen [] = 0 := rfl
theorem atVersionLen_at (r : Str) : atVersionLen ('@' :: r) = if semverLen r = 0 then 0 else 1 + semverLen r := rfl
theorem atVersionLen_cons_ne (c : Char) (r : Str) (h : c ≠ '@') : atVersionLen (c :: r) = 0 := by
  unfold atVersionLen
  split
  · rename_i heq; cases heq; exact absurd rfl h
  · rfl

theorem atVersionLen_le (s : Str) : atVersionLen s ≤ s.length := by
  cases s with
  | nil => simp [atVersionLen_nil]
  | cons c r =>
    by_cases h : c = '@'
    · subst h; rw [atVersionLen_at]; have := semverLen_le r; simp only [List.length_cons]; split <;> omega
    · rw [atVersionLen_cons_ne c r h]; omega

theorem atVersionLen_append (a b : Str) (hb : stopP b = true) : atVersionLen (a ++ b) = atVersionLen a := by
  cases a with
  | nil =>
    cases b with
    | nil => rfl
    | cons c r => rw [List.nil_append, atVersionLen_cons_ne c r (stopP_head hb).2.2.2.2.2]; rfl
  | cons c r =>
    by_cases h : c = '@'
    · subst h; rw [List.cons_append, atVersionLen_at, atVersionLen_at, semverLen_append r b hb]
    · rw [List.cons_append, atVersionLen_cons_ne c _ h, atVersionLen_cons_ne c r h]

theorem packageNameTokLen_append (a b : Str) (hb : stopP b = true) :
    packageNameTokLen (a ++ b) = packageNameTokLen a := by
  unfold packageNameTokLen
  simp only [packageNameLen_append a b hb]
  rw [List.drop_append_of_le_length (packageNameLen_le a), atVersionLen_append _ b hb]

theorem packageNameTokLen_le (s : Str) : packageNameTokLen s ≤ s.length := by
  unfold packageNameTokLen
  have h1 := packageNameLen_le s
  have h2 := atVersionLen_le (s.drop (packageNameLen s))
  simp only [List.length_drop] at h2
  simp only []
  split <;> omega

theorem packagePathTokLen_append (a b : Str) (hb : stopP b = true) :
    packagePathTokLen (a ++ b) = packagePathTokLen a := by
  unfold packagePathTokLen
  have hi := stopP_stopI hb
  have h1 := packageNameLen_le a
  have h2 := slashIdsLen_le a.length (a.drop (packageNameLen a))
  simp only [List.length_drop] at h2
  have h3 : slashIdsLen (a ++ b).length (List.drop (packageNameLen a) a ++ b) =
      slashIdsLen a.length (List.drop (packageNameLen a) a) := by
    rw [slashIdsLen_eq]
    exact sepLen_append '/' idLen b idLen_le (fun a => idLen_append a b hi) (stopP_sep hb _ _ (Or.inr (Or.inl rfl)))
      (a ++ b).length a.length (a.drop (packageNameLen a))
      (by simp only [List.length_drop, List.length_append]; omega)
      (by simp only [List.length_drop]; omega)
  simp only [packageNameLen_append a b hb]
  rw [List.drop_append_of_le_length h1, h3,
    List.drop_append_of_le_length (by omega), atVersionLen_append _ b hb]

theorem packagePathTokLen_le (s : Str) : packagePathTokLen s ≤ s.length := by
  unfold packagePathTokLen
  have h1 := packageNameLen_le s
  have h2 := slashIdsLen_le s.length (s.drop (packageNameLen s))
  have h3 := atVersionLen_le (s.drop (packageNameLen s + slashIdsLen s.length (s.drop (packageNameLen s))))
  simp only [List.length_drop] at h2 h3
  simp only []
  split
  · omega
  · split <;> omega


theorem slashIdsLen_of_atVersion (f : Nat) (t : Str) (h : atVersionLen t = t.length) :
    slashIdsLen f t = 0 := by
  rw [slashIdsLen_eq]
  cases t with
  | nil => exact sepLen_nil _ _ _
  | cons c r =>
    cases f with
    | zero => rfl
    | succ f =>
      by_cases hc : c = '/'
      · subst hc; rw [atVersionLen_cons_ne _ _ (by decide)] at h; simp at h
      · simp only [sepLen, if_neg hc]

/-- a text that is one whole `PackageName` token is not (the start of) a `PackagePath` token -/
theorem packagePathTokLen_of_packageName (s : Str) (h : packageNameTokLen s = s.length) :
    packagePathTokLen s = 0 := by
  unfold packagePathTokLen
  by_cases hn : packageNameLen s = 0
  · simp only [hn, if_true]
  · unfold packageNameTokLen at h
    simp only [hn, if_false] at h
    have h1 := packageNameLen_le s
    have h2 : atVersionLen (s.drop (packageNameLen s)) = (s.drop (packageNameLen s)).length := by
      simp only [List.length_drop]; omega
    simp only [hn, if_false, slashIdsLen_of_atVersion _ _ h2, if_true]

/-! ### one token -/

/-- `lexStep` at a character that starts neither white space, a comment nor a string: the longest
match among the regex tokens and the symbols -/
def lexRegex (s : Str) : Step :=
  let pp := packagePathTokLen s
  if pp > 0 then .tok (.ok .PackagePath) pp else
  let pn := packageNameTokLen s
  if pn > 0 then .tok (.ok .PackageName) pn else
  let n := idLen s
  if n > 0 then
    match lookupKeyword (s.take n) with
    | some kw => .tok (.ok kw) n
    | none => .tok (.ok .Ident) n
  else
    match matchSymbol s with
    | some (t, n) => .tok (.ok t) n
    | none => .tok (.error .UnexpectedToken) 1

theorem lexStep_eq_lexRegex (c : Char) (r : Str) (h1 : isSkipChar c = false) (h2 : c ≠ '/')
    (h3 : c ≠ '"') : lexStep (c :: r) = lexRegex (c :: r) := by
  have h2' : (c == '/') = false := by simpa using h2
  have h3' : (c == '"') = false := by simpa using h3
  unfold lexStep lexRegex
  simp only [h1, h2', h3', Bool.false_and, Bool.false_eq_true, if_false]
  rfl

theorem idHead_lex {c : Char} (h : idHead c = true) : isSkipChar c = false ∧ c ≠ '/' ∧ c ≠ '"' := by
  simp only [idHead, Bool.or_eq_true] at h
  char_arith

theorem packageNameLen_ne_zero {s : Str} (h : packageNameLen s ≠ 0) : idLen s ≠ 0 := by
  intro h'; apply h; unfold packageNameLen; simp only [h', if_true]

theorem packageNameTokLen_ne_zero {s : Str} (h : packageNameTokLen s ≠ 0) : packageNameLen s ≠ 0 := by
  intro h'; apply h; unfold packageNameTokLen; simp only [h', if_true]

theorem packagePathTokLen_ne_zero {s : Str} (h : packagePathTokLen s ≠ 0) : packageNameLen s ≠ 0 := by
  intro h'; apply h; unfold packagePathTokLen; simp only [h', if_true]

/-- what may follow an identifier does not continue it to a package name -/
theorem stopW_stopI {b : Str} (hb : stopW b = true) : stopI b = true := by
  cases b with
  | nil => rfl
  | cons c r =>
    by_cases h : c = ':'
    · subst h; rfl
    · unfold stopW at hb
      split at hb
      · rename_i heq; cases heq
      · rename_i heq; cases heq; exact absurd rfl h
      · rename_i heq; cases heq; exact hb

theorem stopW_colon {b : Str} (hb : stopW b = true) (f : Nat) : colonIdsLen f b = 0 := by
  rw [colonIdsLen_eq]
  cases f with
  | zero => rfl
  | succ f =>
    cases b with
    | nil => rfl
    | cons c r =>
      by_cases h : c = ':'
      · subst h
        have : stopI r = true := hb
        simp only [sepLen, idLen_stop this, if_true]
      · simp only [sepLen, if_neg h]

/-- a keyword or identifier followed by a text that stops it -/
theorem lexStep_word (t b : Str) (hne : t ≠ []) (hid : idLen t = t.length) (hb : stopW b = true) :
    lexStep (t ++ b) = .tok (.ok ((lookupKeyword t).getD .Ident)) t.length := by
  have hlen : t.length ≠ 0 := fun h => hne (List.length_eq_zero_iff.mp h)
  obtain ⟨c, r, rfl, hc⟩ := idLen_ne_nil (s := t) (by omega)
  have hl := idHead_lex hc
  rw [List.cons_append, lexStep_eq_lexRegex c _ hl.1 hl.2.1 hl.2.2, ← List.cons_append]
  have hI := stopW_stopI hb
  have hi : idLen (c :: r ++ b) = (c :: r).length := by rw [idLen_append _ _ hI, hid]
  have hpn : packageNameLen (c :: r ++ b) = 0 := by
    unfold packageNameLen
    simp only [hi, List.drop_left', stopW_colon hb, if_true, ite_self]
  have hpp : packagePathTokLen (c :: r ++ b) = 0 := by
    unfold packagePathTokLen; simp only [hpn, if_true]
  have hpt : packageNameTokLen (c :: r ++ b) = 0 := by
    unfold packageNameTokLen; simp only [hpn, if_true]
  unfold lexRegex
  simp only [hpp, hpt, hi, Nat.lt_irrefl, if_false, List.take_left']
  have : (c :: r).length > 0 := by omega
  simp only [this, if_true]
  cases lookupKeyword (c :: r) <;> rfl


theorem lexStep_ident (i : Ident) (b : Str) (hi : i.wf = true) (hb : stopW b = true) :
    lexStep (i.raw ++ b) = .tok (.ok .Ident) i.raw.length := by
  simp only [Ident.wf, Bool.and_eq_true, Bool.not_eq_true', beq_iff_eq, Option.isNone_iff_eq_none] at hi
  obtain ⟨⟨⟨h1, h2⟩, h3⟩, _⟩ := hi
  have hne : i.raw ≠ [] := by intro h; rw [h] at h1; cases h1
  rw [lexStep_word i.raw b hne h2 hb, h3]
  rfl

/-- the generated keyword table, evaluated -/
def keywordTableExplicit : List (Str × Token) := [
  ("import".toList, .ImportKeyword), ("with".toList, .WithKeyword), ("type".toList, .TypeKeyword),
  ("tuple".toList, .TupleKeyword), ("list".toList, .ListKeyword), ("option".toList, .OptionKeyword),
  ("result".toList, .ResultKeyword), ("borrow".toList, .BorrowKeyword),
  ("resource".toList, .ResourceKeyword), ("variant".toList, .VariantKeyword),
  ("record".toList, .RecordKeyword), ("flags".toList, .FlagsKeyword), ("enum".toList, .EnumKeyword),
  ("func".toList, .FuncKeyword), ("static".toList, .StaticKeyword),
  ("constructor".toList, .ConstructorKeyword), ("u8".toList, .U8Keyword), ("s8".toList, .S8Keyword),
  ("u16".toList, .U16Keyword), ("s16".toList, .S16Keyword), ("u32".toList, .U32Keyword),
  ("s32".toList, .S32Keyword), ("u64".toList, .U64Keyword), ("s64".toList, .S64Keyword),
  ("f32".toList, .F32Keyword), ("f64".toList, .F64Keyword), ("char".toList, .CharKeyword),
  ("bool".toList, .BoolKeyword), ("string".toList, .StringKeyword),
  ("interface".toList, .InterfaceKeyword), ("world".toList, .WorldKeyword),
  ("export".toList, .ExportKeyword), ("new".toList, .NewKeyword), ("let".toList, .LetKeyword),
  ("use".toList, .UseKeyword), ("include".toList, .IncludeKeyword), ("as".toList, .AsKeyword),
  ("package".toList, .PackageKeyword), ("targets".toList, .TargetsKeyword)]

/-- the generated symbol table, evaluated -/
def symbolTableExplicit : List (Str × Token) := [
  (";".toList, .Semicolon), ("{".toList, .OpenBrace), ("}".toList, .CloseBrace), (":".toList, .Colon),
  ("=".toList, .Equals), ("(".toList, .OpenParen), (")".toList, .CloseParen), ("->".toList, .Arrow),
  ("<".toList, .OpenAngle), (">".toList, .CloseAngle), ("_".toList, .Underscore),
  ("[".toList, .OpenBracket), ("]".toList, .CloseBracket), (".".toList, .Dot),
  ("...".toList, .Ellipsis), (",".toList, .Comma), ("/".toList, .Slash), ("@".toList, .At)]

theorem keywordTable_eq : keywordTable = keywordTableExplicit := by decide
theorem symbolTable_eq : symbolTable = symbolTableExplicit := by decide

theorem keywordTable_facts : ∀ e ∈ keywordTableExplicit,
    e.1 ≠ [] ∧ idLen e.1 = e.1.length ∧ (keywordTableExplicit.find? (·.1 == e.1)).map (·.2) = some e.2 := by
  decide

/-- every keyword is an identifier text that `lookupKeyword` maps to its token -/
theorem keyword_facts {text : Str} {k : Token} (hk : (text, k) ∈ keywordTable) :
    text ≠ [] ∧ idLen text = text.length ∧ lookupKeyword text = some k := by
  rw [keywordTable_eq] at hk
  have h := keywordTable_facts _ hk
  refine ⟨h.1, h.2.1, ?_⟩
  unfold lookupKeyword
  rw [keywordTable_eq]
  exact h.2.2

/-- every keyword of the (generated) table, followed by a text that stops it, is lexed as that
keyword -/
theorem lexStep_keyword (k : Token) (text b : Str) (hk : (text, k) ∈ keywordTable)
    (hb : stopW b = true) : lexStep (text ++ b) = .tok (.ok k) text.length := by
  obtain ⟨h1, h2, h3⟩ := keyword_facts hk
  rw [lexStep_word text b h1 h2 hb, h3]
  rfl

theorem lexStep_packageName (p : PackageName) (b : Str) (hp : p.wf = true) (hb : stopP b = true) :
    lexStep (p.string ++ b) = .tok (.ok .PackageName) p.string.length := by
  simp only [PackageName.wf, Bool.and_eq_true, Bool.not_eq_true', beq_iff_eq] at hp
  obtain ⟨⟨⟨h1, h2⟩, _⟩, _⟩ := hp
  generalize p.string = s at h1 h2
  have hne : s ≠ [] := by intro h; rw [h] at h1; cases h1
  have hlen : s.length ≠ 0 := fun h => hne (List.length_eq_zero_iff.mp h)
  obtain ⟨c, r, rfl, hc⟩ := idLen_ne_nil (s := s)
    (packageNameLen_ne_zero (packageNameTokLen_ne_zero (by omega)))
  have hl := idHead_lex hc
  rw [List.cons_append, lexStep_eq_lexRegex c _ hl.1 hl.2.1 hl.2.2, ← List.cons_append]
  unfold lexRegex
  simp only [packagePathTokLen_append _ b hb, packagePathTokLen_of_packageName _ h2,
    packageNameTokLen_append _ b hb, h2, Nat.lt_irrefl, if_false]
  have : (c :: r).length > 0 := by omega
  simp only [this, if_true]

theorem lexStep_packagePath (p : PackagePath) (b : Str) (hp : p.wf = true) (hb : stopP b = true) :
    lexStep (p.string ++ b) = .tok (.ok .PackagePath) p.string.length := by
  simp only [PackagePath.wf, Bool.and_eq_true, Bool.not_eq_true', beq_iff_eq] at hp
  obtain ⟨⟨⟨h1, h2⟩, _⟩, _⟩ := hp
  generalize p.string = s at h1 h2
  have hne : s ≠ [] := by intro h; rw [h] at h1; cases h1
  have hlen : s.length ≠ 0 := fun h => hne (List.length_eq_zero_iff.mp h)
  obtain ⟨c, r, rfl, hc⟩ := idLen_ne_nil (s := s)
    (packageNameLen_ne_zero (packagePathTokLen_ne_zero (by omega)))
  have hl := idHead_lex hc
  rw [List.cons_append, lexStep_eq_lexRegex c _ hl.1 hl.2.1 hl.2.2, ← List.cons_append]
  unfold lexRegex
  simp only [packagePathTokLen_append _ b hb, h2]
  have : (c :: r).length > 0 := by omega
  simp only [this, if_true]

theorem takeWhile_quote (v b : Str) (hv : v.contains '"' = false) :
    (v ++ '"' :: b).takeWhile (· != '"') = v := by
  induction v with
  | nil => simp
  | cons c r ih =>
    simp only [List.contains_cons, Bool.or_eq_false_iff] at hv
    have hc : (c != '"') = true := by
      have := hv.1
      simp only [bne_iff_ne, ne_eq]
      intro h; subst h; simp at this
    simp only [List.cons_append, List.takeWhile_cons, hc, if_true, ih hv.2]

theorem lexStep_string (s : StringLit) (b : Str) (hs : s.wf = true) :
    lexStep ('"' :: (s.value ++ '"' :: b)) = .tok (.ok .String) (s.value.length + 2) := by
  simp only [StringLit.wf, Bool.not_eq_true'] at hs
  unfold lexStep
  have h1 : isSkipChar '"' = false := by decide
  have h2 : ('"' == '/') = false := by decide
  simp only [h1, h2, Bool.false_and, Bool.false_eq_true, if_false, beq_self_eq_true, if_true,
    takeWhile_quote _ b hs, List.length_append, List.length_cons]
  have : s.value.length < s.value.length + (b.length + 1) := by omega
  simp only [this, if_true]


/-- the punctuation the printer writes -/
def printedSymbols : List (Str × Token) := [
  (";".toList, .Semicolon), ("{".toList, .OpenBrace), ("}".toList, .CloseBrace), (":".toList, .Colon),
  ("=".toList, .Equals), ("(".toList, .OpenParen), (")".toList, .CloseParen), ("->".toList, .Arrow),
  ("<".toList, .OpenAngle), (">".toList, .CloseAngle), ("_".toList, .Underscore),
  ("[".toList, .OpenBracket), ("]".toList, .CloseBracket), (".".toList, .Dot),
  ("...".toList, .Ellipsis), (",".toList, .Comma)]

theorem lexStep_of_matchSymbol (c : Char) (r : Str) (hc : idHead c = false)
    (h1 : isSkipChar c = false) (h2 : c ≠ '/') (h3 : c ≠ '"') (t : Token) (n : Nat)
    (hm : matchSymbol (c :: r) = some (t, n)) : lexStep (c :: r) = .tok (.ok t) n := by
  have hi := idLen_of_not_head r hc
  have hpn : packageNameLen (c :: r) = 0 := by
    unfold packageNameLen; simp only [hi, if_true]
  have hpp : packagePathTokLen (c :: r) = 0 := by
    unfold packagePathTokLen; simp only [hpn, if_true]
  have hpt : packageNameTokLen (c :: r) = 0 := by
    unfold packageNameTokLen; simp only [hpn, if_true]
  rw [lexStep_eq_lexRegex c r h1 h2 h3]
  unfold lexRegex
  simp only [hpp, hpt, hi, Nat.lt_irrefl, if_false, hm]

/-- the symbols of one character that are no prefix of another symbol -/
theorem matchSymbol_single (c : Char) (k : Token) (b : Str)
    (h : (c, k) ∈ [(';', Token.Semicolon), ('{', .OpenBrace), ('}', .CloseBrace), (':', .Colon),
      ('=', .Equals), ('(', .OpenParen), (')', .CloseParen), ('<', .OpenAngle), ('>', .CloseAngle),
      ('_', .Underscore), ('[', .OpenBracket), (']', .CloseBracket), (',', .Comma)]) :
    matchSymbol (c :: b) = some (k, 1) := by
  unfold matchSymbol
  rw [symbolTable_eq]
  simp only [List.mem_cons, Prod.mk.injEq, List.not_mem_nil, or_false] at h
  rcases h with ⟨rfl, rfl⟩ | ⟨rfl, rfl⟩ | ⟨rfl, rfl⟩ | ⟨rfl, rfl⟩ | ⟨rfl, rfl⟩ | ⟨rfl, rfl⟩ | ⟨rfl, rfl⟩ |
    ⟨rfl, rfl⟩ | ⟨rfl, rfl⟩ | ⟨rfl, rfl⟩ | ⟨rfl, rfl⟩ | ⟨rfl, rfl⟩ | ⟨rfl, rfl⟩ <;>
  simp [symbolTableExplicit]

theorem matchSymbol_dot (b : Str) (h : ¬ ("..".toList.isPrefixOf b = true)) :
    matchSymbol ('.' :: b) = some (.Dot, 1) := by
  unfold matchSymbol
  rw [symbolTable_eq]
  simpa [symbolTableExplicit] using h

theorem matchSymbol_ellipsis (b : Str) : matchSymbol ('.' :: '.' :: '.' :: b) = some (.Ellipsis, 3) := by
  unfold matchSymbol
  rw [symbolTable_eq]
  simp [symbolTableExplicit]

theorem matchSymbol_arrow (b : Str) : matchSymbol ('-' :: '>' :: b) = some (.Arrow, 2) := by
  unfold matchSymbol
  rw [symbolTable_eq]
  simp [symbolTableExplicit]

/-- a punctuation token is lexed as itself whatever follows, except that `.` must not be followed
by `..` (that would be `...`) -/
theorem lexStep_symbol (k : Token) (text b : Str) (hk : (text, k) ∈ printedSymbols)
    (hdot : k = .Dot → ¬ ("..".toList.isPrefixOf b = true)) :
    lexStep (text ++ b) = .tok (.ok k) text.length := by
  simp only [printedSymbols, List.mem_cons, Prod.mk.injEq, List.not_mem_nil, or_false] at hk
  rcases hk with ⟨rfl, rfl⟩ | ⟨rfl, rfl⟩ | ⟨rfl, rfl⟩ | ⟨rfl, rfl⟩ | ⟨rfl, rfl⟩ | ⟨rfl, rfl⟩ | ⟨rfl, rfl⟩ |
    ⟨rfl, rfl⟩ | ⟨rfl, rfl⟩ | ⟨rfl, rfl⟩ | ⟨rfl, rfl⟩ | ⟨rfl, rfl⟩ | ⟨rfl, rfl⟩ | ⟨rfl, rfl⟩ | ⟨rfl, rfl⟩ |
    ⟨rfl, rfl⟩
  · exact lexStep_of_matchSymbol ';' b (by decide) (by decide) (by decide) (by decide) _ 1
      (matchSymbol_single _ _ b (by decide))
  · exact lexStep_of_matchSymbol '{' b (by decide) (by decide) (by decide) (by decide) _ 1
      (matchSymbol_single _ _ b (by decide))
  · exact lexStep_of_matchSymbol '}' b (by decide) (by decide) (by decide) (by decide) _ 1
      (matchSymbol_single _ _ b (by decide))
  · exact lexStep_of_matchSymbol ':' b (by decide) (by decide) (by decide) (by decide) _ 1
      (matchSymbol_single _ _ b (by decide))
  · exact lexStep_of_matchSymbol '=' b (by decide) (by decide) (by decide) (by decide) _ 1
      (matchSymbol_single _ _ b (by decide))
  · exact lexStep_of_matchSymbol '(' b (by decide) (by decide) (by decide) (by decide) _ 1
      (matchSymbol_single _ _ b (by decide))
  · exact lexStep_of_matchSymbol ')' b (by decide) (by decide) (by decide) (by decide) _ 1
      (matchSymbol_single _ _ b (by decide))
  · exact lexStep_of_matchSymbol '-' ('>' :: b) (by decide) (by decide) (by decide) (by decide) _ 2
      (matchSymbol_arrow b)
  · exact lexStep_of_matchSymbol '<' b (by decide) (by decide) (by decide) (by decide) _ 1
      (matchSymbol_single _ _ b (by decide))
  · exact lexStep_of_matchSymbol '>' b (by decide) (by decide) (by decide) (by decide) _ 1
      (matchSymbol_single _ _ b (by decide))
  · exact lexStep_of_matchSymbol '_' b (by decide) (by decide) (by decide) (by decide) _ 1
      (matchSymbol_single _ _ b (by decide))
  · exact lexStep_of_matchSymbol '[' b (by decide) (by decide) (by decide) (by decide) _ 1
      (matchSymbol_single _ _ b (by decide))
  · exact lexStep_of_matchSymbol ']' b (by decide) (by decide) (by decide) (by decide) _ 1
      (matchSymbol_single _ _ b (by decide))
  · exact lexStep_of_matchSymbol '.' b (by decide) (by decide) (by decide) (by decide) _ 1
      (matchSymbol_dot b (hdot rfl))
  · exact lexStep_of_matchSymbol '.' ('.' :: '.' :: b) (by decide) (by decide) (by decide) (by decide) _ 3
      (matchSymbol_ellipsis b)
  · exact lexStep_of_matchSymbol ',' b (by decide) (by decide) (by decide) (by decide) _ 1
      (matchSymbol_single _ _ b (by decide))

end Wac.Lemmas.PrinterLex
