import WacModel.Spec.TreeSpans
import WacProofs.Lemmas.LexSpans
/-
  C14 (tree spans), layer 1: the executable predicates of `WacModel/Spec/TreeSpans.lean`
  (`dropBytes`, `takeBytes`, `isBoundary`, `spanIn`, `textAt`) mean what they say — they are
  equivalent to the declarative `Slice` / "∃ pre post" statements the existing C14 theorems use —
  and the span constructions of the parser (`Span.cover`, …) preserve `spanIn`.
-/
namespace Wac.Lemmas.TreeSpans
open Wac Wac.Ast Wac.Lex Wac.Lemmas Wac.Lemmas.LexSpans Wac.Spec.TreeSpans

theorem dropBytes_zero (s : Str) : dropBytes s 0 = some s := by cases s <;> rfl

theorem takeBytes_zero (s : Str) : takeBytes s 0 = some [] := by cases s <;> rfl

theorem dropBytes_cons_add (c : Char) (r : Str) (m : Nat) :
    dropBytes (c :: r) (c.utf8Size + m) = dropBytes r m := by
  have hp := utf8Size_pos c
  obtain ⟨k, hk⟩ : ∃ k, c.utf8Size + m = k + 1 := ⟨c.utf8Size + m - 1, by omega⟩
  rw [hk, dropBytes, if_neg (by omega)]
  congr 1; omega

theorem takeBytes_cons_add (c : Char) (r : Str) (m : Nat) :
    takeBytes (c :: r) (c.utf8Size + m) = (takeBytes r m).map (c :: ·) := by
  have hp := utf8Size_pos c
  obtain ⟨k, hk⟩ : ∃ k, c.utf8Size + m = k + 1 := ⟨c.utf8Size + m - 1, by omega⟩
  rw [hk, takeBytes, if_neg (by omega)]
  congr 2; omega

theorem dropBytes_append (pre s : Str) : dropBytes (pre ++ s) (utf8Len pre) = some s := by
  induction pre with
  | nil => simpa using dropBytes_zero s
  | cons c r ih => rw [utf8Len_cons, List.cons_append, dropBytes_cons_add]; exact ih

theorem takeBytes_append (text post : Str) : takeBytes (text ++ post) (utf8Len text) = some text := by
  induction text with
  | nil => simpa using takeBytes_zero post
  | cons c r ih => rw [utf8Len_cons, List.cons_append, takeBytes_cons_add, ih]; rfl

theorem dropBytes_some {s : Str} {n : Nat} {r : Str} (h : dropBytes s n = some r) :
    ∃ pre, s = pre ++ r ∧ n = utf8Len pre := by
  induction s generalizing n with
  | nil =>
    cases n with
    | zero => rw [dropBytes_zero] at h; cases h; exact ⟨[], by simp, by simp⟩
    | succ n => simp [dropBytes] at h
  | cons c t ih =>
    cases n with
    | zero => rw [dropBytes_zero] at h; cases h; exact ⟨[], by simp, by simp⟩
    | succ n =>
      rw [dropBytes] at h
      split at h
      · cases h
      · obtain ⟨pre, h1, h2⟩ := ih h
        exact ⟨c :: pre, by rw [h1]; rfl, by rw [utf8Len_cons]; omega⟩

theorem takeBytes_some {s : Str} {n : Nat} {t : Str} (h : takeBytes s n = some t) :
    ∃ post, s = t ++ post ∧ n = utf8Len t := by
  induction s generalizing n t with
  | nil =>
    cases n with
    | zero => rw [takeBytes_zero] at h; cases h; exact ⟨[], by simp, by simp⟩
    | succ n => simp [takeBytes] at h
  | cons c r ih =>
    cases n with
    | zero => rw [takeBytes_zero] at h; cases h; exact ⟨c :: r, by simp, by simp⟩
    | succ n =>
      rw [takeBytes] at h
      split at h
      · cases h
      · cases hr : takeBytes r (n + 1 - c.utf8Size) with
        | none => simp [hr] at h
        | some t' =>
          simp [hr] at h
          obtain ⟨post, h1, h2⟩ := ih hr
          subst h
          exact ⟨post, by rw [h1]; rfl, by rw [utf8Len_cons]; omega⟩

/-- `textAt` is the executable form of `Slice` -/
theorem textAt_iff {src : Str} {sp : Span} {text : Str} : textAt src sp = some text ↔ Slice src sp text := by
  constructor
  · intro h
    unfold textAt at h
    cases hd : dropBytes src sp.offset with
    | none => simp [hd] at h
    | some r =>
      simp [hd] at h
      obtain ⟨pre, h1, h2⟩ := dropBytes_some hd
      obtain ⟨post, h3, h4⟩ := takeBytes_some h
      exact ⟨pre, post, by rw [h1, h3, List.append_assoc], h2, h4⟩
  · rintro ⟨pre, post, h1, h2, h3⟩
    unfold textAt
    rw [h1, h2, h3, List.append_assoc, dropBytes_append]
    simp [takeBytes_append]

theorem textAt_of_slice {src : Str} {sp : Span} {text : Str} (h : Slice src sp text) :
    textAt src sp = some text := textAt_iff.mpr h

/-- `isBoundary` is the executable form of "∃ pre post, src = pre ++ post ∧ n = |pre|" -/
theorem isBoundary_iff {src : Str} {n : Nat} :
    isBoundary src n = true ↔ ∃ pre post, src = pre ++ post ∧ n = utf8Len pre := by
  unfold isBoundary
  constructor
  · intro h
    cases hd : dropBytes src n with
    | none => simp [hd] at h
    | some r => obtain ⟨pre, h1, h2⟩ := dropBytes_some hd; exact ⟨pre, r, h1, h2⟩
  · rintro ⟨pre, post, h1, h2⟩
    rw [h1, h2, dropBytes_append]; rfl

theorem isBoundary_le {src : Str} {n : Nat} (h : isBoundary src n = true) : n ≤ utf8Len src := by
  obtain ⟨pre, post, h1, h2⟩ := isBoundary_iff.mp h
  rw [h1, h2, utf8Len_append]; omega

theorem spanIn_iff {src : Str} {sp : Span} :
    spanIn src sp = true ↔ sp.offset + sp.len ≤ utf8Len src ∧ isBoundary src sp.offset = true ∧
      isBoundary src (sp.offset + sp.len) = true := by
  simp [spanIn, and_assoc]

theorem spanIn_mk {src : Str} {o l : Nat} (h1 : isBoundary src o = true) (h2 : isBoundary src (o + l) = true) :
    spanIn src ⟨o, l⟩ = true :=
  spanIn_iff.mpr ⟨isBoundary_le h2, h1, h2⟩

theorem spanIn_of_slice {src : Str} {sp : Span} {text : Str} (h : Slice src sp text) : spanIn src sp = true := by
  have hb := h.in_bounds
  obtain ⟨pre, post, h1, h2, h3⟩ := h
  refine spanIn_iff.mpr ⟨hb, isBoundary_iff.mpr ⟨pre, text ++ post, by rw [h1, List.append_assoc], h2⟩,
    isBoundary_iff.mpr ⟨pre ++ text, post, h1, by rw [h2, h3, utf8Len_append]⟩⟩

theorem spanIn_of_textAt {src : Str} {sp : Span} {text : Str} (h : textAt src sp = some text) :
    spanIn src sp = true := spanIn_of_slice (textAt_iff.mp h)

/-- two character boundaries delimit a slice -/
theorem slice_of_boundaries {src : Str} {a b : Nat} (ha : isBoundary src a = true) (hb : isBoundary src b = true)
    (hab : a ≤ b) : ∃ text, Slice src ⟨a, b - a⟩ text := by
  obtain ⟨p1, q1, h1, e1⟩ := isBoundary_iff.mp ha
  obtain ⟨p2, q2, h2, e2⟩ := isBoundary_iff.mp hb
  -- `p1` is a prefix of `p2`
  have key : ∀ (p1 p2 q1 q2 : Str), p1 ++ q1 = p2 ++ q2 → utf8Len p1 ≤ utf8Len p2 → ∃ m, p2 = p1 ++ m := by
    intro p1
    induction p1 with
    | nil => intro p2 _ _ _ _; exact ⟨p2, rfl⟩
    | cons c r ih =>
      intro p2 q1 q2 he hl
      cases p2 with
      | nil => have := utf8Size_pos c; simp at hl; omega
      | cons d r2 =>
        simp only [List.cons_append, List.cons.injEq] at he
        obtain ⟨hcd, he⟩ := he
        subst hcd
        obtain ⟨m, hm⟩ := ih r2 q1 q2 he (by simp at hl; omega)
        exact ⟨m, by rw [hm]; rfl⟩
  obtain ⟨m, hm⟩ := key p1 p2 q1 q2 (by rw [← h1, ← h2]) (by omega)
  refine ⟨m, p1, q2, by rw [h2, hm], e1, ?_⟩
  show b - a = utf8Len m
  rw [e1, e2, hm, utf8Len_append]; omega

/-- `spanIn` holds exactly for the byte ranges of sub-lists of the source -/
theorem spanIn_iff_slice {src : Str} {sp : Span} : spanIn src sp = true ↔ ∃ text, Slice src sp text := by
  constructor
  · intro h
    obtain ⟨_, h2, h3⟩ := spanIn_iff.mp h
    obtain ⟨text, ht⟩ := slice_of_boundaries h2 h3 (Nat.le_add_right _ _)
    refine ⟨text, ?_⟩
    have : (⟨sp.offset, sp.offset + sp.len - sp.offset⟩ : Span) = sp := by
      cases sp; simp
    rwa [this] at ht
  · rintro ⟨text, h⟩; exact spanIn_of_slice h

theorem spanIn_isSome {src : Str} {sp : Span} : spanIn src sp = (textAt src sp).isSome := by
  cases hs : spanIn src sp with
  | true =>
    obtain ⟨text, ht⟩ := spanIn_iff_slice.mp hs
    rw [textAt_of_slice ht]; rfl
  | false =>
    cases ht : textAt src sp with
    | none => rfl
    | some text => rw [spanIn_of_textAt ht] at hs; cases hs

/-! ### the span constructions of the parser -/

/-- `SourceSpan::new(a.offset, b.end - a.offset)`: inside the source whatever the order of `a`, `b` -/
theorem spanIn_cover {src : Str} {a b : Span} (ha : spanIn src a = true) (hb : spanIn src b = true) :
    spanIn src (a.cover b) = true := by
  obtain ⟨_, a2, _⟩ := spanIn_iff.mp ha
  obtain ⟨_, _, b3⟩ := spanIn_iff.mp hb
  unfold Span.cover
  apply spanIn_mk a2
  by_cases h : a.offset ≤ b.offset + b.len
  · rw [show a.offset + (b.offset + b.len - a.offset) = b.offset + b.len by omega]; exact b3
  · rw [show a.offset + (b.offset + b.len - a.offset) = a.offset by omega]; exact a2

/-- the span of `.id`: from the dot to the end of the identifier (the identifier starts after the dot) -/
theorem spanIn_access {src : Str} {a b : Span} (ha : spanIn src a = true) (hb : spanIn src b = true)
    (hab : a.offset ≤ b.offset) : spanIn src ⟨a.offset, b.offset - a.offset + b.len⟩ = true := by
  obtain ⟨_, a2, _⟩ := spanIn_iff.mp ha
  obtain ⟨_, _, b3⟩ := spanIn_iff.mp hb
  apply spanIn_mk a2
  rw [show a.offset + (b.offset - a.offset + b.len) = b.offset + b.len by omega]; exact b3

end Wac.Lemmas.TreeSpans
