import WacProofs.Lemmas.Combinators
/-
  C12 proofs: soundness of the parser model w.r.t. the grammar specification — expressions.

  For every nonterminal `X` with parser `parseX` and recogniser `gX`:
    `parseX pf st = .ok (x, st')` implies
      * `st'` is `st` after consuming at least one item (`Suf st' st`, strict length), and
      * `(eraseX x, abs st') ∈ gX gf (abs st)` for every grammar fuel `gf` that is at least the
        number of consumed items (+1 for `expr`): the derivation the parser found is a derivation
        of the grammar, and the grammar's fuel need is bounded by the tokens the phrase occupies.
-/
namespace Wac.C12
open Wac Wac.Ast Wac.Lex Wac.Parse Wac.Spec.Grammar

/-! ### postfix expressions -/

theorem mem_gPostfix {st : PState} {x : PostfixExpr} {r : List STok} :
    (x, r) ∈ gPostfix (abs st) ↔
      (nextTok st = some .Dot ∧ nextTok (adv st) = some .Ident ∧ r = abs (adv (adv st)) ∧
        x = .Access ⟨z, identOf (tokAt (adv st)).text⟩) ∨
      (nextTok st = some .OpenBracket ∧ nextTok (adv st) = some .String ∧
        nextTok (adv (adv st)) = some .CloseBracket ∧ r = abs (adv (adv (adv st))) ∧
        x = .NamedAccess ⟨z, stringOf (tokAt (adv st)).text⟩) := by
  unfold gPostfix
  simp [mem_gId, mem_gString, and_assoc]

theorem parsePostfix_sound (n : Nat) (st : PState) (ps : List PostfixExpr) (st' : PState)
    (h : parsePostfix n st = .ok (ps, st')) :
    Suf st' st ∧ 2 * ps.length + st'.toks.length ≤ st.toks.length ∧
      Many gPostfix (ps.map erasePostfix) (abs st) (abs st') ∧
      nextTok st' ≠ some .Dot ∧ nextTok st' ≠ some .OpenBracket := by
  induction n generalizing st ps st' with
  | zero => simp [parsePostfix] at h
  | succ n ih =>
    unfold parsePostfix at h
    split at h
    · rename_i hd
      simp only [parseAccessExpr, Except.bind_eq_ok, Prod.exists, parseToken_eq_ok, parseIdent_eq_ok] at h
      obtain ⟨a, st2, ⟨t1, st1, ⟨hd, rfl, rfl⟩, id, st2', ⟨h2, rfl, rfl⟩, h3⟩, rest, st3, hrec, h4⟩ := h
      cases h3; cases h4
      obtain ⟨hs, hl, hm, hn⟩ := ih _ _ _ hrec
      have l1 := len_of_nextTok hd
      have l2 := len_of_nextTok h2
      refine ⟨hs.trans ((Suf.adv _).trans (Suf.adv _)), by simp; omega, ?_, hn⟩
      refine .cons (mem_gPostfix.mpr (.inl ⟨hd, h2, rfl, ?_⟩)) hm
      simp [erasePostfix, erase_identAt]
    · rename_i hd
      simp only [parseNamedAccessExpr, Except.bind_eq_ok, Prod.exists, parseToken_eq_ok, parseString_eq_ok] at h
      obtain ⟨a, st2, ⟨t1, st1, ⟨hd, rfl, rfl⟩, s, st2', ⟨h2, rfl, rfl⟩, t3, st3', ⟨h3, rfl, rfl⟩, h4⟩, rest, st3, hrec, h5⟩ := h
      cases h4; cases h5
      obtain ⟨hs, hl, hm, hn⟩ := ih _ _ _ hrec
      have l1 := len_of_nextTok hd
      have l2 := len_of_nextTok h2
      have l3 := len_of_nextTok h3
      refine ⟨hs.trans ((Suf.adv _).trans ((Suf.adv _).trans (Suf.adv _))), by simp; omega, ?_, hn⟩
      refine .cons (mem_gPostfix.mpr (.inr ⟨hd, h2, h3, rfl, ?_⟩)) hm
      simp [erasePostfix, erase_stringAt]
    · rename_i hnd hnb
      cases h
      exact ⟨Suf.refl _, by simp, .nil _, fun h => hnd (peekTok_of_nextTok h), fun h => hnb (peekTok_of_nextTok h)⟩

/-! ### expressions: soundness -/

def SoundE (st : PState) (e : Expr) (st' : PState) : Prop :=
  Suf st' st ∧ st'.toks.length < st.toks.length ∧
  ∀ gf, st.toks.length + 1 ≤ st'.toks.length + gf → (eraseExpr e, abs st') ∈ gExpr gf (abs st)

theorem SoundE_iff (st : PState) (e : Expr) (st' : PState) :
    SoundE st e st' ↔ Sound eraseExpr gExpr 1 st e st' := Iff.rfl

def SoundP (st : PState) (e : PrimaryExpr) (st' : PState) : Prop :=
  Suf st' st ∧ st'.toks.length < st.toks.length ∧
  ∀ gf, st.toks.length ≤ st'.toks.length + gf → (erasePrimary e, abs st') ∈ gPrimary gf (abs st)

def SoundA (st : PState) (e : InstantiationArgument) (st' : PState) : Prop :=
  Suf st' st ∧ st'.toks.length < st.toks.length ∧
  ∀ gf, st.toks.length ≤ st'.toks.length + gf → (eraseArg e, abs st') ∈ gArg gf (abs st)

theorem parseExpr_sound_step (pf : Nat)
    (ihP : ∀ st e st', parsePrimaryExpr pf st = .ok (e, st') → SoundP st e st')
    (st : PState) (e : Expr) (st' : PState) (h : parseExpr (pf + 1) st = .ok (e, st')) :
    SoundE st e st' := by
  simp only [parseExpr, Except.bind_eq_ok, Prod.exists] at h
  obtain ⟨p, st1, hp, post, st2, hpost, h3⟩ := h
  cases h3
  obtain ⟨hs1, hl1, hm1⟩ := ihP _ _ _ hp
  obtain ⟨hs2, hl2, hm2, _⟩ := parsePostfix_sound _ _ _ _ hpost
  refine ⟨hs2.trans hs1, by omega, ?_⟩
  intro gf hgf
  obtain ⟨g, rfl⟩ : ∃ g, gf = g + 1 := ⟨gf - 1, by omega⟩
  simp only [gExpr, bind_apply, List.mem_flatMap, Prod.exists, mem_many, pure_apply,
    List.mem_singleton, Prod.mk.injEq]
  exact ⟨_, _, hm1 g (by omega), _, _, ⟨hm2, by simp; omega⟩, by simp [eraseExpr], rfl⟩

theorem parsePrimaryExpr_sound_step (hV : SemverAgree) (pf : Nat)
    (ihE : ∀ st e st', parseExpr pf st = .ok (e, st') → SoundE st e st')
    (ihA : ∀ st e st', parseInstantiationArgument pf st = .ok (e, st') → SoundA st e st')
    (st : PState) (e : PrimaryExpr) (st' : PState) (h : parsePrimaryExpr (pf + 1) st = .ok (e, st')) :
    SoundP st e st' := by
  unfold parsePrimaryExpr at h
  split at h
  · -- new
    rename_i hk
    simp only [Except.bind_eq_ok, Prod.exists, parseToken_eq_ok, parsePackageName_eq_ok] at h
    obtain ⟨t1, st1, ⟨hk, rfl, rfl⟩, pkg, st2, ⟨h2, hpkg, rfl⟩, t3, st3, ⟨h3, rfl, rfl⟩, args, st4, hargs,
      t5, st5, ⟨h5, rfl, rfl⟩, h6⟩ := h
    cases h6
    have l1 := len_of_nextTok hk
    have l2 := len_of_nextTok h2
    have l3 := len_of_nextTok h3
    have l5 := len_of_nextTok h5
    have hagree := pkgNameAt_agree hV (tokAt (adv st))
    rw [hpkg] at hagree
    obtain ⟨hs4, hp4, hl4⟩ := parseDelimited_struct _ _ _ _
      (fun st x st1 hx => ⟨(ihA st x st1 hx).1, (ihA st x st1 hx).2.1⟩) _ _ _ _ hargs
    have hl4' := hs4.len
    refine ⟨(Suf.adv _).trans (hs4.trans ((Suf.adv _).trans ((Suf.adv _).trans (Suf.adv _)))), by omega, ?_⟩
    intro gf hgf
    obtain ⟨g, rfl⟩ : ∃ g, gf = g + 1 := ⟨gf - 1, by omega⟩
    obtain ⟨_, _, _, hm4⟩ := parseDelimited_commas_sound .CloseBrace instantiationArgumentPeeks
      (parseInstantiationArgument pf) eraseArg (gArg g) g (fun st x st1 hx => by
        obtain ⟨a, b, c⟩ := ihA st x st1 hx
        exact ⟨a, b, c g⟩) _ _ _ _ hargs
    simp [gPrimary, hk, mem_gPackageName, and_assoc, h2, h3, ← hagree, erasePrimary]
    refine ⟨args.map eraseArg, abs st4, ?_, by simp [h5], eraseArgs_eq_map _⟩
    rw [mem_list0]
    rcases hm4 (by omega) with ⟨rfl, rfl⟩ | hsep
    · right; simp
    · left; exact ⟨hsep, by simp; omega⟩
  · -- nested
    rename_i hk
    simp only [Except.bind_eq_ok, Prod.exists, parseToken_eq_ok] at h
    obtain ⟨t1, st1, ⟨hk, rfl, rfl⟩, inner, st2, hinner, t3, st3, ⟨h3, rfl, rfl⟩, h4⟩ := h
    cases h4
    obtain ⟨hs2, hl2, hm2⟩ := ihE _ _ _ hinner
    have l1 := len_of_nextTok hk
    have l3 := len_of_nextTok h3
    refine ⟨(Suf.adv _).trans (hs2.trans (Suf.adv _)), by omega, ?_⟩
    intro gf hgf
    obtain ⟨g, rfl⟩ : ∃ g, gf = g + 1 := ⟨gf - 1, by omega⟩
    simp [gPrimary, hk, erasePrimary]
    exact ⟨_, _, hm2 g (by omega), by simp [h3], rfl⟩
  · -- identifier
    rename_i hk
    simp only [Except.bind_eq_ok, Prod.exists, parseIdent_eq_ok] at h
    obtain ⟨id, st1, ⟨hk, rfl, rfl⟩, h2⟩ := h
    cases h2
    have l1 := len_of_nextTok hk
    refine ⟨Suf.adv _, by omega, ?_⟩
    intro gf hgf
    obtain ⟨g, rfl⟩ : ∃ g, gf = g + 1 := ⟨gf - 1, by omega⟩
    simp [gPrimary, hk, mem_gId, and_assoc, erasePrimary, erase_identAt]
  · cases h

theorem parseInstantiationArgumentName_eq_ok {st st' : PState} {n : InstantiationArgumentName} :
    parseInstantiationArgumentName st = .ok (n, st') ↔
      (nextTok st = some .Ident ∧ n = .Ident (identAt (tokAt st)) ∧ st' = adv st) ∨
      (nextTok st = some .String ∧ n = .String (stringAt (tokAt st)) ∧ st' = adv st) := by
  unfold parseInstantiationArgumentName
  split
  · rename_i hk
    simp only [Except.bind_eq_ok, Prod.exists, parseIdent_eq_ok]
    constructor
    · rintro ⟨id, st1, ⟨h1, rfl, rfl⟩, h⟩; cases h; exact .inl ⟨h1, rfl, rfl⟩
    · rintro (⟨h1, rfl, rfl⟩ | ⟨h, _⟩)
      · exact ⟨_, _, ⟨h1, rfl, rfl⟩, rfl⟩
      · rw [peekTok_of_nextTok h] at hk; cases hk
  · rename_i hk
    simp only [Except.bind_eq_ok, Prod.exists, parseString_eq_ok]
    constructor
    · rintro ⟨id, st1, ⟨h1, rfl, rfl⟩, h⟩; cases h; exact .inr ⟨h1, rfl, rfl⟩
    · rintro (⟨h, _⟩ | ⟨h1, rfl, rfl⟩)
      · rw [peekTok_of_nextTok h] at hk; cases hk
      · exact ⟨_, _, ⟨h1, rfl, rfl⟩, rfl⟩
  · rename_i h1 h2
    simp
    constructor <;> intro h <;> simp_all

theorem parseInstantiationArgument_sound_step (pf : Nat)
    (ihE : ∀ st e st', parseExpr pf st = .ok (e, st') → SoundE st e st')
    (st : PState) (e : InstantiationArgument) (st' : PState)
    (h : parseInstantiationArgument (pf + 1) st = .ok (e, st')) :
    SoundA st e st' := by
  unfold parseInstantiationArgument at h
  split at h
  · -- `...`
    rename_i hk
    simp only [Except.bind_eq_ok, Prod.exists, parseToken_eq_ok] at h
    obtain ⟨t1, st1, ⟨hk, rfl, rfl⟩, h2⟩ := h
    have l1 := len_of_nextTok hk
    split at h2
    · rename_i hf
      cases h2
      refine ⟨Suf.adv _, by omega, ?_⟩
      intro gf hgf
      obtain ⟨g, rfl⟩ : ∃ g, gf = g + 1 := ⟨gf - 1, by omega⟩
      simp [gArg, hk, eraseArg]
    · simp only [Except.bind_eq_ok, Prod.exists, parseIdent_eq_ok] at h2
      obtain ⟨id, st2, ⟨h3, rfl, rfl⟩, h4⟩ := h2
      cases h4
      have l2 := len_of_nextTok h3
      refine ⟨(Suf.adv _).trans (Suf.adv _), by omega, ?_⟩
      intro gf hgf
      obtain ⟨g, rfl⟩ : ∃ g, gf = g + 1 := ⟨gf - 1, by omega⟩
      simp [gArg, hk, h3, mem_gId, eraseArg, erase_identAt]
  · rename_i k hk
    split at h
    · rename_i hks
      split at h
      · -- named
        rename_i hcolon
        simp only [Except.bind_eq_ok, Prod.exists, parseToken_eq_ok, parseInstantiationArgumentName_eq_ok] at h
        obtain ⟨name, st1, hname, t2, st2, ⟨h2, rfl, rfl⟩, e, st3, he, h4⟩ := h
        cases h4
        obtain ⟨hs3, hl3, hm3⟩ := ihE _ _ _ he
        rcases hname with ⟨hn, rfl, rfl⟩ | ⟨hn, rfl, rfl⟩
        · have l1 := len_of_nextTok hn
          have l2 := len_of_nextTok h2
          refine ⟨hs3.trans ((Suf.adv _).trans (Suf.adv _)), by omega, ?_⟩
          intro gf hgf
          obtain ⟨g, rfl⟩ : ∃ g, gf = g + 1 := ⟨gf - 1, by omega⟩
          simp [gArg, hn, h2, mem_gId, mem_gString, and_assoc, eraseArg, eraseArgName, erase_identAt]
          exact hm3 g (by omega)
        · have l1 := len_of_nextTok hn
          have l2 := len_of_nextTok h2
          refine ⟨hs3.trans ((Suf.adv _).trans (Suf.adv _)), by omega, ?_⟩
          intro gf hgf
          obtain ⟨g, rfl⟩ : ∃ g, gf = g + 1 := ⟨gf - 1, by omega⟩
          simp [gArg, hn, h2, mem_gId, mem_gString, and_assoc, eraseArg, eraseArgName, erase_stringAt]
          exact hm3 g (by omega)
      · -- inferred
        simp only [Except.bind_eq_ok, Prod.exists, parseIdent_eq_ok] at h
        obtain ⟨id, st1, ⟨h1, rfl, rfl⟩, h2⟩ := h
        cases h2
        have l1 := len_of_nextTok h1
        refine ⟨Suf.adv _, by omega, ?_⟩
        intro gf hgf
        obtain ⟨g, rfl⟩ : ∃ g, gf = g + 1 := ⟨gf - 1, by omega⟩
        simp [gArg, h1, mem_gId, and_assoc, eraseArg, erase_identAt]
    · cases h
  · cases h

/-- soundness of the three mutually recursive expression parsers, for every parser fuel -/
theorem expr_sound (hV : SemverAgree) (pf : Nat) :
    (∀ st e st', parseExpr pf st = .ok (e, st') → SoundE st e st') ∧
    (∀ st e st', parsePrimaryExpr pf st = .ok (e, st') → SoundP st e st') ∧
    (∀ st e st', parseInstantiationArgument pf st = .ok (e, st') → SoundA st e st') := by
  induction pf with
  | zero =>
    refine ⟨?_, ?_, ?_⟩ <;> intro st e st' h
    · simp [parseExpr] at h
    · simp [parsePrimaryExpr] at h
    · simp [parseInstantiationArgument] at h
  | succ pf ih =>
    obtain ⟨ihE, ihP, ihA⟩ := ih
    exact ⟨parseExpr_sound_step pf ihP, parsePrimaryExpr_sound_step hV pf ihE ihA,
      parseInstantiationArgument_sound_step pf ihE⟩

theorem parseExpr_sound (hV : SemverAgree) {pf : Nat} {st : PState} {e : Expr} {st' : PState}
    (h : parseExpr pf st = .ok (e, st')) : SoundE st e st' :=
  (expr_sound hV pf).1 st e st' h

end Wac.C12
