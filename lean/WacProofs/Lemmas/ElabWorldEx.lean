import WacProofs.Lemmas.ElabWorld5
/-
  C05 worlds: evaluators for the non-vacuity examples of Props/C05Worlds.lean (the hypotheses and
  the conclusion of `elab_denotes_worlds_partial` as Booleans the kernel can compute).
-/
namespace Wac.Elab
open Wac Wac.Spec.Wit Wac.Decode

/-- the hypotheses of `elab_denotes_worlds_partial`, evaluated -/
def worldHypsB (p : Pkg) : Bool :=
  match elabPkg p, denotePkg [] 0 p with
  | .ok _, some env =>
    decide (p.ifaces.flatMap (fun ni => [ni.1, p.idOf ni.1])).Nodup &&
    env.ifaces.all (fun nx => decide (nx.2.map (·.1)).Nodup) &&
    pkgWorldsFreshB p
  | _, _ => false

theorem worldHyps_of_B (p : Pkg) (h : worldHypsB p = true) :
    ∃ T env, elabPkg p = .ok T ∧ denotePkg [] 0 p = some env ∧
      (p.ifaces.flatMap (fun ni => [ni.1, p.idOf ni.1])).Nodup ∧
      (∀ nx ∈ env.ifaces, (nx.2.map (·.1)).Nodup) ∧ pkgWorldsFreshB p = true := by
  unfold worldHypsB at h
  split at h
  · rename_i T env hT henv
    simp only [Bool.and_eq_true, decide_eq_true_eq, List.all_eq_true] at h
    exact ⟨T, env, hT, henv, h.1.1, fun nx hnx => h.1.2 nx hnx, h.2⟩
  · cases h

/-- the conclusion of `elab_denotes_worlds_partial` about the worlds, evaluated: every world of the
arena unfolds (default fuel) to a component type that equals the denoted one after numbering the
resource leaves in order of first occurrence (`Spec.Decode.canon`) — i.e. up to an injective
renaming — with the same import and export names in the same order -/
def worldConclB (p : Pkg) : Bool :=
  match elabPkg p, denotePkg [] 0 p with
  | .ok T, some env =>
    T.worlds.length == p.worlds.length && env.worlds.length == p.worlds.length &&
    (List.range p.worlds.length).all fun k =>
      match T.unfold (.component k), env.worlds[k]? with
      | some t, some (_, dw) =>
        Wac.Spec.Decode.canon t ==
          Wac.Spec.Decode.canon (.component (Forest.ofList dw.imports) (Forest.ofList dw.exports))
      | _, _ => false
  | _, _ => false

/-- import and export names of the `k`-th world of the arena, in order -/
def worldNames (p : Pkg) (k : Nat) : Option (List String × List String) :=
  match elabPkg p with
  | .ok T => (T.worlds[k]?).map fun wd =>
      (wd.imports.map (String.ofList ·.1), wd.exports.map (String.ofList ·.1))
  | .error _ => none

end Wac.Elab
