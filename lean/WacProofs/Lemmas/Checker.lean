import WacModel.Checker
import WacProofs.Lemmas.Sub
/-
  The checker model decides `subNames` (= `sub` on the name-only views of the unfolded trees).
  Part A: the value level (`checkValueType`, `checkFunc`, core externs).
-/
namespace Wac
open Wac.Spec

/-! ### `R` -/

@[simp] theorem R.ctx_eq_ok (r : R) (c : String) : r.ctx c = .ok ↔ r = .ok := by
  cases r <;> simp [R.ctx]

@[simp] theorem R.ctx_eq_panic (r : R) (c s : String) : r.ctx c = .panic s ↔ r = .panic s := by
  cases r <;> simp [R.ctx]

@[simp] theorem mismatch_ne_ok (v : Variance) (a b : String) : mismatch v a b ≠ .ok := by
  cases v <;> simp [mismatch, expFound]

@[simp] theorem mismatch_ne_panic (v : Variance) (a b s : String) : mismatch v a b ≠ .panic s := by
  cases v <;> simp [mismatch, expFound]

/-- a result that is `ok` exactly when `P` holds and never a panic -/
def Decides (r : R) (P : Prop) : Prop := (r = .ok ↔ P) ∧ ∀ s, r ≠ .panic s

theorem Decides.ctx {r : R} {P : Prop} (h : Decides r P) (c : String) : Decides (r.ctx c) P :=
  ⟨by simpa using h.1, by simpa using h.2⟩

theorem Decides.and_left {r : R} {A B : Prop} (hA : A) (d : Decides r B) : Decides r (A ∧ B) :=
  ⟨⟨fun h => ⟨hA, d.1.1 h⟩, fun h => d.1.2 h.2⟩, d.2⟩

theorem decides_err {m : String} {P : Prop} (h : ¬ P) : Decides (.err m) P :=
  ⟨by simp [h], by simp⟩

theorem decides_ok {P : Prop} (h : P) : Decides .ok P :=
  ⟨by simp [h], by simp⟩

theorem decides_mismatch {v : Variance} {a b : String} {P : Prop} (h : ¬ P) : Decides (mismatch v a b) P :=
  ⟨by simp [h], by simp⟩

/-- what a correct value-level check satisfies w.r.t. two unfoldings -/
def VOk (f : ValueType → ValueType → R) (ua ub : ValueType → Option Tree) : Prop :=
  ∀ a b ta tb, ua a = some ta → ub b = some tb → Decides (f a b) (eraseRes ta = eraseRes tb)

/-! ### forests produced by the unfold helpers -/

def Forest.length : Forest → Nat
  | .nil => 0
  | .cons _ _ r => r.length + 1

theorem eraseResF_length : ∀ f : Forest, (eraseResF f).length = f.length
  | .nil => by simp [eraseResF, Forest.length]
  | .cons n t r => by simp [eraseResF, Forest.length, eraseResF_length r]

theorem unfoldUnnamed_length {u : ValueType → Option Tree} : ∀ (l : List ValueType) (F : Forest),
    unfoldUnnamed u l = some F → F.length = l.length
  | [], F, h => by simp [unfoldUnnamed] at h; subst h; rfl
  | a :: l, F, h => by
    simp only [unfoldUnnamed] at h
    split at h
    · rename_i t fr h1 h2
      cases h
      simp [Forest.length, unfoldUnnamed_length l fr h2]
    · cases h

theorem unfoldNamed_length {u : ValueType → Option Tree} : ∀ (l : List (Str × ValueType)) (F : Forest),
    unfoldNamed u l = some F → F.length = l.length
  | [], F, h => by simp [unfoldNamed] at h; subst h; rfl
  | (n, a) :: l, F, h => by
    simp only [unfoldNamed] at h
    split at h
    · rename_i t fr h1 h2
      cases h
      simp [Forest.length, unfoldNamed_length l fr h2]
    · cases h

theorem unfoldNamedOpt_length {u : ValueType → Option Tree} : ∀ (l : List (Str × Option ValueType)) (F : Forest),
    unfoldNamedOpt u l = some F → F.length = l.length
  | [], F, h => by simp [unfoldNamedOpt] at h; subst h; rfl
  | (n, a) :: l, F, h => by
    simp only [unfoldNamedOpt] at h
    split at h
    · rename_i t fr h1 h2
      cases h
      simp [Forest.length, unfoldNamedOpt_length l fr h2]
    · cases h

theorem erase_ne_of_length {Fa Fb : Forest} (h : Fa.length ≠ Fb.length) : eraseResF Fa ≠ eraseResF Fb := by
  intro e
  have := congrArg Forest.length e
  rw [eraseResF_length, eraseResF_length] at this
  exact h this

/-! ### tuples -/

theorem checkTupleItems_spec {f : ValueType → ValueType → R} {ua ub : ValueType → Option Tree}
    (hf : VOk f ua ub) : ∀ (as bs : List ValueType) (i : Nat) (Fa Fb : Forest),
    unfoldUnnamed ua as = some Fa → unfoldUnnamed ub bs = some Fb → as.length = bs.length →
    Decides (checkTupleItems f i as bs) (eraseResF Fa = eraseResF Fb)
  | [], [], i, Fa, Fb, ha, hb, _ => by
    simp [unfoldUnnamed] at ha hb; subst ha; subst hb
    exact decides_ok rfl
  | [], _ :: _, _, _, _, _, _, hl => by simp at hl
  | _ :: _, [], _, _, _, _, _, hl => by simp at hl
  | a :: as, b :: bs, i, Fa, Fb, ha, hb, hl => by
    simp only [unfoldUnnamed] at ha hb
    split at ha
    · rename_i ta fra ha1 ha2
      split at hb
      · rename_i tb frb hb1 hb2
        cases ha; cases hb
        have hd := hf a b ta tb ha1 hb1
        have ih := checkTupleItems_spec hf as bs (i + 1) fra frb ha2 hb2 (by simpa using hl)
        simp only [checkTupleItems, eraseResF, Forest.cons.injEq, true_and]
        cases hr : f a b with
        | ok =>
          have : eraseRes ta = eraseRes tb := hd.1.1 hr
          simp only [R.ctx, this, true_and]
          exact ih
        | err m =>
          have : ¬ eraseRes ta = eraseRes tb := fun e => by have := hd.1.2 e; rw [hr] at this; cases this
          simp only [R.ctx]
          exact decides_err (fun e => this e.1)
        | panic s => exact absurd hr (hd.2 s)
      · cases hb
    · cases ha

theorem checkTuple_spec {f : ValueType → ValueType → R} {ua ub : ValueType → Option Tree} (v : Variance)
    (hf : VOk f ua ub) (as bs : List ValueType) (Fa Fb : Forest)
    (ha : unfoldUnnamed ua as = some Fa) (hb : unfoldUnnamed ub bs = some Fb) :
    Decides (checkTuple v f as bs) (eraseRes (.tuple Fa) = eraseRes (.tuple Fb)) := by
  simp only [checkTuple, eraseRes, Tree.tuple.injEq]
  by_cases hl : as.length = bs.length
  · simp only [hl, bne_self_eq_false, Bool.false_eq_true, ↓reduceIte]
    exact checkTupleItems_spec hf as bs 0 Fa Fb ha hb hl
  · have : (as.length != bs.length) = true := by simpa using hl
    simp only [this, ↓reduceIte]
    cases v <;> simp only [expFound] <;> refine decides_err (erase_ne_of_length ?_) <;>
      rw [unfoldUnnamed_length as Fa ha, unfoldUnnamed_length bs Fb hb] <;> exact hl

/-! ### records / parameters -/

theorem checkRecordFields_spec {f : ValueType → ValueType → R} {ua ub : ValueType → Option Tree} (v : Variance)
    (hf : VOk f ua ub) : ∀ (as bs : List (Str × ValueType)) (i : Nat) (Fa Fb : Forest),
    unfoldNamed ua as = some Fa → unfoldNamed ub bs = some Fb → as.length = bs.length →
    Decides (checkRecordFields v f i as bs) (eraseResF Fa = eraseResF Fb)
  | [], [], i, Fa, Fb, ha, hb, _ => by
    simp [unfoldNamed] at ha hb; subst ha; subst hb
    exact decides_ok rfl
  | [], _ :: _, _, _, _, _, _, hl => by simp at hl
  | _ :: _, [], _, _, _, _, _, hl => by simp at hl
  | (an, a) :: as, (bn, b) :: bs, i, Fa, Fb, ha, hb, hl => by
    simp only [unfoldNamed] at ha hb
    split at ha
    · rename_i ta fra ha1 ha2
      split at hb
      · rename_i tb frb hb1 hb2
        cases ha; cases hb
        have hd := hf a b ta tb ha1 hb1
        have ih := checkRecordFields_spec v hf as bs (i + 1) fra frb ha2 hb2 (by simpa using hl)
        simp only [checkRecordFields, eraseResF, Forest.cons.injEq]
        by_cases hn : an = bn
        · subst hn
          simp only [bne_self_eq_false, Bool.false_eq_true, ↓reduceIte, true_and]
          cases hr : f a b with
          | ok =>
            have : eraseRes ta = eraseRes tb := hd.1.1 hr
            simp only [R.ctx, this, true_and]
            exact ih
          | err m =>
            have : ¬ eraseRes ta = eraseRes tb := fun e => by have := hd.1.2 e; rw [hr] at this; cases this
            simp only [R.ctx]
            exact decides_err (fun e => this e.1)
          | panic s => exact absurd hr (hd.2 s)
        · have : (an != bn) = true := by simpa using hn
          simp only [this, ↓reduceIte]
          cases v <;> simp only [expFound] <;> exact decides_err (fun e => hn e.1)
      · cases hb
    · cases ha

theorem checkRecord_spec {f : ValueType → ValueType → R} {ua ub : ValueType → Option Tree} (v : Variance)
    (hf : VOk f ua ub) (as bs : List (Str × ValueType)) (Fa Fb : Forest)
    (ha : unfoldNamed ua as = some Fa) (hb : unfoldNamed ub bs = some Fb) :
    Decides (checkRecord v f as bs) (eraseRes (.record Fa) = eraseRes (.record Fb)) := by
  simp only [checkRecord, eraseRes, Tree.record.injEq]
  by_cases hl : as.length = bs.length
  · simp only [hl, bne_self_eq_false, Bool.false_eq_true, ↓reduceIte]
    exact checkRecordFields_spec v hf as bs 0 Fa Fb ha hb hl
  · have : (as.length != bs.length) = true := by simpa using hl
    simp only [this, ↓reduceIte]
    cases v <;> simp only [expFound] <;> refine decides_err (erase_ne_of_length ?_) <;>
      rw [unfoldNamed_length as Fa ha, unfoldNamed_length bs Fb hb] <;> exact hl

theorem checkParams_spec {f : ValueType → ValueType → R} {ua ub : ValueType → Option Tree} (v : Variance)
    (hf : VOk f ua ub) : ∀ (as bs : List (Str × ValueType)) (i : Nat) (Fa Fb : Forest),
    unfoldNamed ua as = some Fa → unfoldNamed ub bs = some Fb → as.length = bs.length →
    Decides (checkParams v f i as bs) (eraseResF Fa = eraseResF Fb)
  | [], [], i, Fa, Fb, ha, hb, _ => by
    simp [unfoldNamed] at ha hb; subst ha; subst hb
    exact decides_ok rfl
  | [], _ :: _, _, _, _, _, _, hl => by simp at hl
  | _ :: _, [], _, _, _, _, _, hl => by simp at hl
  | (an, a) :: as, (bn, b) :: bs, i, Fa, Fb, ha, hb, hl => by
    simp only [unfoldNamed] at ha hb
    split at ha
    · rename_i ta fra ha1 ha2
      split at hb
      · rename_i tb frb hb1 hb2
        cases ha; cases hb
        have hd := hf a b ta tb ha1 hb1
        have ih := checkParams_spec v hf as bs (i + 1) fra frb ha2 hb2 (by simpa using hl)
        simp only [checkParams, eraseResF, Forest.cons.injEq]
        by_cases hn : an = bn
        · subst hn
          simp only [bne_self_eq_false, Bool.false_eq_true, ↓reduceIte, true_and]
          cases hr : f a b with
          | ok =>
            have : eraseRes ta = eraseRes tb := hd.1.1 hr
            simp only [R.ctx, this, true_and]
            exact ih
          | err m =>
            have : ¬ eraseRes ta = eraseRes tb := fun e => by have := hd.1.2 e; rw [hr] at this; cases this
            simp only [R.ctx]
            exact decides_err (fun e => this e.1)
          | panic s => exact absurd hr (hd.2 s)
        · have : (an != bn) = true := by simpa using hn
          simp only [this, ↓reduceIte]
          cases v <;> simp only [expFound] <;> exact decides_err (fun e => hn e.1)
      · cases hb
    · cases ha

/-! ### optional payloads -/

theorem unfoldOpt_none {u : ValueType → Option Tree} : unfoldOpt u none = some .none := rfl

/-- an unfolded value type is never the `none` marker -/
def NoNone (u : ValueType → Option Tree) : Prop := ∀ a t, u a = some t → t ≠ .none

theorem eraseRes_eq_none {t : Tree} : eraseRes t = .none ↔ t = .none := by
  cases t <;> simp [eraseRes]

theorem eraseRes_none_eq {t : Tree} : Tree.none = eraseRes t ↔ t = .none := by
  rw [eq_comm]; exact eraseRes_eq_none

/-- both optional payloads: the four presence combinations -/
theorem opt_cases {f : ValueType → ValueType → R} {ua ub : ValueType → Option Tree}
    (hf : VOk f ua ub) (na : NoNone ua) (nb : NoNone ub) (a b : Option ValueType) (ta tb : Tree)
    (ha : unfoldOpt ua a = some ta) (hb : unfoldOpt ub b = some tb) :
    (a = none ∧ b = none ∧ eraseRes ta = eraseRes tb) ∨
    (∃ x y, a = some x ∧ b = some y ∧ Decides (f x y) (eraseRes ta = eraseRes tb)) ∨
    ((a.isSome ≠ b.isSome) ∧ eraseRes ta ≠ eraseRes tb) := by
  cases a with
  | none =>
    cases b with
    | none => simp [unfoldOpt] at ha hb; subst ha; subst hb; exact Or.inl ⟨rfl, rfl, rfl⟩
    | some y =>
      simp [unfoldOpt] at ha hb; subst ha
      refine Or.inr (Or.inr ⟨by simp, ?_⟩)
      simp only [eraseRes]
      intro e
      exact nb y tb hb (eraseRes_none_eq.1 e)
  | some x =>
    cases b with
    | none =>
      simp [unfoldOpt] at ha hb; subst hb
      refine Or.inr (Or.inr ⟨by simp, ?_⟩)
      simp only [eraseRes]
      intro e
      exact na x ta ha (eraseRes_eq_none.1 e)
    | some y =>
      simp [unfoldOpt] at ha hb
      exact Or.inr (Or.inl ⟨x, y, rfl, rfl, hf x y ta tb ha hb⟩)

theorem checkPayload_spec {f : ValueType → ValueType → R} {ua ub : ValueType → Option Tree}
    (hf : VOk f ua ub) (na : NoNone ua) (nb : NoNone ub) (a b : Option ValueType) (ta tb : Tree)
    (ha : unfoldOpt ua a = some ta) (hb : unfoldOpt ub b = some tb) :
    Decides (checkPayload f a b) (eraseRes ta = eraseRes tb) := by
  rcases opt_cases hf na nb a b ta tb ha hb with ⟨rfl, rfl, e⟩ | ⟨x, y, rfl, rfl, d⟩ | ⟨hne, e⟩
  · simpa [checkPayload] using decides_ok e
  · simpa [checkPayload] using d
  · cases a <;> cases b <;> simp at hne <;> simp only [checkPayload] <;> exact decides_err e

theorem checkResultArm_spec {f : ValueType → ValueType → R} {ua ub : ValueType → Option Tree} (v : Variance)
    (desc : String) (hf : VOk f ua ub) (na : NoNone ua) (nb : NoNone ub) (a b : Option ValueType) (ta tb : Tree)
    (ha : unfoldOpt ua a = some ta) (hb : unfoldOpt ub b = some tb) :
    Decides (checkResultArm v f desc a b) (eraseRes ta = eraseRes tb) := by
  rcases opt_cases hf na nb a b ta tb ha hb with ⟨rfl, rfl, e⟩ | ⟨x, y, rfl, rfl, d⟩ | ⟨hne, e⟩
  · simpa [checkResultArm] using decides_ok e
  · simpa [checkResultArm] using d.ctx _
  · cases a <;> cases b <;> simp at hne <;> cases v <;> simp only [checkResultArm, expFound] <;>
      exact decides_err e

/-! ### variants -/

theorem checkVariantCases_spec {f : ValueType → ValueType → R} {ua ub : ValueType → Option Tree} (v : Variance)
    (hf : VOk f ua ub) (na : NoNone ua) (nb : NoNone ub) :
    ∀ (as bs : List (Str × Option ValueType)) (i : Nat) (Fa Fb : Forest),
    unfoldNamedOpt ua as = some Fa → unfoldNamedOpt ub bs = some Fb → as.length = bs.length →
    Decides (checkVariantCases v f i as bs) (eraseResF Fa = eraseResF Fb)
  | [], [], i, Fa, Fb, ha, hb, _ => by
    simp [unfoldNamedOpt] at ha hb; subst ha; subst hb
    exact decides_ok rfl
  | [], _ :: _, _, _, _, _, _, hl => by simp at hl
  | _ :: _, [], _, _, _, _, _, hl => by simp at hl
  | (an, a) :: as, (bn, b) :: bs, i, Fa, Fb, ha, hb, hl => by
    simp only [unfoldNamedOpt] at ha hb
    split at ha
    · rename_i ta fra ha1 ha2
      split at hb
      · rename_i tb frb hb1 hb2
        cases ha; cases hb
        have ih := checkVariantCases_spec v hf na nb as bs (i + 1) fra frb ha2 hb2 (by simpa using hl)
        simp only [checkVariantCases, eraseResF, Forest.cons.injEq]
        by_cases hn : an = bn
        · subst hn
          simp only [bne_self_eq_false, Bool.false_eq_true, ↓reduceIte, true_and]
          rcases opt_cases hf na nb a b ta tb ha1 hb1 with ⟨rfl, rfl, e⟩ | ⟨x, y, rfl, rfl, d⟩ | ⟨hne, e⟩
          · simp only [e, true_and]; exact ih
          · simp only
            cases hr : f x y with
            | ok =>
              have : eraseRes ta = eraseRes tb := d.1.1 hr
              simp only [R.ctx, this, true_and]
              exact ih
            | err m =>
              have : ¬ eraseRes ta = eraseRes tb := fun e => by have := d.1.2 e; rw [hr] at this; cases this
              simp only [R.ctx]
              exact decides_err (fun e => this e.1)
            | panic s => exact absurd hr (d.2 s)
          · cases a <;> cases b <;> simp at hne <;> cases v <;> simp only [expFound] <;>
              exact decides_err (fun e' => e e'.1)
        · have : (an != bn) = true := by simpa using hn
          simp only [this, ↓reduceIte]
          cases v <;> simp only [expFound] <;> exact decides_err (fun e => hn e.1)
      · cases hb
    · cases ha

theorem checkVariant_spec {f : ValueType → ValueType → R} {ua ub : ValueType → Option Tree} (v : Variance)
    (hf : VOk f ua ub) (na : NoNone ua) (nb : NoNone ub) (as bs : List (Str × Option ValueType)) (Fa Fb : Forest)
    (ha : unfoldNamedOpt ua as = some Fa) (hb : unfoldNamedOpt ub bs = some Fb) :
    Decides (checkVariant v f as bs) (eraseRes (.variant Fa) = eraseRes (.variant Fb)) := by
  simp only [checkVariant, eraseRes, Tree.variant.injEq]
  by_cases hl : as.length = bs.length
  · simp only [hl, bne_self_eq_false, Bool.false_eq_true, ↓reduceIte]
    exact checkVariantCases_spec v hf na nb as bs 0 Fa Fb ha hb hl
  · have : (as.length != bs.length) = true := by simpa using hl
    simp only [this, ↓reduceIte]
    cases v <;> simp only [expFound] <;> refine decides_err (erase_ne_of_length ?_) <;>
      rw [unfoldNamedOpt_length as Fa ha, unfoldNamedOpt_length bs Fb hb] <;> exact hl

/-! ### flags / enums -/

theorem firstDiff_none : ∀ (i : Nat) (as bs : List Str), as.length = bs.length →
    (firstDiff i as bs = none ↔ as = bs)
  | _, [], [], _ => by simp [firstDiff]
  | _, [], _ :: _, h => by simp at h
  | _, _ :: _, [], h => by simp at h
  | i, a :: as, b :: bs, h => by
    simp only [firstDiff]
    by_cases hab : a = b
    · subst hab
      simp only [bne_self_eq_false, Bool.false_eq_true, ↓reduceIte, List.cons.injEq, true_and]
      exact firstDiff_none (i + 1) as bs (by simpa using h)
    · have : (a != b) = true := by simpa using hab
      simp [this, hab]

theorem checkFlags_spec (v : Variance) (as bs : List Str) :
    Decides (checkFlags v as bs) (eraseRes (.flags as) = eraseRes (.flags bs)) := by
  simp only [checkFlags, eraseRes, Tree.flags.injEq]
  by_cases hl : as.length = bs.length
  · simp only [hl, bne_self_eq_false, Bool.false_eq_true, ↓reduceIte]
    cases hd : firstDiff 0 as bs with
    | none => exact decides_ok ((firstDiff_none 0 as bs hl).1 hd)
    | some x =>
      have : ¬ as = bs := fun e => by rw [(firstDiff_none 0 as bs hl).2 e] at hd; cases hd
      obtain ⟨i, x, y⟩ := x
      cases v <;> simp only [expFound] <;> exact decides_err this
  · have : (as.length != bs.length) = true := by simpa using hl
    simp only [this, ↓reduceIte]
    cases v <;> simp only [expFound] <;> exact decides_err (fun e => hl (by rw [e]))

theorem checkEnum_spec (v : Variance) (as bs : List Str) :
    Decides (checkEnum v as bs) (eraseRes (.enum as) = eraseRes (.enum bs)) := by
  simp only [checkEnum, eraseRes, Tree.enum.injEq]
  by_cases hl : as.length = bs.length
  · simp only [hl, bne_self_eq_false, Bool.false_eq_true, ↓reduceIte]
    cases hd : firstDiff 0 as bs with
    | none => exact decides_ok ((firstDiff_none 0 as bs hl).1 hd)
    | some x =>
      have : ¬ as = bs := fun e => by rw [(firstDiff_none 0 as bs hl).2 e] at hd; cases hd
      obtain ⟨i, x, y⟩ := x
      cases v <;> simp only [expFound] <;> exact decides_err this
  · have : (as.length != bs.length) = true := by simpa using hl
    simp only [this, ↓reduceIte]
    cases v <;> simp only [expFound] <;> exact decides_err (fun e => hl (by rw [e]))

/-! ### `checkDefined` -/

def dtag : DefinedType → Nat
  | .tuple _ => 0 | .list _ => 1 | .fixedSizeList _ _ => 2 | .option _ => 3 | .result _ _ => 4
  | .variant _ => 5 | .record _ => 6 | .flags _ => 7 | .enum _ => 8 | .alias _ => 9
  | .stream _ => 10 | .future _ => 11

def ttag : Tree → Nat
  | .tuple _ => 0 | .list _ => 1 | .fixedList _ _ => 2 | .option _ => 3 | .result _ _ => 4
  | .variant _ => 5 | .record _ => 6 | .flags _ => 7 | .enum _ => 8
  | .stream _ => 10 | .future _ => 11 | _ => 100

theorem ttag_eraseRes (t : Tree) : ttag (eraseRes t) = ttag t := by
  cases t <;> simp [eraseRes, ttag]

theorem unfoldDefined_tag {u : ValueType → Option Tree} (x : DefinedType) (t : Tree)
    (h : unfoldDefined u x = some t) (hx : dtag x ≠ 9) : ttag t = dtag x := by
  cases x <;> simp only [unfoldDefined] at h
  case alias => simp [dtag] at hx
  case result ok err =>
    split at h
    · cases h; rfl
    · cases h
  case flags => cases h; rfl
  case enum => cases h; rfl
  all_goals (obtain ⟨_, _, rfl⟩ := Option.map_eq_some_iff.1 h; rfl)

theorem checkDefined_mismatch (v : Variance) (f : ValueType → ValueType → R) (x y : DefinedType)
    (hx : dtag x ≠ 9) (hy : dtag y ≠ 9) (hne : dtag x ≠ dtag y) :
    checkDefined v f x y = mismatch v x.descTop y.descTop := by
  cases x <;> cases y <;> simp [dtag] at hx hy hne <;> rfl

theorem checkDefined_spec {f : ValueType → ValueType → R} {ua ub : ValueType → Option Tree} (v : Variance)
    (hf : VOk f ua ub) (na : NoNone ua) (nb : NoNone ub) (x y : DefinedType) (tx ty : Tree)
    (hx : dtag x ≠ 9) (hy : dtag y ≠ 9)
    (hx' : unfoldDefined ua x = some tx) (hy' : unfoldDefined ub y = some ty) :
    Decides (checkDefined v f x y) (eraseRes tx = eraseRes ty) := by
  by_cases htag : dtag x = dtag y
  · cases x <;> cases y <;> simp [dtag] at htag hx hy <;> simp only [unfoldDefined] at hx' hy'
    case tuple.tuple a b =>
      obtain ⟨Fa, ha, rfl⟩ := Option.map_eq_some_iff.1 hx'
      obtain ⟨Fb, hb, rfl⟩ := Option.map_eq_some_iff.1 hy'
      exact checkTuple_spec v hf a b Fa Fb ha hb
    case list.list a b =>
      obtain ⟨ta, ha, rfl⟩ := Option.map_eq_some_iff.1 hx'
      obtain ⟨tb, hb, rfl⟩ := Option.map_eq_some_iff.1 hy'
      simpa [checkDefined, eraseRes] using (hf a b ta tb ha hb).ctx _
    case fixedSizeList.fixedSizeList a n b m =>
      obtain ⟨ta, ha, rfl⟩ := Option.map_eq_some_iff.1 hx'
      obtain ⟨tb, hb, rfl⟩ := Option.map_eq_some_iff.1 hy'
      simp only [checkDefined, eraseRes, Tree.fixedList.injEq]
      by_cases hnm : n = m
      · subst hnm
        simpa using (hf a b ta tb ha hb).ctx _
      · have : (n != m) = true := by simpa using hnm
        simp only [this, ↓reduceIte]
        exact decides_err (fun e => hnm e.2)
    case option.option a b =>
      obtain ⟨ta, ha, rfl⟩ := Option.map_eq_some_iff.1 hx'
      obtain ⟨tb, hb, rfl⟩ := Option.map_eq_some_iff.1 hy'
      simpa [checkDefined, eraseRes] using (hf a b ta tb ha hb).ctx _
    case result.result aok aerr bok berr =>
      split at hx'
      · rename_i ta1 ta2 ha1 ha2
        split at hy'
        · rename_i tb1 tb2 hb1 hb2
          cases hx'; cases hy'
          have d1 := checkResultArm_spec v "ok" hf na nb aok bok ta1 tb1 ha1 hb1
          have d2 := checkResultArm_spec v "err" hf na nb aerr berr ta2 tb2 ha2 hb2
          simp only [checkDefined, eraseRes, Tree.result.injEq]
          cases hr : checkResultArm v f "ok" aok bok with
          | ok =>
            have : eraseRes ta1 = eraseRes tb1 := d1.1.1 hr
            simp only [this, true_and]
            exact d2
          | err m =>
            have : ¬ eraseRes ta1 = eraseRes tb1 := fun e => by have := d1.1.2 e; rw [hr] at this; cases this
            exact decides_err (fun e => this e.1)
          | panic s => exact absurd hr (d1.2 s)
        · cases hy'
      · cases hx'
    case variant.variant a b =>
      obtain ⟨Fa, ha, rfl⟩ := Option.map_eq_some_iff.1 hx'
      obtain ⟨Fb, hb, rfl⟩ := Option.map_eq_some_iff.1 hy'
      exact checkVariant_spec v hf na nb a b Fa Fb ha hb
    case record.record a b =>
      obtain ⟨Fa, ha, rfl⟩ := Option.map_eq_some_iff.1 hx'
      obtain ⟨Fb, hb, rfl⟩ := Option.map_eq_some_iff.1 hy'
      exact checkRecord_spec v hf a b Fa Fb ha hb
    case flags.flags a b =>
      cases hx'; cases hy'
      exact checkFlags_spec v a b
    case enum.enum a b =>
      cases hx'; cases hy'
      exact checkEnum_spec v a b
    case stream.stream a b =>
      obtain ⟨ta, ha, rfl⟩ := Option.map_eq_some_iff.1 hx'
      obtain ⟨tb, hb, rfl⟩ := Option.map_eq_some_iff.1 hy'
      simpa [checkDefined, eraseRes] using (checkPayload_spec hf na nb a b ta tb ha hb).ctx _
    case future.future a b =>
      obtain ⟨ta, ha, rfl⟩ := Option.map_eq_some_iff.1 hx'
      obtain ⟨tb, hb, rfl⟩ := Option.map_eq_some_iff.1 hy'
      simpa [checkDefined, eraseRes] using (checkPayload_spec hf na nb a b ta tb ha hb).ctx _
  · rw [checkDefined_mismatch v f x y hx hy htag]
    refine decides_mismatch (fun e => htag ?_)
    rw [← unfoldDefined_tag x tx hx' hx, ← unfoldDefined_tag y ty hy' hy, ← ttag_eraseRes tx, ← ttag_eraseRes ty, e]

/-! ### monotonicity of unfolding in the fuel -/

def ULe (u u' : ValueType → Option Tree) : Prop := ∀ v t, u v = some t → u' v = some t

theorem unfoldOpt_mono {u u' : ValueType → Option Tree} (h : ULe u u') (a : Option ValueType) (t : Tree)
    (ha : unfoldOpt u a = some t) : unfoldOpt u' a = some t := by
  cases a with
  | none => simpa [unfoldOpt] using ha
  | some x => exact h x t (by simpa [unfoldOpt] using ha)

theorem unfoldUnnamed_mono {u u' : ValueType → Option Tree} (h : ULe u u') :
    ∀ (l : List ValueType) (F : Forest), unfoldUnnamed u l = some F → unfoldUnnamed u' l = some F
  | [], F, hl => by simpa [unfoldUnnamed] using hl
  | a :: l, F, hl => by
    simp only [unfoldUnnamed] at hl ⊢
    split at hl
    · rename_i t fr h1 h2
      rw [h a t h1, unfoldUnnamed_mono h l fr h2]; exact hl
    · cases hl

theorem unfoldNamed_mono {u u' : ValueType → Option Tree} (h : ULe u u') :
    ∀ (l : List (Str × ValueType)) (F : Forest), unfoldNamed u l = some F → unfoldNamed u' l = some F
  | [], F, hl => by simpa [unfoldNamed] using hl
  | (n, a) :: l, F, hl => by
    simp only [unfoldNamed] at hl ⊢
    split at hl
    · rename_i t fr h1 h2
      rw [h a t h1, unfoldNamed_mono h l fr h2]; exact hl
    · cases hl

theorem unfoldNamedOpt_mono {u u' : ValueType → Option Tree} (h : ULe u u') :
    ∀ (l : List (Str × Option ValueType)) (F : Forest), unfoldNamedOpt u l = some F → unfoldNamedOpt u' l = some F
  | [], F, hl => by simpa [unfoldNamedOpt] using hl
  | (n, a) :: l, F, hl => by
    simp only [unfoldNamedOpt] at hl ⊢
    split at hl
    · rename_i t fr h1 h2
      rw [unfoldOpt_mono h a t h1, unfoldNamedOpt_mono h l fr h2]; exact hl
    · cases hl

theorem unfoldDefined_mono {u u' : ValueType → Option Tree} (h : ULe u u') (x : DefinedType) (t : Tree)
    (hx : unfoldDefined u x = some t) : unfoldDefined u' x = some t := by
  cases x <;> simp only [unfoldDefined] at hx ⊢
  case alias a => exact h a t hx
  case tuple ts =>
    obtain ⟨F, hF, rfl⟩ := Option.map_eq_some_iff.1 hx
    rw [unfoldUnnamed_mono h ts F hF]; rfl
  case list a =>
    obtain ⟨F, hF, rfl⟩ := Option.map_eq_some_iff.1 hx
    rw [h a F hF]; rfl
  case fixedSizeList a n =>
    obtain ⟨F, hF, rfl⟩ := Option.map_eq_some_iff.1 hx
    rw [h a F hF]; rfl
  case option a =>
    obtain ⟨F, hF, rfl⟩ := Option.map_eq_some_iff.1 hx
    rw [h a F hF]; rfl
  case result ok err =>
    split at hx
    · rename_i a b h1 h2
      rw [unfoldOpt_mono h ok a h1, unfoldOpt_mono h err b h2]; exact hx
    · cases hx
  case variant cs =>
    obtain ⟨F, hF, rfl⟩ := Option.map_eq_some_iff.1 hx
    rw [unfoldNamedOpt_mono h cs F hF]; rfl
  case record fs =>
    obtain ⟨F, hF, rfl⟩ := Option.map_eq_some_iff.1 hx
    rw [unfoldNamed_mono h fs F hF]; rfl
  case flags => exact hx
  case enum => exact hx
  case stream a =>
    obtain ⟨F, hF, rfl⟩ := Option.map_eq_some_iff.1 hx
    rw [unfoldOpt_mono h a F hF]; rfl
  case future a =>
    obtain ⟨F, hF, rfl⟩ := Option.map_eq_some_iff.1 hx
    rw [unfoldOpt_mono h a F hF]; rfl

theorem unfoldVT_succ (t : Types) : ∀ n, ULe (t.unfoldVT n) (t.unfoldVT (n + 1))
  | 0 => by intro v tr h; simp [Types.unfoldVT] at h
  | n + 1 => by
    intro v tr h
    cases v with
    | prim p => simpa [Types.unfoldVT] using h
    | own r => simpa [Types.unfoldVT] using h
    | borrow r => simpa [Types.unfoldVT] using h
    | defined d =>
      simp only [Types.unfoldVT] at h ⊢
      cases hd : t.defined[d]? with
      | none => simp [hd] at h
      | some x =>
        simp only [hd] at h ⊢
        exact unfoldDefined_mono (unfoldVT_succ t n) x tr h

theorem unfoldVT_mono (t : Types) {n m : Nat} (h : n ≤ m) : ULe (t.unfoldVT n) (t.unfoldVT m) := by
  induction h with
  | refl => exact fun _ _ h => h
  | step _ ih => exact fun v tr hv => unfoldVT_succ t _ v tr (ih v tr hv)

theorem unfoldVT_noNone (t : Types) : ∀ n, NoNone (t.unfoldVT n)
  | 0 => by intro a tr h; simp [Types.unfoldVT] at h
  | n + 1 => by
    intro a tr h
    cases a with
    | prim p => simp [Types.unfoldVT] at h; subst h; simp
    | own r =>
      simp only [Types.unfoldVT] at h
      obtain ⟨_, _, rfl⟩ := Option.map_eq_some_iff.1 h; simp
    | borrow r =>
      simp only [Types.unfoldVT] at h
      obtain ⟨_, _, rfl⟩ := Option.map_eq_some_iff.1 h; simp
    | defined d =>
      simp only [Types.unfoldVT] at h
      cases hd : t.defined[d]? with
      | none => simp [hd] at h
      | some x =>
        simp only [hd] at h
        by_cases hx : dtag x = 9
        · cases x <;> simp [dtag] at hx
          simp only [unfoldDefined] at h
          exact unfoldVT_noNone t n _ tr h
        · have := unfoldDefined_tag x tr h hx
          intro e; subst e
          cases x <;> simp [ttag, dtag] at this

/-! ### `resolve_value_type` -/

/-- a value type that `resolve_value_type` returns: not a defined type that is an alias -/
def Resolved (t : Types) (v : ValueType) : Prop :=
  ∀ d, v = .defined d → ∃ x, t.defined[d]? = some x ∧ dtag x ≠ 9

theorem resolve_spec (t : Types) : ∀ (n : Nat) (a : ValueType) (ta : Tree), t.unfoldVT (n + 1) a = some ta →
    ∃ a', t.resolveValueType (n + 1) a = some a' ∧ t.unfoldVT (n + 1) a' = some ta ∧ Resolved t a'
  | n, .prim p, ta, h => ⟨.prim p, by simp [Types.resolveValueType], h, by intro d hd; cases hd⟩
  | n, .own r, ta, h => ⟨.own r, by simp [Types.resolveValueType], h, by intro d hd; cases hd⟩
  | n, .borrow r, ta, h => ⟨.borrow r, by simp [Types.resolveValueType], h, by intro d hd; cases hd⟩
  | n, .defined d, ta, h => by
    have h0 := h
    simp only [Types.unfoldVT] at h
    cases hd : t.defined[d]? with
    | none => simp [hd] at h
    | some x =>
      simp only [hd] at h
      by_cases hx : dtag x = 9
      · cases x <;> simp [dtag] at hx
        rename_i a
        simp only [unfoldDefined] at h
        cases n with
        | zero => simp [Types.unfoldVT] at h
        | succ n =>
          obtain ⟨a', hr, hu, hres⟩ := resolve_spec t n a ta h
          refine ⟨a', ?_, unfoldVT_succ t _ a' ta hu, hres⟩
          simp only [Types.resolveValueType, hd]
          exact hr
      · refine ⟨.defined d, ?_, h0, ?_⟩
        · simp only [Types.resolveValueType, hd]
          cases x <;> simp [dtag] at hx <;> rfl
        · intro d' hd'; cases hd'; exact ⟨x, hd, hx⟩

/-! ### resources -/

theorem checkResource_spec (v : Variance) (at_ bt : Types) (hu : at_.uid = bt.uid → at_ = bt)
    (a b : Nat) (la lb : Res) (ha : at_.resLeaf a = some la) (hb : bt.resLeaf b = some lb) :
    Decides (checkResource v at_ a bt b) (eraseR la = eraseR lb) := by
  simp only [checkResource]
  by_cases hs : (at_.uid == bt.uid && a == b) = true
  · simp only [hs, ↓reduceIte]
    simp only [Bool.and_eq_true, beq_iff_eq] at hs
    have := hu hs.1
    subst this
    rw [hs.2] at ha
    rw [ha] at hb
    cases hb
    exact decides_ok rfl
  · simp only [hs, Bool.false_eq_true, ↓reduceIte]
    simp only [Types.resLeaf] at ha hb
    cases hra : at_.resolveResource (at_.resources.length + 1) a with
    | none => simp [hra] at ha
    | some ra =>
      cases hrb : bt.resolveResource (bt.resources.length + 1) b with
      | none => simp [hrb] at hb
      | some rb =>
        simp only [hra] at ha
        simp only [hrb] at hb
        cases hxa : at_.resources[ra]? with
        | none => simp [hxa] at ha
        | some x =>
          cases hxb : bt.resources[rb]? with
          | none => simp [hxb] at hb
          | some y =>
            simp only [hxa, Option.some.injEq] at ha
            simp only [hxb, Option.some.injEq] at hb
            subst ha; subst hb
            simp only [hxa, hxb, eraseR, Res.mk.injEq, true_and]
            by_cases hn : x.name = y.name
            · simp only [hn, bne_self_eq_false, Bool.false_eq_true, ↓reduceIte]
              exact decides_ok trivial
            · have : (x.name != y.name) = true := by simpa using hn
              simp only [this, ↓reduceIte]
              cases v <;> simp only [expFound] <;> exact decides_err hn

/-! ### the value level -/

def vtag : Tree → Nat
  | .prim _ => 0 | .own _ => 1 | .borrow _ => 2 | _ => 3

theorem vtag_eraseRes (t : Tree) : vtag (eraseRes t) = vtag t := by
  cases t <;> simp [eraseRes, vtag]

theorem vtag_of_ttag {t : Tree} (h : ttag t ≠ 100) : vtag t = 3 := by
  cases t <;> simp [ttag] at h <;> rfl

theorem checkValueType_spec (v : Variance) (at_ bt : Types) (hu : at_.uid = bt.uid → at_ = bt) :
    ∀ n, VOk (checkValueType v at_ bt n) (at_.unfoldVT n) (bt.unfoldVT n)
  | 0 => by intro a b ta tb ha; simp [Types.unfoldVT] at ha
  | n + 1 => by
    intro a b ta tb ha hb
    obtain ⟨a', hra, hua, hresa⟩ := resolve_spec at_ n a ta ha
    obtain ⟨b', hrb, hub, hresb⟩ := resolve_spec bt n b tb hb
    simp only [checkValueType, hra, hrb]
    have ih := checkValueType_spec v at_ bt hu n
    -- the tree kinds of the two resolved value types
    have tagA : ∀ d, a' = .defined d → vtag ta = 3 := by
      intro d hd; subst hd
      obtain ⟨x, hx, hx9⟩ := hresa d rfl
      simp only [Types.unfoldVT, hx] at hua
      exact vtag_of_ttag (by rw [unfoldDefined_tag x ta hua hx9]; cases x <;> simp [dtag] at hx9 ⊢)
    have tagB : ∀ d, b' = .defined d → vtag tb = 3 := by
      intro d hd; subst hd
      obtain ⟨x, hx, hx9⟩ := hresb d rfl
      simp only [Types.unfoldVT, hx] at hub
      exact vtag_of_ttag (by rw [unfoldDefined_tag x tb hub hx9]; cases x <;> simp [dtag] at hx9 ⊢)
    have ne_of_vtag : vtag ta ≠ vtag tb → ¬ eraseRes ta = eraseRes tb := by
      intro h e
      exact h (by rw [← vtag_eraseRes ta, ← vtag_eraseRes tb, e])
    cases a' with
    | prim p =>
      simp only [Types.unfoldVT, Option.some.injEq] at hua; subst hua
      cases b' with
      | prim q =>
        simp only [Types.unfoldVT, Option.some.injEq] at hub; subst hub
        simp only [checkPrimitive, eraseRes, Tree.prim.injEq]
        by_cases hpq : p = q
        · subst hpq
          simp only [bne_self_eq_false, Bool.false_eq_true, ↓reduceIte]
          exact decides_ok trivial
        · have : (p != q) = true := by simpa using hpq
          simp only [this, ↓reduceIte]
          exact decides_mismatch hpq
      | own r =>
        obtain ⟨l, _, rfl⟩ := Option.map_eq_some_iff.1 (by simpa [Types.unfoldVT] using hub)
        exact decides_mismatch (ne_of_vtag (by simp [vtag]))
      | borrow r =>
        obtain ⟨l, _, rfl⟩ := Option.map_eq_some_iff.1 (by simpa [Types.unfoldVT] using hub)
        exact decides_mismatch (ne_of_vtag (by simp [vtag]))
      | defined d => exact decides_mismatch (ne_of_vtag (by rw [tagB d rfl]; simp [vtag]))
    | own r =>
      obtain ⟨la, hla, rfl⟩ := Option.map_eq_some_iff.1 (by simpa [Types.unfoldVT] using hua)
      cases b' with
      | prim q =>
        simp only [Types.unfoldVT, Option.some.injEq] at hub; subst hub
        exact decides_mismatch (ne_of_vtag (by simp [vtag]))
      | own r' =>
        obtain ⟨lb, hlb, rfl⟩ := Option.map_eq_some_iff.1 (by simpa [Types.unfoldVT] using hub)
        simpa [eraseRes] using checkResource_spec v at_ bt hu r r' la lb hla hlb
      | borrow r' =>
        obtain ⟨l, _, rfl⟩ := Option.map_eq_some_iff.1 (by simpa [Types.unfoldVT] using hub)
        exact decides_mismatch (ne_of_vtag (by simp [vtag]))
      | defined d => exact decides_mismatch (ne_of_vtag (by rw [tagB d rfl]; simp [vtag]))
    | borrow r =>
      obtain ⟨la, hla, rfl⟩ := Option.map_eq_some_iff.1 (by simpa [Types.unfoldVT] using hua)
      cases b' with
      | prim q =>
        simp only [Types.unfoldVT, Option.some.injEq] at hub; subst hub
        exact decides_mismatch (ne_of_vtag (by simp [vtag]))
      | own r' =>
        obtain ⟨l, _, rfl⟩ := Option.map_eq_some_iff.1 (by simpa [Types.unfoldVT] using hub)
        exact decides_mismatch (ne_of_vtag (by simp [vtag]))
      | borrow r' =>
        obtain ⟨lb, hlb, rfl⟩ := Option.map_eq_some_iff.1 (by simpa [Types.unfoldVT] using hub)
        simpa [eraseRes] using checkResource_spec v at_ bt hu r r' la lb hla hlb
      | defined d => exact decides_mismatch (ne_of_vtag (by rw [tagB d rfl]; simp [vtag]))
    | defined da =>
      cases b' with
      | prim q =>
        simp only [Types.unfoldVT, Option.some.injEq] at hub; subst hub
        exact decides_mismatch (ne_of_vtag (by rw [tagA da rfl]; simp [vtag]))
      | own r' =>
        obtain ⟨l, _, rfl⟩ := Option.map_eq_some_iff.1 (by simpa [Types.unfoldVT] using hub)
        exact decides_mismatch (ne_of_vtag (by rw [tagA da rfl]; simp [vtag]))
      | borrow r' =>
        obtain ⟨l, _, rfl⟩ := Option.map_eq_some_iff.1 (by simpa [Types.unfoldVT] using hub)
        exact decides_mismatch (ne_of_vtag (by rw [tagA da rfl]; simp [vtag]))
      | defined db =>
        by_cases hs : (at_.uid == bt.uid && da == db) = true
        · simp only [hs, ↓reduceIte]
          simp only [Bool.and_eq_true, beq_iff_eq] at hs
          have := hu hs.1
          subst this
          rw [hs.2] at hua
          rw [hua] at hub
          cases hub
          exact decides_ok rfl
        · simp only [hs, Bool.false_eq_true, ↓reduceIte]
          obtain ⟨x, hx, hx9⟩ := hresa da rfl
          obtain ⟨y, hy, hy9⟩ := hresb db rfl
          simp only [Types.unfoldVT, hx] at hua
          simp only [Types.unfoldVT, hy] at hub
          simp only [hx, hy]
          exact checkDefined_spec v ih (unfoldVT_noNone at_ n) (unfoldVT_noNone bt n) x y ta tb hx9 hy9 hua hub

/-! ### functions -/

theorem checkFunc_spec (v : Variance) (at_ bt : Types) (hu : at_.uid = bt.uid → at_ = bt) (n : Nat)
    (fa fb : Nat) (ta tb : Tree) (ha : at_.unfoldFunc n fa = some ta) (hb : bt.unfoldFunc n fb = some tb) :
    Decides (checkFunc v n at_ fa bt fb) (eraseRes ta = eraseRes tb) := by
  simp only [checkFunc]
  by_cases hs : (at_.uid == bt.uid && fa == fb) = true
  · simp only [hs, ↓reduceIte]
    simp only [Bool.and_eq_true, beq_iff_eq] at hs
    have := hu hs.1
    subst this
    rw [hs.2] at ha
    rw [ha] at hb
    cases hb
    exact decides_ok rfl
  · simp only [hs, Bool.false_eq_true, ↓reduceIte]
    simp only [Types.unfoldFunc] at ha hb
    cases hfa : at_.funcs[fa]? with
    | none => simp [hfa] at ha
    | some x =>
      cases hfb : bt.funcs[fb]? with
      | none => simp [hfb] at hb
      | some y =>
        simp only [hfa] at ha
        simp only [hfb] at hb
        split at ha
        · rename_i pa ra hpa hra
          split at hb
          · rename_i pb rb hpb hrb
            cases ha; cases hb
            have hv := checkValueType_spec v at_ bt hu n
            simp only [eraseRes, Tree.func.injEq]
            by_cases hasync : x.isAsync = y.isAsync
            · simp only [hasync, bne_self_eq_false, Bool.false_eq_true, ↓reduceIte, true_and]
              by_cases hl : x.params.length = y.params.length
              · simp only [hl, bne_self_eq_false, Bool.false_eq_true, ↓reduceIte]
                have dp := checkParams_spec v hv x.params y.params 0 pa pb hpa hpb hl
                cases hr : checkParams v (checkValueType v at_ bt n) 0 x.params y.params with
                | ok =>
                  have e1 : eraseResF pa = eraseResF pb := dp.1.1 hr
                  simp only [e1, true_and]
                  rcases opt_cases hv (unfoldVT_noNone at_ n) (unfoldVT_noNone bt n) x.result y.result ra rb hra hrb
                    with ⟨h1, h2, e⟩ | ⟨p, q, h1, h2, d⟩ | ⟨hne, e⟩
                  · rw [h1, h2]; exact decides_ok e
                  · rw [h1, h2]; exact d.ctx _
                  · cases hx : x.result <;> cases hy : y.result <;> simp [hx, hy] at hne <;> cases v <;>
                      simp only [expFound] <;> exact decides_err e
                | err m =>
                  have : ¬ eraseResF pa = eraseResF pb := fun e => by have := dp.1.2 e; rw [hr] at this; cases this
                  exact decides_err (fun e => this e.1)
                | panic s => exact absurd hr (dp.2 s)
              · have : (x.params.length != y.params.length) = true := by simpa using hl
                simp only [this, ↓reduceIte]
                cases v <;> simp only [expFound] <;> refine decides_err (fun e => erase_ne_of_length ?_ e.1) <;>
                  rw [unfoldNamed_length _ pa hpa, unfoldNamed_length _ pb hpb] <;> exact hl
            · have : (x.isAsync != y.isAsync) = true := by simpa using hasync
              simp only [this, ↓reduceIte]
              cases v <;> simp only [expFound] <;> exact decides_err (fun e => hasync e.1)
          · cases hb
        · cases ha

/-! ### core externs and modules -/

theorem limitsMatchImpl_eq (ai : Nat) (am : Option Nat) (bi : Nat) (bm : Option Nat) :
    limitsMatchImpl ai am bi bm = limitsMatch ai am bi bm := by
  cases am <;> cases bm <;> simp [limitsMatchImpl, limitsMatch]

theorem checkCoreFunc_spec (v : Variance) (a b : CoreFuncType) : Decides (checkCoreFunc v a b) (a = b) := by
  simp only [checkCoreFunc]
  by_cases h : a = b
  · subst h; simp only [bne_self_eq_false, Bool.false_eq_true, ↓reduceIte]; exact decides_ok (by simp)
  · have : (a != b) = true := by simpa using h
    simp only [this, ↓reduceIte]; exact decides_mismatch h

theorem checkCoreExtern_spec (v : Variance) (a b : CoreExtern) :
    Decides (checkCoreExtern v a b) (externSub a b = true) := by
  cases a <;> cases b <;> simp only [checkCoreExtern, externSub]
  case func.func x y => simpa using checkCoreFunc_spec v x y
  case tag.tag x y => simpa using checkCoreFunc_spec v x y
  case table.table ae ai am a64 ash be bi bm b64 bsh =>
    rw [limitsMatchImpl_eq]
    by_cases h1 : ae = be
    · subst h1
      simp only [bne_self_eq_false, Bool.false_eq_true, ↓reduceIte, beq_self_eq_true, Bool.true_and]
      by_cases h2 : limitsMatch ai am bi bm = true
      · simp only [h2, Bool.not_true, Bool.false_eq_true, ↓reduceIte, Bool.and_true]
        by_cases h3 : a64 = b64
        · subst h3
          simp only [bne_self_eq_false, Bool.false_eq_true, ↓reduceIte, beq_self_eq_true, Bool.true_and]
          by_cases h4 : ash = bsh
          · subst h4; simp only [bne_self_eq_false, Bool.false_eq_true, ↓reduceIte, beq_self_eq_true]; exact decides_ok (by simp)
          · have : (ash != bsh) = true := by simpa using h4
            simp only [this, ↓reduceIte]; exact decides_err (by simpa using h4)
        · have : (a64 != b64) = true := by simpa using h3
          simp only [this, ↓reduceIte]; exact decides_err (by simp [h3])
      · simp only [h2, Bool.not_false, ↓reduceIte]; exact decides_err (by simp [h2])
    · have : (ae != be) = true := by simpa using h1
      simp only [this, ↓reduceIte]
      cases v <;> simp only [expFound] <;> exact decides_err (by simp [h1])
  case memory.memory a64 ash ai am ap b64 bsh bi bm bp =>
    rw [limitsMatchImpl_eq]
    by_cases h1 : ash = bsh
    · subst h1
      simp only [bne_self_eq_false, Bool.false_eq_true, ↓reduceIte, beq_self_eq_true, Bool.and_true]
      by_cases h2 : a64 = b64
      · subst h2
        simp only [bne_self_eq_false, Bool.false_eq_true, ↓reduceIte, beq_self_eq_true, Bool.true_and]
        by_cases h3 : limitsMatch ai am bi bm = true
        · simp only [h3, Bool.not_true, Bool.false_eq_true, ↓reduceIte, Bool.and_true]
          by_cases h4 : ap.getD 16 = bp.getD 16
          · simp only [h4, bne_self_eq_false, Bool.false_eq_true, ↓reduceIte, pageSizeLog2, beq_self_eq_true]
            exact decides_ok (by simp)
          · have : (ap.getD 16 != bp.getD 16) = true := by simpa using h4
            simp only [this, ↓reduceIte]; exact decides_err (by simpa [pageSizeLog2] using h4)
        · simp only [h3, Bool.not_false, ↓reduceIte]; exact decides_err (by simp [h3])
      · have : (a64 != b64) = true := by simpa using h2
        simp only [this, ↓reduceIte]; exact decides_err (by simp [h2])
    · have : (ash != bsh) = true := by simpa using h1
      simp only [this, ↓reduceIte]; exact decides_err (by simp [h1])
  case global.global avt am ash bvt bm bsh =>
    by_cases h1 : am = bm
    · subst h1
      simp only [bne_self_eq_false, Bool.false_eq_true, ↓reduceIte, beq_self_eq_true, Bool.and_true]
      by_cases h2 : avt = bvt
      · subst h2
        simp only [bne_self_eq_false, Bool.false_eq_true, ↓reduceIte, beq_self_eq_true, Bool.true_and]
        by_cases h3 : ash = bsh
        · subst h3; simp only [bne_self_eq_false, Bool.false_eq_true, ↓reduceIte, beq_self_eq_true]; exact decides_ok (by simp)
        · have : (ash != bsh) = true := by simpa using h3
          simp only [this, ↓reduceIte]; exact decides_err (by simpa using h3)
      · have : (avt != bvt) = true := by simpa using h2
        simp only [this, ↓reduceIte]
        cases v <;> simp only [expFound] <;> exact decides_err (by simp [h2])
    · have : (am != bm) = true := by simpa using h1
      simp only [this, ↓reduceIte]; exact decides_err (by simp [h1])
  all_goals exact decides_mismatch (by simp)

theorem moduleImports_spec (prev cur : Variance) (bI : List ((Str × Str) × CoreExtern)) :
    ∀ l : List ((Str × Str) × CoreExtern),
    Decides (moduleImports prev cur bI l)
      (l.all (fun ia => match alGet bI ia.1 with | some eb => externSub eb ia.2 | none => false) = true)
  | [] => by simpa [moduleImports] using decides_ok trivial
  | (k, a) :: rest => by
    simp only [moduleImports, List.all_cons, Bool.and_eq_true]
    cases hg : alGet bI k with
    | none =>
      simp only
      cases prev <;> exact decides_err (by simp)
    | some b =>
      simp only
      have d := checkCoreExtern_spec cur b a
      cases hr : checkCoreExtern cur b a with
      | ok =>
        have : externSub b a = true := d.1.1 hr
        simp only [R.ctx, this, true_and]
        exact moduleImports_spec prev cur bI rest
      | err m =>
        have : ¬ externSub b a = true := fun e => by have := d.1.2 e; rw [hr] at this; cases this
        simp only [R.ctx]
        exact decides_err (fun e => this e.1)
      | panic s => exact absurd hr (d.2 s)

theorem moduleExports_spec (cur : Variance) (aE : List (Str × CoreExtern)) :
    ∀ l : List (Str × CoreExtern),
    Decides (moduleExports cur aE l)
      (l.all (fun eb => match alGet aE eb.1 with | some ea => externSub ea eb.2 | none => false) = true)
  | [] => by simpa [moduleExports] using decides_ok trivial
  | (k, b) :: rest => by
    simp only [moduleExports, List.all_cons, Bool.and_eq_true]
    cases hg : alGet aE k with
    | none =>
      simp only
      cases cur <;> exact decides_err (by simp)
    | some a =>
      simp only
      have d := checkCoreExtern_spec .covariant a b
      cases hr : checkCoreExtern .covariant a b with
      | ok =>
        have : externSub a b = true := d.1.1 hr
        simp only [R.ctx, this, true_and]
        exact moduleExports_spec cur aE rest
      | err m =>
        have : ¬ externSub a b = true := fun e => by have := d.1.2 e; rw [hr] at this; cases this
        simp only [R.ctx]
        exact decides_err (fun e => this e.1)
      | panic s => exact absurd hr (d.2 s)

theorem Checker.revert_invert (c : Checker) : (c.invert).2.revert = some c := by
  simp [Checker.invert, Checker.revert]

theorem checkModule_spec (c : Checker) (at_ bt : Types) (hu : at_.uid = bt.uid → at_ = bt)
    (a b : Nat) (ma mb : ModuleType) (hma : at_.modules[a]? = some ma) (hmb : bt.modules[b]? = some mb)
    (hd : ma.keysDistinct = true) :
    Decides (checkModule c at_ a bt b).1 (moduleSub ma mb = true) ∧
      (checkModule c at_ a bt b).2.cache = c.cache ∧
      ((checkModule c at_ a bt b).1 = .ok → (checkModule c at_ a bt b).2.kinds = c.kinds) := by
  simp only [checkModule]
  by_cases hs : (at_.uid == bt.uid && a == b) = true
  · simp only [hs, ↓reduceIte]
    simp only [Bool.and_eq_true, beq_iff_eq] at hs
    have := hu hs.1
    subst this
    rw [hs.2, hmb] at hma
    cases hma
    exact ⟨decides_ok (moduleSub_refl ma hd), by simp, by simp⟩
  · simp only [hs, Bool.false_eq_true, ↓reduceIte, hma, hmb]
    have di := moduleImports_spec c.invert.1 c.invert.2.kind mb.imports ma.imports
    cases hr : moduleImports c.invert.1 c.invert.2.kind mb.imports ma.imports with
    | ok =>
      simp only [Checker.revert_invert]
      have de := moduleExports_spec c.kind ma.exports mb.exports
      refine ⟨?_, by simp, by simp⟩
      simp only [moduleSub, Bool.and_eq_true]
      exact de.and_left (di.1.1 hr)
    | err m =>
      refine ⟨decides_err ?_, by simp [Checker.invert], by simp⟩
      intro e
      simp only [moduleSub, Bool.and_eq_true] at e
      have := di.1.2 e.1
      rw [hr] at this; cases this
    | panic s => exact absurd hr (di.2 s)

end Wac
