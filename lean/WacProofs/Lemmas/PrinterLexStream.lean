import WacModel.Lexer
import WacModel.PrintTokens
/-
  C13, lexical layer 2: the token stream `lexAll`/`tokenize` without byte offsets (`lexE`), its
  independence of fuel and positions, and the three composition lemmas the layout proof uses:
    * `lexE_gap`   white space and `///` lines between two tokens are skipped,
    * `docsOf_gap` and become the doc comments of the next token (`Lexer::comments`),
    * `lexE_tok`   a token recognised by `lexStep` is the head of the stream.
-/
namespace Wac.Lemmas.PrinterLex
open Wac Wac.Ast Wac.Lex Wac.PrintTok

/-- the texts of the doc comments `Lexer::comments` finds at the start of `s` -/
def docsOf (f : Nat) (s : Str) : List Str := (commentsAt f 0 s).map (·.comment)

/-- the token stream of `s` without offsets; `prev` is the text since the previous token -/
def lexE (f : Nat) (s prev : Str) : List PTok := (lexAll f 0 s 0 prev).map LTok.erase

/-! ### independence of positions and fuel -/

theorem skipBlock_length (d : Nat) (s r : Str) (h : skipBlock d s = some r) : r.length < s.length := by
  fun_induction skipBlock d s <;> simp_all <;> omega

theorem commentsAt_pos (f : Nat) (pos pos' : Nat) (s : Str) :
    (commentsAt f pos s).map (·.comment) = (commentsAt f pos' s).map (·.comment) := by
  induction f generalizing pos pos' s with
  | zero => simp [commentsAt]
  | succ f ih =>
    cases s with
    | nil => simp [commentsAt]
    | cons c r =>
      simp only [commentsAt]
      repeat' split
      all_goals first
        | rfl
        | exact ih _ _ _
        | (simp only [List.map_cons]; congr 1; exact ih _ _ _)

theorem commentsAt_fuel (f f' : Nat) (pos : Nat) (s : Str) (h : s.length < f) (h' : s.length < f') :
    (commentsAt f pos s).map (·.comment) = (commentsAt f' pos s).map (·.comment) := by
  induction f generalizing f' pos s with
  | zero => omega
  | succ f ih =>
    cases f' with
    | zero => omega
    | succ f' =>
      cases s with
      | nil => simp [commentsAt]
      | cons c r =>
        simp only [commentsAt]
        simp only [List.length_cons] at h h'
        have hline : c = '/' →
            ((c :: r).drop (List.takeWhile (fun x => x != '\n') (c :: r)).length).length < f ∧
            ((c :: r).drop (List.takeWhile (fun x => x != '\n') (c :: r)).length).length < f' := by
          intro hc
          subst hc
          rw [List.takeWhile_cons_of_pos (by decide)]
          simp only [List.length_drop, List.length_cons]; omega
        have hblock : ∀ after, skipBlock 0 (List.drop 1 r) = some after →
            after.length < f ∧ after.length < f' := by
          intro after ha
          have := skipBlock_length _ _ _ ha
          simp only [List.length_drop] at this; omega
        split
        · apply ih <;> simp only [List.length_drop, List.length_cons] <;> omega
        · split
          · rename_i hc
            have hc' : c = '/' := by simp only [Bool.and_eq_true, beq_iff_eq] at hc; exact hc.1
            have hl := hline hc'
            split
            · simp only [List.map_cons]; congr 1; exact ih _ _ _ hl.1 hl.2
            · exact ih _ _ _ hl.1 hl.2
          · split
            · split
              · rename_i after ha
                have hl := hblock after ha
                split
                · simp only [List.map_cons]; congr 1; exact ih _ _ _ hl.1 hl.2
                · exact ih _ _ _ hl.1 hl.2
              · rfl
            · rfl

theorem lexStep_cons_ne_eof (c : Char) (r : Str) : lexStep (c :: r) ≠ .eof := by
  simp only [lexStep]
  repeat' split
  all_goals simp

theorem lexAll_indep (f f' pos pos' pp pp' : Nat) (s prev : Str) (h : s.length < f) (h' : s.length < f') :
    (lexAll f pos s pp prev).map LTok.erase = (lexAll f' pos' s pp' prev).map LTok.erase := by
  induction f generalizing f' pos pos' pp pp' s prev with
  | zero => omega
  | succ f ih =>
    cases f' with
    | zero => omega
    | succ f' =>
      cases s with
      | nil => simp [lexAll, lexStep]
      | cons c r =>
        simp only [lexAll]
        simp only [List.length_cons] at h h'
        split
        · rfl
        · rename_i n _
          apply ih <;> simp only [List.length_drop, List.length_cons] <;> split <;> omega
        · rename_i res n _
          simp only [List.map_cons, LTok.erase]
          congr 1
          · congr 1
            exact commentsAt_pos _ _ _ _
          · apply ih <;> simp only [List.length_drop, List.length_cons] <;> split <;> omega

/-! ### the stream with canonical fuel -/

/-- the token stream of `s` (enough fuel); `prev` is the text since the previous token -/
def lexS (s prev : Str) : List PTok := lexE (s.length + 1) s prev

theorem lexE_eq_lexS (f : Nat) (s prev : Str) (h : s.length < f) : lexE f s prev = lexS s prev :=
  lexAll_indep _ _ _ _ _ _ _ _ h (Nat.lt_succ_self _)

theorem tokenizeE_eq_lexS (src : Str) : tokenizeE src = lexS src src := rfl

theorem lexS_nil (prev : Str) : lexS [] prev = [] := by
  simp [lexS, lexE, lexAll, lexStep]

theorem lexS_skip (s prev : Str) (n : Nat) (h : lexStep s = .skip n) (hn : 0 < n) :
    lexS s prev = lexS (s.drop n) prev := by
  cases s with
  | nil => simp [lexStep] at h
  | cons c r =>
    simp only [lexS, lexE, lexAll, h]
    rw [if_neg (by omega)]
    exact lexAll_indep _ _ _ _ _ _ _ _
      (by simp only [List.length_drop, List.length_cons]; omega) (Nat.lt_succ_self _)

theorem lexS_tok (s prev : Str) (res : Except LexError Token) (n : Nat)
    (h : lexStep s = .tok res n) (hn : 0 < n) :
    lexS s prev = ⟨res, s.take n, docsOf (prev.length + 1) prev⟩ :: lexS (s.drop n) (s.drop n) := by
  cases s with
  | nil => simp [lexStep] at h
  | cons c r =>
    simp only [lexS, lexE, lexAll, h]
    rw [if_neg (by omega)]
    simp only [List.map_cons, LTok.erase, docsOf]
    congr 1
    exact lexAll_indep _ _ _ _ _ _ _ _
      (by simp only [List.length_drop, List.length_cons]; omega) (Nat.lt_succ_self _)

/-! ### gaps: white space and `///` lines between two tokens -/

/-- `Gap g ls`: the text `g` consists of blanks, line feeds and `///…` lines (each ended by a
line feed); `ls` are the trimmed texts of the `///` lines -/
inductive Gap : Str → List Str → Prop
  | nil : Gap [] []
  | ws (c : Char) (g : Str) (ls : List Str) : (c = ' ' ∨ c = '\n') → Gap g ls → Gap (c :: g) ls
  | doc (l g : Str) (ls : List Str) : '\n' ∉ l → Gap g ls →
      Gap ('/' :: '/' :: '/' :: (l ++ '\n' :: g)) (rustTrim l :: ls)

theorem Gap.append {g₁ g₂ : Str} {l₁ l₂ : List Str} (h₁ : Gap g₁ l₁) (h₂ : Gap g₂ l₂) :
    Gap (g₁ ++ g₂) (l₁ ++ l₂) := by
  induction h₁ with
  | nil => exact h₂
  | ws c g ls hc _ ih => exact Gap.ws c _ _ hc ih
  | doc l g ls hl _ ih =>
    have := Gap.doc l _ _ hl ih
    simpa using this

theorem Gap.replicate (n : Nat) : Gap (List.replicate n ' ') [] := by
  induction n with
  | zero => exact Gap.nil
  | succ n ih => exact Gap.ws _ _ _ (Or.inl rfl) ih

theorem lexS_drop_skip (x prev : Str) :
    lexS (x.drop (x.takeWhile isSkipChar).length) prev = lexS x prev := by
  cases x with
  | nil => rfl
  | cons c r =>
    by_cases hc : isSkipChar c = true
    · have hs : lexStep (c :: r) = .skip (1 + (r.takeWhile isSkipChar).length) := by
        simp [lexStep, hc]
      rw [lexS_skip _ _ _ hs (by omega), List.takeWhile_cons_of_pos hc]
      simp [Nat.add_comm]
    · rw [List.takeWhile_cons_of_neg hc]; rfl

theorem lexS_ws_cons (c : Char) (x prev : Str) (hc : isSkipChar c = true) :
    lexS (c :: x) prev = lexS x prev := by
  have hs : lexStep (c :: x) = .skip (1 + (x.takeWhile isSkipChar).length) := by
    simp [lexStep, hc]
  rw [lexS_skip _ _ _ hs (by omega)]
  have : (c :: x).drop (1 + (x.takeWhile isSkipChar).length) = x.drop (x.takeWhile isSkipChar).length := by
    rw [Nat.add_comm]; rfl
  rw [this, lexS_drop_skip]

theorem takeWhile_ne_newline (l x : Str) (hl : '\n' ∉ l) :
    List.takeWhile (fun c => c != '\n') (l ++ '\n' :: x) = l := by
  induction l with
  | nil => simp
  | cons a l ih =>
    simp only [List.mem_cons, not_or] at hl
    rw [List.cons_append, List.takeWhile_cons_of_pos (by simpa using fun h => hl.1 h.symm), ih hl.2]

theorem lexS_gap {g : Str} {ls : List Str} (hg : Gap g ls) (s prev : Str) :
    lexS (g ++ s) prev = lexS s prev := by
  induction hg with
  | nil => rfl
  | ws c g ls hc _ ih =>
    rw [List.cons_append, lexS_ws_cons _ _ _ (by rcases hc with rfl | rfl <;> decide), ih]
  | doc l g ls hl _ ih =>
    have hs : lexStep ('/' :: '/' :: '/' :: (l ++ '\n' :: g) ++ s) = .skip (3 + l.length) := by
      have : List.takeWhile (fun c => c != '\n') ('/' :: '/' :: '/' :: (l ++ '\n' :: (g ++ s))) =
          '/' :: '/' :: '/' :: l := by
        rw [List.takeWhile_cons_of_pos (by decide), List.takeWhile_cons_of_pos (by decide),
          List.takeWhile_cons_of_pos (by decide), takeWhile_ne_newline _ _ hl]
      simp only [List.cons_append, List.append_assoc, lexStep]
      rw [if_neg (by decide), if_pos (by simp), this]
      simp only [List.length_cons]; congr 1; omega
    rw [lexS_skip _ _ _ hs (by omega)]
    have : ('/' :: '/' :: '/' :: (l ++ '\n' :: g) ++ s).drop (3 + l.length) = '\n' :: (g ++ s) := by
      simp only [List.cons_append, List.append_assoc]
      rw [Nat.add_comm]
      simp
    rw [this, lexS_ws_cons _ _ _ (by decide), ih]

/-! ### the doc comments in front of a token -/

/-- `Lexer::comments` at the start of `s` (enough fuel), texts only -/
def docsS (s : Str) : List Str := docsOf (s.length + 1) s

theorem docsOf_eq_docsS (f : Nat) (s : Str) (h : s.length < f) : docsOf f s = docsS s :=
  commentsAt_fuel _ _ _ _ h (Nat.lt_succ_self _)

theorem docsS_step_skip (c : Char) (x : Str) (hc : isCommentSkipChar c = true) :
    docsS (c :: x) = docsS (x.drop (x.takeWhile isCommentSkipChar).length) := by
  simp only [docsS, docsOf, commentsAt, hc, if_true]
  have : (c :: x).drop (1 + (x.takeWhile isCommentSkipChar).length) =
      x.drop (x.takeWhile isCommentSkipChar).length := by rw [Nat.add_comm]; rfl
  rw [this, commentsAt_pos _ _ 0]
  exact commentsAt_fuel _ _ _ _ (by simp only [List.length_drop, List.length_cons]; omega)
    (Nat.lt_succ_self _)

theorem docsS_drop_skip (x : Str) :
    docsS (x.drop (x.takeWhile isCommentSkipChar).length) = docsS x := by
  cases x with
  | nil => rfl
  | cons c r =>
    by_cases hc : isCommentSkipChar c = true
    · rw [docsS_step_skip _ _ hc, List.takeWhile_cons_of_pos hc]
      simp
    · rw [List.takeWhile_cons_of_neg hc]; rfl

theorem docsS_ws_cons (c : Char) (x : Str) (hc : isCommentSkipChar c = true) :
    docsS (c :: x) = docsS x := by
  rw [docsS_step_skip _ _ hc, docsS_drop_skip]

theorem docsS_doc (l x : Str) (hl : '\n' ∉ l) :
    docsS ('/' :: '/' :: '/' :: (l ++ '\n' :: x)) = rustTrim l :: docsS x := by
  have htw : List.takeWhile (fun c => c != '\n') ('/' :: '/' :: '/' :: (l ++ '\n' :: x)) =
      '/' :: '/' :: '/' :: l := by
    rw [List.takeWhile_cons_of_pos (by decide), List.takeWhile_cons_of_pos (by decide),
      List.takeWhile_cons_of_pos (by decide), takeWhile_ne_newline _ _ hl]
  have hdrop : ('/' :: '/' :: '/' :: (l ++ '\n' :: x)).drop ('/' :: '/' :: '/' :: l).length = '\n' :: x := by
    simp
  have hdoc : docText ('/' :: '/' :: '/' :: l) = some (rustTrim l) := by
    simp [docText, List.isPrefixOf]
  rw [← docsS_ws_cons '\n' x (by decide)]
  simp only [docsS, docsOf, commentsAt]
  rw [if_neg (by decide), if_pos (by simp), htw, hdrop, hdoc]
  simp only [List.map_cons]
  congr 1
  rw [commentsAt_pos _ _ 0]
  exact commentsAt_fuel _ _ _ _ (by simp only [List.length_cons, List.length_append]; omega)
    (Nat.lt_succ_self _)

/-- `s` starts with a character that is neither white space nor `/`, or is empty -/
def tokStart : Str → Bool
  | [] => true
  | c :: _ => !isSkipChar c && c != '/'

theorem docsS_tokStart (s : Str) (h : tokStart s = true) : docsS s = [] := by
  cases s with
  | nil => rfl
  | cons c r =>
    simp only [tokStart, Bool.and_eq_true, Bool.not_eq_true', bne_iff_ne, ne_eq] at h
    have h1 : isCommentSkipChar c = false := by
      have := h.1
      simp only [isSkipChar, Bool.or_eq_false_iff] at this
      simp only [isCommentSkipChar, Bool.or_eq_false_iff]
      exact ⟨⟨⟨this.1.1.1.1, this.1.1.1.2⟩, this.1.2⟩, this.2⟩
    simp [docsS, docsOf, commentsAt, h1, h.2]

theorem docsS_gap {g : Str} {ls : List Str} (hg : Gap g ls) (s : Str) (hs : tokStart s = true) :
    docsS (g ++ s) = ls := by
  induction hg with
  | nil => exact docsS_tokStart s hs
  | ws c g ls hc _ ih =>
    rw [List.cons_append, docsS_ws_cons _ _ (by rcases hc with rfl | rfl <;> decide), ih]
  | doc l g ls hl _ ih =>
    have : '/' :: '/' :: '/' :: (l ++ '\n' :: g) ++ s = '/' :: '/' :: '/' :: (l ++ '\n' :: (g ++ s)) := by
      simp
    rw [this, docsS_doc _ _ hl, ih]

/-- the composition lemma: a gap, then a token recognised by `lexStep` -/
theorem lexS_gap_tok {g : Str} {ls : List Str} (hg : Gap g ls) (t rest : Str) (k : Token)
    (ht : tokStart (t ++ rest) = true) (hne : t ≠ [])
    (hlex : lexStep (t ++ rest) = .tok (.ok k) t.length) :
    lexS (t ++ rest) (g ++ (t ++ rest)) = ⟨.ok k, t, ls⟩ :: lexS rest rest := by
  rw [lexS_tok _ _ _ _ hlex (List.length_pos_iff.mpr hne)]
  rw [docsOf_eq_docsS _ _ (Nat.lt_succ_self _), docsS_gap hg _ ht]
  simp

end Wac.Lemmas.PrinterLex
