import WacProofs.Lemmas.TreeSpansBasic
import WacProofs.Lemmas.ParseSpans2
import WacProofs.Lemmas.LexSpec
/-
  C14 (tree spans), layer 2: what the token stream guarantees beyond `Inv`:
    * the doc comments attached to every token are slices of the source whose doc text is the
      `comment` field (`commentsAt_ok`, `tokenize_docs`);
    * tokens come in source order (`tokenize_sorted`);
    * a string token is `"` body `"` (from `Wac.C12.tokenize_string_text`);
  packaged as the state invariant `TInv` (= `Inv` + these), preserved by `PState.next`.
-/
namespace Wac.Lemmas.TreeSpans
open Wac Wac.Ast Wac.Lex Wac.Parse Wac.Lemmas Wac.Lemmas.LexSpans Wac.Lemmas.ParseSpans Wac.Spec.TreeSpans

/-- declarative form of `DocComment.spansIn` -/
def DocOk (src : Str) (d : DocComment) : Prop :=
  ∃ text, Slice src d.span text ∧ docText text = some d.comment

theorem docOk_spansIn {src : Str} {d : DocComment} (h : DocOk src d) : d.spansIn src = true := by
  obtain ⟨text, hs, hd⟩ := h
  simp [DocComment.spansIn, textAt_of_slice hs, hd]

theorem spansIn_docOk {src : Str} {d : DocComment} (h : d.spansIn src = true) : DocOk src d := by
  unfold DocComment.spansIn at h
  cases ht : textAt src d.span with
  | none => simp [ht] at h
  | some text =>
    simp [ht] at h
    exact ⟨text, textAt_iff.mp ht, h⟩

theorem utf8Len_of_ascii {l : Str} (h : ∀ c ∈ l, c.utf8Size = 1) : utf8Len l = l.length := by
  induction l with
  | nil => simp
  | cons c r ih =>
    have := ih (fun d hd => h d (by simp [hd]))
    simp [h c (by simp), this]; omega

theorem commentSkip_ascii {c : Char} (h : isCommentSkipChar c = true) : c.utf8Size = 1 := by
  simp [isCommentSkipChar] at h
  rcases h with ((h | h) | h) | h <;> subst h <;> decide

/-- a run of comment-skip characters is as long in bytes as in characters -/
theorem utf8Len_skipRun (c : Char) (r : Str) (hc : isCommentSkipChar c = true) :
    utf8Len ((c :: r).take (1 + (r.takeWhile isCommentSkipChar).length)) =
      1 + (r.takeWhile isCommentSkipChar).length := by
  rw [show 1 + (r.takeWhile isCommentSkipChar).length = (r.takeWhile isCommentSkipChar).length + 1 by omega,
    List.take_succ_cons, Wac.C12.take_length_takeWhile]
  rw [utf8Len_of_ascii]
  · simp
  · intro d hd
    simp only [List.mem_cons] at hd
    rcases hd with rfl | hd
    · exact commentSkip_ascii hc
    · exact commentSkip_ascii (Wac.C12.mem_takeWhile_pos hd)

theorem take_length_sub {α} (a b : List α) : (a ++ b).take ((a ++ b).length - b.length) = a := by
  simp

theorem drop_length_sub {α} (a b : List α) : (a ++ b).drop ((a ++ b).length - b.length) = b := by
  simp

/-- the state of a scan: `s` is what is left of `src` at byte `pos` -/
def At (src : Str) (pos : Nat) (s : Str) : Prop := ∃ pre, src = pre ++ s ∧ pos = utf8Len pre

theorem At.advance {src : Str} {pos : Nat} {s : Str} (h : At src pos s) (n : Nat) :
    At src (pos + utf8Len (s.take n)) (s.drop n) := by
  obtain ⟨pre, h1, h2⟩ := h
  exact ⟨pre ++ s.take n, by rw [List.append_assoc, List.take_append_drop]; exact h1, by simp [h2]⟩

theorem At.slice {src : Str} {pos : Nat} {s : Str} (h : At src pos s) (n : Nat) :
    Slice src ⟨pos, utf8Len (s.take n)⟩ (s.take n) := by
  obtain ⟨pre, h1, h2⟩ := h
  exact ⟨pre, s.drop n, by rw [List.append_assoc, List.take_append_drop]; exact h1, h2, rfl⟩

/-- `Lexer::comments`: every doc comment it returns is a comment of the source, with its text -/
theorem commentsAt_ok (src : Str) : ∀ (fuel pos : Nat) (s : Str), At src pos s →
    ∀ d ∈ commentsAt fuel pos s, DocOk src d := by
  intro fuel
  induction fuel with
  | zero => intro pos s _ d hd; simp [commentsAt] at hd
  | succ fuel ih =>
    intro pos s hat d hd
    cases s with
    | nil => simp [commentsAt] at hd
    | cons c r =>
      simp only [commentsAt] at hd
      by_cases h1 : isCommentSkipChar c = true
      · rw [if_pos h1] at hd
        refine ih _ _ ?_ d hd
        have := hat.advance (1 + (r.takeWhile isCommentSkipChar).length)
        rwa [utf8Len_skipRun c r h1] at this
      · rw [if_neg h1] at hd
        by_cases h2 : (c == '/' && r.head? == some '/') = true
        · rw [if_pos h2] at hd
          have hsl := hat.slice ((c :: r).takeWhile (· != '\n')).length
          have hadv := hat.advance ((c :: r).takeWhile (· != '\n')).length
          rw [Wac.C12.take_length_takeWhile] at hsl hadv
          have hrest := ih _ _ hadv
          cases hdt : docText ((c :: r).takeWhile (· != '\n')) with
          | none => simp only [hdt] at hd; exact hrest d hd
          | some txt =>
            simp only [hdt, List.mem_cons] at hd
            rcases hd with rfl | hd
            · exact ⟨_, hsl, hdt⟩
            · exact hrest d hd
        · rw [if_neg h2] at hd
          by_cases h3 : (c == '/' && r.head? == some '*') = true
          · rw [if_pos h3] at hd
            cases hsb : skipBlock 0 (r.drop 1) with
            | none => simp only [hsb] at hd; simp at hd
            | some after =>
              simp only [hsb] at hd
              obtain ⟨p, hp, _⟩ := Wac.C12.skipBlock_suffix _ _ _ hsb
              have hs : c :: r = (c :: (r.take 1 ++ p)) ++ after := by
                rw [List.cons_append, List.append_assoc, ← hp, List.take_append_drop]
              have htake : (c :: r).take ((c :: r).length - after.length) = c :: (r.take 1 ++ p) := by
                rw [hs]; exact take_length_sub _ _
              have hdrop : (c :: r).drop ((c :: r).length - after.length) = after := by
                rw [hs]; exact drop_length_sub _ _
              have hsl := hat.slice ((c :: r).length - after.length)
              have hadv := hat.advance ((c :: r).length - after.length)
              rw [hdrop] at hadv
              have hrest := ih _ _ hadv
              cases hdt : docText ((c :: r).take ((c :: r).length - after.length)) with
              | none => simp only [hdt] at hd; exact hrest d hd
              | some txt =>
                simp only [hdt, List.mem_cons] at hd
                rcases hd with rfl | hd
                · exact ⟨_, hsl, hdt⟩
                · exact hrest d hd
          · rw [if_neg h3] at hd; simp at hd

/-- every token starts at or after the position the scan is at -/
theorem lexAll_ge : ∀ (fuel pos : Nat) (s : Str) (prevPos : Nat) (prev : Str),
    ∀ t ∈ lexAll fuel pos s prevPos prev, pos ≤ t.span.offset := by
  intro fuel
  induction fuel with
  | zero => intro pos s pp pv t ht; simp [lexAll] at ht
  | succ fuel ih =>
    intro pos s pp pv t ht
    unfold lexAll at ht
    split at ht
    · simp at ht
    · have := ih _ _ _ _ t ht; omega
    · simp only [List.mem_cons] at ht
      rcases ht with rfl | ht
      · exact Nat.le_refl _
      · have := ih _ _ _ _ t ht; omega

/-- tokens come in source order -/
theorem lexAll_sorted : ∀ (fuel pos : Nat) (s : Str) (prevPos : Nat) (prev : Str),
    (lexAll fuel pos s prevPos prev).Pairwise (fun a b => a.span.offset ≤ b.span.offset) := by
  intro fuel
  induction fuel with
  | zero => intro pos s pp pv; simp [lexAll]
  | succ fuel ih =>
    intro pos s pp pv
    unfold lexAll
    split
    · simp
    · exact ih _ _ _ _
    · refine List.pairwise_cons.mpr ⟨?_, ih _ _ _ _⟩
      intro t ht
      have := lexAll_ge _ _ _ _ _ t ht
      simp only []; omega

/-- the doc comments attached to the tokens are comments of the source -/
theorem lexAll_docs (src : Str) : ∀ (fuel pos : Nat) (s : Str) (prevPos : Nat) (prev : Str),
    At src pos s → At src prevPos prev →
    ∀ t ∈ lexAll fuel pos s prevPos prev, ∀ d ∈ t.docs, DocOk src d := by
  intro fuel
  induction fuel with
  | zero => intro pos s pp pv _ _ t ht; simp [lexAll] at ht
  | succ fuel ih =>
    intro pos s pp pv hs hp t ht
    unfold lexAll at ht
    split at ht
    · simp at ht
    · exact ih _ _ _ _ (hs.advance _) hp t ht
    · simp only [List.mem_cons] at ht
      rcases ht with rfl | ht
      · intro d hd
        exact commentsAt_ok src _ _ _ hp d hd
      · exact ih _ _ _ _ (hs.advance _) (hs.advance _) t ht

theorem at_start (src : Str) : At src 0 src := ⟨[], by simp, by simp⟩

theorem tokenize_sorted (src : Str) :
    (tokenize src).Pairwise (fun a b => a.span.offset ≤ b.span.offset) := lexAll_sorted _ _ _ _ _

theorem tokenize_docs (src : Str) : ∀ t ∈ tokenize src, ∀ d ∈ t.docs, DocOk src d :=
  lexAll_docs src _ _ _ _ _ (at_start src) (at_start src)

/-! ### the invariant of the lexer state for tree spans -/

/-- the shape of a string token -/
def StrOk (t : LTok) : Prop := t.res = .ok .String → ∃ body, t.text = '"' :: (body ++ ['"'])

/-- `Inv` + the doc comments of the pending tokens are comments of the source + the pending tokens
are in source order + string tokens are quoted -/
structure TInv (src : Str) (st : PState) : Prop where
  inv : Inv src st
  docs : ∀ t ∈ st.toks, ∀ d ∈ t.docs, DocOk src d
  sorted : st.toks.Pairwise (fun a b => a.span.offset ≤ b.span.offset)
  strs : ∀ t ∈ st.toks, StrOk t

theorem init_tinv (src : Str) : TInv src (PState.init src) :=
  ⟨init_inv src, tokenize_docs src, tokenize_sorted src, fun t ht hres => by
    obtain ⟨body, hb, _⟩ := Wac.C12.tokenize_string_text src t ht hres
    exact ⟨body, hb⟩⟩

theorem next_tinv {src st} (hi : TInv src st) : TInv src st.next.2 := by
  refine ⟨next_inv hi.inv, ?_, ?_, ?_⟩
  all_goals
    cases hts : st.toks with
    | nil => have := (next_nil hts).2.1; simp [this]
    | cons t r =>
      have h1 := (next_cons hts).1
      rw [h1]
      first
        | exact fun t' h' => hi.docs t' (by simp [hts, h'])
        | exact (List.pairwise_cons.mp (hts ▸ hi.sorted)).2
        | exact fun t' h' => hi.strs t' (by simp [hts, h'])

theorem next_tinv' {src st o st'} (hi : TInv src st) (h : st.next = (o, st')) : TInv src st' := by
  have := next_tinv hi
  rw [h] at this
  exact this

end Wac.Lemmas.TreeSpans
