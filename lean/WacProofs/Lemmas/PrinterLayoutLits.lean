import WacProofs.Lemmas.PrinterLayoutBase
/-
  C13, layout layer: one rule per string literal the printer writes (`write!(…, "func(")` …):
  the tokens it consists of and the stop condition it leaves.  Generated from the list of literals
  of `WacModel/Printer.lean` (all proofs are chains of the base rules of `PrinterLayoutBase`).
-/
set_option linter.unusedSimpArgs false

namespace Wac.Lemmas.PrinterLayout
open Wac Wac.Ast Wac.Lex Wac.Print Wac.PrintTok Wac.Lemmas.PrinterLex

theorem Inv.lit_u8 {p : PS} {ts ls} {S : Stop} (h : Inv p ts ls S) (hS : WordOK S) :
    Inv (p.writeS "u8") (ts ++ [⟨.ok .U8Keyword, "u8".toList, ls⟩]) [] stopW :=
  Inv.cast (Inv.kw h .U8Keyword "u8" (by decide) hS) rfl (by simp [PrintTok.kw])

theorem Inv.lit_s8 {p : PS} {ts ls} {S : Stop} (h : Inv p ts ls S) (hS : WordOK S) :
    Inv (p.writeS "s8") (ts ++ [⟨.ok .S8Keyword, "s8".toList, ls⟩]) [] stopW :=
  Inv.cast (Inv.kw h .S8Keyword "s8" (by decide) hS) rfl (by simp [PrintTok.kw])

theorem Inv.lit_u16 {p : PS} {ts ls} {S : Stop} (h : Inv p ts ls S) (hS : WordOK S) :
    Inv (p.writeS "u16") (ts ++ [⟨.ok .U16Keyword, "u16".toList, ls⟩]) [] stopW :=
  Inv.cast (Inv.kw h .U16Keyword "u16" (by decide) hS) rfl (by simp [PrintTok.kw])

theorem Inv.lit_s16 {p : PS} {ts ls} {S : Stop} (h : Inv p ts ls S) (hS : WordOK S) :
    Inv (p.writeS "s16") (ts ++ [⟨.ok .S16Keyword, "s16".toList, ls⟩]) [] stopW :=
  Inv.cast (Inv.kw h .S16Keyword "s16" (by decide) hS) rfl (by simp [PrintTok.kw])

theorem Inv.lit_u32 {p : PS} {ts ls} {S : Stop} (h : Inv p ts ls S) (hS : WordOK S) :
    Inv (p.writeS "u32") (ts ++ [⟨.ok .U32Keyword, "u32".toList, ls⟩]) [] stopW :=
  Inv.cast (Inv.kw h .U32Keyword "u32" (by decide) hS) rfl (by simp [PrintTok.kw])

theorem Inv.lit_s32 {p : PS} {ts ls} {S : Stop} (h : Inv p ts ls S) (hS : WordOK S) :
    Inv (p.writeS "s32") (ts ++ [⟨.ok .S32Keyword, "s32".toList, ls⟩]) [] stopW :=
  Inv.cast (Inv.kw h .S32Keyword "s32" (by decide) hS) rfl (by simp [PrintTok.kw])

theorem Inv.lit_u64 {p : PS} {ts ls} {S : Stop} (h : Inv p ts ls S) (hS : WordOK S) :
    Inv (p.writeS "u64") (ts ++ [⟨.ok .U64Keyword, "u64".toList, ls⟩]) [] stopW :=
  Inv.cast (Inv.kw h .U64Keyword "u64" (by decide) hS) rfl (by simp [PrintTok.kw])

theorem Inv.lit_s64 {p : PS} {ts ls} {S : Stop} (h : Inv p ts ls S) (hS : WordOK S) :
    Inv (p.writeS "s64") (ts ++ [⟨.ok .S64Keyword, "s64".toList, ls⟩]) [] stopW :=
  Inv.cast (Inv.kw h .S64Keyword "s64" (by decide) hS) rfl (by simp [PrintTok.kw])

theorem Inv.lit_f32 {p : PS} {ts ls} {S : Stop} (h : Inv p ts ls S) (hS : WordOK S) :
    Inv (p.writeS "f32") (ts ++ [⟨.ok .F32Keyword, "f32".toList, ls⟩]) [] stopW :=
  Inv.cast (Inv.kw h .F32Keyword "f32" (by decide) hS) rfl (by simp [PrintTok.kw])

theorem Inv.lit_f64 {p : PS} {ts ls} {S : Stop} (h : Inv p ts ls S) (hS : WordOK S) :
    Inv (p.writeS "f64") (ts ++ [⟨.ok .F64Keyword, "f64".toList, ls⟩]) [] stopW :=
  Inv.cast (Inv.kw h .F64Keyword "f64" (by decide) hS) rfl (by simp [PrintTok.kw])

theorem Inv.lit_char {p : PS} {ts ls} {S : Stop} (h : Inv p ts ls S) (hS : WordOK S) :
    Inv (p.writeS "char") (ts ++ [⟨.ok .CharKeyword, "char".toList, ls⟩]) [] stopW :=
  Inv.cast (Inv.kw h .CharKeyword "char" (by decide) hS) rfl (by simp [PrintTok.kw])

theorem Inv.lit_bool {p : PS} {ts ls} {S : Stop} (h : Inv p ts ls S) (hS : WordOK S) :
    Inv (p.writeS "bool") (ts ++ [⟨.ok .BoolKeyword, "bool".toList, ls⟩]) [] stopW :=
  Inv.cast (Inv.kw h .BoolKeyword "bool" (by decide) hS) rfl (by simp [PrintTok.kw])

theorem Inv.lit_string {p : PS} {ts ls} {S : Stop} (h : Inv p ts ls S) (hS : WordOK S) :
    Inv (p.writeS "string") (ts ++ [⟨.ok .StringKeyword, "string".toList, ls⟩]) [] stopW :=
  Inv.cast (Inv.kw h .StringKeyword "string" (by decide) hS) rfl (by simp [PrintTok.kw])

theorem Inv.lit_tuple_lt {p : PS} {ts ls} {S : Stop} (h : Inv p ts ls S) (hS : WordOK S) :
    Inv (p.writeS "tuple<") (ts ++ [⟨.ok .TupleKeyword, "tuple".toList, ls⟩, PrintTok.kw .OpenAngle "<"]) [] sAny :=
  Inv.cast (Inv.sym (Inv.kw h .TupleKeyword "tuple" (by decide) hS) .OpenAngle "<" (by decide) (by decide) (fun _ => rfl)) rfl (by simp [PrintTok.kw])

theorem Inv.lit_gt {p : PS} {ts ls} {S : Stop} (h : Inv p ts ls S) (hS : ∀ r, S (">".toList ++ r) = true) :
    Inv (p.writeS ">") (ts ++ [⟨.ok .CloseAngle, ">".toList, ls⟩]) [] sAny :=
  Inv.cast (Inv.sym h .CloseAngle ">" (by decide) (by decide) hS) rfl (by simp [PrintTok.kw])

theorem Inv.lit_list_lt {p : PS} {ts ls} {S : Stop} (h : Inv p ts ls S) (hS : WordOK S) :
    Inv (p.writeS "list<") (ts ++ [⟨.ok .ListKeyword, "list".toList, ls⟩, PrintTok.kw .OpenAngle "<"]) [] sAny :=
  Inv.cast (Inv.sym (Inv.kw h .ListKeyword "list" (by decide) hS) .OpenAngle "<" (by decide) (by decide) (fun _ => rfl)) rfl (by simp [PrintTok.kw])

theorem Inv.lit_option_lt {p : PS} {ts ls} {S : Stop} (h : Inv p ts ls S) (hS : WordOK S) :
    Inv (p.writeS "option<") (ts ++ [⟨.ok .OptionKeyword, "option".toList, ls⟩, PrintTok.kw .OpenAngle "<"]) [] sAny :=
  Inv.cast (Inv.sym (Inv.kw h .OptionKeyword "option" (by decide) hS) .OpenAngle "<" (by decide) (by decide) (fun _ => rfl)) rfl (by simp [PrintTok.kw])

theorem Inv.lit_result {p : PS} {ts ls} {S : Stop} (h : Inv p ts ls S) (hS : WordOK S) :
    Inv (p.writeS "result") (ts ++ [⟨.ok .ResultKeyword, "result".toList, ls⟩]) [] stopW :=
  Inv.cast (Inv.kw h .ResultKeyword "result" (by decide) hS) rfl (by simp [PrintTok.kw])

theorem Inv.lit_result_lt_us {p : PS} {ts ls} {S : Stop} (h : Inv p ts ls S) (hS : WordOK S) :
    Inv (p.writeS "result<_, ") (ts ++ [⟨.ok .ResultKeyword, "result".toList, ls⟩, PrintTok.kw .OpenAngle "<", PrintTok.kw .Underscore "_", PrintTok.kw .Comma ","]) [] sAny :=
  Inv.cast (Inv.sp (Inv.sym (Inv.sym (Inv.sym (Inv.kw h .ResultKeyword "result" (by decide) hS) .OpenAngle "<" (by decide) (by decide) (fun _ => rfl)) .Underscore "_" (by decide) (by decide) (fun _ => rfl)) .Comma "," (by decide) (by decide) (fun _ => rfl)) (fun _ => rfl)) rfl (by simp [PrintTok.kw])

theorem Inv.lit_result_lt {p : PS} {ts ls} {S : Stop} (h : Inv p ts ls S) (hS : WordOK S) :
    Inv (p.writeS "result<") (ts ++ [⟨.ok .ResultKeyword, "result".toList, ls⟩, PrintTok.kw .OpenAngle "<"]) [] sAny :=
  Inv.cast (Inv.sym (Inv.kw h .ResultKeyword "result" (by decide) hS) .OpenAngle "<" (by decide) (by decide) (fun _ => rfl)) rfl (by simp [PrintTok.kw])

theorem Inv.lit_comma_sp {p : PS} {ts ls} {S : Stop} (h : Inv p ts ls S) (hS : ∀ r, S (",".toList ++ r) = true) :
    Inv (p.writeS ", ") (ts ++ [⟨.ok .Comma, ",".toList, ls⟩]) [] sAny :=
  Inv.cast (Inv.sp (Inv.sym h .Comma "," (by decide) (by decide) hS) (fun _ => rfl)) rfl (by simp [PrintTok.kw])

theorem Inv.lit_borrow_lt {p : PS} {ts ls} {S : Stop} (h : Inv p ts ls S) (hS : WordOK S) :
    Inv (p.writeS "borrow<") (ts ++ [⟨.ok .BorrowKeyword, "borrow".toList, ls⟩, PrintTok.kw .OpenAngle "<"]) [] sAny :=
  Inv.cast (Inv.sym (Inv.kw h .BorrowKeyword "borrow" (by decide) hS) .OpenAngle "<" (by decide) (by decide) (fun _ => rfl)) rfl (by simp [PrintTok.kw])

theorem Inv.lit_colon_sp {p : PS} {ts ls} {S : Stop} (h : Inv p ts ls S) (hS : ∀ r, stopI r = true → S (':' :: r) = true) :
    Inv (p.writeS ": ") (ts ++ [⟨.ok .Colon, ":".toList, ls⟩]) [] sAny :=
  Inv.cast (Inv.sp (Inv.sym' h .Colon ":" stopI (by decide) (fun e => absurd e (by decide)) hS) (fun _ => rfl)) rfl (by simp [PrintTok.kw])

theorem Inv.lit_func_lp {p : PS} {ts ls} {S : Stop} (h : Inv p ts ls S) (hS : WordOK S) :
    Inv (p.writeS "func(") (ts ++ [⟨.ok .FuncKeyword, "func".toList, ls⟩, PrintTok.kw .OpenParen "("]) [] sAny :=
  Inv.cast (Inv.sym (Inv.kw h .FuncKeyword "func" (by decide) hS) .OpenParen "(" (by decide) (by decide) (fun _ => rfl)) rfl (by simp [PrintTok.kw])

theorem Inv.lit_rp {p : PS} {ts ls} {S : Stop} (h : Inv p ts ls S) (hS : ∀ r, S (")".toList ++ r) = true) :
    Inv (p.writeS ")") (ts ++ [⟨.ok .CloseParen, ")".toList, ls⟩]) [] sAny :=
  Inv.cast (Inv.sym h .CloseParen ")" (by decide) (by decide) hS) rfl (by simp [PrintTok.kw])

theorem Inv.lit_arrow {p : PS} {ts ls} {S : Stop} (h : Inv p ts ls S) (hS : ∀ r, S (' ' :: r) = true) :
    Inv (p.writeS " -> ") (ts ++ [⟨.ok .Arrow, "->".toList, ls⟩]) [] sAny :=
  Inv.cast (Inv.sp (Inv.sym (Inv.sp h hS) .Arrow "->" (by decide) (by decide) (fun _ => rfl)) (fun _ => rfl)) rfl (by simp [PrintTok.kw])

theorem Inv.lit_constructor_lp {p : PS} {ts ls} {S : Stop} (h : Inv p ts ls S) (hS : WordOK S) :
    Inv (p.writeS "constructor(") (ts ++ [⟨.ok .ConstructorKeyword, "constructor".toList, ls⟩, PrintTok.kw .OpenParen "("]) [] sAny :=
  Inv.cast (Inv.sym (Inv.kw h .ConstructorKeyword "constructor" (by decide) hS) .OpenParen "(" (by decide) (by decide) (fun _ => rfl)) rfl (by simp [PrintTok.kw])

theorem Inv.lit_rp_semi {p : PS} {ts ls} {S : Stop} (h : Inv p ts ls S) (hS : ∀ r, S (")".toList ++ r) = true) :
    Inv (p.writeS ");") (ts ++ [⟨.ok .CloseParen, ")".toList, ls⟩, PrintTok.kw .Semicolon ";"]) [] sAny :=
  Inv.cast (Inv.sym (Inv.sym h .CloseParen ")" (by decide) (by decide) hS) .Semicolon ";" (by decide) (by decide) (fun _ => rfl)) rfl (by simp [PrintTok.kw])

theorem Inv.lit_static_sp {p : PS} {ts ls} {S : Stop} (h : Inv p ts ls S) (hS : WordOK S) :
    Inv (p.writeS "static ") (ts ++ [⟨.ok .StaticKeyword, "static".toList, ls⟩]) [] sAny :=
  Inv.cast (Inv.sp (Inv.kw h .StaticKeyword "static" (by decide) hS) (fun _ => rfl)) rfl (by simp [PrintTok.kw])

theorem Inv.lit_semi {p : PS} {ts ls} {S : Stop} (h : Inv p ts ls S) (hS : ∀ r, S (";".toList ++ r) = true) :
    Inv (p.writeS ";") (ts ++ [⟨.ok .Semicolon, ";".toList, ls⟩]) [] sAny :=
  Inv.cast (Inv.sym h .Semicolon ";" (by decide) (by decide) hS) rfl (by simp [PrintTok.kw])

theorem Inv.lit_resource_sp {p : PS} {ts ls} {S : Stop} (h : Inv p ts ls S) (hS : WordOK S) :
    Inv (p.writeS "resource ") (ts ++ [⟨.ok .ResourceKeyword, "resource".toList, ls⟩]) [] sAny :=
  Inv.cast (Inv.sp (Inv.kw h .ResourceKeyword "resource" (by decide) hS) (fun _ => rfl)) rfl (by simp [PrintTok.kw])

theorem Inv.lit_sp_lb {p : PS} {ts ls} {S : Stop} (h : Inv p ts ls S) (hS : ∀ r, S (' ' :: r) = true) :
    Inv (p.writeS " {") (ts ++ [⟨.ok .OpenBrace, "{".toList, ls⟩]) [] sAny :=
  Inv.cast (Inv.sym (Inv.sp h hS) .OpenBrace "{" (by decide) (by decide) (fun _ => rfl)) rfl (by simp [PrintTok.kw])

theorem Inv.lit_rb {p : PS} {ts ls} {S : Stop} (h : Inv p ts ls S) (hS : ∀ r, S ("}".toList ++ r) = true) :
    Inv (p.writeS "}") (ts ++ [⟨.ok .CloseBrace, "}".toList, ls⟩]) [] sAny :=
  Inv.cast (Inv.sym h .CloseBrace "}" (by decide) (by decide) hS) rfl (by simp [PrintTok.kw])

theorem Inv.lit_lp {p : PS} {ts ls} {S : Stop} (h : Inv p ts ls S) (hS : ∀ r, S ("(".toList ++ r) = true) :
    Inv (p.writeS "(") (ts ++ [⟨.ok .OpenParen, "(".toList, ls⟩]) [] sAny :=
  Inv.cast (Inv.sym h .OpenParen "(" (by decide) (by decide) hS) rfl (by simp [PrintTok.kw])

theorem Inv.lit_comma {p : PS} {ts ls} {S : Stop} (h : Inv p ts ls S) (hS : ∀ r, S (",".toList ++ r) = true) :
    Inv (p.writeS ",") (ts ++ [⟨.ok .Comma, ",".toList, ls⟩]) [] sAny :=
  Inv.cast (Inv.sym h .Comma "," (by decide) (by decide) hS) rfl (by simp [PrintTok.kw])

theorem Inv.lit_variant_sp {p : PS} {ts ls} {S : Stop} (h : Inv p ts ls S) (hS : WordOK S) :
    Inv (p.writeS "variant ") (ts ++ [⟨.ok .VariantKeyword, "variant".toList, ls⟩]) [] sAny :=
  Inv.cast (Inv.sp (Inv.kw h .VariantKeyword "variant" (by decide) hS) (fun _ => rfl)) rfl (by simp [PrintTok.kw])

theorem Inv.lit_record_sp {p : PS} {ts ls} {S : Stop} (h : Inv p ts ls S) (hS : WordOK S) :
    Inv (p.writeS "record ") (ts ++ [⟨.ok .RecordKeyword, "record".toList, ls⟩]) [] sAny :=
  Inv.cast (Inv.sp (Inv.kw h .RecordKeyword "record" (by decide) hS) (fun _ => rfl)) rfl (by simp [PrintTok.kw])

theorem Inv.lit_flags_sp {p : PS} {ts ls} {S : Stop} (h : Inv p ts ls S) (hS : WordOK S) :
    Inv (p.writeS "flags ") (ts ++ [⟨.ok .FlagsKeyword, "flags".toList, ls⟩]) [] sAny :=
  Inv.cast (Inv.sp (Inv.kw h .FlagsKeyword "flags" (by decide) hS) (fun _ => rfl)) rfl (by simp [PrintTok.kw])

theorem Inv.lit_enum_sp {p : PS} {ts ls} {S : Stop} (h : Inv p ts ls S) (hS : WordOK S) :
    Inv (p.writeS "enum ") (ts ++ [⟨.ok .EnumKeyword, "enum".toList, ls⟩]) [] sAny :=
  Inv.cast (Inv.sp (Inv.kw h .EnumKeyword "enum" (by decide) hS) (fun _ => rfl)) rfl (by simp [PrintTok.kw])

theorem Inv.lit_type_sp {p : PS} {ts ls} {S : Stop} (h : Inv p ts ls S) (hS : WordOK S) :
    Inv (p.writeS "type ") (ts ++ [⟨.ok .TypeKeyword, "type".toList, ls⟩]) [] sAny :=
  Inv.cast (Inv.sp (Inv.kw h .TypeKeyword "type" (by decide) hS) (fun _ => rfl)) rfl (by simp [PrintTok.kw])

theorem Inv.lit_eq {p : PS} {ts ls} {S : Stop} (h : Inv p ts ls S) (hS : ∀ r, S (' ' :: r) = true) :
    Inv (p.writeS " = ") (ts ++ [⟨.ok .Equals, "=".toList, ls⟩]) [] sAny :=
  Inv.cast (Inv.sp (Inv.sym (Inv.sp h hS) .Equals "=" (by decide) (by decide) (fun _ => rfl)) (fun _ => rfl)) rfl (by simp [PrintTok.kw])

theorem Inv.lit_use_sp {p : PS} {ts ls} {S : Stop} (h : Inv p ts ls S) (hS : WordOK S) :
    Inv (p.writeS "use ") (ts ++ [⟨.ok .UseKeyword, "use".toList, ls⟩]) [] sAny :=
  Inv.cast (Inv.sp (Inv.kw h .UseKeyword "use" (by decide) hS) (fun _ => rfl)) rfl (by simp [PrintTok.kw])

theorem Inv.lit_as {p : PS} {ts ls} {S : Stop} (h : Inv p ts ls S) (hS : ∀ r, S (' ' :: r) = true) :
    Inv (p.writeS " as ") (ts ++ [⟨.ok .AsKeyword, "as".toList, ls⟩]) [] sAny :=
  Inv.cast (Inv.sp (Inv.kw (Inv.sp h hS) .AsKeyword "as" (by decide) wordOK_sAny) (fun _ => rfl)) rfl (by simp [PrintTok.kw])

theorem Inv.lit_sp_rb_semi {p : PS} {ts ls} {S : Stop} (h : Inv p ts ls S) (hS : ∀ r, S (' ' :: r) = true) :
    Inv (p.writeS " };") (ts ++ [⟨.ok .CloseBrace, "}".toList, ls⟩, PrintTok.kw .Semicolon ";"]) [] sAny :=
  Inv.cast (Inv.sym (Inv.sym (Inv.sp h hS) .CloseBrace "}" (by decide) (by decide) (fun _ => rfl)) .Semicolon ";" (by decide) (by decide) (fun _ => rfl)) rfl (by simp [PrintTok.kw])

theorem Inv.lit_interface_lb {p : PS} {ts ls} {S : Stop} (h : Inv p ts ls S) (hS : WordOK S) :
    Inv (p.writeS "interface {") (ts ++ [⟨.ok .InterfaceKeyword, "interface".toList, ls⟩, PrintTok.kw .OpenBrace "{"]) [] sAny :=
  Inv.cast (Inv.sym (Inv.sp (Inv.kw h .InterfaceKeyword "interface" (by decide) hS) (fun _ => rfl)) .OpenBrace "{" (by decide) (by decide) (fun _ => rfl)) rfl (by simp [PrintTok.kw])

theorem Inv.lit_include_sp {p : PS} {ts ls} {S : Stop} (h : Inv p ts ls S) (hS : WordOK S) :
    Inv (p.writeS "include ") (ts ++ [⟨.ok .IncludeKeyword, "include".toList, ls⟩]) [] sAny :=
  Inv.cast (Inv.sp (Inv.kw h .IncludeKeyword "include" (by decide) hS) (fun _ => rfl)) rfl (by simp [PrintTok.kw])

theorem Inv.lit_with_lb {p : PS} {ts ls} {S : Stop} (h : Inv p ts ls S) (hS : ∀ r, S (' ' :: r) = true) :
    Inv (p.writeS " with {") (ts ++ [⟨.ok .WithKeyword, "with".toList, ls⟩, PrintTok.kw .OpenBrace "{"]) [] sAny :=
  Inv.cast (Inv.sym (Inv.sp (Inv.kw (Inv.sp h hS) .WithKeyword "with" (by decide) wordOK_sAny) (fun _ => rfl)) .OpenBrace "{" (by decide) (by decide) (fun _ => rfl)) rfl (by simp [PrintTok.kw])

theorem Inv.lit_import_sp {p : PS} {ts ls} {S : Stop} (h : Inv p ts ls S) (hS : WordOK S) :
    Inv (p.writeS "import ") (ts ++ [⟨.ok .ImportKeyword, "import".toList, ls⟩]) [] sAny :=
  Inv.cast (Inv.sp (Inv.kw h .ImportKeyword "import" (by decide) hS) (fun _ => rfl)) rfl (by simp [PrintTok.kw])

theorem Inv.lit_export_sp {p : PS} {ts ls} {S : Stop} (h : Inv p ts ls S) (hS : WordOK S) :
    Inv (p.writeS "export ") (ts ++ [⟨.ok .ExportKeyword, "export".toList, ls⟩]) [] sAny :=
  Inv.cast (Inv.sp (Inv.kw h .ExportKeyword "export" (by decide) hS) (fun _ => rfl)) rfl (by simp [PrintTok.kw])

theorem Inv.lit_interface_sp {p : PS} {ts ls} {S : Stop} (h : Inv p ts ls S) (hS : WordOK S) :
    Inv (p.writeS "interface ") (ts ++ [⟨.ok .InterfaceKeyword, "interface".toList, ls⟩]) [] sAny :=
  Inv.cast (Inv.sp (Inv.kw h .InterfaceKeyword "interface" (by decide) hS) (fun _ => rfl)) rfl (by simp [PrintTok.kw])

theorem Inv.lit_world_sp {p : PS} {ts ls} {S : Stop} (h : Inv p ts ls S) (hS : WordOK S) :
    Inv (p.writeS "world ") (ts ++ [⟨.ok .WorldKeyword, "world".toList, ls⟩]) [] sAny :=
  Inv.cast (Inv.sp (Inv.kw h .WorldKeyword "world" (by decide) hS) (fun _ => rfl)) rfl (by simp [PrintTok.kw])

theorem Inv.lit_lbracket {p : PS} {ts ls} {S : Stop} (h : Inv p ts ls S) (hS : ∀ r, S ("[".toList ++ r) = true) :
    Inv (p.writeS "[") (ts ++ [⟨.ok .OpenBracket, "[".toList, ls⟩]) [] sAny :=
  Inv.cast (Inv.sym h .OpenBracket "[" (by decide) (by decide) hS) rfl (by simp [PrintTok.kw])

theorem Inv.lit_rbracket {p : PS} {ts ls} {S : Stop} (h : Inv p ts ls S) (hS : ∀ r, S ("]".toList ++ r) = true) :
    Inv (p.writeS "]") (ts ++ [⟨.ok .CloseBracket, "]".toList, ls⟩]) [] sAny :=
  Inv.cast (Inv.sym h .CloseBracket "]" (by decide) (by decide) hS) rfl (by simp [PrintTok.kw])

theorem Inv.lit_new_sp {p : PS} {ts ls} {S : Stop} (h : Inv p ts ls S) (hS : WordOK S) :
    Inv (p.writeS "new ") (ts ++ [⟨.ok .NewKeyword, "new".toList, ls⟩]) [] sAny :=
  Inv.cast (Inv.sp (Inv.kw h .NewKeyword "new" (by decide) hS) (fun _ => rfl)) rfl (by simp [PrintTok.kw])

theorem Inv.lit_fill_only {p : PS} {ts ls} {S : Stop} (h : Inv p ts ls S) (hS : ∀ r, S (' ' :: r) = true) :
    Inv (p.writeS " ... }") (ts ++ [⟨.ok .Ellipsis, "...".toList, ls⟩, PrintTok.kw .CloseBrace "}"]) [] sAny :=
  Inv.cast (Inv.sym (Inv.sp (Inv.sym (Inv.sp h hS) .Ellipsis "..." (by decide) (by decide) (fun _ => rfl)) (fun _ => rfl)) .CloseBrace "}" (by decide) (by decide) (fun _ => rfl)) rfl (by simp [PrintTok.kw])

theorem Inv.lit_ellipsis {p : PS} {ts ls} {S : Stop} (h : Inv p ts ls S) (hS : ∀ r, S ("...".toList ++ r) = true) :
    Inv (p.writeS "...") (ts ++ [⟨.ok .Ellipsis, "...".toList, ls⟩]) [] sAny :=
  Inv.cast (Inv.sym h .Ellipsis "..." (by decide) (by decide) hS) rfl (by simp [PrintTok.kw])

theorem Inv.lit_ellipsis_comma {p : PS} {ts ls} {S : Stop} (h : Inv p ts ls S) (hS : ∀ r, S ("...".toList ++ r) = true) :
    Inv (p.writeS "...,") (ts ++ [⟨.ok .Ellipsis, "...".toList, ls⟩, PrintTok.kw .Comma ","]) [] sAny :=
  Inv.cast (Inv.sym (Inv.sym h .Ellipsis "..." (by decide) (by decide) hS) .Comma "," (by decide) (by decide) (fun _ => rfl)) rfl (by simp [PrintTok.kw])

theorem Inv.lit_let_sp {p : PS} {ts ls} {S : Stop} (h : Inv p ts ls S) (hS : WordOK S) :
    Inv (p.writeS "let ") (ts ++ [⟨.ok .LetKeyword, "let".toList, ls⟩]) [] sAny :=
  Inv.cast (Inv.sp (Inv.kw h .LetKeyword "let" (by decide) hS) (fun _ => rfl)) rfl (by simp [PrintTok.kw])

theorem Inv.lit_package_sp {p : PS} {ts ls} {S : Stop} (h : Inv p ts ls S) (hS : WordOK S) :
    Inv (p.writeS "package ") (ts ++ [⟨.ok .PackageKeyword, "package".toList, ls⟩]) [] sAny :=
  Inv.cast (Inv.sp (Inv.kw h .PackageKeyword "package" (by decide) hS) (fun _ => rfl)) rfl (by simp [PrintTok.kw])

theorem Inv.lit_targets {p : PS} {ts ls} {S : Stop} (h : Inv p ts ls S) (hS : ∀ r, S (' ' :: r) = true) :
    Inv (p.writeS " targets ") (ts ++ [⟨.ok .TargetsKeyword, "targets".toList, ls⟩]) [] sAny :=
  Inv.cast (Inv.sp (Inv.kw (Inv.sp h hS) .TargetsKeyword "targets" (by decide) wordOK_sAny) (fun _ => rfl)) rfl (by simp [PrintTok.kw])

theorem Inv.lit_semi_nl {p : PS} {ts ls} {S : Stop} (h : Inv p ts ls S) (hS : ∀ r, S (";".toList ++ r) = true) :
    Inv (p.writeS ";\n") (ts ++ [⟨.ok .Semicolon, ";".toList, ls⟩]) [] sAny :=
  Inv.cast (Inv.nlc (Inv.sym h .Semicolon ";" (by decide) (by decide) hS) (fun _ => rfl)) rfl (by simp [PrintTok.kw])

/-- the condition "an identifier-like token comes next" -/
def sWord : Stop := fun r => match r with
  | c :: _ => isLower c || isUpper c || c == '%'
  | [] => false

theorem wordOK_sWord : WordOK sWord := fun _ _ h => h

theorem sWord_not_dots (r : Str) (h : sWord r = true) : ¬ ("..".toList.isPrefixOf r = true) := by
  cases r with
  | nil => simp [sWord] at h
  | cons c r =>
    intro hp
    have : c = '.' := by
      have := hp
      simp [List.isPrefixOf] at this
      exact this.1.symm
    subst this
    simp [sWord, isLower, isUpper] at h

/-- `.` followed by an identifier (`AccessExpr`) -/
theorem Inv.dot_ident {p : PS} {ts ls} {S : Stop} (h : Inv p ts ls S) (hS : ∀ r, S ('.' :: r) = true)
    (i : Ident) (hi : i.wf = true) :
    Inv ((p.writeS ".").write (identSrc i)) (ts ++ [⟨.ok .Dot, ".".toList, ls⟩, PrintTok.ident i]) [] stopW :=
  Inv.cast (Inv.ident (Inv.sym' h .Dot "." sWord (by decide) (fun _ r hr => sWord_not_dots r hr)
    (fun r _ => hS r)) i hi wordOK_sWord) rfl (by simp [PrintTok.ident])

/-- the condition "`{` comes next" -/
def sBrace : Stop := fun r => r.head? == some '{'

/-- `.{ ` after the path of a `use` -/
theorem Inv.lit_dot_lb_sp {p : PS} {ts ls} {S : Stop} (h : Inv p ts ls S)
    (hS : ∀ r, S ('.' :: '{' :: r) = true) :
    Inv (p.writeS ".{ ") (ts ++ [⟨.ok .Dot, ".".toList, ls⟩, PrintTok.kw .OpenBrace "{"]) [] sAny :=
  Inv.cast (Inv.sp (Inv.sym (Inv.sym' h .Dot "." sBrace (by decide)
      (fun _ r hr => by
        cases r with
        | nil => simp [sBrace] at hr
        | cons c r =>
          simp only [sBrace, List.head?_cons, beq_iff_eq, Option.some.injEq] at hr
          subst hr; simp [List.isPrefixOf])
      (fun r hr => by
        cases r with
        | nil => simp [sBrace] at hr
        | cons c r =>
          simp only [sBrace, List.head?_cons, beq_iff_eq, Option.some.injEq] at hr
          subst hr; exact hS r)) .OpenBrace "{" (by decide) (by decide)
      (fun _ => rfl)) (fun _ => rfl)) rfl (by simp [PrintTok.kw])

end Wac.Lemmas.PrinterLayout
