import WacProofs.Lemmas.PrinterParseIface
/-
  C13, worlds: extern types, world item paths (named items with `peek2`), world imports / exports,
  `include … with`, world items, world declarations, `parseTypeStatement`.
-/
namespace Wac.Lemmas.PrinterParse
open Wac Wac.Ast Wac.Lex Wac.Parse Wac.PrintTok

theorem externType_ok (hdocs : DocsNF) (t : ExternType) (hwf : t.wf = true) (fuel : Nat)
    (hf : 3 * (externType t).length ≤ fuel) :
    ParsesTo (parseExternType fuel) ExternType.erase (externType t) t (headIs .Semicolon) := by
  intro st rest hE hF
  cases t with
  | Ident id =>
    simp only [externType, List.cons_append, List.nil_append] at hE
    simp only [ExternType.wf] at hwf
    obtain ⟨i', st1, h1, hi, hE1⟩ := parseIdent_ok hwf hE rfl rfl
    pt_exists st1, hE1
    · simp only [parseExternType, peekTok_of_E hE (k := .Ident) rfl, h1, bind_ok]; rfl
    · simp [ExternType.erase, hi]
  | Func ft =>
    simp only [externType] at hE hf
    simp only [ExternType.wf] at hwf
    obtain ⟨ft', st1, h1, hft, hE1⟩ := funcType_ok ft hwf fuel hf st rest hE (hF.headNot (by decide))
    have hh : headIs .FuncKeyword (E st) := hE ▸ (funcType_head ft).append _
    pt_exists st1, hE1
    · simp only [parseExternType, peekTok_of_headIs hh, h1, bind_ok]; rfl
    · simp [ExternType.erase, hft]
  | Interface i =>
    simp only [externType] at hE hf
    simp only [ExternType.wf] at hwf
    obtain ⟨i', st1, h1, hi, hE1⟩ := inlineInterface_ok hdocs i hwf fuel hf st rest hE trivial
    have hh : headIs .InterfaceKeyword (E st) := hE ▸ (inlineInterface_head i).append _
    pt_exists st1, hE1
    · simp only [parseExternType, peekTok_of_headIs hh, h1, bind_ok]; rfl
    · simp [ExternType.erase, hi]

theorem worldItemPath_ok (hdocs : DocsNF) (p : WorldItemPath) (hwf : p.wf = true) (fuel : Nat)
    (hf : 3 * (worldItemPath p).length ≤ fuel) :
    ParsesTo (parseWorldItemPath fuel) WorldItemPath.erase (worldItemPath p) p (headIs .Semicolon) := by
  intro st rest hE hF
  cases p with
  | Package path =>
    simp only [worldItemPath, List.cons_append, List.nil_append] at hE
    simp only [WorldItemPath.wf] at hwf
    obtain ⟨p', st1, h1, hp, hE1⟩ := parsePackagePath_ok hwf hE rfl rfl
    pt_exists st1, hE1
    · simp only [parseWorldItemPath, peekTok_of_E hE (k := .PackagePath) rfl, h1, bind_ok]; rfl
    · simp [WorldItemPath.erase, hp]
  | Ident id =>
    simp only [worldItemPath, List.cons_append, List.nil_append] at hE
    simp only [WorldItemPath.wf] at hwf
    obtain ⟨i', st1, h1, hi, hE1⟩ := parseIdent_ok hwf hE rfl rfl
    obtain ⟨t2, r2, rfl, hk2⟩ := hF
    have hp2 : peek2Tok st = some .Semicolon := peek2Tok_of_E hE hk2
    pt_exists st1, hE1
    · simp only [parseWorldItemPath, peekTok_of_E hE (k := .Ident) rfl, hp2, h1, bind_ok]; rfl
    · simp [WorldItemPath.erase, hi]
  | Named n =>
    obtain ⟨id, ty⟩ := n
    simp only [worldItemPath, List.cons_append, List.length_cons] at hE hf
    simp only [WorldItemPath.wf, NamedWorldItem.wf, Bool.and_eq_true] at hwf
    obtain ⟨i', st1, h1, hi, hE1⟩ := parseIdent_ok hwf.1 hE rfl rfl
    obtain ⟨t2, st2, h2, -, hE2⟩ := parseToken_ok hE1 (k := .Colon) rfl
    obtain ⟨ty', st3, h3, hty, hE3⟩ := externType_ok hdocs ty hwf.2 fuel (by omega) st2 rest hE2 hF
    have hp2 : peek2Tok st = some .Colon := peek2Tok_of_E hE rfl
    pt_exists st3, hE3
    · simp only [parseWorldItemPath, peekTok_of_E hE (k := .Ident) rfl, hp2, parseNamedWorldItem,
        h1, h2, h3, bind_ok]
      rfl
    · simp [WorldItemPath.erase, NamedWorldItem.erase, hi, hty]

theorem worldImport_ok (hdocs : DocsNF) (i : WorldImport) (hwf : i.path.wf = true) (fuel : Nat)
    (hf : 3 * (worldItem (.Import i)).length ≤ fuel) :
    ParsesTo (parseWorldImport fuel) WorldImport.erase (worldItem (.Import i)) i (fun _ => True) := by
  intro st rest hE _
  obtain ⟨docs, path⟩ := i
  simp only [worldItem, List.cons_append, List.append_assoc, List.nil_append, List.length_cons,
    List.length_append, List.length_nil] at hE hf
  have hd := parseDocs_erase hdocs hE (ds := docs) rfl
  obtain ⟨t1, st1, h1, -, hE1⟩ := parseToken_ok hE (k := .ImportKeyword) rfl
  obtain ⟨p', st2, h2, hp, hE2⟩ := worldItemPath_ok hdocs path hwf fuel (by omega) st1 _ hE1
    (headIs_cons rfl)
  obtain ⟨t3, st3, h3, -, hE3⟩ := parseToken_ok hE2 (k := .Semicolon) rfl
  pt_exists st3, hE3
  · simp only [parseWorldImport, h1, h2, h3, bind_ok]; rfl
  · simp [WorldImport.erase, hd, hp]

theorem worldExport_ok (hdocs : DocsNF) (e : WorldExport) (hwf : e.path.wf = true) (fuel : Nat)
    (hf : 3 * (worldItem (.Export e)).length ≤ fuel) :
    ParsesTo (parseWorldExport fuel) WorldExport.erase (worldItem (.Export e)) e (fun _ => True) := by
  intro st rest hE _
  obtain ⟨docs, path⟩ := e
  simp only [worldItem, List.cons_append, List.append_assoc, List.nil_append, List.length_cons,
    List.length_append, List.length_nil] at hE hf
  have hd := parseDocs_erase hdocs hE (ds := docs) rfl
  obtain ⟨t1, st1, h1, -, hE1⟩ := parseToken_ok hE (k := .ExportKeyword) rfl
  obtain ⟨p', st2, h2, hp, hE2⟩ := worldItemPath_ok hdocs path hwf fuel (by omega) st1 _ hE1
    (headIs_cons rfl)
  obtain ⟨t3, st3, h3, -, hE3⟩ := parseToken_ok hE2 (k := .Semicolon) rfl
  pt_exists st3, hE3
  · simp only [parseWorldExport, h1, h2, h3, bind_ok]; rfl
  · simp [WorldExport.erase, hd, hp]

/-! ### `include` -/

theorem worldRef_ok {r : WorldRef} (hwf : r.wf = true) {st : PState} {rest : List PTok}
    (h : E st = worldRef r :: rest) :
    ∃ r' st', parseWorldRef st = .ok (r', st') ∧ r'.erase = r.erase ∧ E st' = rest := by
  cases r with
  | Package path =>
    obtain ⟨p', st1, h1, hp, hE1⟩ := parsePackagePath_ok (p := path) hwf h rfl rfl
    pt_exists st1, hE1
    · simp only [parseWorldRef, peekTok_of_E h (k := .PackagePath) rfl, h1, bind_ok]; rfl
    · simp [WorldRef.erase, hp]
  | Ident id =>
    obtain ⟨i', st1, h1, hi, hE1⟩ := parseIdent_ok (i := id) hwf h rfl rfl
    pt_exists st1, hE1
    · simp only [parseWorldRef, peekTok_of_E h (k := .Ident) rfl, h1, bind_ok]; rfl
    · simp [WorldRef.erase, hi]

/-- the tokens of an `include … with` item without the trailing comma -/
def includeItemToks (i : WorldIncludeItem) : List PTok :=
  [ident i.fromId, kw .AsKeyword "as", ident i.toId]

theorem worldIncludeItem_ok (i : WorldIncludeItem) (hwf : i.wf = true) :
    ParsesTo parseWorldIncludeItem WorldIncludeItem.erase (includeItemToks i) i (fun _ => True) := by
  intro st rest hE _
  simp only [WorldIncludeItem.wf, Bool.and_eq_true] at hwf
  simp only [includeItemToks, List.cons_append, List.nil_append] at hE
  obtain ⟨f', st1, h1, hf', hE1⟩ := parseIdent_ok hwf.1 hE rfl rfl
  obtain ⟨t2, st2, h2, -, hE2⟩ := parseToken_ok hE1 (k := .AsKeyword) rfl
  obtain ⟨t', st3, h3, ht', hE3⟩ := parseIdent_ok hwf.2 hE2 rfl rfl
  pt_exists st3, hE3
  · simp only [parseWorldIncludeItem, h1, h2, h3, bind_ok]; rfl
  · simp [WorldIncludeItem.erase, hf', ht']

theorem worldInclude_ok (hdocs : DocsNF) (i : WorldInclude) (hwf : i.wf = true) (fuel : Nat)
    (hf : 3 * (worldInclude i).length ≤ fuel) :
    ParsesTo (parseWorldInclude fuel) WorldInclude.erase (worldInclude i) i (fun _ => True) := by
  intro st rest hE _
  obtain ⟨docs, world, items⟩ := i
  simp only [WorldInclude.wf, Bool.and_eq_true, List.all_eq_true] at hwf
  simp only [worldInclude, List.cons_append, List.append_assoc] at hE hf
  have hd := parseDocs_erase hdocs hE (ds := docs) rfl
  obtain ⟨t1, st1, h1, -, hE1⟩ := parseToken_ok hE (k := .IncludeKeyword) rfl
  obtain ⟨w', st2, h2, hw, hE2⟩ := worldRef_ok hwf.1 hE1
  cases items with
  | nil =>
    simp only [List.isEmpty_nil, if_true, List.nil_append] at hE2
    obtain ⟨t3, st3, h3, -, hE3⟩ := parseToken_ok hE2 (k := .Semicolon) rfl
    pt_exists st3, hE3
    · simp only [parseWorldInclude, h1, h2, bind_ok]
      rw [parseOptional_none _ (hE2 ▸ headNot_cons (k := .Semicolon) rfl (by decide))]
      simp only [h3, bind_ok]
      rfl
    · simp [WorldInclude.erase, hd, hw]
  | cons x xs =>
    simp only [List.isEmpty_cons, Bool.false_eq_true, if_false, List.cons_append, List.append_assoc,
      List.nil_append, List.length_cons, List.length_append, List.length_nil] at hE2 hf
    have hE3 := E_next hE2
    obtain ⟨t4, st4, h4, -, hE4⟩ := parseToken_ok hE3 (k := .OpenBrace) rfl
    have hlen := length_le_flatMap
      (fun item : WorldIncludeItem => [ident item.fromId, kw .AsKeyword "as", ident item.toId, comma])
      (x :: xs) (by intro x _; simp)
    obtain ⟨is', st5, h5, his, hE5⟩ := parseDelimited_trailing (stop := .CloseBrace) (peeks := [.Ident])
      (item := parseWorldIncludeItem) (er := WorldIncludeItem.erase) includeItemToks
      (fun item : WorldIncludeItem => [ident item.fromId, kw .AsKeyword "as", ident item.toId, comma])
      (by decide) (by decide) (x :: xs) (fun _ _ => rfl)
      (fun y _ => headIn_cons (k := .Ident) rfl (by decide))
      (fun y hy => (worldIncludeItem_ok y (hwf.2 y hy)).follow (fun _ _ => trivial))
      fuel (by omega) st4 _ hE4 (headIs_cons rfl)
    obtain ⟨t6, st6, h6, -, hE6⟩ := parseToken_ok hE5 (k := .CloseBrace) rfl
    obtain ⟨t7, st7, h7, -, hE7⟩ := parseToken_ok hE6 (k := .Semicolon) rfl
    pt_exists st7, hE7
    · simp only [parseWorldInclude, h1, h2, bind_ok]
      rw [parseOptional_eq _ hE2 rfl]
      simp only [h4, h5, h6, optMap_ok, h7, bind_ok]
      rfl
    · simp only [WorldInclude.erase, Option.getD_some, hd, hw, his]

/-! ### world items and declarations -/

theorem worldItem_head (i : WorldItem) : headIn worldItemPeeks (worldItem i) := by
  cases i with
  | Use u => exact (use_head u).headIn (by decide)
  | Type' d =>
    exact (itemTypeDecl_head d).mono (fun k hk =>
      List.mem_cons_of_mem _ (List.mem_cons_of_mem _ (List.mem_cons_of_mem _ (List.mem_cons_of_mem _ hk))))
  | Import i => simp only [worldItem]; exact headIn_cons (k := .ImportKeyword) rfl (by decide)
  | Export e => simp only [worldItem]; exact headIn_cons (k := .ExportKeyword) rfl (by decide)
  | Include i => simp only [worldItem, worldInclude]; exact headIn_cons (k := .IncludeKeyword) rfl (by decide)

theorem worldItem_ok (hdocs : DocsNF) (i : WorldItem) (hwf : i.wf = true) (fuel : Nat)
    (hf : 3 * (worldItem i).length ≤ fuel) :
    ParsesTo (parseWorldItem fuel) WorldItem.erase (worldItem i) i (fun _ => True) := by
  intro st rest hE _
  cases i with
  | Use u =>
    simp only [worldItem] at hE hf
    simp only [WorldItem.wf] at hwf
    obtain ⟨u', st1, h1, hu, hE1⟩ := use_ok hdocs u hwf fuel hf st rest hE trivial
    have hh : headIs .UseKeyword (E st) := hE ▸ (use_head u).append _
    pt_exists st1, hE1
    · simp only [parseWorldItem, peekIs_true hh, if_true, h1, bind_ok]; rfl
    · simp [WorldItem.erase, hu]
  | Import i =>
    simp only [WorldItem.wf] at hwf
    obtain ⟨i', st1, h1, hi, hE1⟩ := worldImport_ok hdocs i hwf fuel hf st rest hE trivial
    simp only [worldItem, List.cons_append] at hE
    have hh : headIs .ImportKeyword (E st) := hE ▸ headIs_cons rfl
    pt_exists st1, hE1
    · simp only [parseWorldItem, peekIs_false hh (k' := .UseKeyword) (by decide), peekIs_true hh,
        Bool.false_eq_true, if_false, if_true, h1, bind_ok]
      rfl
    · simp [WorldItem.erase, hi]
  | Export e =>
    simp only [WorldItem.wf] at hwf
    obtain ⟨e', st1, h1, he, hE1⟩ := worldExport_ok hdocs e hwf fuel hf st rest hE trivial
    simp only [worldItem, List.cons_append] at hE
    have hh : headIs .ExportKeyword (E st) := hE ▸ headIs_cons rfl
    pt_exists st1, hE1
    · simp only [parseWorldItem, peekIs_false hh (k' := .UseKeyword) (by decide),
        peekIs_false hh (k' := .ImportKeyword) (by decide), peekIs_true hh,
        Bool.false_eq_true, if_false, if_true, h1, bind_ok]
      rfl
    · simp [WorldItem.erase, he]
  | Include i =>
    simp only [worldItem] at hE hf
    simp only [WorldItem.wf] at hwf
    obtain ⟨i', st1, h1, hi, hE1⟩ := worldInclude_ok hdocs i hwf fuel hf st rest hE trivial
    simp only [worldInclude, List.cons_append] at hE
    have hh : headIs .IncludeKeyword (E st) := hE ▸ headIs_cons rfl
    pt_exists st1, hE1
    · simp only [parseWorldItem, peekIs_false hh (k' := .UseKeyword) (by decide),
        peekIs_false hh (k' := .ImportKeyword) (by decide),
        peekIs_false hh (k' := .ExportKeyword) (by decide), peekIs_true hh,
        Bool.false_eq_true, if_false, if_true, h1, bind_ok]
      rfl
    · simp [WorldItem.erase, hi]
  | Type' d =>
    simp only [worldItem] at hE hf
    simp only [WorldItem.wf] at hwf
    obtain ⟨d', st1, h1, hd, hE1⟩ := itemTypeDecl_ok hdocs d hwf fuel hf st rest hE trivial
    have hin : headIn itemTypeDeclPeeks (E st) := hE ▸ (itemTypeDecl_head d).append _
    pt_exists st1, hE1
    · simp only [parseWorldItem, peekIs_false_of_headIn hin (k' := .UseKeyword) (by decide),
        peekIs_false_of_headIn hin (k' := .ImportKeyword) (by decide),
        peekIs_false_of_headIn hin (k' := .ExportKeyword) (by decide),
        peekIs_false_of_headIn hin (k' := .IncludeKeyword) (by decide), peekIn_true hin,
        Bool.false_eq_true, if_false, if_true, h1, bind_ok]
      rfl
    · simp [WorldItem.erase, hd]

theorem worldDecl_ok (hdocs : DocsNF) (d : WorldDecl) (hwf : d.wf = true) (fuel : Nat)
    (hf : 3 * (worldDecl d).length ≤ fuel) :
    ParsesTo (parseWorldDecl fuel) WorldDecl.erase (worldDecl d) d (fun _ => True) := by
  intro st rest hE _
  obtain ⟨docs, id, items⟩ := d
  simp only [WorldDecl.wf, Bool.and_eq_true, List.all_eq_true] at hwf
  simp only [worldDecl, List.cons_append, List.append_assoc, List.nil_append, List.length_cons,
    List.length_append, List.length_nil] at hE hf
  have hd := parseDocs_erase hdocs hE (ds := docs) rfl
  obtain ⟨t1, st1, h1, -, hE1⟩ := parseToken_ok hE (k := .WorldKeyword) rfl
  obtain ⟨i', st2, h2, hi, hE2⟩ := parseIdent_ok hwf.1 hE1 rfl rfl
  obtain ⟨t3, st3, h3, -, hE3⟩ := parseToken_ok hE2 (k := .OpenBrace) rfl
  have hlen := length_le_flatMap worldItem items (fun x _ => headIn_length_pos (worldItem_head x))
  obtain ⟨is', st4, h4, his, hE4⟩ := parseDelimited_plain (stop := .CloseBrace)
    (peeks := worldItemPeeks) (item := parseWorldItem fuel) (er := WorldItem.erase) worldItem
    (by decide) items (fun i _ => worldItem_head i)
    (fun i hi => (worldItem_ok hdocs i (hwf.2 i hi) fuel (by
      have := flatMap_mem_length worldItem items i hi; omega)).follow (fun _ _ => trivial))
    fuel (by omega) st3 _ hE3 (headIs_cons rfl)
  obtain ⟨t5, st5, h5, -, hE5⟩ := parseToken_ok hE4 (k := .CloseBrace) rfl
  pt_exists st5, hE5
  · simp only [parseWorldDecl, h1, h2, h3, h4, h5, bind_ok]; rfl
  · simp [WorldDecl.erase, hd, hi, his]

/-! ### `parseTypeStatement` -/

theorem typeStatement_head (s : TypeStatement) : headIn typeStatementPeeks (typeStatement s) := by
  cases s with
  | Interface d =>
    simp only [typeStatement, interfaceDecl]; exact headIn_cons (k := .InterfaceKeyword) rfl (by decide)
  | World d =>
    simp only [typeStatement, worldDecl]; exact headIn_cons (k := .WorldKeyword) rfl (by decide)
  | Type' d =>
    exact (typeDecl_head d).mono (fun k hk => List.mem_cons_of_mem _ (List.mem_cons_of_mem _ hk))

theorem typeStatement_ok (hdocs : DocsNF) (s : TypeStatement) (hwf : s.wf = true) (fuel : Nat)
    (hf : 3 * (typeStatement s).length ≤ fuel) :
    ParsesTo (parseTypeStatement fuel) TypeStatement.erase (typeStatement s) s (fun _ => True) := by
  intro st rest hE _
  cases s with
  | Interface d =>
    simp only [typeStatement] at hE hf
    simp only [TypeStatement.wf] at hwf
    obtain ⟨d', st1, h1, hd, hE1⟩ := interfaceDecl_ok hdocs d hwf fuel hf st rest hE trivial
    simp only [interfaceDecl, List.cons_append] at hE
    have hh : headIs .InterfaceKeyword (E st) := hE ▸ headIs_cons rfl
    pt_exists st1, hE1
    · simp only [parseTypeStatement, peekIs_true hh, if_true, h1, bind_ok]; rfl
    · simp [TypeStatement.erase, hd]
  | World d =>
    simp only [typeStatement] at hE hf
    simp only [TypeStatement.wf] at hwf
    obtain ⟨d', st1, h1, hd, hE1⟩ := worldDecl_ok hdocs d hwf fuel hf st rest hE trivial
    simp only [worldDecl, List.cons_append] at hE
    have hh : headIs .WorldKeyword (E st) := hE ▸ headIs_cons rfl
    pt_exists st1, hE1
    · simp only [parseTypeStatement, peekIs_false hh (k' := .InterfaceKeyword) (by decide),
        peekIs_true hh, Bool.false_eq_true, if_false, if_true, h1, bind_ok]
      rfl
    · simp [TypeStatement.erase, hd]
  | Type' d =>
    simp only [typeStatement] at hE hf
    simp only [TypeStatement.wf] at hwf
    obtain ⟨d', st1, h1, hd, hE1⟩ := typeDecl_ok hdocs d hwf fuel hf st rest hE trivial
    have hin : headIn typeDeclPeeks (E st) := hE ▸ (typeDecl_head d).append _
    pt_exists st1, hE1
    · simp only [parseTypeStatement, peekIs_false_of_headIn hin (k' := .InterfaceKeyword) (by decide),
        peekIs_false_of_headIn hin (k' := .WorldKeyword) (by decide), peekIn_true hin,
        Bool.false_eq_true, if_false, if_true, h1, bind_ok]
      rfl
    · simp [TypeStatement.erase, hd]

end Wac.Lemmas.PrinterParse
