import WacModel.Printer
import WacModel.PrintTokens
import WacModel.PrintWF
import WacProofs.Lemmas.PrinterLexRegex
import WacProofs.Lemmas.PrinterLexStream
import WacProofs.Lemmas.PrinterErase
/-
  C13, layout layer: a Hoare-style invariant on the printer state.

  `Inv p ts ls S`: whatever text `rest` the printer writes after the current output `O p`, as long
  as `rest` satisfies the stop condition `S` (it cannot be glued to the last token written), the
  lexer reads `O p ++ rest` as the tokens `ts`, followed by the tokens of `rest`; the white space
  and `///` lines written since the last token (`g`, with doc lines `ls`) become the doc comments
  of the first token of `rest`.

  The rules below say how one `write` of the printer transforms the invariant: a token
  (`Inv.tok`, specialised to keywords, identifiers, strings, package names/paths, punctuation),
  white space (`Inv.gap`), a `///` line.
-/
namespace Wac.Lemmas.PrinterLayout
open Wac Wac.Ast Wac.Lex Wac.Print Wac.PrintTok Wac.Lemmas.PrinterLex Wac.Lemmas.PrinterErase

/-- the text written so far -/
def O (p : PS) : Str := p.out.reverse

/-- a condition on the text written next -/
abbrev Stop := Str → Bool

/-- no condition -/
def sAny : Stop := fun _ => true
/-- after a construct that ends with an identifier or with a package path -/
def stopWP : Stop := fun r => stopW r && stopP r

def Inv (p : PS) (ts : List PTok) (ls : List Str) (S : Stop) : Prop :=
  ∃ g, Gap g ls ∧ ∀ rest, S rest = true →
    lexS (O p ++ rest) (O p ++ rest) = ts ++ lexS rest (g ++ rest)

@[simp] theorem O_write (p : PS) (t : Str) : O (p.write t) = O p ++ t := by
  simp [O, PS.write]

@[simp] theorem O_writeS (p : PS) (t : String) : O (p.writeS t) = O p ++ t.toList := by
  simp [PS.writeS]

@[simp] theorem O_newline (p : PS) : O p.newline = O p ++ ['\n'] := by
  simp [O, PS.newline]

@[simp] theorem O_inc (p : PS) : O p.inc = O p := rfl
@[simp] theorem O_dec (p : PS) : O p.dec = O p := rfl

theorem O_doIndent (p : PS) : ∃ n, O p.doIndent = O p ++ List.replicate n ' ' := by
  unfold PS.doIndent
  split
  · exact ⟨0, by simp⟩
  · exact ⟨4 * p.indent, by simp [O]⟩

theorem Inv.congr {p q : PS} {ts ls S} (h : Inv p ts ls S) (hq : O q = O p) : Inv q ts ls S := by
  obtain ⟨g, hg, hl⟩ := h
  exact ⟨g, hg, by rw [hq]; exact hl⟩

theorem Inv.inc {p : PS} {ts ls S} (h : Inv p ts ls S) : Inv p.inc ts ls S := h.congr rfl
theorem Inv.dec {p : PS} {ts ls S} (h : Inv p ts ls S) : Inv p.dec ts ls S := h.congr rfl

theorem Inv.init : Inv ⟨[], 0, false⟩ [] [] sAny :=
  ⟨[], Gap.nil, fun rest _ => by simp [O]⟩

/-- at the end of the text -/
theorem Inv.final {p : PS} {ts ls S} (h : Inv p ts ls S) (hS : S [] = true) :
    tokenizeE (O p) = ts := by
  obtain ⟨g, _, hl⟩ := h
  have := hl [] hS
  simp only [List.append_nil] at this
  rw [tokenizeE_eq_lexS, this, lexS_nil]; simp

theorem Inv.weaken {p : PS} {ts ls} {S S' : Stop} (h : Inv p ts ls S)
    (hS : ∀ rest, S' rest = true → S rest = true) : Inv p ts ls S' := by
  obtain ⟨g, hg, hl⟩ := h
  exact ⟨g, hg, fun rest hr => hl rest (hS rest hr)⟩

/-- the printer writes a token -/
theorem Inv.tok {p : PS} {ts ls} {S : Stop} (h : Inv p ts ls S) (k : Token) (t : Str) (S' : Stop)
    (hne : t ≠ []) (hstart : ∀ rest, tokStart (t ++ rest) = true)
    (hS : ∀ rest, S' rest = true → S (t ++ rest) = true)
    (hlex : ∀ rest, S' rest = true → lexStep (t ++ rest) = .tok (.ok k) t.length) :
    Inv (p.write t) (ts ++ [⟨.ok k, t, ls⟩]) [] S' := by
  obtain ⟨g, hg, hl⟩ := h
  refine ⟨[], Gap.nil, fun rest hr => ?_⟩
  rw [O_write, List.append_assoc, hl _ (hS rest hr),
    lexS_gap_tok hg t rest k (hstart rest) hne (hlex rest hr)]
  simp

/-- the printer writes white space or `///` lines -/
theorem Inv.gap {p : PS} {ts ls} {S : Stop} (h : Inv p ts ls S) (w : Str) (ls' : List Str) (S' : Stop)
    (hw : Gap w ls') (hS : ∀ rest, S' rest = true → S (w ++ rest) = true) :
    Inv (p.write w) ts (ls ++ ls') S' := by
  obtain ⟨g, hg, hl⟩ := h
  refine ⟨g ++ w, hg.append hw, fun rest hr => ?_⟩
  rw [O_write, List.append_assoc, hl _ (hS rest hr), lexS_gap hw, List.append_assoc]

/-! ### stop conditions -/

/-- `S` allows a keyword, identifier or package name to be written next -/
def WordOK (S : Stop) : Prop :=
  ∀ c r, (isLower c || isUpper c || c == '%') = true → S (c :: r) = true

theorem wordOK_sAny : WordOK sAny := fun _ _ _ => rfl

theorem idLen_cons_ne (c : Char) (r : Str) (hc : c ≠ '%') :
    idLen (c :: r) = (if wordLen (c :: r) = 0 then 0 else
      0 + wordLen (c :: r) + dashWordsLen (c :: r).length ((c :: r).drop (wordLen (c :: r)))) := by
  unfold idLen
  split
  rename_i p s' heq
  split at heq
  · rename_i h; simp only [List.cons.injEq] at h; exact absurd h.1 hc
  · cases heq; rfl

/-- the first character of an identifier-like token -/
theorem head_of_idLen (t : Str) (h0 : idLen t ≠ 0) :
    ∃ c r, t = c :: r ∧ (isLower c || isUpper c || c == '%') = true := by
  cases t with
  | nil => exact absurd (by decide) h0
  | cons c r =>
    refine ⟨c, r, rfl, ?_⟩
    by_cases hc : c = '%'
    · simp [hc]
    · rw [idLen_cons_ne c r hc] at h0
      by_cases hw : wordLen (c :: r) = 0
      · simp [hw] at h0
      · unfold wordLen at hw
        by_cases hl : isLower c = true
        · simp [hl]
        · by_cases hu : isUpper c = true
          · simp [hu]
          · simp [hl, hu] at hw

theorem tokStart_of_word (c : Char) (r : Str) (h : (isLower c || isUpper c || c == '%') = true) :
    tokStart (c :: r) = true := by
  have h1 : c ≠ ' ' := by rintro rfl; exact absurd h (by decide)
  have h2 : c ≠ '\t' := by rintro rfl; exact absurd h (by decide)
  have h3 : c ≠ '\r' := by rintro rfl; exact absurd h (by decide)
  have h4 : c ≠ '\n' := by rintro rfl; exact absurd h (by decide)
  have h5 : c ≠ '\x0c' := by rintro rfl; exact absurd h (by decide)
  have h6 : c ≠ '/' := by rintro rfl; exact absurd h (by decide)
  simp [tokStart, isSkipChar, h1, h2, h3, h4, h5, h6]

theorem tokStart_append (t rest : Str) (hne : t ≠ []) : tokStart (t ++ rest) = tokStart t := by
  cases t with
  | nil => exact absurd rfl hne
  | cons c r => rfl

theorem Inv.cast {p q : PS} {ts ts' : List PTok} {ls : List Str} {S : Stop} (h : Inv p ts ls S)
    (hp : q = p) (ht : ts' = ts) : Inv q ts' ls S := by
  subst hp; subst ht; exact h

/-! ### specialised rules -/

theorem keyword_head : ∀ e ∈ keywordTable,
    (match e.1 with | c :: _ => isLower c | [] => false) = true := by decide

/-- a keyword -/
theorem Inv.kw {p : PS} {ts ls} {S : Stop} (h : Inv p ts ls S) (k : Token) (text : String)
    (hk : (text.toList, k) ∈ keywordTable) (hS : WordOK S) :
    Inv (p.write text.toList) (ts ++ [⟨.ok k, text.toList, ls⟩]) [] stopW := by
  have hh := keyword_head _ hk
  generalize text.toList = t at hk hh ⊢
  cases t with
  | nil => simp at hh
  | cons c r =>
    simp only at hh
    have hc : (isLower c || isUpper c || c == '%') = true := by simp [hh]
    exact h.tok k (c :: r) stopW (by simp) (fun rest => tokStart_of_word c _ hc)
      (fun rest _ => hS c _ hc) (fun rest hr => lexStep_keyword k (c :: r) rest hk hr)

theorem Ident.wf_raw (i : Ident) (hi : i.wf = true) : idLen i.raw ≠ 0 := by
  simp only [Ident.wf, Bool.and_eq_true, Bool.not_eq_true', beq_iff_eq] at hi
  have h1 := hi.1.1.1
  have h2 := hi.1.1.2
  intro h0
  rw [h0] at h2
  cases hr : i.raw with
  | nil => rw [hr] at h1; simp at h1
  | cons c r => rw [hr] at h2; simp at h2

/-- an identifier -/
theorem Inv.ident {p : PS} {ts ls} {S : Stop} (h : Inv p ts ls S) (i : Ident) (hi : i.wf = true)
    (hS : WordOK S) :
    Inv (p.write (identSrc i)) (ts ++ [⟨.ok .Ident, identSrc i, ls⟩]) [] stopW := by
  obtain ⟨c, r, hcr, hc⟩ := head_of_idLen i.raw (Ident.wf_raw i hi)
  have hlex := fun rest hr => lexStep_ident i rest hi hr
  unfold identSrc
  rw [hcr] at hlex ⊢
  exact h.tok .Ident (c :: r) stopW (by simp) (fun rest => tokStart_of_word c _ hc)
    (fun rest _ => hS c _ hc) hlex

/-- a string -/
theorem Inv.str {p : PS} {ts ls} {S : Stop} (h : Inv p ts ls S) (s : StringLit) (hs : s.wf = true)
    (hS : ∀ r, S ('"' :: r) = true) :
    Inv (p.write (stringSrc s)) (ts ++ [⟨.ok .String, stringSrc s, ls⟩]) [] sAny := by
  refine h.tok .String (stringSrc s) sAny (by simp [stringSrc]) (fun rest => rfl)
    (fun rest _ => hS _) (fun rest _ => ?_)
  have := lexStep_string s rest hs
  simp only [stringSrc, List.cons_append, List.nil_append, List.append_assoc, List.length_cons,
    List.length_append, List.length_nil] at this ⊢
  rw [this]

theorem packageName_head (s : Str) (h : packageNameTokLen s ≠ 0) : idLen s ≠ 0 := by
  intro h0
  apply h
  simp [packageNameTokLen, packageNameLen, h0]

theorem packagePath_head (s : Str) (h : packagePathTokLen s ≠ 0) : idLen s ≠ 0 := by
  intro h0
  apply h
  simp [packagePathTokLen, packageNameLen, h0]

/-- a package name -/
theorem Inv.pkgName {p : PS} {ts ls} {S : Stop} (h : Inv p ts ls S) (pn : PackageName)
    (hp : pn.wf = true) (hS : WordOK S) :
    Inv (p.write pn.string) (ts ++ [⟨.ok .PackageName, pn.string, ls⟩]) [] stopP := by
  have hwf := hp
  simp only [PackageName.wf, Bool.and_eq_true, Bool.not_eq_true', beq_iff_eq] at hwf
  have hne : pn.string ≠ [] := by intro e; rw [e] at hwf; simp at hwf
  have hlen : packageNameTokLen pn.string ≠ 0 := by
    rw [hwf.1.1.2]; exact fun e => hne (List.length_eq_zero_iff.mp e)
  obtain ⟨c, r, hcr, hc⟩ := head_of_idLen pn.string (packageName_head _ hlen)
  have hlex := fun rest hr => lexStep_packageName pn rest hp hr
  rw [hcr] at hlex ⊢
  exact h.tok .PackageName (c :: r) stopP (by simp) (fun rest => tokStart_of_word c _ hc)
    (fun rest _ => hS c _ hc) hlex

/-- a package path -/
theorem Inv.pkgPath {p : PS} {ts ls} {S : Stop} (h : Inv p ts ls S) (pp : PackagePath)
    (hp : pp.wf = true) (hS : WordOK S) :
    Inv (p.write pp.string) (ts ++ [⟨.ok .PackagePath, pp.string, ls⟩]) [] stopP := by
  have hwf := hp
  simp only [PackagePath.wf, Bool.and_eq_true, Bool.not_eq_true', beq_iff_eq] at hwf
  have hne : pp.string ≠ [] := by intro e; rw [e] at hwf; simp at hwf
  have hlen : packagePathTokLen pp.string ≠ 0 := by
    rw [hwf.1.1.2]; exact fun e => hne (List.length_eq_zero_iff.mp e)
  obtain ⟨c, r, hcr, hc⟩ := head_of_idLen pp.string (packagePath_head _ hlen)
  have hlex := fun rest hr => lexStep_packagePath pp rest hp hr
  rw [hcr] at hlex ⊢
  exact h.tok .PackagePath (c :: r) stopP (by simp) (fun rest => tokStart_of_word c _ hc)
    (fun rest _ => hS c _ hc) hlex

theorem symbol_start : ∀ e ∈ printedSymbols, e.1 ≠ [] ∧ tokStart e.1 = true := by decide

/-- punctuation, general form: `S'` is the condition on what follows -/
theorem Inv.sym' {p : PS} {ts ls} {S : Stop} (h : Inv p ts ls S) (k : Token) (text : String)
    (S' : Stop) (hk : (text.toList, k) ∈ printedSymbols)
    (hdot : k = .Dot → ∀ r, S' r = true → ¬ ("..".toList.isPrefixOf r = true))
    (hS : ∀ r, S' r = true → S (text.toList ++ r) = true) :
    Inv (p.write text.toList) (ts ++ [⟨.ok k, text.toList, ls⟩]) [] S' := by
  have hs := symbol_start _ hk
  exact h.tok k text.toList S' hs.1 (fun rest => by rw [tokStart_append _ _ hs.1]; exact hs.2)
    hS (fun rest hr => lexStep_symbol k text.toList rest hk (fun hd => hdot hd rest hr))

/-- punctuation other than `.`, no condition on what follows -/
theorem Inv.sym {p : PS} {ts ls} {S : Stop} (h : Inv p ts ls S) (k : Token) (text : String)
    (hk : (text.toList, k) ∈ printedSymbols) (hd : k ≠ .Dot)
    (hS : ∀ r, S (text.toList ++ r) = true) :
    Inv (p.write text.toList) (ts ++ [⟨.ok k, text.toList, ls⟩]) [] sAny :=
  h.sym' k text sAny hk (fun e => absurd e hd) (fun r _ => hS r)

/-- one blank -/
theorem Inv.sp {p : PS} {ts ls} {S : Stop} (h : Inv p ts ls S) (hS : ∀ r, S (' ' :: r) = true) :
    Inv (p.write [' ']) ts ls sAny := by
  have := h.gap [' '] [] sAny (Gap.ws _ _ _ (Or.inl rfl) Gap.nil) (fun r _ => hS r)
  simpa using this

/-- a line feed written with `write!` -/
theorem Inv.nlc {p : PS} {ts ls} {S : Stop} (h : Inv p ts ls S) (hS : ∀ r, S ('\n' :: r) = true) :
    Inv (p.write ['\n']) ts ls sAny := by
  have := h.gap ['\n'] [] sAny (Gap.ws _ _ _ (Or.inr rfl) Gap.nil) (fun r _ => hS r)
  simpa using this

/-- `newline` -/
theorem Inv.nl {p : PS} {ts ls} {S : Stop} (h : Inv p ts ls S) (hS : ∀ r, S ('\n' :: r) = true) :
    Inv p.newline ts ls sAny :=
  (h.nlc hS).congr (by simp)

/-- `indent` -/
theorem Inv.indent {p : PS} {ts ls} (h : Inv p ts ls sAny) : Inv p.doIndent ts ls sAny := by
  obtain ⟨n, hn⟩ := O_doIndent p
  have := h.gap (List.replicate n ' ') [] sAny (Gap.replicate n) (fun _ _ => rfl)
  exact (by simpa using this : Inv (p.write (List.replicate n ' ')) ts ls sAny).congr (by simp [hn])

theorem rustTrim_cons_space (s : Str) : rustTrim (' ' :: s) = rustTrim s := by
  unfold rustTrim
  rw [List.dropWhile_cons_of_pos (by decide)]

/-- one `///` line -/
theorem Inv.docLine {p : PS} {ts ls} (h : Inv p ts ls sAny) (line : Str)
    (hl : rustTrim line = line ∧ '\n' ∉ line) : Inv (docLine p line) ts (ls ++ [line]) sAny := by
  obtain ⟨n, hn⟩ := O_doIndent p
  by_cases he : line.isEmpty = true
  · have hline : line = [] := List.isEmpty_iff.mp he
    have hg : Gap (List.replicate n ' ' ++ '/' :: '/' :: '/' :: ([] ++ '\n' :: [])) ([] ++ [rustTrim []]) :=
      (Gap.replicate n).append (Gap.doc [] [] [] (by simp) Gap.nil)
    have := h.gap _ _ sAny hg (fun _ _ => rfl)
    subst hline
    refine (this.cast rfl ?_).congr ?_
    · rfl
    · simp [PrinterErase.docLine, hn]
  · have hg : Gap (List.replicate n ' ' ++ '/' :: '/' :: '/' :: ((' ' :: line) ++ '\n' :: []))
        ([] ++ [rustTrim (' ' :: line)]) :=
      (Gap.replicate n).append (Gap.doc (' ' :: line) [] [] (by simpa using hl.2) Gap.nil)
    have := h.gap _ _ sAny hg (fun _ _ => rfl)
    rw [rustTrim_cons_space, hl.1] at this
    refine this.congr ?_
    simp [PrinterErase.docLine, he, hn]

/-- `DocumentPrinter::docs` -/
theorem Inv.docs {p : PS} {ts} (h : Inv p ts [] sAny) (ds : List DocComment) :
    Inv (Print.docs p ds) ts (docLines ds) sAny := by
  rw [docs_eq_foldl]
  have key : ∀ (lines : List Str) (p : PS) (ls : List Str), Inv p ts ls sAny →
      (∀ l ∈ lines, rustTrim l = l ∧ '\n' ∉ l) → Inv (lines.foldl PrinterErase.docLine p) ts (ls ++ lines) sAny := by
    intro lines
    induction lines with
    | nil => intro p ls h _; simpa using h
    | cons l lines ih =>
      intro p ls h hl
      have := ih (PrinterErase.docLine p l) (ls ++ [l]) (h.docLine l (hl l (by simp)))
        (fun l' hl' => hl l' (List.mem_cons_of_mem _ hl'))
      simpa using this
  simpa using key (docLines ds) p [] h (fun l hl => docLines_normal ds l hl)

end Wac.Lemmas.PrinterLayout
