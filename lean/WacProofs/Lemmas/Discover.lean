import WacModel.Spec.Discovery
/-
  Helper lemmas for C17: membership in the collected key list, and the expression walkers.
-/
namespace Wac.Lemmas.C17
open Wac Wac.Ast Wac.Discover

theorem insertKey_eq (ks : List Key) (k : Key) : insertKey ks k = if k ∈ ks then ks else ks ++ [k] := by
  unfold insertKey
  by_cases h : k ∈ ks <;> simp [h]

theorem insertKey_mem (ks : List Key) (k k' : Key) : k ∈ insertKey ks k' ↔ k ∈ ks ∨ k = k' := by
  rw [insertKey_eq]
  by_cases h : k' ∈ ks
  · simp only [h, ↓reduceIte]
    constructor
    · exact Or.inl
    · rintro (h' | h')
      · exact h'
      · exact h' ▸ h
  · simp [h]

theorem collect_foldl_mem (self : Str) (vs acc : List Key) (k : Key) :
    k ∈ vs.foldl (fun ks k => if k.name == self then ks else insertKey ks k) acc ↔
      k ∈ acc ∨ (k ∈ vs ∧ k.name ≠ self) := by
  induction vs generalizing acc with
  | nil => simp
  | cons v r ih =>
    simp only [List.foldl_cons]
    rw [ih]
    by_cases hv : (v.name == self) = true
    · have hv' : v.name = self := by simpa using hv
      simp only [hv, ↓reduceIte, List.mem_cons]
      constructor
      · rintro (h | ⟨h, hn⟩)
        · exact Or.inl h
        · exact Or.inr ⟨Or.inr h, hn⟩
      · rintro (h | ⟨h | h, hn⟩)
        · exact Or.inl h
        · exact absurd (h ▸ hv') hn
        · exact Or.inr ⟨h, hn⟩
    · have hv' : v.name ≠ self := by simpa using hv
      simp only [hv, Bool.false_eq_true, ↓reduceIte, insertKey_mem, List.mem_cons]
      constructor
      · rintro ((h | h) | ⟨h, hn⟩)
        · exact Or.inl h
        · exact Or.inr ⟨Or.inl h, h ▸ hv'⟩
        · exact Or.inr ⟨Or.inr h, hn⟩
      · rintro (h | ⟨h | h, hn⟩)
        · exact Or.inl (Or.inl h)
        · exact Or.inl (Or.inr h)
        · exact Or.inr ⟨h, hn⟩

/-- a key is reported iff it was visited and is not the document's own package -/
theorem collect_mem (self : Str) (vs : List Key) (k : Key) :
    k ∈ collect self vs ↔ k ∈ vs ∧ k.name ≠ self := by
  unfold collect
  rw [collect_foldl_mem]
  simp

theorem insertKey_nodup (ks : List Key) (k : Key) (h : ks.Nodup) : (insertKey ks k).Nodup := by
  rw [insertKey_eq]
  by_cases hk : k ∈ ks
  · simpa [hk] using h
  · simp only [hk, ↓reduceIte]
    rw [List.nodup_append]
    refine ⟨h, by simp, ?_⟩
    intro a ha b hb e
    have hb' : b = k := by simpa using hb
    exact hk (hb' ▸ e ▸ ha)

theorem collect_nodup (self : Str) (vs : List Key) : (collect self vs).Nodup := by
  unfold collect
  suffices ∀ acc : List Key, acc.Nodup →
      (vs.foldl (fun ks k => if k.name == self then ks else insertKey ks k) acc).Nodup from this [] (by simp)
  induction vs with
  | nil => intro acc h; simpa using h
  | cons v r ih =>
    intro acc h
    simp only [List.foldl_cons]
    apply ih
    by_cases hv : (v.name == self) = true
    · simpa [hv] using h
    · simp only [hv, Bool.false_eq_true, ↓reduceIte]
      exact insertKey_nodup acc v h

/-! ### expressions: what resolution asks for is visited -/

mutual
theorem expr_covers (this : Str) : ∀ (e : Expr) (ks : List Key),
    expr this e = .ok ks → ∀ k ∈ reqExpr this e, k ∈ ks
  | .mk _ p _, ks, h, k, hk => by
    rw [expr] at h
    rw [reqExpr] at hk
    exact primary_covers this p ks h k hk
theorem primary_covers (this : Str) : ∀ (p : PrimaryExpr) (ks : List Key),
    primaryExpr this p = .ok ks → ∀ k ∈ reqPrimary this p, k ∈ ks
  | .New (.mk _ pkg args), ks, h, k, hk => by
    rw [primaryExpr] at h
    rw [reqPrimary] at hk
    by_cases hs : (pkg.name == this) = true
    · simp [hs] at h
    · simp only [hs, Bool.false_eq_true, ↓reduceIte] at h hk
      cases ha : exprArgs this args with
      | error e => rw [ha] at h; cases h
      | ok as =>
        rw [ha] at h
        have : ks = nameKey pkg :: as := by cases h; rfl
        subst this
        simp only [List.cons_append, List.nil_append, List.mem_cons] at hk ⊢
        rcases hk with hk | hk
        · exact Or.inl hk
        · exact Or.inr (args_covers this args as ha k hk)
  | .Nested (.mk _ inner), ks, h, k, hk => by
    rw [primaryExpr] at h
    rw [reqPrimary] at hk
    exact expr_covers this inner ks h k hk
  | .Ident _, ks, h, k, hk => by
    rw [reqPrimary] at hk
    cases hk
theorem args_covers (this : Str) : ∀ (args : List InstantiationArgument) (ks : List Key),
    exprArgs this args = .ok ks → ∀ k ∈ reqArgs this args, k ∈ ks
  | [], ks, h, k, hk => by
    rw [reqArgs] at hk
    cases hk
  | .Named (.mk _ e) :: rest, ks, h, k, hk => by
    rw [exprArgs] at h
    rw [reqArgs] at hk
    cases he : expr this e with
    | error x => rw [he] at h; cases h
    | ok a =>
      rw [he] at h
      cases hr : exprArgs this rest with
      | error x => rw [hr] at h; cases h
      | ok b =>
        rw [hr] at h
        have : ks = a ++ b := by cases h; rfl
        subst this
        rcases List.mem_append.mp hk with hk | hk
        · exact List.mem_append.mpr (Or.inl (expr_covers this e a he k hk))
        · exact List.mem_append.mpr (Or.inr (args_covers this rest b hr k hk))
  | .Inferred _ :: rest, ks, h, k, hk => by
    rw [exprArgs] at h
    rw [reqArgs] at hk
    exact args_covers this rest ks h k hk
  | .Spread _ :: rest, ks, h, k, hk => by
    rw [exprArgs] at h
    rw [reqArgs] at hk
    exact args_covers this rest ks h k hk
  | .Fill _ :: rest, ks, h, k, hk => by
    rw [exprArgs] at h
    rw [reqArgs] at hk
    exact args_covers this rest ks h k hk
end

/-! ### expressions: the walk fails exactly when some `new` names the own package -/

mutual
theorem expr_error_iff (this : Str) : ∀ (e : Expr),
    expr this e = .error .cannotInstantiateSelf ↔ (Spec.newsExpr e).any (·.name == this) = true
  | .mk _ (.New (.mk _ pkg args)) _ => by
    rw [expr, primaryExpr, Spec.newsExpr]
    by_cases hs : (pkg.name == this) = true
    · simp [hs]
    · simp only [hs, Bool.false_eq_true, ↓reduceIte, List.any_cons, Bool.false_or]
      rw [← args_error_iff this args]
      cases exprArgs this args with
      | error x => cases x; simp
      | ok a => simp
  | .mk _ (.Nested (.mk _ inner)) _ => by
    rw [expr, primaryExpr, Spec.newsExpr]
    exact expr_error_iff this inner
  | .mk _ (.Ident _) _ => by
    rw [expr, primaryExpr, Spec.newsExpr]
    simp
theorem args_error_iff (this : Str) : ∀ (args : List InstantiationArgument),
    exprArgs this args = .error .cannotInstantiateSelf ↔ (Spec.newsArgs args).any (·.name == this) = true
  | [] => by rw [exprArgs, Spec.newsArgs]; simp
  | .Named (.mk _ e) :: rest => by
    rw [exprArgs, Spec.newsArgs, List.any_append, Bool.or_eq_true, ← expr_error_iff this e, ← args_error_iff this rest]
    cases expr this e with
    | error x => cases x; simp
    | ok a =>
      cases exprArgs this rest with
      | error x => cases x; simp
      | ok b => simp
  | .Inferred _ :: rest => by rw [exprArgs, Spec.newsArgs]; exact args_error_iff this rest
  | .Spread _ :: rest => by rw [exprArgs, Spec.newsArgs]; exact args_error_iff this rest
  | .Fill _ :: rest => by rw [exprArgs, Spec.newsArgs]; exact args_error_iff this rest
end

/-! ### declarations: what resolution asks for is visited, and is never the own package -/

theorem reqPath_sub (self : Str) (p : PackagePath) (k : Key) (h : k ∈ reqPath self p) :
    k = pathKey p ∧ k.name ≠ self := by
  unfold reqPath at h
  by_cases hs : (p.name == self) = true
  · simp [hs] at h
  · simp only [hs, Bool.false_eq_true, ↓reduceIte, List.mem_singleton] at h
    refine ⟨h, ?_⟩
    subst h
    simpa [pathKey] using hs

theorem reqUse_sub (self : Str) (u : Use) (k : Key) (h : k ∈ reqUse self u) :
    k ∈ interfaceItem (.Use u) ∧ k.name ≠ self := by
  unfold reqUse at h
  unfold interfaceItem
  cases hp : u.path with
  | Package p =>
    rw [hp] at h
    obtain ⟨rfl, h2⟩ := reqPath_sub self p k h
    exact ⟨by simp [hp], h2⟩
  | Ident _ => rw [hp] at h; cases h

theorem reqInterfaceItems_sub (self : Str) (items : List InterfaceItem) (k : Key)
    (h : k ∈ reqInterfaceItems self items) : k ∈ interfaceItems items ∧ k.name ≠ self := by
  unfold reqInterfaceItems at h
  unfold interfaceItems
  obtain ⟨it, hit, hk⟩ := List.mem_flatMap.mp h
  cases it with
  | Use u =>
    have := reqUse_sub self u k hk
    exact ⟨List.mem_flatMap.mpr ⟨_, hit, this.1⟩, this.2⟩
  | Type' _ => cases hk
  | Export _ => cases hk

theorem reqWorldItemPath_sub (self : Str) (p : WorldItemPath) (k : Key)
    (h : k ∈ reqWorldItemPath self p) : k ∈ worldItemPath p ∧ k.name ≠ self := by
  unfold reqWorldItemPath at h
  unfold worldItemPath
  cases p with
  | Named n =>
    simp only at h ⊢
    cases hty : n.ty with
    | Interface i => rw [hty] at h; exact reqInterfaceItems_sub self i.items k h
    | Ident _ => rw [hty] at h; cases h
    | Func _ => rw [hty] at h; cases h
  | Package p =>
    obtain ⟨rfl, h2⟩ := reqPath_sub self p k h
    exact ⟨by simp, h2⟩
  | Ident _ => cases h

theorem use_worldItem (u : Use) : worldItem (.Use u) = interfaceItem (.Use u) := by
  unfold worldItem interfaceItem; rfl

theorem reqWorldItems_sub (self : Str) (items : List WorldItem) (k : Key)
    (h : k ∈ reqWorldItems self items) : k ∈ items.flatMap worldItem ∧ k.name ≠ self := by
  unfold reqWorldItems at h
  rcases List.mem_append.mp h with h | h
  · obtain ⟨it, hit, hk⟩ := List.mem_flatMap.mp h
    cases it with
    | Use u =>
      have := reqUse_sub self u k hk
      exact ⟨List.mem_flatMap.mpr ⟨_, hit, by rw [use_worldItem]; exact this.1⟩, this.2⟩
    | Type' _ => cases hk
    | Import i =>
      have := reqWorldItemPath_sub self i.path k hk
      exact ⟨List.mem_flatMap.mpr ⟨_, hit, by unfold worldItem; exact this.1⟩, this.2⟩
    | Export e =>
      have := reqWorldItemPath_sub self e.path k hk
      exact ⟨List.mem_flatMap.mpr ⟨_, hit, by unfold worldItem; exact this.1⟩, this.2⟩
    | Include _ => cases hk
  · obtain ⟨it, hit, hk⟩ := List.mem_flatMap.mp h
    cases it with
    | Include i =>
      simp only at hk
      unfold reqWorldInclude at hk
      cases hw : i.world with
      | Ident _ => rw [hw] at hk; cases hk
      | Package p =>
        rw [hw] at hk
        have := reqPath_sub self p k hk
        refine ⟨List.mem_flatMap.mpr ⟨_, hit, ?_⟩, this.2⟩
        unfold worldItem
        simp [hw, this.1]
    | Use _ => cases hk
    | Type' _ => cases hk
    | Import _ => cases hk
    | Export _ => cases hk

mutual
theorem reqExpr_not_self (self : Str) : ∀ (e : Expr) (k : Key), k ∈ reqExpr self e → k.name ≠ self
  | .mk _ p _, k, hk => by rw [reqExpr] at hk; exact reqPrimary_not_self self p k hk
theorem reqPrimary_not_self (self : Str) : ∀ (p : PrimaryExpr) (k : Key), k ∈ reqPrimary self p → k.name ≠ self
  | .New (.mk _ pkg args), k, hk => by
    rw [reqPrimary] at hk
    rcases List.mem_append.mp hk with hk | hk
    · by_cases hs : (pkg.name == self) = true
      · simp [hs] at hk
      · simp only [hs, Bool.false_eq_true, ↓reduceIte, List.mem_singleton] at hk
        subst hk
        simpa [nameKey] using hs
    · exact reqArgs_not_self self args k hk
  | .Nested (.mk _ inner), k, hk => by rw [reqPrimary] at hk; exact reqExpr_not_self self inner k hk
  | .Ident _, k, hk => by rw [reqPrimary] at hk; cases hk
theorem reqArgs_not_self (self : Str) : ∀ (args : List InstantiationArgument) (k : Key), k ∈ reqArgs self args → k.name ≠ self
  | [], k, hk => by rw [reqArgs] at hk; cases hk
  | .Named (.mk _ e) :: rest, k, hk => by
    rw [reqArgs] at hk
    rcases List.mem_append.mp hk with hk | hk
    · exact reqExpr_not_self self e k hk
    · exact reqArgs_not_self self rest k hk
  | .Inferred _ :: rest, k, hk => by rw [reqArgs] at hk; exact reqArgs_not_self self rest k hk
  | .Spread _ :: rest, k, hk => by rw [reqArgs] at hk; exact reqArgs_not_self self rest k hk
  | .Fill _ :: rest, k, hk => by rw [reqArgs] at hk; exact reqArgs_not_self self rest k hk
end

/-- one statement: if the walk over it succeeds with `ks`, every request of the statement is in `ks` -/
theorem statement_covers (self : Str) (s : Statement) (ks : List Key)
    (h : visitStatement self s = .ok ks)
    (k : Key) (hk : k ∈ reqStatement self s) : k ∈ ks ∧ k.name ≠ self := by
  unfold visitStatement at h
  cases s with
  | Import i =>
    simp only [Except.ok.injEq] at h
    subst h
    unfold reqStatement at hk
    unfold importStatement
    simp only at hk
    cases hty : i.ty with
    | Package p =>
      rw [hty] at hk
      obtain ⟨rfl, h2⟩ := reqPath_sub self p k hk
      exact ⟨by simp, h2⟩
    | Func _ => rw [hty] at hk; cases hk
    | Interface iface => rw [hty] at hk; exact reqInterfaceItems_sub self iface.items k hk
    | Ident _ => rw [hty] at hk; cases hk
  | Type' t =>
    simp only [Except.ok.injEq] at h
    subst h
    unfold reqStatement at hk
    unfold typeStatement
    cases t with
    | Interface i => exact reqInterfaceItems_sub self i.items k hk
    | World w => exact reqWorldItems_sub self w.items k hk
    | Type' _ => cases hk
  | Let l =>
    unfold reqStatement at hk
    exact ⟨expr_covers self l.expr ks h k hk, reqExpr_not_self self l.expr k hk⟩
  | Export e =>
    unfold reqStatement at hk
    exact ⟨expr_covers self e.expr ks h k hk, reqExpr_not_self self e.expr k hk⟩

theorem statements_cover (self : Str) : ∀ (stmts : List Statement) (ks : List Key),
    visitStatements self stmts = .ok ks →
    ∀ k ∈ stmts.flatMap (reqStatement self), k ∈ ks ∧ k.name ≠ self
  | [], ks, _, k, hk => by simp at hk
  | s :: rest, ks, h, k, hk => by
    rw [visitStatements] at h
    cases ha : visitStatement self s with
    | error x => rw [ha] at h; cases h
    | ok a =>
      rw [ha] at h
      simp only at h
      cases hr : visitStatements self rest with
      | error x => rw [hr] at h; cases h
      | ok b =>
        rw [hr] at h
        have : ks = a ++ b := by cases h; rfl
        subst this
        simp only [List.flatMap_cons, List.mem_append] at hk
        rcases hk with hk | hk
        · have := statement_covers self s a ha k hk
          exact ⟨List.mem_append.mpr (Or.inl this.1), this.2⟩
        · have := statements_cover self rest b hr k hk
          exact ⟨List.mem_append.mpr (Or.inr this.1), this.2⟩

/-- the statement walk fails exactly when a `let`/`export` expression instantiates the own package -/
theorem statements_error_iff (self : Str) : ∀ (stmts : List Statement),
    visitStatements self stmts = .error .cannotInstantiateSelf ↔
      (stmts.flatMap Spec.stmtNews).any (·.name == self) = true
  | [] => by simp [visitStatements]
  | s :: rest => by
    rw [visitStatements]
    simp only [List.flatMap_cons, List.any_append, Bool.or_eq_true]
    rw [← statements_error_iff self rest]
    unfold visitStatement Spec.stmtNews
    cases s with
    | Import i =>
      simp only [List.any_nil, Bool.false_eq_true, false_or]
      cases visitStatements self rest with
      | error x => cases x; simp
      | ok b => simp
    | Type' t =>
      simp only [List.any_nil, Bool.false_eq_true, false_or]
      cases visitStatements self rest with
      | error x => cases x; simp
      | ok b => simp
    | Let l =>
      simp only
      rw [← expr_error_iff self l.expr]
      cases expr self l.expr with
      | error x => cases x; simp
      | ok a =>
        cases visitStatements self rest with
        | error x => cases x; simp
        | ok b => simp
    | Export e =>
      simp only
      rw [← expr_error_iff self e.expr]
      cases expr self e.expr with
      | error x => cases x; simp
      | ok a =>
        cases visitStatements self rest with
        | error x => cases x; simp
        | ok b => simp

end Wac.Lemmas.C17
