import WacProofs.Lemmas.PrinterParseExpr
import WacProofs.Lemmas.PrinterParseTypes
/-
  C13, statements: `let`, `export` (all `ExportOptions`), `import` (generic in the lemma for its
  `ImportType`), the package directive, the statement loop and the document-level assembly
  (generic in the per-statement lemma).
-/
namespace Wac.Lemmas.PrinterParse
open Wac Wac.Ast Wac.Lex Wac.Parse Wac.PrintTok

theorem externName_ok {n : ExternName} (hwf : n.wf = true) {st : PState} {rest : List PTok}
    (h : E st = externName n :: rest) :
    ∃ n' st', parseExternName st = .ok (n', st') ∧ n'.erase = n.erase ∧ E st' = rest := by
  cases n with
  | Ident id =>
    obtain ⟨i', st1, h1, hi, hE1⟩ := parseIdent_ok (i := id) hwf h rfl rfl
    pt_exists st1, hE1
    · simp only [parseExternName, peekTok_of_E h (k := .Ident) rfl, h1, bind_ok]; rfl
    · simp [ExternName.erase, hi]
  | String s =>
    obtain ⟨s', st1, h1, hs, hE1⟩ := parseString_ok s h rfl rfl
    pt_exists st1, hE1
    · simp only [parseExternName, peekTok_of_E h (k := .String) rfl, h1, bind_ok]; rfl
    · simp [ExternName.erase, hs]

/-! ### `let` -/

theorem letStatement_ok (hdocs : DocsNF) (s : LetStatement) (hwf : s.wf = true) (fuel : Nat)
    (hf : 3 * (letStatement s).length ≤ fuel) :
    ParsesTo (parseLetStatement fuel) LetStatement.erase (letStatement s) s (fun _ => True) := by
  intro st rest hE _
  simp only [LetStatement.wf, Bool.and_eq_true] at hwf
  simp only [letStatement, List.cons_append, List.append_assoc, List.length_cons,
    List.length_append] at hE hf
  have hd := parseDocs_erase hdocs hE (ds := s.docs) rfl
  obtain ⟨t1, st1, h1, -, hE1⟩ := parseToken_ok hE (k := .LetKeyword) rfl
  obtain ⟨i', st2, h2, hi, hE2⟩ := parseIdent_ok hwf.1 hE1 rfl rfl
  obtain ⟨t3, st3, h3, -, hE3⟩ := parseToken_ok hE2 (k := .Equals) rfl
  obtain ⟨e', st4, h4, he, hE4⟩ := expr_ok s.expr hwf.2 fuel (by omega) st3 _ hE3
    (headNot_cons (k := .Semicolon) rfl (by decide))
  obtain ⟨t5, st5, h5, -, hE5⟩ := parseToken_ok hE4 (k := .Semicolon) rfl
  pt_exists st5, hE5
  · simp only [parseLetStatement, h1, h2, h3, h4, h5, bind_ok]; rfl
  · simp [LetStatement.erase, hd, hi, he]

/-! ### `export` -/

theorem exportStatement_ok (hdocs : DocsNF) (s : ExportStatement) (hwf : s.wf = true) (fuel : Nat)
    (hf : 3 * (exportStatement s).length ≤ fuel) :
    ParsesTo (parseExportStatement fuel) ExportStatement.erase (exportStatement s) s (fun _ => True) := by
  intro st rest hE _
  obtain ⟨docs, e, opts⟩ := s
  simp only [ExportStatement.wf, Bool.and_eq_true] at hwf
  simp only [exportStatement, List.cons_append, List.append_assoc, List.length_cons,
    List.length_append] at hE hf
  have hd := parseDocs_erase hdocs hE (ds := docs) rfl
  obtain ⟨t1, st1, h1, -, hE1⟩ := parseToken_ok hE (k := .ExportKeyword) rfl
  cases opts with
  | None =>
    simp only [List.nil_append] at hE1
    obtain ⟨e', st2, h2, he, hE2⟩ := expr_ok e hwf.1 fuel (by omega) st1 _ hE1
      (headNot_cons (k := .Semicolon) rfl (by decide))
    have hh : headIs .Semicolon (E st2) := hE2 ▸ headIs_cons rfl
    obtain ⟨t3, st3, h3, -, hE3⟩ := parseToken_ok hE2 (k := .Semicolon) rfl
    pt_exists st3, hE3
    · simp only [parseExportStatement, h1, h2, bind_ok, parseExportOptions,
        peekIs_false hh (k' := .Ellipsis) (by decide), peekIs_false hh (k' := .AsKeyword) (by decide),
        Bool.false_eq_true, if_false, h3]
      rfl
    · simp [ExportStatement.erase, hd, he, ExportOptions.erase]
  | Spread sp =>
    simp only [List.cons_append, List.nil_append] at hE1
    obtain ⟨e', st2, h2, he, hE2⟩ := expr_ok e hwf.1 fuel (by omega) st1 _ hE1
      (headNot_cons (k := .Ellipsis) rfl (by decide))
    have hh : headIs .Ellipsis (E st2) := hE2 ▸ headIs_cons rfl
    obtain ⟨t3, st3, h3, -, hE3⟩ := parseToken_ok hE2 (k := .Ellipsis) rfl
    obtain ⟨t4, st4, h4, -, hE4⟩ := parseToken_ok hE3 (k := .Semicolon) rfl
    pt_exists st4, hE4
    · simp only [parseExportStatement, h1, h2, bind_ok, parseExportOptions, peekIs_true hh, if_true,
        h3, h4]
      rfl
    · simp [ExportStatement.erase, hd, he, ExportOptions.erase]
  | Rename n =>
    simp only [List.cons_append, List.nil_append] at hE1
    simp only [ExportOptions.wf] at hwf
    obtain ⟨e', st2, h2, he, hE2⟩ := expr_ok e hwf.1 fuel (by omega) st1 _ hE1
      (headNot_cons (k := .AsKeyword) rfl (by decide))
    have hh : headIs .AsKeyword (E st2) := hE2 ▸ headIs_cons rfl
    obtain ⟨t3, st3, h3, -, hE3⟩ := parseToken_ok hE2 (k := .AsKeyword) rfl
    obtain ⟨n', st4, h4, hn, hE4⟩ := externName_ok hwf.2 hE3
    obtain ⟨t5, st5, h5, -, hE5⟩ := parseToken_ok hE4 (k := .Semicolon) rfl
    pt_exists st5, hE5
    · simp only [parseExportStatement, h1, h2, bind_ok, parseExportOptions,
        peekIs_false hh (k' := .Ellipsis) (by decide), peekIs_true hh, Bool.false_eq_true, if_false,
        if_true, h3, h4, h5]
      rfl
    · simp [ExportStatement.erase, hd, he, ExportOptions.erase, hn]

/-! ### `import` -/

/-- the import types that are not inline interfaces -/
theorem importType_ok_simple (t : ImportType) (hwf : t.wf = true) (hni : ∀ i, t ≠ .Interface i)
    (fuel : Nat) (hf : 3 * (importType t).length ≤ fuel) :
    ParsesTo (parseImportType fuel) ImportType.erase (importType t) t (headIs .Semicolon) := by
  intro st rest hE hF
  cases t with
  | Interface i => exact absurd rfl (hni i)
  | Package p =>
    simp only [importType, List.cons_append, List.nil_append] at hE
    simp only [ImportType.wf] at hwf
    obtain ⟨p', st1, h1, hp, hE1⟩ := parsePackagePath_ok hwf hE rfl rfl
    pt_exists st1, hE1
    · simp only [parseImportType, peekTok_of_E hE (k := .PackagePath) rfl, h1, bind_ok]; rfl
    · simp [ImportType.erase, hp]
  | Ident id =>
    simp only [importType, List.cons_append, List.nil_append] at hE
    simp only [ImportType.wf] at hwf
    obtain ⟨i', st1, h1, hi, hE1⟩ := parseIdent_ok hwf hE rfl rfl
    pt_exists st1, hE1
    · simp only [parseImportType, peekTok_of_E hE (k := .Ident) rfl, h1, bind_ok]; rfl
    · simp [ImportType.erase, hi]
  | Func ft =>
    simp only [importType] at hE hf
    simp only [ImportType.wf] at hwf
    obtain ⟨ft', st1, h1, hft, hE1⟩ := funcType_ok ft hwf fuel hf st rest hE (hF.headNot (by decide))
    have hE' := hE
    simp only [funcType, List.cons_append] at hE'
    pt_exists st1, hE1
    · simp only [parseImportType, peekTok_of_E hE' (k := .FuncKeyword) rfl, h1, bind_ok]; rfl
    · simp [ImportType.erase, hft]

theorem importStatement_ok (hdocs : DocsNF) (s : ImportStatement) (hwf : s.wf = true) (fuel : Nat)
    (hty : ParsesTo (parseImportType fuel) ImportType.erase (importType s.ty) s.ty (headIs .Semicolon)) :
    ParsesTo (parseImportStatement fuel) ImportStatement.erase (importStatement s) s (fun _ => True) := by
  intro st rest hE _
  obtain ⟨docs, id, name, ty⟩ := s
  simp only [ImportStatement.wf, Bool.and_eq_true] at hwf
  simp only [importStatement, List.cons_append, List.append_assoc] at hE
  have hd := parseDocs_erase hdocs hE (ds := docs) rfl
  obtain ⟨t1, st1, h1, -, hE1⟩ := parseToken_ok hE (k := .ImportKeyword) rfl
  obtain ⟨i', st2, h2, hi, hE2⟩ := parseIdent_ok hwf.1.1 hE1 rfl rfl
  cases name with
  | none =>
    simp only [List.nil_append] at hE2
    obtain ⟨t3, st3, h3, -, hE3⟩ := parseToken_ok hE2 (k := .Colon) rfl
    obtain ⟨ty', st4, h4, hty', hE4⟩ := hty st3 _ hE3 (headIs_cons rfl)
    obtain ⟨t5, st5, h5, -, hE5⟩ := parseToken_ok hE4 (k := .Semicolon) rfl
    pt_exists st5, hE5
    · simp only [parseImportStatement, h1, h2, bind_ok]
      rw [parseOptional_none _ (hE2 ▸ headNot_cons (k := .Colon) rfl (by decide))]
      simp only [h3, h4, h5, bind_ok]
      rfl
    · simp [ImportStatement.erase, hd, hi, hty']
  | some n =>
    simp only [List.cons_append, List.nil_append] at hE2
    have hE3 := E_next hE2
    obtain ⟨n', st4, h4, hn, hE4⟩ := externName_ok (n := n) hwf.1.2 hE3
    obtain ⟨t5, st5, h5, -, hE5⟩ := parseToken_ok hE4 (k := .Colon) rfl
    obtain ⟨ty', st6, h6, hty', hE6⟩ := hty st5 _ hE5 (headIs_cons rfl)
    obtain ⟨t7, st7, h7, -, hE7⟩ := parseToken_ok hE6 (k := .Semicolon) rfl
    pt_exists st7, hE7
    · simp only [parseImportStatement, h1, h2, bind_ok]
      rw [parseOptional_eq _ hE2 rfl]
      simp only [h4, optMap_ok, h5, h6, h7, bind_ok]
      rfl
    · simp [ImportStatement.erase, hd, hi, hty', hn]

/-! ### the package directive -/

theorem packageDirective_ok (ds : List DocComment) (d : PackageDirective) (hwf : d.wf = true) :
    ParsesTo parsePackageDirective PackageDirective.erase (packageDirective ds d) d (fun _ => True) := by
  intro st rest hE _
  obtain ⟨pkg, targets⟩ := d
  simp only [PackageDirective.wf, Bool.and_eq_true] at hwf
  simp only [packageDirective, List.cons_append, List.append_assoc] at hE
  obtain ⟨t1, st1, h1, -, hE1⟩ := parseToken_ok hE (k := .PackageKeyword) rfl
  obtain ⟨p', st2, h2, hp, hE2⟩ := parsePackageName_ok hwf.1 hE1 rfl rfl
  cases targets with
  | none =>
    simp only [List.nil_append] at hE2
    obtain ⟨t3, st3, h3, -, hE3⟩ := parseToken_ok hE2 (k := .Semicolon) rfl
    pt_exists st3, hE3
    · simp only [parsePackageDirective, h1, h2, bind_ok]
      rw [parseOptional_none _ (hE2 ▸ headNot_cons (k := .Semicolon) rfl (by decide))]
      simp only [h3, bind_ok]
      rfl
    · simp [PackageDirective.erase, hp]
  | some t =>
    simp only [List.cons_append, List.nil_append] at hE2
    have hE3 := E_next hE2
    obtain ⟨t', st4, h4, ht, hE4⟩ := parsePackagePath_ok (p := t) hwf.2 hE3 rfl rfl
    obtain ⟨t5, st5, h5, -, hE5⟩ := parseToken_ok hE4 (k := .Semicolon) rfl
    pt_exists st5, hE5
    · simp only [parsePackageDirective, h1, h2, bind_ok]
      rw [parseOptional_eq _ hE2 rfl]
      simp only [h4, optMap_ok, h5, bind_ok]
      rfl
    · simp [PackageDirective.erase, hp, ht]

/-! ### `parseStatement` on the three non-type statements -/

theorem statement_let_ok (hdocs : DocsNF) (s : LetStatement) (hwf : s.wf = true) (fuel : Nat)
    (hf : 3 * (letStatement s).length ≤ fuel) :
    ParsesTo (parseStatement fuel) Statement.erase (statement (.Let s)) (.Let s) (fun _ => True) := by
  intro st rest hE _
  simp only [statement] at hE
  obtain ⟨s', st1, h1, hs, hE1⟩ := letStatement_ok hdocs s hwf fuel hf st rest hE trivial
  simp only [letStatement, List.cons_append] at hE
  have hh : headIs .LetKeyword (E st) := hE ▸ headIs_cons rfl
  pt_exists st1, hE1
  · simp only [parseStatement, peekIs_false hh (k' := .ImportKeyword) (by decide), peekIs_true hh,
      Bool.false_eq_true, if_false, if_true, h1, bind_ok]
    rfl
  · simp [Statement.erase, hs]

theorem statement_export_ok (hdocs : DocsNF) (s : ExportStatement) (hwf : s.wf = true) (fuel : Nat)
    (hf : 3 * (exportStatement s).length ≤ fuel) :
    ParsesTo (parseStatement fuel) Statement.erase (statement (.Export s)) (.Export s) (fun _ => True) := by
  intro st rest hE _
  simp only [statement] at hE
  obtain ⟨s', st1, h1, hs, hE1⟩ := exportStatement_ok hdocs s hwf fuel hf st rest hE trivial
  simp only [exportStatement, List.cons_append] at hE
  have hh : headIs .ExportKeyword (E st) := hE ▸ headIs_cons rfl
  pt_exists st1, hE1
  · simp only [parseStatement, peekIs_false hh (k' := .ImportKeyword) (by decide),
      peekIs_false hh (k' := .LetKeyword) (by decide), peekIs_true hh,
      Bool.false_eq_true, if_false, if_true, h1, bind_ok]
    rfl
  · simp [Statement.erase, hs]

theorem statement_import_ok (hdocs : DocsNF) (s : ImportStatement) (hwf : s.wf = true) (fuel : Nat)
    (hty : ParsesTo (parseImportType fuel) ImportType.erase (importType s.ty) s.ty (headIs .Semicolon)) :
    ParsesTo (parseStatement fuel) Statement.erase (statement (.Import s)) (.Import s) (fun _ => True) := by
  intro st rest hE _
  simp only [statement] at hE
  obtain ⟨s', st1, h1, hs, hE1⟩ := importStatement_ok hdocs s hwf fuel hty st rest hE trivial
  simp only [importStatement, List.cons_append] at hE
  have hh : headIs .ImportKeyword (E st) := hE ▸ headIs_cons rfl
  pt_exists st1, hE1
  · simp only [parseStatement, peekIs_true hh, if_true, h1, bind_ok]
    rfl
  · simp [Statement.erase, hs]

theorem importType_length_le (s : ImportStatement) :
    (importType s.ty).length ≤ (importStatement s).length := by
  simp only [importStatement, List.length_cons, List.length_append]; omega

/-! ### the statement loop and the document -/

theorem parseStatements_ok (fuel : Nat) (ss : List Statement)
    (hne : ∀ s ∈ ss, 1 ≤ (statement s).length)
    (hitem : ∀ s ∈ ss, ParsesTo (parseStatement fuel) Statement.erase (statement s) s (fun _ => True))
    (n : Nat) (hn : ss.length + 1 ≤ n) (st : PState) (hE : E st = ss.flatMap statement) :
    ∃ ss' st', parseStatements fuel n st = .ok (ss', st') ∧
      ss'.map Statement.erase = ss.map Statement.erase := by
  induction ss generalizing n st with
  | nil =>
    obtain ⟨n, rfl⟩ : ∃ m, n = m + 1 := ⟨n - 1, by simp at hn; omega⟩
    have : st.toks = [] := E_nil (by simpa using hE)
    exact ⟨[], st, by simp [parseStatements, PState.peek, this], rfl⟩
  | cons s ss ih =>
    obtain ⟨n, rfl⟩ : ∃ m, n = m + 1 := ⟨n - 1, by simp at hn; omega⟩
    simp only [List.flatMap_cons] at hE
    obtain ⟨s', st1, h1, hs, hE1⟩ := hitem s (List.mem_cons_self ..) st _ hE trivial
    obtain ⟨ss', st2, h2, hss⟩ := ih (fun x hx => hne x (List.mem_cons_of_mem _ hx))
      (fun x hx => hitem x (List.mem_cons_of_mem _ hx)) n (by simp at hn ⊢; omega) st1 hE1
    have hpk : ∃ lt, st.peek = some lt := by
      have := hne s (List.mem_cons_self ..)
      cases hst : statement s with
      | nil => rw [hst] at this; simp at this
      | cons t tl =>
        rw [hst] at hE
        obtain ⟨lt, hp, -, -, -⟩ := peek_of_E hE
        exact ⟨lt, hp⟩
    obtain ⟨lt, hp⟩ := hpk
    refine ⟨s' :: ss', st2, ?_, by simp [hs, hss]⟩
    simp only [parseStatements, hp, h1, h2, bind_ok]

/-- the document-level assembly, generic in the lemma for single statements -/
theorem document_ok (hdocs : DocsNF) (d : Document) (hwf : d.wf = true)
    (hne : ∀ s ∈ d.statements, 1 ≤ (statement s).length)
    (hitem : ∀ s ∈ d.statements, ∀ fuel, 3 * (statement s).length ≤ fuel →
      ParsesTo (parseStatement fuel) Statement.erase (statement s) s (fun _ => True))
    (st : PState) (hst : E st = printTokens d) :
    ∃ d', parseTokens st = .ok d' ∧ d'.erase = d.erase := by
  obtain ⟨docs, dir, stmts⟩ := d
  simp only [Document.wf, Bool.and_eq_true] at hwf
  simp only [printTokens] at hst
  have hlen : st.toks.length = (packageDirective docs dir ++ stmts.flatMap statement).length := by
    rw [← E_length, hst]
  obtain ⟨dir', st1, h1, hdir, hE1⟩ := packageDirective_ok docs dir hwf.1 st _ hst trivial
  have hd : eraseDocs (parseDocs st) = eraseDocs docs := by
    have hst' := hst
    simp only [packageDirective, List.cons_append] at hst'
    exact parseDocs_erase hdocs hst' rfl
  have hl1 : st1.toks.length = (stmts.flatMap statement).length := by rw [← E_length, hE1]
  obtain ⟨ss', st2, h2, hss⟩ := parseStatements_ok (fuelFor st.toks.length) stmts hne
    (fun s hs => hitem s hs _ (by
      have := flatMap_mem_length statement stmts s hs
      rw [hlen, List.length_append]; unfold fuelFor; omega))
    (st1.toks.length + 1) (by
      have := length_le_flatMap statement stmts hne
      omega) st1 hE1
  refine ⟨⟨parseDocs st, dir', ss'⟩, ?_, ?_⟩
  · simp only [parseTokens, h1, h2, bind_ok]
  · simp [Document.erase, hd, hdir, hss]

end Wac.Lemmas.PrinterParse
